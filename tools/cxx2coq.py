#!/usr/bin/env python3
"""cxx2coq: clang typed JSON AST of instantiated C++ member functions -> Gallina.

Every integer value is a Z.  An unsigned w-bit result is `wrapU w e` exactly where C++
computes in that type; signed arithmetic is unbounded Z (theorems carry range
hypotheses); narrowing to signed is `wrapS w`.  bool is Coq bool.  Member arrays are
`Z -> Z` updated with `upd`.  Loops become `Fixpoint ... (fuel : nat)` with a one-step
unfolding lemma.  MOMO_ASSERT / assert become `Stuck` outcomes (never dropped).

Usage (library): see translate_group().  CLI:
    cxx2coq.py <group.json> <out.v>
group.json:
{ "name": "Gen_Open2N2", "tu": "path/inst.cpp", "filter": "BucketOpen2N2",
  "class": "BucketOpen2N2",            # specialization name (first match, or "spec_index")
  "includes": ["/repo/include"], "std": "c++17",
  "fields": {"mState": "array"},       # member fields visible to translated code: scalar|array|bool
  "symbolic": ["logInitialItemCount"], # static consts kept as Section variables
  "functions": ["pvGetMaxProbe", ...], # in dependency order
  "opaque_locals": {"GetHashCodePart": ["index"]},   # locals whose initialiser is replaced by a parameter
  "functor_params": {"GetHashCodePart": {"hashCodeFullGetter": "value"}, "AddCrt": {"itemCreator": "skip"}},
  "skip_params": {"AddCrt": ["params"]},
  "fuel": {"pvUpdateMaxProbe": "65"} }
"""
import json, sys, os, re, subprocess, hashlib

class TranslationError(Exception):
    pass

def load_objs(txt):
    dec = json.JSONDecoder(); i = 0; objs = []
    n = len(txt)
    while i < n:
        while i < n and txt[i] in ' \n\r\t':
            i += 1
        if i >= n:
            break
        if txt[i] != '{':
            j = txt.find('\n', i); i = j + 1 if j >= 0 else n; continue
        o, j = dec.raw_decode(txt, i); objs.append(o); i = j
    return objs

UT = {'unsigned char': 8, 'unsigned short': 16, 'unsigned int': 32, 'unsigned long': 64,
      'unsigned long long': 64, 'uint8_t': 8, 'uint16_t': 16, 'uint32_t': 32, 'uint64_t': 64,
      'size_t': 64, 'uintptr_t': 64, 'std::size_t': 64, 'char8_t': 8, 'char16_t': 16, 'char32_t': 32,
      'unsigned __int128': 128}
ST = {'int': 32, 'signed char': 8, 'char': 8, 'short': 16, 'long': 64, 'long long': 64, 'int8_t': 8,
      'int16_t': 16, 'int32_t': 32, 'int64_t': 64, 'ptrdiff_t': 64, 'std::ptrdiff_t': 64, 'intptr_t': 64,
      '__int128': 128}

def strip_q(t):
    t = re.sub(r'\b(const|volatile)\b', '', t)
    t = t.replace('&', '').strip()
    return re.sub(r'\s+', ' ', t)

OPAQUE_TYPES = []   # C06: set per translation group from cfg['opaque_types']
PTR_ARITH_PLAIN = False   # C11: set per translation group from cfg['handle_refs']

def ctype_of_str(t):
    t = strip_q(t)
    if t == 'bool' or t == '_Bool':
        return ('bool',)
    if t in UT:
        return ('u', UT[t])
    if t in ST:
        return ('s', ST[t])
    if t == 'void':
        return ('void',)
    if t.endswith('*'):
        return ('ptr', t)
    m = re.match(r'(.*)\[(\d+)\]$', t)
    if m:
        return ('arr', ctype_of_str(m.group(1)), int(m.group(2)))
    if t in ('double', 'float', 'long double'):
        return ('float',)
    if any(x in t for x in OPAQUE_TYPES):   # C06: "opaque_types": class types (iterators) carried around as abstract Z values
        return ('u', 64)
    return ('other', t)

def ctype(n):
    ty = n.get('type', {})
    t = ty.get('desugaredQualType') or ty.get('qualType') or ''
    r = ctype_of_str(t)
    if r[0] == 'other' and ty.get('qualType'):
        r2 = ctype_of_str(ty['qualType'])
        if r2[0] != 'other':
            return r2
    return r

def wrap(ct, e):
    if ct[0] == 'u':
        return f'(wrapU {ct[1]} {e})'
    if ct[0] == 's':
        return e
    if ct[0] == 'bool':
        return e
    if ct[0] == 'ptr' and PTR_ARITH_PLAIN:   # C11 ("handle_refs"): ++/-- of an abstract item pointer is plain +-1 on its abstract value
        return e
    raise TranslationError('wrap: unsupported type %r' % (ct,))

def coq_ty(ct):
    if ct[0] in ('u', 's'):
        return 'Z'
    if ct[0] == 'bool':
        return 'bool'
    if ct[0] == 'arr':
        return '(Z -> Z)'
    if ct[0] == 'void':
        return 'unit'
    if ct[0] == 'ptr':
        return 'Z'
    if ct[0] == 'pair':
        return '(Z * Z)'
    if ct[0] == 'fnpred':   # C12: index_pred functor
        return '(Z -> bool)'
    if ct[0] == 'abs':      # C12: abstract ghost field type
        return ct[1]
    raise TranslationError('coq_ty: unsupported type %r' % (ct,))

COQ_RESERVED = {'mod', 'in', 'end', 'at', 'as', 'fun', 'fix', 'using', 'where', 'with', 'return', 'Type', 'Set', 'Prop'}
def coq_ident(nm):
    """C18: a C++ parameter whose name is a Gallina keyword (UIntMath::Ceil(value, mod)) gets a trailing underscore"""
    return nm + '_' if nm in COQ_RESERVED else nm

def skip_wrappers(n):
    while n.get('kind') in ('ParenExpr', 'ExprWithCleanups', 'MaterializeTemporaryExpr', 'ConstantExpr',
                            'CXXBindTemporaryExpr', 'SubstNonTypeTemplateParmExpr') and n.get('inner'):
        n = n['inner'][-1] if n['kind'] == 'SubstNonTypeTemplateParmExpr' else n['inner'][0]
    return n

def is_assert_stmt(n):
    """MOMO_ASSERT(e) expands (glibc assert) to a ConditionalOperator/… calling __assert_fail, or
    `(static_cast<bool>(e) ? void(0) : __assert_fail(...))`."""
    s = json.dumps(n)
    return '__assert_fail' in s

def find_assert_cond(n):
    n = skip_wrappers(n)
    if n.get('kind') == 'ConditionalOperator':
        return n['inner'][0]
    if n.get('kind') == 'CStyleCastExpr' or n.get('kind') == 'CXXFunctionalCastExpr':
        return find_assert_cond(n['inner'][0])
    for c in n.get('inner', []):
        r = find_assert_cond(c)
        if r is not None:
            return r
    return None

class Ctx:
    """per-group context"""
    def __init__(self, cfg):
        self.cfg = cfg
        self.fields = cfg.get('fields', {})          # name -> kind
        self.symbolic = set(cfg.get('symbolic', []))
        self.consts = {}                             # name -> (coq_ty, text)
        self.const_order = []
        self.fninfo = {}                             # name -> Fn (translated)
        self.fninfo_id = {}                          # decl id -> Fn (translated)
        self.overloads = {}                          # name -> number of overloads with a body in the specialization
        self.static_decls = {}                       # name -> VarDecl node (static const members)
        self.static_tables = {}                      # local static const arrays: name -> list
        self.accessors = {}                          # reference-returning accessors: name -> (field, index node, params)
        self.ptr_accessors = {}                      # pointer-returning accessors `return field;`: name -> field (checked)

class ExternFn:
    """C12 ("extern_calls": {"Remove": {"coq": "w_remove", "object": true, "args": [0, 1], "reads": ["world"], "writes": ["world"]}}):
    a callee that is NOT translated here but modelled by a Section variable of outcome type that reads / writes configured (ghost)
    fields: `x = obj.Remove(a, b, c)` becomes `match w_remove world obj a b with Ok (x, world) => .. | Stuck => Stuck ..`.
    "args" selects the call arguments that are passed (functor arguments are left out)."""
    def __init__(self, ctx, name, cfg):
        self.ctx = ctx; self.name = name; self.out = cfg['coq']; self.cfg = cfg
        self.nonsimple = True; self.is_static = False; self.functors = {}; self.skipp = set(); self.d = {'inner': []}
        self.fieldnames = list(cfg.get('reads', cfg.get('writes', [])))
        self.writes_fields = set(cfg.get('writes', []))
    def field_args_for(self, caller):
        return list(self.fieldnames)
    def out_fields(self):
        return [f for f in self.cfg.get('writes', [])]


class Fn:
    def __init__(self, ctx, decl, outname=None):
        self.ctx = ctx; self.d = decl; self.name = decl['name']; self.out = outname or self.name
        cfg = ctx.cfg
        self.opaque = set(cfg.get('opaque_locals', {}).get(self.name, []))
        self.functors = cfg.get('functor_params', {}).get(self.name, {})
        self.skipp = set(cfg.get('skip_params', {}).get(self.name, []))
        self.fuel = cfg.get('fuel', {}).get(self.name, '(Z.to_nat 70)')
        self.is_static = decl.get('storageClass') == 'static'
        if self.name in cfg.get('static_with_state', []):   # C05: a static function whose object PARAMETER is modelled by the configured fields
            self.is_static = False
        q = decl['type']['qualType']
        self.is_const = bool(re.search(r'\)\s*const', q))
        self.ret_ct = ctype_of_str(q.split('(')[0].strip()) if not self.ret_override() else self.ret_override()
        if self.ret_ct[0] == 'other' and 'pair<' in self.ret_ct[1]:   # C18: std::pair<size_t, size_t> result -> (Z * Z)
            self.ret_ct = ('pair',)
        self.params = []    # (name, coq_ty)
        self.env = {}       # name -> ctype
        # C16: "out_params": {"F": ["a","b"]} – reference out-parameters of a void function: not inputs, the
        # function returns the tuple (a, b) of their final values (a read before the first write is an unbound
        # Gallina variable = broken tie)
        self.outp = list(cfg.get('out_params', {}).get(self.name, []))
        # C18: "deref_out_params": {"F": ["p"]} -- an OPTIONAL pointer out-parameter (`size_t* p = nullptr`): p itself stays an input
        # (Z, 0 = nullptr, so `p != nullptr` translates as usual); `*p = v` assigns the extra result p_out (0 when never written)
        self.deref_out = list(cfg.get('deref_out_params', {}).get(self.name, []))
        for dn_ in self.deref_out:
            self.outp.append(dn_ + '_out'); self.env[dn_ + '_out'] = ('u', 64)
        for p in decl.get('inner', []):
            if p['kind'] == 'ParmVarDecl':
                nm = p.get('name')
                if nm is None or nm in self.skipp:
                    continue
                # C18: "array_params": {"F": ["data"]} -- a pointer parameter used as an array (`data[i]`): typed (Z -> Z) like an array field;
                # together with out_params + inout_params a written array is returned (UIntMath::SetBit(UInt* data, ..))
                ap_ = cfg.get('array_params', {}).get(self.name, [])
                if nm in self.outp:
                    self.env[nm] = ('arr', ('u', 8), 0) if nm in ap_ else ctype(p)
                    if nm in cfg.get('inout_params', {}).get(self.name, []):   # C06: reference parameter that is read AND written: input and part of the result tuple
                        self.params.append((nm, coq_ty(self.env[nm])))
                    continue
                if nm in self.functors:
                    mode = self.functors[nm]
                    if mode == 'value':
                        self.params.append((nm, 'Z')); self.env[nm] = ('u', 64)
                    elif mode == 'index_pred':   # C12: predicate applied to an ELEMENT of the item array: modelled as (Z -> bool) on the element index
                        self.params.append((nm, '(Z -> bool)')); self.env[nm] = ('fnpred',)
                    elif mode == 'fails':   # C04: a user functor (item creator / replacer) that may THROW: bool parameter <name>_fails; the
                        # function then returns Ok (completed : bool, fields): completed = false <=> the functor threw at its call site and
                        # `fields` are the member values AT THAT MOMENT (what the caller sees when the exception propagates)
                        self.params.append((nm + '_fails', 'bool')); self.env[nm + '_fails'] = ('bool',)
                    continue
                rp_ = cfg.get('ref_params', {}).get(self.name, {})   # C05: `const Item& item` that may refer to an ELEMENT of the array field:
                if nm in rp_:                                         # modelled by the element index <nm>_idx; a read of nm reads the cell at that moment
                    if not hasattr(self, 'refp'): self.refp = {}
                    self.refp[nm] = (rp_[nm], nm + '_idx'); self.params.append((nm + '_idx', 'Z')); self.env[nm + '_idx'] = ('u', 64)
                    continue
                nm = coq_ident(nm)
                ct = ctype(p)
                if nm in ap_: ct = ('arr', ('u', 8), 0)   # C18: array_params
                if ct[0] == 'other' and 'pair' in ct[1]:
                    ct = ('pair',)
                if ct[0] == 'other' and ct[1].split('::')[-1] in getattr(ctx, 'enum_types', ()):   # C05: "enum_types"
                    ct = ('s', 32)
                self.env[nm] = ct
                self.params.append((nm, coq_ty(ct)))
        # C04: "failing_locals": {fn: [local]} (a local object whose CONSTRUCTOR may throw, e.g. BucketMemory allocating from a pool) and
        # "failing_calls": {fn: [callee]} (a skipped call that may throw, e.g. RelocateCreate): each becomes a bool parameter <name>_fails
        # and the statement `if <name>_fails then RETURN[false] else ...` (same "completed flag" convention as functor mode "fails")
        # C18: "try_catch": {"F": {"calls": {"createFunc": {"fails": "createFunc_fails", "count": "n_create", "effect": "created"},
        #                                       "destroyFunc": {"effect": "destroyed"}}, "state": ["n_create", "created", "destroyed"]}}
        # -- calls `obj.NAME(..)` through a function pointer / functor member are not executed: "effect" (ghost array field) counts the
        #    calls per OBJECT value; "fails": a (Z -> bool) parameter applied to the ghost call counter "count" says whether THIS call
        #    throws (a per-call schedule, threaded through every loop Fixpoint).  A throw inside `try { .. } catch (...) { H }` runs the
        #    translation of H right at the throw point, i.e. with the locals / fields as they are at that moment; `throw;` in H (and a
        #    throw outside any try) returns completed = false with the fields of that moment (the C04 "completed flag" convention;
        #    unlike C04's "try_catch_fails" this works inside loops: loop results carry the flag and the ghost state).
        self.tc_cfg = cfg.get('try_catch', {}).get(self.name)
        self.tc_handler = None; self.tc_env = None
        if self.tc_cfg:
            for cn_, cc_ in self.tc_cfg.get('calls', {}).items():
                if cc_.get('fails'):
                    self.params.append((cc_['fails'], '(Z -> bool)')); self.env[cc_['fails']] = ('fnpred',)
        self.fail_locals = list(cfg.get('failing_locals', {}).get(self.name, []))
        self.fail_calls = list(cfg.get('failing_calls', {}).get(self.name, []))
        for fn_ in self.fail_locals + self.fail_calls:
            self.params.append((fn_ + '_fails', 'bool')); self.env[fn_ + '_fails'] = ('bool',)
        self._failed_locals = set()
        self.extra_params = []   # opaque locals lifted to parameters
        self.loops = []
        self.nonsimple = False   # needs outcome
        self.writes_fields = set()
        self.lines = []
        self.uniq = 0
        self.fieldnames = list(ctx.fields.keys()) if not self.is_static else []
        for f, k in ctx.fields.items():
            if not self.is_static:
                self.env[f] = ('arr', ('u', 8), 0) if k == 'array' else (('bool',) if k == 'bool' else ('u', 64))
                if isinstance(k, str) and k.startswith('abstract:'):   # C12: ghost field of an abstract (Section variable) type, e.g. "world": "abstract:W"
                    self.env[f] = ('abs', k.split(':', 1)[1])

    def ret_override(self):
        r = self.ctx.cfg.get('ret_types', {}).get(self.d['name'])
        return ctype_of_str(r) if r else None

    # ---------------- expressions ----------------
    def obj_value(self, n):
        """C14 ("object_fields": {"this": fld, "<param>": fld2}): the scalar standing for a class-typed expression -- *this or a
        by-reference parameter viewed as its (base-class) manager sub-object, through casts / std::move / copy construction;
        a class-typed local introduced by such an expression is a plain local.  None if n is not of that shape."""
        of = self.ctx.cfg.get('object_fields')
        if not of:
            return None
        n = skip_wrappers(n)
        while True:
            k = n.get('kind')
            if k in ('ImplicitCastExpr', 'CXXStaticCastExpr', 'ParenExpr', 'MaterializeTemporaryExpr', 'ExprWithCleanups',
                     'CXXBindTemporaryExpr', 'CXXFunctionalCastExpr') and n.get('inner'):
                n = skip_wrappers(n['inner'][-1]); continue
            if k == 'CXXConstructExpr' and len(n.get('inner', [])) == 1:
                n = skip_wrappers(n['inner'][0]); continue
            if k == 'CallExpr' and len(n.get('inner', [])) == 2:
                try:
                    nm, _ = self.callee_name(n)
                except TranslationError:
                    return None
                if nm in ('move', 'forward'):
                    n = skip_wrappers(n['inner'][1]); continue
                return None
            if k == 'CXXMemberCallExpr' and len(n.get('inner', [])) == 1:
                # C14: "object_accessors": [GetMemManager]: `GetMemManager()` / `data.GetMemManager()` IS the object (it returns *this as its base)
                try:
                    nm, c_ = self.callee_name(n)
                except TranslationError:
                    return None
                if nm in self.ctx.cfg.get('object_accessors', []):
                    ob_ = skip_wrappers(c_['inner'][0]) if c_.get('inner') else None
                    while ob_ is not None and ob_['kind'] == 'ImplicitCastExpr' and ob_.get('inner'):
                        ob_ = skip_wrappers(ob_['inner'][0])
                    if ob_ is None or ob_['kind'] == 'CXXThisExpr':
                        return of.get('this')
                    if ob_['kind'] == 'DeclRefExpr' and ob_['referencedDecl']['name'] in of:
                        return of[ob_['referencedDecl']['name']]
                return None
            break
        if n.get('kind') == 'UnaryOperator' and n.get('opcode') == '*' and skip_wrappers(n['inner'][0]).get('kind') == 'CXXThisExpr':
            return of.get('this')
        if n.get('kind') == 'DeclRefExpr':
            nm = n['referencedDecl']['name']
            if nm in of:
                return of[nm]
            if nm in getattr(self, 'obj_locals', set()):
                return nm
        return None

    def e(self, n):
        k = n['kind']
        if k == 'GallinaVar':   # C09 (hoist_calls): the already bound result of a hoisted non-simple call
            return n['text']
        ov_ = self.obj_value(n) if self.ctx.cfg.get('object_fields') else None
        if ov_ is not None:
            return ov_
        if self.ctx.cfg.get('same_object_var') and k == 'BinaryOperator' and n.get('opcode') in ('!=', '==') and len(n.get('inner', [])) == 2:
            # C14: "same_object_var": `this != &param` / `this == &param` -> the named Gallina bool (a section variable)
            a_, b_ = skip_wrappers(n['inner'][0]), skip_wrappers(n['inner'][1])
            while b_['kind'] == 'ImplicitCastExpr' and b_.get('inner'): b_ = skip_wrappers(b_['inner'][0])
            while a_['kind'] == 'ImplicitCastExpr' and a_.get('inner'): a_ = skip_wrappers(a_['inner'][0])
            if a_['kind'] == 'CXXThisExpr' and b_['kind'] == 'UnaryOperator' and b_.get('opcode') == '&' and \
                    skip_wrappers(b_['inner'][0]).get('kind') == 'DeclRefExpr':
                v_ = self.ctx.cfg['same_object_var']
                return v_ if n['opcode'] == '==' else f'(negb {v_})'
        if k == 'SubstNonTypeTemplateParmExpr':
            return self.e(n['inner'][-1])
        if k in ('ParenExpr', 'ExprWithCleanups', 'MaterializeTemporaryExpr', 'ConstantExpr',
                 'CXXBindTemporaryExpr'):
            return self.e(n['inner'][0])
        if k == 'InitListExpr':
            if len(n.get('inner', [])) == 1:
                return self.e(n['inner'][0])
            if self.ctx.cfg.get('opaque_types') and len(n.get('inner', [])) in (2, 3):   # C06: aggregate results such as insert_return_type{ position, inserted, node }
                return '(' + ', '.join(self.e(x) for x in n['inner']) + ')'
            raise TranslationError('InitListExpr with %d elements' % len(n.get('inner', [])))
        if k == 'IntegerLiteral':
            return '(' + n['value'] + ')'
        if k == 'FloatingLiteral':   # C11: double arithmetic is modelled by exact rationals (Q); only integral literals occur (8.0, 12.0 ...)
            v = float(n['value'])
            if v != int(v) or v < 0:
                raise TranslationError('floating literal ' + str(n['value']))
            return '(inject_Z (%d))' % int(v)
        if k == 'CXXBoolLiteralExpr':
            return 'true' if n['value'] else 'false'
        if k == 'CharacterLiteral':
            return '(%d)' % n['value']
        if k == 'DeclRefExpr':
            return self.ref(n)
        if k in ('ImplicitCastExpr', 'CXXStaticCastExpr', 'CStyleCastExpr', 'CXXFunctionalCastExpr'):
            return self.cast(n)
        if k == 'ArraySubscriptExpr' and self.ctx.cfg.get('element_address'):   # C16: `mSegments[s][j]` (an Item&) is modelled by the
            b0 = skip_wrappers(n['inner'][0])                                      # element's ADDRESS  (mSegments s) + j  (stride = one item)
            while b0.get('kind') == 'ImplicitCastExpr':
                b0 = skip_wrappers(b0['inner'][0])
            if b0.get('kind') == 'CXXOperatorCallExpr' and self.memobj(b0) is not None and self.memobj(b0)[1] == 'operator[]':
                return f"({self.e(b0)} + {self.e(n['inner'][1])})"
        if k == 'ArraySubscriptExpr':
            base = self.lv_base(n['inner'][0]); idx = self.e(n['inner'][1])
            if base in self.ctx.static_tables:
                return f'(tbl_{base} {idx})'
            return f'({base} {idx})'
        if k == 'MemberExpr':
            return self.member(n)
        if k in ('CXXMemberCallExpr', 'CXXOperatorCallExpr') and self.memobj(n) is not None:   # C16: vector-like member sub-object
            mo, meth, margs = self.memobj(n)
            if meth == 'GetCount' and not margs:
                return mo['n']
            if meth == 'GetCapacity' and not margs and mo.get('cap'):   # C05
                return mo['cap']
            if meth == 'operator[]' and len(margs) == 1:
                return f"({mo['arr']} {self.e(margs[0])})"
            raise TranslationError('member object method %s used as an expression' % meth)
        if k in ('CXXMemberCallExpr', 'CallExpr'):
            return self.call_expr(n)
        if k == 'CXXOperatorCallExpr':
            return self.opcall(n)
        if k == 'UnaryOperator':
            op = n['opcode']; ct = ctype(n)
            if op in ('++', '--'):
                raise TranslationError('++/-- inside expression')
            if op == '*' and self.ctx.cfg.get('iter_cells'):   # C16: `*iter` where the iterator is a position in the configured cell array
                return f"({self.ctx.cfg['iter_cells']} {self.e(n['inner'][0])})"
            if op == '&':
                # C12: address of a member listed in "address_of" -> opaque parameter addr_<member> (pointer identity only)
                t = skip_wrappers(n['inner'][0])
                if t.get('kind') == 'MemberExpr' and t.get('name') in self.ctx.cfg.get('address_of', []):
                    pn = 'addr_' + t['name']
                    if (pn, 'Z') not in self.extra_params:
                        self.extra_params.append((pn, 'Z'))
                    return pn
            a = self.e(n['inner'][0])
            if op == '!':
                return f'(negb {a})'
            if op == '-':
                return wrap(ct, f'(- {a})')
            if op == '+':
                return a
            if op == '~':
                return wrap(ct, f'(Z.lnot {a})')
            if op == '&' and self.ctx.cfg.get('addr_of_identity'):   # C11: `&obj` of an abstract (primitive/opaque) object is that abstract value
                return a
            if op == '*' and self.ctx.cfg.get('deref_identity'):   # C12: `*ptr` of an abstract (opaque) object pointer is that abstract value
                return a
            if op == '*' and self.ctx.cfg.get('deref'):
                # C15 ("deref": "<section var : Z -> Z>"): a read through a pointer (e.g. *mContainerVersion) is the abstract memory read
                return f"({self.ctx.cfg['deref']} {a})"
            raise TranslationError('unary operator ' + op)
        if k == 'BinaryOperator':
            return self.binop(n['opcode'], n['inner'][0], n['inner'][1], ctype(n))
        if k == 'ConditionalOperator':
            c, a, b = [self.e(x) for x in n['inner']]
            return f'(if {c} then {a} else {b})'
        if k == 'UnaryExprOrTypeTraitExpr':
            return self.sizeof(n)
        if k == 'CXXNullPtrLiteralExpr':
            return '(0)'
        if k == 'CXXScalarValueInitExpr' and self.ctx.cfg.get('value_init_zero'):
            # C15 ("value_init_zero": true): T() of a scalar / pointer type (e.g. RawIterator() of a pointer iterator) is the zero value
            return '(0)'
        if k in ('CXXConstructExpr', 'CXXTemporaryObjectExpr') and self.ctx.cfg.get('construct_prims'):   # C06: "construct_prims": {"<type substring>": "<prim>"}: T(args...) of an opaque class
            ty_ = (n.get('type', {}).get('desugaredQualType') or n.get('type', {}).get('qualType', ''))
            args_ = [x for x in n.get('inner', []) if isinstance(x, dict)]
            if len(args_) >= 2:
                for sub_, prim_ in self.ctx.cfg['construct_prims'].items():
                    if sub_ in ty_:
                        return '(' + ' '.join([prim_] + [self.e(a) for a in args_]) + ')'
        if k == 'CXXThisExpr' and self.ctx.cfg.get('this_prim'):   # C06: `*this` handed to a constructor / primitive
            return self.ctx.cfg['this_prim']
        if k == 'CXXConstructExpr' and len(n.get('inner', [])) == 1:
            return self.e(n['inner'][0])
        if k == 'CXXConstructExpr' and len(n.get('inner', [])) == 2 and self.ctx.cfg.get('opaque_types') \
                and 'pair<' in (n.get('type', {}).get('desugaredQualType') or n.get('type', {}).get('qualType', '')):
            return f'({self.e(n["inner"][0])}, {self.e(n["inner"][1])})'   # C06: std::pair<iterator, bool>{ it, flag }
        if k in ('CXXConstructExpr', 'CXXTemporaryObjectExpr') and self.ctx.cfg.get('construct_prim') and len(n.get('inner', [])) >= 2:
            # C11: "construct_prim": "<Gallina fn>": a multi-argument construction of an opaque value (a position proxy) is that function of the arguments
            return '(' + ' '.join([self.ctx.cfg['construct_prim']] + [self.e(a) for a in n['inner']]) + ')'
        if k in ('CXXConstructExpr', 'CXXTemporaryObjectExpr', 'CXXScalarValueInitExpr') and not n.get('inner') \
                and self.name in self.ctx.cfg.get('null_construct', []):
            return '(0)'   # C12: `return Iterator();` of a function listed in "null_construct": the null iterator
        if k == 'CXXDefaultArgExpr':
            raise TranslationError('default argument expression')
        if k == 'CXXScalarValueInitExpr':   # C08: `T()` of a scalar / pointer type is zero (`mValueIterator = ValueIterator();`)
            ct8_ = ctype(n)
            if ct8_[0] == 'bool': return 'false'
            if ct8_[0] in ('u', 's', 'ptr'): return '(0)'
        raise TranslationError('expression kind ' + k)

    def sizeof(self, n):
        if n.get('name') != 'sizeof':
            raise TranslationError('type trait ' + str(n.get('name')))
        t = n.get('argType', {}).get('desugaredQualType') or n.get('argType', {}).get('qualType')
        if t is None and n.get('inner'):
            t = n['inner'][0].get('type', {}).get('desugaredQualType') or n['inner'][0]['type']['qualType']
        ct = ctype_of_str(t)
        if ct[0] in ('u', 's'):
            return '(%d)' % (ct[1] // 8)
        if ct[0] == 'ptr':
            return '(8)'
        sz = self.ctx.cfg.get('sizeof', {}).get(strip_q(t))
        if sz is not None:
            return '(%s)' % sz
        raise TranslationError('sizeof(%s) unknown; add to "sizeof" config' % t)

    def ref(self, n):
        rd = n['referencedDecl']; nm = rd['name']
        if rd['kind'] in ('ParmVarDecl',):
            if nm in getattr(self, 'refp', {}):   # C05 ref_params
                return '(%s %s)' % self.refp[nm]
            nm = coq_ident(nm)
            if nm not in self.env:
                raise TranslationError(f'parameter {nm} is skipped/untyped but used in {self.name}')
            return nm
        if rd['kind'] == 'VarDecl' and nm in getattr(self, 'struct_locals', {}):   # C20: a flattened struct local used as a value is re-packed
            sd_ = self.ctx.cfg['struct_locals'][self.struct_locals[nm]]
            return '(' + ' '.join([sd_['pack']] + [nm + '_' + f_ for f_ in sd_['fields']]) + ')'
        if rd['kind'] == 'VarDecl':
            if nm in getattr(self, 'aliases', {}):   # C12: `uint8_t& r = field[idx];` – a read of r is a read of the element
                b, ix = self.aliases[nm]
                return f'({b} {ix})'
            if nm in self.env:
                return nm
            return self.static_const(nm, rd)
        if rd['kind'] == 'EnumConstantDecl':
            if nm in getattr(self.ctx, 'enum_consts', {}):   # C05: value read from the EnumDecl of a configured enum type
                return '(%d)' % self.ctx.enum_consts[nm]
            raise TranslationError('enum constant ' + nm)
        if rd['kind'] == 'NonTypeTemplateParmDecl':
            raise TranslationError('template parameter reference ' + nm)
        raise TranslationError('DeclRef to ' + rd['kind'] + ' ' + nm)

    def static_const(self, nm, rd):
        ctx = self.ctx
        if nm in ctx.symbolic:
            if nm not in ctx.consts:
                ct = ctype(rd); ctx.consts[nm] = (coq_ty(ct), None); ctx.const_order.append(nm)
            return nm
        if nm in ctx.consts:
            return nm
        ov = ctx.cfg.get('const_values', {}).get(nm)
        if ov is not None:
            ctx.consts[nm] = ('Z' if ov not in ('true', 'false') else 'bool', '(%s)' % ov); ctx.const_order.append(nm)
            return nm
        d = ctx.static_decls.get(nm)
        if d is None:
            raise TranslationError('unknown static constant ' + nm)
        init = [x for x in d.get('inner', []) if 'Expr' in x['kind'] or 'Literal' in x['kind'] or x['kind'].endswith('Operator')]
        if not init:
            raise TranslationError('static constant %s has no initialiser in the specialization' % nm)
        ct = ctype(d)
        tmp = Fn.__new__(Fn); tmp.ctx = ctx; tmp.env = {}; tmp.name = '<const %s>' % nm
        tmp.functors = {}; tmp.opaque = set(); tmp.fieldnames = []; tmp.is_static = True
        txt = tmp.e(init[0])
        ctx.consts[nm] = (coq_ty(ct), txt); ctx.const_order.append(nm)
        return nm

    def member(self, n):
        nm = n['name']
        base = skip_wrappers(n['inner'][0]) if n.get('inner') else None
        while base is not None and base['kind'] == 'ImplicitCastExpr' and base.get('castKind') in (
                'UncheckedDerivedToBase', 'DerivedToBase') and base.get('inner'):   # C09: field of a base class (Params::blockSize)
            base = skip_wrappers(base['inner'][0])
        # C04: "union_fields": ["mCapacity"]: a member of an ANONYMOUS union of *this (`this-><anonymous>.mCapacity`) listed there is the
        # configured field of that name -- one field for the union's storage; its other view (a buffer the item creator writes into) is
        # expressed by "functor_clobbers"
        if base is not None and base['kind'] == 'MemberExpr' and not base.get('name') and nm in self.ctx.cfg.get('union_fields', []) \
                and base.get('inner') and skip_wrappers(base['inner'][0]).get('kind') == 'CXXThisExpr':
            base = None
        while base is not None and base['kind'] == 'MemberExpr' and not base.get('name') and base.get('inner'):
            base = skip_wrappers(base['inner'][0])   # C14: member of an anonymous union / struct member (Array::Data::mCapacity)
        # this->field or field
        if base is None or base['kind'] == 'CXXThisExpr':
            if nm in self.ctx.fields:
                if nm not in self.env:
                    raise TranslationError(f'field {nm} used in static function')
                return nm
            mpt_ = self.ctx.cfg.get('member_prims', {}).get(nm)   # C06: a class-type member of *this used only as the object of primitive calls
            if mpt_ is not None:
                return mpt_
            raise TranslationError('member %s is not a configured field' % nm)
        # nested struct member: a.b  -> flattened name a_b if configured
        if base['kind'] == 'MemberExpr':
            flat = base['name'] + '_' + nm
            if flat in self.ctx.fields:
                return flat
        if base['kind'] == 'DeclRefExpr':
            bn = base['referencedDecl']['name']
            flat = bn + '_' + nm
            if flat in self.env:
                return flat
            if bn in self.env and self.env[bn][0] == 'pair':
                return f'({"fst" if nm == "first" else "snd"} {bn})'
        if base['kind'] in ('CallExpr', 'CXXMemberCallExpr') and nm in ('first', 'second'):
            return f'({"fst" if nm == "first" else "snd"} {self.e(base)})'
        if nm == '' and self.ctx.cfg.get('member_prims') and n.get('inner'):   # C10: member of an ANONYMOUS union/struct (InsertResult::{position|iterator}): transparent
            return self.e(n['inner'][0])
        if base['kind'] == 'DeclRefExpr' and nm in ('first', 'second') and self.ctx.cfg.get('opaque_types') and \
                'pair<' in (base.get('type', {}).get('desugaredQualType') or base.get('type', {}).get('qualType', '')):   # C06: local std::pair<iterator, bool>
            return f'({"fst" if nm == "first" else "snd"} {coq_ident(base["referencedDecl"]["name"])})'
        mp_ = self.ctx.cfg.get('member_prims', {}).get(nm)   # C06: "member_prims": {"first": "key_of_elem"}: a data member of an opaque value
        if mp_ is not None:
            return f'({mp_} {self.e(base)})'
        raise TranslationError('member expression %s on %s' % (nm, base['kind']))

    def callee_name(self, n):
        c = skip_wrappers(n['inner'][0])
        while c['kind'] == 'ImplicitCastExpr':
            c = skip_wrappers(c['inner'][0])
        if c['kind'] == 'MemberExpr':
            return c['name'], c
        if c['kind'] == 'DeclRefExpr':
            return c['referencedDecl']['name'], c
        raise TranslationError('callee kind ' + c['kind'])

    def lookup_fn(self, nm, c):
        """resolve a callee to a translated function BY DECLARATION, not by name: a call to an overload other than
        the translated one must not silently bind to the translated one"""
        rid = None
        if c is not None:
            rid = c.get('referencedMemberDecl') or (c.get('referencedDecl') or {}).get('id')
        if rid is not None and rid in self.ctx.fninfo_id:
            return self.ctx.fninfo_id[rid]
        ex_ = self.ctx.cfg.get('extern_calls', {}).get(nm)   # C12: see ExternFn
        if ex_ is not None:
            return ExternFn(self.ctx, nm, ex_)
        fi = self.ctx.fninfo.get(nm)
        if fi is not None and self.ctx.overloads.get(nm, 1) > 1 and rid is not None and fi.d.get('id') != rid:
            raise TranslationError('call to an overload of %s other than the translated one (list it with "index"/"as")' % nm)
        return fi

    def member_object_base(self, c):
        """C12 ("member_objects"): for a call `mObj.Method(...)` return the member object's name, for `local.Method()` on an
        opaque class-typed local return ('local', name); else None"""
        if c is None or c.get('kind') != 'MemberExpr' or not c.get('inner'):
            return None
        b = skip_wrappers(c['inner'][0])
        while b.get('kind') == 'ImplicitCastExpr':
            b = skip_wrappers(b['inner'][0])
        if b.get('kind') == 'MemberExpr' and b.get('name') in self.ctx.cfg.get('member_objects', {}):
            return b['name']
        if b.get('kind') == 'DeclRefExpr' and b['referencedDecl'].get('name') in self.opaque \
                and self.env.get(b['referencedDecl']['name']) == ('u', 64) \
                and b['referencedDecl'].get('name') in self.ctx.cfg.get('opaque_objects', {}):
            return ('local', b['referencedDecl']['name'])
        return None

    def call_expr(self, n):
        nm, c = self.callee_name(n)
        args = n['inner'][1:]
        mob_ = self.member_object_base(c)
        if isinstance(mob_, str):       # C12: getter of a member object modelled as scalar fields, e.g. mPtrState.GetPointer()
            fld_ = self.ctx.cfg['member_objects'][mob_].get(nm)
            if isinstance(fld_, str):
                if fld_ not in self.env:
                    raise TranslationError(f'member object field {fld_} used in static function')
                return fld_
            raise TranslationError('call %s.%s is not a configured getter' % (mob_, nm))
        if isinstance(mob_, tuple):     # C12: any accessor of an opaque class-typed local (memory.GetPointer(), memory.Extract()) is the local's symbol
            if nm in self.ctx.cfg.get('opaque_objects', {}).get(mob_[1], []):
                return mob_[1]
            if nm not in self.ctx.cfg.get('primitives', {}):   # C19: an accessor that IS a configured primitive (object_prims) is applied to the symbol below
                raise TranslationError('call %s.%s on an opaque object is not listed in "opaque_objects"' % (mob_[1], nm))
        if nm in self.ctx.accessors:
            fld, idx = self.accessor_target(nm, args)
            return f'({fld} {idx})'
        sc_ = self.ctx.cfg.get('scalar_calls', {}).get(nm)   # C08: see assign_to
        if sc_ is not None and sc_ in self.ctx.fields and sc_ in self.env:
            return sc_
        prim = self.ctx.cfg.get('primitives', {}).get(nm)
        if prim is None:   # C20: "Name/argc"  (C09: `is None`, not `or`: the identity primitive is the EMPTY string)
            prim = self.ctx.cfg.get('primitives', {}).get('%s/%d' % (nm, len(args)))
        if prim is not None:
            obj_ = []
            if nm in self.ctx.cfg.get('object_prims', []) and c.get('kind') == 'MemberExpr':   # C06: "object_prims": the implicit object is the first argument (conversion operators, keyIter->GetCount())
                ob0_ = skip_wrappers(c['inner'][0])
                while ob0_.get('kind') == 'ImplicitCastExpr' and ob0_.get('inner') and self.ctx.cfg.get('object_fields'):   # C10: const / base casts of the object
                    ob0_ = skip_wrappers(ob0_['inner'][0])
                if ob0_.get('kind') == 'CXXThisExpr' and (self.ctx.cfg.get('object_fields') or {}).get('this'):   # C10: implicit `this` as the object of an object_prim
                    obj_ = [self.ctx.cfg['object_fields']['this']]
                elif ob0_.get('kind') == 'DeclRefExpr' and (self.ctx.cfg.get('object_fields') or {}).get(ob0_.get('referencedDecl', {}).get('name')):   # C10: a by-reference object parameter
                    obj_ = [self.ctx.cfg['object_fields'][ob0_['referencedDecl']['name']]]
                else:
                    obj_ = [self.e(c['inner'][0])]
            dfl_ = list(self.ctx.cfg.get('prim_defaults', {}).get(nm, []))   # C06: "prim_defaults": {"MakeIterator": ["0"]}: literal text for defaulted arguments; otherwise they are dropped (std::next(it))
            argt_ = []
            argc8_ = self.ctx.cfg.get('prim_argc', {}).get(nm)   # C08: "prim_argc": {"CreateCap": 1}: only the first N arguments are modelled (the rest are unmodelled objects, e.g. a memory manager)
            if argc8_ is not None:
                args = args[:argc8_]
            for a in args:
                if a.get('kind') == 'CXXDefaultArgExpr':
                    if dfl_:
                        argt_.append('(' + dfl_.pop(0) + ')')
                else:
                    argt_.append(self.e(a))
            return '(' + ' '.join([prim] + obj_ + argt_) + ')'
        if nm in ('move', 'forward') and len(args) == 1 and self.ctx.cfg.get('move_is_identity'):   # C05: std::move(x) on a modelled value
            return self.e(args[0])
        if nm in ('minmax',):
            a, b = [self.e(x) for x in args]
            return f'(if Z.ltb {b} {a} then ({b}, {a}) else ({a}, {b}))'
        if nm in ('min',):
            a, b = [self.e(x) for x in args]; return f'(if Z.ltb {b} {a} then {b} else {a})'
        if nm in ('max',):
            a, b = [self.e(x) for x in args]; return f'(if Z.ltb {a} {b} then {b} else {a})'
        if nm in self.functors and self.functors[nm] == 'value':
            return nm
        fi = self.lookup_fn(nm, c)
        if fi is None:
            raise TranslationError('call to untranslated function ' + nm)
        if fi.nonsimple:
            raise TranslationError('call to non-simple function %s inside an expression' % nm)
        fa14_ = fi.field_args_for(self)
        if self.ctx.cfg.get('other_objects') and c is not None and c.get('kind') == 'MemberExpr' and c.get('inner'):
            # C14 ("other_objects"): `param.f()` inside an EXPRESSION (data.pvIsInternal()): the pure translated f reads the parameter's
            # field set (<param>_<field>), not the fields of *this
            ob14_ = skip_wrappers(c['inner'][0])
            while ob14_.get('kind') == 'ImplicitCastExpr' and ob14_.get('inner'): ob14_ = skip_wrappers(ob14_['inner'][0])
            if ob14_.get('kind') == 'DeclRefExpr' and ob14_.get('referencedDecl', {}).get('name') in self.ctx.cfg['other_objects']:
                P14_ = ob14_['referencedDecl']['name']
                if fi.out_fields():
                    raise TranslationError('call of %s on object %s inside an expression writes fields' % (nm, P14_))
                fa14_ = [(f[len(P14_) + 1:] if f.startswith(P14_ + '_') else (P14_ + '_' + f if (P14_ + '_' + f) in self.ctx.fields else f)) for f in fa14_]
        return '(' + ' '.join([fi.out] + fa14_ + self.call_args(fi, args)) + ')'

    def accessor_target(self, nm, args):
        fld, idx_node, pnames = self.ctx.accessors[nm]
        if fld not in self.env:
            raise TranslationError(f'accessor {nm} used where field {fld} is not in scope')
        tmp = Fn.__new__(Fn); tmp.ctx = self.ctx; tmp.name = '<accessor %s>' % nm
        tmp.functors = {}; tmp.opaque = set(); tmp.fieldnames = self.fieldnames; tmp.is_static = False
        tmp.env = {f: self.env[f] for f in self.fieldnames if f in self.env}
        for p in pnames:
            tmp.env[p] = ('u', 64)
        idx = tmp.e(idx_node)
        for p, a in reversed(list(zip(pnames, args))):
            idx = f'(let {p} := {self.e(a)} in {idx})'
        return fld, idx

    def call_args(self, fi, args):
        out = []
        if getattr(fi, 'outp', None) and not self.ctx.cfg.get('out_param_calls'):
            raise TranslationError('call to %s which has out-parameters (not supported at call sites)' % fi.name)
        pnodes = [p for p in fi.d.get('inner', []) if p['kind'] == 'ParmVarDecl']
        for p, a in zip(pnodes, args):
            if p.get('name') in getattr(fi, 'outp', []) and p.get('name') not in self.ctx.cfg.get('inout_params', {}).get(fi.name, []):
                continue   # C09 ("out_param_calls": true): a pure out-parameter is not an input; bind_call binds it from the callee's result tuple
            if p.get('name') is not None and fi.functors.get(p.get('name')) == 'fails':   # C04: a forwarded functor that may throw:
                cn = p['name'] + '_fails'                                                  # the caller's own <name>_fails flag is passed on
                if cn not in self.env: raise TranslationError('call to %s: caller has no %s' % (fi.name, cn))
                out.append(cn); continue
            if p.get('name') is None or p.get('name') in fi.skipp or p.get('name') in fi.functors:
                continue
            out.append(self.e(a))
        for fn_ in getattr(fi, 'fail_locals', []) + getattr(fi, 'fail_calls', []):   # C04: the callee's failure flags are the caller's too
            cn = fi.out + '_' + fn_ + '_fails'
            if (cn, 'bool') not in self.extra_params:
                self.extra_params.append((cn, 'bool')); self.env[cn] = ('bool',)
            out.append(cn)
        # C12: opaque locals / address parameters of the callee are parameters of the caller too (named <callee>_<name>)
        for (pn, ty) in getattr(fi, 'extra_params', []):
            cn = fi.out + '_' + pn
            if (cn, ty) not in self.extra_params:
                self.extra_params.append((cn, ty)); self.env[cn] = ('u', 64)
            out.append(cn)
        return out

    def field_args_for(self, caller):
        if self.is_static:
            return []
        return list(self.fieldnames)

    def memobj(self, n):
        """C16: "member_object_ops": {"mSegments": {"n": "mSegments_n", "arr": "mSegments"}} -- a vector-like member
        sub-object (momo::Array of pointers) modelled by two configured fields (element count, element array):
        GetCount() -> n; operator[](i) -> arr i; AddBackNogrow(x) -> arr[n] := x, n := n + 1; RemoveBack(k) -> n := n - k
        (Stuck when k > n, the callee's MOMO_CHECK); Clear(..) -> n := 0; Reserve / Shrink -> no effect on (n, arr).
        Returns (objcfg, method, argnodes) or None."""
        cfgm = self.ctx.cfg.get('member_object_ops')
        cfgp = self.ctx.cfg.get('param_object_ops')   # C05: the same for an object PARAMETER (e.g. `Array& array` of ArrayShifter)
        if not cfgm and not cfgp:
            return None
        cfgm = cfgm or {}; cfgp = cfgp or {}
        n = skip_wrappers(n)
        def strip(x):
            x = skip_wrappers(x)
            while x.get('kind') == 'ImplicitCastExpr':
                x = skip_wrappers(x['inner'][0])
            return x
        if n.get('kind') == 'CXXMemberCallExpr':
            c = strip(n['inner'][0])
            if c.get('kind') == 'MemberExpr' and c.get('inner'):
                b = strip(c['inner'][0])
                if b.get('kind') == 'MemberExpr' and b.get('name') in cfgm and \
                        (not b.get('inner') or strip(b['inner'][0]).get('kind') == 'CXXThisExpr'):
                    return cfgm[b['name']], c['name'], n['inner'][1:]
                if b.get('kind') == 'DeclRefExpr' and b.get('referencedDecl', {}).get('name') in cfgp:   # C05
                    return cfgp[b['referencedDecl']['name']], c['name'], n['inner'][1:]
        if n.get('kind') == 'CXXOperatorCallExpr' and len(n.get('inner', [])) == 3:
            try:
                opn, _ = self.callee_name(n)
            except TranslationError:
                return None
            b = strip(n['inner'][1])
            if opn == 'operator[]' and b.get('kind') == 'MemberExpr' and b.get('name') in cfgm:
                return cfgm[b['name']], 'operator[]', n['inner'][2:]
            if opn == 'operator[]' and b.get('kind') == 'DeclRefExpr' and b.get('referencedDecl', {}).get('name') in cfgp:   # C05
                return cfgp[b['referencedDecl']['name']], 'operator[]', n['inner'][2:]
        return None

    def memobj_stmt(self, s0, rest):
        mo, meth, margs = self.memobj(s0)
        nn, arr = mo['n'], mo['arr']
        if meth in ('Reserve', 'Shrink'):
            return rest()
        if meth == 'AddBackNogrowCrt' and len(margs) == 1 and self.ctx.cfg.get('iter_cells'):   # C16: AddBackNogrowCrt(Creator(memManager, value))
            cr_ = skip_wrappers(margs[0])
            while cr_.get('kind') in ('ImplicitCastExpr', 'CXXFunctionalCastExpr') and cr_.get('inner'): cr_ = skip_wrappers(cr_['inner'][-1])
            if cr_.get('kind') in ('CXXConstructExpr', 'CXXTemporaryObjectExpr') and len(cr_.get('inner', [])) == 2:
                meth = 'AddBackNogrow'; margs = [cr_['inner'][1]]
        if meth == 'AddBackNogrow' and len(margs) == 1:
            v = self.e(margs[0]); self.note_write(arr); self.note_write(nn)
            if mo.get('cap'):   # C05: the callee's MOMO_CHECK(GetCount() < GetCapacity())
                self.nonsimple = True
                return f'if Z.ltb {nn} {mo["cap"]} then (\nlet {arr} := upd {arr} {nn} {v} in\nlet {nn} := (wrapU 64 ({nn} + 1)) in\n{rest()})\nelse Stuck'
            return f'let {arr} := upd {arr} {nn} {v} in\nlet {nn} := (wrapU 64 ({nn} + 1)) in\n{rest()}'
        if meth == 'RemoveBack' and len(margs) <= 1:
            kx = self.e(margs[0]) if margs else '(1)'
            self.note_write(nn); self.nonsimple = True
            return f'if Z.leb {kx} {nn} then (\nlet {nn} := (wrapU 64 ({nn} - {kx})) in\n{rest()})\nelse Stuck'
        if meth == 'Clear':
            self.note_write(nn)
            return f'let {nn} := (0) in\n{rest()}'
        raise TranslationError('member object method %s as a statement' % meth)

    def opcall(self, n):
        # C14 ("addr_fields": {"mInternalItems": "mInternalAddr"}): `&member` through an overloaded operator& (ObjectBuffer) of a configured
        # member OBJECT is the value of the configured (read-only ghost) field holding that address; on a parameter object: "<param>_<field>"
        if self.ctx.cfg.get('addr_fields') and len(n.get('inner', [])) == 2:
            try:
                opa_, _ = self.callee_name(n)
            except TranslationError:
                opa_ = None
            obja_ = skip_wrappers(n['inner'][1])
            while obja_.get('kind') in ('ImplicitCastExpr', 'ParenExpr') and obja_.get('inner'):
                obja_ = skip_wrappers(obja_['inner'][0])
            if opa_ == 'operator&' and obja_.get('kind') == 'MemberExpr' and obja_.get('name') in self.ctx.cfg['addr_fields']:
                fake_ = dict(obja_); fake_['name'] = self.ctx.cfg['addr_fields'][obja_['name']]
                return self.member(fake_)
        # C09: `mArr[i]` where mArr is a configured "array" field of class type (momo::Array::operator[]) -> (mArr i)
        if len(n.get('inner', [])) == 3:
            try:
                opn0, _ = self.callee_name(n)
            except TranslationError:
                opn0 = None
            obj0 = skip_wrappers(n['inner'][1])
            while obj0.get('kind') == 'ImplicitCastExpr':
                obj0 = skip_wrappers(obj0['inner'][0])
            if opn0 == 'operator[]' and obj0.get('kind') == 'MemberExpr' and self.ctx.fields.get(obj0.get('name')) == 'array' \
                    and obj0.get('name') in self.env:
                return '(%s %s)' % (obj0['name'], self.e(n['inner'][2]))
        # C05: "functor_locals": {"less": "Z.ltb"}: `less(a, b)` where `std::less<T*> less;` is a (skipped) local functor object
        fl_ = self.ctx.cfg.get('functor_locals')
        if fl_ and len(n.get('inner', [])) >= 2:
            ob_ = skip_wrappers(n['inner'][1])
            while ob_.get('kind') == 'ImplicitCastExpr':
                ob_ = skip_wrappers(ob_['inner'][0])
            if ob_.get('kind') == 'DeclRefExpr' and ob_['referencedDecl']['name'] in fl_:
                return '(' + ' '.join([fl_[ob_['referencedDecl']['name']]] + [self.e(a) for a in n['inner'][2:]]) + ')'
        # C06: "operator_prims": {"operator==": "it_eqb", ...}: an overloaded operator on opaque values is a configured Gallina function
        ops_ = self.ctx.cfg.get('operator_prims')
        if ops_:
            try:
                opn_, _ = self.callee_name(n)
            except TranslationError:
                opn_ = None
            if opn_ in ops_:
                return '(' + ' '.join([ops_[opn_]] + [self.e(a) for a in n['inner'][1:]]) + ')'
        # C12: `functor()` with no arguments where the functor parameter is configured as "value": its result is the parameter
        if len(n.get('inner', [])) == 2:
            callee = skip_wrappers(n['inner'][1])
            while callee.get('kind') == 'ImplicitCastExpr':
                callee = skip_wrappers(callee['inner'][0])
            if callee.get('kind') == 'DeclRefExpr' and self.functors.get(callee['referencedDecl']['name']) == 'value':
                return callee['referencedDecl']['name']
            # C12: overloaded `&member` (ObjectBuffer::operator&) of a member listed in "address_of" -> opaque parameter
            try:
                opn, _ = self.callee_name(n)
            except TranslationError:
                opn = None
            if opn == 'operator&' and callee.get('kind') == 'MemberExpr' and callee.get('name') in self.ctx.cfg.get('address_of', []):
                pn = 'addr_' + callee['name']
                if (pn, 'Z') not in self.extra_params:
                    self.extra_params.append((pn, 'Z'))
                return pn
        # C12: `itemPred(items[i])` / `itemPred((&mItems)[i])` / `itemPred(*&mItemBuffer)` with the functor configured as "index_pred":
        # the predicate is a Gallina function of the element INDEX (the base must be an opaque pointer local or an "address_of" member)
        if len(n.get('inner', [])) == 3:
            callee = skip_wrappers(n['inner'][1])
            while callee.get('kind') == 'ImplicitCastExpr':
                callee = skip_wrappers(callee['inner'][0])
            if callee.get('kind') == 'DeclRefExpr' and self.functors.get(callee['referencedDecl']['name']) == 'index_pred':
                arg = skip_wrappers(n['inner'][2])
                while arg.get('kind') == 'ImplicitCastExpr':
                    arg = skip_wrappers(arg['inner'][0])
                if arg.get('kind') == 'ArraySubscriptExpr':
                    self.e(arg['inner'][0])          # the base must translate (opaque pointer / address_of member), its value is not used
                    return f'({callee["referencedDecl"]["name"]} {self.e(arg["inner"][1])})'
                if arg.get('kind') == 'UnaryOperator' and arg.get('opcode') == '*' and self.ctx.cfg.get('index_pred_item_ptr'):
                    # C02: `itemPred(*node->GetItemPtr(i))` with "index_pred_item_ptr": "GetItemPtr": the predicate on logical item i
                    ip_ = skip_wrappers(arg['inner'][0])
                    while ip_.get('kind') == 'ImplicitCastExpr':
                        ip_ = skip_wrappers(ip_['inner'][0])
                    if ip_.get('kind') in ('CXXMemberCallExpr', 'CallExpr') and len(ip_.get('inner', [])) == 2:
                        try:
                            ipn_ = self.callee_name(ip_)[0]
                        except TranslationError:
                            ipn_ = None
                        if ipn_ == self.ctx.cfg['index_pred_item_ptr']:
                            return f'({callee["referencedDecl"]["name"]} {self.e(ip_["inner"][1])})'
                if arg.get('kind') == 'UnaryOperator' and arg.get('opcode') == '*':
                    self.e(arg['inner'][0])
                    return f'({callee["referencedDecl"]["name"]} (0))'
                raise TranslationError('index_pred functor applied to ' + str(arg.get('kind')))
        raise TranslationError('operator call')

    def binop(self, op, ln, rn, ct):
        cmpm = {'==': 'Z.eqb', '<': 'Z.ltb', '<=': 'Z.leb', '>': 'Z.gtb', '>=': 'Z.geb'}
        lt = ctype(ln)
        if op == ',':
            raise TranslationError('comma operator')
        if op in ('==', '!=') and self.ctx.cfg.get('this_identity'):   # C10: `this == &param`: object identity is the configured Gallina bool
            kinds_ = {skip_wrappers(ln).get('kind'), skip_wrappers(rn).get('kind')}
            if 'CXXThisExpr' in kinds_ and 'UnaryOperator' in kinds_:
                return self.ctx.cfg['this_identity'] if op == '==' else f"(negb {self.ctx.cfg['this_identity']})"
        a = self.e(ln); b = self.e(rn)
        if op in cmpm or op == '!=':
            if lt[0] == 'bool':
                r = f'(Bool.eqb {a} {b})'
                if op == '==': return r
                if op == '!=': return f'(negb {r})'
                raise TranslationError('bool comparison ' + op)
            if op == '!=':
                return f'(negb (Z.eqb {a} {b}))'
            return f'({cmpm[op]} {a} {b})'
        if op == '||': return f'(orb {a} {b})'
        if op == '&&': return f'(andb {a} {b})'
        return self.arith(op, a, b, ct)

    def arith(self, op, a, b, ct):
        if ct[0] == 'float':   # C11: double arithmetic is modelled by exact rationals (Q)
            qop = {'+': 'Qplus', '-': 'Qminus', '*': 'Qmult', '/': 'Qdiv'}.get(op)
            if qop is None:
                raise TranslationError('floating operator ' + op)
            return f'({qop} {a} {b})'
        if ct[0] == 'ptr':
            if op in ('+', '-'):
                return f'({a} {op} {b})'
            raise TranslationError('pointer arithmetic ' + op)
        if op in ('+', '-', '*'):
            return wrap(ct, f'({a} {op} {b})')
        if op == '/':
            return f'(Z.div {a} {b})' if ct[0] == 'u' else f'(Z.quot {a} {b})'
        if op == '%':
            return f'(Z.modulo {a} {b})' if ct[0] == 'u' else f'(Z.rem {a} {b})'
        if op == '<<': return wrap(ct, f'(Z.shiftl {a} {b})')
        if op == '>>': return f'(Z.shiftr {a} {b})'
        if op == '&': return f'(Z.land {a} {b})'
        if op == '|': return f'(Z.lor {a} {b})'
        if op == '^': return f'(Z.lxor {a} {b})'
        raise TranslationError('binary operator ' + op)

    def cast(self, n):
        ck = n.get('castKind'); inner = n['inner'][0]
        if n['kind'] == 'CXXFunctionalCastExpr' and ck in (None, 'NoOp', 'ConstructorConversion'):
            return self.e(inner)
        if ck in ('LValueToRValue', 'NoOp', 'ArrayToPointerDecay', 'FunctionToPointerDecay', 'ConstructorConversion',
                  'UserDefinedConversion', 'DerivedToBase', 'UncheckedDerivedToBase'):
            return self.e(inner)
        if ck == 'IntegralCast':
            t = ctype(n); s = ctype(inner); a = self.e(inner)
            lit = skip_wrappers(inner)
            if lit.get('kind') == 'IntegerLiteral' and t[0] in ('u', 's'):
                v = int(lit['value'])
                if 0 <= v < 2 ** (t[1] - (1 if t[0] == 's' else 0)):
                    return a
            if s[0] == 'bool':
                a = f'(if {a} then 1 else 0)'; s = ('u', 1)
            if s[0] == 'other':   # enum etc.
                raise TranslationError('IntegralCast from %r' % (s,))
            if t[0] == 'u':
                if s[0] == 'u' and s[1] <= t[1]:
                    return a
                return wrap(t, a)
            if t[0] == 's':
                if s[0] == 'u' and s[1] < t[1]:
                    return a
                if s[0] == 's' and s[1] <= t[1]:
                    return a
                return f'(wrapS {t[1]} {a})'
            if t[0] == 'bool':
                return f'(negb (Z.eqb {a} 0))'
            raise TranslationError('IntegralCast to %r' % (t,))
        if ck == 'IntegralToFloating':   # C11
            return f'(inject_Z {self.e(inner)})'
        if ck == 'FloatingCast':
            return self.e(inner)
        if ck == 'FloatingToIntegral':   # truncation = floor for the non-negative values that occur
            t = ctype(n)
            if t[0] != 'u':
                raise TranslationError('FloatingToIntegral to %r' % (t,))
            return wrap(t, f'(Qfloor {self.e(inner)})')
        if ck == 'IntegralToBoolean':
            return f'(negb (Z.eqb {self.e(inner)} 0))'
        if ck == 'PointerToBoolean':
            return f'(negb (Z.eqb {self.e(inner)} 0))'
        if ck in ('PointerToIntegral', 'IntegralToPointer', 'BitCast', 'NullToPointer'):
            return self.e(inner)
        raise TranslationError('cast kind ' + str(ck))

    def ptr_range(self, n):
        """C02: a pointer expression `field + e1 + e2 ...` (field = configured array member, or a pointer local listed in
        "pointer_locals") -> (field name, Gallina offset)"""
        n = skip_wrappers(n)
        while n['kind'] in ('ImplicitCastExpr', 'ParenExpr'):
            n = skip_wrappers(n['inner'][0])
        if n['kind'] == 'BinaryOperator' and n.get('opcode') == '+':
            l, r = n['inner']
            if ctype(skip_wrappers(l))[0] in ('ptr', 'arr') or ctype(l)[0] in ('ptr', 'arr'):
                f, off = self.ptr_range(l)
                return f, f'({off} + {self.e(r)})'
            f, off = self.ptr_range(r)
            return f, f'({off} + {self.e(l)})'
        if n['kind'] == 'DeclRefExpr':
            nm = n['referencedDecl']['name']
            pl = self.ctx.cfg.get('pointer_locals', {}).get(self.name, {})
            if nm in pl:
                return pl[nm], '0'
            raise TranslationError('pointer %s is not a configured pointer local' % nm)
        return self.lv_base(n), '0'

    def lv_base(self, n):
        n = skip_wrappers(n)
        while n['kind'] in ('ImplicitCastExpr', 'ParenExpr'):
            n = skip_wrappers(n['inner'][0])
        if n['kind'] == 'MemberExpr':
            return self.member(n)
        if n['kind'] == 'CXXMemberCallExpr':   # C13: `pvGetShortHashes()` == the array field itself (checked in translate_group)
            try:
                nm, _c = self.callee_name(n)
            except TranslationError:
                nm = None
            if nm in self.ctx.ptr_accessors:
                return self.ctx.ptr_accessors[nm]
            raise TranslationError('array base is a call to %s which is not a pointer accessor' % nm)
        if n['kind'] == 'DeclRefExpr':
            nm = n['referencedDecl']['name']
            if nm in self.ctx.static_tables:
                return nm
            return self.ref(n)
        raise TranslationError('array base ' + n['kind'])

    # ---------------- statements ----------------
    # A statement list is compiled relative to a continuation `k` (a python function returning
    # Gallina text for "the rest").  jumps: return / break / continue.
    def fresh(self, base):
        self.uniq += 1
        return f'{base}_{self.uniq}'

    def return_call(self, n):
        # C09: "call_returns": {"<out name of F>": {"callee": "<Gallina value>"}} - inside F a statement that is a call to
        # `callee` ends F with that value (used to expose WHICH branch of a dispatch function is taken)
        cr = self.ctx.cfg.get('call_returns', {}).get(getattr(self, 'out', None), {})
        if not cr:
            return None
        m = skip_wrappers(n)
        if m.get('kind') in ('CXXMemberCallExpr', 'CallExpr'):
            try:
                nm, _ = self.callee_name(m)
            except TranslationError:
                return None
            return cr.get(nm)
        return None

    def has_jump(self, n):
        k = n.get('kind')
        if self.return_call(n) is not None:
            return True
        if k in ('ReturnStmt', 'BreakStmt', 'ContinueStmt', 'CXXThrowExpr'):
            return True
        if k in ('WhileStmt', 'ForStmt', 'DoStmt'):
            if is_assert_stmt(n):
                return True
            # a loop containing return still "jumps" out of the enclosing code
            return self.has_return(n)
        if is_assert_stmt(n) and k not in ('CompoundStmt', 'IfStmt', 'SwitchStmt', 'CaseStmt', 'DefaultStmt'):   # C12: a switch CONTAINING an assert is not an assert
            return True
        return any(self.has_jump(c) for c in n.get('inner', []) if isinstance(c, dict))

    def has_return(self, n):
        if n.get('kind') in ('ReturnStmt', 'CXXThrowExpr'):
            return True
        if is_assert_stmt(n) and n.get('kind') not in ('CompoundStmt', 'IfStmt', 'WhileStmt', 'ForStmt', 'SwitchStmt', 'CaseStmt', 'DefaultStmt'):
            return True
        return any(self.has_return(c) for c in n.get('inner', []) if isinstance(c, dict))

    def assigned(self, n, acc, declared):
        """names (in self.env scope) assigned in n, excluding those declared inside n"""
        k = n.get('kind')
        if k == 'DeclStmt':
            for v in n.get('inner', []):
                if v['kind'] == 'VarDecl':
                    for c in v.get('inner', []):
                        self.assigned(c, acc, declared)
                    declared.add(v['name'])
                    self.ref_alias_base(v)   # C12: pre-register `T& r = field[idx];` so writes through r count as field writes
            return acc
        if k == 'BinaryOperator' and n.get('opcode') == '=' and skip_wrappers(n['inner'][0]).get('kind') == 'MemberExpr' \
                and skip_wrappers(n['inner'][0]).get('name') in self.ctx.cfg.get('assign_member_effects', {}):   # C06
            acc.add(self.ctx.cfg['assign_member_effects'][skip_wrappers(n['inner'][0])['name']][0])
            for c in n.get('inner', [])[1:]:
                if isinstance(c, dict): self.assigned(c, acc, declared)
            return acc
        if (k == 'BinaryOperator' and n.get('opcode') == '=') or k == 'CompoundAssignOperator':
            acc.add(self.lhs_name(n['inner'][0]))
        if k == 'CXXOperatorCallExpr' and self.ctx.cfg.get('opaque_types') and len(n.get('inner', [])) == 3:   # C06: opaque `x = y;`
            try:
                if self.callee_name(n)[0] == 'operator=':
                    acc.add(self.lhs_name(n['inner'][1]))
            except TranslationError:
                pass
        if k in ('CXXMemberCallExpr', 'CallExpr') and self.ctx.cfg.get('effect_prims'):   # C08: the effect fields of an effect_prims call are written
            try:
                ep8_ = self.ctx.cfg['effect_prims'].get(self.callee_name(n)[0])
                if ep8_ is not None:
                    acc.update(ep8_.get('effects', {}).keys())
            except TranslationError:
                pass
        if k == 'CXXOperatorCallExpr' and self.ctx.cfg.get('opaque_types') and len(n.get('inner', [])) == 2 \
                and 'operator++' in self.ctx.cfg.get('operator_prims', {}):   # C08: `++it;` on an opaque iterator writes it
            try:
                if self.callee_name(n)[0] == 'operator++':
                    acc.add(self.lhs_name(n['inner'][1]))
            except TranslationError:
                pass
        if k == 'CXXMemberCallExpr' and self.ctx.cfg.get('atomic_mem'):   # C19: exchange / CAS write the memory array (and the expected local)
            try:
                am_ = self.atomic_mem_call(n)
            except TranslationError:
                am_ = None
            if am_ is not None:
                acc.add(am_[1])
                if self.ctx.cfg['atomic_mem'].get('order_field'): acc.add(self.ctx.cfg['atomic_mem']['order_field'])
                if am_[0].startswith('compare_exchange'):
                    acc.add(self.lhs_name(am_[3][0]))
        if k == 'CXXOperatorCallExpr' and self.ctx.cfg.get('effect_assign', {}).get(self.name) and len(n.get('inner', [])) == 3:   # C20: effect_assign writes its field
            try:
                if self.callee_name(n)[0] == 'operator=':
                    acc.add(self.ctx.cfg['effect_assign'][self.name]['field'])
            except TranslationError:
                pass
        if k in ('CXXMemberCallExpr', 'CallExpr') and self.ctx.cfg.get('effect_calls'):   # C06: an effect call writes its field
            try:
                en_ = self.ctx.cfg['effect_calls'].get(self.callee_name(n)[0]) or self.ctx.cfg['effect_calls'].get('%s/%d' % (self.callee_name(n)[0], len(n['inner']) - 1))   # C20: "Name/argc" distinguishes same-named callees
                if en_ is not None and isinstance(en_[0], list):   # C09: several effects of one call, see expr_stmt
                    acc.update(e2_[0] for e2_ in en_)
                elif en_ is not None:
                    acc.add(en_[0])
            except TranslationError:
                pass
        if k in ('CXXMemberCallExpr', 'CallExpr') and self.ctx.cfg.get('shift_calls'):   # C02: a shift primitive writes its item array
            try:
                sc2_ = self.ctx.cfg['shift_calls'].get(self.callee_name(n)[0])
                if sc2_ is not None:
                    acc.add(sc2_['field'])
            except TranslationError:
                pass
        if k == 'CallExpr' and self.ctx.cfg.get('array_copy') and len(n.get('inner', [])) == 4:   # C02: std::copy / copy_backward writes its array field
            try:
                if self.callee_name(n)[0] in ('copy', 'copy_backward'):
                    acc.add(self.ptr_range(n['inner'][3])[0])
            except TranslationError:
                pass
        if k in ('CXXMemberCallExpr', 'CallExpr') and (self.ctx.cfg.get('mgr_record_calls') or self.ctx.cfg.get('assign_calls') or self.ctx.cfg.get('other_objects')):
            # C14: what the object-level call forms write
            try:
                nm_, c_ = self.callee_name(n)
                if nm_ in self.ctx.cfg.get('mgr_record_calls', {}):
                    acc.add(self.ctx.cfg['mgr_record_calls'][nm_])
                if nm_ in self.ctx.cfg.get('assign_calls', []) and len(n['inner']) == 3:
                    d_ = self.obj_value(n['inner'][2])
                    if d_ is not None: acc.add(d_)
                if k == 'CXXMemberCallExpr' and c_.get('inner') and self.ctx.cfg.get('other_objects'):
                    ob_ = skip_wrappers(c_['inner'][0])
                    while ob_['kind'] == 'ImplicitCastExpr' and ob_.get('inner'): ob_ = skip_wrappers(ob_['inner'][0])
                    if ob_['kind'] == 'DeclRefExpr' and ob_['referencedDecl']['name'] in self.ctx.cfg['other_objects']:
                        P_ = ob_['referencedDecl']['name']; fi_ = self.lookup_fn(nm_, c_)
                        if fi_ is not None:
                            for f in fi_.out_fields():
                                acc.add(f[len(P_) + 1:] if f.startswith(P_ + '_') else (P_ + '_' + f if (P_ + '_' + f) in self.ctx.fields else f))
            except TranslationError:
                pass
        if k in ('CXXMemberCallExpr', 'CallExpr') and self.ctx.cfg.get('record_calls'):   # C07: a recorded call writes its pseudo fields
            try:
                rc_ = self.ctx.cfg['record_calls'].get(self.callee_name(n)[0])
                if rc_ is not None:
                    acc.update(f_ for f_, _ in rc_)
            except TranslationError:
                pass
        if k == 'UnaryOperator' and n.get('opcode') in ('++', '--'):
            tgt_ = skip_wrappers(n['inner'][0])
            sc8_ = None
            if self.ctx.cfg.get('scalar_calls') and tgt_['kind'] in ('CXXMemberCallExpr', 'CallExpr'):   # C08: ++obj.Accessor() writes the configured scalar pseudo-field
                try:
                    sc8_ = self.ctx.cfg['scalar_calls'].get(self.callee_name(tgt_)[0])
                except TranslationError:
                    sc8_ = None
            if sc8_ is not None:
                acc.add(sc8_)
            elif not (self.ctx.cfg.get('assert_calls') and tgt_['kind'] in ('CXXMemberCallExpr', 'CallExpr')):   # C14: ++obj.Accessor() assigns no field
                acc.add(self.lhs_name(n['inner'][0]))
        if self.ctx.cfg.get('swap_calls') and k in ('CallExpr', 'CXXMemberCallExpr'):   # C14: a swap writes both lvalues
            try:
                nm_, c_ = self.callee_name(n)
                if nm_ == 'swap' and k == 'CallExpr' and len(n['inner']) == 3:
                    acc.update([self.swap_lvalue(n['inner'][1]), self.swap_lvalue(n['inner'][2])])
                elif nm_ in self.ctx.cfg.get('member_swaps', []) and k == 'CXXMemberCallExpr' and len(n['inner']) == 2 and c_.get('inner'):
                    acc.update([self.swap_lvalue(c_['inner'][0]), self.swap_lvalue(n['inner'][1])])
            except TranslationError:
                pass
        if k in ('CXXMemberCallExpr', 'CXXOperatorCallExpr') and self.memobj(n) is not None:   # C16
            mo, meth, _a = self.memobj(n)
            if meth == 'AddBackNogrow' or (meth == 'AddBackNogrowCrt' and self.ctx.cfg.get('iter_cells')): acc.update([mo['arr'], mo['n']])   # (C16: Crt form)
            if meth in ('RemoveBack', 'Clear'): acc.add(mo['n'])
        if k == 'CallExpr' and self.ctx.cfg.get('assign_calls'):   # C05
            try:
                anm, _ = self.callee_name(n)
                if anm in self.ctx.cfg['assign_calls']:
                    acc.add(self.lhs_name(n['inner'][-1]))
            except TranslationError:
                pass
        if k in ('CallExpr', 'CXXMemberCallExpr') and self.ctx.cfg.get('log_calls'):   # C16: ghost log fields are written by the logged call
            try:
                lnm, _ = self.callee_name(n)
                if lnm in self.ctx.cfg['log_calls']:
                    acc.update([self.ctx.cfg['log_calls'][lnm]['arr'], self.ctx.cfg['log_calls'][lnm]['n']])
            except TranslationError:
                pass
        if k == 'CallExpr' and self.ctx.cfg.get('out_calls'):   # C16
            try:
                onm, _ = self.callee_name(n)
                oc = self.ctx.cfg['out_calls'].get(onm)
                if oc is not None:
                    for i in oc['outs']: acc.add(self.lhs_name(n['inner'][1:][i]))
            except TranslationError:
                pass
        if k in ('CXXMemberCallExpr', 'CallExpr'):
            try:
                nm, _ = self.callee_name(n)
                fi = self.ctx.fninfo.get(nm)
                if fi is not None:
                    acc.update(fi.writes_fields)
                ex12_ = self.ctx.cfg.get('extern_calls', {}).get(nm)   # C12: ghost fields written by an extern call are loop state
                if ex12_ is not None:
                    acc.update(ex12_.get('writes', []))
            except TranslationError:
                pass
        for c in n.get('inner', []):
            if isinstance(c, dict):
                self.assigned(c, acc, declared)
        return acc

    def lhs_name(self, l):
        l = skip_wrappers(l)
        if l['kind'] == 'CXXOperatorCallExpr' and self.memobj(l) is not None and self.memobj(l)[1] == 'operator[]':   # C05
            return self.memobj(l)[0]['arr']
        if l['kind'] in ('CXXMemberCallExpr', 'CallExpr'):
            nm, _ = self.callee_name(l)
            if nm in self.ctx.accessors:
                return self.ctx.accessors[nm][0]
        if l['kind'] == 'ArraySubscriptExpr':
            return self.lv_base(l['inner'][0])
        if l['kind'] == 'DeclRefExpr':
            if l['referencedDecl']['name'] in getattr(self, 'alias_pre', {}):   # C12: reference local aliasing a field element
                return self.alias_pre[l['referencedDecl']['name']]
            return l['referencedDecl']['name']
        if l['kind'] == 'MemberExpr':
            return self.member(l)
        if l['kind'] == 'UnaryOperator' and l.get('opcode') == '*':   # C18: deref_out_params
            t_ = skip_wrappers(l['inner'][0])
            while t_.get('kind') == 'ImplicitCastExpr': t_ = skip_wrappers(t_['inner'][0])
            if t_.get('kind') == 'DeclRefExpr' and t_['referencedDecl']['name'] in getattr(self, 'deref_out', ()):
                return t_['referencedDecl']['name'] + '_out'
        raise TranslationError('assignment target ' + l['kind'])

    def ref_alias_base(self, v):
        """C12: if VarDecl v is a non-const lvalue reference bound to an element of a configured array field
        (`uint8_t& r = mArr[idx];`) return the field name (and remember it), else None."""
        q = v.get('type', {}).get('qualType', '')
        if not q.rstrip().endswith('&') or q.rstrip().endswith('&&') or re.search(r'\bconst\b', q):
            return None
        if self.ctx.cfg.get('handle_refs') and any(x in q for x in OPAQUE_TYPES):   # C11: `Bucket& b = buckets[i];` of an opaque class type: the reference IS the abstract handle
            return None
        init = [x for x in v.get('inner', []) if isinstance(x, dict)]
        if not init:
            return None
        iv = skip_wrappers(init[0])
        if iv.get('kind') == 'CXXOperatorCallExpr' and self.memobj(iv) is not None and self.memobj(iv)[1] == 'operator[]':   # C05
            if not hasattr(self, 'alias_pre'):
                self.alias_pre = {}
            self.alias_pre[v['name']] = self.memobj(iv)[0]['arr']
            return self.alias_pre[v['name']]
        if iv.get('kind') != 'ArraySubscriptExpr':
            raise TranslationError('reference local %s is not bound to an array element of a field' % v.get('name'))
        b = self.lv_base(iv['inner'][0])
        if b not in self.ctx.fields:
            raise TranslationError('reference local %s is bound to %s which is not a configured field' % (v.get('name'), b))
        if not hasattr(self, 'alias_pre'):
            self.alias_pre = {}
        self.alias_pre[v['name']] = b
        return b

    def assign_to(self, lhs, val, k):
        lhs = skip_wrappers(lhs)
        ame_ = self.ctx.cfg.get('assign_member_effects', {})   # C06: `opaque->member = v;` is an effect on a configured field: fld := fn fld <object> v
        if lhs['kind'] == 'MemberExpr' and lhs.get('name') in ame_ and lhs.get('inner'):
            fld_, fn_ = ame_[lhs['name']]
            if fld_ not in self.ctx.fields:
                raise TranslationError('assign_member_effects: %s is not a configured field' % fld_)
            self.note_write(fld_)
            return f'let {fld_} := ({fn_} {fld_} {self.e(lhs["inner"][0])} {val}) in\n{k()}'
        if lhs['kind'] == 'CXXOperatorCallExpr' and self.memobj(lhs) is not None and self.memobj(lhs)[1] == 'operator[]':   # C05
            mo, _m, margs = self.memobj(lhs)
            self.note_write(mo['arr'])
            return f"let {mo['arr']} := upd {mo['arr']} {self.e(margs[0])} {val} in\n{k()}"
        if lhs['kind'] in ('CXXMemberCallExpr', 'CallExpr'):
            nm, _ = self.callee_name(lhs)
            if nm in self.ctx.accessors:
                fld, idx = self.accessor_target(nm, lhs['inner'][1:])
                self.note_write(fld)
                return f'let {fld} := upd {fld} {idx} {val} in\n{k()}'
            sc = self.ctx.cfg.get('scalar_calls', {}).get(nm)   # C08: `++mCrew.GetValueVersion();` - a reference-returning call that denotes a configured scalar pseudo-field
            if sc is not None and sc in self.ctx.fields:
                self.note_write(sc)
                return f'let {sc} := {val} in\n{k()}'
        if lhs['kind'] == 'ArraySubscriptExpr':
            b = self.lv_base(lhs['inner'][0]); i = self.e(lhs['inner'][1])
            self.note_write(b)
            return f'let {b} := upd {b} {i} {val} in\n{k()}'
        if lhs['kind'] == 'DeclRefExpr' and lhs['referencedDecl']['name'] in getattr(self, 'aliases', {}):
            b, ix = self.aliases[lhs['referencedDecl']['name']]   # C12: write through a reference local = store to the element
            self.note_write(b)
            return f'let {b} := upd {b} {ix} {val} in\n{k()}'
        nm = self.lhs_name(lhs)
        self.note_write(nm)
        return f'let {nm} := {val} in\n{k()}'

    def move_source(self, n):
        """C14 (member_move_ctors): `param.field` inside CXXConstructExpr(std::move(param.field)) -> "param_field" """
        n = skip_wrappers(n)
        while True:
            k = n.get('kind')
            if k in ('ImplicitCastExpr', 'CXXStaticCastExpr', 'ParenExpr', 'MaterializeTemporaryExpr', 'ExprWithCleanups',
                     'CXXBindTemporaryExpr', 'CXXFunctionalCastExpr') and n.get('inner'):
                n = skip_wrappers(n['inner'][-1]); continue
            if k == 'CXXConstructExpr' and len(n.get('inner', [])) == 1:
                n = skip_wrappers(n['inner'][0]); continue
            if k == 'CallExpr' and len(n.get('inner', [])) == 2:
                try:
                    nm, _ = self.callee_name(n)
                except TranslationError:
                    return None
                if nm == 'move':
                    n = skip_wrappers(n['inner'][1]); continue
                return None
            break
        if n.get('kind') == 'MemberExpr':
            try:
                return self.member(n)
            except TranslationError:
                return None
        return None

    def swap_lvalue(self, n):
        """C14 (swap_calls): name of the scalar lvalue an argument of swap denotes"""
        n = skip_wrappers(n)
        while n['kind'] in ('ImplicitCastExpr', 'ParenExpr') and n.get('inner'):
            n = skip_wrappers(n['inner'][0])
        if n['kind'] in ('CXXMemberCallExpr', 'CallExpr'):
            nm, c = self.callee_name(n)
            fld = self.ctx.cfg.get('lvalue_calls', {}).get(nm)
            if fld is None:
                raise TranslationError('swap argument is a call to %s (not in "lvalue_calls")' % nm)
            obj = skip_wrappers(c['inner'][0]) if c.get('inner') else None
            while obj is not None and obj['kind'] == 'ImplicitCastExpr' and obj.get('inner'):
                obj = skip_wrappers(obj['inner'][0])
            if obj is None or obj['kind'] == 'CXXThisExpr':
                name = fld
            elif obj['kind'] == 'DeclRefExpr':
                name = obj['referencedDecl']['name'] + '_' + fld
            else:
                raise TranslationError('swap argument: accessor on ' + obj['kind'])
            if name not in self.env:
                raise TranslationError('swap argument %s is not a configured field' % name)
            return name
        return self.lhs_name(n)

    def note_write(self, nm):
        if nm in self.ctx.fields:
            self.writes_fields.add(nm)
            if self.is_const and not (getattr(self, 'tc_cfg', None) and nm in self.tc_cfg.get('state', [])):   # C18: ghost state of try_catch is not a C++ member
                raise TranslationError(f'const function {self.name} writes field {nm}')

    def tup(self, vs):
        if not vs: return 'tt'
        return '(' + ', '.join(vs) + ')' if len(vs) > 1 else vs[0]

    def pat(self, vs):
        if not vs: return '_'
        return "'(" + ', '.join(vs) + ')' if len(vs) > 1 else vs[0]

    def tup_ty(self, vs):
        if not vs: return 'unit'
        return '(' + ' * '.join(coq_ty(self.env[v]) for v in vs) + ')'

    def stmts(self, lst, k, jc):
        """jc: dict with 'ret': fn(valtext)->text, 'brk': fn()->text or None, 'cont': fn()->text or None"""
        if not lst:
            return k()
        s = lst[0]; rest = lambda: self.stmts(lst[1:], k, jc)
        kind = s['kind']
        self._cur_jc = jc   # C18 (try_catch): the jump context of the statement being translated
        if kind == 'CXXTryStmt' and getattr(self, 'tc_cfg', None):   # C18
            hs_ = [x for x in s['inner'][1:] if x.get('kind') == 'CXXCatchStmt']
            if len(hs_) != 1 or self.tc_handler is not None:
                raise TranslationError('try_catch: exactly one, non-nested catch (...) handler is supported')
            hb_ = [x for x in hs_[0].get('inner', []) if isinstance(x, dict) and x.get('kind') == 'CompoundStmt']
            if not hb_:
                raise TranslationError('try_catch: catch (...) { .. } expected')
            # C18: a handler that does not end in `throw;` SWALLOWS the exception: control continues behind the try statement (k).
            # Only supported when the throwing call is not inside a loop of the try block (the continuation is then in scope).
            self.tc_swallow = not (hb_[0].get('inner') and skip_wrappers(hb_[0]['inner'][-1]).get('kind') == 'CXXThrowExpr')
            def after_try_():   # the statements behind the try statement are outside the handler's reach
                sv_ = (self.tc_handler, self.tc_env); self.tc_handler = None; self.tc_env = None
                t_ = self.stmts(lst[1:], k, jc)
                self.tc_handler, self.tc_env = sv_
                return t_
            self.tc_after = after_try_; self.tc_loop_depth = len([l_ for l_ in self.loops if l_ is None])
            self.tc_handler = hb_[0]; self.tc_env = dict(self.env)
            txt_ = self.stmts([s['inner'][0]], after_try_, jc)
            self.tc_handler = None; self.tc_env = None
            return txt_
        if kind == 'CXXThrowExpr' and getattr(self, 'tc_cfg', None):   # C18: (re)throw = completed := false, fields as they are
            return jc['ret']('false')
        if kind == 'CompoundStmt':
            saved = dict(self.env)
            inner = s.get('inner', [])
            def after():
                # leaving the block: restore scope (shadowing is not supported: detected in decl)
                return rest()
            return self.stmts(inner + lst[1:], k, jc) if True else None
        if kind == 'NullStmt':
            return rest()
        if kind in self.ctx.cfg.get('skip_stmts', {}).get(self.name, []):
            # C09 ("skip_stmts": {"pvClear": ["CXXForRangeStmt"]}): statements of the listed KINDS in the named function have no effect on
            # the modelled state (there: the range-for that hands every buffer back to the memory manager); named in NOTES as unmodelled
            return rest()
        if kind == 'DeclStmt':
            return self.decl(s, rest)
        if kind == 'ReturnStmt':
            rt_ = self.ctx.cfg.get('return_tuple', {}).get(self.name)   # C12: `return Proxy(a, b, c);` -> the tuple of the selected constructor arguments
            if rt_ and s.get('inner'):
                vv_ = skip_wrappers(s['inner'][0])
                while vv_.get('kind') in ('CXXConstructExpr', 'CXXFunctionalCastExpr', 'ImplicitCastExpr', 'CXXBindTemporaryExpr', 'MaterializeTemporaryExpr') \
                        and len(vv_.get('inner', [])) == 1:
                    vv_ = skip_wrappers(vv_['inner'][0])
                if vv_.get('kind') in ('CXXTemporaryObjectExpr', 'CXXConstructExpr') and len(vv_.get('inner', [])) > max(rt_):
                    return jc['ret']('(' + ', '.join(self.e(vv_['inner'][i_]) for i_ in rt_) + ')')
                raise TranslationError('return_tuple: the returned expression is not a constructor call with enough arguments')
            if self.name in self.ctx.cfg.get('ignore_return', []):   # C12: returned iterator/pointer is not modelled
                if getattr(self, 'fails_mode', False) and s.get('inner'):   # C04: `return callee(..)` where callee is itself in "fails" mode:
                    v_ = skip_wrappers(s['inner'][0])                       # the call is kept and the callee's completed flag is passed on
                    if v_.get('kind') in ('CXXMemberCallExpr', 'CallExpr') and self.is_nonsimple_call(v_):
                        n_, c_ = self.callee_name(v_); f_ = self.lookup_fn(n_, c_)
                        if getattr(f_, 'fails_mode', False):
                            return self.ret_stmt(s['inner'][0], jc)
                return jc['ret']('true' if getattr(self, 'fails_mode', False) else 'tt')   # C04: completed flag
            if s.get('inner'):
                if self.ret_ct[0] == 'void':   # C20: `return f(x);` in a void function is `f(x); return;`
                    return self.expr_stmt(s['inner'][0], lambda: jc['ret']('tt'))
                return self.ret_stmt(s['inner'][0], jc)
            pfv_ = (self.ctx.cfg.get('prefix', {}).get(self.name) or {}).get('return_void_as')   # C05: a bare `return;` inside a prefix translation
            if pfv_:
                return jc['ret'](pfv_)
            return jc['ret']('tt')
        if kind == 'GallinaReturn':   # C09: synthetic return of a "prefix" translation
            for nm in re.findall(r'\w+', s['text']):
                if nm not in self.env and nm != 'tt' and not (s['text'] in ('true', 'false')): raise TranslationError('prefix return: %s is not in scope' % nm)   # C05: empty tuple; C02: literal bool
            return jc['ret'](s['text'])
        if kind == 'BreakStmt':
            if not jc.get('brk'): raise TranslationError('break outside loop')
            return jc['brk']()
        if kind == 'ContinueStmt':
            if not jc.get('cont'): raise TranslationError('continue outside loop')
            return jc['cont']()
        if kind == 'DoStmt' and self.ctx.cfg.get('check_exceptions') and len(s.get('inner', [])) == 2 and \
                skip_wrappers(s['inner'][1]).get('kind') in ('CXXBoolLiteralExpr', 'ImplicitCastExpr') and \
                json.dumps(s['inner'][1]).count('"value": false') == 1:
            # C15 ("check_exceptions": true): MOMO_CHECK(e) = do { MOMO_ASSERT(mode != assertion || e);
            #   if (mode == exception) MOMO_CHECK_EXCEPTION(e); } while (false)  -- translate the BODY once, so that the
            #   exception branch (throw -> Exn) is kept next to the assertion obligation (-> Stuck) instead of being dropped
            b = s['inner'][0]
            return self.stmts((b.get('inner', []) if b['kind'] == 'CompoundStmt' else [b]) + lst[1:], k, jc)
        if is_assert_stmt(s) and kind not in ('IfStmt', 'WhileStmt', 'ForStmt', 'SwitchStmt'):   # C12: a switch whose default contains MOMO_ASSERT was translated as that assert alone
            c = find_assert_cond(s)
            if c is None:
                raise TranslationError('assert shape not recognised')
            self.nonsimple = True
            return f'if {self.e(c)} then (\n{rest()})\nelse Stuck'
        if kind == 'IfStmt':
            return self.if_stmt(s, rest, jc)
        if kind in ('WhileStmt', 'ForStmt'):
            return self.loop(s, rest, jc)
        if kind == 'CXXForRangeStmt' and self.ctx.cfg.get('range_fold'):
            # C06: "range_fold": "<prim>": `for (T ref : RANGE) BODY` becomes
            #   match <prim> RANGE (fun ref => BODY') with Some v => return v | None => <rest> end
            # where BODY' is BODY with `return e` -> Some e and fall-through / continue -> None; the primitive (a section variable of
            # type Z -> (Z -> option T) -> option T) is the iteration itself: "first element whose body returns"
            inner_ = [x for x in s.get('inner', []) if isinstance(x, dict)]
            rng_decl_, var_decl_, body_ = inner_[1], inner_[-2], inner_[-1]
            rv_ = [v for v in rng_decl_.get('inner', []) if v.get('kind') == 'VarDecl'][0]
            rng_init_ = [x for x in rv_.get('inner', []) if isinstance(x, dict) and x.get('kind')][0]
            rng_ = self.e(rng_init_)
            lv_ = [v for v in var_decl_.get('inner', []) if v.get('kind') == 'VarDecl'][0]
            nm_ = coq_ident(lv_['name'])
            acc_ = self.assigned(body_, set(), set())
            if acc_:
                raise TranslationError('range-for body assigns %s (only pure bodies are supported)' % sorted(acc_))
            saved_ = dict(self.env)
            self.env[nm_] = ctype(lv_)
            jc2_ = {'ret': (lambda v: f'Some ({v})'), 'brk': None, 'cont': (lambda: 'None')}
            btxt_ = self.stmts([body_], lambda: 'None', jc2_)
            self.env = saved_
            return (f'match ({self.ctx.cfg["range_fold"]} {rng_} (fun {nm_} =>\n{btxt_})) with\n| Some rv_ => {jc["ret"]("rv_")}\n'
                    f'| None => (\n{rest()})\nend')
        if self.ctx.cfg.get('skip_placement_new') and skip_wrappers(s).get('kind') == 'CXXNewExpr':   # C08: `::new(p) T(...)` as a statement constructs an object that is not modelled
            return rest()
        if kind == 'CXXTryStmt' and self.ctx.cfg.get('try_catch_fails') and getattr(self, 'fails_mode', False):
            # C04: `try { B } catch (...) { H; throw; }` in "fails" mode: a throwing step inside B runs H and then leaves the function
            # (or the enclosing handler) with completed = false; only a single catch-all handler that ends in `throw;` is accepted
            if len(s['inner']) != 2 or s['inner'][1].get('kind') != 'CXXCatchStmt':
                raise TranslationError('try_catch_fails: exactly one handler expected')
            hb_ = [x for x in s['inner'][1].get('inner', []) if isinstance(x, dict) and x.get('kind') == 'CompoundStmt']
            if len(hb_) != 1 or any(isinstance(x, dict) and x.get('kind') == 'VarDecl' for x in s['inner'][1].get('inner', [])):
                raise TranslationError('try_catch_fails: catch (...) expected')
            hst_ = list(hb_[0].get('inner', []))
            if not hst_ or skip_wrappers(hst_[-1]).get('kind') != 'CXXThrowExpr' or skip_wrappers(hst_[-1]).get('inner'):
                raise TranslationError('try_catch_fails: the handler must end in `throw;`')
            saved_fk_ = getattr(self, 'fail_k', None)
            def handler_k_():
                self.fail_k = saved_fk_
                t_ = self.stmts(hst_[:-1], lambda: self.fail_exit(), jc)
                self.fail_k = handler_k_
                return t_
            def after_try_():
                self.fail_k = saved_fk_
                return self.stmts(lst[1:], k, jc)
            self.fail_k = handler_k_
            return self.stmts([s['inner'][0]], after_try_, jc)
        if kind == 'CXXTryStmt' and self.ctx.cfg.get('try_catch_swallow'):
            # C10: `try { B } catch (...) { H }` whose handler does NOT rethrow: "try_catch_swallow": "<Gallina bool>" says whether a user
            # functor called inside B throws; then the handler's statements run instead of (the rest of) B
            if len(s['inner']) != 2 or s['inner'][1].get('kind') != 'CXXCatchStmt':
                raise TranslationError('try_catch_swallow: exactly one handler expected')
            hb_ = [x for x in s['inner'][1].get('inner', []) if isinstance(x, dict) and x.get('kind') == 'CompoundStmt']
            if len(hb_) != 1:
                raise TranslationError('try_catch_swallow: catch (...) { } expected')
            if 'CXXThrowExpr' in json.dumps(hb_[0]):
                raise TranslationError('try_catch_swallow: the handler rethrows')
            tv_ = self.ctx.cfg['try_catch_swallow']
            a_ = self.stmts(list(hb_[0].get('inner', [])) + lst[1:], k, jc)
            b_ = self.stmts([s['inner'][0]] + lst[1:], k, jc)
            return f'if {tv_} then (\n{a_})\nelse (\n{b_})'
        if kind == 'CXXTryStmt' and self.ctx.cfg.get('try_as_body'):   # C16: exceptions are not modelled: the try block alone
            return self.stmts([s['inner'][0]] + lst[1:], k, jc)
        if kind == 'DoStmt':
            raise TranslationError('do-while loop')
        if kind == 'CXXThrowExpr' or (kind == 'ExprWithCleanups' and skip_wrappers(s)['kind'] == 'CXXThrowExpr'):
            self.nonsimple = True
            return 'Exn'
        if kind == 'SwitchStmt':
            return self.switch(s, rest, jc)
        if self.return_call(s) is not None:   # C09: see return_call
            return jc['ret']('(%s)' % self.return_call(s))
        return self.expr_stmt(s, rest)

    def decl(self, s, rest):
        vs = [v for v in s['inner'] if v['kind'] == 'VarDecl']
        def go(i):
            if i == len(vs):
                return rest()
            v = vs[i]; nm = v['name']
            if nm in getattr(self, 'fail_locals', ()) and nm not in self._failed_locals:   # C04: the constructor of this local may throw
                self._failed_locals.add(nm)
                return f'if {nm}_fails then {self.fail_exit()} else (\n{go(i)})'
            if nm in self.ctx.cfg.get('skip_locals', {}).get(self.name, []):   # C16: e.g. `MemManager& memManager = GetMemManager();` (a later use is an error)
                return go(i + 1)
            if nm in self.ctx.cfg.get('pointer_locals', {}).get(self.name, {}):   # C02: `Node** children = pvGetChildren();` = a view of a configured (virtual) array field, usable only in array_copy ranges
                return go(i + 1)
            if nm in self.env and nm not in self.opaque:
                raise TranslationError(f'shadowing/redeclaration of {nm} in {self.name}')
            lc_ = self.ctx.cfg.get('lambda_captures', {}).get(self.name, {}).get(nm)   # C12: `auto f = [.., x, ..] (..) {..};` modelled by the VALUE of its
            if lc_ is not None:                                                      # by-copy capture x (checked: a by-copy capture of that name exists)
                lam_ = [x_ for x_ in v.get('inner', []) if isinstance(x_, dict)]
                def find_lam_(n_):
                    if n_.get('kind') == 'LambdaExpr': return n_
                    for c_ in n_.get('inner', []) or []:
                        if isinstance(c_, dict):
                            r_ = find_lam_(c_)
                            if r_ is not None: return r_
                    return None
                le_ = next((r_ for r_ in (find_lam_(x_) for x_ in lam_) if r_ is not None), None)
                if le_ is None: raise TranslationError('lambda_captures: %s is not initialised by a lambda' % nm)
                rec_ = next((c_ for c_ in le_.get('inner', []) if c_.get('kind') == 'CXXRecordDecl'), {})
                capf_ = [c_ for c_ in rec_.get('inner', []) if c_.get('kind') == 'FieldDecl']
                caps_ = [c_ for c_ in le_.get('inner', []) if c_.get('kind') == 'DeclRefExpr' or (c_.get('kind') == 'ImplicitCastExpr')]
                def names_(n_):
                    out_ = []
                    if n_.get('kind') == 'DeclRefExpr': out_.append(n_['referencedDecl']['name'])
                    for c_ in n_.get('inner', []) or []:
                        if isinstance(c_, dict) and c_.get('kind') != 'CompoundStmt' and c_.get('kind') != 'CXXRecordDecl': out_ += names_(c_)
                    return out_
                if lc_ not in [x_ for c_ in le_.get('inner', []) if c_.get('kind') not in ('CXXRecordDecl', 'CompoundStmt') for x_ in names_(c_)]:
                    raise TranslationError('lambda_captures: the lambda %s does not capture %s' % (nm, lc_))
                if lc_ not in self.env: raise TranslationError('lambda_captures: %s is not in scope' % lc_)
                self.env[nm] = self.env[lc_]
                return f'let {nm} := {lc_} in\n{go(i + 1)}'
            sl_ = self.ctx.cfg.get('struct_locals', {})   # C20: "struct_locals": {"BufferBytes": {"fields": [f1, f2], "get": [g1, g2], "pack": fn}}: a local of a small
            st_ = next((k_ for k_ in sl_ if k_ in (v.get('type', {}).get('qualType') or '')), None)   # POD struct type is flattened into scalars <local>_<field>
            if st_ is not None:
                init_ = [x for x in v.get('inner', []) if isinstance(x, dict) and x.get('kind') not in ('TypedefType',)]
                if len(init_) != 1:
                    raise TranslationError('struct local %s needs exactly one initialiser' % nm)
                if skip_wrappers(init_[0]).get('kind') == 'CXXConstructExpr' and not skip_wrappers(init_[0]).get('inner'):
                    # C09: `BufferBytes bytes;` (default construction, members assigned afterwards): the flattened members start as 0
                    if not hasattr(self, 'struct_locals'): self.struct_locals = {}
                    self.struct_locals[nm] = st_
                    out_ = ''
                    for i_, f_ in enumerate(sl_[st_]['fields']):
                        self.env[nm + '_' + f_] = ('s', int(sl_[st_]['bits'][i_])) if sl_[st_].get('bits') else ('s', 64)
                        out_ += f'let {nm}_{f_} := (0) in\n'
                    return out_ + go(i + 1)
                iv_ = self.e(init_[0])
                if not hasattr(self, 'struct_locals'): self.struct_locals = {}
                self.struct_locals[nm] = st_
                out_ = ''
                for i_, (f_, g_) in enumerate(zip(sl_[st_]['fields'], sl_[st_]['get'])):
                    self.env[nm + '_' + f_] = ('s', 64)
                    if sl_[st_].get('bits'):   # C09: "bits": [8, 8]: the members are intN_t (arithmetic on them wraps at that width)
                        self.env[nm + '_' + f_] = ('s', int(sl_[st_]['bits'][i_]))
                    out_ += f'let {nm}_{f_} := ({g_} {iv_}) in\n'
                return out_ + go(i + 1)
            if self.ctx.cfg.get('object_fields'):   # C14: `MemManager memManager(std::move(static_cast<MemManager&>(*this)));`
                init_ = [x for x in v.get('inner', []) if isinstance(x, dict) and x.get('kind') not in ('TypedefType',)]
                ov_ = self.obj_value(init_[0]) if len(init_) == 1 else None
                if ov_ is not None:
                    if not hasattr(self, 'obj_locals'): self.obj_locals = set()
                    self.obj_locals.add(nm); self.env[nm] = ('u', 64)
                    return f'let {nm} := {ov_} in\n{go(i + 1)}'
            if v.get('storageClass') == 'static' and not (
                    # C17: `static const size_t halfSize = <constant expr>;` – a const integer static local with a
                    # scalar initialiser is an ordinary immutable let-binding (falls through to the code below)
                    re.search(r'\bconst\b', v.get('type', {}).get('qualType', '')) and ctype(v)[0] in ('u', 's')
                    and not any(x.get('kind') == 'InitListExpr' for x in v.get('inner', []))):
                self.static_table(v)
                return go(i + 1)
            ct = ctype(v)
            if ct[0] == 'other' and 'pair' in ct[1]:
                ct = ('pair',)
            if nm in self.opaque and self.ctx.cfg.get('effect_in_opaque_init'):
                # C02: `Node* newNode1 = CreateNode(isLeaf, n);` - the local stays an opaque parameter, but a callee listed in
                # "effect_calls" still records its arguments (field := fn field args) before the binding
                init0_ = [x for x in v.get('inner', []) if isinstance(x, dict) and x.get('kind') not in ('TypedefType',)]
                iv0_ = skip_wrappers(init0_[0]) if init0_ else None
                while iv0_ is not None and iv0_.get('kind') == 'ImplicitCastExpr':
                    iv0_ = skip_wrappers(iv0_['inner'][0])
                if iv0_ is not None and iv0_.get('kind') in ('CXXMemberCallExpr', 'CallExpr'):
                    try:
                        enm_ = self.callee_name(iv0_)[0]
                    except TranslationError:
                        enm_ = None
                    eff0_ = self.ctx.cfg.get('effect_calls', {}).get(enm_)
                    if eff0_ is not None:
                        fld0_, fn0_ = eff0_
                        if fld0_ not in self.ctx.fields:
                            raise TranslationError('effect_calls: %s is not a configured field' % fld0_)
                        self.note_write(fld0_)
                        pre0_ = f'let {fld0_} := (' + ' '.join([fn0_, fld0_] + [self.e(a) for a in iv0_['inner'][1:]]) + ') in\n'
                        if ct[0] == 'ptr': ct = ('u', 64)
                        self.env[nm] = ct
                        if (nm, coq_ty(ct)) not in self.extra_params:
                            self.extra_params.append((nm, coq_ty(ct)))
                        return pre0_ + go(i + 1)
            if nm in self.opaque:
                if ct[0] == 'ptr': ct = ('u', 64)
                if ct[0] == 'other' and '(lambda at' in ct[1] and self.ctx.cfg.get('handle_refs'): ct = ('u', 64)   # C11: an opaque lambda local is an abstract value
                if ct[0] == 'other' and nm in self.ctx.cfg.get('opaque_objects', {}): ct = ('u', 64)   # C12: opaque class-typed local = a symbol
                self.env[nm] = ct
                if (nm, coq_ty(ct)) not in self.extra_params:
                    self.extra_params.append((nm, coq_ty(ct)))
                return go(i + 1)
            init = [x for x in v.get('inner', []) if isinstance(x, dict) and x.get('kind') not in ('TypedefType',)]
            if ct[0] == 'ptr' and not self.ctx.cfg.get('pointers'):
                raise TranslationError(f'pointer local {nm} (not opaque) in {self.name}')
            if not init:
                self.env[nm] = ct
                return f'let {nm} := {"false" if ct[0]=="bool" else "0"} in\n{go(i+1)}'
            iv = skip_wrappers(init[0])
            if nm not in self.opaque and self.ref_alias_base(v):   # C12: `uint8_t& r = field[idx];` (non-const reference to an element)
                b = self.alias_pre[nm]; ixn = nm + '_idx'
                if not hasattr(self, 'aliases'): self.aliases = {}
                ixv = self.e(self.memobj(iv)[2][0]) if iv.get('kind') == 'CXXOperatorCallExpr' else self.e(iv['inner'][1])   # C05: array[i] of a modelled object
                self.aliases[nm] = (b, ixn); self.env[nm] = ct
                return f'let {ixn} := {ixv} in\n{go(i+1)}'
            # call to non-simple function as initialiser
            if iv['kind'] in ('CXXMemberCallExpr', 'CallExpr') and self.is_nonsimple_call(iv):
                self.env[nm] = ct
                return self.bind_call(iv, nm, lambda: go(i + 1))
            am_ = self.atomic_mem_call(iv)
            if am_ is not None and am_[0] == 'exchange':
                # C19 ("atomic_mem": {"array": "mem"}): `T x = obj.exchange(v);` on a std::atomic whose cell lives in the configured
                # memory array: x := mem[addr(obj)]; mem[addr(obj)] := v   (sequential reading of the atomic read-modify-write)
                _, arr_, addr_, args_ = am_
                self.note_write(arr_); self.env[nm] = ct
                return f'let {nm} := ({arr_} {addr_}) in\nlet {arr_} := upd {arr_} {addr_} {self.e(args_[0])} in\n{self.atomic_order_let()}{go(i+1)}'
            val = self.e(init[0])
            self.env[nm] = ct
            return f'let {nm} := {val} in\n{go(i+1)}'
        return go(0)

    def atomic_order_let(self):
        of_ = self.ctx.cfg.get('atomic_mem', {}).get('order_field')
        if not of_:
            return ''
        if of_ not in self.env: raise TranslationError('order_field %s is not a configured field' % of_)
        self.note_write(of_)
        return f'let {of_} := (Z.min {of_} ({self.atomic_order_})) in\n'

    def atomic_mem_call(self, n):
        """C19: (method, array, address text, argument nodes) when n is `obj.exchange(..)` / `obj.compare_exchange_weak|strong(..)` on an
        object whose address is translatable (`*ptr`, `ptr->`, or a call mapped by "primitives") and "atomic_mem" is configured"""
        cfg_ = self.ctx.cfg.get('atomic_mem')
        if not cfg_:
            return None
        n = skip_wrappers(n)
        while n.get('kind') == 'ImplicitCastExpr':
            n = skip_wrappers(n['inner'][0])
        if n.get('kind') != 'CXXMemberCallExpr':
            return None
        c = skip_wrappers(n['inner'][0])
        if c.get('kind') != 'MemberExpr' or c.get('name') not in ('exchange', 'compare_exchange_weak', 'compare_exchange_strong'):
            return None
        args = [a for a in n['inner'][1:] if a.get('kind') != 'CXXDefaultArgExpr']
        nargs_ = 1 if c['name'] == 'exchange' else 2
        self.atomic_order_ = 5          # C19: memory_order_seq_cst (the default argument)
        if len(args) > nargs_ and cfg_.get('order_field'):
            # C19 ("order_field": pseudo scalar field): explicit std::memory_order arguments are translated to their enumerator value
            # (relaxed 0 .. seq_cst 5) and the field records the MINIMUM order used, so that "every atomic op is seq_cst" is a lemma
            vals_ = []
            for a in args[nargs_:]:
                m_ = re.search(r'"name": "memory_order_(relaxed|consume|acquire|release|acq_rel|seq_cst)"', json.dumps(a))
                if not m_: raise TranslationError('atomic %s: memory order argument is not an enumerator' % c['name'])
                vals_.append(['relaxed', 'consume', 'acquire', 'release', 'acq_rel', 'seq_cst'].index(m_.group(1)))
            self.atomic_order_ = min(vals_); args = args[:nargs_]
        if len(args) != nargs_:
            raise TranslationError('atomic %s with an explicit memory order is not modelled' % c['name'])
        obj = skip_wrappers(c['inner'][0])
        while obj.get('kind') == 'ImplicitCastExpr':
            obj = skip_wrappers(obj['inner'][0])
        if c.get('isArrow'):
            addr = self.e(obj)
        elif obj.get('kind') == 'UnaryOperator' and obj.get('opcode') == '*':
            addr = self.e(obj['inner'][0])
        else:
            addr = self.e(obj)
        return (c['name'], cfg_['array'], addr, args)

    def static_table(self, v):
        nm = v['name']
        il = [x for x in v.get('inner', []) if x['kind'] == 'InitListExpr']
        if not il:
            raise TranslationError('static local without init list: ' + nm)
        vals = []
        for x in il[0].get('inner', []):
            x = skip_wrappers(x)
            while x['kind'] in ('ImplicitCastExpr',):
                x = skip_wrappers(x['inner'][0])
            if x['kind'] != 'IntegerLiteral':
                raise TranslationError('non-literal table entry in ' + nm)
            vals.append(int(x['value']))
        self.ctx.static_tables[nm] = vals

    def is_nonsimple_call(self, n):
        try:
            nm, c = self.callee_name(n)
        except TranslationError:
            return False
        fi = self.lookup_fn(nm, c)
        return fi is not None and fi.nonsimple

    def bind_call(self, n, resname, k):
        """call a non-simple (outcome) function, bind result to resname (or None) and written fields"""
        nm, c = self.callee_name(n)
        fi = self.lookup_fn(nm, c)
        self.nonsimple = True
        if isinstance(fi, ExternFn):   # C12
            ea_ = n['inner'][1:]
            ob_ = [self.e(c['inner'][0])] if (fi.cfg.get('object') and c.get('kind') == 'MemberExpr') else []
            args = fi.field_args_for(self) + ob_ + [self.e(ea_[i_]) for i_ in fi.cfg.get('args', range(len(ea_)))]
        else:
            args = fi.field_args_for(self) + self.call_args(fi, n['inner'][1:])
        wf = fi.out_fields()
        for f in wf:
            self.note_write(f)
        if resname is None and getattr(fi, 'fails_mode', False) and getattr(self, 'fails_mode', False):   # C04: `callee(..);` where the callee
            resname = self.fresh('c'); k0_ = k                                                              # may throw: its completed flag is tested
            k = lambda: (lambda fe_: f'if {resname} then (\n{k0_()}) else {fe_}')(self.fail_exit())   # the failure exit of THIS point (a try block may end in k0_)
        res = resname if resname else '_'
        if getattr(fi, 'outp', None) and self.ctx.cfg.get('out_param_calls'):   # C09: `r = F(a, out)`: the callee returns (r, out..): bind the caller's
            pn_ = [p for p in fi.d.get('inner', []) if p['kind'] == 'ParmVarDecl']      # argument variables (locals in scope) to the out components
            outs_ = []
            for on_ in fi.outp:
                ix_ = [i for i, p in enumerate(pn_) if p.get('name') == on_]
                if not ix_: raise TranslationError('out_param_calls: %s has no parameter %s' % (fi.name, on_))
                an_ = self.lhs_name(n['inner'][1:][ix_[0]])
                if an_ not in self.env: raise TranslationError('out_param_calls: out argument %s is not a local in scope' % an_)
                self.note_write(an_); outs_.append(an_)
            res = ('(' + ', '.join([res] + outs_) + ')') if fi.ret_ct[0] != 'void' else self.tup(outs_)
        pat = "'(" + ', '.join([res] + wf) + ')' if wf else res
        return (f'match {fi.out} ' + ' '.join(args) + f' with\n| Ok {pat.lstrip(chr(39)) if not wf else pat[1:]} =>\n{k()}\n'
                f'| Stuck => Stuck | Fuel => Fuel | Exn => Exn\nend')

    def out_fields(self):
        return [f for f in self.fieldnames if f in self.writes_fields]

    def fail_exit(self):
        """C04: what happens when a step that may throw does throw: outside a try block the function is left at once (completed = false);
        inside `try { .. } catch (...) { H; throw; }` ("try_catch_fails": true) the handler H runs first (see CXXTryStmt)"""
        fk_ = getattr(self, 'fail_k', None)
        return fk_() if fk_ else 'RETURN[false]'

    def ret_stmt(self, v, jc):
        vv = skip_wrappers(v)
        if vv['kind'] in ('CXXMemberCallExpr', 'CallExpr') and self.is_nonsimple_call(vv):
            r = self.fresh('r')
            return self.bind_call(vv, r, lambda: jc['ret'](r))
        if vv['kind'] == 'CXXConstructExpr' and self.ret_ct[0] == 'pair':
            a, b = [self.e(x) for x in vv['inner']]
            return jc['ret'](f'({a}, {b})')
        return jc['ret'](self.e(v))

    def hoist_one(self, s0):
        """C09 ("hoist_calls": true): `x = prim(F(a))` / `prim(v, F(a));` where F is a NON-SIMPLE translated function (it can be
        Stuck) used as an ARGUMENT: F's call is bound first (match F .. with Ok h => ..), the statement is then translated with the
        bound name in its place.  Only ONE such nested call per statement is accepted (no evaluation-order question arises).
        Returns (call node, statement copy with the call replaced by a GallinaVar, fresh name) or None."""
        import copy
        s1 = copy.deepcopy(s0)
        found = []
        def top_call(n):   # the statement-level call / the direct right-hand side of a top-level assignment is handled by the ordinary paths
            n = skip_wrappers(n)
            while n.get('kind') == 'ImplicitCastExpr' and n.get('inner'):
                n = skip_wrappers(n['inner'][0])
            return n
        skip = [id(top_call(s1))]
        if s1.get('kind') == 'BinaryOperator' and s1.get('opcode') == '=':
            skip.append(id(top_call(s1['inner'][1])))
        def walk(n):
            for i, c in enumerate(n.get('inner', []) or []):
                if not isinstance(c, dict):
                    continue
                if c.get('kind') in ('CXXMemberCallExpr', 'CallExpr') and id(c) not in skip and self.is_nonsimple_call(c):
                    found.append((n, i, c))
                else:
                    walk(c)
        walk(s1)
        if id(s1) not in skip[:1]:
            pass
        if not found:
            return None
        if len(found) > 1:
            raise TranslationError('hoist_calls: more than one nested non-simple call in one statement')
        parent, i, c = found[0]
        r = self.fresh('h')
        parent['inner'][i] = {'kind': 'GallinaVar', 'text': r, 'type': c.get('type', {}), 'valueCategory': c.get('valueCategory', 'prvalue')}
        return c, s1, r

    def expr_stmt(self, s, rest):
        s0 = skip_wrappers(s)
        k = s0['kind']
        if self.ctx.cfg.get('hoist_calls') and k in ('BinaryOperator', 'CXXMemberCallExpr', 'CallExpr'):   # C09
            h_ = self.hoist_one(s0)
            if h_ is not None:
                call_, s1_, r_ = h_
                self.env[r_] = ctype(call_)
                return self.bind_call(call_, r_, lambda: self.expr_stmt(s1_, rest))
        if k in ('CXXMemberCallExpr', 'CXXOperatorCallExpr') and self.memobj(s0) is not None:   # C16
            return self.memobj_stmt(s0, rest)
        if k == 'BinaryOperator' and s0.get('opcode') == ',' and self.ctx.cfg.get('comma_sequence'):   # C16: `++i, ++n` in a for-increment
            return self.expr_stmt(s0['inner'][0], lambda: self.expr_stmt(s0['inner'][1], rest))
        if k == 'CallExpr' and self.ctx.cfg.get('out_calls'):   # C16: f(in.., out&..) of another class -> let '(outs) := prim ins
            try:
                onm, _ = self.callee_name(s0)
            except TranslationError:
                onm = None
            oc = self.ctx.cfg['out_calls'].get(onm)
            if oc is not None:
                args = s0['inner'][1:]
                ins = [self.e(args[i]) for i in oc['ins']]
                outs = [self.lhs_name(args[i]) for i in oc['outs']]
                for o in outs:
                    if o not in self.env: raise TranslationError('out argument %s is not a local in scope' % o)
                    self.note_write(o)
                return f"let '({', '.join(outs)}) := ({' '.join([oc['prim']] + ins)}) in\n{rest()}"
        if k == 'BinaryOperator' and s0['opcode'] == '=':
            rhs = skip_wrappers(s0['inner'][1])
            if rhs['kind'] in ('CXXMemberCallExpr', 'CallExpr') and self.ctx.cfg.get('out_calls'):   # C12: `x = f(in.., out&..)` with "out_calls": {"f": {.., "ret": true}} -> let '(x, outs) := prim ins
                try:
                    onm_, _ = self.callee_name(rhs)
                except TranslationError:
                    onm_ = None
                oc_ = self.ctx.cfg['out_calls'].get(onm_)
                if oc_ is not None and oc_.get('ret'):
                    args_ = rhs['inner'][1:]
                    ins_ = [self.e(args_[i]) for i in oc_['ins']]
                    outs_ = [self.lhs_name(args_[i]) for i in oc_['outs']]
                    x_ = self.lhs_name(s0['inner'][0])
                    for o_ in [x_] + outs_:
                        if o_ not in self.env: raise TranslationError('out_calls: %s is not a local in scope' % o_)
                        self.note_write(o_)
                    return f"let '({', '.join([x_] + outs_)}) := ({' '.join([oc_['prim']] + ins_)}) in\n{rest()}"
            if rhs['kind'] in ('CXXMemberCallExpr', 'CallExpr') and getattr(self, 'fail_calls', ()):   # C20: `x = f();` where f is a "failing_calls" primitive (an allocation that may throw)
                try:
                    rn_ = self.callee_name(rhs)[0]
                except TranslationError:
                    rn_ = None
                if rn_ in self.fail_calls and self.ctx.cfg.get('primitives', {}).get(rn_) is not None:
                    return f'if {rn_}_fails then {self.fail_exit()} else (\n' + self.assign_to(s0['inner'][0], self.e(s0['inner'][1]), rest) + ')'
            if rhs['kind'] in ('CXXMemberCallExpr', 'CallExpr') and self.is_nonsimple_call(rhs):
                r = self.fresh('r')
                return self.bind_call(rhs, r, lambda: self.assign_to(s0['inner'][0], r, rest))
            return self.assign_to(s0['inner'][0], self.e(s0['inner'][1]), rest)
        if k == 'CompoundAssignOperator':
            op = s0['opcode'][:-1]; lhs = s0['inner'][0]
            lt = ctype(lhs)
            comp = ctype_of_str(s0.get('computeResultType', {}).get('desugaredQualType') or
                                s0.get('computeResultType', {}).get('qualType') or '')
            if comp[0] not in ('u', 's'):
                comp = ctype(s0)
            a = self.e(lhs); b = self.e(s0['inner'][1])
            val = self.arith(op, a, b, comp)
            if not (comp == lt):
                val = self.conv(val, comp, lt)
            return self.assign_to(lhs, val, rest)
        if k == 'CStyleCastExpr' and self.ctx.cfg.get('iter_cells') and s0.get('castKind') == 'ToVoid':   # C16: `(void)++iter`
            return self.expr_stmt(s0['inner'][0], rest)
        if k == 'UnaryOperator' and s0['opcode'] in ('++', '--') and self.ctx.cfg.get('iter_cells') and ctype(s0)[0] == 'ptr':   # C16: ++iter on a cell position
            v = s0['inner'][0]; a = self.e(v)
            return self.assign_to(v, f'({a} {"+" if s0["opcode"]=="++" else "-"} 1)', rest)
        if k == 'UnaryOperator' and s0['opcode'] in ('++', '--'):
            v = s0['inner'][0]; ct = ctype(s0)
            # C14: `++obj.Accessor();` where Accessor is listed in "assert_calls" (see below): only the callee's assertion is modelled
            vv = skip_wrappers(v)
            if vv['kind'] in ('CXXMemberCallExpr', 'CallExpr'):
                try:
                    anm, _ = self.callee_name(vv)
                except TranslationError:
                    anm = None
                if anm in self.ctx.cfg.get('assert_calls', {}):
                    self.nonsimple = True
                    return f"if {self.ctx.cfg['assert_calls'][anm]} then Stuck else (\n{rest()})"
            a = self.e(v)
            return self.assign_to(v, wrap(ct, f'({a} {"+" if s0["opcode"]=="++" else "-"} 1)'), rest)
        if k in ('CXXMemberCallExpr', 'CallExpr', 'CXXOperatorCallExpr'):
            try:
                nm, c = self.callee_name(s0)
            except TranslationError:
                nm = None; c = None
                if self.ctx.cfg.get('skip_unresolved_calls'):   # C07: a call statement into another object (mHashMultiMap.Add(...)) that is not modelled
                    return rest()
            # C14: "assert_calls": {callee name: Gallina bool}: a call into another object (e.g. mCrew.IncVersion(),
            # MemManagerProxy::Deallocate(GetMemManager(), ...)) whose callee begins with MOMO_ASSERT(!<bool>): the statement
            # becomes that obligation (Stuck when the bool holds); the callee's contract is checked separately by the property.
            rid0_ = (c.get('referencedMemberDecl') or (c.get('referencedDecl') or {}).get('id')) if (nm is not None and c) else None
            mob_ = self.member_object_base(c) if (nm is not None and c) else None
            if isinstance(mob_, str):   # C12: setter of a member object modelled as scalar fields: mPtrState.Set(ptr, state)
                flds_ = self.ctx.cfg['member_objects'][mob_].get(nm)
                if isinstance(flds_, list) and len(flds_) == len(s0['inner']) - 1:
                    vals_ = [self.e(a) for a in s0['inner'][1:]]
                    for f_ in flds_:
                        self.note_write(f_)
                    tmp_ = [f'{f_}__new' for f_ in flds_]
                    txt_ = ''.join(f'let {t_} := {v_} in\n' for t_, v_ in zip(tmp_, vals_))
                    txt_ += ''.join(f'let {f_} := {t_} in\n' for f_, t_ in zip(flds_, tmp_))
                    return txt_ + rest()
                raise TranslationError('call %s.%s is not a configured setter' % (mob_, nm))
            # C14: "swap_calls": true -- two-object functions.  `std::swap(a, b)` and `x.Swap(y)` (callee listed in
            # "member_swaps") exchange two scalar lvalues; an lvalue is a field of *this, a field of a by-reference parameter
            # object (`other.field`, configured as field "other_field"), or `obj.Accessor()` with Accessor in "lvalue_calls"
            # (name -> field; on a parameter object: "<param>_<field>").
            if self.ctx.cfg.get('swap_calls') and not (rid0_ is not None and rid0_ in self.ctx.fninfo_id):
                pair_ = None
                if nm == 'swap' and k == 'CallExpr' and len(s0['inner']) == 3:
                    pair_ = (s0['inner'][1], s0['inner'][2])
                elif nm in self.ctx.cfg.get('member_swaps', []) and k == 'CXXMemberCallExpr' and len(s0['inner']) == 2 and c.get('inner'):
                    pair_ = (c['inner'][0], s0['inner'][1])
                if pair_ is not None:
                    a_ = self.swap_lvalue(pair_[0]); b_ = self.swap_lvalue(pair_[1])
                    for f_ in (a_, b_):
                        if self.ctx.fields.get(f_, 'scalar') not in ('scalar', 'bool') \
                                and not str(self.ctx.fields.get(f_)).startswith('abstract:'):   # C14: a whole member object ("abstract:<type>") is exchanged as one value
                            raise TranslationError('swap of non-scalar ' + f_)
                        self.note_write(f_)
                    return f'let swap_tmp_ := {a_} in\nlet {a_} := {b_} in\nlet {b_} := swap_tmp_ in\n{rest()}'
            if nm in self.ctx.cfg.get('store_calls', []) and k == 'CallExpr' and len(s0['inner']) == 3:
                # C01 ("store_calls": ["ToBuffer"]): MemCopyer::ToBuffer(value, field) -- the configured scalar field takes the value
                # (a pointer / integer stored through memcpy into a byte buffer member); config-gated, additive
                dst_ = skip_wrappers(s0['inner'][2])
                while dst_.get('kind') in ('ImplicitCastExpr', 'ParenExpr') and dst_.get('inner'):
                    dst_ = skip_wrappers(dst_['inner'][0])
                return self.assign_to(dst_, self.e(s0['inner'][1]), rest)
            if nm in self.ctx.cfg.get('mgr_record_calls', {}) and k == 'CallExpr' and len(s0['inner']) >= 2:
                # C14: "mgr_record_calls": {"Deallocate": ghost}: the object passed first (a manager in the sense of "object_fields") is recorded
                # in the configured ghost field -- "the storage was returned through THIS manager"
                g_ = self.ctx.cfg['mgr_record_calls'][nm]; v_ = self.obj_value(s0['inner'][1])
                if v_ is None or g_ not in self.ctx.fields:
                    raise TranslationError('record call %s: first argument is not a configured object' % nm)
                self.note_write(g_)
                return f'let {g_} := {v_} in\n{rest()}'
            if k == 'CXXMemberCallExpr' and c is not None and c.get('inner') and self.ctx.cfg.get('other_objects'):
                # C14: "other_objects": [param]: `param.f(...)` with f translated: f runs on the parameter's field set (<param>_<field>)
                ob_ = skip_wrappers(c['inner'][0])
                while ob_['kind'] == 'ImplicitCastExpr' and ob_.get('inner'): ob_ = skip_wrappers(ob_['inner'][0])
                if ob_['kind'] == 'DeclRefExpr' and ob_['referencedDecl']['name'] in self.ctx.cfg['other_objects']:
                    P_ = ob_['referencedDecl']['name']
                    fi_ = self.lookup_fn(nm, c)
                    if fi_ is None or fi_.nonsimple or fi_.ret_ct[0] != 'void':
                        raise TranslationError('call of %s on object %s: not a translated straight-line void function' % (nm, P_))
                    def sw_(f):
                        if f.startswith(P_ + '_'): return f[len(P_) + 1:]
                        return P_ + '_' + f if (P_ + '_' + f) in self.ctx.fields else f
                    wf_ = [sw_(f) for f in fi_.out_fields()]
                    for f in wf_: self.note_write(f)
                    args_ = [sw_(f) for f in fi_.field_args_for(self)] + self.call_args(fi_, s0['inner'][1:])
                    return f'let {self.pat(wf_)} := (' + ' '.join([fi_.out] + args_) + f') in\n{rest()}'
            if nm in self.ctx.cfg.get('assign_calls', []) and k == 'CallExpr' and len(s0['inner']) == 3:
                # C14: "assign_calls": MemManagerProxy::Assign(src, dst) -- dst takes src's identity (PropagationModel: whichever
                # overload / fallback is chosen); both are objects in the sense of "object_fields"
                src_ = self.obj_value(s0['inner'][1]); dst_ = self.obj_value(s0['inner'][2])
                if src_ is None or dst_ is None:
                    raise TranslationError('assign call on something that is not a configured object')
                self.note_write(dst_)
                return f'let {dst_} := {src_} in\n{rest()}'
            if nm in self.ctx.cfg.get('assert_calls', {}) and not (rid0_ is not None and rid0_ in self.ctx.fninfo_id):
                self.nonsimple = True
                return f"if {self.ctx.cfg['assert_calls'][nm]} then Stuck else (\n{rest()})"
            if k == 'CXXOperatorCallExpr':
                # functor(...) call
                callee = skip_wrappers(s0['inner'][1]) if len(s0['inner']) > 1 else None
                fname = self.functor_of(s0)
                if fname and self.functors.get(fname) == 'skip':
                    return rest()
                if fname and isinstance(self.functors.get(fname), dict) and 'observe' in self.functors[fname]:
                    # C10: {"observe": ghost, "value": field}: a user functor that may throw runs HERE: the ghost field records the
                    # value of `field` at the moment of the call (what the object looks like if the functor throws)
                    g_ = self.functors[fname]['observe']; v_ = self.functors[fname]['value']
                    if g_ not in self.ctx.fields or v_ not in self.ctx.fields:
                        raise TranslationError('observe: %s / %s must be configured fields' % (g_, v_))
                    self.note_write(g_)
                    return f'let {g_} := {v_} in\n{rest()}'
                if fname and self.functors.get(fname) == 'fails':   # C04: the functor throws here, or the function goes on
                    # "functor_clobbers": {fn: {functor: [field]}}: the functor WRITES through a pointer that aliases the field (a union
                    # member): whether it throws or not the field then holds an arbitrary value (parameter <functor>_clobber_<field>)
                    pre_ = ''
                    for cf_ in self.ctx.cfg.get('functor_clobbers', {}).get(self.name, {}).get(fname, []):
                        if cf_ not in self.ctx.fields: raise TranslationError('functor_clobbers: %s is not a configured field' % cf_)
                        cn_ = '%s_clobber_%s' % (fname, cf_)
                        if (cn_, 'Z') not in self.extra_params:
                            self.extra_params.append((cn_, 'Z')); self.env[cn_] = ('u', 64)
                        self.note_write(cf_)
                        pre_ += f'let {cf_} := {cn_} in\n'
                    return pre_ + f"if {fname}_fails then {self.fail_exit()} else (\n{rest()})"
                ea_ = self.ctx.cfg.get('effect_assign', {}).get(self.name)
                if nm == 'operator=' and ea_ is not None and len(s0['inner']) == 3:
                    # C20: "effect_assign": {"<fn>": {"field": f, "fn": g, "args": [locals]}}: an assignment of a freshly constructed class
                    # object (`*mMemPool = MemPool(memPoolParams, ...)`) is modelled as f := g f locals; every listed local must occur in the rhs
                    if ea_.get('lhs_deref'):   # C20: the assigned object must be `*<member>` (the pointee is replaced in place), not the pointer member itself
                        l_ = skip_wrappers(s0['inner'][1]); lt_ = json.dumps(l_)
                        if not (l_.get('kind') in ('CXXOperatorCallExpr', 'UnaryOperator') and ('"name": "%s"' % ea_['lhs_deref']) in lt_
                                and ('operator*' in lt_ or l_.get('opcode') == '*')):
                            raise TranslationError('effect_assign: the assignment target is not *%s' % ea_['lhs_deref'])
                    txt_ = json.dumps(s0['inner'][2])
                    for a_ in ea_['args']:
                        if ('"name": "%s"' % a_) not in txt_ or a_ not in self.env:
                            raise TranslationError('effect_assign: %s does not occur in the assigned expression' % a_)
                    if ea_['field'] not in self.ctx.fields:
                        raise TranslationError('effect_assign: %s is not a configured field' % ea_['field'])
                    self.note_write(ea_['field'])
                    return f"let {ea_['field']} := (" + ' '.join([ea_['fn'], ea_['field']] + ea_['args']) + f') in\n{rest()}'
                if nm == 'operator=' and self.ctx.cfg.get('opaque_types') and len(s0['inner']) == 3 and self.ctx.cfg.get('effect_prims'):
                    # C08: "effect_prims": {"Remove": {"ret": "remove_ret", "effects": {"mValueCount": "cnt_dec", ...}}}: `x = Remove(args);` where Remove
                    # is a member whose modelled effect is: each listed field f := g f, and the opaque result is (ret args)
                    rhs8_ = skip_wrappers(s0['inner'][2])
                    while rhs8_.get('kind') in ('ImplicitCastExpr', 'MaterializeTemporaryExpr', 'CXXBindTemporaryExpr', 'ExprWithCleanups') and rhs8_.get('inner'):
                        rhs8_ = skip_wrappers(rhs8_['inner'][0])
                    if rhs8_.get('kind') in ('CXXMemberCallExpr', 'CallExpr'):
                        try:
                            nm8_, _c8 = self.callee_name(rhs8_)
                        except TranslationError:
                            nm8_ = None
                        ep8_ = self.ctx.cfg['effect_prims'].get(nm8_)
                        if ep8_ is not None:
                            val8_ = '(' + ' '.join([ep8_['ret']] + [self.e(a_) for a_ in rhs8_['inner'][1:]]) + ')'
                            pre8_ = ''
                            for f8_, g8_ in ep8_.get('effects', {}).items():
                                if f8_ not in self.ctx.fields:
                                    raise TranslationError('effect_prims: %s is not a configured field' % f8_)
                                self.note_write(f8_)
                                pre8_ += f'let {f8_} := ({g8_} {f8_}) in\n'
                            return self.assign_to(s0['inner'][1], val8_, lambda: pre8_ + rest())
                if nm == 'operator=' and self.ctx.cfg.get('opaque_types') and len(s0['inner']) == 3:   # C06: assignment between opaque (class-type) values
                    return self.assign_to(s0['inner'][1], self.e(s0['inner'][2]), rest)
                if nm == 'operator++' and self.ctx.cfg.get('opaque_types') and len(s0['inner']) == 2 \
                        and 'operator++' in self.ctx.cfg.get('operator_prims', {}):   # C08: `++it;` on an opaque iterator: it := next it
                    opp_ = self.ctx.cfg['operator_prims']['operator++']
                    return self.assign_to(s0['inner'][1], f'({opp_} {self.e(s0["inner"][1])})', rest)
                raise TranslationError('operator call statement')
            if nm in self.functors and self.functors[nm] == 'skip':
                return rest()
            if nm in self.ctx.cfg.get('assign_calls', []) and len(s0['inner']) >= 3:   # C05: ItemTraits::Assign(memManager, src, dst)  =  dst = src
                return self.assign_to(s0['inner'][-1], self.e(s0['inner'][-2]), rest)
            eff_ = self.ctx.cfg.get('effect_calls', {}).get(nm) or self.ctx.cfg.get('effect_calls', {}).get('%s/%d' % (nm, len(s0['inner']) - 1))   # C20: "Name/argc"
            if eff_ is not None:   # C06: "effect_calls": {"clear": ["st", "ev_clear"]}: a call statement whose effect is field := fn field args
                if isinstance(eff_[0], list):   # C09: "effect_calls": {"pvSetBufferBytes": [["bbFirst", "set_first"], ["bbCount", "set_count"]]}:
                    args_ = [self.e(a) for a in s0['inner'][1:]]   # one call writing SEVERAL fields: f1 := fn1 f1 args; f2 := fn2 f2 args (same argument values)
                    out_ = ''
                    for fld2_, fn2_ in eff_:
                        if fld2_ not in self.ctx.fields:
                            raise TranslationError('effect_calls: %s is not a configured field' % fld2_)
                        self.note_write(fld2_)
                        out_ += f'let {fld2_} := (' + ' '.join([fn2_, fld2_] + args_) + ') in\n'
                    return out_ + rest()
                fld_, fn_ = eff_
                if fld_ not in self.ctx.fields:
                    raise TranslationError('effect_calls: %s is not a configured field' % fld_)
                self.note_write(fld_)
                return f'let {fld_} := (' + ' '.join([fn_, fld_] + [self.e(a) for a in s0['inner'][1:]]) + f') in\n{rest()}'
            if getattr(self, 'tc_cfg', None) and nm in self.tc_cfg.get('calls', {}):   # C18: try_catch
                cc_ = self.tc_cfg['calls'][nm]
                co_ = skip_wrappers(s0['inner'][0])
                while co_.get('kind') == 'ImplicitCastExpr': co_ = skip_wrappers(co_['inner'][0])
                if co_.get('kind') != 'MemberExpr' or not co_.get('inner'):
                    raise TranslationError('try_catch: %s is not called as obj.%s(..)' % (nm, nm))
                obj_ = self.e(co_['inner'][0])
                jc_ = self._cur_jc
                for f_ in [cc_.get('count'), cc_.get('effect')]:
                    if f_ and f_ not in self.ctx.fields: raise TranslationError('try_catch: %s is not a configured field' % f_)
                if cc_.get('fails'):
                    if self.tc_handler is not None:   # inside the try block: the handler runs here, in the scope of the try statement
                        saved_ = self.env; self.env = dict(self.tc_env)
                        h_, self.tc_handler = self.tc_handler, None     # a throw inside the handler propagates
                        if getattr(self, 'tc_swallow', False):
                            if len([l_ for l_ in self.loops if l_ is None]) != self.tc_loop_depth:
                                raise TranslationError('try_catch: a swallowing handler with the throwing call inside a loop is not supported')
                            thrown_ = self.stmts([h_], self.tc_after, jc_)
                        else:
                            thrown_ = self.stmts([h_], lambda: 'Stuck', jc_)
                        self.tc_handler = h_; self.env = saved_
                    else:
                        thrown_ = jc_['ret']('false')
                go_ = ''
                if cc_.get('count'):
                    self.note_write(cc_['count']); go_ += f"let {cc_['count']} := (wrapU 64 ({cc_['count']} + 1)) in\n"
                if cc_.get('effect'):
                    self.note_write(cc_['effect'])
                    go_ += f"let {cc_['effect']} := upd {cc_['effect']} {obj_} (wrapU 64 ({cc_['effect']} {obj_} + 1)) in\n"
                if cc_.get('fails'):
                    return f"if ({cc_['fails']} {cc_['count']}) then (\n{thrown_})\nelse (\n{go_}{rest()})"
                return go_ + rest()
            if nm in getattr(self, 'fail_calls', ()):   # C04: a call that is otherwise skipped but may throw
                return f'if {nm}_fails then {self.fail_exit()} else (\n{rest()})'
            lc_ = self.ctx.cfg.get('log_calls', {}).get(nm)   # C16: ghost log: {"Destroy": {"arr": field, "n": field, "args": [1, 2]}} -- the call is
            if lc_ is not None:                                #      not executed, the listed argument VALUES are appended to the log array
                la_ = s0['inner'][1:]; arr_, nn_ = lc_['arr'], lc_['n']
                if arr_ not in self.env or nn_ not in self.env: raise TranslationError('log_calls: %s / %s must be configured fields' % (arr_, nn_))
                self.note_write(arr_); self.note_write(nn_)
                txt_ = ''
                for i_ in lc_['args']:
                    txt_ += f'let {arr_} := upd {arr_} {nn_} {self.e(la_[i_])} in\nlet {nn_} := ({nn_} + 1) in\n'
                return txt_ + rest()
            if nm in self.ctx.cfg.get('skip_calls', []):
                # C14: a skipped NAME does not hide a call to an overload that IS translated (pvDestroy() vs pvDestroy(Node*))
                rid_ = (c.get('referencedMemberDecl') or (c.get('referencedDecl') or {}).get('id')) if c else None
                if not (rid_ is not None and rid_ in self.ctx.fninfo_id):
                    return rest()
            rc_ = self.ctx.cfg.get('record_calls', {}).get(nm)
            if rc_ is not None and getattr(self, '_rec_now', None) == id(s0):   # C09 (record_and_call): immediate re-entry for the same call, now executed
                rc_ = None; self._rec_now = None
            if rc_ is not None:
                # C07: call statement whose only modelled effect is to RECORD some of its arguments in configured (pseudo) scalar
                # fields: "record_calls": {"pvSortRaws": [["sortFrom", 1], ["sortTo", 2]]} (argument indexes, 0-based)
                args_ = s0['inner'][1:]
                out_ = ''
                for fld_, ix_ in rc_:
                    if fld_ not in self.ctx.fields:
                        raise TranslationError('record_calls: %s is not a configured field' % fld_)
                    self.note_write(fld_)
                    if ix_ == 'obj':   # C08: record the implicit object of a member call (an opaque local handle)
                        out_ += f'let {fld_} := ({self.e(skip_wrappers(s0["inner"][0])["inner"][0])}) in\n'
                        continue
                    if ix_ >= len(args_) and self.ctx.cfg.get('record_missing_arg') is not None:
                        # C11: "record_missing_arg": "<value>": an overload of the recorded NAME with fewer arguments (pvDestroy() vs
                        # pvDestroy(Buckets*, bool)) records this constant instead
                        out_ += f"let {fld_} := ({self.ctx.cfg['record_missing_arg']}) in\n"
                        continue
                    out_ += f'let {fld_} := ({self.e(args_[ix_])}) in\n'
                if self.ctx.cfg.get('record_and_call'):   # C09: the arguments are recorded in the pseudo fields AND the (translated) callee is executed
                    self._rec_now = id(s0)
                    return out_ + self.expr_stmt(s, rest)
                return out_ + rest()
            if nm in ('copy', 'copy_backward') and k == 'CallExpr' and len(s0['inner']) == 4 and self.ctx.cfg.get('array_copy'):
                # C02: std::copy(f + a, f + b, f + d) / std::copy_backward(f + a, f + b, f + dLast) inside ONE configured array field
                # (or a pointer local declared in "pointer_locals" as a view of such a field): a range copy is a function update
                # on [d, d + (b - a)) reading the OLD contents (the standard's no-overlap preconditions: d not in [a, b) for copy,
                # dLast not in (a, b] for copy_backward, are the caller's obligation and are stated in the generated comment).
                (f1, a_), (f2, b_), (f3, d_) = [self.ptr_range(x) for x in s0['inner'][1:4]]
                if not (f1 == f2 == f3):
                    raise TranslationError('%s between different arrays (%s, %s, %s)' % (nm, f1, f2, f3))
                if self.ctx.fields.get(f1) != 'array':
                    raise TranslationError('%s on %s which is not a configured array field' % (nm, f1))
                self.note_write(f1)
                dst = 'cp_d_' if nm == 'copy' else '(cp_d_ - cp_n_)'
                return (f'(* std::{nm} on {f1}: parallel range copy *)\nlet {f1} := (let cp_a_ := {a_} in let cp_n_ := ({b_}) - cp_a_ in let cp_d_ := {d_} in '
                        f'let cp_o_ := {dst} in fun j_ => if andb (Z.leb cp_o_ j_) (Z.ltb j_ (cp_o_ + cp_n_)) then {f1} (j_ - cp_o_ + cp_a_) else {f1} j_) in\n{rest()}')
            sc_ = self.ctx.cfg.get('shift_calls', {}).get(nm)
            if sc_ is not None and len(s0['inner']) == 4:
                # C02: ItemTraits::ShiftNothrow(memManager, begin, shift) on the item array of the SAME node, begin = GetItemPtr(p)
                # (forward) or std::reverse_iterator<Item*>(GetItemPtr(q)) (backward from q-1).  ASSUMED semantics of the primitive
                # (ObjectManager::ShiftNothrow, property C03): the item at `begin` ends up `shift` places further and the items in
                # between move one place towards `begin`.  "shift_calls": {"ShiftNothrow": {"field": "items_arr", "item_ptr": "GetItemPtr"}}
                fld_ = sc_['field']
                if self.ctx.fields.get(fld_) != 'array':
                    raise TranslationError('shift_calls: %s is not a configured array field' % fld_)
                def find_ip(x):
                    x = skip_wrappers(x)
                    if x.get('kind') in ('CXXMemberCallExpr', 'CallExpr'):
                        try:
                            if self.callee_name(x)[0] == sc_['item_ptr']:
                                return x
                        except TranslationError:
                            pass
                    for y in x.get('inner', []):
                        r_ = find_ip(y)
                        if r_ is not None:
                            return r_
                    return None
                bn_ = s0['inner'][2]; ip_ = find_ip(bn_)
                if ip_ is None:
                    raise TranslationError('shift_calls: begin is not built from %s(...)' % sc_['item_ptr'])
                rev_ = 'reverse_iterator' in json.dumps(bn_.get('type', {})) or 'reverse_iterator' in json.dumps(skip_wrappers(bn_).get('type', {}))
                pos_ = self.e(ip_['inner'][1]); sh_ = self.e(s0['inner'][3])
                self.note_write(fld_)
                if rev_:
                    return (f'(* ShiftNothrow, backward from GetItemPtr({pos_}) - 1 *)\nlet {fld_} := (let sh_p_ := ({pos_}) - 1 in let sh_n_ := {sh_} in fun j_ => '
                            f'if andb (Z.ltb (sh_p_ - sh_n_) j_) (Z.leb j_ sh_p_) then {fld_} (j_ - 1) else if Z.eqb j_ (sh_p_ - sh_n_) then {fld_} sh_p_ else {fld_} j_) in\n{rest()}')
                return (f'(* ShiftNothrow, forward from GetItemPtr({pos_}) *)\nlet {fld_} := (let sh_p_ := {pos_} in let sh_n_ := {sh_} in fun j_ => '
                        f'if andb (Z.leb sh_p_ j_) (Z.ltb j_ (sh_p_ + sh_n_)) then {fld_} (j_ + 1) else if Z.eqb j_ (sh_p_ + sh_n_) then {fld_} sh_p_ else {fld_} j_) in\n{rest()}')
            if nm == 'fill_n' and k == 'CallExpr' and len(s0['inner']) == 4:
                # C12: std::fill_n(field, n, v) on a configured array field
                b = self.lv_base(s0['inner'][1])
                if b not in self.ctx.fields:
                    raise TranslationError('fill_n on %s which is not a configured field' % b)
                cnt = self.e(s0['inner'][2]); val = self.e(s0['inner'][3])
                self.note_write(b)
                return (f'let {b} := (let fill_n_ := {cnt} in let fill_v_ := {val} in fun j_ => '
                        f'if andb (Z.leb 0 j_) (Z.ltb j_ fill_n_) then fill_v_ else {b} j_) in\n{rest()}')
            fi = self.lookup_fn(nm, c)
            if fi is None:
                raise TranslationError('call statement to untranslated ' + str(nm))
            if fi.nonsimple or fi.writes_fields:
                if not fi.nonsimple and fi.ret_ct[0] == 'void':
                    # C12: straight-line void function that writes fields: it returns the tuple of written fields
                    wf = fi.out_fields()
                    for f in wf:
                        self.note_write(f)
                    args = fi.field_args_for(self) + self.call_args(fi, s0['inner'][1:])
                    return f'let {self.pat(wf)} := (' + ' '.join([fi.out] + args) + f') in\n{rest()}'
                if not fi.nonsimple:
                    # simple function that writes fields cannot exist (simple => pure)
                    raise TranslationError('internal: pure function with writes')
                return self.bind_call(s0, None, rest)
            return rest()   # pure call, result unused
        if k == 'CXXThrowExpr':
            self.nonsimple = True
            return 'Exn'
        if k == 'CStyleCastExpr' and s0.get('castKind') == 'ToVoid':   # C12: `(void)x;`
            return rest()
        if k == 'CXXStaticCastExpr' and s0.get('castKind') == 'ToVoid' and \
                skip_wrappers(s0['inner'][0])['kind'] == 'IntegerLiteral':   # C01: `static_cast<void>(0);` = assert under -DNDEBUG
            return rest()
        raise TranslationError('statement kind ' + k)

    def functor_of(self, n):
        s = json.dumps(n)
        for f in self.functors:
            if '"name": "%s"' % f in s:
                return f
        return None

    def conv(self, val, frm, to):
        if to[0] == 'u':
            if frm[0] == 'u' and frm[1] <= to[1]:
                return val
            return wrap(to, val)
        if to[0] == 's':
            if (frm[0] == 'u' and frm[1] < to[1]) or (frm[0] == 's' and frm[1] <= to[1]):
                return val
            return f'(wrapS {to[1]} {val})'
        raise TranslationError('conversion to %r' % (to,))

    def if_stmt(self, s, rest, jc):
        inner = s['inner']
        cnd = inner[0]; th = inner[1]; el = inner[2] if len(inner) > 2 else None
        if s.get('hasVar') or s.get('hasInit'):
            raise TranslationError('if with init/var')
        am_ = self.atomic_mem_call(cnd)
        if am_ is not None and am_[0].startswith('compare_exchange'):
            # C19: `if (obj.compare_exchange_weak(expected, desired)) ...` (sequential reading; a spurious failure of the weak form is the
            # section variable cas_spurious): ok := mem[a] == expected && !spurious; mem[a] := ok ? desired : mem[a]; expected := ok ? expected : mem[a]
            _, arr_, addr_, args_ = am_
            exp_ = self.lhs_name(args_[0]); des_ = self.e(args_[1])
            if exp_ not in self.env: raise TranslationError('CAS expected argument %s is not a local in scope' % exp_)
            self.note_write(arr_); self.note_write(exp_)
            sp_ = self.ctx.cfg['atomic_mem'].get('spurious')
            okx_ = f'Z.eqb ({arr_} {addr_}) {exp_}' + (f' && negb {sp_}' if sp_ and am_[0].endswith('weak') else '')
            syn_ = dict(s); syn_['inner'] = [{'kind': 'C19CasOk'}] + list(inner[1:])
            return (self.atomic_order_let() + f'let cas_ok_ := ({okx_}) in\nlet {exp_} := (if cas_ok_ then {exp_} else ({arr_} {addr_})) in\n'
                    f'let {arr_} := (if cas_ok_ then upd {arr_} {addr_} {des_} else {arr_}) in\n' + self.if_stmt(syn_, rest, jc))
        c = 'cas_ok_' if cnd.get('kind') == 'C19CasOk' else self.e(cnd)
        if not self.has_jump(th) and not (el and self.has_jump(el)):
            # join form: no duplication of the continuation
            vs = sorted(self.assigned(s, set(), set()) & set(self.env.keys()))
            saved = dict(self.env)
            t_txt = self.stmts([th], lambda: self.tup(vs), jc)
            self.env = dict(saved)
            e_txt = self.stmts([el], lambda: self.tup(vs), jc) if el else self.tup(vs)
            self.env = dict(saved)
            if not vs and not (self.returns_outcome_inside(t_txt) or self.returns_outcome_inside(e_txt)):
                # a branch that assigns nothing AND carries no obligation (assertion / throw / stuck call) is dropped; one that
                # carries an obligation is kept (duplication form below). (Found by C14; checked 2026-10-01: no existing gen config changes.)
                return rest()
            if self.returns_outcome_inside(t_txt) or self.returns_outcome_inside(e_txt):
                # branch contains a non-simple call (match ... Stuck); fall back to duplication
                pass
            else:
                return f'let {self.pat(vs)} := (if {c} then (\n{t_txt})\nelse (\n{e_txt})) in\n{rest()}'
        saved = dict(self.env)
        t_txt = self.stmts([th], rest, jc)
        self.env = dict(saved)
        e_txt = self.stmts([el], rest, jc) if el else rest()
        self.env = dict(saved)
        return f'if {c} then (\n{t_txt})\nelse (\n{e_txt})'

    def returns_outcome_inside(self, txt):
        return '| Stuck => Stuck' in txt or 'Stuck' in txt.split() or ' Exn' in txt or 'RETURN[false]' in txt or 'RETURN[None]' in txt   # C20: an injected failure exit is an exit (C09: fails_option_return's exit too)

    def switch(self, s, rest, jc):
        inner = s['inner']
        scrut = self.e(inner[0]); body = inner[1]
        cases = []   # (valtext or None, stmts)
        cur = None
        def add_case(node):
            nonlocal cur
            if node['kind'] == 'CaseStmt':
                v = self.e(node['inner'][0]); sub = node['inner'][-1]
                cur = [v, []]; cases.append(cur)
                add_case_body(sub)
            elif node['kind'] == 'DefaultStmt':
                cur = [None, []]; cases.append(cur)
                add_case_body(node['inner'][-1])
            else:
                if cur is None: raise TranslationError('statement before first case')
                cur[1].append(node)
        def add_case_body(sub):
            if sub['kind'] in ('CaseStmt', 'DefaultStmt'):
                raise TranslationError('fallthrough case labels')
            cur[1].append(sub)
        for st in body.get('inner', []):
            add_case(st)
        for v, ss in cases:
            if not ss or not self.ends_with_jump(ss[-1]):
                raise TranslationError('switch case without terminating return/break')
        jc2 = dict(jc); jc2['brk'] = rest
        txt = None
        default = [c for c in cases if c[0] is None]
        out = rest() if not default else self.stmts(default[0][1], rest, jc2)
        for v, ss in reversed([c for c in cases if c[0] is not None]):
            saved = dict(self.env)
            body_txt = self.stmts(ss, rest, jc2)
            self.env = saved
            out = f'if Z.eqb {scrut} {v} then (\n{body_txt})\nelse (\n{out})'
        return out

    def ends_with_jump(self, n):
        if n['kind'] in ('ReturnStmt', 'BreakStmt', 'CXXThrowExpr'):
            return True
        if n['kind'] == 'CompoundStmt' and n.get('inner'):
            return self.ends_with_jump(n['inner'][-1])
        return False

    def used_names(self, n, acc):
        k = n.get('kind')
        if k in ('CXXMemberCallExpr', 'CXXOperatorCallExpr') and self.memobj(n) is not None:   # C16
            mo = self.memobj(n)[0]; acc.update([mo['n'], mo['arr']])
            if mo.get('cap'): acc.add(mo['cap'])   # C05
        if k == 'DeclRefExpr':
            acc.add(n['referencedDecl']['name'])
            if n['referencedDecl']['name'] in getattr(self, 'refp', {}):   # C05 ref_params: the element index and the array are loop context
                acc.update(self.refp[n['referencedDecl']['name']])
        if k == 'MemberExpr':
            if n.get('name') in self.ctx.cfg.get('address_of', []):   # C12: &member inside a loop body: the opaque address is loop context
                acc.add('addr_' + n['name'])
            try:
                acc.add(self.member(n))
            except TranslationError:
                pass
        if k in ('CXXMemberCallExpr', 'CallExpr'):
            try:
                nm, _ = self.callee_name(n)
                fi = self.ctx.fninfo.get(nm)
                if fi is not None and not fi.is_static:
                    acc.update(fi.fieldnames)
                ex12_ = self.ctx.cfg.get('extern_calls', {}).get(nm)   # C12: the ghost fields an extern call reads / writes are loop context / state
                if ex12_ is not None:
                    acc.update(ex12_.get('reads', [])); acc.update(ex12_.get('writes', []))
                if self.ctx.cfg.get('prim_reads_fields') and not self.ctx.cfg.get('atomic_mem'):   # C09: the same rule as C19's below without atomic_mem: a primitive
                    pr9_ = self.ctx.cfg.get('primitives', {}).get(nm)                               # whose Gallina text names a configured field reads it (loop context)
                    if pr9_:
                        acc.update(w_ for w_ in pr9_.split() if w_ in self.ctx.fields)
                if self.ctx.cfg.get('atomic_mem'):   # C19: a primitive whose Gallina text names a configured (pseudo) field reads that field
                    pr_ = self.ctx.cfg.get('primitives', {}).get(nm)
                    if pr_:
                        acc.update(w_ for w_ in pr_.split() if w_ in self.ctx.fields)
                    am_ = self.atomic_mem_call(n)
                    if am_ is not None:
                        acc.add(am_[1])
            except TranslationError:
                pass
        for c in n.get('inner', []):
            if isinstance(c, dict):
                self.used_names(c, acc)
        return acc

    def loop(self, s, rest, jc):
        self.nonsimple = True
        if s['kind'] == 'WhileStmt':
            cond, body = s['inner'][0], s['inner'][1]; init = None; inc = None
            if self.ctx.cfg.get('atomic_mem'):   # C19: `while (!a.compare_exchange_weak(e, d)) B`  ==  `while (true) { if (a.compare_exchange_weak(e, d)) break; B }`
                c0_ = skip_wrappers(cond)
                while c0_.get('kind') == 'ImplicitCastExpr':
                    c0_ = skip_wrappers(c0_['inner'][0])
                if c0_.get('kind') == 'UnaryOperator' and c0_.get('opcode') == '!':
                    try:
                        am_ = self.atomic_mem_call(c0_['inner'][0])
                    except TranslationError:
                        am_ = None
                    if am_ is not None and am_[0].startswith('compare_exchange'):
                        cond = {'kind': 'CXXBoolLiteralExpr', 'value': True, 'type': {'qualType': 'bool'}}
                        body = {'kind': 'CompoundStmt', 'inner': [{'kind': 'IfStmt', 'inner': [c0_['inner'][0], {'kind': 'BreakStmt'}]}, body]}
        else:
            init, _cv, cond, inc, body = s['inner']
            if _cv and _cv != {}:
                raise TranslationError('for with condition variable')
        pre_env = dict(self.env)
        if init and init != {} and init.get('kind') == 'DeclStmt' and self.ctx.cfg.get('scoped_for_init'):   # C05: `for (size_t i = ...)` twice in one function:
            names_ = [v['name'] for v in init.get('inner', []) if v.get('kind') == 'VarDecl']                  # the variable leaves the scope after the loop
            rest0_ = rest
            def rest():
                for nmx in names_:
                    self.env.pop(nmx, None)
                return rest0_()
        def after_init():
            idx = len(self.loops); lname = f'{self.out}_loop{idx}'
            self.loops.append(None)
            loopnode = {'kind': 'CompoundStmt', 'inner': [x for x in (body, inc) if x]}
            vs = sorted(self.assigned(loopnode, set(), set()) & set(self.env.keys()))
            used = self.used_names({'kind': 'X', 'inner': [x for x in (cond, body, inc) if x]}, set())
            ctxv = sorted(v for v in (used & set(self.env.keys())) if v not in vs)
            tc_throws_ = False
            if getattr(self, 'tc_cfg', None):   # C18: try_catch
                def tc_calls_(n_):
                    if n_.get('kind') in ('CallExpr', 'CXXMemberCallExpr'):
                        try:
                            if self.callee_name(n_)[0] in self.tc_cfg.get('calls', {}): return [self.callee_name(n_)[0]]
                        except TranslationError:
                            pass
                    return [x_ for c_ in n_.get('inner', []) if isinstance(c_, dict) for x_ in tc_calls_(c_)]
                found_ = tc_calls_(loopnode)
                tc_throws_ = any(self.tc_cfg['calls'][c_].get('fails') for c_ in found_)
                st_ = set(self.tc_cfg.get('state', [])) & set(self.env.keys())
                vs = sorted(set(vs) | st_)
                extra_ = set(self.tc_cfg['calls'][c_]['fails'] for c_ in found_ if self.tc_cfg['calls'][c_].get('fails'))
                if tc_throws_ and self.tc_handler is not None:
                    extra_ |= self.used_names(self.tc_handler, set())
                ctxv = sorted(v for v in ((used | extra_) & set(self.env.keys())) if v not in vs)
            scope = dict(self.env)
            has_ret = self.has_return(body) or tc_throws_
            # loop function result: outcome (option R * tuple)   [Some r = returned from function]
            def mk_res(ret, vs_txt):
                return f'Ok ({ret}, {vs_txt})' if has_ret else f'Ok {vs_txt}'
            def k_continue():
                return f'{lname} fuel ' + ' '.join(ctxv + vs) if (ctxv + vs) else f'{lname} fuel'
            def k_inc():
                if inc and inc != {}:
                    return self.expr_stmt(inc, k_continue)
                return k_continue()
            ljc = {'ret': (lambda v: f'Ok (Some {v}, {self.tup(vs)})'),
                   'brk': (lambda: mk_res('None', self.tup(vs))),
                   'cont': k_inc}
            body_txt = self.stmts([body], k_inc, ljc)
            self.env = dict(scope)
            ctext = self.e(cond) if cond and cond != {} else 'true'
            retty = coq_ty(self.ret_ct) if self.ret_ct[0] != 'void' else 'unit'
            if getattr(self, 'tc_cfg', None): retty = 'bool'   # C18: the completed flag
            resty = f'(option {retty} * {self.tup_ty(vs)})' if has_ret else self.tup_ty(vs)
            binders = ' '.join(f'({x} : {coq_ty(self.env[x])})' for x in ctxv + vs)
            fix = (f'Fixpoint {lname} (fuel : nat) {binders} {{struct fuel}} : outcome {resty} :=\n'
                   f'  match fuel with\n  | O => Fuel\n  | S fuel =>\n    if {ctext} then (\n{body_txt})\n'
                   f'    else {mk_res("None", self.tup(vs))}\n  end.')
            lemma = (f'Lemma {lname}_eq fuel {binders} :\n  {lname} (S fuel) {" ".join(ctxv+vs)} =\n'
                     f'    if {ctext} then (\n{body_txt})\n    else {mk_res("None", self.tup(vs))}.\n'
                     f'Proof. reflexivity. Qed.')
            self.loops[idx] = fix + '\n\n' + lemma
            fuel_inline = self.ctx.cfg.get('fuel_inline', {}).get(self.name)   # C16: fuel as an expression over names in scope at the loop
            call = f'{lname} ({fuel_inline if fuel_inline else "fuel_of_" + self.out}) ' + ' '.join(ctxv + vs)
            if has_ret:
                r = self.fresh('r')
                if getattr(self, 'tc_cfg', None) or self.ctx.cfg.get('loop_return_keeps_state'):   # C18: a return out of the loop keeps the loop state (the ghost fields of the handler); C08: config-gated for member fields written in the loop before the return
                    return (f'match {call} with\n| Ok (Some {r}, {self.tup(vs) if vs else "_"}) => {jc["ret"](r)}\n'
                            f'| Ok (None, {self.tup(vs) if vs else "_"}) =>\n{rest()}\n'
                            f'| Stuck => Stuck | Fuel => Fuel | Exn => Exn\nend')
                ret_txt_ = jc["ret"](r)
                lost_ = [v for v in vs if re.search(r'(?<![\w.])%s(?![\w.])' % re.escape(v), ret_txt_)]
                if lost_:
                    # soundness guard (found by C08): without "loop_return_keeps_state" a `return` inside the loop would make the
                    # continuation read the PRE-loop values of variables/fields written in the loop
                    raise TranslationError('return inside a loop of %s after writing %s: set "loop_return_keeps_state": true'
                                           % (self.name, ', '.join(lost_)))
                return (f'match {call} with\n| Ok (Some {r}, _) => {ret_txt_}\n'
                        f'| Ok (None, {self.tup(vs) if vs else "_"}) =>\n{rest()}\n'
                        f'| Stuck => Stuck | Fuel => Fuel | Exn => Exn\nend')
            return (f'match {call} with\n| Ok {self.tup(vs) if vs else "_"} =>\n{rest()}\n'
                    f'| Stuck => Stuck | Fuel => Fuel | Exn => Exn\nend')
        if init and init != {}:
            if init['kind'] == 'DeclStmt':
                return self.decl(init, after_init)
            return self.expr_stmt(init, after_init)
        return after_init()

    def gen_selfrec(self, body):
        """C09 ("self_recursive": {"F": "<fuel : nat>"}): a pure static function whose body is ONE return statement, a tree of
        conditional operators whose leaves are either a call of F itself or an expression without such a call (C++11 constexpr
        recursion, e.g. MemPoolConst::GetBlockAlignment):
            Fixpoint F_rec (fuel : nat) params : outcome T := match fuel with O => Fuel | S fuel => <tree> end
            Definition F params := F_rec <fuel> params.
        Leaves are `F_rec fuel args` / `Ok e`; running out of fuel is the visible outcome Fuel, never a default value."""
        sts = [x for x in body.get('inner', []) if x.get('kind') != 'NullStmt']
        if len(sts) != 1 or sts[0].get('kind') != 'ReturnStmt' or not sts[0].get('inner') or not self.is_static:
            raise TranslationError('self_recursive: %s is not a static function with a single return statement' % self.name)
        self.nonsimple = True      # a self call anywhere else (inside an expression) is a translation error, see call()
        rec = self.out + '_rec'
        def walk(n):
            n = skip_wrappers(n)
            if n.get('kind') == 'ConditionalOperator':
                c, a, b = n['inner']
                return f'(if {self.e(c)} then {walk(a)} else {walk(b)})'
            if n.get('kind') == 'CallExpr' and self.callee_name(n)[0] == self.name:
                args = n['inner'][1:]
                if len(args) != len(self.params) or any(skip_wrappers(a).get('kind') == 'CXXDefaultArgExpr' for a in args):
                    raise TranslationError('self_recursive: recursive call of %s must pass every argument explicitly' % self.name)
                return '(' + ' '.join([rec, 'fuel'] + [self.e(a) for a in args]) + ')'
            return f'(Ok {self.e(n)})'
        txt = walk(sts[0]['inner'][0])
        params = ' '.join(f'({n} : {t})' for n, t in self.all_params())
        names = ' '.join(n for n, _ in self.all_params())
        fix = (f'Fixpoint {rec} (fuel : nat) {params} {{struct fuel}} : outcome {coq_ty(self.ret_ct)} :=\n'
               f'match fuel with\n| O => Fuel\n| S fuel =>\n{txt}\nend.')
        return fix + f'\n\nDefinition {self.out} {params} :=\n{rec} {self.ctx.cfg["self_recursive"][self.name]} {names}.'

    # ---------------- whole function ----------------
    def gen(self):
        body = [x for x in self.d['inner'] if x['kind'] == 'CompoundStmt']
        if not body:
            raise TranslationError('no body for ' + self.name)
        body = body[0]
        if self.name in self.ctx.cfg.get('self_recursive', {}):   # C09
            return self.gen_selfrec(body)
        # C09: "prefix": {"F": {"until": "local", "return": ["a","b"]}} - translate only the statements before the
        # declaration of `local` and return the tuple of the named locals (the rest of F is modelled elsewhere)
        pf = self.ctx.cfg.get('prefix', {}).get(self.name)
        if pf:
            cut = [i for i, st in enumerate(body.get('inner', [])) if st.get('kind') == 'DeclStmt' and
                   any(v.get('name') == pf['until'] for v in st.get('inner', []))] if pf.get('until') else [len(body.get('inner', []))]
            if pf.get('until_stmt') is not None:   # C05: cut after the first k top-level statements (the guards of the function)
                cut = [int(pf['until_stmt'])] if int(pf['until_stmt']) <= len(body.get('inner', [])) else []
            if not cut:
                raise TranslationError('prefix: no declaration of %s in %s' % (pf['until'], self.name))
            ret_node = {'kind': 'GallinaReturn', 'text': pf['return_text'] if pf.get('return_text') in ('true', 'false') else self.tup(list(pf['return']))}   # C02: "return_text": "true" - the cut-off tail of a bool function always returns true
            body = dict(body, inner=body['inner'][:cut[0]] + [ret_node])
            if pf.get('from_stmt') is not None:   # C09: drop the first k top-level statements (translated / modelled elsewhere): the translation starts at statement k
                body = dict(body, inner=body['inner'][int(pf['from_stmt']):])
        # C12: "address_of" members mentioned in the body become opaque parameters up front (so that loops can carry them)
        for am in self.ctx.cfg.get('address_of', []):
            jb = json.dumps(body)
            if ('"name": "%s"' % am) in jb and ('"kind": "ForStmt"' in jb or '"kind": "WhileStmt"' in jb) \
                    and ('addr_' + am, 'Z') not in self.extra_params:
                self.extra_params.append(('addr_' + am, 'Z')); self.env['addr_' + am] = ('u', 64)
        # C12: opaque locals of a function with loops are parameters from the start (a loop body may declare and use them)
        jb0 = json.dumps(body)
        if '"kind": "ForStmt"' in jb0 or '"kind": "WhileStmt"' in jb0:
            for on in sorted(self.opaque):
                if (on, 'Z') not in self.extra_params and on not in self.env:
                    self.extra_params.append((on, 'Z')); self.env[on] = ('u', 64)
        # pre-scan: does the function need the outcome monad?
        self.nonsimple = self.prescan(body) or self.name in self.ctx.cfg.get('force_outcome', [])   # C12: force_outcome
        self.fails_mode = 'fails' in self.functors.values() or bool(self.fail_locals or self.fail_calls) or bool(getattr(self, 'tc_cfg', None))   # C04, C18
        if self.fails_mode:
            self.nonsimple = True
        wf_guess = None
        def ret(v):
            if not self.nonsimple:
                return v
            wf = self.out_fields_final
            if wf is None:
                return f'RETURN[{v}]'
            return f'Ok {self.tup([v] + wf)}'
        self.out_fields_final = None
        jc = {'ret': (lambda v: f'RETURN[{v}]'), 'brk': None, 'cont': None}
        if self.outp:   # C16: void function with reference out-parameters returns their tuple
            if self.ret_ct[0] != 'void':   # C09: non-void function returns (result, out-params...)
                jc['ret'] = lambda v: f'RETURN[{self.tup([v] + self.outp)}]'
            else:
                jc['ret'] = lambda v: f'RETURN[{self.tup(self.outp)}]'
        if self.fails_mode and self.name in self.ctx.cfg.get('fails_option_return', []) and self.ret_ct[0] != 'void':
            # C09 ("fails_option_return": [fn]): a NON-void function in "fails" mode returns `Some value` when it completes and `None`
            # (with the fields of that moment) when a failing step throws - instead of replacing the value by the completed flag
            jc['ret'] = lambda v: f'RETURN[(Some {v})]'
            self.fail_k = lambda: 'RETURN[None]'
        txt = self.stmts([body], lambda: jc['ret']('true' if self.fails_mode else 'tt'), jc)   # C04: completed flag
        for dn_ in getattr(self, 'deref_out', ()):   # C18
            txt = f'let {dn_}_out := (0) in\n' + txt
        if self.ctx.cfg.get('ctor_inits'):
            # C14: "ctor_inits": true -- member initialisers of a constructor (`: mData(nullptr)`) for configured scalar fields are
            # executed before the body (in declaration order as clang lists them); other initialisers are an error
            inits_ = [x for x in self.d.get('inner', []) if x.get('kind') == 'CXXCtorInitializer']
            for ini_ in reversed(inits_):
                fld_ = (ini_.get('anyInit') or {}).get('name')
                if fld_ is None and ini_.get('baseInit') and self.ctx.cfg.get('base_init_field'):
                    # C14: "base_init_field": the (manager) base class initialiser `MemManager(std::move(data.GetMemManager()))`
                    bf_ = self.ctx.cfg['base_init_field']; v_ = self.obj_value(ini_['inner'][0])
                    if v_ is None:
                        raise TranslationError('base initialiser is not a configured object')
                    self.note_write(bf_)
                    txt = f'let {bf_} := {v_} in\n' + txt
                    continue
                if fld_ not in self.ctx.fields or (self.ctx.fields[fld_] not in ('scalar', 'bool')
                        # C14: a member OBJECT of several fields ("abstract:<tuple type>") may only be initialised by its own
                        # translated move constructor ("member_move_ctors")
                        and not (str(self.ctx.fields[fld_]).startswith('abstract:') and fld_ in self.ctx.cfg.get('member_move_ctors', {}))):
                    raise TranslationError('constructor initialiser of %s which is not a configured scalar field' % fld_)
                self.note_write(fld_)
                mm_ = self.ctx.cfg.get('member_move_ctors', {}).get(fld_)
                if mm_ is not None:
                    # C14: "member_move_ctors": {field: Gallina function}: the initialiser `field(std::move(param.field))` of a member
                    # OBJECT (modelled as one scalar) runs that member's move constructor, which is itself translated (e.g.
                    # Gen_SetCrew2.MoveCtor : new -> source -> (new', source')); a function of one argument (source -> source') stands
                    # for a member whose moved-from value is left abstract
                    src_ = self.move_source(ini_['inner'][0])
                    if src_ is None or src_ not in self.env:
                        raise TranslationError('initialiser of %s is not `%s(std::move(param.%s))`' % (fld_, fld_, fld_))
                    self.note_write(src_)
                    if mm_.get('arity', 2) == 2:
                        txt = f"let '({fld_}, {src_}) := ({mm_['fn']} {fld_} {src_}) in\n" + txt
                    else:
                        txt = f"let {fld_} := {src_} in\nlet {src_} := ({mm_['fn']} {src_}) in\n" + txt
                    continue
                txt = f'let {fld_} := {self.e(ini_["inner"][0])} in\n' + txt
        wf = self.out_fields()
        def fix_ret(m):
            v = m.group(1)
            if not self.nonsimple:
                if wf:
                    return self.tup(([v] if self.ret_ct[0] != 'void' else []) + wf)
                return v
            return 'Ok ' + self.tup([v] + wf) if (wf) else f'Ok {v}'
        # RETURN[...] may nest parentheses/brackets: do a manual scan
        txt = self.replace_returns(txt, wf)
        for i, l in enumerate(self.loops):
            self.loops[i] = self.replace_returns(l, wf, in_loop=True)
        params = ' '.join(f'({n} : {t})' for n, t in self.all_params())
        out = []
        if self.loops:
            out.append(f'Definition fuel_of_{self.out} : nat := {self.fuel}.')
        loops = list(self.loops)
        # C16: a nested loop gets a higher index than the loop containing it but must be defined first
        if any(re.search(r'\b%s_loop%d\b' % (re.escape(self.out), j), loops[i]) for i in range(len(loops)) for j in range(i + 1, len(loops))):
            loops.reverse()
        out.extend(loops)
        out.append(f'Definition {self.out} {params} :=\n{txt}.')
        return '\n\n'.join(out)

    def all_params(self):
        ps = []
        if not self.is_static:
            for f in self.fieldnames:
                ps.append((f, coq_ty(self.env[f]) if f in self.env else 'Z'))
        return ps + self.params + self.extra_params

    def replace_returns(self, txt, wf, in_loop=False):
        out = []; i = 0
        while True:
            j = txt.find('RETURN[', i)
            if j < 0:
                out.append(txt[i:]); break
            out.append(txt[i:j])
            depth = 0; p = j + 7
            while True:
                ch = txt[p]
                if ch == '[': depth += 1
                if ch == ']':
                    if depth == 0: break
                    depth -= 1
                p += 1
            v = txt[j + 7:p]
            if not self.nonsimple:
                if wf:
                    out.append(self.tup(([v] if self.ret_ct[0] != 'void' else []) + wf))
                else:
                    out.append(v)
            else:
                out.append('Ok ' + (self.tup([v] + wf) if wf else v))
            i = p + 1
        return ''.join(out)

    def prescan(self, n):
        k = n.get('kind')
        if k in ('WhileStmt', 'ForStmt', 'CXXThrowExpr'):
            return True
        if k in ('CXXMemberCallExpr', 'CallExpr'):
            try:
                nm, _ = self.callee_name(n)
                fi = self.ctx.fninfo.get(nm)
                if fi is not None and fi.nonsimple:
                    return True
            except TranslationError:
                pass
        if k == 'DoStmt' and is_assert_stmt(n):
            return True
        if k in ('ConditionalOperator', 'CStyleCastExpr', 'ParenExpr') and is_assert_stmt(n):
            return True
        return any(self.prescan(c) for c in n.get('inner', []) if isinstance(c, dict))

PRELUDE_IMPORT = 'From Coq Require Import ZArith Bool List.\nFrom MomoCommon Require Import GenPrelude.\nLocal Open Scope Z_scope.\n'

def find_spec(objs, cfg):
    specs = [o for o in objs if o['kind'] in ('ClassTemplateSpecializationDecl', 'CXXRecordDecl')
             and o.get('name') == cfg['class'] and any(m.get('kind') in ('CXXMethodDecl', 'FunctionTemplateDecl') for m in o.get('inner', []))]
    # also look inside ClassTemplateDecl for specializations
    for o in objs:
        if o['kind'] == 'ClassTemplateDecl':
            for m in o.get('inner', []):
                if m.get('kind') == 'ClassTemplateSpecializationDecl' and m.get('name') == cfg['class'] and \
                        any(x.get('kind') in ('CXXMethodDecl', 'FunctionTemplateDecl') for x in m.get('inner', [])):
                    specs.append(m)
    if cfg.get('nested_in'):   # C14: a nested class of an INSTANTIATED class template (MemPool<...>::Data): search inside its specializations
        specs = []
        def walk_(o, inside):
            if not isinstance(o, dict): return
            here = inside or (o.get('kind') == 'ClassTemplateSpecializationDecl' and o.get('name') == cfg['nested_in'])
            if not inside and here and cfg.get('nested_parent_regex'):
                # C14: "nested_parent_regex": the enclosing specialization's template arguments ("int | momo::MemManagerC | ...") must match
                ta_ = ' | '.join(a_.get('type', {}).get('qualType', str(a_.get('value', '?'))) for a_ in o.get('inner', []) if a_.get('kind') == 'TemplateArgument')
                if not re.search(cfg['nested_parent_regex'], ta_):
                    here = False
            if inside and o.get('kind') == 'CXXRecordDecl' and o.get('name') == cfg['class'] and \
                    any(m.get('kind') in ('CXXMethodDecl', 'FunctionTemplateDecl') for m in o.get('inner', [])):
                specs.append(o)
            for c in o.get('inner', []) or []:
                walk_(c, here)
        for o in objs: walk_(o, False)
        if not specs:
            raise TranslationError('no %s nested in a specialization of %s' % (cfg['class'], cfg['nested_in']))
    if not specs:
        raise TranslationError('no specialization of %s in the AST dump' % cfg['class'])
    if cfg.get('spec_with_method'):   # C14: pick the specialization that defines a given member function (inline vs pointer SetCrew)
        specs = [sp for sp in specs if method_decls(sp, cfg['spec_with_method'])]
        if not specs:
            raise TranslationError('no specialization of %s defines %s' % (cfg['class'], cfg['spec_with_method']))
    return specs[cfg.get('spec_index', 0)]

def method_decls(spec, name):
    out = []
    for m in spec.get('inner', []):
        if m.get('kind') in ('CXXMethodDecl', 'CXXConstructorDecl', 'CXXDestructorDecl') and m.get('name') == name and \
                any(y.get('kind') == 'CompoundStmt' for y in m.get('inner', [])):
            out.append(m)
        if m.get('kind') == 'FriendDecl':   # C06: friend functions defined inside the class (operator==)
            for y in m.get('inner', []):
                if y.get('kind') == 'FunctionDecl' and y.get('name') == name and any(z.get('kind') == 'CompoundStmt' for z in y.get('inner', [])):
                    out.append(y)
        if m.get('kind') == 'FunctionTemplateDecl' and (m.get('name') == name or (name.startswith('operator ') and (m.get('name') or '').startswith(name + '<'))):   # C20: member template conversion operator
            for y in m.get('inner', []):
                if y.get('kind') in ('CXXMethodDecl', 'CXXConversionDecl') and any(z.get('kind') == 'CompoundStmt' for z in y.get('inner', [])) \
                        and any(z.get('kind') == 'TemplateArgument' for z in y.get('inner', [])):
                    out.append(y)
    return out

def dump_ast(cfg, repo='/repo'):
    tu = cfg['tu']
    cmd = ['clang++', '-std=' + cfg.get('std', 'c++17'), '-fsyntax-only', '-Wno-everything']
    for inc in cfg.get('includes', [os.path.join(repo, 'include')]):
        cmd += ['-I', inc]
    for d in cfg.get('defines', []):
        cmd += ['-D' + d]
    cmd += ['-Xclang', '-ast-dump=json', '-Xclang', '-ast-dump-filter=' + cfg['filter'], tu]
    r = subprocess.run(cmd, capture_output=True, text=True)
    if r.returncode != 0:
        raise TranslationError('clang failed: ' + r.stderr[-2000:])
    return r.stdout

def load_enums(cfg, repo='/repo'):
    """C05: "enum_types": ["ArrayGrowCause"] - enumerator values are read from the EnumDecl in the current headers"""
    consts = {}
    for en in cfg.get('enum_types', []):
        c2 = dict(cfg); c2['filter'] = en
        found = False
        for o in load_objs(dump_ast(c2, repo)):
            if o.get('kind') == 'EnumDecl' and o.get('name') == en and o.get('inner'):
                found = True; nxt = 0
                for m in o['inner']:
                    if m.get('kind') != 'EnumConstantDecl':
                        continue
                    vals = re.findall(r'"value": "(-?\d+)"', json.dumps(m.get('inner', [])))
                    v = int(vals[0]) if vals else nxt
                    consts[m['name']] = v; nxt = v + 1
        if not found:
            raise TranslationError('enum type %s not found' % en)
    return consts

def translate_group(cfg, ast_text=None, repo='/repo'):
    """returns Gallina text; raises TranslationError"""
    global OPAQUE_TYPES
    OPAQUE_TYPES = list(cfg.get('opaque_types', []))   # C06
    global PTR_ARITH_PLAIN
    PTR_ARITH_PLAIN = bool(cfg.get('handle_refs'))   # C11
    if ast_text is None:
        ast_text = dump_ast(cfg, repo)
    objs = load_objs(ast_text)
    spec = find_spec(objs, cfg)
    ctx = Ctx(cfg)
    ctx.enum_types = set(cfg.get('enum_types', []))
    ctx.enum_consts = load_enums(cfg, repo) if ctx.enum_types else {}
    for m in spec.get('inner', []):
        if m.get('kind') == 'VarDecl':
            ctx.static_decls[m['name']] = m
    # base-class statics (e.g. constants declared in another class) may be supplied as const_values
    for an in cfg.get('accessors', []):
        ds = method_decls(spec, an)
        if not ds:
            raise TranslationError('accessor %s not found' % an)
        targets = set()
        for d in ds:
            body = [x for x in d['inner'] if x['kind'] == 'CompoundStmt'][0]
            st = body.get('inner', [])
            if len(st) != 1 or st[0]['kind'] != 'ReturnStmt':
                raise TranslationError('accessor %s is not a single return statement' % an)
            rv = skip_wrappers(st[0]['inner'][0])
            while rv['kind'] == 'ImplicitCastExpr':
                rv = skip_wrappers(rv['inner'][0])
            if rv['kind'] != 'ArraySubscriptExpr':
                raise TranslationError('accessor %s does not return an array element' % an)
            b = skip_wrappers(rv['inner'][0])
            while b['kind'] == 'ImplicitCastExpr':
                b = skip_wrappers(b['inner'][0])
            if b['kind'] != 'MemberExpr' or b['name'] not in ctx.fields:
                raise TranslationError('accessor %s: base is not a configured field' % an)
            pn = [p['name'] for p in d.get('inner', []) if p['kind'] == 'ParmVarDecl']
            targets.add(json.dumps([b['name'], rv['inner'][1], pn], sort_keys=True))
            ctx.accessors[an] = (b['name'], rv['inner'][1], pn)
        # const and non-const overloads must denote the same element
        def norm(t):
            return re.sub(r'"(id|range|loc|previousDecl|parentDeclContextId)": ("0x[0-9a-f]+"|\{[^{}]*(\{[^{}]*(\{[^{}]*\}[^{}]*)*\}[^{}]*)*\}),? ?', '', t)
        if len({norm(t) for t in targets}) > 1:
            raise TranslationError('accessor %s: overloads differ' % an)
    for an in cfg.get('pointer_accessors', []):
        ds = method_decls(spec, an)
        if not ds:
            raise TranslationError('pointer accessor %s not found' % an)
        flds = set()
        for d in ds:
            body = [x for x in d['inner'] if x['kind'] == 'CompoundStmt'][0]
            st = body.get('inner', [])
            if len(st) != 1 or st[0]['kind'] != 'ReturnStmt':
                raise TranslationError('pointer accessor %s is not a single return statement' % an)
            rv = skip_wrappers(st[0]['inner'][0])
            while rv['kind'] in ('ImplicitCastExpr', 'ParenExpr'):
                rv = skip_wrappers(rv['inner'][0])
            if rv['kind'] != 'MemberExpr' or rv['name'] not in ctx.fields:
                raise TranslationError('pointer accessor %s does not return a configured array field' % an)
            flds.add(rv['name'])
        if len(flds) != 1:
            raise TranslationError('pointer accessor %s: overloads differ' % an)
        ctx.ptr_accessors[an] = flds.pop()
    bodies = []
    for spec_fn in cfg['functions']:
        if isinstance(spec_fn, dict):
            name = spec_fn['name']; idx = spec_fn.get('index', 0); outname = spec_fn.get('as', name)
        else:
            name, idx, outname = spec_fn, 0, spec_fn
        ds = method_decls(spec, name)
        if not ds:
            raise TranslationError('function %s not found (with a body) in specialization %s' % (name, cfg['class']))
        if isinstance(spec_fn, dict) and spec_fn.get('sig_regex'):   # C14: choose the overload by its type (e.g. the move constructor "&&\\) noexcept$")
            ds = [d_ for d_ in ds if re.search(spec_fn['sig_regex'], d_.get('type', {}).get('qualType', ''))]
            if len(ds) != 1:
                raise TranslationError('function %s: %d overloads match %s' % (name, len(ds), spec_fn['sig_regex']))
            idx = 0
        if idx >= len(ds):
            raise TranslationError('function %s overload %d not found' % (name, idx))
        f = Fn(ctx, ds[idx], outname)
        try:
            txt = f.gen()
        except TranslationError as ex:
            raise TranslationError('%s::%s: %s' % (cfg['class'], name, ex))
        ctx.fninfo[name] = f
        ctx.fninfo_id[ds[idx].get('id')] = f
        ctx.overloads[name] = len(ds)
        bodies.append(txt)
    # C18: "emit_consts": ["maxCodeParam", ...] -- static const members of the specialization that no translated function
    # mentions but that the hand model / theorems must take from the source (emitted like any referenced constant)
    for cn in cfg.get('emit_consts', []):
        d = ctx.static_decls.get(cn)
        if d is None:
            raise TranslationError('emit_consts: no static constant %s in specialization %s' % (cn, cfg['class']))
        tmp = Fn.__new__(Fn); tmp.ctx = ctx; tmp.env = {}; tmp.name = '<emit %s>' % cn
        tmp.static_const(cn, d)
    out = ['(* GENERATED by tools/cxx2coq.py from %s (class %s) -- do not edit *)' % (os.path.basename(cfg['tu']), cfg['class']),
           PRELUDE_IMPORT + ''.join(l + '\n' for l in cfg.get('imports', []))]   # C16: "imports": extra Require lines
    # C20: "noexcept_flags": ["select_on_container_copy_construction", ...]: emit `Definition <name>_noexcept : bool` = whether the
    # member function of the specialization is declared noexcept (taken from its type in the AST); all overloads must agree
    for nn_ in cfg.get('noexcept_flags', []):
        ds_ = method_decls(spec, nn_)
        if not ds_:
            raise TranslationError('noexcept_flags: no member function %s in specialization %s' % (nn_, cfg['class']))
        fl_ = set(bool(re.search(r'\bnoexcept\b(?!\s*\(\s*false)', d_.get('type', {}).get('qualType', ''))) for d_ in ds_)
        if len(fl_) != 1:
            raise TranslationError('noexcept_flags: overloads of %s differ' % nn_)
        out.append('Definition %s_noexcept : bool := %s.\n' % (nn_, 'true' if fl_.pop() else 'false'))
    sym = [c for c in ctx.const_order if ctx.consts[c][1] is None]
    conc = [c for c in ctx.const_order if ctx.consts[c][1] is not None]
    sec = cfg['name'] + '_sec'
    secvars = cfg.get('section_vars', {})   # C09: abstract memory-read functions etc. used by "primitives": name -> Gallina type
    if secvars and not sym:
        sym = ['']
    if sym:
        out.append(f'Section {sec}.')
        for c in sym:
            if c: out.append(f'Variable {c} : {ctx.consts[c][0]}.')
        for c, t in secvars.items():
            out.append(f'Variable {c} : {t}.')
    for c in conc:
        out.append(f'Definition {c} : {ctx.consts[c][0]} := {ctx.consts[c][1]}.')
    for nm, vals in ctx.static_tables.items():
        out.append(f'Definition tbl_{nm}_list : list Z := [' + '; '.join(str(v) for v in vals) + ']%Z.')
        out.append(f'Definition tbl_{nm} (i : Z) : Z := nth (Z.to_nat i) tbl_{nm}_list 0.')
    out.extend(bodies)
    if sym:
        out.append(f'End {sec}.')
    txt = '\n\n'.join(out) + '\n'
    for a, b in cfg.get('rename', {}).items():   # C09: C++ identifiers that are Coq keywords ("mod" -> "mod_")
        txt = re.sub(r'(?<![\w.])%s(?![\w.])' % re.escape(a), b, txt)
    return txt

def main():
    cfg = json.load(open(sys.argv[1]))
    txt = translate_group(cfg)
    open(sys.argv[2], 'w').write(txt)

if __name__ == '__main__':
    main()
