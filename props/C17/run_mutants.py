import subprocess, tempfile, shutil, os, sys
MUTS = {
 'M2_bsearch_le': ('HashSorter.h', "			if (cmp < 0)\n				leftIndex = middleIndex + 1;", "			if (cmp <= 0)\n				leftIndex = middleIndex + 1;"),
 'M3_interp_break_off_by_one': ('HashSorter.h', "				if (middleIndex >= rightIndex)\n					break;", "				if (middleIndex > rightIndex)\n					break;"),
 'M4_bounds_no_backward_widening': ('HashSorter.h', "			return Bounds<Iterator>(resBegin,\n				pvFindOther(res.iterator, count - SMath::Dist(begin, res.iterator), equalFunc));", "			return Bounds<Iterator>(res.iterator,\n				pvFindOther(res.iterator, count - SMath::Dist(begin, res.iterator), equalFunc));"),
 'M5_group_no_advance': ('HashSorter.h', "					iterSwapper(SMath::Next(begin, i), SMath::Next(begin, j));\n					++i;", "					iterSwapper(SMath::Next(begin, i), SMath::Next(begin, j));"),
 'M6_multshift_missing_shift': ('HashSorter.h', "			+ (((value2 >> halfSize) * (value1 & halfMask)) >> halfSize);", "			+ ((value2 >> halfSize) * (value1 & halfMask));"),
 'M7_isgrouped_skips_neighbour': ('HashSorter.h', "			for (size_t j = i + 1; j < count; ++j)\n			{\n				if (equalFunc(*SMath::Next(begin, i - 1), *SMath::Next(begin, j)))\n					return false;", "			for (size_t j = i + 2; j < count; ++j)\n			{\n				if (equalFunc(*SMath::Next(begin, i - 1), *SMath::Next(begin, j)))\n					return false;"),
 'M8_radix_singlecode_wrong': ('RadixSorter.h', "				singleCode &= (code == code0);", "				singleCode &= (radix == radix0);"),
 'M9_findnext_skips_hash_check': ('HashSorter.h', "			if (iter == SMath::Next(begin, count) || iterHashFunc(iter) != itemHash)\n				break;", "			if (iter == SMath::Next(begin, count))\n				break;"),
}
MUTS['M5b_group_threshold'] = ('HashSorter.h', "			if (count > 2)\n				pvGroup(begin, count, equalFunc, iterSwapper);", "			if (count > 3)\n				pvGroup(begin, count, equalFunc, iterSwapper);")
MUTS['M5c_group_inner_start'] = ('HashSorter.h', "			for (size_t j = i + 1; j < count; ++j)\n			{\n				if (equalFunc(*SMath::Next(begin, i - 1), *SMath::Next(begin, j)))\n				{", "			for (size_t j = i + 2; j < count; ++j)\n			{\n				if (equalFunc(*SMath::Next(begin, i - 1), *SMath::Next(begin, j)))\n				{")
MUTS['MS1_selection_swaps_equal_codes'] = ('RadixSorter.h', "				if (codes[minIndex] < codes[i])", "				if (codes[minIndex] <= codes[i])")
MUTS['MS2_cycle_leader_always_swaps'] = ('RadixSorter.h', "					if (radix != r)\n					{", "					if (true)\n					{")
MUTS['MS3_group_swaps_wrong_slot'] = ('HashSorter.h', "					iterSwapper(SMath::Next(begin, i), SMath::Next(begin, j));", "					iterSwapper(SMath::Next(begin, i - 1), SMath::Next(begin, j));")
MUTS['MR1_compare_sign_flip'] = ('HashSorter.h', "		return (value1 < value2) ? -1 : int{value1 != value2};", "		return (value1 < value2) ? 1 : -int{value1 != value2};")
MUTS['MR2_recurse_only_if_shift_ge_radix'] = ('RadixSorter.h', "			size_t beginIndex = 0;\n			if (shift > 0)", "			size_t beginIndex = 0;\n			if (shift >= radixSize)")
MUTS['MR3_nextshift_partial_digit'] = ('RadixSorter.h', "			size_t nextShift = (shift > radixSize) ? shift - radixSize : 0;", "			size_t nextShift = (shift > radixSize) ? shift - radixSize : shift - 1;")
MUTS['MG1_stale_cache_seed_b'] = ('RadixSorter.h', "					std::swap(codes[i], codes[minIndex]);", "					codes[minIndex] = codes[i];")
MUTS['MG2_group_count_short'] = ('RadixSorter.h', "					groupFunc(UIntMath<>::Next(begin, prevIndex), i - prevIndex);\n					prevIndex = i;", "					groupFunc(UIntMath<>::Next(begin, prevIndex), i - prevIndex);\n					prevIndex = i + 1;")
MUTS['MG3_cache_filled_from_first_item'] = ('RadixSorter.h', "				codes[i] = codeGetter(UIntMath<>::Next(begin, i));", "				codes[i] = codeGetter(UIntMath<>::Next(begin, i / 2 * 2));")
MUTS['MH3_getradix_mask'] = ('RadixSorter.h', "& ((size_t{1} << radixSize) - 1);", "& (size_t{1} << radixSize);")
MUTS['MH4_count_loop_double_increment'] = ('RadixSorter.h', "				size_t radix = pvGetRadix<Code>(code, shift);\n				++endIndexes[radix];", "				size_t radix = pvGetRadix<Code>(code, shift);\n				endIndexes[radix] += (i % 2) + 1;")
MUTS['MH5_prefix_sum_from_zero'] = ('RadixSorter.h', "			for (size_t r = 1; r < radixCount; ++r)\n				endIndexes[r] += endIndexes[r - 1];", "			for (size_t r = 2; r < radixCount; ++r)\n				endIndexes[r] += endIndexes[r - 1];")
MUTS['MC1_cycle_begin_table_shifted'] = ('RadixSorter.h', "				beginIndexes[r] = endIndexes[r - 1];", "				beginIndexes[r] = endIndexes[r - 1] + (r == 1 ? 1 : 0);")
MUTS['ME1_exponential_step'] = ('HashSorter.h', "for (size_t i = 0; i < count; i = i * 2 + 2)", "for (size_t i = 0; i < count; i = i * 2 + 1)")
MUTS['MF1_findother_no_skip'] = ('HashSorter.h', "return pvExponentialSearch(begin + 1, count - 1, iterComparer).iterator;", "return pvExponentialSearch(begin, count, iterComparer).iterator;")
MUTS['MF2_findother_count_not_decremented'] = ('HashSorter.h', "return pvExponentialSearch(begin + 1, count - 1, iterComparer).iterator;", "return pvExponentialSearch(begin + 1, count, iterComparer).iterator;")
MUTS['M0_revert_2715474'] = ('REVERT', '2715474', '')
MUTS['MA1_revert_c1e16df_signed_codes'] = ('REVERT', 'c1e16df', '')
MUTS['M1_revert_bb23c06'] = ('REVERT', 'bb23c06', '')
which = sys.argv[1:] or list(MUTS)
for name in which:
    f, old, new = MUTS[name]
    d = tempfile.mkdtemp()
    shutil.copytree('/repo/include', d + '/include')
    if f == 'REVERT':
        subprocess.run('git -C /repo show %s -- include | (cd %s && patch -R -p1)' % (old, d), shell=True, check=True, capture_output=True)
    else:
        p = d + '/include/momo/' + f
        s = open(p).read()
        assert s.count(old) == 1, (name, s.count(old))
        open(p, 'w').write(s.replace(old, new))
    env = dict(os.environ, VERIF_REPO=d)
    import glob
    evidence_backup = open('/verif/evidence/C17.json').read() if os.path.exists('/verif/evidence/C17.json') else None
    replays_before = set(glob.glob('/verif/replays/C17-*.json'))
    r = subprocess.run(['./check', 'C17'], cwd='/verif', env=env, capture_output=True, text=True, timeout=1500)
    lines = [l for l in r.stdout.splitlines() if 'stage' in l or 'VIOLATION' in l or 'done:' in l]
    open('/verif/build/C17/mut/%s.log' % name, 'w').write(r.stdout + r.stderr)
    print('=====', name, 'exit', r.returncode)
    for l in lines: print('   ', l[:230])
    shutil.rmtree(d)
    # a mutant run must not leave anything behind that a normal run (or the committed evidence) would trip over
    if evidence_backup is not None: open('/verif/evidence/C17.json', 'w').write(evidence_backup)
    for f_ in set(glob.glob('/verif/replays/C17-*.json')) - replays_before: os.remove(f_)
