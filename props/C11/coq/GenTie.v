(* C11 -- tie of the hand model's bucket-kind parameters to the SOURCE: the leaf arithmetic of the growth decision
   (CalcCapacity, GetBucketCountShift of the three policy classes, HashSetBuckets::GetCount) and of the probe sequence
   (GetStartBucketIndex, GetNextBucketIndex of BucketBase / BucketOpen2N2 / BucketOpen8) is translated from /repo's
   headers by cxx2coq on every run (Gen_*.v); here it is proved equal, on the domain of real tables (2^L buckets,
   L <= 62, size_t hash codes, index and probe below the bucket count), to the functions GrowModel.v is instantiated
   with (start_mask, next_linear, next_tri, cc_base, sh_base, cc_open, sh_open, bcount).
   double arithmetic is translated to exact rational arithmetic (Q): see NOTES.md. *)
From Coq Require Import ZArith List Lia Bool QArith Qround.
From MomoCommon Require Import GenPrelude.
From C11 Require Import GrowModel.
From C11 Require Gen_PolicyBase Gen_PolicyOpen2N2 Gen_PolicyOpen2N2_m1 Gen_PolicyOpen8 Gen_IndexBase Gen_IndexOpen2N2 Gen_IndexOpen8 Gen_Buckets.
Local Open Scope Z_scope.

Lemma land_mask : forall x n, 0 <= n -> Z.land x (2 ^ n - 1) = x mod 2 ^ n.
Proof. intros. rewrite <- Z.land_ones by lia. f_equal. rewrite Z.ones_equiv. lia. Qed.

Lemma pow_le_64 : forall L, 0 <= L <= 63 -> 0 < 2 ^ L <= 2 ^ 63.
Proof. intros. split; [apply Z.pow_pos_nonneg; lia|apply Z.pow_le_mono_r; lia]. Qed.

Lemma wrapU64_small : forall x, 0 <= x < 2 ^ 64 -> wrapU 64 x = x.
Proof. intros. apply wrapU_small; auto. Qed.

(* ---- HashSetBuckets::GetCount ---- *)
Lemma gen_bucket_count : forall L, 0 <= L <= 63 -> Gen_Buckets.GetCount L = 2 ^ L.
Proof.
  intros L H. unfold Gen_Buckets.GetCount. rewrite Z.shiftl_mul_pow2 by lia. rewrite Z.mul_1_l.
  apply wrapU64_small. pose proof (pow_le_64 L H). change (2 ^ 64) with (2 * 2 ^ 63). lia.
Qed.

(* ---- probe sequence ---- *)
Lemma gen_start : forall hc L, 0 <= L <= 63 ->
  Gen_IndexBase.GetStartBucketIndex hc (2 ^ L) = start_mask hc (2 ^ L).
Proof.
  intros hc L H. unfold Gen_IndexBase.GetStartBucketIndex, start_mask. pose proof (pow_le_64 L H).
  rewrite wrapU64_small by (change (2 ^ 64) with (2 * 2 ^ 63); lia). apply land_mask; lia.
Qed.

Lemma gen_next_linear : forall i L p, 0 <= L <= 63 -> 0 <= i < 2 ^ L ->
  Gen_IndexBase.GetNextBucketIndex i (2 ^ L) = next_linear i (2 ^ L) p.
Proof.
  intros i L p H Hi. unfold Gen_IndexBase.GetNextBucketIndex, next_linear. pose proof (pow_le_64 L H).
  repeat rewrite wrapU64_small by (change (2 ^ 64) with (2 * 2 ^ 63); lia). apply land_mask; lia.
Qed.

Lemma gen_next_open2n2 : forall i L p, 0 <= L <= 63 -> 0 <= i < 2 ^ L -> 0 <= p < 2 ^ L ->
  Gen_IndexOpen2N2.GetNextBucketIndex i (2 ^ L) p = next_tri i (2 ^ L) p.
Proof.
  intros i L p H Hi Hp. unfold Gen_IndexOpen2N2.GetNextBucketIndex, next_tri. pose proof (pow_le_64 L H).
  repeat rewrite wrapU64_small by (change (2 ^ 64) with (2 * 2 ^ 63); lia). apply land_mask; lia.
Qed.

Lemma gen_next_open8 : forall i L p, 0 <= L <= 63 -> 0 <= i < 2 ^ L -> 0 <= p < 2 ^ L ->
  Gen_IndexOpen8.GetNextBucketIndex i (2 ^ L) p = next_tri i (2 ^ L) p.
Proof.
  intros i L p H Hi Hp. unfold Gen_IndexOpen8.GetNextBucketIndex, next_tri. pose proof (pow_le_64 L H).
  repeat rewrite wrapU64_small by (change (2 ^ 64) with (2 * 2 ^ 63); lia). apply land_mask; lia.
Qed.

(* same code for both open-addressing bucket classes *)
Lemma same_code_open_index : Gen_IndexOpen8.GetNextBucketIndex = Gen_IndexOpen2N2.GetNextBucketIndex.
Proof. reflexivity. Qed.

(* ---- growth policy ---- *)
Lemma gen_shift_base : forall bc mc, 0 < bc -> 0 < mc ->
  Gen_PolicyBase.GetBucketCountShift bc mc = Ok (sh_base mc bc).
Proof.
  intros bc mc H1 H2. unfold Gen_PolicyBase.GetBucketCountShift, sh_base.
  replace (Z.gtb bc 0) with true by (symmetry; apply Z.gtb_lt; lia).
  replace (Z.gtb mc 0) with true by (symmetry; apply Z.gtb_lt; lia). simpl andb.
  change (wrapU 64 (Z.shiftl 1 16)) with 65536. change (wrapU 64 (Z.shiftl 1 20)) with 1048576.
  destruct (mc =? 1); auto. destruct (mc =? 2); [destruct (bc <? 65536)|destruct (bc <? 1048576)]; reflexivity.
Qed.

Lemma gen_shift_open2n2 : forall mc bc, Gen_PolicyOpen2N2.GetBucketCountShift = sh_open mc bc.
Proof. reflexivity. Qed.
Lemma gen_shift_open8 : forall mc bc, Gen_PolicyOpen8.GetBucketCountShift = sh_open mc bc.
Proof. reflexivity. Qed.

(* floor(x / a * b) computed in exact rationals = (x * b) / a *)
Lemma qfloor_div_mul : forall x (a : positive) b,
  Qfloor (Qmult (Qdiv (inject_Z x) (inject_Z (Zpos a))) (inject_Z b)) = (x * b) / Zpos a.
Proof.
  intros. unfold Qdiv, Qinv, inject_Z, Qmult, Qfloor; simpl.
  rewrite Z.mul_1_r. rewrite Pos.mul_1_r. reflexivity.
Qed.

Lemma gen_capacity_base : forall bc mc, 0 < bc -> 0 < mc -> bc * 2 < 2 ^ 64 ->
  Gen_PolicyBase.CalcCapacity bc mc = Ok (cc_base mc bc).
Proof.
  intros bc mc H1 H2 H3. unfold Gen_PolicyBase.CalcCapacity, cc_base.
  replace (Z.gtb bc 0) with true by (symmetry; apply Z.gtb_lt; lia).
  replace (Z.gtb mc 0) with true by (symmetry; apply Z.gtb_lt; lia). simpl andb.
  destruct (mc =? 1).
  - rewrite qfloor_div_mul. f_equal. apply wrapU64_small.
    pose proof (Z.div_pos (bc * 5) 8 ltac:(lia) ltac:(lia)). pose proof (Z.div_le_upper_bound (bc * 5) 8 bc ltac:(lia) ltac:(lia)). lia.
  - destruct (mc =? 2); f_equal; apply wrapU64_small.
    + pose proof (Z.div_pos bc 2 ltac:(lia) ltac:(lia)). pose proof (Z.div_le_upper_bound bc 2 bc ltac:(lia) ltac:(lia)). lia.
    + lia.
Qed.

Lemma gen_capacity_open2n2 : forall mc bc, 0 < bc -> 0 < mc -> mc <> 7 -> bc * mc < 2 ^ 64 ->
  Gen_PolicyOpen2N2.CalcCapacity mc bc = cc_open mc bc.
Proof.
  intros mc bc H1 H2 H3 H4. unfold Gen_PolicyOpen2N2.CalcCapacity, cc_open.
  replace (mc =? 7) with false by (symmetry; apply Z.eqb_neq; auto).
  rewrite (wrapU64_small (bc * mc)) by nia. rewrite qfloor_div_mul. apply wrapU64_small.
  assert (0 <= bc * mc) by nia.
  pose proof (Z.div_pos (bc * mc * 11) 12 ltac:(lia) ltac:(lia)). pose proof (Z.div_le_upper_bound (bc * mc * 11) 12 (bc * mc) ltac:(lia) ltac:(lia)). lia.
Qed.

Lemma gen_capacity_open8 : forall bc mc, 0 < bc -> 0 < mc -> bc * mc < 2 ^ 64 ->
  Gen_PolicyOpen8.CalcCapacity bc mc = cc_open mc bc.
Proof.
  intros bc mc H1 H2 H4. unfold Gen_PolicyOpen8.CalcCapacity, cc_open. cbv zeta.
  rewrite (wrapU64_small (bc * mc)) by nia. assert (0 <= bc * mc) by nia.
  destruct (mc =? 7); rewrite qfloor_div_mul; apply wrapU64_small.
  - pose proof (Z.div_pos (bc * mc * 13) 14 ltac:(lia) ltac:(lia)). pose proof (Z.div_le_upper_bound (bc * mc * 13) 14 (bc * mc) ltac:(lia) ltac:(lia)). lia.
  - pose proof (Z.div_pos (bc * mc * 11) 12 ltac:(lia) ltac:(lia)). pose proof (Z.div_le_upper_bound (bc * mc * 11) 12 (bc * mc) ltac:(lia) ltac:(lia)). lia.
Qed.

(* all instantiations HashBucketOpen2N2<1..3> share one translation (maxCount is a Section variable of it) *)
Lemma same_code_open2n2_policy :
  Gen_PolicyOpen2N2_m1.CalcCapacity = Gen_PolicyOpen2N2.CalcCapacity /\
  Gen_PolicyOpen2N2_m1.GetBucketCountShift = Gen_PolicyOpen2N2.GetBucketCountShift.
Proof. split; reflexivity. Qed.

(* ---- the functions the extracted model is instantiated with ARE the source functions, per configuration ---- *)
Definition src_next (c : config) (i bc p : Z) : Z :=
  if c_probe c =? 0 then Gen_IndexBase.GetNextBucketIndex i bc else Gen_IndexOpen2N2.GetNextBucketIndex i bc p.
Definition src_capacity (c : config) (bc : Z) : Z :=
  if c_policy c =? 0 then (match Gen_PolicyBase.CalcCapacity bc (c_cap c) with Ok v => v | _ => 0 end)
  else if c_cap c =? 7 then Gen_PolicyOpen8.CalcCapacity bc (c_cap c) else Gen_PolicyOpen2N2.CalcCapacity (c_cap c) bc.
Definition src_shift (c : config) (bc : Z) : Z :=
  if c_policy c =? 0 then (match Gen_PolicyBase.GetBucketCountShift bc (c_cap c) with Ok v => v | _ => 0 end)
  else Gen_PolicyOpen2N2.GetBucketCountShift.

(* Domain: 2^L * maxCount < 2^53.  The translation renders `double` arithmetic as exact rational arithmetic; the real code
   computes in IEEE doubles, which is the same as long as the operands are exactly representable and no rounding can cross
   an integer: up to 2^53 slots (validated on the whole grid by the translator-validation stage; at 2^54 slots and more the
   real CalcCapacity of the open-addressing policies is smaller than floor(x*11/12) by a few units). *)
Theorem model_parameters_are_source : forall c L, 0 <= L <= 62 -> 0 < c_cap c -> 2 ^ L * c_cap c < 2 ^ 53 ->
  Gen_Buckets.GetCount L = 2 ^ L /\
  (forall hc, Gen_IndexBase.GetStartBucketIndex hc (2 ^ L) = start_mask hc (2 ^ L)) /\
  (forall i p, 0 <= i < 2 ^ L -> 0 <= p < 2 ^ L -> src_next c i (2 ^ L) p = cfg_next c i (2 ^ L) p) /\
  src_capacity c (2 ^ L) = cfg_cc c (2 ^ L) /\
  src_shift c (2 ^ L) = cfg_sh c (2 ^ L).
Proof.
  intros c L HL HC HB0. assert (HB : 2 ^ L * c_cap c < 2 ^ 64) by (change (2 ^ 64) with (2048 * 2 ^ 53); lia). assert (HL' : 0 <= L <= 63) by lia. pose proof (pow_le_64 L HL') as HP.
  assert (H2 : 2 ^ L * 2 < 2 ^ 64).
  { assert (2 ^ L <= 2 ^ 62) by (apply Z.pow_le_mono_r; lia). change (2 ^ 64) with (4 * 2 ^ 62). lia. }
  split; [apply gen_bucket_count; auto|]. split; [intros; apply gen_start; auto|]. split; [|split].
  - intros i p Hi Hp. unfold src_next, cfg_next. destruct (c_probe c =? 0); [apply gen_next_linear|apply gen_next_open2n2]; auto.
  - unfold src_capacity, cfg_cc. destruct (c_policy c =? 0).
    + rewrite gen_capacity_base by lia. auto.
    + destruct (Z.eqb_spec (c_cap c) 7); [apply gen_capacity_open8|apply gen_capacity_open2n2]; lia.
  - unfold src_shift, cfg_sh. destruct (c_policy c =? 0); [rewrite gen_shift_base by lia; auto|reflexivity].
Qed.
