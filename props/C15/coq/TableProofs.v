(* C15 -- proofs about the DataTable model (Table.v). *)
From Coq Require Import ZArith List Bool Arith Lia.
From C15 Require Import Table.
Import ListNotations.
Local Open Scope Z_scope.
(* robustness: a regenerated term that makes a tactic run away fails the proof (prove BROKEN) instead of hanging the build *)
Set Default Timeout 300.

Ltac tdm :=
  repeat match goal with
         | |- context [match ?x with _ => _ end] => destruct x eqn:?
         | |- context [if ?x then _ else _] => destruct x eqn:?
         end.

Lemma dt_rejected_call_is_identity s o s' : tstep s o = (s', TRej) -> s' = s.
Proof. destruct o; cbn [tstep]; cbv zeta; tdm; intro H; inversion H; reflexivity. Qed.

Lemma dt_step_monotone s o : (cver s <= cver (fst (tstep s o)))%nat /\ (rver s <= rver (fst (tstep s o)))%nat.
Proof. destruct o; cbn [tstep]; cbv zeta; tdm; cbn [fst cver rver tset tbset tupd]; lia. Qed.
Lemma dt_versions_monotone ops : forall s, (cver s <= cver (trun s ops))%nat /\ (rver s <= rver (trun s ops))%nat.
Proof.
  induction ops as [|o t IH]; intros s; simpl; [lia|].
  destruct (dt_step_monotone s o), (IH (fst (tstep s o))). lia.
Qed.

(* a row reference (or a reference taken out of a selection) whose removeVersion snapshot is not current is rejected by
   read, GetNumber, Remove/Extract and Update, and nothing changes *)
Definition dt_stale (s : tstate) (h : thandle) : Prop := ttid h = Some 0%nat /\ tsnap h <> rver s.
Lemma dt_stale_rejected s i o :
  dt_stale s (ths s i) ->
  (o = TRead i \/ o = TGetNumber i \/ o = TRemoveRef i \/ exists v, o = TUpdateRef i v) ->
  tstep s o = (s, TRej).
Proof.
  intros (A & B) HO.
  assert (S : tself s (ths s i) = false).
  { unfold tself. rewrite A. destruct (Nat.eqb_spec (tsnap (ths s i)) (rver s)); [congruence|reflexivity]. }
  destruct HO as [E|[E|[E|(v & E)]]]; subst; cbn [tstep]; cbv zeta; rewrite ?A, ?S; reflexivity.
Qed.
(* a row reference of another table is rejected by Remove/Extract/Update of this table; an out-of-range row number or
   selection index is rejected *)
Lemma dt_foreign_rejected s i v :
  ttid (ths s i) <> Some 0%nat -> tstep s (TRemoveRef i) = (s, TRej) /\ tstep s (TUpdateRef i v) = (s, TRej).
Proof. intros A. cbn [tstep]; cbv zeta. destruct (ttid (ths s i)) as [[|n]|]; try congruence; auto. Qed.
Lemma dt_out_of_range_rejected s i slot v :
  (tcount s <= i)%nat ->
  tstep s (TRef i slot) = (s, TRej) /\ tstep s (TRemoveNum i) = (s, TRej) /\ tstep s (TUpdateNum i v) = (s, TRej) /\
  tstep s (TInsert (S i) v) = (s, TRej).
Proof.
  intros H. unfold tcount in H. cbn [tstep]; cbv zeta.
  assert (E : nth_error (rows s) i = None) by (apply nth_error_None; lia). rewrite E.
  repeat split. unfold tcount. destruct (Nat.leb_spec (S i) (length (rows s))); [lia|reflexivity].
Qed.

(* ---------- fresh references ---------- *)
Lemma find_id_In id : forall l, find_id id l <> None <-> In id (map fst l).
Proof.
  induction l as [|(x, v) t IH]; simpl; [tauto|].
  destruct (Nat.eqb_spec x id); subst; [split; [auto|discriminate]|].
  rewrite IH. split; [auto|]. intros [H|H]; [congruence|auto].
Qed.
(* invariant: the raws a current row reference / selection refers to are rows of the table *)
Definition tinv (s : tstate) : Prop :=
  forall i, ttid (ths s i) = Some 0%nat ->
    (tsnap (ths s i) <= rver s)%nat /\
    (tsnap (ths s i) = rver s -> forall id, In id (tids (ths s i)) -> In id (map fst (rows s))).

(* rows disappear only together with a bump of removeVersion *)
Lemma dt_rows_persist s o id :
  rver (fst (tstep s o)) = rver s -> In id (map fst (rows s)) -> In id (map fst (rows (fst (tstep s o)))).
Proof.
  destruct o; cbn [tstep]; cbv zeta; tdm; cbn [fst rver rows tset tbset tupd]; intros E H; auto; try lia.
  - rewrite map_app, in_app_iff. auto.
  - rewrite <- (firstn_skipn i (rows s)) in H. rewrite map_app, in_app_iff in *. simpl. tauto.
  - unfold set_val. rewrite map_map. apply in_map_iff in H. destruct H as ((x, w) & Hx & Hin). simpl in Hx. subst x.
    apply in_map_iff. exists (id, w). split; auto. simpl. destruct (Nat.eqb_spec id n0); subst; reflexivity.
Qed.

Lemma In_insert_by f x : forall l y, In y (insert_by f x l) -> y = x \/ In y l.
Proof.
  induction l as [|a t IH]; simpl; intros y H; [destruct H as [H|[]]; auto|].
  destruct (f x <=? f a); simpl in H.
  - destruct H as [H|[H|H]]; auto.
  - destruct H as [H|H]; auto. apply IH in H. destruct H; auto.
Qed.
Lemma In_sort_by f : forall l y, In y (sort_by f l) -> In y l.
Proof.
  induction l as [|a t IH]; simpl; intros y H; auto. apply In_insert_by in H. destruct H; auto.
Qed.
Lemma In_map_fst_filter (f : nat * Z -> bool) l id : In id (map fst (filter f l)) -> In id (map fst l).
Proof.
  intros H. apply in_map_iff in H. destruct H as (e & E & Hin). apply filter_In in Hin. apply in_map_iff. exists e. tauto.
Qed.
Lemma In_firstn {A} (l : list A) j x : In x (firstn j l) -> In x l.
Proof. revert j. induction l; intros [|j]; simpl; try tauto. intros [H|H]; auto. right. eapply IHl; eauto. Qed.
Lemma In_skipn {A} (l : list A) j x : In x (skipn j l) -> In x l.
Proof. revert j. induction l; intros [|j]; simpl; try tauto. intros H. right. eapply IHl; eauto. Qed.

Lemma In_firstn_skipn (l : list nat) j k id : In id (firstn j l ++ skipn k l) -> In id l.
Proof.
  intros H. apply in_app_iff in H. destruct H as [H|H]; [eapply In_firstn; eauto|eapply In_skipn; eauto].
Qed.
Lemma tinv_step s o : tinv s -> tinv (fst (tstep s o)).
Proof.
  intros I i. set (s' := fst (tstep s o)).
  pose proof (dt_step_monotone s o) as (_ & Mr). fold s' in Mr.
  assert (Hcase : (exists j, ttid (ths s' i) = ttid (ths s j) /\ tsnap (ths s' i) = tsnap (ths s j) /\
                             (forall id, In id (tids (ths s' i)) -> In id (tids (ths s j)))) \/
          (tsnap (ths s' i) = rver s' /\ forall id, In id (tids (ths s' i)) -> In id (map fst (rows s'))) \/
          ttid (ths s' i) <> Some 0%nat).
  { subst s'. destruct o; cbn [tstep]; cbv zeta; tdm; cbn [fst ths tset tbset tupd rver rows];
      try (left; exists i; auto; fail);
      destruct (Nat.eqb i _) eqn:Ei; try (left; exists i; auto; fail);
      try (right; right; cbn [ttid]; discriminate).
    - right; left. cbn [tsnap tids tref]. split; [reflexivity|]. intros id [H|[]]; subst.
      apply nth_error_In in Heqo. apply in_map_iff. exists (id, z). auto.
    - right; left. cbn [tsnap tids]. split; [reflexivity|]. auto.
    - left. exists ssel. cbn [ttid tsnap tids]. repeat split; auto. intros id [H|[]]; subst. eapply nth_error_In; eauto.
    - right; left. cbn [tsnap tids]. split; [reflexivity|]. intros id H. eapply In_map_fst_filter; eauto.
    - left. exists ssel. cbn [ttid tsnap tids sel_handle]. repeat split; auto. intros id [].
    - left. exists ssel. cbn [ttid tsnap tids sel_handle]. repeat split; auto. intros id H.
      apply filter_In in H. rewrite Heql. tauto.
    - left. exists ssel. cbn [ttid tsnap tids sel_handle]. repeat split; auto. intros id H. eapply In_sort_by; eauto.
    - left. exists ssel. cbn [ttid tsnap tids sel_handle]. repeat split; auto. intros id H. apply in_rev; auto.
    - left. exists ssel. cbn [ttid tsnap tids sel_handle]. repeat split; auto. intros id H. eapply In_firstn_skipn; eauto. }
  intros Hc.
  destruct Hcase as [(j & E1 & E2 & E3)|[(F1 & F2)|F]]; [| |congruence].
  - rewrite E1 in Hc. destruct (I j Hc) as (A & B). rewrite E2. split; [lia|].
    intros Es id Hid. apply dt_rows_persist; [fold s'; lia|]. apply B; [lia|auto].
  - split; [lia|]. intros _. exact F2.
Qed.
Lemma tinv_run ops : forall s, tinv s -> tinv (trun s ops).
Proof. induction ops as [|o t IH]; intros s I; simpl; auto. apply IH, tinv_step, I. Qed.
Lemma tinv_init : tinv tinit.
Proof. intros i H; discriminate. Qed.

(* for every history: a row reference whose snapshot is current (no row was removed or replaced since it was taken --
   rows may have been added, inserted, items updated) refers to a row of the table and reading it is accepted *)
Lemma dt_fresh_reference_accepted ops i id :
  let s := trun tinit ops in
  ttid (ths s i) = Some 0%nat -> tsnap (ths s i) = rver s -> tids (ths s i) = [id] ->
  exists v, tstep s (TRead i) = (s, TAcc (Some v)) /\ find_id id (rows s) = Some v.
Proof.
  intros s Hc Hs Hi. pose proof (tinv_run ops tinit tinv_init) as I. fold s in I.
  destruct (I i Hc) as (_ & B). specialize (B Hs id). rewrite Hi in B. specialize (B (or_introl eq_refl)).
  apply find_id_In in B. destruct (find_id id (rows s)) as [v|] eqn:E; [|congruence].
  exists v. split; auto. cbn [tstep]; cbv zeta. unfold tself. rewrite Hc, Hs, Nat.eqb_refl, Hi, E. reflexivity.
Qed.

Example dt_witness :
  snd (trun_out tinit [TAddRow 5; TAddRow 6; TAddRow 7; TRef 1 0; TSelect 10; TAddRow 8; TUpdateRef 0 60; TRead 0;
                       TSelRef 10 2 1; TRead 1; TRemoveNum 0; TRead 0; TRead 1; TRef 0 2; TRead 2; TRef 9 3])
  = [TAcc None; TAcc None; TAcc None; TAcc None; TAcc (Some 3); TAcc None; TAcc None; TAcc (Some 60);
     TAcc None; TAcc (Some 7); TAcc None; TRej; TRej; TAcc None; TAcc (Some 60); TRej].
Proof. vm_compute. reflexivity. Qed.

(* ---------- the exact accepted-set of the code ---------- *)
(* for every history: reading a row reference of this table is accepted IF AND ONLY IF removeVersion is still the value it
   recorded, i.e. iff none of Remove / Extract / Update(rowNumber,row) / Remove(filter) / Clear ran since it was taken --
   whether or not that call actually removed a row *)
Lemma dt_accepted_iff_remove_version_unchanged ops i id :
  let s := trun tinit ops in
  ttid (ths s i) = Some 0%nat -> tids (ths s i) = [id] ->
  ((exists v, tstep s (TRead i) = (s, TAcc (Some v))) <-> tsnap (ths s i) = rver s) /\
  (tstep s (TRead i) = (s, TRej) <-> tsnap (ths s i) <> rver s).
Proof.
  intros s Hc Hi. split; split.
  - intros (v & E). cbn [tstep] in E; cbv zeta in E. unfold tself in E. rewrite Hc in E.
    destruct (Nat.eqb_spec (tsnap (ths s i)) (rver s)); [auto|discriminate].
  - intros Hs. destruct (dt_fresh_reference_accepted ops i id Hc Hs Hi) as (v & E & _). eauto.
  - intros E Hs. destruct (dt_fresh_reference_accepted ops i id Hc Hs Hi) as (v & E2 & _). fold s in E2. congruence.
  - intros N. apply (dt_stale_rejected s i (TRead i)); [split; auto|auto].
Qed.

(* over-invalidation witnesses: Remove(filter) that removes nothing and Clear() of an empty table change no row but
   bump removeVersion, so references taken before are rejected afterwards *)
Example dt_noop_remove_filter_invalidates :
  let pre := [TAddRow 5; TAddRow 6; TRef 0 0] in
  rows (trun tinit pre) = rows (trun tinit (pre ++ [TRemoveIf 1000003])) /\
  snd (tstep (trun tinit pre) (TRead 0)) = TAcc (Some 5) /\
  snd (tstep (trun tinit (pre ++ [TRemoveIf 1000003])) (TRead 0)) = TRej.
Proof. vm_compute. repeat split. Qed.

(* ---------- selections ---------- *)
(* A selection (also a selection of a selection, a sorted / reversed / trimmed one -- they all keep the keeper they were created
   with) whose removeVersion snapshot is not current: reading through it (iteration, selection-of-selection with a reading filter),
   sorting it by a column and passing its rows to table.Remove(begin,end) are rejected and nothing changes.  (For the reading
   operations and the range removal an EMPTY stale selection is accepted: nothing is read; Sort checks the keeper first.) *)
Lemma dt_stale_selection_rejected s i m slot :
  dt_stale s (ths s i) -> tissel (ths s i) = true -> m <> 0 ->
  tstep s (TSelSort i) = (s, TRej) /\
  (tids (ths s i) <> [] ->
     tstep s (TSelSum i) = (s, TRej) /\ tstep s (TSelOfSel i m slot) = (s, TRej) /\ tstep s (TRemoveSel i) = (s, TRej)).
Proof.
  intros (A & B) Sel M.
  assert (S : tself s (ths s i) = false).
  { unfold tself. rewrite A. destruct (Nat.eqb_spec (tsnap (ths s i)) (rver s)); [congruence|reflexivity]. }
  cbn [tstep]; cbv zeta. rewrite Sel, A, S. simpl. split; [reflexivity|]. intros NE.
  destruct (Z.eqb_spec m 0); [congruence|]. simpl.
  destruct (tids (ths s i)); [congruence|]. repeat split.
Qed.
(* for every history: a selection with a current snapshot only contains rows of the table, and iterating it is accepted *)
Lemma dt_fresh_selection_accepted ops i :
  let s := trun tinit ops in
  ttid (ths s i) = Some 0%nat -> tsnap (ths s i) = rver s -> tissel (ths s i) = true ->
  (forall id, In id (tids (ths s i)) -> In id (map fst (rows s))) /\
  exists v, tstep s (TSelSum i) = (s, TAcc (Some v)).
Proof.
  intros s Hc Hs Sel. pose proof (tinv_run ops tinit tinv_init) as I. fold s in I.
  destruct (I i Hc) as (_ & B). split; [exact (B Hs)|].
  cbn [tstep]; cbv zeta. unfold tself. rewrite Sel, Hc, Hs, Nat.eqb_refl. simpl.
  destruct (tids (ths s i)); eauto.
Qed.

(* ---------- index look-up handles: FindByMultiHash bounds (grow round 4) ---------- *)
(* every operation either leaves both versions and the rows alone or bumps changeVersion *)
Lemma dt_unchanged_or_change_bumped s o :
  (cver (fst (tstep s o)) = cver s /\ rver (fst (tstep s o)) = rver s /\ rows (fst (tstep s o)) = rows s) \/
  (cver s < cver (fst (tstep s o)))%nat.
Proof. destruct o; cbn [tstep]; cbv zeta; tdm; cbn [fst cver rver rows tset tbset tupd]; auto; right; lia. Qed.
(* invariant: a bounds handle whose changeVersion snapshot is current also has a current removeVersion snapshot, and every raw it
   holds is a row of the table with the looked-up item *)
Definition binv (s : tstate) : Prop :=
  forall i, bok (tbs s i) = true ->
    (bcsnap (tbs s i) <= cver s)%nat /\
    (bcsnap (tbs s i) = cver s ->
       brsnap (tbs s i) = rver s /\ forall id, In id (bids (tbs s i)) -> In (id, bval (tbs s i)) (rows s)).
Lemma In_filter_value (v : Z) (l : list (nat * Z)) id :
  In id (map fst (filter (fun e => snd e =? v) l)) -> In (id, v) l.
Proof.
  intros H. apply in_map_iff in H. destruct H as ((x, w) & E & H). apply filter_In in H. destruct H as (H & Q).
  simpl in E, Q. apply Z.eqb_eq in Q. subst. exact H.
Qed.
Lemma binv_step s o : binv s -> binv (fst (tstep s o)).
Proof.
  intros I i. set (s' := fst (tstep s o)).
  assert (Hcase : tbs s' i = tbs s i \/
            (bcsnap (tbs s' i) = cver s' /\ brsnap (tbs s' i) = rver s' /\
             forall id, In id (bids (tbs s' i)) -> In (id, bval (tbs s' i)) (rows s'))).
  { subst s'. destruct o; cbn [tstep]; cbv zeta; tdm; cbn [fst tbs tset tbset tupd cver rver rows]; auto.
    destruct (Nat.eqb i slot); auto. right. cbn [bcsnap brsnap bids bval]. repeat split.
    intros id H. apply In_filter_value; exact H. }
  intros Hok. destruct Hcase as [E|(A & B & C)].
  - rewrite E in *. destruct (I i Hok) as (L & R).
    pose proof (dt_unchanged_or_change_bumped s o) as U. fold s' in U. destruct U as [(E1 & E2 & E3)|Lt].
    + rewrite E1, E2, E3. auto.
    + split; [lia|]. intros Q. lia.
  - split; [lia|]. intros _. auto.
Qed.
Lemma binv_run ops : forall s, binv s -> binv (trun s ops).
Proof. induction ops as [|o t IH]; intros s I; simpl; auto. apply IH, binv_step, I. Qed.
Lemma binv_init : binv tinit.
Proof. intros i H; discriminate. Qed.

(* the exact accepted set of an in-range read through index bounds, for every history: accepted iff NO operation bumped
   changeVersion since the look-up (rows added, removed, replaced, items updated, Clear, and the conservative no-op bumps all do) *)
Lemma dt_bounds_accepted_iff_change_version_unchanged ops slot j :
  let s := trun tinit ops in
  bok (tbs s slot) = true -> (j < length (bids (tbs s slot)))%nat ->
  (tstep s (TBoundsAt slot j) = (s, TAcc (Some (bval (tbs s slot)))) <-> bcsnap (tbs s slot) = cver s) /\
  (bcsnap (tbs s slot) <> cver s -> tstep s (TBoundsAt slot j) = (s, TRej) /\ tstep s (TBoundsSum slot) = (s, TRej)).
Proof.
  intros s Hok Hj. pose proof (binv_run ops tinit binv_init slot Hok) as (L & R). fold s in L, R.
  cbn [tstep]; cbv zeta. rewrite Hok. destruct (Nat.ltb_spec j (length (bids (tbs s slot)))) as [_|]; [|lia].
  unfold bfresh. destruct (Nat.eqb_spec (bcsnap (tbs s slot)) (cver s)) as [E|E]; cbn [andb].
  - destruct (R E) as (Er & _). rewrite Er, Nat.eqb_refl. split; [tauto|congruence].
  - split; [split; [discriminate|congruence]|]. intros _. split; [reflexivity|].
    destruct (bids (tbs s slot)); [simpl in Hj; lia|reflexivity].
Qed.
(* ... and then every row the bounds refer to is a row of the table holding the looked-up item: the read cannot touch a removed row *)
Lemma dt_current_bounds_rows_live ops slot id :
  let s := trun tinit ops in
  bok (tbs s slot) = true -> bcsnap (tbs s slot) = cver s -> In id (bids (tbs s slot)) -> In (id, bval (tbs s slot)) (rows s).
Proof. intros s Hok E. destruct (binv_run ops tinit binv_init slot Hok) as (_ & R). fold s in R. apply (R E). Qed.
(* an out-of-range index is rejected whether or not the bounds are current (the index check comes first), nothing changes *)
Lemma dt_bounds_out_of_range_rejected s slot j :
  bok (tbs s slot) = true -> (length (bids (tbs s slot)) <= j)%nat -> tstep s (TBoundsAt slot j) = (s, TRej).
Proof. intros Hok H. cbn [tstep]; cbv zeta. rewrite Hok. destruct (Nat.ltb_spec j (length (bids (tbs s slot)))); [lia|reflexivity]. Qed.
(* witnesses: adding a row or updating an item invalidates earlier index bounds (changeVersion), although row references survive *)
Lemma dt_addrow_invalidates_bounds_not_references :
  snd (trun_out tinit [TAddRow 5; TAddRow 5; TFindMulti 5 20; TRef 0 0; TBoundsAt 20 1; TAddRow 6; TBoundsAt 20 1; TBoundsSum 20; TRead 0; TBoundsCount 20]) =
  [TAcc None; TAcc None; TAcc (Some 2); TAcc None; TAcc (Some 5); TAcc None; TRej; TRej; TAcc (Some 5); TAcc (Some 2)].
Proof. vm_compute. reflexivity. Qed.
