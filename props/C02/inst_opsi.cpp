// instantiation TU for cxx2coq (C02, growth round): the node operations that write the count byte / the index table, INDEXED layout
#include "momo/TreeSet.h"
namespace momo {
typedef TreeSet<int, TreeTraits<int, false, TreeNode<32, 4, MemPoolParams<8>, false>, true>> InstSetI;
void c02_inst_use_i() { InstSetI s; s.Insert(1); s.Remove(s.GetBegin()); }
}
