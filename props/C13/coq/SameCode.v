(* C13: the encoder code regenerated from the other instantiations of BucketOpen2N2 (maxCount 1 and 2, and the
   variant without hash-code parts) is the SAME Gallina as the one the proofs are about (maxCount 3), so the
   Open2N2 theorems hold for Open2N2<1..3> in both variants.  Each lemma is closed by reflexivity against the
   regenerated files: a source change that makes an instantiation differ breaks it. *)
From Coq Require Import ZArith.
From MomoCommon Require Import GenPrelude.
From C13 Require Gen_Open2N2 Gen_Open2N2_m1 Gen_Open2N2_m2 Gen_Open2N2_nf Gen_Open2N2_ops Gen_OpenN1 Gen_OpenN1_ops.
Local Open Scope Z_scope.

Lemma same_m1 : Gen_Open2N2_m1.UpdateMaxProbe = Gen_Open2N2.UpdateMaxProbe /\
  Gen_Open2N2_m1.pvGetMaxProbe = Gen_Open2N2.pvGetMaxProbe /\ Gen_Open2N2_m1.pvGetCount = Gen_Open2N2.pvGetCount /\
  Gen_Open2N2_m1.GetNextBucketIndex = Gen_Open2N2.GetNextBucketIndex.
Proof. repeat split; reflexivity. Qed.
Lemma same_m2 : Gen_Open2N2_m2.UpdateMaxProbe = Gen_Open2N2.UpdateMaxProbe /\
  Gen_Open2N2_m2.pvGetMaxProbe = Gen_Open2N2.pvGetMaxProbe /\ Gen_Open2N2_m2.pvGetCount = Gen_Open2N2.pvGetCount /\
  Gen_Open2N2_m2.GetNextBucketIndex = Gen_Open2N2.GetNextBucketIndex.
Proof. repeat split; reflexivity. Qed.
Lemma same_nf : Gen_Open2N2_nf.UpdateMaxProbe = Gen_Open2N2.UpdateMaxProbe /\
  Gen_Open2N2_nf.pvGetMaxProbe = Gen_Open2N2.pvGetMaxProbe /\ Gen_Open2N2_nf.pvGetCount = Gen_Open2N2.pvGetCount /\
  Gen_Open2N2_nf.GetNextBucketIndex = Gen_Open2N2.GetNextBucketIndex.
Proof. repeat split; reflexivity. Qed.

Lemma same_all :
  (Gen_Open2N2_m1.UpdateMaxProbe = Gen_Open2N2.UpdateMaxProbe /\ Gen_Open2N2_m1.pvGetMaxProbe = Gen_Open2N2.pvGetMaxProbe /\
   Gen_Open2N2_m1.pvGetCount = Gen_Open2N2.pvGetCount /\ Gen_Open2N2_m1.GetNextBucketIndex = Gen_Open2N2.GetNextBucketIndex) /\
  (Gen_Open2N2_m2.UpdateMaxProbe = Gen_Open2N2.UpdateMaxProbe /\ Gen_Open2N2_m2.pvGetMaxProbe = Gen_Open2N2.pvGetMaxProbe /\
   Gen_Open2N2_m2.pvGetCount = Gen_Open2N2.pvGetCount /\ Gen_Open2N2_m2.GetNextBucketIndex = Gen_Open2N2.GetNextBucketIndex) /\
  (Gen_Open2N2_nf.UpdateMaxProbe = Gen_Open2N2.UpdateMaxProbe /\ Gen_Open2N2_nf.pvGetMaxProbe = Gen_Open2N2.pvGetMaxProbe /\
   Gen_Open2N2_nf.pvGetCount = Gen_Open2N2.pvGetCount /\ Gen_Open2N2_nf.GetNextBucketIndex = Gen_Open2N2.GetNextBucketIndex).
Proof. exact (conj same_m1 (conj same_m2 same_nf)). Qed.

(* the module that also translates AddCrt / Remove / pvSetEmpty (Gen_Open2N2_ops, three array fields) carries the
   same encoder code as the module the encoder proofs are about: the extra fields are never read or written by it *)
Lemma same_ops :
  (forall m s h p, Gen_Open2N2_ops.UpdateMaxProbe m s h p = Gen_Open2N2.UpdateMaxProbe m p) /\
  (forall m s h, Gen_Open2N2_ops.pvGetMaxProbe m s h = Gen_Open2N2.pvGetMaxProbe m) /\
  (forall m s h, Gen_Open2N2_ops.pvGetCount m s h = Gen_Open2N2.pvGetCount m) /\
  (forall mc d, Gen_OpenN1_ops.pvGetCount true mc d = Gen_OpenN1.pvGetCount mc d).
Proof. repeat split; reflexivity. Qed.
