(* C05 -- proofs about ArrayShift.v: loop invariants are pointwise (get), final statements are list equalities *)
From Coq Require Import List Arith Lia Bool.
From C05 Require Import ArrayShift.
Import ListNotations.

Section Proofs.
Variable V : Type.
Variable self_move : V -> option V.
Variable after_move : V -> option V.
Notation cell := (cell V).
Notation arr := (arr V).

(* ------------------------------------------------------------------ get / set *)
Lemma length_set (a : list cell) i c : length (set a i c) = length a.
Proof. revert i; induction a; intros [|i]; simpl; auto. Qed.

Lemma get_set (a : list cell) i c j :
  i < length a -> get (set a i c) j = if j =? i then c else get a j.
Proof.
  unfold get. revert i j; induction a; intros i j Hi; simpl in Hi; [lia|].
  destruct i, j; simpl; auto. apply IHa; lia.
Qed.

Lemma get_set_other (a : list cell) i c j : j <> i -> get (set a i c) j = get a j.
Proof.
  unfold get. revert i j; induction a; intros i j Hn; simpl; [destruct i; reflexivity|].
  destruct i, j; simpl; auto; try lia.
Qed.

Lemma get_beyond (a : list cell) j : length a <= j -> get a j = Raw.
Proof. intros; unfold get; apply nth_overflow; auto. Qed.

Lemma get_not_raw_lt (a : list cell) j : get a j <> Raw -> j < length a.
Proof. intros H. destruct (Nat.lt_ge_cases j (length a)); auto. exfalso; apply H, get_beyond; auto. Qed.

Lemma firstn_set_ge (a : list cell) i c k : k <= i -> firstn k (set a i c) = firstn k a.
Proof.
  revert i k; induction a; intros i k Hk; simpl; [destruct i; reflexivity|].
  destruct i, k; simpl; auto; try lia. f_equal. apply IHa; lia.
Qed.

Lemma mcell_not_raw (o : option V) : mcell o <> Raw.
Proof. destruct o; simpl; discriminate. Qed.

Lemma nth_firstn_lt {A} (l : list A) m j d : j < m -> nth j (firstn m l) d = nth j l d.
Proof.
  revert m j; induction l; intros m j H; destruct m, j; simpl; auto; try lia. apply IHl; lia.
Qed.

Lemma nth_map_seq {A} (g : nat -> A) m j d : j < m -> nth j (map g (seq 0 m)) d = g j.
Proof.
  intros H. rewrite (nth_indep _ d (g 0)) by (rewrite map_length, seq_length; auto).
  rewrite map_nth. rewrite seq_nth; auto.
Qed.

(* a prefix of the cells that is pointwise Live (g j) is the list map Live (map g (seq 0 m)) *)
Lemma firstn_lives (c : list cell) m (g : nat -> V) :
  m <= length c -> (forall j, j < m -> get c j = Live (g j)) -> firstn m c = lives (map g (seq 0 m)).
Proof.
  intros Hm H. unfold lives. rewrite map_map. apply (nth_ext _ _ Raw Raw).
  - rewrite firstn_length, map_length, seq_length. lia.
  - intros j Hj. rewrite firstn_length in Hj. rewrite nth_firstn_lt by lia.
    rewrite nth_map_seq by lia. apply H; lia.
Qed.

Lemma nth_skipn_ {A} (l : list A) m j d : nth j (skipn m l) d = nth (m + j) l d.
Proof. revert l; induction m; intros l; simpl; auto. destruct l; simpl; auto. destruct j; auto. Qed.

Lemma tail_raws (c : list cell) m : m <= length c -> (forall j, m <= j -> get c j = Raw) -> skipn m c = raws (length c - m).
Proof.
  intros Hm H. apply (nth_ext _ _ Raw Raw).
  - unfold raws. rewrite skipn_length, repeat_length. reflexivity.
  - intros j Hj. rewrite nth_skipn_. unfold raws. rewrite nth_repeat. apply H. lia.
Qed.

Lemma split_cells (c : list cell) m (g : nat -> V) :
  m <= length c -> (forall j, j < m -> get c j = Live (g j)) -> (forall j, m <= j -> get c j = Raw) ->
  c = lives (map g (seq 0 m)) ++ raws (length c - m).
Proof.
  intros. rewrite <- (firstn_skipn m c) at 1. f_equal; [apply firstn_lives | apply tail_raws]; auto.
Qed.

Lemma get_lives_raws (l : list V) r j d :
  get (lives l ++ raws r) j = if j <? length l then Live (nth j l d) else Raw.
Proof.
  unfold get, lives, raws. destruct (Nat.ltb_spec j (length l)).
  - rewrite app_nth1 by (rewrite map_length; auto).
    rewrite (nth_indep _ Raw (Live d)) by (rewrite map_length; auto). apply map_nth.
  - rewrite app_nth2 by (rewrite map_length; auto). apply nth_repeat.
Qed.

(* ------------------------------------------------------------------ loops *)
Lemma for_up_inv {St} (P : nat -> St -> Prop) (body : nat -> St -> res St) lo hi :
  (forall i s, lo <= i -> i < hi -> P i s -> exists s', body i s = Ok s' /\ P (S i) s') ->
  forall fuel i s, lo <= i -> i <= hi -> hi - i < fuel -> P i s ->
    exists s', for_up fuel i hi body s = Ok s' /\ P hi s'.
Proof.
  intros Hb. induction fuel; intros i s Hlo Hi Hf HP; [lia|]. simpl.
  destruct (Nat.ltb_spec i hi).
  - destruct (Hb i s Hlo H HP) as (s' & -> & HP'). simpl. apply IHfuel; auto; lia.
  - assert (i = hi) by lia; subst. eauto.
Qed.

Lemma for_up_none {St} (body : nat -> St -> res St) fuel i hi s :
  hi <= i -> 0 < fuel -> for_up fuel i hi body s = Ok s.
Proof. intros. destruct fuel; [lia|]. simpl. destruct (Nat.ltb_spec i hi); [lia|auto]. Qed.

Lemma for_down_inv {St} (P : nat -> St -> Prop) (body : nat -> St -> res St) lo hi :
  (forall i s, lo < i -> i <= hi -> P i s -> exists s', body i s = Ok s' /\ P (i - 1) s') ->
  forall fuel i s, lo <= i -> i <= hi -> i - lo < fuel -> P i s ->
    exists s', for_down fuel i lo body s = Ok s' /\ P lo s'.
Proof.
  intros Hb. induction fuel; intros i s Hi Hhi Hf HP; [lia|]. simpl.
  destruct (Nat.ltb_spec lo i).
  - destruct (Hb i s H Hhi HP) as (s' & -> & HP'). simpl. apply IHfuel; auto; lia.
  - assert (i = lo) by lia; subst. eauto.
Qed.

Local Arguments for_up : simpl never.
Local Arguments for_down : simpl never.

(* ------------------------------------------------------------------ primitives *)
Lemma src_after_not_raw (o : option V) : src_after V after_move o <> Raw.
Proof. destruct o; simpl; [apply mcell_not_raw|discriminate]. Qed.

Lemma item_at_ok (s : arr) i o : i < cnt s -> get (cells s) i = mcell o -> item_at V s i = Ok o.
Proof. intros Hi Hg. unfold item_at, obj_at. destruct (Nat.ltb_spec i (cnt s)); [|lia]. rewrite Hg; destruct o; auto. Qed.

Lemma assign_val_ok (s : arr) o dst :
  dst < cnt s -> get (cells s) dst <> Raw -> assign_val V s o dst = Ok (upd V s dst (mcell o)).
Proof.
  intros Hi Hg. unfold assign_val. destruct (Nat.ltb_spec dst (cnt s)); [|lia].
  destruct (get (cells s) dst); auto; congruence.
Qed.

Lemma add_back_ctor_ok (s : arr) o :
  cnt s < cap s -> get (cells s) (cnt s) = Raw ->
  add_back_ctor V s o = Ok (mkArr (set (cells s) (cnt s) (mcell o)) (S (cnt s))).
Proof. intros Hc Hg. unfold add_back_ctor. destruct (Nat.ltb_spec (cnt s) (cap s)); [|lia]. rewrite Hg; auto. Qed.

Lemma add_back_move_item_ok (s : arr) i o :
  i < cnt s -> get (cells s) i = mcell o -> cnt s < cap s -> get (cells s) (cnt s) = Raw ->
  add_back_move_item V after_move s i =
    Ok (mkArr (set (set (cells s) (cnt s) (mcell o)) i (src_after V after_move o)) (S (cnt s))).
Proof.
  intros. unfold add_back_move_item. rewrite (item_at_ok s i o) by auto. simpl.
  rewrite add_back_ctor_ok by auto. simpl. reflexivity.
Qed.

Lemma move_assign_items_ok (s : arr) src dst o :
  src <> dst -> src < cnt s -> dst < cnt s -> get (cells s) src = mcell o -> get (cells s) dst <> Raw ->
  move_assign_items V self_move after_move s src dst =
    Ok (mkArr (set (set (cells s) dst (mcell o)) src (src_after V after_move o)) (cnt s)).
Proof.
  intros. unfold move_assign_items. rewrite (item_at_ok s src o) by auto. simpl.
  destruct (Nat.eqb_spec src dst); [contradiction|]. rewrite assign_val_ok by auto. simpl. reflexivity.
Qed.

Lemma destroy_ok k : forall (c : list cell) i,
  i + k <= length c -> (forall j, i <= j < i + k -> get c j <> Raw) ->
  exists c', destroy V c i k = Ok c' /\ length c' = length c /\
    forall j, get c' j = if (i <=? j) && (j <? i + k) then Raw else get c j.
Proof.
  induction k; intros c i Hl Hn; simpl.
  - exists c. repeat split; auto. intros j.
    destruct (Nat.leb_spec i j), (Nat.ltb_spec j (i + 0)); simpl; auto; lia.
  - assert (Hi : get c i <> Raw) by (apply Hn; lia).
    destruct (IHk (set c i Raw) (S i)) as (c' & Hd & Hlen & Hg).
    + rewrite length_set; lia.
    + intros j Hj. rewrite get_set_other by lia. apply Hn; lia.
    + exists c'. rewrite length_set in Hlen.
      split; [destruct (get c i); auto; congruence|]. split; auto.
      intros j. rewrite Hg. rewrite get_set by lia.
      destruct (Nat.leb_spec (S i) j), (Nat.ltb_spec j (S i + k)), (Nat.leb_spec i j), (Nat.ltb_spec j (i + S k)),
        (Nat.eqb_spec j i); simpl; auto; lia.
Qed.

Lemma remove_back_ok (s : arr) count :
  count <= cnt s -> cnt s <= cap s -> (forall j, cnt s - count <= j < cnt s -> get (cells s) j <> Raw) ->
  exists c', remove_back V s count = Ok (mkArr c' (cnt s - count)) /\ length c' = cap s /\
    forall j, get c' j = if (cnt s - count <=? j) && (j <? cnt s) then Raw else get (cells s) j.
Proof.
  intros Hc Hcap Hn. unfold remove_back. destruct (Nat.leb_spec count (cnt s)); [|lia].
  destruct (destroy_ok count (cells s) (cnt s - count)) as (c' & Hd & Hl & Hg).
  - unfold cap in Hcap. lia.
  - intros j Hj. apply Hn. lia.
  - exists c'. rewrite Hd. simpl. split; auto. split; auto.
    intros j. rewrite Hg. replace (cnt s - count + count) with (cnt s) by lia. reflexivity.
Qed.

(* ================================================================== InsertNogrow *)
Section Insert.
(* what a "source" must satisfy: the k-th value is [vals k]; fetching may only touch cells below [index]
   (an aliased element in front of the insertion point), tracked by the predicate Q m on the prefix after m fetches *)
Variable src : source V.
Variable index count : nat.
Variable vals : nat -> option V.
Variable Q : nat -> list cell -> Prop.

Definition assign_hyp := forall m k dst (s : arr),
  m < count -> k < count -> index <= dst -> dst < cnt s -> get (cells s) dst <> Raw -> Q m (firstn index (cells s)) ->
  exists c', src_assign V src k dst s = Ok (mkArr c' (cnt s)) /\ length c' = length (cells s) /\
    (forall j, index <= j -> get c' j = if j =? dst then mcell (vals k) else get (cells s) j) /\
    Q (S m) (firstn index c').
Definition push_hyp := forall m k (s : arr),
  m < count -> k < count -> index <= cnt s -> cnt s < cap s -> get (cells s) (cnt s) = Raw -> Q m (firstn index (cells s)) ->
  exists c', src_push V src k s = Ok (mkArr c' (S (cnt s))) /\ length c' = length (cells s) /\
    (forall j, index <= j -> get c' j = if j =? cnt s then mcell (vals k) else get (cells s) j) /\
    Q (S m) (firstn index c').

Hypothesis Hassign : assign_hyp.
Hypothesis Hpush : push_hyp.

Variable s0 : arr.
Variable f : nat -> option V.
Let n := cnt s0.
Let C := cap s0.
Hypothesis Hindex : index <= n.
Hypothesis Hcap : n + count <= C.
Hypothesis Hpos : 0 < count.
Hypothesis Hlive : forall j, j < n -> get (cells s0) j = mcell (f j).
Hypothesis Hraw : forall j, n <= j -> get (cells s0) j = Raw.
Hypothesis HQ0 : Q 0 (firstn index (cells s0)).

Definition post (s : arr) : Prop :=
  cnt s = n + count /\ length (cells s) = C /\ Q count (firstn index (cells s)) /\
  (forall j, index <= j -> get (cells s) j =
     if j <? index + count then mcell (vals (j - index))
     else if j <? n + count then mcell (f (j - count)) else Raw).

Ltac cases :=
  repeat match goal with
  | |- context [?a <? ?b] => destruct (Nat.ltb_spec a b)
  | |- context [?a =? ?b] => destruct (Nat.eqb_spec a b)
  | |- context [?a <=? ?b] => destruct (Nat.leb_spec a b)
  end; simpl; try lia; try congruence; auto.

(* case A: index + count < initCount *)
Lemma insert_case_A :
  index + count < n ->
  exists s', insert_nogrow_gen V self_move after_move true src s0 index count = Ok s' /\ post s'.
Proof.
  intros HA. unfold insert_nogrow_gen. cbv zeta. fold n. fold C.
  destruct (Nat.leb_spec index n); [|lia]. destruct (Nat.leb_spec (n + count) C); [|lia].
  destruct (Nat.eqb_spec count 0); [lia|]. destruct (Nat.ltb_spec (index + count) n); [|lia]. simpl.
  (* loop 1 *)
  pose (I1 := fun i (s : arr) => cnt s = count + i /\ length (cells s) = C /\ firstn index (cells s) = firstn index (cells s0) /\
     forall j, index <= j -> get (cells s) j =
       if j <? n - count then mcell (f j) else if j <? i then src_after V after_move (f j)
       else if j <? n then mcell (f j) else if j <? i + count then mcell (f (j - count)) else Raw).
  destruct (for_up_inv I1 (fun i s => add_back_move_item V after_move s i) (n - count) n) with (fuel := S C) (i := n - count) (s := s0)
    as (s1 & -> & (Hc1 & Hl1 & Hp1 & Hg1)); try lia.
  { intros i s Hlo Hi (Hc & Hl & Hp & Hg).
    rewrite (add_back_move_item_ok s i (f i)).
    - eexists; split; [reflexivity|]. unfold I1; cbn [cells cnt]. rewrite !length_set. repeat split; try lia.
      + rewrite !firstn_set_ge by lia. auto.
      + intros j Hj. rewrite get_set by (rewrite length_set; lia). rewrite get_set by lia. rewrite Hg by auto. cases.
        f_equal. f_equal. lia.
    - lia.
    - rewrite Hg by lia. cases.
    - unfold cap. lia.
    - rewrite Hg by lia. cases. }
  { unfold I1. repeat split; auto; try (fold n; fold C; lia).
    intros j Hj. cases; first [apply Hlive; lia | apply Hraw; lia]. }
  simpl.
  (* loop 2 *)
  pose (I2 := fun i (s : arr) => cnt s = n + count /\ length (cells s) = C /\ firstn index (cells s) = firstn index (cells s0) /\
     (forall j, index <= j -> j < i -> get (cells s) j = mcell (f j)) /\
     (forall j, i <= j -> j < i + count -> get (cells s) j <> Raw) /\
     (forall j, i + count <= j -> get (cells s) j = if j <? n + count then mcell (f (j - count)) else Raw)).
  destruct (for_down_inv I2 (fun i s => move_assign_items V self_move after_move s (i - 1) (i + count - 1)) index (n - count))
    with (fuel := S C) (i := n - count) (s := s1) as (s2 & -> & (Hc2 & Hl2 & Hp2 & _ & Hn2 & Hg2)); try lia.
  { intros i s Hi Hhi (Hc & Hl & Hp & Hlo & Hmid & Hhigh).
    assert (Hlt : i + count - 1 < length (cells s)) by (apply get_not_raw_lt; apply Hmid; lia).
    rewrite (move_assign_items_ok s (i - 1) (i + count - 1) (f (i - 1))); try lia.
    - eexists; split; [reflexivity|]. unfold I2; cbn [cells cnt]. rewrite !length_set. repeat split; try lia.
      + rewrite !firstn_set_ge by lia. auto.
      + intros j Hj1 Hj2. rewrite !get_set_other by lia. apply Hlo; lia.
      + intros j Hj1 Hj2. rewrite get_set by (rewrite length_set; lia).
        destruct (Nat.eqb_spec j (i - 1)); [apply src_after_not_raw|].
        rewrite get_set by lia.
        destruct (Nat.eqb_spec j (i + count - 1)); [apply mcell_not_raw|]. apply Hmid; lia.
      + intros j Hj.
        rewrite get_set by (rewrite length_set; lia). rewrite get_set by lia.
        destruct (Nat.eqb_spec j (i - 1)); [lia|].
        destruct (Nat.eqb_spec j (i + count - 1)).
        * subst j. cases. f_equal. f_equal. lia.
        * apply Hhigh. lia.
    - apply Hlo; lia.
    - apply Hmid; lia. }
  { unfold I2. repeat split; auto; try lia.
    - intros j Hj1 Hj2. rewrite Hg1 by lia. cases.
    - intros j Hj1 Hj2. rewrite Hg1 by lia. cases; first [apply mcell_not_raw | apply src_after_not_raw].
    - intros j Hj. rewrite Hg1 by lia. cases. }
  simpl.
  (* loop 3 *)
  pose (I3 := fun i (s : arr) => cnt s = n + count /\ length (cells s) = C /\ Q (i - index) (firstn index (cells s)) /\
     (forall j, index <= j -> j < i -> get (cells s) j = mcell (vals (j - index))) /\
     (forall j, i <= j -> j < index + count -> get (cells s) j <> Raw) /\
     (forall j, index + count <= j -> get (cells s) j = if j <? n + count then mcell (f (j - count)) else Raw)).
  destruct (for_up_inv I3 (fun i s => src_assign V src (i - index) i s) index (index + count))
    with (fuel := S C) (i := index) (s := s2) as (s3 & -> & (Hc3 & Hl3 & HQ3 & Hlo3 & _ & Hhi3)); try lia.
  { intros i s Hge Hi (Hc & Hl & HQ & Hlo & Hmid & Hhigh).
    destruct (Hassign (i - index) (i - index) i s ltac:(lia) ltac:(lia) ltac:(lia) ltac:(lia) (Hmid i ltac:(lia) ltac:(lia)) HQ)
      as (c' & He & Hl' & Hg' & HQ').
    { rewrite He. eexists; split; [reflexivity|]. unfold I3; cbn [cells cnt]. repeat split; try lia.
      + replace (S i - index) with (S (i - index)) by lia. auto.
      + intros j Hj1 Hj2. rewrite Hg' by lia. destruct (Nat.eqb_spec j i); [subst; auto|]. apply Hlo; lia.
      + intros j Hj1 Hj2. rewrite Hg' by lia. destruct (Nat.eqb_spec j i); [lia|]. apply Hmid; lia.
      + intros j Hj. rewrite Hg' by lia. destruct (Nat.eqb_spec j i); [lia|]. apply Hhigh; lia. } }
  { unfold I3. repeat split; auto; try lia; try (intros j Hj1 Hj2; apply Hn2; lia).
    rewrite Nat.sub_diag. rewrite Hp2. auto. }
  eexists; split; [reflexivity|]. unfold post. repeat split; auto.
  - replace (index + count - index) with count in HQ3 by lia. auto.
  - intros j Hj. cases; first [apply Hlo3; lia | rewrite Hhi3 by lia; cases].
Qed.

(* case B: index + count >= initCount *)
Lemma insert_case_B :
  n <= index + count ->
  exists s', insert_nogrow_gen V self_move after_move true src s0 index count = Ok s' /\ post s'.
Proof.
  intros HB. unfold insert_nogrow_gen. cbv zeta. fold n. fold C.
  destruct (Nat.leb_spec index n); [|lia]. destruct (Nat.leb_spec (n + count) C); [|lia].
  destruct (Nat.eqb_spec count 0); [lia|]. destruct (Nat.ltb_spec (index + count) n); [lia|]. simpl.
  pose (I1 := fun i (s : arr) => cnt s = i /\ length (cells s) = C /\ Q (i - n) (firstn index (cells s)) /\
     forall j, index <= j -> get (cells s) j =
       if j <? n then mcell (f j) else if j <? i then mcell (vals (j - index)) else Raw).
  destruct (for_up_inv I1 (fun i s => src_push V src (i - index) s) n (index + count)) with (fuel := S C) (i := n) (s := s0)
    as (s1 & -> & (Hc1 & Hl1 & HQ1 & Hg1)); try lia.
  { intros i s Hge Hi (Hc & Hl & HQ & Hg).
    assert (Hr : get (cells s) (cnt s) = Raw) by (rewrite Hg by lia; cases).
    destruct (Hpush (i - n) (i - index) s ltac:(lia) ltac:(lia) ltac:(lia) ltac:(unfold cap; lia) Hr HQ) as (c' & He & Hl' & Hg' & HQ').
    { rewrite He, Hc. eexists; split; [reflexivity|]. unfold I1; cbn [cells cnt]. repeat split; try lia.
      + replace (S i - n) with (S (i - n)) by lia. auto.
      + intros j Hj. rewrite Hg' by lia. rewrite Hc. rewrite Hg by lia. cases. } }
  { unfold I1. repeat split; auto; try (fold n; fold C; lia).
    - rewrite Nat.sub_diag. auto.
    - intros j Hj. cases; first [apply Hlive; lia | apply Hraw; lia]. }
  simpl.
  pose (I2 := fun i (s : arr) => cnt s = count + i /\ length (cells s) = C /\
     Q ((index + count - n) + (i - index)) (firstn index (cells s)) /\
     forall j, index <= j -> get (cells s) j =
       if j <? i then mcell (vals (j - index)) else if j <? n then mcell (f j)
       else if j <? index + count then mcell (vals (j - index))
       else if j <? i + count then mcell (f (j - count)) else Raw).
  destruct (for_up_inv I2 (fun i s => s' <- add_back_move_item V after_move s i ;; src_assign V src (i - index) i s') index n)
    with (fuel := S C) (i := index) (s := s1) as (s2 & -> & (Hc2 & Hl2 & HQ2 & Hg2)); try lia.
  { intros i s Hge Hi (Hc & Hl & HQ & Hg).
    assert (Hsrc : get (cells s) i = mcell (f i)) by (rewrite Hg by lia; cases).
    assert (Hr : get (cells s) (cnt s) = Raw) by (rewrite Hg by lia; cases).
    rewrite (add_back_move_item_ok s i (f i) ltac:(lia) Hsrc ltac:(unfold cap; lia) Hr). simpl.
    set (s' := mkArr (set (set (cells s) (cnt s) (mcell (f i))) i (src_after V after_move (f i))) (S (cnt s))).
    assert (Hd : get (cells s') i <> Raw).
    { unfold s'; simpl. rewrite get_set by (rewrite length_set; lia). rewrite Nat.eqb_refl. apply src_after_not_raw. }
    assert (HQs : Q ((index + count - n) + (i - index)) (firstn index (cells s'))).
    { unfold s'; simpl. rewrite !firstn_set_ge by lia. auto. }
    destruct (Hassign ((index + count - n) + (i - index)) (i - index) i s' ltac:(lia) ltac:(lia) ltac:(lia) ltac:(unfold s'; simpl; lia) Hd HQs) as (c' & He & Hl' & Hg' & HQ').
    rewrite He. eexists; split; [reflexivity|]. unfold I2; cbn [cells cnt].
    unfold s' in Hl', Hg'; simpl in Hl', Hg'. rewrite !length_set in Hl'. repeat split; try lia; try (unfold s'; simpl; lia).
    * replace (index + count - n + (S i - index)) with (S (index + count - n + (i - index))) by lia. auto.
    * intros j Hj. rewrite Hg' by lia.
      rewrite get_set by (rewrite length_set; lia). rewrite get_set by lia. rewrite Hg by lia. cases.
      f_equal. f_equal. lia. }
  { unfold I2. repeat split; auto; try lia.
    - rewrite Nat.sub_diag, Nat.add_0_r. auto.
    - intros j Hj. rewrite Hg1 by lia. cases. }
  eexists; split; [reflexivity|]. unfold post. repeat split; auto; try lia.
  - replace (index + count - n + (n - index)) with count in HQ2 by lia. auto.
  - intros j Hj. rewrite Hg2 by lia. cases.
Qed.

Lemma insert_nogrow_gen_post :
  exists s', insert_nogrow_gen V self_move after_move true src s0 index count = Ok s' /\ post s'.
Proof.
  destruct (Nat.lt_ge_cases (index + count) n); [apply insert_case_A | apply insert_case_B]; auto.
Qed.
End Insert.

(* ================================================================== list-level statements *)
(* elements are `option V`: Some v = an object holding v, None = a moved-from object *)
Lemma get_ext (a b : list cell) : length a = length b -> (forall j, get a j = get b j) -> a = b.
Proof. intros Hl H. apply (nth_ext _ _ Raw Raw); auto. intros j _. apply H. Qed.

Lemma get_firstn (c : list cell) k j : j < k -> get (firstn k c) j = get c j.
Proof. intros. unfold get. apply nth_firstn_lt; auto. Qed.

Lemma length_lives_raws (l : list V) r : length (lives l ++ raws r) = length l + r.
Proof. unfold lives, raws. rewrite app_length, map_length, repeat_length. reflexivity. Qed.

Lemma length_objs_raws (l : list (option V)) r : length (objs l ++ raws r) = length l + r.
Proof. unfold objs, raws. rewrite app_length, map_length, repeat_length. reflexivity. Qed.

Lemma get_objs_raws (l : list (option V)) r j :
  get (objs l ++ raws r) j = if j <? length l then mcell (nth j l None) else Raw.
Proof.
  unfold get, objs, raws. destruct (Nat.ltb_spec j (length l)).
  - rewrite app_nth1 by (rewrite map_length; auto).
    rewrite (nth_indep _ Raw (mcell None)) by (rewrite map_length; auto). apply map_nth.
  - rewrite app_nth2 by (rewrite map_length; auto). apply nth_repeat.
Qed.

Lemma lives_objs (l : list V) : lives l = objs (map Some l).
Proof. unfold lives, objs. rewrite map_map. reflexivity. Qed.

(* an all-live array is the special case map Some *)
Lemma arr_of_arr_ofo (l : list V) r : arr_of l r = arr_ofo (map Some l) r.
Proof. unfold arr_of, arr_ofo. rewrite lives_objs, map_length. reflexivity. Qed.

Lemma nth_spec {A} (l mid : list A) index j d :
  index <= length l ->
  nth j (firstn index l ++ mid ++ skipn index l) d =
    if j <? index then nth j l d else if j <? index + length mid then nth (j - index) mid d else nth (j - length mid) l d.
Proof.
  intros Hi. assert (Hf : length (firstn index l) = index) by (rewrite firstn_length; lia).
  destruct (Nat.ltb_spec j index).
  - rewrite app_nth1 by lia. revert Hi H. clear. revert index j. induction l; intros index j Hi H; destruct index, j; simpl in *; auto; try lia. apply IHl; lia.
  - rewrite app_nth2 by lia. rewrite Hf. destruct (Nat.ltb_spec j (index + length mid)).
    + rewrite app_nth1 by lia. reflexivity.
    + rewrite app_nth2 by lia. revert Hi H H0. clear. intros.
      assert (Hs : forall (l : list A) m k, nth k (skipn m l) d = nth (m + k) l d).
      { induction l0; intros m k; destruct m; simpl; auto. destruct k; auto. }
      rewrite Hs. f_equal. lia.
Qed.

Lemma length_spec {A} (l mid : list A) index : index <= length l ->
  length (firstn index l ++ mid ++ skipn index l) = length l + length mid.
Proof. intros. rewrite !app_length, firstn_length, skipn_length. lia. Qed.

(* from the pointwise post-condition to the list equality *)
Lemma insert_finish (l mid : list (option V)) r index (c' : list cell) :
  index <= length l -> length mid <= r ->
  length c' = length l + r ->
  (forall j, j < index -> get c' j = mcell (nth j l None)) ->
  (forall j, index <= j -> get c' j =
     if j <? index + length mid then mcell (nth (j - index) mid None)
     else if j <? length l + length mid then mcell (nth (j - length mid) l None) else Raw) ->
  c' = objs (firstn index l ++ mid ++ skipn index l) ++ raws (r - length mid).
Proof.
  intros Hi Hm Hl Hlo Hhi. apply get_ext.
  - rewrite length_objs_raws, length_spec by auto. lia.
  - intros j. rewrite get_objs_raws, length_spec, nth_spec by auto.
    destruct (Nat.ltb_spec j index).
    + rewrite Hlo by auto. destruct (Nat.ltb_spec j (length l + length mid)); [auto|lia].
    + rewrite Hhi by auto.
      destruct (Nat.ltb_spec j (index + length mid)), (Nat.ltb_spec j (length l + length mid)); auto; lia.
Qed.

Lemma arr_ofo_pre (l : list (option V)) r :
  let s0 := arr_ofo l r in
  cnt s0 = length l /\ cap s0 = length l + r /\
  (forall j, j < length l -> get (cells s0) j = mcell (nth j l None)) /\
  (forall j, length l <= j -> get (cells s0) j = Raw).
Proof.
  simpl. unfold cap; simpl. rewrite length_objs_raws. repeat split; auto.
  - intros j Hj. rewrite get_objs_raws. destruct (Nat.ltb_spec j (length l)); [auto|lia].
  - intros j Hj. rewrite get_objs_raws. destruct (Nat.ltb_spec j (length l)); [lia|auto].
Qed.

Lemma arr_of_pre (l : list V) r d :
  let s0 := arr_of l r in
  cnt s0 = length l /\ cap s0 = length l + r /\
  (forall j, j < length l -> get (cells s0) j = Live (nth j l d)) /\
  (forall j, length l <= j -> get (cells s0) j = Raw).
Proof.
  simpl. unfold cap; simpl. rewrite length_lives_raws. repeat split; auto.
  - intros j Hj. rewrite (get_lives_raws _ _ _ d). destruct (Nat.ltb_spec j (length l)); [auto|lia].
  - intros j Hj. rewrite (get_lives_raws _ _ _ d). destruct (Nat.ltb_spec j (length l)); [lia|auto].
Qed.

Lemma obj_at_mcell (c : list cell) i o : get c i = mcell o -> obj_at V c i = Ok o.
Proof. intros H. unfold obj_at. rewrite H. destruct o; reflexivity. Qed.

(* an argument ArrayShifter may be handed: a temporary / external value, or an element in FRONT of the insertion
   point (Array::Insert copies every other aliased element into an ArrayItemHandler first) *)
Definition arg_ok (index : nat) (x : arg V) : Prop := match x with ArgVal _ => True | ArgRef p => p < index end.
Definition arg_val (l : list (option V)) (x : arg V) : option V :=
  match x with ArgVal v => Some v | ArgRef p => nth p l None end.

Lemma read_arg_prefix (s s0 : arr) index (l : list (option V)) x :
  arg_ok index x -> index <= length l ->
  firstn index (cells s) = firstn index (cells s0) ->
  (forall j, j < length l -> get (cells s0) j = mcell (nth j l None)) ->
  read_arg V s x = Ok (arg_val l x).
Proof.
  intros Hx Hi Hp Hl. destruct x as [v|p]; simpl; auto. simpl in Hx. apply obj_at_mcell.
  rewrite <- (get_firstn (cells s) index p) by auto. rewrite Hp. rewrite get_firstn by auto.
  apply Hl. lia.
Qed.

(* sources that only read and always deliver the same objects [vals k] while the prefix below index is untouched *)
Lemma pure_source_hyps (src : source V) (s0 : arr) index count (vals : nat -> option V) :
  (forall k dst s, k < count -> firstn index (cells s) = firstn index (cells s0) ->
     src_assign V src k dst s = assign_val V s (vals k) dst) ->
  (forall k s, k < count -> firstn index (cells s) = firstn index (cells s0) ->
     src_push V src k s = add_back_ctor V s (vals k)) ->
  assign_hyp src index count vals (fun _ p => p = firstn index (cells s0)) /\
  push_hyp src index count vals (fun _ p => p = firstn index (cells s0)).
Proof.
  intros Ha Hp. split.
  - intros m k dst s Hm Hk Hd1 Hd2 Hd3 HQ.
    rewrite Ha by auto. rewrite assign_val_ok by auto. unfold upd.
    assert (dst < length (cells s)) by (apply get_not_raw_lt; auto).
    eexists; split; [reflexivity|]. rewrite length_set. repeat split; auto.
    + intros j Hj. apply get_set; auto.
    + rewrite firstn_set_ge by auto. auto.
  - intros m k s Hm Hk Hc1 Hc2 Hr HQ.
    rewrite Hp by auto. rewrite add_back_ctor_ok by auto.
    eexists; split; [reflexivity|]. rewrite length_set. repeat split; auto.
    + intros j Hj. apply get_set; auto.
    + rewrite firstn_set_ge by auto. auto.
Qed.

Lemma insert_pure_refines (src : source V) (l : list (option V)) r index (mid : list (option V)) :
  index <= length l -> length mid <= r -> 0 < length mid ->
  (forall k dst s, k < length mid -> firstn index (cells s) = firstn index (cells (arr_ofo l r)) ->
     src_assign V src k dst s = assign_val V s (nth k mid None) dst) ->
  (forall k s, k < length mid -> firstn index (cells s) = firstn index (cells (arr_ofo l r)) ->
     src_push V src k s = add_back_ctor V s (nth k mid None)) ->
  insert_nogrow_gen V self_move after_move true src (arr_ofo l r) index (length mid) =
    Ok (arr_ofo (firstn index l ++ mid ++ skipn index l) (r - length mid)).
Proof.
  intros Hi Hm Hpos Ha Hp.
  destruct (arr_ofo_pre l r) as (Hc & Hcap & Hlive & Hraw).
  destruct (pure_source_hyps src (arr_ofo l r) index (length mid) (fun k => nth k mid None) Ha Hp) as (HA & HP).
  destruct (insert_nogrow_gen_post src index (length mid) _ _ HA HP (arr_ofo l r) (fun j => nth j l None))
    as (s' & -> & (Hc' & Hl' & HQ' & Hg')); try (rewrite ?Hc, ?Hcap; lia); auto.
  f_equal. destruct s' as [c' n']. simpl in *. unfold arr_ofo. rewrite length_spec by auto. f_equal; [|lia].
  unfold cap in Hcap; simpl in Hcap. rewrite length_objs_raws in *.
  apply (insert_finish l mid r index c'); auto; try lia.
  - rewrite Hl'. unfold cap, arr_ofo; simpl. apply length_objs_raws.
  - intros j Hj. rewrite <- (get_firstn c' index j) by auto. rewrite HQ'. rewrite get_firstn by auto. apply Hlive; lia.
Qed.

Lemma insert_count0_arr_ofo (src : source V) (l : list (option V)) r index :
  index <= length l ->
  insert_nogrow_gen V self_move after_move true src (arr_ofo l r) index 0 =
    Ok (arr_ofo (firstn index l ++ [] ++ skipn index l) (r - 0)).
Proof.
  intros Hi. unfold insert_nogrow_gen. simpl. unfold cap; simpl. rewrite length_objs_raws.
  destruct (Nat.leb_spec index (length l)); [|lia]. destruct (Nat.leb_spec (length l + 0) (length l + r)); [|lia].
  simpl. rewrite firstn_skipn, Nat.sub_0_r. reflexivity.
Qed.

(* an object outside the array (a temporary / external value) as the source of count copies *)
Theorem insert_const_refines (src : source V) (l : list (option V)) r index count (o : option V) :
  index <= length l -> count <= r ->
  (forall k dst s, src_assign V src k dst s = assign_val V s o dst) ->
  (forall k s, src_push V src k s = add_back_ctor V s o) ->
  insert_nogrow_gen V self_move after_move true src (arr_ofo l r) index count =
    Ok (arr_ofo (firstn index l ++ repeat o count ++ skipn index l) (r - count)).
Proof.
  intros Hi Hc Ha Hp. destruct (Nat.eq_dec count 0) as [->|Hne].
  - apply insert_count0_arr_ofo; auto.
  - pose proof (insert_pure_refines src l r index (repeat o count)) as H.
    rewrite repeat_length in H. apply H; auto; try lia.
    + intros k dst s Hk _. rewrite Ha. f_equal. symmetry. apply nth_error_nth. rewrite nth_error_repeat; auto.
    + intros k s Hk _. rewrite Hp. f_equal. symmetry. apply nth_error_nth. rewrite nth_error_repeat; auto.
Qed.

(* ---- InsertNogrow(array, index, count, const Item& item) ---- *)
Theorem insert_copies_refines (l : list (option V)) r index count (x : arg V) :
  index <= length l -> count <= r -> arg_ok index x ->
  insert_nogrow_copies V self_move after_move true (arr_ofo l r) index count x =
    Ok (arr_ofo (firstn index l ++ repeat (arg_val l x) count ++ skipn index l) (r - count)).
Proof.
  intros Hi Hc Hx. unfold insert_nogrow_copies.
  destruct (arr_ofo_pre l r) as (_ & _ & Hlive & _).
  destruct (Nat.eq_dec count 0) as [->|Hne].
  - apply insert_count0_arr_ofo; auto.
  - pose proof (insert_pure_refines (source_copies V x) l r index (repeat (arg_val l x) count)) as H.
    rewrite repeat_length in H.
    assert (Hn : forall k, k < count -> nth k (repeat (arg_val l x) count) None = arg_val l x).
    { intros k Hk. apply nth_error_nth. rewrite nth_error_repeat; auto. }
    apply H; auto; try lia.
    + intros k dst s Hk Hpre. simpl. rewrite (read_arg_prefix s (arr_ofo l r) index l) by auto. simpl. rewrite Hn; auto.
    + intros k s Hk Hpre. simpl. rewrite (read_arg_prefix s (arr_ofo l r) index l) by auto. simpl. rewrite Hn; auto.
Qed.

(* ---- InsertNogrow(array, index, begin, count) over a forward range ---- *)
Theorem insert_range_refines (l : list (option V)) r index (xs : list (arg V)) :
  index <= length l -> length xs <= r -> Forall (arg_ok index) xs ->
  insert_nogrow_range V self_move after_move true (arr_ofo l r) index xs =
    Ok (arr_ofo (firstn index l ++ map (arg_val l) xs ++ skipn index l) (r - length xs)).
Proof.
  intros Hi Hc Hx. unfold insert_nogrow_range.
  destruct (arr_ofo_pre l r) as (_ & _ & Hlive & _).
  destruct xs as [|x0 xs'].
  - apply insert_count0_arr_ofo; auto.
  - set (xs := x0 :: xs') in *.
    pose proof (insert_pure_refines (source_range V xs) l r index (map (arg_val l) xs)) as H.
    rewrite map_length in H.
    assert (Hn : forall k, k < length xs -> nth k (map (arg_val l) xs) None = arg_val l (nth k xs x0)).
    { intros k Hk. rewrite (nth_indep _ None (arg_val l x0)) by (rewrite map_length; auto). apply map_nth. }
    assert (Hok : forall k, k < length xs -> arg_ok index (nth k xs x0)).
    { intros k Hk. rewrite Forall_forall in Hx. apply Hx. apply nth_In; auto. }
    apply H; auto; try (unfold xs; simpl; lia).
    + intros k dst s Hk Hpre. unfold source_range; cbn [src_assign]. rewrite (nth_error_nth' xs x0) by auto.
      rewrite (read_arg_prefix s (arr_ofo l r) index l) by auto. cbn [bind]. rewrite Hn; auto.
    + intros k s Hk Hpre. unfold source_range; cbn [src_push]. rewrite (nth_error_nth' xs x0) by auto.
      rewrite (read_arg_prefix s (arr_ofo l r) index l) by auto. cbn [bind]. rewrite Hn; auto.
Qed.

(* ================================================================== Remove(index, count) *)
Ltac cases2 :=
  repeat match goal with
  | |- context [?a <? ?b] => destruct (Nat.ltb_spec a b)
  | |- context [?a =? ?b] => destruct (Nat.eqb_spec a b)
  | |- context [?a <=? ?b] => destruct (Nat.leb_spec a b)
  end; simpl; try lia; try congruence; auto.

Theorem remove_refines (l : list (option V)) r index count :
  index + count <= length l ->
  remove_range V self_move after_move true (arr_ofo l r) index count =
    Ok (arr_ofo (firstn index l ++ skipn (index + count) l) (r + count)).
Proof.
  intros Hic. unfold remove_range. cbv zeta.
  replace (cnt (arr_ofo l r)) with (length l) by reflexivity.
  destruct (Nat.leb_spec (index + count) (length l)); [|lia]. cbn [negb].
  destruct (Nat.eqb_spec count 0) as [->|Hne]; cbn [andb].
  { rewrite !Nat.add_0_r, firstn_skipn. reflexivity. }
  destruct (arr_ofo_pre l r) as (Hc & Hcap & Hlive & Hraw). remember (length l) as n eqn:Heqn.
  pose (f := fun j => nth j l None).
  pose (I := fun i (s : arr) => cnt s = n /\ length (cells s) = n + r /\
     (forall j, j < index -> get (cells s) j = mcell (f j)) /\
     (forall j, index <= j -> j < i - count -> get (cells s) j = mcell (f (j + count))) /\
     (forall j, i - count <= j -> j < i -> get (cells s) j <> Raw) /\
     (forall j, i <= j -> get (cells s) j = if j <? n then mcell (f j) else Raw)).
  destruct (for_up_inv I (fun i s => move_assign_items V self_move after_move s i (i - count)) (index + count) n)
    with (fuel := S (cap (arr_ofo l r))) (i := index + count) (s := arr_ofo l r)
    as (s1 & -> & (Hc1 & Hl1 & Hlo1 & Hmid1 & Hn1 & Hhi1)); try (rewrite ?Hcap; lia).
  { intros i s Hlo Hi (Hcs & Hls & H1 & H2 & H3 & H4).
    assert (Hsrc : get (cells s) i = mcell (f i)) by (rewrite H4 by lia; cases2).
    assert (Hdst : get (cells s) (i - count) <> Raw) by (apply H3; lia).
    rewrite (move_assign_items_ok s i (i - count) (f i)); try lia; auto.
    eexists; split; [reflexivity|]. unfold I; cbn [cells cnt]. rewrite !length_set. repeat split; auto.
    - intros j Hj. rewrite !get_set_other by lia. auto.
    - intros j Hj1 Hj2. rewrite get_set by (rewrite length_set; lia). rewrite get_set by lia.
      destruct (Nat.eqb_spec j i); [lia|]. destruct (Nat.eqb_spec j (i - count)).
      + subst j. f_equal. f_equal. lia.
      + apply H2; lia.
    - intros j Hj1 Hj2. rewrite get_set by (rewrite length_set; lia).
      destruct (Nat.eqb_spec j i); [apply src_after_not_raw|]. rewrite get_set_other by lia. apply H3; lia.
    - intros j Hj. rewrite !get_set_other by lia. apply H4; lia. }
  { unfold I. split; [exact Hc|]. split; [unfold arr_ofo; cbn [cells]; rewrite length_objs_raws, <- Heqn; reflexivity|].
    split; [intros j Hj; apply Hlive; lia|]. split; [intros j Hj1 Hj2; lia|].
    split; [intros j Hj1 Hj2; rewrite Hlive by lia; apply mcell_not_raw|].
    intros j Hj. cases2; first [apply Hlive; lia | apply Hraw; lia]. }
  simpl.
  destruct (remove_back_ok s1 count) as (c' & -> & Hl' & Hg'); try (unfold cap; lia).
  { intros j Hj. apply Hn1; lia. }
  f_equal. unfold arr_ofo. rewrite Hc1.
  assert (Hlen : length (firstn index l ++ skipn (index + count) l) = n - count).
  { rewrite app_length, firstn_length, skipn_length. lia. }
  rewrite Hlen. f_equal.
  apply get_ext.
  - rewrite length_objs_raws, Hlen, Hl'. unfold cap. lia.
  - intros j. rewrite Hg', Hc1. rewrite get_objs_raws, Hlen.
    destruct (Nat.ltb_spec j (n - count)).
    + destruct (Nat.leb_spec (n - count) j); [lia|]. simpl.
      destruct (Nat.lt_ge_cases j index).
      * rewrite Hlo1 by auto. unfold f. f_equal. rewrite app_nth1 by (rewrite firstn_length; lia).
        symmetry. apply nth_firstn_lt; auto.
      * rewrite Hmid1 by lia. unfold f. f_equal. rewrite app_nth2 by (rewrite firstn_length; lia).
        rewrite firstn_length. replace (Nat.min index (length l)) with index by lia.
        rewrite nth_skipn_. f_equal. lia.
    + destruct (Nat.leb_spec (n - count) j); [|lia]. destruct (Nat.ltb_spec j n); simpl; auto.
      rewrite Hhi1 by lia. cases2.
Qed.

(* ================================================================== empty ranges change nothing *)
Theorem insert_count0_is_identity (src : source V) (s : arr) index :
  index <= cnt s -> cnt s <= cap s ->
  insert_nogrow_gen V self_move after_move true src s index 0 = Ok s.
Proof.
  intros Hi Hc. unfold insert_nogrow_gen. cbv zeta.
  destruct (Nat.leb_spec index (cnt s)); [|lia]. destruct (Nat.leb_spec (cnt s + 0) (cap s)); [|lia]. reflexivity.
Qed.

Theorem remove_count0_is_identity (s : arr) index :
  index <= cnt s -> remove_range V self_move after_move true s index 0 = Ok s.
Proof.
  intros Hi. unfold remove_range. cbv zeta. destruct (Nat.leb_spec (index + 0) (cnt s)); [|lia]. reflexivity.
Qed.

End Proofs.

(* ================================================================== the pre-fix code shape is refuted (non-vacuity / mutant) *)
(* before 62f9657 there was no `if (count == 0) return;`: an empty insert / remove in the middle of an array of
   self-move-hostile elements (self_move = None) destroys the tail *)
Example insert_count0_refuted :
  exists (l : list nat) (index : nat), index <= length l /\
    insert_nogrow_copies nat (fun _ => None) (fun _ => None) false (arr_of l 2) index 0 (ArgVal 7) <> Ok (arr_of l 2) /\
    insert_nogrow_copies nat (fun _ => None) (fun _ => None) true (arr_of l 2) index 0 (ArgVal 7) = Ok (arr_of l 2).
Proof. exists [1;2;3], 1. split; [simpl; lia|]. split; vm_compute; [discriminate|reflexivity]. Qed.

Example remove_count0_refuted :
  exists (l : list nat) (index : nat), index <= length l /\
    remove_range nat (fun _ => None) (fun _ => None) false (arr_of l 0) index 0 <> Ok (arr_of l 0) /\
    remove_range nat (fun _ => None) (fun _ => None) true (arr_of l 0) index 0 = Ok (arr_of l 0).
Proof. exists [1;2;3], 1. split; [simpl; lia|]. split; vm_compute; [discriminate|reflexivity]. Qed.

(* ... and for self-move-safe elements (self_move = Some) the old shape was harmless: the defect needs a hostile type *)
Example insert_count0_prefix_ok_for_safe_types :
  insert_nogrow_copies nat (fun v => Some v) (fun _ => None) false (arr_of [1;2;3] 2) 1 0 (ArgVal 7) = Ok (arr_of [1;2;3] 2).
Proof. vm_compute. reflexivity. Qed.

Example insert_example :
  insert_nogrow_copies nat (fun _ => None) (fun _ => None) true (arr_of [10;11;12;13;14] 3) 1 2 (ArgRef 0)
  = Ok (arr_of [10;10;10;11;12;13;14] 1).
Proof. vm_compute. reflexivity. Qed.
