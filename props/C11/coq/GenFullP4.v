(* C11 -- the room test and the WasFull flag of the LimP4 and One buckets, on GENERATED code.
   Gen_P4 / Gen_P4A (BucketLimP4<.., 4, .., true>: pvGetCount, IsFull, WasFull, pvGetMemPoolIndex, AddCrt with all five
   branches, Remove, Clear) and Gen_One (BucketOne: IsFull, WasFull, AddCrt, Remove, Clear) are regenerated from the headers
   on every run; Bits / Known / P4_Model / P4_Slot / P4_Bucket / P4A_Refine are copied from props/C12.
   Here: the abstraction relation between the real bucket's bytes (+ pointer state) and the hand model's bucket
   {items; wasFull}, its preservation by the generated AddCrt / Remove / Clear -- including the model's WasFull rule
   `wasFull' = wasFull || (maxCount <= count')` and "Remove keeps WasFull" -- and the lifting of the "Hash table is full"
   clause to the generated IsFull of every bucket. *)
From Coq Require Import ZArith List Lia Bool.
From MomoCommon Require Import GenPrelude.
From C11 Require Import GrowModel.
From C11 Require Gen_P4 Gen_P4A Gen_One P4_Model P4_Slot P4_Bucket P4A_Refine.
Import ListNotations.
Local Open Scope Z_scope.

Section P4Tie.
  Variable B : Type.
  Variable H : Z.                 (* hashCount: 4 (64 useful pointer bits) .. 8 *)
  Hypothesis HH : 4 <= H <= 8.

  (* the real bucket: metadata bytes s, item pointer ptr, pointer state stt (memory-pool index - 1) *)
  Definition rel_p4 (s : Z -> Z) (ptr stt : Z) (b : bucket B) : Prop :=
    exists sh bv, P4_Bucket.p4_inv H s (blen B b) sh bv /\ (forall i, 0 <= i < blen B b -> 128 <= bv i < 256) /\
      0 <= stt < 4 /\ blen B b <= stt + 1 /\ (ptr = 0 <-> blen B b = 0) /\ (blen B b = 0 -> stt + 1 = 2 \/ stt + 1 = 4) /\
      wasFull B b = (stt + 1 =? 4).

  Lemma p4_isfull_cnt : forall s c sh bv, P4_Bucket.p4_inv H s c sh bv -> Gen_P4.IsFull s = (4 <=? c).
  Proof.
    intros s c sh bv (Hc & Hr & Hs & He & _). unfold Gen_P4.IsFull, Gen_P4.maxCount, Gen_P4.maskEmpty.
    change (wrapU 64 (4 - 1)) with 3.
    destruct (Z.leb_spec 4 c).
    - assert (c = 4) by lia. subst c. destruct (Hs 3 ltac:(lia)) as (E & R). apply Z.ltb_lt. lia.
    - apply Z.ltb_ge. apply He. lia.
  Qed.

  (* generated IsFull / WasFull agree with the model bucket *)
  Lemma p4_full_agrees : forall s ptr stt b, rel_p4 s ptr stt b ->
    Gen_P4A.IsFull s ptr stt = isFull B 4 b /\ Gen_P4A.WasFull s ptr stt = wasFull B b.
  Proof.
    intros s ptr stt b (sh & bv & I & _ & St & _ & _ & _ & W). split.
    - destruct (P4A_Refine.p4a_same_leaves H s ptr stt) as (_ & _ & _ & E). rewrite E. unfold isFull. eapply p4_isfull_cnt; eauto.
    - rewrite P4A_Refine.p4a_wasfull by auto. auto.
  Qed.

  (* generated AddCrt (any of its five branches, any memory it receives): one more item, WasFull by the model's rule *)
  Lemma p4_add : forall s ptr stt b k x L probe m0a m0b m1a m1b m2a m2b m3a m3b m4a m4b,
    rel_p4 s ptr stt b -> isFull B 4 b = false -> 0 <= x < 2 ^ 64 -> 0 <= L <= 63 -> 0 <= probe < 2 ^ 64 ->
    m0a <> 0 -> m1a <> 0 -> m2a <> 0 -> m3a <> 0 -> m4a <> 0 ->
    exists r s' ptr' stt',
      Gen_P4A.AddCrt H 2 s ptr stt x L probe m0a m0b m1a m1b m2a m2b m3a m3b m4a m4b = Ok (r, s', ptr', stt') /\
      rel_p4 s' ptr' stt' (mkB B (items B b ++ [k]) (wasFull B b || (4 <=? Z.of_nat (length (items B b ++ [k])))) (bound B b)).
  Proof.
    intros s ptr stt b k x L probe m0a m0b m1a m1b m2a m2b m3a m3b m4a m4b (sh & bv & I & BV & St & Le & Nu & Em & W) NF Hx HL Hp N0 N1 N2 N3 N4.
    unfold isFull in NF. apply Z.leb_gt in NF. set (c := blen B b) in *.
    pose proof (P4_Bucket.p4_count_inv H s c sh bv ltac:(lia) I) as HC.
    assert (Hc0 : 0 <= c) by (unfold c, blen; lia).
    destruct (P4A_Refine.p4a_addcrt_refines H 2 s ptr stt x L probe m0a m0b m1a m1b m2a m2b m3a m3b m4a m4b St eq_refl
                ltac:(rewrite HC; lia) ltac:(rewrite HC; lia) ltac:(rewrite HC; auto) ltac:(rewrite HC; auto))
      as (r & s' & ptr' & stt' & EA & EP & ES & St' & PT).
    destruct (P4_Bucket.p4_add_inv H s c sh bv x L probe HH Hx HL Hp I NF) as (s2 & EP2 & I2).
    rewrite EP in EP2. inversion EP2; subst s2. rewrite HC in ES.
    exists r, s', ptr', stt'. split; auto.
    assert (BL : blen B (mkB B (items B b ++ [k]) (wasFull B b || (4 <=? Z.of_nat (length (items B b ++ [k])))) (bound B b)) = c + 1).
    { unfold blen, c; simpl. rewrite app_length. simpl. unfold blen. lia. }
    unfold rel_p4. rewrite BL.
    exists (upd sh c (Gen_P4.pvCalcShortHash x)), (upd bv c (P4_Slot.p4_byte x L probe)).
    split; [exact I2|]. split.
    { intros i Hi. unfold upd. destruct (Z.eqb_spec i c); [apply P4_Slot.p4_byte_range; lia|apply BV; lia]. }
    split; [exact St'|].
    assert (M : stt' + 1 = (if c =? 0 then stt + 1 else if c =? stt + 1 then stt + 2 else stt + 1)).
    { rewrite ES. destruct (c =? 0); auto. destruct (c =? stt + 1); lia. }
    split; [destruct (Z.eqb_spec c 0); [lia|destruct (Z.eqb_spec c (stt + 1)); lia]|].
    split.
    { split; [|lia]. intros P0. exfalso. destruct PT as [E|[E|[E|[E|[E|E]]]]]; try congruence.
      subst ptr'. assert (c = 0) by (apply Nu; auto).
      (* ptr' = ptr = 0 with c = 0: the empty-bucket branches always install fresh memory *)
      unfold Gen_P4A.AddCrt in EA. rewrite P0 in EA. rewrite Z.eqb_refl in EA.
      rewrite P4A_Refine.p4a_mpi in EA by auto.
      destruct (Em H0) as [E2|E2]; rewrite E2 in EA; simpl in EA.
      - inversion EA; congruence.
      - inversion EA; congruence. }
    split; [intros; lia|].
    simpl wasFull. rewrite app_length. simpl length. rewrite W.
    replace (Z.of_nat (length (items B b) + 1)) with (c + 1) by (unfold c, blen; lia).
    rewrite M. destruct (Z.eqb_spec c 0).
    - destruct (Z.leb_spec 4 (c + 1)); [lia|]. rewrite orb_false_r. auto.
    - destruct (Z.eqb_spec c (stt + 1)).
      + replace (stt + 1 =? 4) with false by (symmetry; apply Z.eqb_neq; lia). simpl.
        destruct (Z.leb_spec 4 (c + 1)); destruct (Z.eqb_spec (stt + 2) 4); auto; lia.
      + destruct (Z.leb_spec 4 (c + 1)); [|rewrite orb_false_r; auto].
        replace (stt + 1 =? 4) with true by (symmetry; apply Z.eqb_eq; lia). auto.
  Qed.

  (* generated Remove (swap-with-last on the metadata, pointer / memory-pool index update): one item less, WasFull KEPT *)
  Lemma p4_remove : forall s ptr stt b its iter idx, rel_p4 s ptr stt b -> 0 <= idx < blen B b ->
    (blen B b = 1 -> iter = ptr) -> Z.of_nat (length its) = blen B b - 1 ->
    exists r s' ptr' stt', Gen_P4A.Remove H 2 s ptr stt iter idx = Ok (r, s', ptr', stt') /\
      rel_p4 s' ptr' stt' (mkB B its (wasFull B b) (bound B b)).
  Proof.
    intros s ptr stt b its iter idx (sh & bv & I & BV & St & Le & Nu & Em & W) Hidx Hit HL.
    set (c := blen B b) in *. pose proof (P4_Bucket.p4_count_inv H s c sh bv ltac:(lia) I) as HC.
    assert (PN : ptr <> 0) by (intros P0; apply Nu in P0; lia).
    assert (BL : blen B (mkB B its (wasFull B b) (bound B b)) = c - 1) by (unfold blen; simpl; lia).
    pose proof (P4A_Refine.p4a_remove_refines H 2 s ptr stt iter idx St ltac:(lia)) as RF. cbv zeta in RF. rewrite HC in RF.
    destruct (Z.eq_dec c 1) as [C1|C1].
    - assert (idx = 0) by lia. subst idx. rewrite C1 in I.
      destruct (P4_Bucket.p4_remove_last_inv H 2 s sh bv iter ptr (stt + 1) HH I PN (Hit C1)) as (s' & ER & I').
      rewrite ER in RF. destruct RF as (r & stt' & EG & ES & St'). rewrite C1 in EG, ES. simpl in EG, ES.
      exists r, s', 0, stt'. split; auto. unfold rel_p4. rewrite BL, C1. simpl. exists sh, bv.
      split; auto. split; [intros; lia|]. split; auto. split; [lia|]. split; [tauto|]. split.
      + intros _. destruct (Z.eqb_spec (stt + 1) 4); lia.
      + rewrite W. rewrite ES. destruct (Z.eqb_spec (stt + 1) 4) as [E|E]; [rewrite E; reflexivity|]. reflexivity.
    - destruct (P4_Bucket.p4_remove_inv H 2 s c sh bv idx iter ptr (stt + 1) HH I ltac:(lia) Hidx PN BV) as (s' & ER & I').
      rewrite ER in RF. destruct RF as (r & stt' & EG & ES & St').
      replace (c =? 1) with false in EG, ES by (symmetry; apply Z.eqb_neq; auto).
      exists r, s', ptr, stt'. split; auto. unfold rel_p4. rewrite BL.
      exists (upd sh idx (sh (c - 1))), (upd bv idx (bv (c - 1))).
      split; auto. split.
      { intros i Hi. unfold upd. destruct (Z.eqb_spec i idx); apply BV; lia. }
      split; auto. split; [lia|]. split; [split; [tauto|lia]|]. split; [intros; lia|].
      simpl. rewrite W. replace (stt' + 1) with (stt + 1) by lia. auto.
  Qed.

  (* generated Clear: the model's empty bucket, with WasFull of a fresh bucket = (minMemPoolIndex = maxCount) = false here *)
  Lemma p4_clear : forall s ptr stt (b0 : B),
    let '(s', ptr', stt') := Gen_P4A.Clear H 2 s ptr stt in
    Gen_P4.pvGetCount s' = 0 /\ ptr' = 0 /\ Gen_P4A.WasFull s' ptr' stt' = false /\ Gen_P4A.IsFull s' ptr' stt' = false.
  Proof.
    intros s ptr stt b0. pose proof (P4A_Refine.p4a_clear_frame H 2 s ptr stt ltac:(lia) ltac:(lia)) as F.
    destruct (Gen_P4A.Clear H 2 s ptr stt) as [[s' ptr'] stt']. destruct F as (F1 & F2 & F3 & F4 & F5).
    split; auto. split; auto. split; [rewrite F5; reflexivity|].
    destruct (P4A_Refine.p4a_same_leaves H s' ptr' stt') as (_ & _ & _ & E). rewrite E.
    unfold Gen_P4.IsFull, Gen_P4.maxCount, Gen_P4.maskEmpty. change (wrapU 64 (4 - 1)) with 3. rewrite (F1 3) by lia. reflexivity.
  Qed.

  (* whole tables *)
  Definition rel_p4_bucket (d : (Z -> Z) * Z * Z) (b : bucket B) : Prop := let '(s, ptr, stt) := d in rel_p4 s ptr stt b.
  Definition gen_full_p4 (d : (Z -> Z) * Z * Z) : bool := let '(s, ptr, stt) := d in Gen_P4A.IsFull s ptr stt.

  Lemma all_full_p4 : forall ds (bs : list (bucket B)), Forall2 rel_p4_bucket ds bs ->
    ((forall b, In b bs -> isFull B 4 b = true) <-> (forall d, In d ds -> gen_full_p4 d = true)).
  Proof.
    induction 1 as [|[[s ptr] stt] b ds bs R F IH]; split; intros HA z Hz; simpl in Hz; try tauto; destruct Hz as [Hz|Hz]; subst.
    - simpl. rewrite (proj1 (p4_full_agrees _ _ _ _ R)). apply HA; simpl; auto.
    - apply IH; auto. intros; apply HA; simpl; auto.
    - rewrite <- (proj1 (p4_full_agrees _ _ _ _ R)). apply (HA (s, ptr, stt)); simpl; auto.
    - apply IH; auto. intros; apply HA; simpl; auto.
  Qed.
End P4Tie.

(* ---------------- BucketOne ---------------- *)
Section OneTie.
  Variable B : Type.
  (* state 0 = never used, 2 = emptied, odd = occupied (hash bits | 1) *)
  Definition rel_one (st : Z) (b : bucket B) : Prop :=
    Gen_One.IsFull st = (1 <=? blen B b) /\ blen B b <= 1 /\ Gen_One.WasFull st = wasFull B b.

  Lemma one_full_agrees : forall st b, rel_one st b -> Gen_One.IsFull st = isFull B 1 b /\ Gen_One.WasFull st = wasFull B b.
  Proof. intros st b (F & _ & W). split; auto. Qed.

  Lemma one_state_full : forall hc, Gen_One.IsFull (Gen_One.pvGetHashState hc) = true /\ Gen_One.WasFull (Gen_One.pvGetHashState hc) = true.
  Proof.
    intros hc. unfold Gen_One.IsFull, Gen_One.WasFull, Gen_One.pvGetHashState.
    assert (E : Z.land (Z.lor (wrapU 64 (Z.shiftl hc 1)) 1) 1 = 1).
    { apply Z.bits_inj'. intros n Hn. rewrite Z.land_spec, Z.lor_spec. destruct (Z.eq_dec n 0); [subst; simpl; rewrite orb_true_r; auto|].
      replace (Z.testbit 1 n) with false by (symmetry; apply Z.bits_above_log2; simpl; lia). apply andb_false_r. }
    rewrite E. split; [reflexivity|]. destruct (Z.eqb_spec (Z.lor (wrapU 64 (Z.shiftl hc 1)) 1) 0) as [Z0|]; auto.
    rewrite Z0 in E. simpl in E. discriminate.
  Qed.

  Lemma one_add : forall st b k hc, rel_one st b -> isFull B 1 b = false ->
    exists st', Gen_One.AddCrt st hc = Ok (tt, st') /\
      rel_one st' (mkB B (items B b ++ [k]) (wasFull B b || (1 <=? Z.of_nat (length (items B b ++ [k])))) (bound B b)).
  Proof.
    intros st b k hc (F & L & W) NF. unfold isFull in NF. unfold Gen_One.AddCrt. rewrite F, NF. simpl negb.
    eexists. split; [reflexivity|]. destruct (one_state_full hc) as (A1 & A2). unfold rel_one, blen in *; simpl.
    rewrite app_length; simpl. apply Z.leb_gt in NF.
    replace (1 <=? Z.of_nat (length (items B b) + 1)) with true by (symmetry; apply Z.leb_le; lia).
    rewrite orb_true_r. repeat split; auto; lia.
  Qed.

  Lemma one_remove : forall st b its addr, rel_one st b -> isFull B 1 b = true -> its = [] ->
    exists st', Gen_One.Remove st addr addr = Ok (tt, st') /\ Gen_One.WasFull st' = true /\ Gen_One.IsFull st' = false /\
      (wasFull B b = true -> rel_one st' (mkB B its (wasFull B b) (bound B b))).
  Proof.
    intros st b its addr (F & L & W) FU E. subst its. unfold isFull in FU. unfold Gen_One.Remove. rewrite Z.eqb_refl, F, FU.
    eexists. split; [reflexivity|]. split; [reflexivity|]. split; [reflexivity|].
    intros WT. unfold rel_one, blen; simpl. rewrite WT. repeat split; auto; lia.
  Qed.

  Lemma one_clear : forall st, Gen_One.IsFull (Gen_One.Clear st) = false /\ Gen_One.WasFull (Gen_One.Clear st) = false.
  Proof. intros. split; reflexivity. Qed.

  Lemma all_full_one : forall ds (bs : list (bucket B)), Forall2 rel_one ds bs ->
    ((forall b, In b bs -> isFull B 1 b = true) <-> (forall d, In d ds -> Gen_One.IsFull d = true)).
  Proof.
    induction 1 as [|d b ds bs R F IH]; split; intros HA z Hz; simpl in Hz; try tauto; destruct Hz as [Hz|Hz]; subst.
    - rewrite (proj1 (one_full_agrees _ _ R)). apply HA; simpl; auto.
    - apply IH; auto. intros; apply HA; simpl; auto.
    - rewrite <- (proj1 (one_full_agrees _ _ R)). apply HA; simpl; auto.
    - apply IH; auto. intros; apply HA; simpl; auto.
  Qed.
End OneTie.

(* ---------------- the "Hash table is full" clause on the generated IsFull of LimP4 and One tables ---------------- *)
Section Clause.
  Variable B : Type.
  Variable b0 : B.
  Variable decode : Z -> B -> Z.
  Variable upd_bound : B -> Z -> B.
  Variable h : Z -> Z.
  Variable wf0 : bool.
  Variable wfull : Z -> bool.
  Variable start : Z -> Z -> Z.
  Variable next : Z -> Z -> Z -> Z.
  Variable logStart : Z.
  Variable calcCapacity : Z -> Z.
  Variable shift : Z -> Z.
  Variable nothrowReloc : bool.

  Theorem refused_insert_full_iff_generated_IsFull_limp4 : forall H, 4 <= H <= 8 ->
    kind_ok B decode upd_bound 4 wfull start next logStart shift -> kind_ok2 4 start next calcCapacity -> kind_ok3 calcCapacity ->
    forall s t r k sch ds,
    Inv B b0 decode h 4 wf0 start next nothrowReloc s -> gens B s = t :: r -> ~ In k (abs B s) ->
    (count B s <? capacity B s) = false -> Forall2 (rel_p4_bucket B H) ds (tbs B t) ->
    (step B b0 decode upd_bound h 4 wf0 wfull start next logStart calcCapacity shift nothrowReloc s (OInsert k false false true sch) = Some (s, RFull)
     <-> forall d, In d ds -> gen_full_p4 d = true).
  Proof.
    intros H HH K1 K2 K3 s t r k sch ds HI EG NI C1 HR.
    destruct (insert_fails_only_if_every_slot_on_probe_path_taken B b0 decode upd_bound h 4 wf0 wfull start next logStart calcCapacity shift
                nothrowReloc K1 K2 K3 s t r k sch HI EG NI C1) as (_ & P2 & P3).
    pose proof (all_full_p4 B H HH ds (tbs B t) HR) as A. split.
    - intros HS. apply A. apply P2; auto.
    - intros HA. apply P3. apply A; auto.
  Qed.

  Theorem refused_insert_full_iff_generated_IsFull_one :
    kind_ok B decode upd_bound 1 wfull start next logStart shift -> kind_ok2 1 start next calcCapacity -> kind_ok3 calcCapacity ->
    forall s t r k sch (ds : list Z),
    Inv B b0 decode h 1 wf0 start next nothrowReloc s -> gens B s = t :: r -> ~ In k (abs B s) ->
    (count B s <? capacity B s) = false -> Forall2 (rel_one B) ds (tbs B t) ->
    (step B b0 decode upd_bound h 1 wf0 wfull start next logStart calcCapacity shift nothrowReloc s (OInsert k false false true sch) = Some (s, RFull)
     <-> forall d, In d ds -> Gen_One.IsFull d = true).
  Proof.
    intros K1 K2 K3 s t r k sch ds HI EG NI C1 HR.
    destruct (insert_fails_only_if_every_slot_on_probe_path_taken B b0 decode upd_bound h 1 wf0 wfull start next logStart calcCapacity shift
                nothrowReloc K1 K2 K3 s t r k sch HI EG NI C1) as (_ & P2 & P3).
    pose proof (all_full_one B ds (tbs B t) HR) as A. split.
    - intros HS. apply A. apply P2; auto.
    - intros HA. apply P3. apply A; auto.
  Qed.
End Clause.

