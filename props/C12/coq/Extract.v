(* Extraction of the GENERATED definitions (translator validation for C12). ExtrOcamlBasic only. *)
From Coq Require Import ZArith List Extraction ExtrOcamlBasic.
From MomoCommon Require Import GenPrelude.
From C12 Require Gen_P4A Gen_Base Gen_O2 Gen_O2MP Gen_P4 Gen_One P4_Model TableO2 TableP4 TableOne.
Separate Extraction
  Gen_Base.GetStartBucketIndex Gen_Base.GetNextBucketIndex
  Gen_O2.AddCrt Gen_O2.Remove Gen_O2.GetHashCodePart Gen_O2.GetNextBucketIndex Gen_O2.pvCalcShortHash Gen_O2.pvGetProbeShift Gen_O2.pvGetCount
  Gen_P4.pvSetHashProbe Gen_P4.Remove Gen_P4.GetHashCodePart Gen_P4.pvGetCount Gen_P4.pvCalcShortHash Gen_P4.pvGetProbeShift
  Gen_P4.GetNextBucketIndex Gen_P4.pvSetEmpty
  Gen_One.AddCrt Gen_One.Remove Gen_One.GetHashCodePart Gen_One.IsFull Gen_One.pvGetHashState
  P4_Model.p4_add Gen_P4A.AddCrt Gen_P4A.Remove Gen_P4A.WasFull Gen_P4A.pvGetMemPoolIndex Gen_P4A.Clear TableO2.find TableO2.find_gens TableP4.pfind_gens TableP4.pfind TableOne.ofind TableO2.add_nogrow TableP4.padd_nogrow TableO2.migrate TableO2.insert_all TableO2.empty_table TableO2.migrate_from_c TableO2.migrate_gens TableO2.remove_at TableO2.locate_from TableP4.pmigrate TableP4.pinsert_all TableP4.pempty_table TableP4.premove_at TableP4.plocate_from TableP4.pmigrate_from_c TableP4.pmigrate_gens TableOne.omigrate TableOne.oinsert_all TableOne.oempty_table TableOne.oremove_at TableOne.olocate_from Gen_One.WasFull Gen_Base.GetMaxProbe Gen_P4.IsFull Coq.Init.Nat.pred.   (* Nat.pred: lib/zutil.ml needs the extracted Datatypes.nat *)
