(* C07 / frame conditions (round 7).  The sorted-segment invariant `vals_ok` depends on one piece of state only: the value
   array of every key of a MultiHash (mHashMultiMap's value arrays).  Every member function of DataIndexes::MultiHash that
   can write that state - Add(raw), Add(hashMixedKey), RejectAdd, AcceptAdd, PrepareRemove, RejectRemove, AcceptRemove,
   FilterRaws - leaves the invariant intact on EVERY key, with no assumption on the rest of the index state (no
   consistency, no tag discipline), only the size bound under which the generated segment arithmetic is checked and, for
   AcceptRemove, the function's own MOMO_ASSERT (the row is one of the key's rows).  UniqueHash has no such state. *)
From Coq Require Import List ZArith Lia Bool Arith PeanoNat Permutation.
From C07 Require Import TableSpec TableProofs MultiHash MultiHashProofs SegProofs IndexModel IndexProofs.
Import ListNotations.

Definition mvok (m : mhash) : Prop := forall g, In g (mgroups m) -> vals_ok (gvals g).
Definition msmall (m : mhash) : Prop := forall g, In g (mgroups m) -> length (gvals g) < max_vals.

Inductive mop :=
| MAdd (ord : nat -> nat) (R : list Z -> list Z -> bool) (ct : Z -> row) (raw : Z) (tag : nat)
| MAddMixed (ord : nat -> nat) (R : list Z -> list Z -> bool) (ct : Z -> row) (raw : Z) (c : nat) (v : Z) (tag : nat)
| MRejectAdd | MAcceptAdd
| MPrepareRemove (fixm : bool) (R : list Z -> list Z -> bool) (ct : Z -> row) (raw : Z)
| MRejectRemove
| MAcceptRemove (raw : Z)
| MFilter (keep : Z -> bool).

Definition mapply (o : mop) (m : mhash) : mhash :=
  match o with
  | MAdd ord R ct raw tag => m_add ord R ct m raw tag
  | MAddMixed ord R ct raw c v tag => m_add_mixed ord R ct m raw c v tag
  | MRejectAdd => m_reject_add m
  | MAcceptAdd => m_accept_add m
  | MPrepareRemove fixm R ct raw => m_prepare_remove fixm R ct m raw
  | MRejectRemove => m_reject_remove m
  | MAcceptRemove raw => m_accept_remove m raw
  | MFilter keep => m_filter keep m
  end.

(* AcceptRemove's MOMO_ASSERT(raws[rawIndex] == raw): in the search branch the row is one of the values *)
Definition mop_assert (o : mop) (m : mhash) : Prop :=
  match o with
  | MAcceptRemove raw =>
      forall t g, mprem m = Some t -> m_get_group t (mgroups m) = Some g -> gvals g <> [] -> gkey g <> raw -> In raw (gvals g)
  | _ => True
  end.

Lemma update_group_vok t f gs :
  (forall g, In g gs -> vals_ok (gvals g)) -> (forall g, In g gs -> vals_ok (gvals (f g))) ->
  forall g, In g (m_update_group t f gs) -> vals_ok (gvals g).
Proof.
  intros H Hf g Hin. unfold m_update_group in Hin. apply in_map_iff in Hin as (g0 & E & Hin).
  destruct (Nat.eqb (gtag g0) t); subst g; auto.
Qed.

Lemma remove_group_vok t gs :
  (forall g, In g gs -> vals_ok (gvals g)) -> forall g, In g (m_remove_group t gs) -> vals_ok (gvals g).
Proof. intros H g Hin. unfold m_remove_group in Hin. apply filter_In in Hin as [Hin _]. auto. Qed.

Lemma place_vok ord t x gs :
  vals_ok (gvals x) -> (forall g, In g gs -> vals_ok (gvals g)) -> forall g, In g (place ord t x gs) -> vals_ok (gvals g).
Proof.
  intros Hx H g Hin. apply (Permutation_in _ (place_perm ord t x gs)) in Hin. destruct Hin as [<-|Hin]; auto.
Qed.

Lemma get_group_in t gs g : m_get_group t gs = Some g -> In g gs.
Proof. unfold m_get_group. intros H. apply find_some in H. tauto. Qed.

Theorem multihash_ops_frame o m : msmall m -> mop_assert o m -> mvok m -> mvok (mapply o m).
Proof.
  intros Hs Ha Hv. unfold mvok in *. destruct o; cbn [mapply].
  - (* Add(raw) *)
    unfold m_add. destruct (m_find R ct m (keyc ct (mcols m) raw)) as [g0|] eqn:Ef; cbn [mgroups].
    + destruct (Z.eqb (gkey g0) raw); [exact Hv|].
      apply update_group_vok; [exact Hv|]. intros g Hg. cbn [gvals]. apply pv_add_preserves; [apply Hv|apply Hs]; exact Hg.
    + apply place_vok; [cbn [gvals]; apply vals_ok_nil|exact Hv].
  - (* Add(hashMixedKey) *)
    unfold m_add_mixed. destruct (m_find R ct m _) as [g0|] eqn:Ef; cbn [mgroups].
    + apply update_group_vok; [exact Hv|]. intros g Hg. cbn [gvals]. apply pv_add_preserves; [apply Hv|apply Hs]; exact Hg.
    + apply place_vok; [cbn [gvals]; apply vals_ok_nil|exact Hv].
  - (* RejectAdd *)
    unfold m_reject_add. destruct (mpadd m) as [t|]; [|exact Hv].
    destruct (m_get_group t (mgroups m)) as [g0|]; [|exact Hv]. cbn [mgroups].
    destruct (gvals g0); [apply remove_group_vok; exact Hv|].
    apply update_group_vok; [exact Hv|]. intros g Hg. cbn [gvals]. apply segs_ok_removelast. apply Hv. exact Hg.
  - exact Hv.
  - (* PrepareRemove *)
    unfold m_prepare_remove. destruct (m_find R ct m _); exact Hv.
  - exact Hv.
  - (* AcceptRemove *)
    unfold m_accept_remove. destruct (mprem m) as [t|] eqn:Et; [|exact Hv].
    destruct (m_get_group t (mgroups m)) as [g0|] eqn:Eg; [|exact Hv]. cbn [mgroups].
    pose proof (get_group_in _ _ _ Eg) as Hin0.
    destruct (gvals g0) as [|v0 vs0] eqn:Ev; [apply remove_group_vok; exact Hv|].
    destruct (Z.eqb_spec (gkey g0) raw) as [Ek|Ek].
    + apply update_group_vok; [exact Hv|]. intros g Hg. cbn [gvals]. apply segs_ok_removelast. apply Hv. exact Hg.
    + assert (Hin : In raw (gvals g0)).
      { apply (Ha t g0 Et Eg); [rewrite Ev; discriminate|exact Ek]. }
      destruct (multihash_remove_preserves raw (gvals g0) (Hv g0 Hin0) Hin) as (v' & E' & _ & Hok').
      rewrite Ev in E'. rewrite E'. apply update_group_vok; [exact Hv|]. intros g _. exact Hok'.
  - (* FilterRaws *)
    unfold m_filter. cbn [mgroups]. intros g Hin. apply in_flat_map in Hin as (g0 & Hg0 & Hin).
    unfold filter_group in Hin. destruct (filter_vals_ok keep (gvals g0) (Hs g0 Hg0)) as (Hok & _ & _).
    destruct (keep (gkey g0)).
    + destruct Hin as [<-|[]]. exact Hok.
    + destruct (filter_vals keep (gvals g0)) as [|y v'] eqn:Efv; [destruct Hin|].
      destruct Hin as [<-|[]]. cbn [gvals]. apply segs_ok_removelast. exact Hok.
Qed.
