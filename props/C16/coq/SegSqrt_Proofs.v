(* C16: the functions regenerated from SegmentedArraySettings<sqrt, L> (Gen_SegSqrt.v, L symbolic) compute the
   exact values of SegMath.v whenever nothing wraps; hence round trip / offset bound / contiguity / capacity. *)
From Coq Require Import ZArith Bool List Lia.
From MomoCommon Require Import GenPrelude.
From C16 Require Gen_Log2_64 Gen_SegSqrt Log2_Proofs SegMath.
Local Open Scope Z_scope.
Module G := Gen_SegSqrt.
Import SegMath.

Lemma pow2_64 : 2 ^ 64 = 18446744073709551616. Proof. reflexivity. Qed.

Lemma pow2_le_64 k : 0 <= k < 64 -> 0 < 2 ^ k <= 2 ^ 63.
Proof. intros. split; [apply SegMath.pow2_pos; lia|apply Z.pow_le_mono_r; lia]. Qed.

Lemma shl1 k : 0 <= k < 64 -> wrapU 64 (Z.shiftl 1 k) = 2 ^ k.
Proof.
  intros Hk. rewrite Z.shiftl_mul_pow2 by lia. rewrite Z.mul_1_l. apply wrapU_small.
  pose proof (pow2_le_64 k Hk). assert (2 ^ 63 < 2 ^ 64) by (apply Z.pow_lt_mono_r; lia). lia.
Qed.

Lemma mask k x : 0 <= k < 64 -> Z.land x (wrapU 64 (wrapU 64 (Z.shiftl 1 k) - 1)) = x mod 2 ^ k.
Proof.
  intros Hk. rewrite shl1 by assumption. rewrite wrapU_small.
  - replace (2 ^ k - 1) with (Z.ones k) by (rewrite Z.ones_equiv; lia). apply Z.land_ones; lia.
  - pose proof (pow2_le_64 k Hk). assert (2 ^ 63 < 2 ^ 64) by (apply Z.pow_lt_mono_r; lia). lia.
Qed.

Lemma klog_le n b : 1 <= n < 2 ^ b -> 0 <= b -> 2 * klog n <= b.
Proof.
  intros Hn Hb. unfold klog. assert (Z.log2 n < b) by (apply Z.log2_lt_pow2; lia).
  pose proof (Z.div_mod (Z.log2 n + 1) 2 ltac:(lia)). pose proof (Z.mod_pos_bound (Z.log2 n + 1) 2 ltac:(lia)). lia.
Qed.

Lemma gen_klog n : 0 < n < 2 ^ 64 -> G.pvIndexToLogItemCount n = klog n.
Proof.
  intros Hn. unfold G.pvIndexToLogItemCount, klog. rewrite Log2_Proofs.log2_64_correct by assumption.
  pose proof (Log2_Proofs.log2_lt n 64 Hn ltac:(lia)). rewrite wrapU_small; [reflexivity|]. rewrite pow2_64. lia.
Qed.

Lemma gen_slog s : 0 <= s -> 2 * s + 4 < 2 ^ 64 -> G.pvSegIndexToLogItemCount s = slog s.
Proof.
  intros Hs Hb. unfold G.pvSegIndexToLogItemCount, slog.
  rewrite (wrapU_small 64 (s * 2)) by lia. rewrite wrapU_small by lia.
  replace (s * 2 + 4) with (2 * s + 4) by lia.
  apply Log2_Proofs.log2_64_correct.
  split.
  - assert (1 <= (2 * s + 4) / 3) by (apply Z.div_le_lower_bound; lia). lia.
  - apply Z.div_lt_upper_bound; lia.
Qed.

(* range facts for an index i < 2^64 - 2^L *)
Lemma index1_range L i : 0 <= L < 64 -> 0 <= i < 2 ^ 64 - 2 ^ L ->
  let n := i / 2 ^ L + 1 in 1 <= n < 2 ^ (64 - L) /\ n < 2 ^ 64.
Proof.
  intros HL Hi n. pose proof (SegMath.pow2_pos L ltac:(lia)) as HB.
  assert (E : 2 ^ 64 = 2 ^ (64 - L) * 2 ^ L) by (rewrite <- Z.pow_add_r by lia; f_equal; lia).
  assert (0 <= i / 2 ^ L) by (apply Z.div_pos; lia).
  assert (i / 2 ^ L < 2 ^ (64 - L) - 1) by (apply Z.div_lt_upper_bound; nia).
  assert (2 ^ (64 - L) <= 2 ^ 64) by (apply Z.pow_le_mono_r; lia).
  unfold n. lia.
Qed.

Lemma gen_seg_of L i : 0 <= L < 64 -> 0 <= i < 2 ^ 64 - 2 ^ L -> G.GetSegItemIndexes L i = seg_of L i.
Proof.
  intros HL Hi. destruct (index1_range L i HL Hi) as [Hn Hn64]. set (n := i / 2 ^ L + 1) in *.
  pose proof (SegMath.pow2_pos L ltac:(lia)) as HB.
  unfold G.GetSegItemIndexes, seg_of. cbv zeta.
  rewrite !(mask L) by lia. rewrite !(Z.shiftr_div_pow2 i L) by lia.
  rewrite (wrapU_small 64 (i / 2 ^ L + 1)) by (fold n; lia). fold n.
  rewrite gen_klog by lia.
  destruct (klog_quot n ltac:(lia)) as (HP & Hd & Hr & Hq & Hb). destruct (klog_spec n ltac:(lia)) as [Hk _].
  pose proof (klog_le n (64 - L) Hn ltac:(lia)) as Hk2.
  assert (Hk64 : 0 <= klog n < 64) by lia.
  rewrite !mask by lia. rewrite shl1 by lia. rewrite Z.shiftr_div_pow2 by lia. rewrite Z.shiftl_mul_pow2 by lia.
  set (k := klog n) in *. set (P := 2 ^ k) in *. set (q := n / P) in *. set (r := n mod P) in *.
  pose proof (Z.mod_pos_bound i (2 ^ L) HB) as Hm. set (b := i mod 2 ^ L) in *. set (B := 2 ^ L) in *.
  assert (HPB : P * B <= 2 ^ 63).
  { unfold P, B. rewrite <- Z.pow_add_r by lia. apply Z.pow_le_mono_r; lia. }
  assert (HP32 : P <= 2 ^ 32) by (unfold P; apply Z.pow_le_mono_r; lia).
  rewrite pow2_64 in *. change (2 ^ 63) with 9223372036854775808 in *. change (2 ^ 32) with 4294967296 in *.
  f_equal.
  - rewrite (wrapU_small 64 (q + P)) by (rewrite pow2_64; lia). apply wrapU_small. rewrite pow2_64. lia.
  - rewrite (wrapU_small 64 (r * B)) by (rewrite pow2_64; nia). apply wrapU_small. rewrite pow2_64. nia.
Qed.

(* s is small whenever the exact index of one of its slots fits in 64 bits *)
Lemma slot_fits L s j : 0 <= L < 64 -> 0 <= s -> 0 <= j < cnt_of L s -> idx_of L s j < 2 ^ 64 - 2 ^ L ->
  let k := slog s in let P := 2 ^ k in let t := s + 2 - P in let n := t * P + j / 2 ^ L in
  0 <= k /\ 2 * k <= 64 - L /\ 2 * s + 4 < 2 ^ 64 /\ P <= 2 * t < 4 * P /\ 1 <= n < 2 ^ (64 - L) /\ 0 <= j / 2 ^ L < P /\
  idx_of L s j = (n - 1) * 2 ^ L + j mod 2 ^ L.
Proof.
  intros HL Hs Hj Hfit k P t n.
  destruct (slog_spec s Hs) as [Hk Hkb]. fold k in Hk, Hkb. fold P in Hkb.
  assert (HP : 0 < P) by (apply SegMath.pow2_pos; exact Hk).
  pose proof (SegMath.pow2_pos L ltac:(lia)) as HB.
  unfold cnt_of in Hj. fold k in Hj. rewrite Z.pow_add_r in Hj by lia. fold P in Hj.
  assert (Ht : P <= 2 * t < 4 * P) by (unfold t; lia).
  pose proof (Z.div_mod j (2 ^ L) ltac:(lia)) as Hd. pose proof (Z.mod_pos_bound j (2 ^ L) HB) as Hm.
  assert (Ha : 0 <= j / 2 ^ L < P) by nia.
  assert (Eidx : idx_of L s j = (n - 1) * 2 ^ L + j mod 2 ^ L) by (unfold idx_of; fold k; fold P; unfold n, t; lia).
  assert (Hn1 : 1 <= n) by (unfold n; nia).
  assert (E : 2 ^ 64 = 2 ^ (64 - L) * 2 ^ L) by (rewrite <- Z.pow_add_r by lia; f_equal; lia).
  assert (Hn : n < 2 ^ (64 - L)).
  { rewrite Eidx in Hfit. set (B := 2 ^ L) in *. set (b := j mod B) in *. nia. }
  assert (Hkl : klog n = k).
  { apply klog_unique; try lia. fold P. unfold n. nia. }
  pose proof (klog_le n (64 - L) ltac:(lia) ltac:(lia)) as Hk2. rewrite Hkl in Hk2.
  assert (HP32 : P <= 2 ^ 32) by (unfold P; apply Z.pow_le_mono_r; lia).
  change (2 ^ 32) with 4294967296 in HP32.
  repeat split; try lia; rewrite pow2_64; lia.
Qed.

Lemma gen_idx_of L s j : 0 <= L < 64 -> 0 <= s -> 0 <= j < cnt_of L s -> idx_of L s j < 2 ^ 64 - 2 ^ L ->
  G.GetIndex L s j = idx_of L s j.
Proof.
  intros HL Hs Hj Hfit.
  destruct (slot_fits L s j HL Hs Hj Hfit) as (Hk & Hk2 & Hs64 & Ht & Hn & Ha & Eidx).
  rewrite Eidx in *. unfold G.GetIndex. cbv zeta.
  rewrite gen_slog by lia. rewrite !mask by lia. rewrite Z.shiftr_div_pow2 by lia.
  rewrite shl1 by lia. rewrite !Z.shiftl_mul_pow2 by lia.
  set (k := slog s) in *. set (P := 2 ^ k) in *. set (t := s + 2 - P) in *.
  set (a := j / 2 ^ L) in *. pose proof (SegMath.pow2_pos L ltac:(lia)) as HB.
  pose proof (Z.mod_pos_bound j (2 ^ L) HB) as Hm. set (b := j mod 2 ^ L) in *. set (B := 2 ^ L) in *.
  assert (HP : 0 < P) by (apply SegMath.pow2_pos; exact Hk).
  assert (HP32 : P <= 2 ^ 32) by (unfold P; apply Z.pow_le_mono_r; lia).
  assert (Hn64 : 2 ^ (64 - L) <= 2 ^ 64) by (apply Z.pow_le_mono_r; lia).
  assert (E : 2 ^ 64 = 2 ^ (64 - L) * B) by (unfold B; rewrite <- Z.pow_add_r by lia; f_equal; lia).
  set (n := t * P + a) in *. set (M := 2 ^ (64 - L)) in *.
  change (2 ^ 32) with 4294967296 in *.
  rewrite (wrapU_small 64 (s + 2)) by (rewrite pow2_64 in *; lia).
  replace (s + 2 - P) with t by reflexivity.
  rewrite (wrapU_small 64 t) by (rewrite pow2_64 in *; lia).
  rewrite (wrapU_small 64 (t * P)) by (split; [nia|]; unfold n in Hn; nia).
  rewrite (wrapU_small 64 (t * P + a)) by (fold n; lia). fold n.
  rewrite (wrapU_small 64 (n - 1)) by lia.
  rewrite (wrapU_small 64 ((n - 1) * B)) by nia.
  apply wrapU_small. nia.
Qed.

Lemma gen_cnt_of L s : 0 <= L < 64 -> 0 <= s -> 2 * s + 4 < 2 ^ 64 -> slog s + L < 64 ->
  G.GetItemCount L s = cnt_of L s.
Proof.
  intros HL Hs Hb Hk. unfold G.GetItemCount, cnt_of. cbv zeta. rewrite gen_slog by assumption.
  destruct (slog_spec s Hs) as [Hk0 _].
  rewrite (wrapU_small 64 (slog s + L)) by (rewrite pow2_64; lia). apply shl1. lia.
Qed.

(* the segment of a valid index is small enough for GetItemCount / GetIndex not to wrap *)
Lemma seg_small L i : 0 <= L < 64 -> 0 <= i < 2 ^ 64 - 2 ^ L ->
  let s := fst (seg_of L i) in 0 <= s /\ 2 * s + 4 < 2 ^ 64 /\ slog s + L < 64.
Proof.
  intros HL Hi s. destruct (index1_range L i HL Hi) as [Hn Hn64]. set (n := i / 2 ^ L + 1) in *.
  destruct (seg_of_slog L i ltac:(lia) ltac:(lia)) as [E Hs0]. fold s n in E, Hs0.
  destruct (slog_spec s Hs0) as [Hk Hkb]. rewrite E in *.
  pose proof (klog_le n (64 - L) Hn ltac:(lia)) as Hk2.
  assert (HP32 : 2 ^ klog n <= 2 ^ 32) by (apply Z.pow_le_mono_r; lia).
  change (2 ^ 32) with 4294967296 in HP32. rewrite pow2_64. lia.
Qed.

(* ------------------------------------------------------------------ theorems about the generated functions *)
Theorem seg_roundtrip L i : 0 <= L < 64 -> 0 <= i < 2 ^ 64 - 2 ^ L ->
  G.GetIndex L (fst (G.GetSegItemIndexes L i)) (snd (G.GetSegItemIndexes L i)) = i.
Proof.
  intros HL Hi. rewrite gen_seg_of by assumption.
  destruct (seg_small L i HL Hi) as (Hs & _ & _).
  pose proof (item_lt_cnt L ltac:(lia) i ltac:(lia)) as Hj.
  pose proof (roundtrip L ltac:(lia) i ltac:(lia)) as R.
  rewrite gen_idx_of; try assumption; lia.
Qed.

Theorem item_lt_count L i : 0 <= L < 64 -> 0 <= i < 2 ^ 64 - 2 ^ L ->
  let s := fst (G.GetSegItemIndexes L i) in let j := snd (G.GetSegItemIndexes L i) in
  0 <= s /\ 0 <= j < G.GetItemCount L s /\ G.GetItemCount L s = 2 ^ (slog s + L) /\ slog s + L < 64.
Proof.
  intros HL Hi. rewrite gen_seg_of by assumption. cbv zeta.
  destruct (seg_small L i HL Hi) as (Hs & Hs64 & Hk).
  rewrite gen_cnt_of by assumption.
  pose proof (item_lt_cnt L ltac:(lia) i ltac:(lia)) as Hj. unfold cnt_of at 2. repeat split; lia.
Qed.

Theorem seg_contiguous L i : 0 <= L < 64 -> 0 <= i -> i + 1 < 2 ^ 64 - 2 ^ L ->
  let s := fst (G.GetSegItemIndexes L i) in let j := snd (G.GetSegItemIndexes L i) in
  G.GetSegItemIndexes L (i + 1) = if Z.ltb (j + 1) (G.GetItemCount L s) then (s, j + 1) else (s + 1, 0).
Proof.
  intros HL Hi Hi1. rewrite !gen_seg_of by lia. cbv zeta.
  destruct (seg_small L i HL ltac:(lia)) as (Hs & Hs64 & Hk).
  rewrite gen_cnt_of by assumption. apply (contiguous L ltac:(lia) i Hi).
Qed.

Theorem seg_first L : 0 <= L < 64 -> G.GetSegItemIndexes L 0 = (0, 0) /\ G.GetIndex L 0 0 = 0.
Proof.
  intros HL. pose proof (pow2_le_64 L HL). assert (2 ^ 63 < 2 ^ 64) by (apply Z.pow_lt_mono_r; lia).
  rewrite gen_seg_of by lia. split; [apply seg_of_0; lia|].
  pose proof (idx_of_0 L ltac:(lia)) as E. pose proof (cnt_pos L 0 ltac:(lia) ltac:(lia)).
  rewrite gen_idx_of; try lia.
Qed.

(* every slot (s, j) whose exact index fits below 2^64 - 2^L is the image of exactly that index *)
Theorem seg_roundtrip_rev L s j : 0 <= L < 64 -> 0 <= s -> 0 <= j -> 2 * s + 4 < 2 ^ 64 -> slog s + L < 64 ->
  j < G.GetItemCount L s -> idx_of L s j < 2 ^ 64 - 2 ^ L ->
  G.GetIndex L s j = idx_of L s j /\ G.GetSegItemIndexes L (G.GetIndex L s j) = (s, j).
Proof.
  intros HL Hs Hj Hs64 Hk Hlt Hfit. rewrite gen_cnt_of in Hlt by assumption.
  rewrite gen_idx_of by (try assumption; lia). split; [reflexivity|].
  destruct (roundtrip_rev L ltac:(lia) s j Hs ltac:(lia)) as [R R0].
  rewrite gen_seg_of by lia. exact R.
Qed.

(* GetCapacity() = GetIndex(segCount, 0): adding segment s adds exactly GetItemCount(s) *)
Theorem capacity_step L s : 0 <= L < 64 -> 0 <= s -> idx_of L (s + 1) 0 < 2 ^ 64 - 2 ^ L ->
  G.GetIndex L (s + 1) 0 = G.GetIndex L s 0 + G.GetItemCount L s.
Proof.
  intros HL Hs Hfit.
  pose proof (cap_step L ltac:(lia) s Hs) as C.
  pose proof (cnt_pos L s ltac:(lia) Hs) as Hc. pose proof (cnt_pos L (s + 1) ltac:(lia) ltac:(lia)) as Hc1.
  destruct (slot_fits L (s + 1) 0 HL ltac:(lia) ltac:(lia) Hfit) as (Hk1 & Hk21 & Hs641 & _).
  assert (Hfit0 : idx_of L s 0 < 2 ^ 64 - 2 ^ L) by lia.
  destruct (slot_fits L s 0 HL Hs ltac:(lia) Hfit0) as (Hk & Hk2 & Hs64 & _).
  rewrite !gen_idx_of by (try assumption; lia).
  rewrite gen_cnt_of by lia. exact C.
Qed.

(* order preserving: a larger index lies in a later segment, or later in the same segment *)
Theorem seg_monotone L i i' : 0 <= L < 64 -> 0 <= i < i' -> i' < 2 ^ 64 - 2 ^ L ->
  let s := fst (G.GetSegItemIndexes L i) in let j := snd (G.GetSegItemIndexes L i) in
  let s' := fst (G.GetSegItemIndexes L i') in let j' := snd (G.GetSegItemIndexes L i') in
  s < s' \/ (s = s' /\ j < j').
Proof.
  intros HL Hi Hi'. rewrite !gen_seg_of by lia. apply seg_of_mono; lia.
Qed.

(* ------------------------------------------------------------------ the exact boundary of the claims (round 2)
   The only 64-bit wrap inside GetSegItemIndexes / GetIndex is index1 = (index >> L) + 1, i.e. L = 0 and
   index = 2^64 - 1.  Everything else, including the top 2^L indexes for L >= 1, is computed exactly. *)
Definition ok_index (L i : Z) : Prop := 0 <= i < 2 ^ 64 /\ (L = 0 -> i < 2 ^ 64 - 1).

Lemma ok_index1 L i : 0 <= L < 64 -> ok_index L i -> 1 <= i / 2 ^ L + 1 < 2 ^ 64.
Proof.
  intros HL [Hi H0]. pose proof (SegMath.pow2_pos L ltac:(lia)) as HB.
  assert (0 <= i / 2 ^ L) by (apply Z.div_pos; lia).
  destruct (Z.eq_dec L 0) as [->|Hne].
  - rewrite Z.pow_0_r, Z.div_1_r. specialize (H0 eq_refl). lia.
  - assert (2 <= 2 ^ L) by (change 2 with (2 ^ 1) at 1; apply Z.pow_le_mono_r; lia).
    assert (i / 2 ^ L < 2 ^ 63) by (apply Z.div_lt_upper_bound; [lia|]; change (2 ^ 64) with (2 * 2 ^ 63) in Hi; nia).
    rewrite pow2_64. change (2 ^ 63) with 9223372036854775808 in *. lia.
Qed.

Lemma gen_seg_of_all L i : 0 <= L < 64 -> ok_index L i -> G.GetSegItemIndexes L i = seg_of L i.
Proof.
  intros HL Hok. pose proof (ok_index1 L i HL Hok) as Hn. destruct Hok as [Hi _]. set (n := i / 2 ^ L + 1) in *.
  pose proof (SegMath.pow2_pos L ltac:(lia)) as HB.
  unfold G.GetSegItemIndexes, seg_of. cbv zeta.
  rewrite !(mask L) by lia. rewrite !(Z.shiftr_div_pow2 i L) by lia.
  rewrite (wrapU_small 64 (i / 2 ^ L + 1)) by (fold n; lia). fold n.
  rewrite gen_klog by lia.
  destruct (klog_quot n ltac:(lia)) as (HP & Hd & Hr & Hq & Hb). destruct (klog_spec n ltac:(lia)) as [Hk _].
  pose proof (klog_le n 64 Hn ltac:(lia)) as Hk2.
  assert (Hk64 : 0 <= klog n < 64) by lia.
  rewrite !mask by lia. rewrite shl1 by lia. rewrite Z.shiftr_div_pow2 by lia. rewrite Z.shiftl_mul_pow2 by lia.
  set (k := klog n) in *. set (P := 2 ^ k) in *. set (q := n / P) in *. set (r := n mod P) in *.
  pose proof (Z.mod_pos_bound i (2 ^ L) HB) as Hm. pose proof (Z.div_mod i (2 ^ L) ltac:(lia)) as Hdi.
  assert (En : n - 1 = i / 2 ^ L) by (unfold n; lia).
  set (b := i mod 2 ^ L) in *. set (B := 2 ^ L) in *.
  assert (HP32 : P <= 2 ^ 32) by (unfold P; apply Z.pow_le_mono_r; lia).
  assert (Hitem : r * B + b <= i).
  { assert (1 <= q) by lia. assert (P <= q * P) by nia. assert (r <= n - 1) by lia.
    assert (r * B <= (n - 1) * B) by (apply Z.mul_le_mono_nonneg_r; lia). rewrite En in H2. lia. }
  rewrite pow2_64 in *. change (2 ^ 32) with 4294967296 in *.
  f_equal.
  - rewrite (wrapU_small 64 (q + P)) by (rewrite pow2_64; lia). apply wrapU_small. rewrite pow2_64. lia.
  - rewrite (wrapU_small 64 (r * B)) by (rewrite pow2_64; nia). apply wrapU_small. rewrite pow2_64. nia.
Qed.

Lemma gen_idx_of_all L s j : 0 <= L < 64 -> 0 <= s -> 0 <= j < cnt_of L s -> ok_index L (idx_of L s j) ->
  G.GetIndex L s j = idx_of L s j /\ 2 * s + 4 < 2 ^ 64.
Proof.
  intros HL Hs Hj Hok. pose proof (ok_index1 L _ HL Hok) as Hn1. destruct Hok as [Hfit _].
  destruct (slog_spec s Hs) as [Hk Hkb].
  pose proof (SegMath.pow2_pos L ltac:(lia)) as HB.
  unfold cnt_of in Hj. rewrite Z.pow_add_r in Hj by lia.
  unfold idx_of in *. set (k := slog s) in *. set (P := 2 ^ k) in *.
  assert (HP : 0 < P) by (apply SegMath.pow2_pos; exact Hk).
  set (t := s + 2 - P) in *. assert (Ht : P <= 2 * t < 4 * P) by (unfold t; lia).
  pose proof (Z.div_mod j (2 ^ L) ltac:(lia)) as Hd. pose proof (Z.mod_pos_bound j (2 ^ L) HB) as Hm.
  set (a := j / 2 ^ L) in *. set (b := j mod 2 ^ L) in *. set (B := 2 ^ L) in *.
  assert (Ha : 0 <= a < P) by nia.
  set (n := t * P + a) in *. assert (Hn0 : 1 <= n) by (unfold n; nia).
  assert (Hdiv : ((n - 1) * B + b) / B = n - 1).
  { rewrite Z.div_add_l by lia. rewrite (Z.div_small b B) by lia. lia. }
  rewrite Hdiv in Hn1.
  assert (Hkl : klog n = k) by (apply klog_unique; try lia; fold P; unfold n; nia).
  pose proof (klog_le n 64 ltac:(lia) ltac:(lia)) as Hk2. rewrite Hkl in Hk2.
  assert (HP32 : P <= 2 ^ 32) by (unfold P; apply Z.pow_le_mono_r; lia).
  change (2 ^ 32) with 4294967296 in HP32.
  assert (Hs64 : 2 * s + 4 < 2 ^ 64) by (rewrite pow2_64; lia).
  split; [|exact Hs64].
  unfold G.GetIndex. cbv zeta.
  rewrite gen_slog by lia. fold k. rewrite !mask by lia. rewrite Z.shiftr_div_pow2 by lia.
  rewrite shl1 by lia. rewrite !Z.shiftl_mul_pow2 by lia. fold P B a b.
  rewrite pow2_64 in *.
  rewrite (wrapU_small 64 (s + 2)) by (rewrite pow2_64; lia).
  replace (s + 2 - P) with t by reflexivity.
  rewrite (wrapU_small 64 t) by (rewrite pow2_64; lia).
  assert (HtP : 0 <= t * P) by (apply Z.mul_nonneg_nonneg; lia).
  assert (HnB : 0 <= (n - 1) * B) by (apply Z.mul_nonneg_nonneg; lia).
  rewrite (wrapU_small 64 (t * P)) by (rewrite pow2_64; unfold n in Hn1; lia).
  rewrite (wrapU_small 64 (t * P + a)) by (rewrite pow2_64; fold n; lia). fold n.
  rewrite (wrapU_small 64 (n - 1)) by (rewrite pow2_64; lia).
  rewrite (wrapU_small 64 ((n - 1) * B)) by (rewrite pow2_64; lia).
  apply wrapU_small. rewrite pow2_64. lia.
Qed.

(* full-range round trip: every size_t index except (L = 0, index = SIZE_MAX) *)
Theorem seg_roundtrip_all L i : 0 <= L < 64 -> ok_index L i ->
  G.GetIndex L (fst (G.GetSegItemIndexes L i)) (snd (G.GetSegItemIndexes L i)) = i.
Proof.
  intros HL Hok. rewrite gen_seg_of_all by assumption. pose proof Hok as [Hi _].
  destruct (seg_of_slog L i ltac:(lia) ltac:(lia)) as [_ Hs].
  pose proof (item_lt_cnt L ltac:(lia) i ltac:(lia)) as Hj.
  pose proof (roundtrip L ltac:(lia) i ltac:(lia)) as R.
  destruct (gen_idx_of_all L _ _ HL Hs Hj) as [E _]; [rewrite R; exact Hok|]. rewrite E. exact R.
Qed.

(* the shift count of GetItemCount stays below 64 except for L = 63 and index >= 2^63 *)
Theorem item_lt_count_all L i : 0 <= L < 64 -> ok_index L i -> (L <= 62 \/ i < 2 ^ 63) ->
  let s := fst (G.GetSegItemIndexes L i) in let j := snd (G.GetSegItemIndexes L i) in
  0 <= s /\ 0 <= j < G.GetItemCount L s /\ G.GetItemCount L s = 2 ^ (slog s + L) /\ slog s + L < 64.
Proof.
  intros HL Hok Hc. rewrite gen_seg_of_all by assumption. cbv zeta. pose proof Hok as [Hi _].
  pose proof (ok_index1 L i HL Hok) as Hn.
  destruct (seg_of_slog L i ltac:(lia) ltac:(lia)) as [E Hs0].
  pose proof (item_lt_cnt L ltac:(lia) i ltac:(lia)) as Hj.
  pose proof (roundtrip L ltac:(lia) i ltac:(lia)) as R.
  destruct (gen_idx_of_all L _ _ HL Hs0 Hj) as [_ Hs64]; [rewrite R; exact Hok|].
  set (s := fst (seg_of L i)) in *. set (n := i / 2 ^ L + 1) in *.
  assert (Hk : slog s + L < 64).
  { rewrite E. pose proof (SegMath.pow2_pos L ltac:(lia)) as HB.
    destruct Hc as [Hc|Hc].
    - (* n <= 2^(64-L) < 2^(65-L) *)
      assert (E64 : 2 ^ 64 = 2 ^ (64 - L) * 2 ^ L) by (rewrite <- Z.pow_add_r by lia; f_equal; lia).
      assert (i / 2 ^ L < 2 ^ (64 - L)) by (apply Z.div_lt_upper_bound; nia).
      assert (n < 2 ^ (65 - L)).
      { replace (65 - L) with (64 - L + 1) by lia. rewrite SegMath.pow2_S by lia. unfold n.
        pose proof (SegMath.pow2_pos (64 - L) ltac:(lia)). lia. }
      pose proof (klog_le n (65 - L) ltac:(lia) ltac:(lia)). lia.
    - (* L = 63 allowed: i < 2^63 *)
      destruct (Z_le_dec L 62) as [Hle|Hgt].
      + assert (E64 : 2 ^ 64 = 2 ^ (64 - L) * 2 ^ L) by (rewrite <- Z.pow_add_r by lia; f_equal; lia).
        assert (i / 2 ^ L < 2 ^ (64 - L)) by (apply Z.div_lt_upper_bound; nia).
        assert (n < 2 ^ (65 - L)).
        { replace (65 - L) with (64 - L + 1) by lia. rewrite SegMath.pow2_S by lia. unfold n.
          pose proof (SegMath.pow2_pos (64 - L) ltac:(lia)). lia. }
        pose proof (klog_le n (65 - L) ltac:(lia) ltac:(lia)). lia.
      + assert (L = 63) by lia. subst L. assert (i / 2 ^ 63 = 0) by (apply Z.div_small; lia).
        assert (n = 1) by (unfold n; lia). rewrite H0. change (klog 1) with 0. lia. }
  rewrite gen_cnt_of by (try assumption; lia).
  unfold cnt_of at 2. repeat split; lia.
Qed.

(* L = 0, index = SIZE_MAX: index1 wraps to 0, Log2(0) = 63, and the result aliases the slot of index 2^62 - 1:
   this single argument is where the index <-> slot bijection stops *)
Theorem top_L0_aliases :
  G.GetSegItemIndexes 0 (2 ^ 64 - 1) = (2 ^ 32 - 2, 0) /\ G.GetSegItemIndexes 0 (2 ^ 62 - 1) = (2 ^ 32 - 2, 0) /\
  G.GetIndex 0 (2 ^ 32 - 2) 0 = 2 ^ 62 - 1.
Proof. vm_compute. repeat split; reflexivity. Qed.

(* L = 63: the indexes >= 2^63 live in segment 1, whose size would be 2^64: GetItemCount shifts by 64 (undefined
   behaviour in C++; the generated model wraps to 0) *)
Theorem top_L63_shift_64 :
  G.GetSegItemIndexes 63 (2 ^ 63) = (1, 0) /\ G.pvSegIndexToLogItemCount 1 + 63 = 64 /\ G.GetItemCount 63 1 = 0.
Proof. vm_compute. repeat split; reflexivity. Qed.

Theorem seg_contiguous_all L i : 0 <= L < 64 -> 0 <= i -> ok_index L (i + 1) -> (L <= 62 \/ i < 2 ^ 63) ->
  let s := fst (G.GetSegItemIndexes L i) in let j := snd (G.GetSegItemIndexes L i) in
  G.GetSegItemIndexes L (i + 1) = if Z.ltb (j + 1) (G.GetItemCount L s) then (s, j + 1) else (s + 1, 0).
Proof.
  intros HL Hi Hok1 Hc. assert (Hok : ok_index L i) by (destruct Hok1 as [H1 H2]; split; [lia|intros E; specialize (H2 E); lia]).
  pose proof (item_lt_count_all L i HL Hok Hc) as (_ & _ & Ecnt & _). cbv zeta in Ecnt.
  cbv zeta. rewrite Ecnt. rewrite !gen_seg_of_all by assumption.
  apply (contiguous L ltac:(lia) i Hi).
Qed.

(* final round: the two side conditions of seg_roundtrip_rev (2s+4 < 2^64, slog s + L < 64) follow from the fit of the exact index;
   GetItemCount itself is shown not to wrap *)
Theorem seg_roundtrip_rev_strong L s j : 0 <= L < 64 -> 0 <= s -> 0 <= j < cnt_of L s -> idx_of L s j < 2 ^ 64 - 2 ^ L ->
  G.GetItemCount L s = cnt_of L s /\ G.GetIndex L s j = idx_of L s j /\ G.GetSegItemIndexes L (G.GetIndex L s j) = (s, j).
Proof.
  intros HL Hs Hj Hfit.
  destruct (slot_fits L s j HL Hs Hj Hfit) as (Hk & Hk2 & Hs64 & _).
  assert (Hkl : slog s + L < 64) by lia.
  split; [apply gen_cnt_of; assumption|].
  apply seg_roundtrip_rev; try assumption; try lia. rewrite gen_cnt_of by assumption. lia.
Qed.
