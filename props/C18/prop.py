"""C18 – column lists give each column its own aligned slot and know only their columns (DataColumn.h).
proof : Coq theorems over an executable model of DataColumnList::pvAdd/pvFillAddends/pvAddEdges/Graph::FillAddends/
        pvAddColumns/pvGetOffset/Contains that calls the cxx2coq translations of GetVertices and Ceil
tie   : T-gen (GetVertices, Ceil; validated against the real functions) + T-cor (extracted model vs the real
        DataColumnList on the same Add histories: status, codeParam, total size, alignment, offsets, GetOffset,
        Contains, and the complete addends table after every Add)
oracle: the property predicate evaluated on the real class's observations (this file), raw create/import/destroy with
        construction counting and injected failures (harness.cpp)"""
import os

GEN = ['gen_vertices.json', 'gen_ceil.json', 'gen_list.json', 'gen_raw.json', 'gen_bits.json', 'gen_mut.json']
M64 = (1 << 64) - 1
# type index -> (size, alignment); harness.cpp checks sizeof / ItemTraits::GetAlignment / alignof against this table
TYPES = {0: (1, 1), 1: (2, 2), 2: (4, 4), 3: (8, 8), 4: (3, 1), 5: (6, 2), 6: (12, 4), 7: (16, 16), 8: (16, 16),
         9: (32, 8), 10: (16, 8), 11: (24, 8), 12: (16, 16), 13: (48, 16), 14: (5, 1), 15: (16, 8)}
PAIRS = [(0, 3), (9, 2), (10, 7), (12, 4), (1, 11), (13, 0), (3, 3), (10, 12)]
TRIPLES = [(0, 10, 3), (4, 12, 9), (2, 5, 13), (11, 13, 10)]
CONFIGS = [(4, 0), (4, 1), (5, 0), (6, 1), (7, 0), (8, 0), (8, 1), (15, 0)]
CONFIGS3 = [(9, 1), (10, 0), (11, 1), (12, 0), (13, 1), (14, 0)]       # harness3.cpp
NAMES = ['id', 'name', 'price', 'count', 'date', 'flag', 'weight', 'x', 'y', 'z', 'key', 'value', 'parent', 'child',
         'first', 'second', 'intCol', 'dblCol', 'strCol', 'row', 'a', 'b', 'c', 'col0', 'col1', 'col2', 'col3']


def fnv(name):
    """momo::internal::StrHasher::GetHashCode64 (FNV-1a over the reversed string); the harness re-checks it"""
    h = 14695981039346656037
    for ch in reversed(name.encode()):
        h = ((h ^ ch) * 1099511628211) & M64
    return h


def short_vertices(code, L):
    """(shortCode & mask, (shortCode >> L) & mask) – only used to AIM the generator at collisions"""
    s = (code + (code >> 32)) & M64
    s = (s + (s >> 16)) & M64
    if L < 8:
        s = (s + (s >> 8)) & M64
    m = (1 << L) - 1
    return (s & m, (s >> L) & m)


def aim_vertices(code, L, cp):
    s1, s2 = short_vertices(code, L)
    v1 = s1 ^ (cp >> 4); v2 = s2 ^ (cp & 15)
    return v1, v2 ^ (1 if v1 == v2 else 0)


def aim_first_param(codes, L, start):
    """first code parameter >= start for which the vertex graph of `codes` is a forest (None = none up to 255).
    Only used to AIM the generator at large mCodeParam values; what really happens is observed on the real class."""
    for cp in range(start, 256):
        parent = {}
        def find(x):
            while parent.get(x, x) != x:
                parent[x] = parent.get(parent[x], parent[x]); x = parent[x]
            return x
        ok = True
        for c in codes:
            a, b = aim_vertices(c, L, cp)
            ra, rb = find(a), find(b)
            if ra == rb: ok = False; break
            parent[ra] = rb
        if ok: return cp
    return None


def colstr(t, code, mut=False):
    return '%d %d %d %d' % (t + (100 if mut else 0), TYPES[t][0], TYPES[t][1], code)


def natural_layout(members):
    """C/C++ natural struct layout (independent oracle for the static column list): offsets, sizeof, alignof"""
    off = 0; al = 1; offs = []
    for (sz, a) in members:
        off = (off + a - 1) // a * a; offs.append(off); off += sz; al = max(al, a)
    return offs, (off + al - 1) // al * al, al

# the structs of harness2.cpp: members (size, alignment) in declaration order
STRUCTS = {1: [(1, 1), (8, 8), (32, 8), (2, 2), (16, 16), (4, 4)], 2: [(4, 4), (1, 1), (16, 16), (3, 1), (2, 2)]}


class CaseGen:
    def __init__(self, ctx):
        self.r = ctx.rng
        self.collide_cache = {}

    def code(self, L, used):
        r = self.r
        k = r.below(10)
        if k < 3:
            c = fnv(r.choice(NAMES) + (str(r.below(30)) if r.chance(1, 2) else ''))
        elif k < 5:
            c = r.below(64) * r.choice([1, 4, 8])                # member-offset like codes
        elif k < 6:
            c = r.next()
        elif k < 7:
            c = r.choice([0, 1, M64, M64 - 1, 1 << 32, (1 << 32) - 1, 1 << 63, (1 << 16) - 1, 1 << 16, 0xFFFF0000FFFF])
        elif k < 9 and used and L < 15:        # (a refusal costs the model 256 DFS runs over 2^15 vertices)
            # same vertex pair as an existing column for every code parameter (permanent collision) or a near miss
            base = r.choice(used)
            sv = short_vertices(base, L)
            c = None
            for _ in range(4000):
                cand = r.below(1 << (2 * L + 6))
                if cand != base and short_vertices(cand, L) == sv:
                    c = cand; break
            if c is None:
                c = base ^ (1 << r.below(64))
        else:
            c = r.below(1 << (2 * L))                             # dense in the vertex space: many cycles
        return c

    def history(self, L, keep, nops, dup_rate=10):
        r = self.r
        ops = []; used = []
        for _ in range(nops):
            k = r.below(100)
            if k < 12:
                ts = r.choice(PAIRS); tag = 'g'
            elif k < 20:
                ts = r.choice(TRIPLES); tag = 'h'
            else:
                ts = (r.below(16),); tag = 'a'
            cols = []
            muts = {1: r.choice([(False,), (False,), (True,)]), 2: r.choice([(False, False), (True, True), (True, False)]),
                    3: r.choice([(False, False, False), (False, True, False)])}[len(ts)]
            for t, mu in zip(ts, muts):
                if used and r.below(100) < dup_rate:
                    c = r.choice(used)                            # a column that is already there (or was refused)
                else:
                    c = self.code(L, used)
                used.append(c); cols.append(colstr(t, c, mu))
            ops.append(tag + ' ' + ' '.join(cols))
        return ops, used

    def finish(self, L, keep, ops, used, ctor=None):
        r = self.r
        if ctor is None: ctor = r.chance(1, 5)
        if ctor and ops and not any(t.isdigit() and 100 <= int(t) < 116 for t in ops[0].split()[1::4]):
            ops = [ops[0][0].upper() + ops[0][1:]] + ops[1:]       # first group through DataColumnList(column, columns...)
        extras = []
        for t in (9, 11, 2):
            c = r.next()
            if c not in used:
                extras.append('x ' + colstr(t, c))
        probes = [r.next(), r.below(256)] + [u ^ (1 << r.below(64)) for u in used[:3]]
        probes = [p for p in probes if p not in used]
        return '%d %d %s ; %s ; ? %s' % (L, keep, ' ; '.join(ops), ' ; '.join(extras), ' '.join(map(str, probes)))

    def cases(self, scale):
        r = self.r
        out = []
        # 1. a fixed universe of 20 named columns (string-hash codes): subsets and orders, every configuration
        uni = [(i % 16 if i != 17 else 9, 'u%d' % i if i % 2 else NAMES[i]) for i in range(20)]
        for (L, keep) in CONFIGS:
            maxc = 1 << (L - 1)
            for rep in range(6 * scale if L < 15 else 2):
                idx = list(range(20)); r.shuffle(idx)
                idx = idx[:r.range(1, min(20, maxc + 1))]
                ops = ['a %s %s' % (colstr(uni[i][0], fnv(uni[i][1])), uni[i][1]) for i in idx]
                out.append(self.finish(L, keep, ops, [fnv(uni[i][1]) for i in idx]))
        # 2. random histories aimed at retries, refusals, duplicates, the column limit
        for i in range(260 * scale):
            L, keep = r.choice(CONFIGS[:-1]) if r.below(70) else CONFIGS[-1]
            maxc = 1 << (L - 1)
            nops = r.range(1, min(14, maxc + 3))
            ops, used = self.history(L, keep, nops, dup_rate=r.choice([0, 5, 25]) if L < 15 else r.choice([0, 0, 4]))
            out.append(self.finish(L, keep, ops, used))
        # 3. fill to exactly the column limit, then one more (single and group) – small L only
        for (L, keep) in CONFIGS[:4]:
            maxc = 1 << (L - 1)
            for rep in range(3 * scale):
                ops = []; used = []
                while len(used) < maxc - r.below(2):
                    c = r.next() if rep % 2 else len(used) * 8
                    used.append(c); ops.append('a ' + colstr(r.below(16), c))
                c1, c2, c3 = r.next(), r.next(), r.next()
                ops.append('g %s %s' % (colstr(0, c1), colstr(3, c2)))
                ops.append('a ' + colstr(2, c3))
                ops.append('a ' + colstr(3, r.next()))
                out.append(self.finish(L, keep, ops, used + [c1, c2, c3]))
        if scale > 1:
            for keep in (0, 1):                                  # logVertexCount 8 filled to its 128 columns, then one more
                ops = []; used = []
                for i in range(128):
                    c = fnv('full%d' % i) if keep else 3 * i
                    used.append(c); ops.append('a ' + colstr(i % 16, c, i % 5 == 0))
                ops.append('a ' + colstr(2, 777777)); ops.append('g %s %s' % (colstr(0, 888888), colstr(3, 999999)))
                out.append(self.finish(8, keep, ops, used, ctor=False))
        # 4. layout boundaries: every ordered pair / many triples of types from an empty list
        for (L, keep) in ((8, 0), (8, 1)):
            for t1 in range(16):
                for t2 in range(16):
                    t3 = r.below(16)
                    ops = ['a ' + colstr(t, 1000 + 17 * k) for k, t in enumerate((t1, t2, t3))]
                    out.append(self.finish(L, keep, ops, [1000, 1017, 1034]))
        return out

    def cases3(self, scale):
        """harness3: vertex-count settings 9..14"""
        r = self.r; out = []
        for (L, keep) in CONFIGS3:
            for rep in range(2 if scale == 1 else 6):
                nops = r.range(2, 9)
                ops, used = self.history(L, keep, nops, dup_rate=r.choice([0, 0, 6]) if L < 12 else 0)
                out.append(self.finish(L, keep, ops, used))
        return out

    def param_cases(self, scale):
        """aimed at the retry loop: logVertexCount 4, codes dense in the vertex space, lists filled to 7-8 columns so that
        most code parameters fail (cycles) and the final mCodeParam gets large"""
        r = self.r; out = []
        for rep in range(40 * scale):
            keep = r.below(2)
            ops = []; used = []
            for _ in range(8):
                c = r.below(256) if rep % 2 else r.below(1 << 16)
                used.append(c); ops.append('a ' + colstr(r.choice([0, 1, 2, 3]), c, r.chance(1, 4)))
            out.append(self.finish(4, keep, ops, used, ctor=False))
        return out

    def high_param_cases(self, scale):
        """greedy adversarial histories: each next column is the candidate that pushes the first workable code parameter as
        far as possible (codeParam >> 4 != 0 only from 16 on; 255 is the last one); the last op is a column for which NO
        parameter works although it collides permanently with nobody (refusal by exhaustion)"""
        r = self.r; out = []
        for rep in range(12 * scale):
            L, keep = r.choice([(4, 0), (4, 1), (5, 0)])
            maxc = 1 << (L - 1)
            codes = []; cp = 0; ops = []
            exhausted = None
            for i in range(maxc):
                best = None
                for _ in range(120 if 2 * i >= maxc else 10):
                    c = r.below(1 << (2 * L + 2))
                    if c in codes: continue
                    f = aim_first_param(codes + [c], L, cp)
                    if f is None:
                        if len({short_vertices(x, L) for x in codes + [c]}) == len(codes) + 1: exhausted = c
                        continue
                    if best is None or f > best[0]: best = (f, c)
                if best is None: break
                cp, c = best; codes.append(c)
                ops.append('a ' + colstr(r.choice([0, 1, 2, 3, 4]), c, r.chance(1, 5)))
            used = list(codes)
            if exhausted is not None:
                ops.append('a ' + colstr(2, exhausted)); used.append(exhausted)
            out.append(self.finish(L, keep, ops, used, ctor=False))
        return out

    def fail_cases(self, scale):
        """F cases (harness2: every allocation failure point of every Add) and S cases (static column lists)"""
        r = self.r
        out = []
        for i in range(50 * scale):
            L, keep = r.choice([(4, 1), (8, 0)])
            maxc = 1 << (L - 1)
            nops = r.range(1, min(12, maxc + 3))
            ops, used = self.history(L, keep, nops, dup_rate=r.choice([0, 10, 25]))
            out.append('F ' + self.finish(L, keep, ops, used))
        for rep in range(2 * scale):        # fill to the column limit, group Add across it
            ops = []; used = []
            while len(used) < 7:
                c = r.next(); used.append(c); ops.append('a ' + colstr(r.below(16), c, r.chance(1, 3)))
            c1, c2 = r.next(), r.next()
            ops.append('g %s %s' % (colstr(0, c1), colstr(3, c2))); ops.append('a ' + colstr(2, c1)); ops.append('a ' + colstr(2, c2))
            out.append('F ' + self.finish(4, 1, ops, used + [c1, c2]))
        for rep in range(10 * scale):       # only group Adds: the hash set of codes grows in the middle of Insert(begin, end)
            ops = []; used = []
            for _ in range(r.range(6, 14)):
                ts = r.choice(TRIPLES) if r.below(3) else r.choice(PAIRS)
                cs = [r.next() for _ in ts]; used += cs
                ops.append(('h ' if len(ts) == 3 else 'g ') + ' '.join(colstr(t, c) for t, c in zip(ts, cs)))
            out.append('F ' + self.finish(8, 0, ops, used))
        # D cases: the dynamic list over struct S1: codes = member offsets (DataColumnCodeOffset), every subset / order
        offs, _, _ = natural_layout(STRUCTS[1]); stypes = [0, 3, 9, 1, 12, 2]
        for rep in range(14 * scale):
            L, keep = r.choice([(4, 0), (8, 1)])
            idx = list(range(6)); r.shuffle(idx); idx = idx[:r.range(1, 6)]
            ops = []; i = 0
            while i < len(idx):
                if i + 1 < len(idx) and (stypes[idx[i]], stypes[idx[i + 1]]) in PAIRS and r.below(2):
                    ops.append('g %s %s' % (colstr(stypes[idx[i]], offs[idx[i]]), colstr(stypes[idx[i + 1]], offs[idx[i + 1]]))); i += 2
                else:
                    ops.append('a ' + colstr(stypes[idx[i]], offs[idx[i]], r.chance(1, 4))); i += 1
            if r.below(3) == 0:
                ops.append('a ' + colstr(stypes[idx[0]], offs[idx[0]]))       # the same member again: refused
            out.append('D %d %d %s ; ? %s' % (L, keep, ' ; '.join(ops), ' '.join(str(o) for o in offs + [1, 7, 96])))
        for sid, ms in STRUCTS.items():
            for keep in (0, 1):
                for rep in range(5 * scale):
                    ops = []
                    for _ in range(r.range(0, 5)):
                        if r.below(4) == 0: ops.append('r')
                        else:
                            idx = list(range(len(ms))); r.shuffle(idx)
                            ops.append('m ' + ' '.join(map(str, idx[:r.range(1, 3)])))
                    out.append('S %d %d M %s%s' % (sid, keep, ' '.join('%d:%d' % m for m in ms), ''.join(' ; ' + o for o in ops)))
        return out

    def unit_cases(self, scale):
        """translator validation of GetVertices (v L code codeParam) and Ceil (c value mod)"""
        r = self.r
        out = []
        edge = [0, 1, 2, 15, 16, 17, 255, 256, 65535, 65536, (1 << 32) - 1, 1 << 32, (1 << 32) + 1, (1 << 48) + 12345, (1 << 63) - 1, 1 << 63, M64 - 1, M64]
        for L in range(4, 16):
            for c in edge + [fnv(n) for n in NAMES[:6]]:
                for cp in (0, 1, 15, 16, 17, 128, 254, 255):
                    out.append('v %d %d %d' % (L, c, cp))
            for _ in range(120 * scale):
                c = r.choice([r.next(), r.below(1 << (2 * L + 2)), r.below(1 << 34)])
                out.append('v %d %d %d' % (L, c, r.below(256)))
                # codes whose two short halves coincide (the vertex1 == vertex2 tie-break)
                h = r.below(1 << L)
                out.append('v %d %d %d' % (L, h | (h << L), r.choice([0, 17, 34, 0x55, r.below(256)])))
        for v in [0, 1, 2, 3, 7, 8, 9, 15, 16, 17, 31, 32, 33, 1000, (1 << 32) - 1, 1 << 32, (1 << 62) + 5, (1 << 63) - 16]:
            for m in (1, 2, 4, 8, 16, 3, 5):
                out.append('c %d %d' % (v, m))
        for _ in range(300 * scale):
            out.append('c %d %d' % (r.below(1 << r.range(1, 62)), r.choice([1, 2, 4, 8, 16])))
        # the real SetBit / GetBit: b <8 initial bytes as one 64-bit value> <bit index 0..63>
        for i in range(64):
            out.append('b %d %d' % (r.choice([0, M64, r.next()]), i))
        for _ in range(100 * scale):
            out.append('b %d %d' % (r.next(), r.below(64)))
        # the real pvGetOffset on arbitrary non-zero addends (wrap-around sums included): p L codeParam code addend1 addend2
        big = [1, 2, 1 << 63, (1 << 63) + 8, (1 << 64) - 1, (1 << 64) - 8, (1 << 32), 12345]
        for _ in range(250 * scale):
            a1 = r.choice(big) if r.below(2) else r.next() | 1
            a2 = r.choice(big) if r.below(2) else r.next() | 1
            out.append('p %d %d %d %d %d' % (r.choice([4, 8]), r.below(256), r.choice([r.next(), r.below(4096)]), a1, a2))
        return out


# ------------------------------------------------------------------------------------------------ oracle
def parse_case(case):
    w = case.split(' ; ')
    head = w[0].split()
    if head[0] in ('F', 'D'): head = head[1:]
    L, keep = int(head[0]), int(head[1])
    segs = [' '.join(head[2:])] + w[1:]
    ops = []; universe = []
    for s in segs:
        t = s.split()
        if not t: continue
        if t[0].lower() in ('a', 'g', 'h'):
            n = {'a': 1, 'g': 2, 'h': 3}[t[0].lower()]
            cols = [(int(t[1 + 4 * k + 3]), int(t[1 + 4 * k + 1]), int(t[1 + 4 * k + 2]), int(t[1 + 4 * k]) >= 100) for k in range(n)]   # (code,size,align,mutable)
            ops.append(cols)
            for c in cols:
                if c[0] not in universe: universe.append(c[0])
        elif t[0] == '?':
            for c in map(int, t[1:]):
                if c not in universe: universe.append(c)
    return L, keep, ops, universe


def check_case(case, out):
    """the property itself on the observations of the real DataColumnList.  returns (problem or None, nontrivial)"""
    if out.startswith('HARNESS') or out.startswith('?'):
        return 'harness problem: ' + out[:200], False
    if case.startswith('S '):
        return check_static(case, out)
    L, keep, ops, universe = parse_case(case)
    segs = out.split(' ; ')
    if case.startswith('F '):
        if segs[-1] != 'af ok':
            return 'allocation failure inside Add: ' + segs[-1], False
        segs = segs[:-1]
    if len(segs) != len(ops) + 3:
        return 'output has %d segments for %d ops' % (len(segs), len(ops)), False
    # per-FuncRecord createFunc / destroyFunc counts of pvCreateRaw: completed -> every record created once, none destroyed;
    # thrown -> exactly the created records are destroyed, each once
    for sc in segs[-1][3:].split('|'):
        w_ = sc.split(':', 1)[1].split() if ':' in sc else []
        if not w_: continue
        cs_ = w_[w_.index('c') + 1:w_.index('d')]; ds_ = w_[w_.index('d') + 1:]
        if w_[0] == 'T' and (any(x != '1' for x in cs_) or any(x != '0' for x in ds_)):
            return 'pvCreateRaw completed but createFunc/destroyFunc counts per record are %s / %s' % (cs_, ds_), False
        if w_[0] == 'F' and (cs_ != ds_ or any(x not in ('0', '1') for x in cs_)):
            return 'pvCreateRaw threw: records created %s but destroyed %s' % (cs_, ds_), False
    segs = segs[:-1]
    if segs[-2] != 'raw ok':
        return 'raw create/import/destroy: ' + segs[-2], False
    # event traces: every instrumented item constructed at most once, and destroyed iff constructed
    for sc in segs[-1][3:].split('|'):
        evs = sc.split(':', 1)[1].split() if ':' in sc else []
        for c in set(e[1:] for e in evs):
            if evs.count('C' + c) != 1 or evs.count('D' + c) != 1 or evs.index('C' + c) > evs.index('D' + c):
                return 'row life cycle: item of column %s not constructed once then destroyed once in "%s"' % (c, sc.strip()), False
    segs = segs[:-1]
    slot = 8 if keep else 0
    prev_body = None
    cols = []            # (code, size, align, off) as recorded by the oracle
    prev = {'cp': 0, 'ts': slot, 'al': 1}
    nontriv = False
    for k, (op, seg) in enumerate(zip(ops, segs)):
        parts = [p.split() for p in seg.split('|')]
        if len(parts) != 5:
            return 'op %d: malformed segment' % k, False
        st, cp, ts, al, n = parts[0][0], int(parts[0][1]), int(parts[0][2]), int(parts[0][3]), int(parts[0][4])
        recs = [tuple(map(int, x.split(':'))) for x in parts[0][5:]]
        looks = parts[1]; conts = parts[2]
        body = seg[1:]
        if n != len(recs):
            return 'op %d: GetCount %d but %d records' % (k, n, len(recs)), False
        if st in ('T', 'R'):
            nontriv = True
            if prev_body is not None and body != prev_body:
                return 'op %d: refused addition (%s) changed the list' % (k, st), False
            if prev_body is None and (cp, ts, al, n) != (0, slot, 1, 0) or (prev_body is None and parts[3]):
                return 'op %d: refused addition (%s) changed the empty list' % (k, st), False
            if st == 'T' and len(cols) + len(op) <= (1 << (L - 1)):
                return 'op %d: "Too many columns" below the limit' % k, False
        elif st == 'A':
            if len(cols) + len(op) > (1 << (L - 1)):
                return 'op %d: more than maxColumnCount columns accepted' % k, False
            if len(recs) != len(cols) + len(op):
                return 'op %d: column count %d after adding %d to %d' % (k, len(recs), len(op), len(cols)), False
            for (c, r) in zip(cols, recs):
                if (c[0], c[3]) != r:
                    return 'op %d: offset of existing column %d changed %d -> %s' % (k, c[0], c[3], r), False
            for (c, r) in zip(op, recs[len(cols):]):
                if r[0] != c[0]:
                    return 'op %d: record code %d != added code %d' % (k, r[0], c[0]), False
                cols.append((c[0], c[1], c[2], r[1], c[3]))
            if len(set(c[0] for c in cols)) != len(cols):
                return 'op %d: the same column was accepted twice' % k, False
            for c in cols:
                if c[3] % c[2] != 0: return 'op %d: offset %d of column %d not aligned to %d' % (k, c[3], c[0], c[2]), False
                if c[3] < slot: return 'op %d: column %d overlaps the row-number slot' % (k, c[0]), False
                if c[3] + c[1] > ts: return 'op %d: column %d [%d,%d) exceeds total size %d' % (k, c[0], c[3], c[3] + c[1], ts), False
                if al % c[2] != 0: return 'op %d: list alignment %d not a multiple of column alignment %d' % (k, al, c[2]), False
            so = sorted(cols, key=lambda c: c[3])
            for a, b in zip(so, so[1:]):
                if a[3] + a[1] > b[3]:
                    return 'op %d: columns %d and %d overlap' % (k, a[0], b[0]), False
            if ts < prev['ts'] or al < prev['al']:
                return 'op %d: total size / alignment decreased' % k, False
            if cp > prev['cp']: nontriv = True
            prev = {'cp': cp, 'ts': ts, 'al': al}
        else:
            return 'op %d: status %r' % (k, st), False
        # lookups and membership (after every op, also after refused ones)
        if len(looks) != len(cols) or any(int(x) != c[3] for x, c in zip(looks, cols)):
            return 'op %d: GetOffset lookups %s != recorded offsets %s' % (k, looks, [c[3] for c in cols]), False
        offs = {c[0]: c[3] for c in cols}
        if len(conts) != len(universe):
            return 'op %d: Contains results missing' % k, False
        for code, x in zip(universe, conts):
            want = str(offs[code]) if code in offs else '-'
            if x != want:
                return 'op %d: Contains(%d) gives %s, expected %s' % (k, code, x, want), False
        # IsMutable: exactly the offsets of the columns added as mutable; the bit array covers the row
        mpart = parts[4]
        if cols:
            want = sorted(c[3] for c in cols if c[4])
            if [int(x) for x in mpart[2:]] != want:
                return 'op %d: IsMutable true at %s, mutable columns are at %s' % (k, mpart[2:], want), False
            if int(mpart[1]) * 8 < ts:
                return 'op %d: mMutableOffsets has %s bytes for a row of %d bytes' % (k, mpart[1], ts), False
        prev_body = body
    return None, (nontriv or len(cols) >= 6)


def check_static(case, out):
    """DataColumnListStatic: offsets = the struct's member offsets (natural layout computed here, independently)"""
    w = case.split(' ; ')
    head = w[0].split()
    sid, keep = int(head[1]), int(head[2])
    ms = [tuple(map(int, m.split(':'))) for m in head[4:]]
    offs, size, al = natural_layout(ms)
    segs = [x.strip() for x in out.split(';')]
    if len(segs) != len(w) - 1 + 3:
        return 'static list: %d output segments for %d ops' % (len(segs), len(w) - 1), False
    h = [p.split() for p in segs[0].split('|')]
    if [int(x) for x in h[0]] != [size, al, size + (8 if keep else 0), al]:
        return 'static list: sizeof/alignof/GetTotalSize/GetAlignment %s, expected %s' % (h[0], [size, al, size + 8 * keep, al]), False
    for name, part in (('offsetof', h[1]), ('GetOffset', h[2]), ('Contains', h[3])):
        if [x for x in part] != [str(o) for o in offs]:
            return 'static list: %s gives %s, member offsets are %s' % (name, part, offs), False
    cur = set()
    for op, seg in zip(w[1:], segs[1:]):
        t = op.split()
        if t[0] == 'r': cur = set()
        else: cur |= set(offs[int(i)] for i in t[1:])
        if sorted(int(x) for x in seg.split()) != sorted(cur):
            return 'static list: IsMutable true at %s, expected %s' % (seg, sorted(cur)), False
    if segs[-2] != 'raw ok':
        return 'static list rows: ' + segs[-2], False
    if segs[-1].split()[1:] != [str(o) for o in offs]:
        return 'static list: VisitPointers visited %s' % segs[-1], False
    return None, True


def check_unit(case, out):
    w = case.split()
    try:
        if w[0] == 'v':
            L = int(w[1]); v1, v2 = map(int, out.split())
            if not (0 <= v1 < (1 << L) and 0 <= v2 < (1 << L) and v1 != v2):
                return 'GetVertices(%s, %s) for logVertexCount %d gives %d, %d' % (w[2], w[3], L, v1, v2)
        elif w[0] == 'b':
            v = int(w[1]) | (1 << int(w[2])); t = out.split()
            if [int(x) for x in t[:8]] != [(v >> (8 * k)) & 255 for k in range(8)] or t[8] != ''.join('1' if (v >> j) & 1 else '0' for j in range(64)):
                return 'SetBit(%s, %s) / GetBit give %s' % (w[1], w[2], out)
        elif w[0] == 'p':
            if int(out) != (int(w[4]) + int(w[5])) % (1 << 64):
                return 'pvGetOffset with addends %s, %s returns %s' % (w[4], w[5], out)
        elif w[0] == 'c':
            v, m = int(w[1]), int(w[2]); c = int(out)
            if v + m < (1 << 64) and not (v <= c < v + m and c % m == 0):
                return 'Ceil(%d, %d) = %d' % (v, m, c)
    except ValueError:
        return 'unparsable output %r' % out[:100]
    return None


def which_harness(case):
    if case[0] in 'FSD': return 'harness2'
    w = case.split()
    return 'harness3' if w[0].isdigit() and 9 <= int(w[0]) <= 14 else 'harness'


def replay(ctx, rp):
    case = rp.get('case')
    hn = which_harness(case) if case else 'harness'
    harness = ctx.cxx(hn + '.cpp', hn, ['-Wno-invalid-offsetof'])
    if harness is None:
        print('harness does not build'); return 2
    if not case:
        print('replay has no concrete case (no-failing-input-found): broken stages were', list(rp.get('broken', {}).keys())); return 1
    path = os.path.join(ctx.build, 'replay.cases'); open(path, 'w').write(case + '\n')
    rc, lines, err = ctx.run_lines([harness], path)
    out = lines[0] if lines else '<crash> ' + err[-300:]
    bad = check_unit(case, out) if case.split()[0] in ('v', 'c', 'p', 'b') else check_case(case, out)[0]
    print('case:', case, '\nimplementation:', out)
    if rp.get('model') is not None and rp.get('model') != out:
        print('model       :', rp['model']); bad = bad or 'model and implementation disagree'
    if bad:
        print(bad); print('VIOLATION property=C18 replay=%s' % ctx.replay); return 1
    print('property holds on this case'); return 0


def measure(case, out, dist):
    """what this history really exercised (measured from the case and the real class's output)"""
    try:
        L, keep, ops, _ = parse_case(case)
    except Exception:
        return
    key = '%d,%d' % (L, keep) + (' FailMM' if case.startswith('F ') else ' struct-codes' if case.startswith('D ') else '')
    d = dist['histories_per_config(logVertexCount,keepRowNumber)']; d[key] = d.get(key, 0) + 1
    segs = out.split(' ; ')
    toks = case.split()
    first_ctor = any(t in ('A', 'G', 'H') for t in toks[:4])
    ncols = 0; last_cp = 0
    for k, (op, seg) in enumerate(zip(ops, segs)):
        w = seg.split()
        if len(w) < 5 or w[0] not in ('A', 'R', 'T'): break
        if k == 0 and first_ctor: dist['add_calls_by_arity']['constructor(columns...)'] += 1
        else: dist['add_calls_by_arity']['Add(%d)' % len(op)] += 1
        if w[0] == 'A':
            for c in op:
                kk = '%d/%d' % (c[1], c[2]); t = dist['columns_added_per_item_type(size/align)']; t[kk] = t.get(kk, 0) + 1
            ncols += len(op); last_cp = int(w[1])
        elif w[0] == 'R':
            dist['refused_on_empty_list' if ncols == 0 else 'refused_on_nonempty_list'] += 1
    m = dist['max_columns_reached_per_logVertexCount']; m[str(L)] = max(m.get(str(L), 0), ncols)
    if ncols == 1 << (L - 1): dist['lists_filled_to_maxColumnCount'] += 1
    b = '0' if last_cp == 0 else '1-7' if last_cp < 8 else '8-15' if last_cp < 16 else '16+'
    dist['final_codeParam'][b] += 1
    ck = dist['code_kind']
    if case.startswith('D '): ck['member offset (DataColumnCodeOffset)'] += ncols
    else:
        named = sum(1 for s_ in case.split(' ; ') if s_.split() and s_.split()[0].lower() == 'a' and len(s_.split()) > 5 and s_.split()[-1] not in (';',) and not s_.split()[-1].isdigit())
        ck['string-hash (DataColumn(name))'] += named; ck['explicit 64-bit'] += max(0, ncols - named)
    dist['function_record_scenarios_compared_with_generated_pvCreateRaw'] = dist.get('function_record_scenarios_compared_with_generated_pvCreateRaw', 0) + sum(x.count('|') + 1 for x in segs if x.startswith('fr '))
    ev = [x for x in segs if x.startswith('ev ')]
    if ev and ' C' in ev[0]:
        dist['histories_with_instrumented_items'] += 1
        dist['row_failure_scenarios_compared_with_L2_model'] += ev[0].count('|')


def run_isolating(ctx, exe, cases, tag):
    """run the harness over all cases; if it dies (assertion / signal) the case it died on is reported and the run
    continues behind it, so one crash does not hide the other cases.  returns [(case, output line)]"""
    res = []; rest = list(cases); crashes = 0
    counters = ctx.coverage.setdefault('harness_counters', {'alloc_failure_points': 0, 'row_ctor_failures_injected': 0})
    while rest:
        path = os.path.join(ctx.build, 'oracle-%s.cases' % tag)
        open(path, 'w').write('\n'.join(rest) + '\n')
        rc, lines, err = ctx.run_lines([exe], path, timeout=75)      # rc 124 = hung (e.g. a corrupted edge list)
        for l in err.splitlines():
            if l.startswith('af '): counters['alloc_failure_points'] += int(l[3:])
            elif l.startswith('inj '): counters['row_ctor_failures_injected'] += int(l[4:])
        n = min(len(lines), len(rest))
        res += list(zip(rest[:n], lines[:n]))
        if rc == 0 and n == len(rest):
            break
        if n < len(rest):
            tail = ' '.join([l for l in err.strip().splitlines() if not l.startswith(('af ', 'inj '))][-3:])[-400:]
            res.append((rest[n], '<harness died on this case (%s)> %s' % ('hung: timeout' if rc == 124 else 'exit %s' % rc, tail)))
            rest = rest[n + 1:]; crashes += 1
            if crashes >= 3:
                break
        else:
            break
    return res


def run(ctx):
    import concurrent.futures as cf
    scale = 1 if ctx.quick() else 8
    ctx.trusted += ['tools/cxx2coq.py + clang 14 JSON AST for GetVertices and Ceil (validated on every run against the real functions)',
                    'extraction: ExtrOcamlBasic only (no Extract Constant), OCaml 4.13.1, zarith for decimal I/O only',
                    'g++ 12 -std=c++17, harness reaches mAddends/mCodeParam/mMutableOffsets/mColumnCodeSet via #define private public',
                    'hand-written executable model of pvAdd/FillAddends/Contains/IsMutable/static list (Model.v, Static.v), tied by running it against the real classes on every case']
    ctx.assumptions += ['item sizes <= 2^32 bytes, alignment a power of two <= 16 dividing the size (ObjectAlignmenter::Check with maxAlignment 16)',
                        'column codes are 64-bit; 4 <= logVertexCount <= 15; maxCodeParam = 255',
                        'mColumnCodeSet is modelled as a finite set with strong-guarantee Insert (HashSet correctness is C01/C03)',
                        'an allocation failure inside Add is a std::bad_alloc thrown by Reserve / SetCount / Insert, each with the strong guarantee']
    pool = cf.ThreadPoolExecutor(max_workers=6)
    fut1 = pool.submit(ctx.cxx, 'harness.cpp', 'harness')      # ~45 s of g++: overlap with regen/prove/extract
    fut2 = pool.submit(ctx.cxx, 'harness2.cpp', 'harness2', ['-Wno-invalid-offsetof'])
    fut3 = pool.submit(ctx.cxx, 'harness3.cpp', 'harness3')
    ctx.regen(GEN)
    # the statement trees of every instantiation of pvCreate<Item, Items...> (deep embedding, props/C18/proto2coq.py)
    gp_ = os.path.join(ctx.cdir, 'Gen_PvCreate.v')
    try:
        import importlib.util as ilu_
        sp_ = ilu_.spec_from_file_location('c18_proto2coq', os.path.join(ctx.pdir, 'proto2coq.py')); p2c_ = ilu_.module_from_spec(sp_); sp_.loader.exec_module(p2c_)
        txt_ = p2c_.translate(repo=ctx.repo)
        if not os.path.exists(gp_) or open(gp_).read() != txt_ + '\n':
            open(gp_, 'w').write(txt_ + '\n')
        ctx.tie_obligations.append({'name': 'dump pvCreate instantiations (Gen_PvCreate)', 'ok': True})
    except Exception as ex_:
        if os.path.exists(gp_): os.remove(gp_)
        ctx.tie_obligations.append({'name': 'dump pvCreate instantiations (Gen_PvCreate)', 'ok': False, 'error': str(ex_)[:300]})
        ctx.stage('regen-pvcreate', False, str(ex_))
    ctx.prove()
    have_model = bool(ctx.stages.get('prove', {}).get('ok') and ctx.stages.get('regen', {}).get('ok') and ctx.extract())
    harness = fut1.result(); err1 = getattr(ctx, 'last_cxx_error', '')
    harness2 = fut2.result(); harness3 = fut3.result()
    if harness is None or harness2 is None or harness3 is None:
        ctx.stage('build-harness', False, getattr(ctx, 'last_cxx_error', '') or err1)
        return ctx.finish(rule=RULE)
    gen = CaseGen(ctx)
    units = gen.unit_cases(scale)
    cases = gen.cases(scale) + gen.param_cases(scale) + gen.high_param_cases(scale)
    cases2 = gen.fail_cases(scale)
    cases3 = gen.cases3(scale)
    if have_model:
        mism, _ = ctx.correspond('translator-validation', units, [harness], [ctx.model_exe])
        ctx.tie_obligations.append({'name': 'generated GetVertices/Ceil == real C++ on %d cases' % len(units), 'ok': not mism})
        for (i, c, a, b) in mism[:2]:
            ctx.violation('generated Gallina and the real function disagree', {'case': c, 'impl': a, 'model': b}, found_input=True)
        # the model side is slow for logVertexCount 15: run 4 chunks in parallel, record one stage
        ev0, tv0 = ctx.evaluations, ctx.traces_validated
        chunks = [(harness, cases[k::4]) for k in range(4)] + [(harness2, cases2), (harness3, cases3)]
        res = list(pool.map(lambda kc: ctx.correspond('model-vs-DataColumnList-%d' % kc[0], kc[1][1], [kc[1][0]], [ctx.model_exe], timeout=(150 if ctx.quick() else 1200), stage=False),
                            list(enumerate(chunks))))
        mism = [m for (ms, _) in res for m in ms]
        crashed = [r for (_, r) in res if r[0] != 0 or r[2] != 0]
        ncases = len(cases) + len(cases2) + len(cases3)
        ctx.evaluations = ev0 + ncases; ctx.traces_validated = tv0 + ncases - len(mism)
        ctx.stage('corr:model-vs-DataColumnList', not mism and not crashed,
                  ('first disagreement: case %r impl=%r model=%r (%d total)' % (mism[0][1][:300], mism[0][2][:300], mism[0][3][:300], len(mism)) if mism else '') +
                  (' harness/model exit codes %s %s %s' % (crashed[0][0], crashed[0][2], crashed[0][1][-300:]) if crashed else ''))
        ctx.tie_obligations.append({'name': 'extracted model == real DataColumnList (status, codeParam, sizes, offsets, lookups, Contains, addends table, IsMutable, '
                                            'mMutableOffsets count, item life-cycle traces) on %d histories; == real DataColumnListStatic on %d cases; %d histories '
                                            'with every allocation failure point enumerated' % (len(cases), sum(c.startswith('S') for c in cases2), sum(c.startswith('F') for c in cases2)),
                                    'ok': not mism and not crashed})
        for (i, c, a, b) in mism[:2]:
            ctx.violation('model and implementation disagree', {'case': c, 'impl': a, 'model': b}, found_input=True)
    if any(not s['ok'] for s in ctx.stages.values()):
        ctx.log('a stage broke: searching the implementation for a failing input with the thorough generator')
        cases = cases + gen.cases(6) + gen.high_param_cases(3)
        cases2 = cases2 + gen.fail_cases(4)
        cases3 = cases3 + gen.cases3(3)
        units = units + gen.unit_cases(4)
    f1 = pool.submit(run_isolating, ctx, harness, units + cases, '1')
    f2 = pool.submit(run_isolating, ctx, harness2, cases2, '2')
    f3 = pool.submit(run_isolating, ctx, harness3, cases3, '3')
    results = f1.result() + f2.result() + f3.result()
    ctx.evaluations += len(results)
    bad = []
    dist = {'ops': 0, 'added': 0, 'refused': 0, 'too_many': 0, 'retries': 0, 'mutable_columns': 0,
            'histories_per_config(logVertexCount,keepRowNumber)': {}, 'columns_added_per_item_type(size/align)': {},
            'add_calls_by_arity': {'Add(1)': 0, 'Add(2)': 0, 'Add(3)': 0, 'constructor(columns...)': 0},
            'final_codeParam': {'0': 0, '1-7': 0, '8-15': 0, '16+': 0},
            'refused_on_empty_list': 0, 'refused_on_nonempty_list': 0, 'lists_filled_to_maxColumnCount': 0,
            'max_columns_reached_per_logVertexCount': {}, 'code_kind': {'string-hash (DataColumn(name))': 0, 'explicit 64-bit': 0, 'member offset (DataColumnCodeOffset)': 0},
            'histories_with_instrumented_items': 0, 'row_failure_scenarios_compared_with_L2_model': 0}
    for (c, out) in results:
        if c.split()[0] in ('v', 'c', 'p', 'b'):
            why = check_unit(c, out)
        elif out.startswith('<harness died'):
            why = out
        else:
            why, nt = check_case(c, out)
            if nt: ctx.nontrivial.add(c)
            if not c.startswith('S '):
                measure(c, out, dist)
                for seg in out.split(' ; '):
                    if seg[:2] in ('A ', 'R ', 'T '):
                        dist['ops'] += 1
                        dist['added'] += seg.startswith('A'); dist['refused'] += seg.startswith('R'); dist['too_many'] += seg.startswith('T')
                        dist['retries'] += (seg.startswith('A') and not seg.startswith('A 0 '))
                dist['mutable_columns'] += sum(1 for t in c.split() if t.isdigit() and 100 <= int(t) < 116)
        if why:
            bad.append((c, out, why))
            if len(bad) >= 5: break
    ctx.stage('oracle', not bad, bad[0][2] if bad else '')
    for (c, out, why) in bad[:3]:
        ctx.violation(why, {'case': c, 'impl_output': out[:2000],
                            'cmd': "echo '%s' | build/C18/%s" % (c, which_harness(c))}, found_input=True)
    for c in (cases[::max(1, len(cases) // 4)][:4] + cases2[:1] + cases2[-1:]):
        ctx.add_sample(c[:400])
    dist['histories'] = len(cases); dist['unit_cases'] = len(units)
    dist['alloc_failure_histories'] = sum(c.startswith('F') for c in cases2); dist['static_list_cases'] = sum(c.startswith('S') for c in cases2)
    dist['dynamic_list_with_member_offset_codes'] = sum(c.startswith('D') for c in cases2)
    dist.update(ctx.coverage.get('harness_counters', {}))
    ctx.coverage['input_distribution'] = dist
    return ctx.finish(rule=RULE)


RULE = ('cases = Add histories on the real DataColumnList for logVertexCount in {4,5,6,7,8,15} x keepRowNumber: subsets/orders of a '
        '20-column universe with string-hash codes, random histories (single/pair/triple Add; codes: string hashes, member-offset '
        'like, random 64-bit, boundary values, codes dense in the vertex space, permanent vertex collisions, duplicates), fills to the '
        'column limit +1, all ordered type pairs; plus unit cases for GetVertices/Ceil.  distinct = distinct case line; non-trivial = '
        'a history with a retry (codeParam > 0), a refusal, or at least 6 columns.  Plus (harness2) histories over a memory manager '
        'whose k-th allocation fails, every k until the Add gets through, and DataColumnListStatic over two real structs with '
        'MOMO_DATA_COLUMN_STRUCT columns (SetMutable/ResetMutable sequences, rows, VisitPointers)')
