(* Property C09 -- theorems only.  Each is closed by `exact <lemma>` and followed by Print Assumptions.
   Gen_*.v are regenerated from /repo's headers on every run. *)
From Coq Require Import ZArith List.
From MomoCommon Require Import GenPrelude.
From C09 Require Gen_UIntMath Gen_MemPoolConst Gen_MemPool PoolLayout PoolLinks PoolArith.
Import ListNotations.
Local Open Scope Z_scope.

(* UIntMath::Ceil(v, m) is the least multiple of m that is >= v whenever v + m does not overflow *)
Theorem C09_ceil_spec : forall v m, 0 <= v -> 0 < m -> v + m < 2 ^ 64 ->
  exists k, Gen_UIntMath.Ceil v m = m * k /\ v <= m * k < v + m.
Proof. exact PoolArith.Ceil_spec. Qed.
Print Assumptions C09_ceil_spec.
