#!/usr/bin/env python3
"""C14 implementation dispatcher.
  run_impl.py run <build dir> <suffix>     cases on stdin -> full harness lines on stdout (routed to the binary built
                                           for the case's trait combination, binaries run in parallel, order kept)
  run_impl.py tie <file>                   ignore stdin; print the tie part of every line of <file>
"""
import sys, os, subprocess, concurrent.futures as cf

def binary_for(tr, build, suffix):
    return os.path.join(build, ('harness_N' if tr == 'N' else 'harness_%s' % tr) + suffix)

def run_all(cases, build, suffix=''):
    groups = {}
    for i, c in enumerate(cases):
        groups.setdefault(c.split()[0] if c.split() else '?', []).append(i)
    out = [None] * len(cases)
    def work(tr):
        idx = groups[tr]
        exe = binary_for(tr, build, suffix)
        if not os.path.exists(exe):
            return tr, ['no-binary | orc=no-binary-for-traits-%s' % tr] * len(idx)
        env = dict(os.environ); env.setdefault('ASAN_OPTIONS', 'detect_leaks=1:abort_on_error=1')
        r = subprocess.run([exe], input='\n'.join(cases[i] for i in idx) + '\n', capture_output=True, text=True, env=env, timeout=1800)
        lines = r.stdout.splitlines()
        lines += ['missing | orc=harness-died(rc=%d)' % r.returncode] * (len(idx) - len(lines))
        return tr, lines[:len(idx)]
    with cf.ThreadPoolExecutor(max_workers=8) as ex:
        for tr, lines in ex.map(work, list(groups)):
            for i, l in zip(groups[tr], lines):
                out[i] = l
    return out

if __name__ == '__main__':
    if sys.argv[1] == 'tie':
        for l in open(sys.argv[2]):
            print(l.rstrip('\n').split(' | ')[0])
    else:
        cases = [l.rstrip('\n') for l in sys.stdin if l.strip()]
        for l in run_all(cases, sys.argv[2], sys.argv[3] if len(sys.argv) > 3 else ''):
            print(l)
