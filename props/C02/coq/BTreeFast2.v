(* C02 -- pvMergeFast completed: the separator is taken from the edge of the shorter tree, the whole concatenation *)
From Coq Require Import List ZArith Arith Lia Bool Sorted.
From C02 Require Import BTreeModel BTreeParams BTreeBase BTreeSearch BTreeIter BTreeAdd BTreeRemove BTreeCtx BTreeRemove2
  BTreeTrack BTreeRemove3 BTreeFast BTreeTop BTreeHist BTreeRemoveTop BTreeHist2 BTreeMerge.
Import ListNotations.
Local Open Scope Z_scope.

Lemma tl_remove_at {A} (l : list A) : tl l = remove_at 0 l.
Proof. destruct l; reflexivity. Qed.

Section Fast2.
Variable maxCap : nat.
Hypothesis Hmc : (1 <= maxCap <= 255)%nat.
Notation shape := (shape maxCap).
Notation twf := (twf maxCap).
Let Hpos : (0 < maxCap)%nat. Proof. lia. Qed.

Lemma edge_caps_of_shape e : forall swp n2 ds, shape (e + ds) n2 -> edge_caps maxCap e swp n2.
Proof.
  induction e as [|e IH]; intros swp n2 ds Sh; [exact I|]. cbn [plus] in Sh. cbn [edge_caps].
  pose proof Sh as (_ & _ & _ & _ & C). split; [exact C|].
  destruct (nth_error (n_children n2) (if swp then n_count n2 else 0%nat)) as [ch|] eqn:E; [|exact I].
  apply (IH swp ch ds). eapply shape_child; eauto.
Qed.

(* ---------- the node that holds the first / last item of a tree ---------- *)
Lemma drop_first_node d nd j x :
  shape d nd -> (j < n_count nd)%nat -> nth_error (n_items nd) j = Some x -> before [] nd j = [] ->
  shape d (drop_edge true nd) /\ flatten nd = x :: flatten (drop_edge true nd).
Proof.
  intros Sh Hj Ex B. unfold drop_edge. destruct (is_leaf nd) eqn:Lf.
  - pose proof (shape_leaf _ _ _ Sh Lf). subst d. pose proof Sh as (A1 & A2 & A3).
    cbn [before] in B. rewrite Lf in B.
    assert (j = 0)%nat. { destruct j; auto. unfold n_count in Hj. destruct (n_items nd); simpl in *; [lia | discriminate]. } subst j.
    rewrite (flatten_leaf _ Lf). destruct (n_items nd) as [|k ks] eqn:Ek; [discriminate|]. simpl in Ex. inversion Ex; subst k.
    split; [|reflexivity]. cbn [BTreeBase.shape tl]. unfold n_count in *. rewrite Ek in *. cbn [n_items n_cap n_children length] in *.
    repeat split; auto; lia.
  - destruct (shape_internal _ _ _ Sh Lf) as [dd ->]. cbn [before] in B. rewrite Lf in B.
    apply app_eq_nil in B. destruct B as [Bp Bc].
    assert (j = 0)%nat.
    { destruct j as [|j']; auto. exfalso. pose proof Sh as (_ & _ & L & _).
      destruct (shape_child_ex _ _ _ j' Sh ltac:(lia)) as (c' & Ec' & _).
      rewrite (pre_snoc nd j' c' L Ec' ltac:(lia)) in Bp. destruct (pre nd j'); destruct (flatten c'); discriminate. }
    subst j.
    destruct (shape_child_ex _ _ _ 0%nat Sh ltac:(lia)) as (c0 & Ec0 & _). rewrite (nth_flat nd 0 c0 Ec0) in Bc.
    destruct (remove_node_none maxCap Hpos dd nd 0 Sh Hj) as (S2 & F2 & _ & _).
    rewrite <- !tl_remove_at in S2, F2. split; [exact S2|].
    pose proof Sh as (_ & _ & L & _). rewrite (flatten_split nd 0 c0 L Ec0), Bc, F2.
    destruct (post_head nd 0 Hj) as [T ET]. rewrite ET, (nth_error_nth' _ _ _ 0 Ex). reflexivity.
Qed.

Lemma drop_last_node d nd j x :
  shape d nd -> (j < n_count nd)%nat -> nth_error (n_items nd) j = Some x -> after [] nd j = [x] ->
  shape d (drop_edge false nd) /\ flatten nd = flatten (drop_edge false nd) ++ [x].
Proof.
  intros Sh Hj Ex A. unfold drop_edge. destruct (is_leaf nd) eqn:Lf.
  - pose proof (shape_leaf _ _ _ Sh Lf). subst d. pose proof Sh as (A1 & A2 & A3).
    cbn [after] in A. rewrite Lf in A. rewrite (flatten_leaf _ Lf).
    assert (Hne : n_items nd <> []) by (unfold n_count in Hj; destruct (n_items nd); simpl in *; [lia | discriminate]).
    pose proof (app_removelast_last 0 Hne) as E.
    assert (El : last (n_items nd) 0 = x).
    { rewrite <- (firstn_skipn j (n_items nd)), A. clear. induction (firstn j (n_items nd)) as [|a l IH]; [reflexivity|].
      simpl. destruct (l ++ [x]) eqn:El; [destruct l; discriminate|]. exact IH. }
    rewrite El in E. split; [|exact E].
    cbn [BTreeBase.shape]. unfold n_count in *. cbn [n_items n_cap n_children]. rewrite removelast_length. repeat split; auto; lia.
  - destruct (shape_internal _ _ _ Sh Lf) as [dd ->]. cbn [after] in A. rewrite Lf in A.
    pose proof Sh as (H1 & H2 & L & F & Cp).
    (* post nd j = [x] forces j = count - 1 and an empty last child *)
    unfold post in A. rewrite (skipn_head' _ _ _ Ex) in A. cbn [tailpart] in A.
    assert (A' : interleave (skipn (S j) (map flatten (n_children nd))) (skipn (S j) (n_items nd)) = []) by congruence.
    assert (Hks : skipn (S j) (n_items nd) = []).
    { destruct (skipn (S j) (n_items nd)) as [|k ks] eqn:E; [reflexivity|]. exfalso.
      destruct (skipn (S j) (map flatten (n_children nd))) as [|c cs]; simpl in A'; [discriminate|].
      destruct c; discriminate. }
    assert (Hjc : S j = n_count nd).
    { apply (f_equal (@length Z)) in Hks. rewrite skipn_length in Hks. simpl in Hks. unfold n_count in *. lia. }
    destruct (shape_child_ex _ _ _ (n_count nd) Sh (le_n _)) as (ch & Ech & Sch).
    assert (Fch : flatten ch = []).
    { rewrite Hks in A'. rewrite skipn_map', Hjc in A'. rewrite (skipn_head' _ _ _ Ech) in A'. cbn [map interleave] in A'.
      exact A'. }
    assert (Hk : n_items nd <> []) by (unfold n_count in Hj; destruct (n_items nd); simpl in *; [lia | discriminate]).
    assert (Hcs : n_children nd <> []) by (destruct (n_children nd); simpl in *; [lia | discriminate]).
    pose proof (app_removelast_last 0 Hk) as Eks. pose proof (app_removelast_last nd Hcs) as Ecs.
    assert (El : last (n_children nd) nd = ch).
    { apply last_nth_error. rewrite L. replace (S (n_count nd) - 1)%nat with (n_count nd) by lia. exact Ech. }
    assert (Ex' : last (n_items nd) 0 = x).
    { apply last_nth_error. unfold n_count in Hjc. replace (length (n_items nd) - 1)%nat with j by lia. exact Ex. }
    rewrite El in Ecs. rewrite Ex' in Eks. split.
    + cbn [BTreeBase.shape]. unfold n_count in *. cbn [n_items n_cap n_children]. rewrite !removelast_length.
      split; [lia|]. split; [lia|]. split; [lia|]. split; [apply Forall_removelast; exact F | exact Cp].
    + cbn [flatten]. rewrite flatten_unfold. rewrite Ecs at 1. rewrite Eks at 1.
      rewrite map_app. cbn [map]. rewrite interleave_app2 by (rewrite map_length, !removelast_length; unfold n_count in *; lia).
      cbn [interleave]. rewrite Fch. reflexivity.
Qed.

(* ---------- edge_remove ---------- *)
Lemma edge_remove_spec swp t r :
  twf t -> root t = Some r -> contents t <> [] ->
  exists x small, edge_remove swp t = Some (x, small) /\ shape (height r) small /\
    contents t = if swp then x :: flatten small else flatten small ++ [x].
Proof.
  intros W Er Hne. unfold edge_remove. rewrite Er.
  assert (Hlen : (0 < length (contents t))%nat) by (destruct (contents t); [congruence | simpl; lia]).
  set (it := if swp then begin_iter t else prev t (end_iter t)).
  assert (Pit : tvalid t it /\ titem t it /\
                (if swp then iter_index t it = 0%nat else S (iter_index t it) = length (contents t))).
  { unfold it. destruct swp.
    - destruct (begin_spec maxCap Hmc t W) as [[V [Hi|Hi]] I]; [auto|].
      exfalso. rewrite Hi, (index_end maxCap) in I by exact W. lia.
    - pose proof (tvalid_end maxCap Hmc t W) as Ve.
      destruct (prev_spec maxCap Hmc t (end_iter t) W Ve) as (V & Hi & I); [rewrite (index_end maxCap) by exact W; lia|].
      rewrite (index_end maxCap) in I by exact W. auto. }
  destruct Pit as (V & Hi & Ix).
  destruct (item_index maxCap Hmc t it W V Hi) as (Hlt & Ed & _).
  unfold deref in *. rewrite Er in *. unfold tvalid, titem, iter_index, contents, BTreeTop.twf in *. rewrite Er in *.
  destruct W as [Sh C]. destruct it as [p j]. cbn [fst snd] in *.
  destruct (after_item maxCap _ p r j Sh V Hi) as (x & tl0 & Ei & Ea). rewrite Ei.
  exists x, (update_at p (drop_edge swp) r). split; [reflexivity|].
  destruct (node_at_valid maxCap Hpos p _ r j Sh V) as (nd & En & Snd & _ & Lp).
  pose proof (has_item_inv p r nd j En Hi) as Hj.
  pose proof (valid_0 maxCap Hpos p _ r j V) as V0.
  destruct (ctx_pos p _ r j nd V En) as [Bp Ap].
  assert (Exn : nth_error (n_items nd) j = Some x).
  { clear - Ei En. revert r En Ei. induction p as [|c p IH]; intros r En Ei; simpl in *.
    - inversion En; subst. exact Ei.
    - destruct (nth_error (n_children r) c); [eauto | discriminate]. }
  pose proof (before_after maxCap _ p r j Sh V) as Hfl.
  rewrite (update_at_const p _ r nd En).
  destruct swp.
  - assert (B0 : before p r j = []) by (destruct (before p r j); [reflexivity | simpl in Ix; lia]).
    rewrite Bp in B0. apply app_eq_nil in B0. destruct B0 as [Bc Bn].
    destruct (drop_first_node _ nd j x Snd Hj Exn Bn) as [Sn Fn].
    destruct (update_ctx maxCap Hpos p _ r _ Sh V0 Sn) as (S1 & N1 & B1 & A1 & V1).
    split; [exact S1|].
    rewrite (flatten_ctx maxCap p _ _ _ S1 V1 N1), B1, A1, Bc.
    rewrite (flatten_ctx maxCap p _ r nd Sh V0 En), Bc, Fn. reflexivity.
  - assert (A0 : tl0 = []).
    { rewrite <- Hfl, Ea, app_length in Ix. simpl in Ix. destruct tl0; [reflexivity | simpl in Ix; lia]. }
    subst tl0. rewrite Ap in Ea.
    assert (An : after [] nd j = [x] /\ ctxa p r = []).
    { destruct (after [] nd j) as [|y ys] eqn:Ey.
      - exfalso. cbn [after] in Ey. destruct (is_leaf nd).
        + apply (f_equal (@length Z)) in Ey. rewrite skipn_length in Ey. simpl in Ey. unfold n_count in Hj. lia.
        + destruct (post_head nd j Hj) as [T ET]. congruence.
      - simpl in Ea. assert (E1 : y = x) by congruence. assert (E2 : ys ++ ctxa p r = []) by congruence.
        apply app_eq_nil in E2. destruct E2 as [E2 E3]. rewrite E1, E2. auto. }
    destruct An as [An Ac].
    destruct (drop_last_node _ nd j x Snd Hj Exn An) as [Sn Fn].
    destruct (update_ctx maxCap Hpos p _ r _ Sh V0 Sn) as (S1 & N1 & B1 & A1 & V1).
    split; [exact S1|].
    rewrite (flatten_ctx maxCap p _ _ _ S1 V1 N1), B1, A1, Ac.
    rewrite (flatten_ctx maxCap p _ r nd Sh V0 En), Ac, Fn, !app_nil_r, <- app_assoc. reflexivity.
Qed.

(* ---------- pvMergeFast as a whole ---------- *)
Theorem merge_fast_spec tl_ tr :
  twf tl_ -> twf tr -> contents tl_ <> [] -> contents tr <> [] ->
  exists r d, merge_fast maxCap tl_ tr = Some r /\ shape d r /\ flatten r = contents tl_ ++ contents tr.
Proof.
  intros Wl Wr Nl Nr. unfold merge_fast.
  destruct (root tl_) as [rl|] eqn:Erl; [|unfold contents in Nl; rewrite Erl in Nl; congruence].
  destruct (root tr) as [rr|] eqn:Err; [|unfold contents in Nr; rewrite Err in Nr; congruence].
  pose proof Wl as Wl'. pose proof Wr as Wr'. unfold BTreeTop.twf in Wl', Wr'. rewrite Erl in Wl'. rewrite Err in Wr'.
  destruct Wl' as [Sl _]. destruct Wr' as [Sr _].
  assert (Cl : contents tl_ = flatten rl) by (unfold contents; rewrite Erl; reflexivity).
  assert (Cr : contents tr = flatten rr) by (unfold contents; rewrite Err; reflexivity).
  destruct (height rr <? height rl)%nat eqn:Esw.
  - apply Nat.ltb_lt in Esw.
    destruct (edge_remove_spec true tr rr Wr Err Nr) as (x & small & Ee & Ss & Ec). rewrite Ee.
    assert (Sb : shape ((height rl - height rr) + height rr) rl) by (replace (height rl - height rr + height rr)%nat with (height rl) by lia; exact Sl).
    destruct (fast_join_spec maxCap Hpos _ true x small rl _ Sb Ss (edge_caps_of_shape _ true rl _ Sb)) as (d' & Sd & Fd).
    unfold fast_join in Sd, Fd.
    destruct (fast_attach maxCap (height rl - height rr) true x small rl) as [r|]; eexists; exists d'; (split; [reflexivity|]); split; auto;
      rewrite Fd, Cl, Ec; reflexivity.
  - apply Nat.ltb_ge in Esw.
    destruct (edge_remove_spec false tl_ rl Wl Erl Nl) as (x & small & Ee & Ss & Ec). rewrite Ee.
    assert (Sb : shape ((height rr - height rl) + height rl) rr) by (replace (height rr - height rl + height rl)%nat with (height rr) by lia; exact Sr).
    destruct (fast_join_spec maxCap Hpos _ false x small rr _ Sb Ss (edge_caps_of_shape _ false rr _ Sb)) as (d' & Sd & Fd).
    unfold fast_join in Sd, Fd.
    destruct (fast_attach maxCap (height rr - height rl) false x small rr) as [r|]; eexists; exists d'; (split; [reflexivity|]); split; auto;
      rewrite Fd, Cr, Ec, <- app_assoc; reflexivity.
Qed.

End Fast2.

(* ---------- MergeTo for ALL paths ---------- *)
Section MergeAll.
Variables (maxCap stepRaw blockCount : nat) (linear multi : bool).
Hypothesis Hmc : (1 <= maxCap <= 255)%nat.
Notation twf := (twf maxCap).
Notation sorted := (sorted multi).
Notation spec_merge := (spec_merge multi).
Notation Rm := (R multi).

Lemma ss_le_last l : StronglySorted Rm l -> Forall (fun x => x <= last l 0) l.
Proof.
  induction 1 as [|a l S IH F]; [constructor|]. constructor.
  - destruct l as [|b l']; [simpl; lia|]. change (last (a :: b :: l') 0) with (last (b :: l') 0).
    inversion F; subst. inversion IH; subst. unfold R in H1. destruct multi; lia.
  - destruct l as [|b l']; [constructor|]. change (last (a :: b :: l') 0) with (last (b :: l') 0). exact IH.
Qed.

Lemma ss_hd_le l : StronglySorted Rm l -> Forall (fun y => hd 0 l <= y) l.
Proof.
  intros S. destruct S as [|a l S F]; [constructor|]. simpl. constructor; [lia|].
  eapply Forall_impl; [|exact F]. intros y Hy. unfold R in Hy. destruct multi; lia.
Qed.

Lemma ss_join a b :
  StronglySorted Rm a -> StronglySorted Rm b -> Rm (last a 0) (hd 0 b) -> StronglySorted Rm (a ++ b).
Proof.
  intros Sa Sb Rab. apply ss_app; auto.
  pose proof (ss_le_last a Sa) as Fa. pose proof (ss_hd_le b Sb) as Fb.
  rewrite Forall_forall in *. intros x Hx. apply Forall_forall. intros y Hy.
  specialize (Fa x Hx). specialize (Fb y Hy). cbv beta in *. unfold R in *. destruct multi; lia.
Qed.

Lemma spec_merge_rest_incl sl : forall dl x, In x (fst (spec_merge sl dl)) -> In x sl.
Proof.
  induction sl as [|k sl IH]; intros dl x H; cbn [BTreeHist2.spec_merge] in H; [exact H|].
  destruct (spec_insert multi dl k) as [[dl' ix] ins]. specialize (IH dl' x).
  destruct (spec_merge sl dl') as [rest dl2]. cbn [fst] in *.
  destruct ins; [right; auto|]. destruct H as [->|H]; [left; reflexivity | right; auto].
Qed.

Lemma spec_merge_rest_sorted sl : forall dl, StronglySorted Rm sl -> StronglySorted Rm (fst (spec_merge sl dl)).
Proof.
  induction sl as [|k sl IH]; intros dl S; cbn [BTreeHist2.spec_merge]; [constructor|].
  inversion S; subst. destruct (spec_insert multi dl k) as [[dl' ix] ins].
  pose proof (IH dl' H1) as S'. pose proof (spec_merge_rest_incl sl dl') as Inc.
  destruct (spec_merge sl dl') as [rest dl2]. cbn [fst] in *.
  destruct ins; auto. constructor; auto.
  apply Forall_forall. intros x Hx. rewrite Forall_forall in H2. apply H2. apply Inc. exact Hx.
Qed.

Lemma key_ordered_Rm a b : BTreeModel.key_ordered multi a b = true -> Rm a b.
Proof. unfold BTreeModel.key_ordered, R. destruct multi; [rewrite negb_true_iff, Z.ltb_ge | rewrite Z.ltb_lt]; tauto. Qed.

(* MergeTo, every path: empty source, empty destination (swap), pvMergeFast in either direction, pvMergeTo, pvMergeToLinear *)
Theorem merge_to_refines_all src dst :
  twf src -> twf dst -> sorted (contents src) -> sorted (contents dst) ->
  exists src' dst', merge_to maxCap stepRaw blockCount linear multi src dst = Some (src', dst') /\
    twf src' /\ twf dst' /\ sorted (contents src') /\ sorted (contents dst') /\
    (contents src', contents dst') = spec_merge (contents src) (contents dst).
Proof.
  intros Ws Wd Ss Sd.
  pose proof (count_is_length maxCap Hmc src Ws) as Cs. pose proof (count_is_length maxCap Hmc dst Wd) as Cd.
  assert (SsR : StronglySorted Rm (contents src)) by (apply (sorted_R maxCap multi Hmc); exact Ss).
  assert (SdR : StronglySorted Rm (contents dst)) by (apply (sorted_R maxCap multi Hmc); exact Sd).
  assert (Srest : forall s', contents s' = fst (spec_merge (contents src) (contents dst)) -> sorted (contents s')).
  { intros s' E. apply (sorted_R maxCap multi Hmc). rewrite E. apply spec_merge_rest_sorted. exact SsR. }
  destruct (Nat.eq_dec (cnt src) 0) as [E0|E0]; [|destruct (Nat.eq_dec (cnt dst) 0) as [E1|E1]].
  - (* nothing to move *)
    exists src, dst. unfold merge_to. rewrite E0. cbn [Nat.eqb]. rewrite E0 in Cs.
    destruct (contents src) eqn:Ec; [|discriminate]. cbn [BTreeHist2.spec_merge].
    split; [reflexivity|]. split; [exact Ws|]. split; [exact Wd|]. split; [exact Ss|]. split; [exact Sd|]. reflexivity.
  - destruct (merge_to_refines maxCap stepRaw blockCount linear multi Hmc src dst
                {| root := root dst; cnt := cnt dst |} {| root := root src; cnt := cnt src |} Ws Wd Ss Sd) as (A & B & C & D).
    + intros _ H. congruence.
    + unfold merge_to. destruct (cnt src =? 0)%nat eqn:Q0; [apply Nat.eqb_eq in Q0; congruence|].
      destruct (cnt dst =? 0)%nat eqn:Q1; [reflexivity | apply Nat.eqb_neq in Q1; congruence].
    + exists {| root := root dst; cnt := cnt dst |}, {| root := root src; cnt := cnt src |}. split.
      * unfold merge_to. destruct (cnt src =? 0)%nat eqn:Q0; [apply Nat.eqb_eq in Q0; congruence|].
        destruct (cnt dst =? 0)%nat eqn:Q1; [reflexivity | apply Nat.eqb_neq in Q1; congruence].
      * split; [exact A|]. split; [exact B|]. split; [apply Srest; rewrite <- D; reflexivity|]. split; [exact C | exact D].
  - assert (Ns : contents src <> []) by (intros H; rewrite H in Cs; simpl in Cs; lia).
    assert (Nd : contents dst <> []) by (intros H; rewrite H in Cd; simpl in Cd; lia).
    assert (Emp : twf {| root := None; cnt := 0 |} /\ contents {| root := None; cnt := 0 |} = []) by (split; reflexivity).
    destruct Emp as [We Ce].
    assert (Se : sorted (contents {| root := None; cnt := 0 |})) by (rewrite Ce; unfold BTreeHist.sorted; destruct multi; constructor).
    destruct (BTreeModel.key_ordered multi (last (contents dst) 0) (hd 0 (contents src))) eqn:F1.
    + (* destination ++ source *)
      destruct (merge_fast_spec maxCap Hmc dst src Wd Ws Nd Ns) as (r & d & Em & Sr & Fr).
      pose proof (ss_join _ _ SdR SsR (key_ordered_Rm _ _ F1)) as Sj.
      exists {| root := None; cnt := 0 |}, {| root := Some r; cnt := cnt dst + cnt src |}. split.
      * unfold merge_to. destruct (cnt src =? 0)%nat eqn:Q0; [apply Nat.eqb_eq in Q0; congruence|].
        destruct (cnt dst =? 0)%nat eqn:Q1; [apply Nat.eqb_eq in Q1; congruence|]. rewrite F1, Em. reflexivity.
      * assert (Cd' : contents {| root := Some r; cnt := cnt dst + cnt src |} = contents dst ++ contents src) by exact Fr.
        split; [exact We|]. split.
        { unfold BTreeTop.twf. cbn [root cnt]. rewrite (shape_height maxCap _ _ Sr). split; [exact Sr|].
          rewrite Fr, app_length, Cs, Cd. reflexivity. }
        split; [exact Se|]. split; [rewrite Cd'; apply (sorted_R maxCap multi Hmc); exact Sj|].
        rewrite Ce, Cd', (spec_merge_append maxCap multi Hmc _ _ Sj). reflexivity.
    + destruct (last (contents src) 0 <? hd 0 (contents dst)) eqn:F2.
      * (* source ++ destination, strictly *)
        apply Z.ltb_lt in F2.
        destruct (merge_fast_spec maxCap Hmc src dst Ws Wd Ns Nd) as (r & d & Em & Sr & Fr).
        assert (Rlt : Rm (last (contents src) 0) (hd 0 (contents dst))) by (unfold R; destruct multi; lia).
        pose proof (ss_join _ _ SsR SdR Rlt) as Sj.
        assert (Fx : Forall (fun x => Forall (fun y => x < y) (contents dst)) (contents src)).
        { pose proof (ss_le_last _ SsR) as Fa. pose proof (ss_hd_le _ SdR) as Fb.
          rewrite Forall_forall in *. intros x Hx. apply Forall_forall. intros y Hy.
          specialize (Fa x Hx). specialize (Fb y Hy). cbv beta in *. lia. }
        exists {| root := None; cnt := 0 |}, {| root := Some r; cnt := cnt dst + cnt src |}. split.
        { unfold merge_to. destruct (cnt src =? 0)%nat eqn:Q0; [apply Nat.eqb_eq in Q0; congruence|].
          destruct (cnt dst =? 0)%nat eqn:Q1; [apply Nat.eqb_eq in Q1; congruence|]. rewrite F1.
          replace (last (contents src) 0 <? hd 0 (contents dst)) with true by (symmetry; apply Z.ltb_lt; exact F2).
          rewrite Em. reflexivity. }
        assert (Cd' : contents {| root := Some r; cnt := cnt dst + cnt src |} = contents src ++ contents dst) by exact Fr.
        split; [exact We|]. split.
        { unfold BTreeTop.twf. cbn [root cnt]. rewrite (shape_height maxCap _ _ Sr). split; [exact Sr|].
          rewrite Fr, app_length, Cs, Cd. lia. }
        split; [exact Se|]. split; [rewrite Cd'; apply (sorted_R maxCap multi Hmc); exact Sj|].
        pose proof (spec_merge_prepend maxCap multi Hmc (contents src) [] (contents dst)) as SP. cbn [app] in SP.
        rewrite Ce, Cd', (SP SsR Fx). reflexivity.
      * (* generic or linear *)
        assert (Hnf : (cnt src <> 0 -> cnt dst <> 0 -> fast_test multi src dst = false)%nat).
        { intros _ _. unfold fast_test. rewrite F1, F2. reflexivity. }
        assert (Some_ : exists res, merge_to maxCap stepRaw blockCount linear multi src dst = Some res).
        { unfold merge_to. destruct (cnt src =? 0)%nat eqn:Q0; [apply Nat.eqb_eq in Q0; congruence|].
          destruct (cnt dst =? 0)%nat eqn:Q1; [apply Nat.eqb_eq in Q1; congruence|]. rewrite F1, F2.
          destruct (cnt src * Nat.log2 (cnt src + cnt dst) <? cnt src + cnt dst)%nat; eauto. }
        destruct Some_ as [[s' d'] Em]. exists s', d'. split; [exact Em|].
        destruct (merge_to_refines maxCap stepRaw blockCount linear multi Hmc src dst s' d' Ws Wd Ss Sd Hnf Em) as (A & B & C & D).
        split; [exact A|]. split; [exact B|]. split; [apply Srest; rewrite <- D; reflexivity|]. split; [exact C | exact D].
Qed.

(* ---------- two containers incl. MergeFrom / MergeTo in both directions ---------- *)
Inductive op3 := O2 (o : op2) | OMergeAB (* a.MergeFrom(b) = b.MergeTo(a) *) | OMergeBA (* b.MergeFrom(a) *).

Definition step3 (st : tree * tree) (o : op3) : tree * tree :=
  match o with
  | O2 o => step2 maxCap stepRaw blockCount linear multi st o
  | OMergeAB => match merge_to maxCap stepRaw blockCount linear multi (snd st) (fst st) with
                | Some (b', a') => (a', b') | None => st end
  | OMergeBA => match merge_to maxCap stepRaw blockCount linear multi (fst st) (snd st) with
                | Some (a', b') => (a', b') | None => st end
  end.

Definition spec_step3 (st : list Z * list Z) (o : op3) : list Z * list Z :=
  match o with
  | O2 o => spec_step2 multi st o
  | OMergeAB => let '(rest, la') := spec_merge (snd st) (fst st) in (la', rest)
  | OMergeBA => let '(rest, lb') := spec_merge (fst st) (snd st) in (rest, lb')
  end.

Lemma step3_refines st o :
  ok2 maxCap multi st -> ok2 maxCap multi (step3 st o) /\
  (contents (fst (step3 st o)), contents (snd (step3 st o))) = spec_step3 (contents (fst st), contents (snd st)) o.
Proof.
  intros K. destruct o as [o| |].
  - apply (step2_refines maxCap stepRaw blockCount linear multi Hmc st o K).
  - destruct st as [a b]. destruct K as (Wa & Wb & Sa & Sb & _ & _). cbn [fst snd step3 spec_step3] in *.
    destruct (merge_to_refines_all b a Wb Wa Sb Sa) as (b' & a' & Em & Wb' & Wa' & Sb' & Sa' & E). rewrite Em.
    cbn [fst snd]. rewrite <- E. split; [apply (ok2_intro maxCap multi Hmc); auto | reflexivity].
  - destruct st as [a b]. destruct K as (Wa & Wb & Sa & Sb & _ & _). cbn [fst snd step3 spec_step3] in *.
    destruct (merge_to_refines_all a b Wa Wb Sa Sb) as (a' & b' & Em & Wa' & Wb' & Sa' & Sb' & E). rewrite Em.
    cbn [fst snd]. rewrite <- E. split; [apply (ok2_intro maxCap multi Hmc); auto | reflexivity].
Qed.

Theorem history3_refines ops :
  let st := fold_left step3 ops (empty_tree, empty_tree) in
  ok2 maxCap multi st /\ (contents (fst st), contents (snd st)) = fold_left spec_step3 ops ([], []).
Proof.
  assert (G : forall ops st l, ok2 maxCap multi st -> (contents (fst st), contents (snd st)) = l ->
    ok2 maxCap multi (fold_left step3 ops st) /\
    (contents (fst (fold_left step3 ops st)), contents (snd (fold_left step3 ops st))) = fold_left spec_step3 ops l).
  { induction ops0 as [|o ops0 IH]; intros st l K E; simpl; [subst; auto|].
    destruct (step3_refines st o K) as (K' & E'). apply IH; auto. rewrite E', E. reflexivity. }
  apply G; auto. apply (ok2_intro maxCap multi Hmc).
  - unfold BTreeTop.twf, empty_tree. reflexivity.
  - unfold BTreeTop.twf, empty_tree. reflexivity.
  - unfold BTreeHist.sorted, contents, empty_tree. cbn. destruct multi; constructor.
  - unfold BTreeHist.sorted, contents, empty_tree. cbn. destruct multi; constructor.
Qed.

End MergeAll.
