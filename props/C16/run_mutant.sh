#!/bin/bash
# run_mutant.sh <name> <file-under-include/momo> <diff>   : apply one saved diff to a PRIVATE copy of /repo's headers, run ./check C16 against it,
# then restore what a normal run must not trip over: evidence/C16.json, the replays directory (new replay files are moved next to the log),
# and the generated Gallina (re-translated from the unchanged /repo at the end).
name=$1; file=$2; df=$(readlink -f "$3")
cd /verif
mkdir -p build/C16/mut
cp evidence/C16.json /tmp/evidence_C16.keep.$$ 2>/dev/null
ls replays > /tmp/replays_before.$$ 2>/dev/null
d=$(mktemp -d); cp -r /repo/include $d/
patch -s $d/include/momo/$file < "$df" || { echo "$name: patch failed"; rm -rf $d; exit 2; }
s=$(date +%s); VERIF_REPO=$d ./check C16 > build/C16/mut/$name.log 2>&1; rc=$?
stages=$(grep -E 'BROKEN' build/C16/mut/$name.log | sed 's/.*stage \([a-z:-]*\) *BROKEN.*/\1/' | tr '\n' ',')
echo "$name rc=$rc $(( $(date +%s) - s ))s broken=[$stages] violations=$(grep -c '^VIOLATION' build/C16/mut/$name.log) no-input=$(grep -c 'no-failing-input-found' build/C16/mut/$name.log)"
rm -rf $d
[ -f /tmp/evidence_C16.keep.$$ ] && cp /tmp/evidence_C16.keep.$$ evidence/C16.json
mkdir -p build/C16/mut/replays_$name
for f in $(ls replays | grep '^C16-'); do grep -qx "$f" /tmp/replays_before.$$ || mv replays/$f build/C16/mut/replays_$name/; done
rm -f /tmp/evidence_C16.keep.$$ /tmp/replays_before.$$
# re-translate everything from the unchanged tree (the check's regen stage would do the same on its next run)
python3 - <<'PY'
import sys
sys.path.insert(0, '/verif/lib'); sys.path.insert(0, '/verif/tools')
import vlib, importlib.util
ctx = vlib.Ctx('C16', 'quick', 1)
spec = importlib.util.spec_from_file_location('p', '/verif/props/C16/prop.py'); m = importlib.util.module_from_spec(spec); spec.loader.exec_module(m)
m.predump_asts(ctx); ctx.regen(m.GEN); m.gen_seg_facts(ctx)
PY
exit $rc
