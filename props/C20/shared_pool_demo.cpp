// two std containers with different node types sharing one unsynchronized_pool_allocator pool (unpatched momo)
#include "private_access.h"
#include "kit.h"
#include "momo/stdish/pool_allocator.h"
typedef kit::StdAlloc<unsigned char> Base;
template<class T> using PA = momo::stdish::unsynchronized_pool_allocator<T, Base>;
int main()
{
	setvbuf(stdout, nullptr, _IONBF, 0);
	{
		std::list<int, PA<int>> l{ PA<int>(Base(1)) };
		std::set<int, std::less<int>, PA<int>> s(std::less<int>(), PA<int>(l.get_allocator()));
		auto pool = l.get_allocator().mMemPool;
		auto show = [&](const char* what) { printf("%-34s pool: block %zu count %zu cached %zu | base blocks live %zu, errors %zu\n", what,
			pool->GetBlockSize(), pool->GetAllocateCount(), size_t(pool->mCachedCount), kit::W().live_blocks(), kit::W().errors.size()); };
		l.push_back(1);  show("l.push_back(1)   (pooled, 24)");
		s.insert(1);     show("s.insert(1)      (RAW 40: pool busy)");
		l.clear();       show("l.clear()");
		s.insert(2);     show("s.insert(2)      (pool re-created for 40)");
		s.erase(1);      show("s.erase(1)       (raw node -> MemPool::Deallocate !)");
		for (int i = 3; i < 40; ++i) s.insert(i);
		show("s.insert(3..39)");
		s.clear();       show("s.clear()");
	}
	printf("after destruction: base blocks live %zu, errors %zu\n", kit::W().live_blocks(), kit::W().errors.size());
	for (auto& e : kit::W().errors) printf("  kit: %s\n", e.c_str());
	return 0;
}
