(* Property C12 -- theorems only.  Each is closed by `exact <lemma>` and followed by Print Assumptions.
   The definitions they talk about (Gen_*.v) are regenerated from /repo's headers on every run. *)
From Coq Require Import ZArith List.
From MomoCommon Require Import GenPrelude.
From C12 Require Gen_Base Gen_O2 Gen_P4 Gen_One Known P4_Slot.
Import ListNotations.
Local Open Scope Z_scope.

(* LimP4, reconstruct_exact: for EVERY 64-bit hash h, every table size 2^L (L <= 57), every displacement `probe`,
   every slot idx and every hashCount <= 8: if the slot holds what AddCrt stored for (h, L, probe) and the element sits
   `probe` steps after its start bucket, then BucketLimP4::GetHashCodePart returns either the full getter's value
   (exactly when the byte is the empty marker or the budget class (L+6)/8 changes) or exactly the known bits of h. *)
Theorem C12_limp4_reconstruct_exact :
  forall H s full bidx L newL items idx h probe,
    0 <= idx -> idx < H <= 8 -> 0 <= h < 2 ^ 64 -> 0 <= L <= 57 -> 0 <= newL <= 63 -> 0 <= probe ->
    s (H - 1 - idx) = P4_Slot.p4_byte h L probe -> s idx = Gen_P4.pvCalcShortHash h ->
    bidx = (h mod 2 ^ L + probe) mod 2 ^ L ->
    Gen_P4.GetHashCodePart H s full bidx L newL items idx =
      if P4_Slot.p4_full_used (P4_Slot.p4_byte h L probe) L newL then full else Known.known (Known.qof L) h.
Proof. exact P4_Slot.p4_reconstruct. Qed.
Print Assumptions C12_limp4_reconstruct_exact.
