(* C17: the GENERATED interpolation loop of HashSorter::pvFindHash (Gen_FindHash.v, regenerated from HashSorter.h on every
   run; its `return`s are exit codes) drives the hand model: whenever the hand fh_loop returns Ok res, the generated loop
   returns an exit code + loop state whose continuation (the hand model's sub-search named by the code) returns res.
   With Search_Proofs this puts pvFindHash's bounds safety and found-iff-present under a theorem about generated code. *)
From Coq Require Import ZArith Bool List Lia.
From MomoCommon Require Import GenPrelude.
From C17 Require Import Gen_Leaves Leaves_Proofs SorterSearch Search_Proofs Instance Gen_FindHash.
Local Open Scope Z_scope.

Section FindHashRefine.
  Variable count begin qh : Z.
  Variable hash : Z -> Z.
  Hypothesis Hcount : 0 < count < 2 ^ 62.

  Local Notation fh_loop := (SorterSearch.fh_loop pvMultShift pvCompare count hash qh).
  Local Notation cmp_fwd := (SorterSearch.cmp_fwd pvCompare count hash qh).
  Local Notation cmp_rev := (SorterSearch.cmp_rev pvCompare count hash qh).

  (* what the source does at each exit of the loop (the hand model's sub-searches) *)
  Definition continuation (code : option Z) (st : Z * Z * Z * Z) : outcome (Z * bool) :=
    let '(l, m, r, s) := st in
    match code with
    | Some 2 => r0 <- pvExponentialSearch (cmp_fwd l) (r - l) ;; Ok (l + fst r0, snd r0)
    | Some 3 => r0 <- pvExponentialSearch (cmp_rev r) (r - l) ;; Ok (r - fst r0 - (if snd r0 then 1 else 0), snd r0)
    | Some 4 => Ok (m, true)
    | None => bs_from (cmp_fwd 0) l (r - l)
    | _ => Stuck
    end.

  Lemma rdh_inv i v : SorterSearch.rdh count hash i = Ok v -> 0 <= i < count /\ v = hash i.
  Proof.
    unfold SorterSearch.rdh, inb. destruct (Z.leb_spec 0 i); destruct (Z.ltb_spec i count); simpl; intros HH; try discriminate.
    inversion HH. split; [lia|reflexivity].
  Qed.

  Lemma gen_loop_simulates : forall f left right middle step res, 0 <= left <= count -> 0 <= step < 2 ^ 64 ->
    fh_loop f left right middle step = Ok res ->
    exists code st, pvFindHash_loop0 f begin count hash qh left middle right step = Ok (code, st) /\ continuation code st = Ok res.
  Proof.
    induction f as [|f IH]; intros left right middle step res Hl Hs Hh; [simpl in Hh; discriminate|].
    rewrite pvFindHash_loop0_eq. cbn [SorterSearch.fh_loop] in Hh.
    destruct (SorterSearch.rdh count hash middle) as [mh| | |] eqn:Er; try discriminate. cbn [bind] in Hh.
    destruct (rdh_inv _ _ Er) as [Hm ->]. cbv zeta.
    rewrite (wrapU_small 64 (middle + 1)) by lia.
    destruct (Z.ltb_spec (hash middle) qh) as [Hlt|Hge].
    - destruct (Z.eqb_spec step 0) as [Hz|Hnz].
      + do 2 eexists. split; [reflexivity|]. cbn [continuation]. exact Hh.
      + cbv zeta in Hh. rewrite Z.geb_leb.
        destruct (Z.leb_spec right (wrapU 64 (middle + pvMultShift (wrapU 64 (qh - hash middle)) count))).
        * do 2 eexists. split; [reflexivity|]. cbn [continuation]. exact Hh.
        * rewrite (wrapU_small 64 (step - 1)) by lia. apply IH; try lia. exact Hh.
    - rewrite Z.gtb_ltb. destruct (Z.ltb_spec qh (hash middle)) as [Hgt|Hle].
      + destruct (Z.eqb_spec step 0) as [Hz|Hnz].
        * do 2 eexists. split; [reflexivity|]. cbn [continuation]. exact Hh.
        * cbv zeta in Hh. rewrite Z.gtb_ltb.
          set (diff := pvMultShift (wrapU 64 (hash middle - qh)) count) in *.
          assert (Hd : 0 <= diff < count).
          { unfold diff. pose proof (multshift_lt (wrapU 64 (hash middle - qh)) count (wrapU_range 64 _ ltac:(lia)) ltac:(lia)). lia. }
          rewrite (wrapU_small 64 (left + diff)) in * by lia.
          destruct (Z.ltb_spec middle (left + diff)).
          -- do 2 eexists. split; [reflexivity|]. cbn [continuation]. exact Hh.
          -- rewrite (wrapU_small 64 (middle - diff)), (wrapU_small 64 (step - 1)) by lia. apply IH; try lia. exact Hh.
      + do 2 eexists. split; [reflexivity|]. cbn [continuation]. exact Hh.
  Qed.
End FindHashRefine.

(* the whole function: same entry guard and same initial probe / step budget as the hand model (by unfolding the generated
   text), and for EVERY array the generated loop terminates with an exit whose continuation satisfies the pvFindHash
   specification (all reads in [0,count); found -> that index carries the hash; sorted & not found -> lower bound) *)
Theorem gen_findhash_total count begin hash qh :
  0 <= count < 2 ^ 62 -> (forall i, 0 <= i < count -> 0 <= hash i < 2 ^ 64) -> 0 <= qh < 2 ^ 64 ->
  (count = 0 /\ Gen_FindHash.pvFindHash hash begin count qh = Ok 1 /\ FindHash count hash qh = Ok (0, false)) \/
  (0 < count /\ exists code st k b,
     pvFindHash_loop0 5 begin count hash qh 0 (pvMultShift qh count) count (pvGetStepCount count) = Ok (code, st) /\
     Gen_FindHash.pvFindHash hash begin count qh = Ok (match code with Some c => c | None => 5 end) /\
     continuation count qh hash code st = Ok (k, b) /\ FindHash count hash qh = Ok (k, b) /\ fhres count hash qh k b).
Proof.
  intros Hc Hh Hq. destruct (Z.eq_dec count 0) as [->|Hnz].
  - left. split; [reflexivity|]. split; reflexivity.
  - right. split; [lia|]. destruct (FindHash_spec count hash qh Hc Hh Hq) as (k & b & E & Hres).
    assert (E' := E). unfold FindHash, SorterSearch.pvFindHash in E'. destruct (Z.eqb_spec count 0); [lia|].
    pose proof (stepcount_range count) as Hsc.
    destruct (gen_loop_simulates count begin qh hash ltac:(lia) 5%nat 0 count (pvMultShift qh count) (pvGetStepCount count) (k, b)
                ltac:(lia) ltac:(lia) E') as (code & st & G1 & G2).
    exists code, st, k, b. split; [exact G1|]. split; [|split; [exact G2|split; [exact E|exact Hres]]].
    unfold Gen_FindHash.pvFindHash. destruct (Z.eqb_spec count 0); [lia|]. cbv zeta. unfold fuel_of_pvFindHash. rewrite G1.
    destruct code as [c|]; [reflexivity|]. destruct st as [[[? ?] ?] ?]. reflexivity.
Qed.
