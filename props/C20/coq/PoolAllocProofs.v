(* C20 -- proofs about the pool-allocator model (PoolAlloc.v): the invariant over live blocks and its
   consequences.  Everything is for ALL histories (induction over the operation list). *)
From Coq Require Import ZArith List Bool Arith Lia.
From MomoCommon Require Import GenPrelude.
From C20 Require Import PoolAlloc DiffRun.
From C20 Require Gen_PoolAllocator Gen_MemPoolOps Gen_MemPool Gen_MemPoolNewBlock Gen_PoolAllocatorHandles.
Import ListNotations.
Local Open Scope nat_scope.

Section Proofs.
(* everything below holds for EVERY compile-time pool configuration (blockCount, cachedFreeBlockCount) *)
Variable cfg : pcfg.
Local Notation get_params := (PoolAlloc.get_params cfg).
Local Notation new_pool := (PoolAlloc.new_pool cfg).
Local Notation use_cache := (PoolAlloc.use_cache cfg).
Local Notation from_cache := (PoolAlloc.from_cache cfg).
Local Notation step := (PoolAlloc.step cfg).
Local Notation run := (PoolAlloc.run cfg).
Local Notation proto_ok := (PoolAlloc.proto_ok cfg).
Local Notation h_ok := (PoolAlloc.h_ok cfg).
Local Notation good := (PoolAlloc.good cfg).

(* ------------------------------------------------------------------ small facts *)
Lemma params_eqb_eq p q : params_eqb p q = true <-> p = q.
Proof.
  destruct p as [a b], q as [c d]; unfold params_eqb; simpl.
  rewrite andb_true_iff, !Z.eqb_eq. split; [intros [-> ->]; reflexivity | intros H; inversion H; auto].
Qed.
Lemma params_eqb_refl p : params_eqb p p = true.
Proof. apply params_eqb_eq; reflexivity. Qed.
Lemma vt_eqb_eq a b : vt_eqb a b = true -> a = b.
Proof.
  destruct a, b; unfold vt_eqb; simpl. rewrite andb_true_iff, !Z.eqb_eq. intros [-> ->]; reflexivity.
Qed.
Lemma tag_eqb_refl t : tag_eqb t t = true.
Proof. destruct t; simpl; [apply params_eqb_refl | apply Z.eqb_refl]. Qed.

Lemma updn_same {A} (f : nat -> A) i v : updn f i v i = v.
Proof. unfold updn; rewrite Nat.eqb_refl; reflexivity. Qed.
Lemma updn_other {A} (f : nat -> A) i v j : j <> i -> updn f i v j = f j.
Proof. unfold updn; intros H; destruct (Nat.eqb_spec j i); [contradiction | reflexivity]. Qed.

Lemma sumn_ext n f g : (forall i, i < n -> f i = g i) -> sumn n f = sumn n g.
Proof. induction n; simpl; intros H; [reflexivity|]. rewrite IHn, H by auto; reflexivity. Qed.

Lemma sumn_push {A} (F : A -> nat) (f : nat -> A) n v :
  sumn (S n) (fun i => F (updn f n v i)) = sumn n (fun i => F (f i)) + F v.
Proof.
  simpl. rewrite updn_same. f_equal. apply sumn_ext; intros i Hi. rewrite updn_other by lia; reflexivity.
Qed.

Lemma sumn_set {A} (F : A -> nat) (f : nat -> A) n i v : i < n ->
  sumn n (fun j => F (updn f i v j)) + F (f i) = sumn n (fun j => F (f j)) + F v.
Proof.
  induction n; intros Hi; [lia|]. simpl.
  destruct (Nat.eq_dec i n) as [->|Hne].
  - rewrite updn_same.
    rewrite (sumn_ext n (fun j => F (updn f n v j)) (fun j => F (f j)))
      by (intros j Hj; rewrite updn_other by lia; reflexivity). lia.
  - rewrite (updn_other f i v n) by lia. specialize (IHn ltac:(lia)). lia.
Qed.

Lemma sumn_zero n f : sumn n f = 0 -> forall i, i < n -> f i = 0.
Proof.
  induction n; simpl; intros H i Hi; [lia|].
  destruct (Nat.eq_dec i n) as [->|]; [lia | apply IHn; lia].
Qed.
Lemma sumn_all_zero n f : (forall i, i < n -> f i = 0) -> sumn n f = 0.
Proof. induction n; simpl; intros H; [reflexivity|]. rewrite IHn, H by auto; reflexivity. Qed.
Lemma sumn_pos_ex n f : sumn n f <> 0 -> exists i, i < n /\ f i <> 0.
Proof.
  induction n; simpl; intros H; [lia|].
  destruct (Nat.eq_dec (f n) 0) as [E|E].
  - destruct IHn as [i [Hi Hf]]; [lia|]. exists i; split; [lia | exact Hf].
  - exists n; split; [lia | exact E].
Qed.
Lemma sumn_ge n f i : i < n -> f i <= sumn n f.
Proof.
  induction n; simpl; intros Hi; [lia|].
  destruct (Nat.eq_dec i n) as [->|]; [lia | specialize (IHn ltac:(lia)); lia].
Qed.

Lemma allb_spec n f : allb n f = true <-> forall i, i < n -> f i = true.
Proof.
  unfold allb. rewrite forallb_forall. split.
  - intros H i Hi. apply H. apply in_seq. lia.
  - intros H i Hi. apply in_seq in Hi. apply H. lia.
Qed.

(* ------------------------------------------------------------------ the invariant *)
Definition pooled_in (p : nat) (B : block) : nat :=
  if balive B && is_pooled (btag B) && Nat.eqb (bpool B) p then 1 else 0.
Definition owns (p : nat) (H : handle) : nat := if halive H && Nat.eqb (hpool H) p then 1 else 0.

(* [sk = true]: the invariant under hypothesis H (no raw single-object block exists); [sk = false]: the weak invariant that
   survives H-violating histories as long as no misrouting has happened (round 9) *)
Definition blk_inv (sk : bool) (st : state) (B : block) : Prop :=
  bpool B < npools st /\
  match btag B with
  | Pooled q => q = pparams (pools st (bpool B)) /\ q = get_params (bvt B) /\ bn B = 1%Z
  | RawMem s => s = (bn B * vsize (bvt B))%Z /\ (sk = true -> bn B <> 1%Z)
  end.

Record inv_gen (sk : bool) (st : state) : Prop := {
  (* every live pooled block carries the CURRENT parameters of its pool and was a single-object request of
     a value type with exactly those parameters; every live raw block was a request with n <> 1 *)
  i_blk : forall b, b < nblocks st -> balive (blocks st b) = true -> blk_inv sk st (blocks st b);
  (* GetAllocateCount() = number of live pooled blocks of the pool *)
  i_cnt : forall p, p < npools st -> pcount (pools st p) = sumn (nblocks st) (fun b => pooled_in p (blocks st b));
  (* use_count = number of living allocator objects that share the pool *)
  i_refs : forall p, p < npools st -> prefs (pools st p) = sumn (nhandles st) (fun h => owns p (handles st h));
  i_alive : forall p, p < npools st -> palive (pools st p) = negb (Nat.eqb (prefs (pools st p)) 0);
  i_hnd : forall h, h < nhandles st -> halive (handles st h) = true -> hpool (handles st h) < npools st
}.

Notation inv := (inv_gen true).

Lemma inv_init {sk} : inv_gen sk init.
Proof. constructor; simpl; intros; try lia; discriminate. Qed.

Definition balanced (st st' : state) (ob : obs) : Prop :=
  outstanding st' + o_frees ob = outstanding st + o_allocs ob.

Definition step_good_k (sk : bool) (st : state) (o : op) : Prop :=
  exists st' ob, step st o = Ok (st', ob) /\ inv_gen sk st' /\ routed_ok ob = true /\ balanced st st' ob.
Notation step_good := (step_good_k true).

Lemma handle_ok_spec st h : handle_ok st h = true -> h < nhandles st /\ halive (handles st h) = true.
Proof. unfold handle_ok. rewrite andb_true_iff, Nat.ltb_lt. auto. Qed.

(* a living handle keeps its pool alive with at least one reference *)
Lemma handle_pool_alive {sk} st h : inv_gen sk st -> h < nhandles st -> halive (handles st h) = true ->
  hpool (handles st h) < npools st /\ 1 <= prefs (pools st (hpool (handles st h))) /\
  palive (pools st (hpool (handles st h))) = true.
Proof.
  intros I Hh Ha. pose proof (i_hnd _ _ I h Hh Ha) as Hp.
  assert (1 <= prefs (pools st (hpool (handles st h)))) as Hr.
  { rewrite (i_refs _ _ I _ Hp).
    pose proof (sumn_ge (nhandles st) (fun k => owns (hpool (handles st h)) (handles st k)) h Hh) as G.
    simpl in G. unfold owns at 1 in G. rewrite Ha, Nat.eqb_refl in G. simpl in G. exact G. }
  repeat split; auto. rewrite (i_alive _ _ I _ Hp).
  destruct (Nat.eqb_spec (prefs (pools st (hpool (handles st h)))) 0); [lia | reflexivity].
Qed.

(* ------------------------------------------------------------------ outstanding: how updates change it *)
Lemma out_push_pool st P :
  outstanding (push_pool st P) = outstanding st + pool_out P.
Proof.
  unfold outstanding, push_pool; cbn [npools pools blocks nblocks].
  rewrite (sumn_push pool_out (pools st) (npools st) P). lia.
Qed.
Lemma out_push_handle st H : outstanding (push_handle st H) = outstanding st.
Proof. reflexivity. Qed.
Lemma out_set_handle st h H : outstanding (set_handle st h H) = outstanding st.
Proof. reflexivity. Qed.
Lemma out_set_pool st p P : p < npools st ->
  outstanding (set_pool st p P) + pool_out (pools st p) = outstanding st + pool_out P.
Proof.
  intros Hp. unfold outstanding, set_pool; cbn [npools pools blocks nblocks].
  pose proof (sumn_set pool_out (pools st) (npools st) p P Hp). lia.
Qed.
Lemma out_set_cached st p c : outstanding (set_cached st p c) = outstanding st.
Proof. reflexivity. Qed.
Lemma inv_set_cached {sk} st p c : inv_gen sk st -> inv_gen sk (set_cached st p c).
Proof. intros [A B C D E]. constructor; assumption. Qed.
Lemma out_push_block st B : outstanding (push_block st B) = outstanding st + raw_out B.
Proof.
  unfold outstanding, push_block; cbn [npools pools blocks nblocks].
  rewrite (sumn_push raw_out (blocks st) (nblocks st) B). lia.
Qed.
Lemma out_set_block st b B : b < nblocks st ->
  outstanding (set_block st b B) + raw_out (blocks st b) = outstanding st + raw_out B.
Proof.
  intros Hb. unfold outstanding, set_block; cbn [npools pools blocks nblocks].
  pose proof (sumn_set raw_out (blocks st) (nblocks st) b B Hb). lia.
Qed.

(* ------------------------------------------------------------------ per-operation preservation *)
Ltac proj := cbn [pools npools handles nhandles blocks nblocks cached
                  pparams pcount prefs pheld palive balive bpool bvt bn btag halive hpool hvt
                  o_dest o_origin o_pool o_allocs o_frees o_reparam] in *.

Lemma blk_inv_frame {sk} st st' B : blk_inv sk st B -> npools st <= npools st' ->
  pparams (pools st' (bpool B)) = pparams (pools st (bpool B)) -> blk_inv sk st' B.
Proof.
  unfold blk_inv. intros [H1 H2] Hle Hp. split; [lia|]. destruct (btag B); [rewrite Hp|]; exact H2.
Qed.

(* a fresh pool (explicit constructor / select_on_container_copy_construction) *)
Lemma fresh_pool_inv {sk} st vt : inv_gen sk st ->
  inv_gen sk (push_handle (push_pool st (new_pool vt)) (mkHandle true (npools st) vt)).
Proof.
  intros I. constructor; unfold push_handle, push_pool; proj.
  - intros b Hb Ha. apply (blk_inv_frame st); [apply (i_blk _ _ I b Hb Ha) | proj; lia |].
    proj. destruct (i_blk _ _ I b Hb Ha) as [Hlt _]. rewrite updn_other by lia. reflexivity.
  - intros p Hp. destruct (Nat.eq_dec p (npools st)) as [->|Hne].
    + rewrite updn_same. simpl. symmetry. apply sumn_all_zero. intros b Hb. unfold pooled_in.
      destruct (balive (blocks st b)) eqn:Ea; [|reflexivity].
      destruct (i_blk _ _ I b Hb Ea) as [Hlt _].
      destruct (Nat.eqb_spec (bpool (blocks st b)) (npools st)); [lia|]. rewrite andb_false_r. reflexivity.
    + rewrite updn_other by lia. apply (i_cnt _ _ I). lia.
  - intros p Hp. rewrite (sumn_push (owns p) (handles st) (nhandles st)).
    destruct (Nat.eq_dec p (npools st)) as [->|Hne].
    + rewrite updn_same. unfold owns at 2. proj. rewrite Nat.eqb_refl. simpl.
      rewrite sumn_all_zero; [reflexivity|]. intros h Hh. unfold owns.
      destruct (halive (handles st h)) eqn:Ea; [|reflexivity].
      pose proof (i_hnd _ _ I h Hh Ea). destruct (Nat.eqb_spec (hpool (handles st h)) (npools st)); [lia|reflexivity].
    + rewrite updn_other by lia. unfold owns at 2. proj.
      destruct (Nat.eqb_spec (npools st) p); [lia|]. simpl. rewrite Nat.add_0_r. apply (i_refs _ _ I). lia.
  - intros p Hp. destruct (Nat.eq_dec p (npools st)) as [->|Hne].
    + rewrite updn_same. reflexivity.
    + rewrite updn_other by lia. apply (i_alive _ _ I). lia.
  - intros h Hh Ha. destruct (Nat.eq_dec h (nhandles st)) as [->|Hne].
    + rewrite updn_same. proj. lia.
    + rewrite updn_other in * by lia. pose proof (i_hnd _ _ I h ltac:(lia) Ha). lia.
Qed.

Lemma fresh_pool_balanced st vt ob : o_allocs ob = 1 -> o_frees ob = 0 ->
  balanced st (push_handle (push_pool st (new_pool vt)) (mkHandle true (npools st) vt)) ob.
Proof.
  intros Ha Hf. unfold balanced. rewrite out_push_handle, out_push_pool, Ha, Hf. unfold PoolAlloc.new_pool, pool_out; proj. lia.
Qed.

Lemma step_new {sk} st vt : inv_gen sk st -> step_good_k sk st (OpNew vt).
Proof.
  intros I. eexists _, _. split; [reflexivity|]. split; [apply fresh_pool_inv; exact I|].
  split; [reflexivity | apply fresh_pool_balanced; reflexivity].
Qed.
Lemma step_socc {sk} st h : inv_gen sk st -> step_good_k sk st (OpSocc h).
Proof.
  intros I. eexists _, _. split; [reflexivity|]. split; [apply fresh_pool_inv; exact I|].
  split; [reflexivity | apply fresh_pool_balanced; reflexivity].
Qed.

(* shared_ptr release on a pool that is alive, has >= 1 owner, and is idle if this is the last owner *)
Lemma release_spec s p :
  let P := pools s p in
  palive P = true -> 1 <= prefs P -> (prefs P = 1 -> pcount P = 0) ->
  exists P' fr, release s p = Ok (set_pool s p P', fr) /\
    pparams P' = pparams P /\ pcount P' = pcount P /\ prefs P' = pred (prefs P) /\
    palive P' = negb (Nat.eqb (pred (prefs P)) 0) /\ pool_out P' + fr = pool_out P /\
    (fr <> 0 -> prefs P = 1 /\ fr = S (pheld P)).
Proof.
  intros P Ha Hr Hc. unfold release. subst P.
  destruct (prefs (pools s p)) as [|[|r]] eqn:Er; [lia| |].
  - pose proof (Hc eq_refl) as Hc0. rewrite Hc0. simpl. eexists _, _. split; [reflexivity|]. proj.
    unfold pool_out; proj. rewrite Ha. repeat split; auto; lia.
  - eexists _, _. split; [reflexivity|]. proj.
    unfold pool_out; proj. rewrite Ha. repeat split; auto; lia.
Qed.

(* copy constructor / rebinding conversion: one more owner of the same pool *)
Lemma share_inv {sk} st h vt : inv_gen sk st -> h < nhandles st -> halive (handles st h) = true ->
  let p := hpool (handles st h) in
  let st' := push_handle (acquire st p) (mkHandle true p vt) in
  inv_gen sk st' /\ outstanding st' = outstanding st.
Proof.
  intros I Hh Ha p st'. destruct (handle_pool_alive st h I Hh Ha) as [Hp [Hr Hal]]. fold p in Hp, Hr, Hal.
  split.
  - constructor; unfold st', push_handle, acquire, set_pool; proj.
    + intros b Hb Hba. apply (blk_inv_frame st); [apply (i_blk _ _ I b Hb Hba) | proj; lia |]. proj.
      unfold updn. destruct (Nat.eqb_spec (bpool (blocks st b)) p) as [->|]; reflexivity.
    + intros q Hq. unfold updn at 1. destruct (Nat.eqb_spec q p) as [->|]; proj; apply (i_cnt _ _ I); auto.
    + intros q Hq. rewrite (sumn_push (owns q) (handles st) (nhandles st)). unfold owns at 2; proj.
      unfold updn. destruct (Nat.eqb_spec q p) as [->|Hne]; proj.
      * rewrite Nat.eqb_refl. simpl. rewrite (i_refs _ _ I p Hp). lia.
      * destruct (Nat.eqb_spec p q); [lia|]. simpl. rewrite (i_refs _ _ I q Hq). lia.
    + intros q Hq. unfold updn. destruct (Nat.eqb_spec q p) as [->|Hne]; proj; [exact Hal | apply (i_alive _ _ I); auto].
    + intros k Hk Hka. destruct (Nat.eq_dec k (nhandles st)) as [->|Hne].
      * rewrite updn_same. proj. exact Hp.
      * rewrite updn_other in * by lia. apply (i_hnd _ _ I k); [lia | exact Hka].
  - unfold st'. rewrite out_push_handle. unfold acquire.
    pose proof (out_set_pool st p (mkPool (pparams (pools st p)) (pcount (pools st p)) (S (prefs (pools st p)))
                                    (pheld (pools st p)) (palive (pools st p))) Hp) as E.
    unfold pool_out in E; proj. lia.
Qed.

Lemma step_copy {sk} st h : inv_gen sk st -> proto_ok st (OpCopy h) = true -> step_good_k sk st (OpCopy h).
Proof.
  intros I Hp. simpl in Hp. apply handle_ok_spec in Hp as [Hh Ha].
  destruct (share_inv st h (hvt (handles st h)) I Hh Ha) as [I' O'].
  eexists _, _. split; [reflexivity|]. split; [exact I'|]. split; [reflexivity|].
  unfold balanced; proj. rewrite O'. lia.
Qed.
Lemma step_rebind {sk} st h vt : inv_gen sk st -> proto_ok st (OpRebind h vt) = true -> step_good_k sk st (OpRebind h vt).
Proof.
  intros I Hp. simpl in Hp. apply handle_ok_spec in Hp as [Hh Ha].
  destruct (share_inv st h vt I Hh Ha) as [I' O'].
  eexists _, _. split; [reflexivity|]. split; [exact I'|]. split; [reflexivity|].
  unfold balanced; proj. rewrite O'. lia.
Qed.

Lemma no_blocks_count {sk} st p : inv_gen sk st -> p < npools st -> no_blocks_of st p = true -> pcount (pools st p) = 0.
Proof.
  intros I Hp Hn. rewrite (i_cnt _ _ I p Hp). apply sumn_all_zero. intros b Hb.
  unfold no_blocks_of in Hn. rewrite allb_spec in Hn. specialize (Hn b Hb). unfold pooled_in.
  destruct (balive (blocks st b)); [|reflexivity]. destruct (Nat.eqb (bpool (blocks st b)) p); [discriminate|].
  rewrite andb_false_r. reflexivity.
Qed.

Lemma step_destroy {sk} st h : inv_gen sk st -> proto_ok st (OpDestroy h) = true -> step_good_k sk st (OpDestroy h).
Proof.
  intros I Hp. simpl in Hp. apply andb_true_iff in Hp as [Hok Hlast]. apply handle_ok_spec in Hok as [Hh Ha].
  destruct (handle_pool_alive st h I Hh Ha) as [Hlt [Hr Hal]].
  set (p := hpool (handles st h)) in *.
  assert (prefs (pools st p) = 1 -> pcount (pools st p) = 0) as Hc.
  { intros E. rewrite E in Hlast. simpl in Hlast. apply (no_blocks_count st p I Hlt Hlast). }
  destruct (release_spec st p Hal Hr Hc) as [P' [fr [Er [Hpp [Hpc [Hpr [Hpa [Hout _]]]]]]]].
  unfold step_good, PoolAlloc.step. fold p. rewrite Er. eexists _, _. split; [reflexivity|]. split; [|split; [reflexivity|]].
  - constructor; unfold set_handle, set_pool; proj.
    + intros b Hb Hba. apply (blk_inv_frame st); [apply (i_blk _ _ I b Hb Hba) | proj; lia |]. proj.
      unfold updn. destruct (Nat.eqb_spec (bpool (blocks st b)) p) as [->|]; auto.
    + intros q Hq. unfold updn at 1. destruct (Nat.eqb_spec q p) as [->|]; [rewrite Hpc|]; apply (i_cnt _ _ I); auto.
    + intros q Hq.
      pose proof (sumn_set (owns q) (handles st) (nhandles st) h (mkHandle false p (hvt (handles st h))) Hh) as E.
      assert (Eo : owns q (handles st h) = if Nat.eqb p q then 1 else 0) by (unfold owns; rewrite Ha; reflexivity).
      assert (En : owns q (mkHandle false p (hvt (handles st h))) = 0) by reflexivity.
      rewrite Eo, En in E. clear Eo En.
      unfold updn at 1. destruct (Nat.eqb_spec q p) as [->|Hne].
      * rewrite Nat.eqb_refl in E. rewrite Hpr, (i_refs _ _ I p Hlt). lia.
      * destruct (Nat.eqb_spec p q); [lia|]. rewrite (i_refs _ _ I q Hq). lia.
    + intros q Hq. unfold updn. destruct (Nat.eqb_spec q p) as [->|]; [rewrite Hpa, Hpr; reflexivity | apply (i_alive _ _ I); auto].
    + intros k Hk Hka. destruct (Nat.eq_dec k h) as [->|Hne].
      * rewrite updn_same in Hka. discriminate.
      * rewrite updn_other in * by lia. apply (i_hnd _ _ I k Hk Hka).
  - unfold balanced; proj. rewrite out_set_handle. pose proof (out_set_pool st p P' Hlt). lia.
Qed.

Lemma step_assign {sk} st hd hs : inv_gen sk st -> proto_ok st (OpAssign hd hs) = true -> step_good_k sk st (OpAssign hd hs).
Proof.
  intros I Hp. simpl in Hp. repeat rewrite andb_true_iff in Hp. destruct Hp as [[[Hokd Hoks] _] Hlast].
  apply handle_ok_spec in Hokd as [Hhd Had]. apply handle_ok_spec in Hoks as [Hhs Has].
  destruct (handle_pool_alive st hd I Hhd Had) as [Hltd [Hrd Hald]].
  destruct (handle_pool_alive st hs I Hhs Has) as [Hlts [Hrs Hals]].
  set (pd := hpool (handles st hd)) in *. set (ps := hpool (handles st hs)) in *.
  set (sa := acquire st ps).
  assert (Hsa : forall q, pools sa q = if Nat.eqb q ps
            then mkPool (pparams (pools st ps)) (pcount (pools st ps)) (S (prefs (pools st ps))) (pheld (pools st ps)) (palive (pools st ps))
            else pools st q) by reflexivity.
  assert (palive (pools sa pd) = true) as Ha1.
  { rewrite Hsa. destruct (Nat.eqb_spec pd ps) as [E|]; proj; [rewrite <- E; exact Hald | exact Hald]. }
  assert (1 <= prefs (pools sa pd)) as Ha2.
  { rewrite Hsa. destruct (Nat.eqb_spec pd ps); proj; lia. }
  assert (prefs (pools sa pd) = 1 -> pcount (pools sa pd) = 0) as Ha3.
  { rewrite Hsa. destruct (Nat.eqb_spec pd ps) as [E|Hne]; proj; [lia|].
    intros E1. rewrite E1 in Hlast. simpl in Hlast. apply (no_blocks_count st pd I Hltd Hlast). }
  destruct (release_spec sa pd Ha1 Ha2 Ha3) as [P' [fr [Er [Hpp [Hpc [Hpr [Hpa [Hout _]]]]]]]].
  unfold step_good, PoolAlloc.step. fold pd ps sa. rewrite Er. eexists _, _. split; [reflexivity|]. split; [|split; [reflexivity|]].
  - constructor; unfold set_handle, set_pool; proj;
      change (blocks sa) with (blocks st); change (nblocks sa) with (nblocks st);
      change (handles sa) with (handles st); change (nhandles sa) with (nhandles st);
      change (npools sa) with (npools st).
    + intros b Hb Hba. apply (blk_inv_frame st); [apply (i_blk _ _ I b Hb Hba) | proj; change (npools sa) with (npools st); lia |]. proj.
      unfold updn. destruct (Nat.eqb_spec (bpool (blocks st b)) pd) as [E|]; proj.
      * rewrite Hpp, Hsa, E. destruct (Nat.eqb_spec pd ps) as [E2|]; proj; [rewrite E2|]; reflexivity.
      * rewrite Hsa. destruct (Nat.eqb_spec (bpool (blocks st b)) ps) as [->|]; reflexivity.
    + intros q Hq. change (nblocks sa) with (nblocks st). change (blocks sa) with (blocks st).
      unfold updn at 1. destruct (Nat.eqb_spec q pd) as [->|].
      * rewrite Hpc, Hsa. destruct (Nat.eqb_spec pd ps) as [E|]; proj; [rewrite <- E|]; apply (i_cnt _ _ I); auto.
      * rewrite Hsa. destruct (Nat.eqb_spec q ps) as [->|]; proj; apply (i_cnt _ _ I); auto.
    + intros q Hq. change (nhandles sa) with (nhandles st). change (handles sa) with (handles st).
      pose proof (sumn_set (owns q) (handles st) (nhandles st) hd (mkHandle true ps (hvt (handles st hd))) Hhd) as E.
      assert (Eo : owns q (handles st hd) = if Nat.eqb pd q then 1 else 0) by (unfold owns; rewrite Had; reflexivity).
      assert (En : owns q (mkHandle true ps (hvt (handles st hd))) = if Nat.eqb ps q then 1 else 0) by reflexivity.
      rewrite Eo, En in E. clear Eo En.
      pose proof (i_refs _ _ I q Hq) as Rq.
      unfold updn at 1. destruct (Nat.eqb_spec q pd) as [->|Hned].
      * rewrite Nat.eqb_refl in E. rewrite Hpr, Hsa.
        destruct (Nat.eqb_spec pd ps) as [E2|Hne]; proj.
        -- rewrite <- E2 in *. rewrite Nat.eqb_refl in E. simpl. lia.
        -- destruct (Nat.eqb_spec ps pd); [lia|]. lia.
      * destruct (Nat.eqb_spec pd q); [lia|]. rewrite Hsa.
        destruct (Nat.eqb_spec q ps) as [->|Hnes]; proj.
        -- rewrite Nat.eqb_refl in E. lia.
        -- destruct (Nat.eqb_spec ps q); [lia|]. lia.
    + intros q Hq. unfold updn. destruct (Nat.eqb_spec q pd) as [->|].
      * rewrite Hpa, Hpr. reflexivity.
      * rewrite Hsa. destruct (Nat.eqb_spec q ps) as [->|]; proj; [exact Hals | apply (i_alive _ _ I); auto].
    + intros k Hk Hka. change (handles sa) with (handles st) in *. change (nhandles sa) with (nhandles st) in *.
      change (npools sa) with (npools st).
      destruct (Nat.eq_dec k hd) as [->|Hne].
      * rewrite updn_same. proj. exact Hlts.
      * rewrite updn_other in * by lia. apply (i_hnd _ _ I k Hk Hka).
  - unfold balanced; proj. rewrite out_set_handle.
    pose proof (out_set_pool sa pd P' Hltd) as E1.
    assert (outstanding sa = outstanding st) as E2.
    { unfold sa, acquire. pose proof (out_set_pool st ps (mkPool (pparams (pools st ps)) (pcount (pools st ps))
         (S (prefs (pools st ps))) (pheld (pools st ps)) (palive (pools st ps))) Hlts) as E. unfold pool_out in E; proj. lia. }
    lia.
Qed.

Lemma blk_inv_frame' {sk} st st' B : blk_inv sk st B -> npools st <= npools st' ->
  (is_pooled (btag B) = true -> pparams (pools st' (bpool B)) = pparams (pools st (bpool B))) -> blk_inv sk st' B.
Proof.
  unfold blk_inv. intros [H1 H2] Hle Hp. split; [lia|]. destruct (btag B); [rewrite Hp by reflexivity|]; exact H2.
Qed.

Lemma pooled_in_1 p B : balive B = true -> is_pooled (btag B) = true -> bpool B = p -> pooled_in p B = 1.
Proof. intros Ha Hp <-. unfold pooled_in. rewrite Ha, Hp, Nat.eqb_refl. reflexivity. Qed.

(* H as a proposition about the live blocks *)
Lemma h_ok_spec st h grow : h_ok st (OpAlloc h 1 grow) = true ->
  forall b q, b < nblocks st -> balive (blocks st b) = true -> bpool (blocks st b) = hpool (handles st h) ->
    btag (blocks st b) = Pooled q -> get_params (hvt (handles st h)) = q.
Proof.
  unfold PoolAlloc.h_ok. simpl. rewrite allb_spec. intros H b q Hb Ha Hp Ht. specialize (H b Hb). cbv beta zeta in H.
  rewrite Ha, Hp, Nat.eqb_refl, Ht in H. simpl in H. apply params_eqb_eq. exact H.
Qed.

Lemma step_alloc {sk} st h n grow : inv_gen sk st -> proto_ok st (OpAlloc h n grow) = true -> (sk = true -> h_ok st (OpAlloc h n grow) = true) ->
  step_good_k sk st (OpAlloc h n grow).
Proof.
  intros I Hp HH. simpl in Hp. apply andb_true_iff in Hp as [Hok Hn]. apply handle_ok_spec in Hok as [Hh Ha].
  destruct (handle_pool_alive st h I Hh Ha) as [Hlt [Hr Hal]].
  unfold step_good, PoolAlloc.step. cbv zeta.
  set (p := hpool (handles st h)) in *. set (vt := hvt (handles st h)) in *. set (P := pools st p) in *.
  (* raw branch, shared by n <> 1 (and, impossible under H, by n = 1 on a busy pool of other parameters) *)
  assert (Hraw : (sk = true -> n <> 1%Z) -> exists st' ob,
     Ok (push_block st (mkBlock true p vt n (RawMem (n * vsize vt))),
         mkObs (Some (RawMem (n * vsize vt))) None p 1 0 false) = Ok (st', ob) /\ inv_gen sk st' /\
     routed_ok ob = true /\ balanced st st' ob).
  { intros Hn1. eexists _, _. split; [reflexivity|]. split; [|split; [reflexivity|]].
    - constructor; unfold push_block; proj.
      + intros b Hb Hba. destruct (Nat.eq_dec b (nblocks st)) as [->|Hne].
        * rewrite updn_same. unfold blk_inv; proj. auto.
        * rewrite updn_other in * by lia. apply (blk_inv_frame st); [apply (i_blk _ _ I b); [lia|exact Hba] | proj; lia | reflexivity].
      + intros q Hq. rewrite (sumn_push (pooled_in q) (blocks st) (nblocks st)).
        unfold pooled_in at 2; proj. simpl. rewrite Nat.add_0_r. apply (i_cnt _ _ I q Hq).
      + apply (i_refs _ _ I).
      + apply (i_alive _ _ I).
      + apply (i_hnd _ _ I).
    - unfold balanced; proj. rewrite out_push_block. unfold raw_out; proj. simpl. lia. }
  destruct (Z.eqb_spec n 1) as [->|Hn1]; [|apply Hraw; intros _; exact Hn1].
  destruct (params_eqb (get_params vt) (pparams P)) eqn:Eeq.
  - (* parameters match: plain pool allocation (from the cache or from a buffer) *)
    apply params_eqb_eq in Eeq. cbn [negb andb].
    set (g := if from_cache st p then O else grow).
    set (c := if from_cache st p then Nat.pred (cached st p) else cached st p).
    eexists _, _. split; [reflexivity|]. split; [|split; [reflexivity|]].
    + constructor; unfold set_cached, push_block, set_pool; proj.
      * intros b Hb Hba. destruct (Nat.eq_dec b (nblocks st)) as [->|Hne].
        -- rewrite updn_same. unfold blk_inv; proj. rewrite updn_same; proj. auto.
        -- rewrite updn_other in * by lia. apply (blk_inv_frame st); [apply (i_blk _ _ I b); [lia|exact Hba] | proj; lia |].
           proj. unfold updn. destruct (Nat.eqb_spec (bpool (blocks st b)) p) as [->|]; reflexivity.
      * intros q Hq. rewrite (sumn_push (pooled_in q) (blocks st) (nblocks st)).
        unfold pooled_in at 2; proj. simpl. unfold updn. destruct (Nat.eqb_spec q p) as [->|Hne]; proj.
        -- rewrite Nat.eqb_refl. pose proof (i_cnt _ _ I p Hlt) as C. fold P in C. lia.
        -- destruct (Nat.eqb_spec p q); [lia|]. rewrite (i_cnt _ _ I q Hq). lia.
      * intros q Hq. unfold updn. destruct (Nat.eqb_spec q p) as [->|]; proj; apply (i_refs _ _ I); auto.
      * intros q Hq. unfold updn. destruct (Nat.eqb_spec q p) as [->|]; proj; apply (i_alive _ _ I); auto.
      * apply (i_hnd _ _ I).
    + unfold balanced; proj. rewrite out_set_cached, out_push_block. unfold raw_out; proj. simpl.
      pose proof (out_set_pool st p (mkPool (pparams P) (S (pcount P)) (prefs P) (pheld P + g) (palive P)) Hlt) as E.
      unfold pool_out in E; proj. fold P in E. rewrite Hal in E |- *. lia.
  - simpl. destruct (Nat.eqb_spec (pcount P) 0) as [Ec|Ec].
    + (* idle pool of other parameters: re-parameterised (line 119) *)
      assert (Hnone : forall b, b < nblocks st -> balive (blocks st b) = true ->
                is_pooled (btag (blocks st b)) = true -> bpool (blocks st b) <> p).
      { intros b Hb Hba Hbp Hbq. pose proof (i_cnt _ _ I p Hlt) as C. fold P in C. rewrite Ec in C.
        symmetry in C. pose proof (sumn_zero _ _ C b Hb) as Z0. cbv beta in Z0.
        rewrite (pooled_in_1 p _ Hba Hbp Hbq) in Z0. discriminate. }
      eexists _, _. split; [reflexivity|]. split; [|split; [reflexivity|]].
      * constructor; unfold set_cached, push_block, set_pool; proj.
        -- intros b Hb Hba. destruct (Nat.eq_dec b (nblocks st)) as [->|Hne].
           ++ rewrite updn_same. unfold blk_inv; proj. rewrite updn_same; proj. auto.
           ++ rewrite updn_other in * by lia. assert (b < nblocks st) as Hb' by lia.
              apply (blk_inv_frame' st); [apply (i_blk _ _ I b Hb' Hba) | proj; lia |].
              intros Hbp. proj. rewrite updn_other; [reflexivity | apply (Hnone b Hb' Hba Hbp)].
        -- intros q Hq. rewrite (sumn_push (pooled_in q) (blocks st) (nblocks st)).
           unfold pooled_in at 2; proj. simpl. unfold updn. destruct (Nat.eqb_spec q p) as [->|Hne]; proj.
           ++ rewrite Nat.eqb_refl. pose proof (i_cnt _ _ I p Hlt) as C. fold P in C. lia.
           ++ destruct (Nat.eqb_spec p q); [lia|]. rewrite (i_cnt _ _ I q Hq). lia.
        -- intros q Hq. unfold updn. destruct (Nat.eqb_spec q p) as [->|]; proj; apply (i_refs _ _ I); auto.
        -- intros q Hq. unfold updn. destruct (Nat.eqb_spec q p) as [->|]; proj; apply (i_alive _ _ I); auto.
        -- apply (i_hnd _ _ I).
      * unfold balanced; proj. rewrite out_set_cached, out_push_block. unfold raw_out; proj. simpl.
        pose proof (out_set_pool st p (mkPool (get_params vt) 1 (prefs P) grow (palive P)) Hlt) as E.
        unfold pool_out in E; proj. fold P in E. rewrite Hal in E |- *. lia.
    + (* busy pool of other parameters: excluded by H; without H (sk = false) a raw single-object block comes into existence *)
      destruct sk; [|apply Hraw; discriminate]. specialize (HH eq_refl).
      exfalso. pose proof (i_cnt _ _ I p Hlt) as C. fold P in C. rewrite C in Ec.
      destruct (sumn_pos_ex _ _ Ec) as [b [Hb Hne]]. cbv beta in Hne. unfold pooled_in in Hne.
      destruct (balive (blocks st b)) eqn:Hba; [|simpl in Hne; lia].
      destruct (is_pooled (btag (blocks st b))) eqn:Hbp; [|simpl in Hne; lia].
      destruct (Nat.eqb_spec (bpool (blocks st b)) p) as [Hbq|]; [|simpl in Hne; lia].
      destruct (btag (blocks st b)) as [q|] eqn:Et; [|discriminate].
      pose proof (h_ok_spec st h grow HH b q Hb Hba Hbq Et) as E.
      destruct (i_blk _ _ I b Hb Hba) as [_ Hq]. rewrite Et in Hq. destruct Hq as [Hq _].
      rewrite Hbq in Hq. fold P in Hq. fold vt in E. rewrite <- Hq, <- E, params_eqb_refl in Eeq. discriminate.
Qed.

(* THE DANGER: the block is a single-object block that had to be taken from raw memory, and the pool NOW has the
   parameters of its value type *)
Definition raw_single_in_matching_pool (st : state) (h b : nat) (n : Z) : Prop :=
  is_pooled (btag (blocks st b)) = false /\ n = 1%Z /\
  params_eqb (get_params (hvt (handles st h))) (pparams (pools st (hpool (handles st h)))) = true.

Lemma step_dealloc {sk} st h b n shrink : inv_gen sk st -> proto_ok st (OpDealloc h b n shrink) = true ->
  (sk = false -> ~ raw_single_in_matching_pool st h b n) ->
  step_good_k sk st (OpDealloc h b n shrink).
Proof.
  intros I Hp Hsafe. unfold raw_single_in_matching_pool in Hsafe. simpl in Hp. repeat rewrite andb_true_iff in Hp.
  destruct Hp as [[[[[Hok Hb] Hba] Hbp] Hbv] Hbn].
  apply handle_ok_spec in Hok as [Hh Ha]. apply Nat.ltb_lt in Hb. apply Nat.eqb_eq in Hbp.
  apply vt_eqb_eq in Hbv. apply Z.eqb_eq in Hbn.
  destruct (handle_pool_alive st h I Hh Ha) as [Hlt [Hr Hal]].
  destruct (i_blk _ _ I b Hb Hba) as [_ Htag].
  unfold step_good, PoolAlloc.step. cbv zeta. rewrite Hba.
  set (p := hpool (handles st h)) in *. set (vt := hvt (handles st h)) in *. set (P := pools st p) in *.
  set (B := blocks st b) in *.
  destruct (btag B) as [q|s] eqn:Et.
  - (* a pooled block *)
    destruct Htag as [Hq1 [Hq2 Hq3]]. rewrite Hbp in Hq1. fold P in Hq1. rewrite Hbv in Hq2.
    assert (T : ((n =? 1)%Z && params_eqb (get_params vt) (pparams P)) = true).
    { rewrite <- Hbn, Hq3, <- Hq2, Hq1, params_eqb_refl. reflexivity. }
    rewrite T. clear T.
    pose proof (i_cnt _ _ I p Hlt) as C. fold P in C.
    pose proof (sumn_ge (nblocks st) (fun k => pooled_in p (blocks st k)) b Hb) as G. cbv beta in G.
    fold B in G. rewrite (pooled_in_1 p B Hba) in G by (try rewrite Et; auto).
    destruct (pcount P) as [|c] eqn:Ecn; [lia|].
    set (fr := if use_cache P && negb (Z.leb (cached_free_block_count cfg) (Z.of_nat (cached st p))) then O else Nat.min shrink (pheld P)).
    assert (Hfr : fr <= pheld P) by (unfold fr; destruct (use_cache P && negb (Z.leb (cached_free_block_count cfg) (Z.of_nat (cached st p)))); lia).
    eexists _, _. split; [reflexivity|]. split; [|split].
    + constructor; unfold set_cached, set_block, set_pool; proj.
      * intros k Hk Hka. destruct (Nat.eq_dec k b) as [->|Hne]; [rewrite updn_same in Hka; discriminate|].
        rewrite updn_other in * by lia. apply (blk_inv_frame st); [apply (i_blk _ _ I k Hk Hka) | proj; lia |].
        proj. unfold updn. destruct (Nat.eqb_spec (bpool (blocks st k)) p) as [->|]; reflexivity.
      * intros r Hrq.
        pose proof (sumn_set (pooled_in r) (blocks st) (nblocks st) b (mkBlock false (bpool B) (bvt B) (bn B) (Pooled q)) Hb) as E.
        fold B in E.
        assert (E0 : pooled_in r (mkBlock false (bpool B) (bvt B) (bn B) (Pooled q)) = 0) by reflexivity.
        assert (E1 : pooled_in r B = if Nat.eqb p r then 1 else 0).
        { unfold pooled_in. rewrite Hba, Et, Hbp. reflexivity. }
        rewrite E0, E1 in E. unfold updn at 1. destruct (Nat.eqb_spec r p) as [->|Hne]; proj.
        -- rewrite Nat.eqb_refl in E. lia.
        -- destruct (Nat.eqb_spec p r); [lia|]. rewrite (i_cnt _ _ I r Hrq). lia.
      * intros r Hrq. unfold updn. destruct (Nat.eqb_spec r p) as [->|]; proj; apply (i_refs _ _ I); auto.
      * intros r Hrq. unfold updn. destruct (Nat.eqb_spec r p) as [->|]; proj; apply (i_alive _ _ I); auto.
      * apply (i_hnd _ _ I).
    + unfold routed_ok; proj. simpl. rewrite Hq1. apply params_eqb_refl.
    + unfold balanced; proj. rewrite out_set_cached.
      pose proof (out_set_block (set_pool st p (mkPool (pparams P) c (prefs P) (pheld P - fr) (palive P)))
                    b (mkBlock false (bpool B) (bvt B) (bn B) (Pooled q))) as E1.
      specialize (E1 Hb). change (blocks (set_pool _ _ _) b) with B in E1.
      unfold raw_out at 1 2 in E1; proj. rewrite Et in E1. simpl in E1. rewrite andb_false_r in E1.
      pose proof (out_set_pool st p (mkPool (pparams P) c (prefs P) (pheld P - fr) (palive P)) Hlt) as E2.
      unfold pool_out in E2; proj. fold P in E2. rewrite Hal in E1, E2 |- *. lia.
  - (* a raw block *)
    destruct Htag as [Hs Hn1]. rewrite Hbn in Hn1.
    assert (T : ((n =? 1)%Z && params_eqb (get_params vt) (pparams P)) = false).
    { destruct (Z.eqb_spec n 1) as [E1|]; [|reflexivity]. cbn [andb].
      destruct (params_eqb (get_params vt) (pparams P)) eqn:Eq; [|reflexivity].
      exfalso. destruct sk; [apply (Hn1 eq_refl E1)|]. apply (Hsafe eq_refl). repeat split; auto. }
    rewrite T. clear T.
    eexists _, _. split; [reflexivity|]. split; [|split].
    + constructor; unfold set_block; proj.
      * intros k Hk Hka. destruct (Nat.eq_dec k b) as [->|Hne]; [rewrite updn_same in Hka; discriminate|].
        rewrite updn_other in * by lia. apply (blk_inv_frame st); [apply (i_blk _ _ I k Hk Hka) | proj; lia | reflexivity].
      * intros r Hrq.
        pose proof (sumn_set (pooled_in r) (blocks st) (nblocks st) b (mkBlock false (bpool B) (bvt B) (bn B) (RawMem s)) Hb) as E.
        fold B in E.
        assert (E0 : pooled_in r (mkBlock false (bpool B) (bvt B) (bn B) (RawMem s)) = 0) by reflexivity.
        assert (E1 : pooled_in r B = 0).
        { unfold pooled_in. rewrite Hba, Et. reflexivity. }
        rewrite E0, E1 in E. rewrite (i_cnt _ _ I r Hrq). lia.
      * apply (i_refs _ _ I).
      * apply (i_alive _ _ I).
      * apply (i_hnd _ _ I).
    + unfold routed_ok; proj. simpl. rewrite Hs, Hbn, Hbv. apply Z.eqb_refl.
    + unfold balanced; proj.
      pose proof (out_set_block st b (mkBlock false (bpool B) (bvt B) (bn B) (RawMem s)) Hb) as E1.
      fold B in E1. unfold raw_out in E1; proj. rewrite Hba, Et in E1. simpl in E1. lia.
Qed.

Lemma step_move {sk} st h : inv_gen sk st -> proto_ok st (OpMove h) = true -> step_good_k sk st (OpMove h).
Proof. intros I Hp. exact (step_copy st h I Hp). Qed.

(* allocate() in which the base allocator throws *)
Lemma step_allocfail {sk} st h n grow : inv_gen sk st -> proto_ok st (OpAllocFail h n grow) = true ->
  step_good_k sk st (OpAllocFail h n grow).
Proof.
  intros I Hp. simpl in Hp. repeat rewrite andb_true_iff in Hp. destruct Hp as [[Hok Hn] Hcan].
  apply handle_ok_spec in Hok as [Hh Ha].
  destruct (handle_pool_alive st h I Hh Ha) as [Hlt [Hr Hal]].
  unfold step_good, PoolAlloc.step. cbv zeta.
  set (p := hpool (handles st h)) in *. set (vt := hvt (handles st h)) in *. set (P := pools st p) in *.
  assert (Hnothing : exists st' ob, Ok (st, mkObs None None p 0 0 false) = Ok (st', ob) /\ inv_gen sk st' /\
            routed_ok ob = true /\ balanced st st' ob).
  { eexists _, _. split; [reflexivity|]. split; [exact I|]. split; [reflexivity|]. unfold balanced; proj. lia. }
  destruct (Z.eqb_spec n 1) as [->|Hn1]; [|exact Hnothing].
  destruct (params_eqb (get_params vt) (pparams P)) eqn:Eeq; cbn [negb andb].
  - destruct (from_cache st p) eqn:Efc; [simpl in Hcan; discriminate|].
    eexists _, _. split; [reflexivity|]. split; [|split; [reflexivity|]].
    + constructor; unfold set_pool; proj.
      * intros b Hb Hba. apply (blk_inv_frame st); [apply (i_blk _ _ I b Hb Hba) | proj; lia |].
        proj. unfold updn. destruct (Nat.eqb_spec (bpool (blocks st b)) p) as [->|]; reflexivity.
      * intros q Hq. unfold updn. destruct (Nat.eqb_spec q p) as [->|]; proj; apply (i_cnt _ _ I); auto.
      * intros q Hq. unfold updn. destruct (Nat.eqb_spec q p) as [->|]; proj; apply (i_refs _ _ I); auto.
      * intros q Hq. unfold updn. destruct (Nat.eqb_spec q p) as [->|]; proj; apply (i_alive _ _ I); auto.
      * apply (i_hnd _ _ I).
    + unfold balanced; proj.
      pose proof (out_set_pool st p (mkPool (pparams P) (pcount P) (prefs P) (pheld P + grow) (palive P)) Hlt) as E.
      unfold pool_out in E; proj. fold P in E. rewrite Hal in E |- *. lia.
  - destruct (Nat.eqb_spec (pcount P) 0) as [Ec|Ec]; [|exact Hnothing].
    assert (Hnone : forall b, b < nblocks st -> balive (blocks st b) = true ->
              is_pooled (btag (blocks st b)) = true -> bpool (blocks st b) <> p).
    { intros b Hb Hba Hbp Hbq. pose proof (i_cnt _ _ I p Hlt) as C. fold P in C. rewrite Ec in C.
      symmetry in C. pose proof (sumn_zero _ _ C b Hb) as Z0. cbv beta in Z0.
      rewrite (pooled_in_1 p _ Hba Hbp Hbq) in Z0. discriminate. }
    eexists _, _. split; [reflexivity|]. split; [|split; [reflexivity|]].
    + constructor; unfold set_cached, set_pool; proj.
      * intros b Hb Hba. apply (blk_inv_frame' st); [apply (i_blk _ _ I b Hb Hba) | proj; lia |].
        intros Hbp. proj. rewrite updn_other; [reflexivity | apply (Hnone b Hb Hba Hbp)].
      * intros q Hq. unfold updn. destruct (Nat.eqb_spec q p) as [->|]; proj; [|apply (i_cnt _ _ I); auto].
        pose proof (i_cnt _ _ I p Hlt) as C. fold P in C. lia.
      * intros q Hq. unfold updn. destruct (Nat.eqb_spec q p) as [->|]; proj; apply (i_refs _ _ I); auto.
      * intros q Hq. unfold updn. destruct (Nat.eqb_spec q p) as [->|]; proj; apply (i_alive _ _ I); auto.
      * apply (i_hnd _ _ I).
    + unfold balanced; proj. rewrite out_set_cached.
      pose proof (out_set_pool st p (mkPool (get_params vt) 0 (prefs P) grow (palive P)) Hlt) as E.
      unfold pool_out in E; proj. fold P in E. rewrite Hal in E |- *. lia.
Qed.

(* ------------------------------------------------------------------ all histories *)
Lemma step_good_all {sk} st o : inv_gen sk st -> proto_ok st o = true -> (sk = true -> h_ok st o = true) ->
  (sk = false -> forall h b n s, o = OpDealloc h b n s -> ~ raw_single_in_matching_pool st h b n) -> step_good_k sk st o.
Proof.
  intros I Hp HH HS. destruct o.
  - apply step_new; auto.
  - apply step_copy; auto.
  - apply step_move; auto.
  - apply step_rebind; auto.
  - apply step_socc; auto.
  - apply step_assign; auto.
  - apply step_destroy; auto.
  - apply step_alloc; auto.
  - apply step_dealloc; auto. intros E. exact (HS E h b n shrink eq_refl).
  - apply step_allocfail; auto.
  - eexists _, _. split; [reflexivity|]. split; [exact I|]. split; [reflexivity|]. unfold balanced; proj; lia.
  - eexists _, _. split; [reflexivity|]. split; [exact I|]. split; [reflexivity|]. unfold balanced; proj; lia.
  - eexists _, _. split; [reflexivity|]. split; [exact I|]. split; [reflexivity|]. unfold balanced; proj; lia.
Qed.

Fixpoint sum_allocs (l : list obs) : nat := match l with [] => 0 | o :: r => o_allocs o + sum_allocs r end.
Fixpoint sum_frees (l : list obs) : nat := match l with [] => 0 | o :: r => o_frees o + sum_frees r end.

Lemma run_good st ops : inv st -> good true st ops = true ->
  exists st' obs, run st ops = Ok (st', obs) /\ inv st' /\ Forall (fun o => routed_ok o = true) obs /\
    outstanding st' + sum_frees obs = outstanding st + sum_allocs obs.
Proof.
  revert st. induction ops as [|o r IH]; intros st I G.
  - exists st, []. simpl. split; [reflexivity|]. split; [exact I|]. split; [constructor | lia].
  - simpl in G. repeat rewrite andb_true_iff in G. destruct G as [[Hp HH] Hr]. simpl in HH.
    destruct (step_good_all st o I Hp (fun _ => HH) (fun E => ltac:(discriminate E))) as [st1 [ob [Es [I1 [R1 B1]]]]].
    rewrite Es in Hr. destruct (IH st1 I1 Hr) as [st2 [obs [Er [I2 [R2 B2]]]]].
    exists st2, (ob :: obs). simpl. rewrite Es, Er. split; [reflexivity|]. split; [exact I2|].
    split; [constructor; assumption|]. unfold balanced in B1. lia.
Qed.

(* ================================================================== the theorems *)

(* T1: under the client protocol and H, no history gets stuck and every deallocate returns its block to
   where it came from (pool block -> the pool with the same parameters, raw block -> base allocator with
   its size) *)
Theorem dealloc_matches_origin : forall ops, good true init ops = true ->
  exists st' obs, run init ops = Ok (st', obs) /\ Forall (fun o => routed_ok o = true) obs /\ inv st'.
Proof.
  intros ops G. destruct (run_good init ops inv_init G) as [st' [obs [E [I [R _]]]]].
  exists st', obs. auto.
Qed.

(* T1': at every reachable state GetAllocateCount() of a pool is the number of live pooled blocks obtained
   through it, all of which carry the pool's current parameters *)
Theorem count_is_live_pooled_blocks : forall ops st' obs, good true init ops = true -> run init ops = Ok (st', obs) ->
  forall p, p < npools st' ->
    pcount (pools st' p) = sumn (nblocks st') (fun b => pooled_in p (blocks st' b)) /\
    forall b, b < nblocks st' -> pooled_in p (blocks st' b) = 1 ->
      btag (blocks st' b) = Pooled (pparams (pools st' p)).
Proof.
  intros ops st' obs G E p Hp. destruct (run_good init ops inv_init G) as [st2 [obs2 [E2 [I _]]]].
  rewrite E in E2. inversion E2; subst st2 obs2. split; [apply (i_cnt _ _ I p Hp)|].
  intros b Hb H1. unfold pooled_in in H1.
  destruct (balive (blocks st' b)) eqn:Ea; [|discriminate].
  destruct (is_pooled (btag (blocks st' b))) eqn:Ep; [|discriminate].
  destruct (Nat.eqb_spec (bpool (blocks st' b)) p) as [Eq|]; [|discriminate].
  destruct (i_blk _ _ I b Hb Ea) as [_ Ht]. destruct (btag (blocks st' b)); [|discriminate].
  destruct Ht as [-> _]. rewrite Eq. reflexivity.
Qed.

(* T3: leak freedom.  The base-allocator traffic reported by the operations is exactly accounted for by
   [outstanding]; a pool without living owner is gone (its buffers and control block were returned when
   the last owner died); and once every allocator object is destroyed and every block deallocated nothing
   is outstanding: allocations = deallocations on the base allocator. *)
Theorem last_owner_returns_all : forall ops st' obs, good true init ops = true -> run init ops = Ok (st', obs) ->
  outstanding st' + sum_frees obs = sum_allocs obs /\
  (forall p, p < npools st' ->
     (forall h, h < nhandles st' -> halive (handles st' h) = true -> hpool (handles st' h) <> p) ->
     palive (pools st' p) = false /\ pool_out (pools st' p) = 0) /\
  ((forall h, h < nhandles st' -> halive (handles st' h) = false) ->
   (forall b, b < nblocks st' -> balive (blocks st' b) = false) ->
   outstanding st' = 0 /\ sum_allocs obs = sum_frees obs).
Proof.
  intros ops st' obs G E. destruct (run_good init ops inv_init G) as [st2 [obs2 [E2 [I [_ B]]]]].
  rewrite E in E2. inversion E2; subst st2 obs2. change (outstanding init) with 0 in B.
  assert (Hgone : forall p, p < npools st' ->
     (forall h, h < nhandles st' -> halive (handles st' h) = true -> hpool (handles st' h) <> p) ->
     palive (pools st' p) = false /\ pool_out (pools st' p) = 0).
  { intros p Hp Hno. assert (prefs (pools st' p) = 0) as R0.
    { rewrite (i_refs _ _ I p Hp). apply sumn_all_zero. intros h Hh. unfold owns.
      destruct (halive (handles st' h)) eqn:Ea; [|reflexivity].
      destruct (Nat.eqb_spec (hpool (handles st' h)) p) as [Eq|]; [|reflexivity].
      exfalso. apply (Hno h Hh Ea Eq). }
    pose proof (i_alive _ _ I p Hp) as A. rewrite R0 in A. simpl in A. split; [exact A|].
    unfold pool_out. rewrite A. reflexivity. }
  split; [lia|]. split; [exact Hgone|].
  intros Hh Hb. assert (outstanding st' = 0) as O0.
  { unfold outstanding. rewrite (sumn_all_zero (npools st')), (sumn_all_zero (nblocks st')); [reflexivity| |].
    - intros b Hlt. unfold raw_out. rewrite (Hb b Hlt). reflexivity.
    - intros p Hp. apply Hgone; [exact Hp|]. intros h Hlt Ha. rewrite (Hh h Hlt) in Ha. discriminate. }
  split; [exact O0 | lia].
Qed.

(* ------------------------------------------------------------------ independence of pools *)
Definition op_pools (st : state) (o : op) : list nat :=
  match o with
  | OpNew _ => []
  | OpCopy h => [hpool (handles st h)]
  | OpMove h => [hpool (handles st h)]
  | OpRebind h _ => [hpool (handles st h)]
  | OpSocc h => []             (* reads only the base allocator of h's pool *)
  | OpAssign hd hs => [hpool (handles st hd); hpool (handles st hs)]
  | OpDestroy h => [hpool (handles st h)]
  | OpAlloc h _ _ => [hpool (handles st h)]
  | OpDealloc h _ _ _ => [hpool (handles st h)]
  | OpAllocFail h _ _ => [hpool (handles st h)]
  | OpElem _ => []
  | OpQuery _ _ => []
  | OpSoccFail _ => []
  end.

(* pool q and the blocks obtained through it are untouched *)
Definition pool_untouched (q : nat) (st st' : state) : Prop :=
  pools st' q = pools st q /\ npools st <= npools st' /\ nblocks st <= nblocks st' /\
  (forall b, b < nblocks st -> bpool (blocks st b) = q -> blocks st' b = blocks st b).

Lemma release_other s p q s' fr : release s p = Ok (s', fr) -> q <> p ->
  pools s' q = pools s q /\ blocks s' = blocks s /\ nblocks s' = nblocks s /\ npools s' = npools s /\
  handles s' = handles s /\ nhandles s' = nhandles s.
Proof.
  unfold release. intros E Hq.
  destruct (prefs (pools s p)) as [|[|r]].
  - inversion E; subst; unfold set_pool; proj; rewrite updn_other by exact Hq; repeat split; reflexivity.
  - destruct (Nat.eqb (pcount (pools s p)) 0); [|discriminate].
    inversion E; subst; unfold set_pool; proj; rewrite updn_other by exact Hq; repeat split; reflexivity.
  - inversion E; subst; unfold set_pool; proj; rewrite updn_other by exact Hq; repeat split; reflexivity.
Qed.

Lemma step_frame st o st' ob q : step st o = Ok (st', ob) -> proto_ok st o = true -> q < npools st ->
  ~ In q (op_pools st o) -> pool_untouched q st st'.
Proof.
  intros E Hpr Hq Hn. unfold pool_untouched. destruct o; simpl in E, Hn.
  - inversion E; subst; unfold push_handle, push_pool; proj. rewrite updn_other by lia. repeat split; auto; lia.
  - inversion E; subst; unfold push_handle, acquire, set_pool; proj. rewrite updn_other by (intuition congruence). repeat split; auto; lia.
  - inversion E; subst; unfold push_handle, acquire, set_pool; proj. rewrite updn_other by (intuition congruence). repeat split; auto; lia.
  - inversion E; subst; unfold push_handle, acquire, set_pool; proj. rewrite updn_other by (intuition congruence). repeat split; auto; lia.
  - inversion E; subst; unfold push_handle, push_pool; proj. rewrite updn_other by lia. repeat split; auto; lia.
  - destruct (release (acquire st (hpool (handles st hs))) (hpool (handles st hd))) as [[s1 fr]| | |] eqn:Er; try discriminate.
    inversion E; subst. destruct (release_other _ _ q _ _ Er ltac:(intuition congruence)) as [Hp [Hb [Hnb _]]].
    destruct (release_other _ _ q _ _ Er ltac:(intuition congruence)) as [_ [_ [_ [Hnp _]]]].
    unfold set_handle; proj. rewrite Hp, Hb, Hnb, Hnp. unfold acquire, set_pool; proj. rewrite updn_other by (intuition congruence).
    repeat split; auto; lia.
  - destruct (release st (hpool (handles st h))) as [[s1 fr]| | |] eqn:Er; try discriminate.
    inversion E; subst. destruct (release_other _ _ q _ _ Er ltac:(intuition congruence)) as [Hp [Hb [Hnb _]]].
    destruct (release_other _ _ q _ _ Er ltac:(intuition congruence)) as [_ [_ [_ [Hnp _]]]].
    unfold set_handle; proj. rewrite Hp, Hb, Hnb, Hnp. repeat split; auto; lia.
  - assert (q <> hpool (handles st h)) as Hne by (intuition congruence).
    destruct (n =? 1)%Z;
      [destruct (negb (params_eqb (get_params (hvt (handles st h))) (pparams (pools st (hpool (handles st h))))) &&
                 Nat.eqb (pcount (pools st (hpool (handles st h)))) 0);
       [|destruct (params_eqb (get_params (hvt (handles st h))) (pparams (pools st (hpool (handles st h)))))]|];
      inversion E; subst; unfold set_cached, push_block, set_pool; proj; try rewrite updn_other by exact Hne;
      (split; [reflexivity|]; split; [lia|]; split; [lia|];
       intros b Hb _; rewrite updn_other by lia; reflexivity).
  - assert (q <> hpool (handles st h)) as Hne by (intuition congruence).
    simpl in Hpr. repeat rewrite andb_true_iff in Hpr. destruct Hpr as [[[[_ _] Hbp] _] _]. apply Nat.eqb_eq in Hbp.
    assert (Hblk : forall k, k < nblocks st -> bpool (blocks st k) = q ->
               updn (blocks st) b (mkBlock false (bpool (blocks st b)) (bvt (blocks st b)) (bn (blocks st b)) (btag (blocks st b))) k
               = blocks st k).
    { intros k Hk Hkq. unfold updn. destruct (Nat.eqb_spec k b) as [->|]; [|reflexivity]. congruence. }
    destruct ((n =? 1)%Z && params_eqb (get_params (hvt (handles st h))) (pparams (pools st (hpool (handles st h))))).
    + destruct (pcount (pools st (hpool (handles st h)))); [discriminate|].
      inversion E; subst; unfold set_cached, set_block, set_pool; proj. rewrite updn_other by exact Hne.
      split; [reflexivity|]. split; [lia|]. split; [lia | exact Hblk].
    + inversion E; subst; unfold set_block; proj.
      split; [reflexivity|]. split; [lia|]. split; [lia | exact Hblk].
  - assert (q <> hpool (handles st h)) as Hne by (intuition congruence).
    destruct (n =? 1)%Z;
      [destruct (negb (params_eqb (get_params (hvt (handles st h))) (pparams (pools st (hpool (handles st h))))) &&
                 Nat.eqb (pcount (pools st (hpool (handles st h)))) 0);
       [|destruct (params_eqb (get_params (hvt (handles st h))) (pparams (pools st (hpool (handles st h)))));
         [destruct (from_cache st (hpool (handles st h))); [discriminate|]|]]|];
      inversion E; subst; unfold set_cached, set_pool; proj; try rewrite updn_other by exact Hne;
      (split; [reflexivity|]; split; [lia|]; split; [lia|]; intros; reflexivity).
  - inversion E; subst. repeat split; auto.
  - inversion E; subst. repeat split; auto.
  - inversion E; subst. repeat split; auto.
Qed.

(* a history none of whose operations goes through an allocator that shares pool q *)
Fixpoint avoids (q : nat) (st : state) (ops : list op) : Prop :=
  match ops with
  | [] => True
  | o :: r => proto_ok st o = true /\ ~ In q (op_pools st o) /\
              match step st o with Ok (st1, _) => avoids q st1 r | _ => True end
  end.

Lemma run_frame : forall ops st st' obs q, run st ops = Ok (st', obs) -> q < npools st -> avoids q st ops ->
  pool_untouched q st st'.
Proof.
  induction ops as [|o r IH]; intros st st' obs q E Hq A.
  - simpl in E. inversion E; subst. unfold pool_untouched. repeat split; auto.
  - simpl in E, A. destruct A as [Hp [Hn A]].
    destruct (step st o) as [[st1 ob]| | |] eqn:Es; try discriminate.
    destruct (run st1 r) as [[st2 obs2]| | |] eqn:Er; try discriminate. inversion E; subst st2 obs.
    destruct (step_frame st o st1 ob q Es Hp Hq Hn) as [F1 [F2 [F3 F4]]].
    destruct (IH st1 st' obs2 q Er ltac:(lia) A) as [G1 [G2 [G3 G4]]].
    unfold pool_untouched. split; [congruence|]. split; [lia|]. split; [lia|].
    intros b Hb Hbq. rewrite <- (F4 b Hb Hbq). apply G4; [lia|]. rewrite (F4 b Hb Hbq). exact Hbq.
Qed.

(* T4: select_on_container_copy_construction gives the copy a brand-new pool that nobody else owns, and
   whatever is afterwards done through allocators of OTHER pools (in particular: using and destroying
   the original container) leaves the copy's pool and blocks untouched, and vice versa. *)
Theorem copies_use_independent_pools : forall st h, inv st -> handle_ok st h = true ->
  exists st1 ob, step st (OpSocc h) = Ok (st1, ob) /\ inv st1 /\
    let c := nhandles st in                      (* the copy's allocator *)
    let q := hpool (handles st1 c) in
    halive (handles st1 c) = true /\ hvt (handles st1 c) = hvt (handles st h) /\
    q = npools st /\ (forall k, k < nhandles st -> halive (handles st k) = true -> hpool (handles st1 k) <> q) /\
    pools st1 q = mkPool (get_params (hvt (handles st h))) 0 1 0 true /\
    (forall p, p < npools st -> pools st1 p = pools st p) /\
    (forall ops st2 obs, run st1 ops = Ok (st2, obs) -> avoids q st1 ops -> pool_untouched q st1 st2) /\
    (forall ops st2 obs p, p < npools st -> run st1 ops = Ok (st2, obs) -> avoids p st1 ops -> pool_untouched p st1 st2).
Proof.
  intros st h I Hok. eexists _, _. split; [reflexivity|]. split; [apply fresh_pool_inv; exact I|].
  unfold push_handle, push_pool; proj. repeat (rewrite updn_same; proj).
  split; [reflexivity|]. split; [reflexivity|]. split; [reflexivity|]. split.
  - intros k Hk Ha. rewrite updn_other by lia. pose proof (i_hnd _ _ I k Hk Ha). lia.
  - split; [reflexivity|]. split; [intros p Hp; rewrite updn_other by lia; reflexivity|]. split.
    + intros ops st2 obs E A. apply (run_frame ops _ st2 obs _ E); [proj; lia | exact A].
    + intros ops st2 obs p Hp E A. apply (run_frame ops _ st2 obs _ E); [proj; lia | exact A].
Qed.

(* ------------------------------------------------------------------ moves and swaps carry the pool *)
(* memory-side of two states is the same: pools (except reference counts) and blocks *)
Definition same_mem (st st' : state) : Prop :=
  npools st' = npools st /\ nblocks st' = nblocks st /\ (forall b, blocks st' b = blocks st b) /\
  forall p, pparams (pools st' p) = pparams (pools st p) /\ pcount (pools st' p) = pcount (pools st p) /\
            pheld (pools st' p) = pheld (pools st p) /\ palive (pools st' p) = palive (pools st p).

Lemma same_mem_refl st : same_mem st st.
Proof. unfold same_mem; repeat split; auto. Qed.
Lemma same_mem_trans a b c : same_mem a b -> same_mem b c -> same_mem a c.
Proof.
  unfold same_mem. intros [A1 [A2 [A3 A4]]] [B1 [B2 [B3 B4]]]. split; [congruence|]. split; [congruence|].
  split; [intros; rewrite B3; apply A3|]. intros p. destruct (A4 p) as [? [? [? ?]]], (B4 p) as [? [? [? ?]]].
  repeat split; congruence.
Qed.

(* container move construction copies the allocator (no move constructor is declared): the new allocator
   shares the source's pool, so every block of the source can be freed through it *)
Lemma copy_effect st h : inv st -> handle_ok st h = true ->
  exists st1 ob, step st (OpCopy h) = Ok (st1, ob) /\ inv st1 /\ same_mem st st1 /\
    o_allocs ob = 0 /\ o_frees ob = 0 /\ nhandles st1 = S (nhandles st) /\
    (forall k, handles st1 k = if Nat.eqb k (nhandles st) then mkHandle true (hpool (handles st h)) (hvt (handles st h))
                               else handles st k).
Proof.
  intros I Hok. destruct (step_copy st h I Hok) as [st1 [ob [E [I1 _]]]]. exists st1, ob.
  simpl in E. inversion E; subst. split; [reflexivity|]. split; [exact I1|]. split.
  - unfold same_mem, push_handle, acquire, set_pool; proj. repeat split; auto;
      unfold updn; destruct (Nat.eqb p (hpool (handles st h))) eqn:Ep; proj; try reflexivity;
      apply Nat.eqb_eq in Ep; subst; reflexivity.
  - proj. repeat split; reflexivity.
Qed.

Lemma sumn_ge2 n f i j : i <> j -> i < n -> j < n -> f i + f j <= sumn n f.
Proof.
  induction n; simpl; intros Hne Hi Hj; [lia|].
  destruct (Nat.eq_dec i n) as [->|Hin]; destruct (Nat.eq_dec j n) as [->|Hjn]; try lia.
  - pose proof (sumn_ge n f j ltac:(lia)). lia.
  - pose proof (sumn_ge n f i ltac:(lia)). lia.
Qed.

Lemma two_owners st h k : inv st -> h <> k -> handle_ok st h = true -> handle_ok st k = true ->
  hpool (handles st h) = hpool (handles st k) -> 2 <= prefs (pools st (hpool (handles st h))).
Proof.
  intros I Hne Hh Hk Hp. apply handle_ok_spec in Hh as [Hh Ha]. apply handle_ok_spec in Hk as [Hk Hka].
  pose proof (i_hnd _ _ I h Hh Ha) as Hlt. rewrite (i_refs _ _ I _ Hlt).
  pose proof (sumn_ge2 (nhandles st) (fun x => owns (hpool (handles st h)) (handles st x)) h k Hne Hh Hk) as G.
  cbv beta in G. unfold owns at 1 2 in G. rewrite Ha, Hka, <- Hp, Nat.eqb_refl in G. simpl in G. exact G.
Qed.

(* operator= when the destination is not the last owner of its old pool (or both already share a pool):
   nothing happens on the memory side, the destination now shares the source's pool *)
Lemma assign_effect st hd hs : inv st -> handle_ok st hd = true -> handle_ok st hs = true ->
  hvt (handles st hd) = hvt (handles st hs) ->
  (2 <= prefs (pools st (hpool (handles st hd))) \/ hpool (handles st hd) = hpool (handles st hs)) ->
  exists st1 ob, step st (OpAssign hd hs) = Ok (st1, ob) /\ inv st1 /\ same_mem st st1 /\
    o_allocs ob = 0 /\ o_frees ob = 0 /\ nhandles st1 = nhandles st /\
    (forall k, handles st1 k = if Nat.eqb k hd then mkHandle true (hpool (handles st hs)) (hvt (handles st hd))
                               else handles st k).
Proof.
  intros I Hd Hs Hvt Hnl.
  assert (proto_ok st (OpAssign hd hs) = true) as Hp.
  { simpl. rewrite Hd, Hs, Hvt. unfold vt_eqb. rewrite !Z.eqb_refl. simpl.
    destruct Hnl as [H2|He]; [|rewrite He, Nat.eqb_refl; reflexivity].
    destruct (Nat.eqb_spec (prefs (pools st (hpool (handles st hd)))) 1); [lia|]. simpl. rewrite orb_true_r. reflexivity. }
  destruct (step_assign st hd hs I Hp) as [st1 [ob [E [I1 _]]]]. exists st1, ob. split; [exact E|]. split; [exact I1|].
  apply handle_ok_spec in Hd as [Hhd Had]. apply handle_ok_spec in Hs as [Hhs Has].
  destruct (handle_pool_alive st hd I Hhd Had) as [Hltd [Hrd Hald]].
  destruct (handle_pool_alive st hs I Hhs Has) as [Hlts [Hrs Hals]].
  set (pd := hpool (handles st hd)) in *. set (ps := hpool (handles st hs)) in *.
  set (sa := acquire st ps).
  assert (Hsa : forall q, pools sa q = if Nat.eqb q ps
            then mkPool (pparams (pools st ps)) (pcount (pools st ps)) (S (prefs (pools st ps))) (pheld (pools st ps)) (palive (pools st ps))
            else pools st q) by reflexivity.
  assert (palive (pools sa pd) = true) as Ha1.
  { rewrite Hsa. destruct (Nat.eqb_spec pd ps) as [E0|]; proj; [rewrite <- E0; exact Hald | exact Hald]. }
  assert (2 <= prefs (pools sa pd)) as Ha2.
  { rewrite Hsa. destruct (Nat.eqb_spec pd ps) as [E0|]; proj; [lia|]. destruct Hnl; [lia|contradiction]. }
  destruct (release_spec sa pd Ha1 ltac:(lia) ltac:(lia)) as [P' [fr [Er [Hpp [Hpc [Hpr [Hpa [Hout Hfr]]]]]]]].
  assert (fr = 0) as Hfr0. { destruct (Nat.eq_dec fr 0) as [|Hnz]; [assumption|]. destruct (Hfr Hnz). lia. }
  unfold PoolAlloc.step in E. fold pd ps sa in E. rewrite Er in E. inversion E; subst st1 ob. clear E.
  assert (Hheld : pheld P' = pheld (pools sa pd)).
  { unfold pool_out in Hout. rewrite Ha1, Hpa in Hout.
    destruct (Nat.eqb_spec (Nat.pred (prefs (pools sa pd))) 0); [lia|]. cbn [negb] in Hout. lia. }
  assert (Hal' : palive P' = true).
  { rewrite Hpa. destruct (Nat.eqb_spec (Nat.pred (prefs (pools sa pd))) 0); [lia|reflexivity]. }
  split.
  - unfold same_mem, set_handle, set_pool; proj. split; [reflexivity|]. split; [reflexivity|]. split; [reflexivity|].
    intros p. unfold updn. destruct (Nat.eqb_spec p pd) as [->|Hnp].
    + rewrite Hpp, Hpc, Hheld, Hal', Hsa. destruct (Nat.eqb_spec pd ps) as [E0|]; proj.
      * rewrite <- E0. rewrite Hald. repeat split; reflexivity.
      * rewrite Hald. repeat split; reflexivity.
    + rewrite Hsa. destruct (Nat.eqb_spec p ps) as [->|]; proj; repeat split; reflexivity.
  - unfold set_handle, set_pool; proj. repeat split; auto.
Qed.

(* destructor of an allocator that is not the last owner: nothing happens on the memory side *)
Lemma destroy_effect st h : inv st -> handle_ok st h = true -> 2 <= prefs (pools st (hpool (handles st h))) ->
  exists st1 ob, step st (OpDestroy h) = Ok (st1, ob) /\ inv st1 /\ same_mem st st1 /\
    o_allocs ob = 0 /\ o_frees ob = 0 /\ nhandles st1 = nhandles st /\
    (forall k, handles st1 k = if Nat.eqb k h then mkHandle false (hpool (handles st h)) (hvt (handles st h))
                               else handles st k).
Proof.
  intros I Hok H2.
  assert (proto_ok st (OpDestroy h) = true) as Hp.
  { simpl. rewrite Hok. destruct (Nat.eqb_spec (prefs (pools st (hpool (handles st h)))) 1); [lia|reflexivity]. }
  destruct (step_destroy st h I Hp) as [st1 [ob [E [I1 _]]]]. exists st1, ob. split; [exact E|]. split; [exact I1|].
  apply handle_ok_spec in Hok as [Hh Ha]. destruct (handle_pool_alive st h I Hh Ha) as [Hlt [Hr Hal]].
  set (p := hpool (handles st h)) in *.
  destruct (release_spec st p Hal ltac:(lia) ltac:(lia)) as [P' [fr [Er [Hpp [Hpc [Hpr [Hpa [Hout Hfr]]]]]]]].
  assert (fr = 0) as Hfr0. { destruct (Nat.eq_dec fr 0) as [|Hnz]; [assumption|]. destruct (Hfr Hnz). lia. }
  unfold PoolAlloc.step in E. fold p in E. rewrite Er in E. inversion E; subst st1 ob. clear E.
  assert (Hal' : palive P' = true).
  { rewrite Hpa. destruct (Nat.eqb_spec (Nat.pred (prefs (pools st p))) 0); [lia|reflexivity]. }
  assert (Hheld : pheld P' = pheld (pools st p)).
  { unfold pool_out in Hout. rewrite Hal, Hal' in Hout. lia. }
  split.
  - unfold same_mem, set_handle, set_pool; proj. split; [reflexivity|]. split; [reflexivity|]. split; [reflexivity|].
    intros q. unfold updn. destruct (Nat.eqb_spec q p) as [->|]; [|repeat split; reflexivity].
    rewrite Hpp, Hpc, Hheld, Hal', Hal. repeat split; reflexivity.
  - unfold set_handle, set_pool; proj. repeat split; auto.
Qed.

(* T5c: std::swap of two allocators of the same type (propagate_on_container_swap): the two allocators
   exchange their pools, no memory moves, no pool dies, every block stays where it is *)
Lemma swap_carries st h1 h2 : inv st -> h1 <> h2 -> handle_ok st h1 = true -> handle_ok st h2 = true ->
  hvt (handles st h1) = hvt (handles st h2) ->
  exists st' obs, run st (swap_ops st h1 h2) = Ok (st', obs) /\ inv st' /\ same_mem st st' /\
    sum_allocs obs = 0 /\ sum_frees obs = 0 /\ nhandles st' = S (nhandles st) /\
    handles st' h1 = mkHandle true (hpool (handles st h2)) (hvt (handles st h1)) /\
    handles st' h2 = mkHandle true (hpool (handles st h1)) (hvt (handles st h2)) /\
    (forall k, k < nhandles st -> k <> h1 -> k <> h2 -> handles st' k = handles st k).
Proof.
  intros I Hne Hk1 Hk2 Hvt.
  destruct (handle_ok_spec _ _ Hk1) as [Hlt1 Hal1]. destruct (handle_ok_spec _ _ Hk2) as [Hlt2 Hal2].
  set (t := nhandles st).
  (* tmp(a) *)
  destruct (copy_effect st h1 I Hk1) as [s1 [o1 [E1 [I1 [M1 [A1 [F1 [N1 T1]]]]]]]]. fold t in N1, T1.
  assert (G1 : forall k, k <> t -> handles s1 k = handles st k).
  { intros k Hk. rewrite T1. destruct (Nat.eqb_spec k t); [contradiction|reflexivity]. }
  assert (Gt1 : handles s1 t = mkHandle true (hpool (handles st h1)) (hvt (handles st h1))).
  { rewrite T1, Nat.eqb_refl. reflexivity. }
  assert (K1a : handle_ok s1 h1 = true). { unfold handle_ok. rewrite N1, G1 by lia. rewrite Hal1. apply andb_true_iff; split; [apply Nat.ltb_lt; lia|reflexivity]. }
  assert (K1b : handle_ok s1 h2 = true). { unfold handle_ok. rewrite N1, G1 by lia. rewrite Hal2. apply andb_true_iff; split; [apply Nat.ltb_lt; lia|reflexivity]. }
  assert (K1t : handle_ok s1 t = true). { unfold handle_ok. rewrite N1, Gt1. apply andb_true_iff; split; [apply Nat.ltb_lt; lia|reflexivity]. }
  (* a = b *)
  destruct (assign_effect s1 h1 h2 I1 K1a K1b) as [s2 [o2 [E2 [I2 [M2 [A2 [F2 [N2 T2]]]]]]]].
  { rewrite !G1 by lia. exact Hvt. }
  { left. apply (two_owners s1 h1 t I1 ltac:(lia) K1a K1t). rewrite G1 by lia. rewrite Gt1. reflexivity. }
  rewrite (G1 h1) in T2 by lia. rewrite (G1 h2) in T2 by lia.
  assert (G2 : forall k, k <> h1 -> handles s2 k = handles s1 k).
  { intros k Hk. rewrite T2. destruct (Nat.eqb_spec k h1); [contradiction|reflexivity]. }
  assert (Gh2 : handles s2 h1 = mkHandle true (hpool (handles st h2)) (hvt (handles st h1))).
  { rewrite T2, Nat.eqb_refl. reflexivity. }
  assert (K2a : handle_ok s2 h1 = true). { unfold handle_ok. rewrite N2, N1, Gh2. apply andb_true_iff; split; [apply Nat.ltb_lt; lia|reflexivity]. }
  assert (K2b : handle_ok s2 h2 = true). { unfold handle_ok. rewrite N2, N1, G2, G1 by lia. rewrite Hal2. apply andb_true_iff; split; [apply Nat.ltb_lt; lia|reflexivity]. }
  assert (K2t : handle_ok s2 t = true). { unfold handle_ok. rewrite N2, N1, G2, Gt1 by lia. apply andb_true_iff; split; [apply Nat.ltb_lt; lia|reflexivity]. }
  (* b = tmp *)
  destruct (assign_effect s2 h2 t I2 K2b K2t) as [s3 [o3 [E3 [I3 [M3 [A3 [F3 [N3 T3]]]]]]]].
  { rewrite (G2 h2), (G2 t), (G1 h2), Gt1 by lia. proj. symmetry. exact Hvt. }
  { left. apply (two_owners s2 h2 h1 I2 ltac:(lia) K2b K2a). rewrite (G2 h2), (G1 h2), Gh2 by lia. reflexivity. }
  rewrite (G2 h2), (G2 t), (G1 h2), Gt1 in T3 by lia. proj.
  assert (G3 : forall k, k <> h2 -> handles s3 k = handles s2 k).
  { intros k Hk. rewrite T3. destruct (Nat.eqb_spec k h2); [contradiction|reflexivity]. }
  assert (Gh3 : handles s3 h2 = mkHandle true (hpool (handles st h1)) (hvt (handles st h2))).
  { rewrite T3, Nat.eqb_refl. reflexivity. }
  assert (K3b : handle_ok s3 h2 = true). { unfold handle_ok. rewrite N3, N2, N1, Gh3. apply andb_true_iff; split; [apply Nat.ltb_lt; lia|reflexivity]. }
  assert (K3t : handle_ok s3 t = true). { unfold handle_ok. rewrite N3, N2, N1, G3, G2, Gt1 by lia. apply andb_true_iff; split; [apply Nat.ltb_lt; lia|reflexivity]. }
  (* ~tmp *)
  destruct (destroy_effect s3 t I3 K3t) as [s4 [o4 [E4 [I4 [M4 [A4 [F4 [N4 T4]]]]]]]].
  { apply (two_owners s3 t h2 I3 ltac:(lia) K3t K3b). rewrite G3, G2, Gt1, Gh3 by lia. reflexivity. }
  exists s4, [o1; o2; o3; o4]. unfold swap_ops. fold t. cbn [run]. change (step st (OpMove h1)) with (step st (OpCopy h1)). rewrite E1, E2, E3, E4.
  split; [reflexivity|]. split; [exact I4|].
  split; [apply (same_mem_trans _ s1); [exact M1|]; apply (same_mem_trans _ s2); [exact M2|];
          apply (same_mem_trans _ s3); [exact M3 | exact M4]|].
  split; [cbn [sum_allocs]; lia|]. split; [cbn [sum_frees]; lia|]. split; [lia|].
  assert (G4 : forall k, k <> t -> handles s4 k = handles s3 k).
  { intros k Hk. rewrite T4. destruct (Nat.eqb_spec k t); [contradiction|reflexivity]. }
  split; [rewrite G4, G3 by lia; exact Gh2|]. split; [rewrite G4 by lia; exact Gh3|].
  intros k Hk Hk1' Hk2'. rewrite G4, G3, G2, G1 by lia. reflexivity.
Qed.

Lemma dealloc_transfer st st1 h k b n s : same_mem st st1 -> handle_ok st1 k = true ->
  hpool (handles st1 k) = hpool (handles st h) -> hvt (handles st1 k) = hvt (handles st h) ->
  proto_ok st (OpDealloc h b n s) = true -> proto_ok st1 (OpDealloc k b n s) = true.
Proof.
  intros [M1 [M2 [M3 _]]] Hk Hp Hv P. simpl in *. rewrite Hk, M2, M3, Hp, Hv.
  repeat rewrite andb_true_iff in P. destruct P as [[[[[_ P1] P2] P3] P4] P5].
  rewrite P1, P2, P3, P4, P5. reflexivity.
Qed.

(* T5: move construction (allocator copied), move assignment (propagate_on_container_move_assignment:
   allocator assigned; shown here for a destination that shares its old pool or is not its last owner - the
   last-owner case additionally destroys the old pool, see step_assign / last_owner_returns_all) and swap
   make the target allocator share the pool of the source: exactly the blocks the source could deallocate
   can now be deallocated through the target, with no base-allocator traffic and no change to any pool's
   parameters, allocate count or buffers *)
Theorem move_and_swap_carry_pool : forall st, inv st ->
  (forall h, handle_ok st h = true ->
     exists st1 ob, step st (OpCopy h) = Ok (st1, ob) /\ inv st1 /\ same_mem st st1 /\ o_allocs ob = 0 /\ o_frees ob = 0 /\
       handles st1 (nhandles st) = mkHandle true (hpool (handles st h)) (hvt (handles st h)) /\
       forall b n s, proto_ok st (OpDealloc h b n s) = true -> proto_ok st1 (OpDealloc (nhandles st) b n s) = true) /\
  (forall hd hs, handle_ok st hd = true -> handle_ok st hs = true -> hvt (handles st hd) = hvt (handles st hs) ->
     (2 <= prefs (pools st (hpool (handles st hd))) \/ hpool (handles st hd) = hpool (handles st hs)) ->
     exists st1 ob, step st (OpAssign hd hs) = Ok (st1, ob) /\ inv st1 /\ same_mem st st1 /\ o_allocs ob = 0 /\ o_frees ob = 0 /\
       handles st1 hd = mkHandle true (hpool (handles st hs)) (hvt (handles st hd)) /\
       forall b n s, proto_ok st (OpDealloc hs b n s) = true -> proto_ok st1 (OpDealloc hd b n s) = true) /\
  (forall h1 h2, h1 <> h2 -> handle_ok st h1 = true -> handle_ok st h2 = true -> hvt (handles st h1) = hvt (handles st h2) ->
     exists st' obs, run st (swap_ops st h1 h2) = Ok (st', obs) /\ inv st' /\ same_mem st st' /\
       sum_allocs obs = 0 /\ sum_frees obs = 0 /\
       handles st' h1 = mkHandle true (hpool (handles st h2)) (hvt (handles st h1)) /\
       handles st' h2 = mkHandle true (hpool (handles st h1)) (hvt (handles st h2)) /\
       (forall k, k < nhandles st -> k <> h1 -> k <> h2 -> handles st' k = handles st k) /\
       (forall b n s, proto_ok st (OpDealloc h2 b n s) = true -> proto_ok st' (OpDealloc h1 b n s) = true) /\
       (forall b n s, proto_ok st (OpDealloc h1 b n s) = true -> proto_ok st' (OpDealloc h2 b n s) = true)).
Proof.
  intros st I. split; [|split].
  - intros h Hok. destruct (copy_effect st h I Hok) as [s1 [o1 [E1 [I1 [M1 [A1 [F1 [N1 T1]]]]]]]].
    exists s1, o1. assert (Gt : handles s1 (nhandles st) = mkHandle true (hpool (handles st h)) (hvt (handles st h))).
    { rewrite T1, Nat.eqb_refl. reflexivity. }
    repeat (split; [assumption|]). intros b n s P. apply (dealloc_transfer st s1 h _ b n s M1); auto; try (rewrite Gt; reflexivity).
    unfold handle_ok. rewrite N1, Gt. apply andb_true_iff; split; [apply Nat.ltb_lt; lia|reflexivity].
  - intros hd hs Hd Hs Hvt Hnl. destruct (assign_effect st hd hs I Hd Hs Hvt Hnl) as [s1 [o1 [E1 [I1 [M1 [A1 [F1 [N1 T1]]]]]]]].
    exists s1, o1. assert (Gt : handles s1 hd = mkHandle true (hpool (handles st hs)) (hvt (handles st hd))).
    { rewrite T1, Nat.eqb_refl. reflexivity. }
    repeat (split; [assumption|]). intros b n s P. apply (dealloc_transfer st s1 hs _ b n s M1); auto; try (rewrite Gt; proj; auto).
    unfold handle_ok. rewrite N1, Gt. destruct (handle_ok_spec _ _ Hd) as [Hlt _].
    apply andb_true_iff; split; [apply Nat.ltb_lt; lia|reflexivity].
  - intros h1 h2 Hne Hk1 Hk2 Hvt.
    destruct (swap_carries st h1 h2 I Hne Hk1 Hk2 Hvt) as [s' [obs [E [I' [M [A [F [N [G1 [G2 G3]]]]]]]]]].
    exists s', obs. repeat (split; [assumption|]).
    destruct (handle_ok_spec _ _ Hk1) as [Hlt1 _]. destruct (handle_ok_spec _ _ Hk2) as [Hlt2 _].
    split; intros b n s P.
    + apply (dealloc_transfer st s' h2 h1 b n s M); auto; try (rewrite G1; proj; auto).
      unfold handle_ok. rewrite N, G1. apply andb_true_iff; split; [apply Nat.ltb_lt; lia|reflexivity].
    + apply (dealloc_transfer st s' h1 h2 b n s M); auto; try (rewrite G2; proj; auto).
      unfold handle_ok. rewrite N, G2. apply andb_true_iff; split; [apply Nat.ltb_lt; lia|reflexivity].
Qed.

(* ------------------------------------------------------------------ round 2 *)
(* T5a': construction from an rvalue allocator is a COPY: the source keeps its pool (and stays usable), the
   new allocator shares it, use_count goes up by one *)
Theorem move_construction_is_copy : forall st h, inv st -> handle_ok st h = true ->
  step st (OpMove h) = step st (OpCopy h) /\
  exists st1 ob, step st (OpMove h) = Ok (st1, ob) /\ inv st1 /\ same_mem st st1 /\
    handles st1 h = handles st h /\
    handles st1 (nhandles st) = mkHandle true (hpool (handles st h)) (hvt (handles st h)) /\
    prefs (pools st1 (hpool (handles st h))) = S (prefs (pools st (hpool (handles st h)))).
Proof.
  intros st h I Hok. split; [reflexivity|].
  destruct (copy_effect st h I Hok) as [s1 [o1 [E1 [I1 [M1 [A1 [F1 [N1 T1]]]]]]]].
  exists s1, o1. change (step st (OpMove h)) with (step st (OpCopy h)).
  split; [exact E1|]. split; [exact I1|]. split; [exact M1|].
  destruct (handle_ok_spec _ _ Hok) as [Hlt _].
  split; [rewrite T1; destruct (Nat.eqb_spec h (nhandles st)); [lia|reflexivity]|].
  split; [rewrite T1, Nat.eqb_refl; reflexivity|].
  simpl in E1. inversion E1; subst. unfold push_handle, acquire, set_pool; proj. rewrite updn_same. reflexivity.
Qed.

(* T5b': move assignment (operator=) by the LAST owner of the destination's old pool, which no longer has
   blocks: the old pool is destroyed and returns all its buffers plus its control block; the destination
   now shares the source's pool, whose parameters / count / buffers / cache and all blocks are unchanged;
   the source's deallocation rights carry over *)
Theorem assign_last_owner_carry : forall st hd hs, inv st -> proto_ok st (OpAssign hd hs) = true ->
  hpool (handles st hd) <> hpool (handles st hs) -> prefs (pools st (hpool (handles st hd))) = 1 ->
  let pd := hpool (handles st hd) in let ps := hpool (handles st hs) in
  exists st1 ob, step st (OpAssign hd hs) = Ok (st1, ob) /\ inv st1 /\
    handles st1 hd = mkHandle true ps (hvt (handles st hd)) /\ (forall k, k <> hd -> handles st1 k = handles st k) /\
    palive (pools st1 pd) = false /\ pool_out (pools st1 pd) = 0 /\
    o_allocs ob = 0 /\ o_frees ob = S (pheld (pools st pd)) /\
    pools st1 ps = mkPool (pparams (pools st ps)) (pcount (pools st ps)) (S (prefs (pools st ps))) (pheld (pools st ps)) (palive (pools st ps)) /\
    palive (pools st ps) = true /\
    (forall q, q <> pd -> q <> ps -> pools st1 q = pools st q) /\
    (forall b, blocks st1 b = blocks st b) /\ nblocks st1 = nblocks st /\ (forall q, cached st1 q = cached st q) /\
    (forall b n s, proto_ok st (OpDealloc hs b n s) = true -> proto_ok st1 (OpDealloc hd b n s) = true).
Proof.
  intros st hd hs I Hp Hne H1 pd ps.
  destruct (step_assign st hd hs I Hp) as [st1 [ob [E [I1 _]]]]. exists st1, ob. split; [exact E|]. split; [exact I1|].
  pose proof Hp as Hp'. simpl in Hp'. repeat rewrite andb_true_iff in Hp'. destruct Hp' as [[[Hokd Hoks] Hvt] Hlast].
  destruct (handle_ok_spec _ _ Hokd) as [Hhd Had]. destruct (handle_ok_spec _ _ Hoks) as [Hhs Has].
  destruct (handle_pool_alive st hd I Hhd Had) as [Hltd [Hrd Hald]].
  destruct (handle_pool_alive st hs I Hhs Has) as [Hlts [Hrs Hals]].
  fold pd in Hne, H1, Hlast, Hltd, Hrd, Hald. fold ps in Hne, Hlast, Hlts, Hrs, Hals.
  assert (Hc0 : pcount (pools st pd) = 0).
  { destruct (Nat.eqb_spec pd ps); [contradiction|]. rewrite H1 in Hlast. simpl in Hlast. apply (no_blocks_count st pd I Hltd Hlast). }
  simpl in E. fold pd ps in E. unfold release, acquire, set_pool in E; proj.
  rewrite (updn_other (pools st) ps _ pd Hne) in E. rewrite H1, Hc0 in E. simpl in E.
  inversion E; subst st1 ob; clear E. unfold set_handle, set_pool; proj.
  assert (Hps : ps <> pd) by congruence.
  split; [rewrite updn_same; reflexivity|].
  split; [intros k Hk; rewrite updn_other by exact Hk; reflexivity|].
  split; [rewrite updn_same; reflexivity|].
  split; [rewrite updn_same; reflexivity|].
  split; [reflexivity|]. split; [reflexivity|].
  split; [rewrite (updn_other _ pd _ ps Hps), updn_same; reflexivity|].
  split; [exact Hals|].
  split; [intros q Hq1 Hq2; rewrite !updn_other by assumption; reflexivity|].
  split; [reflexivity|]. split; [reflexivity|]. split; [reflexivity|].
  intros b n s P. simpl in P |- *. unfold handle_ok in *; proj. rewrite updn_same; proj.
  repeat rewrite andb_true_iff in P. destruct P as [[[[[_ P1] P2] P3] P4] P5].
  fold ps in P3. rewrite P1, P2, P3, P5. apply Nat.ltb_lt in Hhd. rewrite Hhd.
  apply vt_eqb_eq in Hvt. rewrite Hvt, P4. reflexivity.
Qed.

(* T6: exception guarantee.  When the base allocator throws inside allocate(): no block is handed out, no
   block / allocator object / other pool changes, GetAllocateCount and use_count of every pool are
   unchanged, a pool that has outstanding blocks keeps its parameters (an IDLE pool of other parameters has
   already been re-parameterised by line 119 - harmless, it is idle), the invariant holds and the base
   allocator stays balanced (buffers obtained before the throw are owned by the pool and returned later). *)
Theorem alloc_failure_guarantee : forall st h n grow, inv st -> proto_ok st (OpAllocFail h n grow) = true ->
  exists st' ob, step st (OpAllocFail h n grow) = Ok (st', ob) /\ inv st' /\
    o_dest ob = None /\ nblocks st' = nblocks st /\ (forall b, blocks st' b = blocks st b) /\
    nhandles st' = nhandles st /\ (forall k, handles st' k = handles st k) /\ npools st' = npools st /\
    (forall q, pcount (pools st' q) = pcount (pools st q) /\ prefs (pools st' q) = prefs (pools st q) /\
               palive (pools st' q) = palive (pools st q) /\
               (pcount (pools st q) <> 0 -> pparams (pools st' q) = pparams (pools st q) /\ cached st' q = cached st q) /\
               (q <> hpool (handles st h) -> pools st' q = pools st q /\ cached st' q = cached st q)) /\
    outstanding st' + o_frees ob = outstanding st + o_allocs ob.
Proof.
  intros st h n grow I Hp. destruct (step_allocfail st h n grow I Hp) as [st' [ob [E [I' [_ B]]]]].
  exists st', ob. split; [exact E|]. split; [exact I'|]. unfold balanced in B.
  assert (Hsame : forall o, Ok (st, o) = Ok (st', ob) -> o_dest o = None ->
     o_dest ob = None /\ nblocks st' = nblocks st /\ (forall b, blocks st' b = blocks st b) /\
    nhandles st' = nhandles st /\ (forall k, handles st' k = handles st k) /\ npools st' = npools st /\
    (forall q, pcount (pools st' q) = pcount (pools st q) /\ prefs (pools st' q) = prefs (pools st q) /\
               palive (pools st' q) = palive (pools st q) /\
               (pcount (pools st q) <> 0 -> pparams (pools st' q) = pparams (pools st q) /\ cached st' q = cached st q) /\
               (q <> hpool (handles st h) -> pools st' q = pools st q /\ cached st' q = cached st q))).
  { intros o Eo Ho. inversion Eo; subst. repeat split; auto. }
  simpl in E.
  set (p := hpool (handles st h)) in *. set (P := pools st p) in *.
  destruct (n =? 1)%Z.
  2:{ destruct (Hsame _ E eq_refl) as [? [? [? [? [? [? ?]]]]]]. repeat (split; [assumption|]). exact B. }
  destruct (params_eqb (get_params (hvt (handles st h))) (pparams P)) eqn:Eeq; cbn [negb andb] in E.
  - destruct (from_cache st p); [discriminate|]. inversion E; subst st' ob; clear E. unfold set_pool in *; proj.
    repeat (split; [reflexivity|]). split; [|exact B].
    intros q. unfold updn. destruct (Nat.eqb_spec q p) as [->|Hq]; proj.
    + split; [reflexivity|]. split; [reflexivity|]. split; [reflexivity|].
      split; [intros _; split; reflexivity | intros C; contradiction].
    + repeat split; reflexivity.
  - destruct (Nat.eqb_spec (pcount P) 0) as [Ec|Ec].
    + inversion E; subst st' ob; clear E. unfold set_cached, set_pool in *; proj.
      repeat (split; [reflexivity|]). split; [|exact B].
      intros q. unfold updn. destruct (Nat.eqb_spec q p) as [->|Hq]; proj.
      * fold P. rewrite Ec. split; [reflexivity|]. split; [reflexivity|]. split; [reflexivity|].
        split; intros C; contradiction.
      * repeat split; reflexivity.
    + destruct (Hsame _ E eq_refl) as [? [? [? [? [? [? ?]]]]]]. repeat (split; [assumption|]). exact B.
Qed.

(* T7: re-parameterising an IDLE pool whose cache still holds freed blocks of the old parameter set: the old
   MemPool object (buffers and parked blocks) is gone, the new one has the requested parameters, an EMPTY
   cache, count 1 and only the buffers obtained by this call *)
Theorem reparam_forgets_cache : forall st h grow,
  let p := hpool (handles st h) in let P := pools st p in
  params_eqb (get_params (hvt (handles st h))) (pparams P) = false -> pcount P = 0 ->
  exists st' ob, step st (OpAlloc h 1 grow) = Ok (st', ob) /\
    cached st' p = 0 /\ pools st' p = mkPool (get_params (hvt (handles st h))) 1 (prefs P) grow (palive P) /\
    o_reparam ob = true /\ o_frees ob = pheld P /\ o_allocs ob = grow /\
    o_dest ob = Some (Pooled (get_params (hvt (handles st h)))).
Proof.
  intros st h grow p P Hne Hc. unfold PoolAlloc.step. cbv zeta. fold p. fold P. rewrite Hne, Hc. simpl.
  eexists _, _. split; [reflexivity|]. unfold set_cached, push_block, set_pool; proj. rewrite !updn_same.
  repeat split; reflexivity.
Qed.

(* ------------------------------------------------------------------ round 4: H as an explicit hypothesis *)
(* the client protocol (Cpp17Allocator requirements) *)
Definition protocol (st : state) (o : op) : Prop := proto_ok st o = true.

(* HYPOTHESIS H - "no sharing of a busy pool across node sizes": a single-object request through an allocator
   whose pool currently has a live pooled block uses that block's parameter set.  (It holds for every single
   libstdc++ node container; it FAILS when two containers with different node sizes share one allocator.) *)
Definition no_size_sharing (st : state) (o : op) : Prop :=
  forall h n g, o = OpAlloc h n g -> n = 1%Z ->
    forall b q, b < nblocks st -> balive (blocks st b) = true -> bpool (blocks st b) = hpool (handles st h) ->
      btag (blocks st b) = Pooled q -> get_params (hvt (handles st h)) = q.

(* a history every operation of which satisfies P in the state it is executed in *)
Fixpoint respects (P : state -> op -> Prop) (st : state) (ops : list op) : Prop :=
  match ops with
  | [] => True
  | o :: r => P st o /\ match step st o with Ok (st1, _) => respects P st1 r | _ => True end
  end.

Lemma h_ok_iff st o : h_ok st o = true <-> no_size_sharing st o.
Proof.
  split.
  - intros H h n g -> ->. intros b q Hb Ha Hp Ht. apply (h_ok_spec st h g H b q Hb Ha Hp Ht).
  - intros H. destruct o; try reflexivity. unfold PoolAlloc.h_ok.
    destruct (Z.eqb_spec n 1) as [->|]; [|reflexivity].
    apply allb_spec. intros b Hb. cbv beta zeta.
    destruct (balive (blocks st b)) eqn:Ea; [|reflexivity].
    destruct (Nat.eqb_spec (bpool (blocks st b)) (hpool (handles st h))) as [Ep|]; [|reflexivity]. simpl.
    destruct (btag (blocks st b)) as [q|] eqn:Et; [|reflexivity].
    apply params_eqb_eq. exact (H h 1%Z grow eq_refl eq_refl b q Hb Ea Ep Et).
Qed.

Lemma respects_good : forall ops st, respects protocol st ops -> respects no_size_sharing st ops -> good true st ops = true.
Proof.
  induction ops as [|o r IH]; intros st P H; [reflexivity|].
  simpl in P, H |- *. destruct P as [P0 P1], H as [H0 H1]. unfold protocol in P0. rewrite P0.
  apply h_ok_iff in H0. rewrite H0. simpl.
  destruct (step st o) as [[st1 ob]| | |]; auto.
Qed.

Lemma good_respects : forall ops st b, good b st ops = true -> respects protocol st ops.
Proof.
  induction ops as [|o r IH]; intros st b G; [exact I|].
  simpl in G |- *. repeat rewrite andb_true_iff in G. destruct G as [[P0 _] G]. split; [exact P0|].
  destruct (step st o) as [[st1 ob]| | |]; auto. apply (IH st1 b G).
Qed.

(* T1 with the hypotheses spelled out: protocol + H  ==>  every deallocate goes back to its origin *)
Theorem dealloc_matches_origin_under_H : forall ops,
  respects protocol init ops -> respects no_size_sharing init ops ->
  exists st' obs, run init ops = Ok (st', obs) /\ Forall (fun o => routed_ok o = true) obs /\ inv st'.
Proof. intros ops P H. apply dealloc_matches_origin. apply respects_good; assumption. Qed.

(* ------------------------------------------------------------------ round 4: frame conditions *)
(* mCachedCount never exceeds cachedFreeBlockCount - for EVERY operation of the alphabet and without any
   hypothesis on the client (cache-less configurations: it stays 0) *)
Definition cache_bounded (st : state) : Prop :=
  forall p, (Z.of_nat (cached st p) <= Z.max 0 (cached_free_block_count cfg))%Z.

Lemma use_cache_spec P : use_cache P = true <-> (0 < cached_free_block_count cfg /\ 8 <= fst (pparams P))%Z.
Proof.
  unfold PoolAlloc.use_cache, Gen_MemPool.pvUseCache. rewrite andb_true_iff, Z.gtb_lt, Z.geb_le. tauto.
Qed.

Lemma cache_bounded_init : cache_bounded init.
Proof. intros p. simpl. lia. Qed.

Lemma release_cached s p s' fr : release s p = Ok (s', fr) -> cached s' = cached s.
Proof.
  unfold release. destruct (prefs (pools s p)) as [|[|r]]; [| destruct (Nat.eqb (pcount (pools s p)) 0); [|discriminate] |];
    intros E; inversion E; reflexivity.
Qed.

Theorem step_cache_bounded st o st' ob : cache_bounded st -> step st o = Ok (st', ob) -> cache_bounded st'.
Proof.
  intros B E. destruct o; simpl in E.
  - inversion E; subst; exact B.
  - inversion E; subst; exact B.
  - inversion E; subst; exact B.
  - inversion E; subst; exact B.
  - inversion E; subst; exact B.
  - destruct (release (acquire st (hpool (handles st hs))) (hpool (handles st hd))) as [[s1 fr]| | |] eqn:Er; try discriminate.
    inversion E; subst. intros p. unfold set_handle; proj. rewrite (release_cached _ _ _ _ Er). apply B.
  - destruct (release st (hpool (handles st h))) as [[s1 fr]| | |] eqn:Er; try discriminate.
    inversion E; subst. intros p. unfold set_handle; proj. rewrite (release_cached _ _ _ _ Er). apply B.
  - (* allocate *)
    set (p0 := hpool (handles st h)) in *.
    assert (Hset : forall s0 c, cached s0 = cached st -> (Z.of_nat c <= Z.max 0 (cached_free_block_count cfg))%Z ->
                cache_bounded (set_cached s0 p0 c)).
    { intros s0 c Ec Hc q. unfold set_cached; proj. rewrite Ec. unfold updn. destruct (Nat.eqb q p0); [exact Hc | apply B]. }
    destruct (n =? 1)%Z.
    + destruct (negb (params_eqb (get_params (hvt (handles st h))) (pparams (pools st p0))) && Nat.eqb (pcount (pools st p0)) 0).
      * inversion E; subst. apply Hset; [reflexivity | simpl; lia].
      * destruct (params_eqb (get_params (hvt (handles st h))) (pparams (pools st p0))).
        -- inversion E; subst. apply Hset; [reflexivity|]. pose proof (B p0).
           destruct (from_cache st p0); lia.
        -- inversion E; subst. exact B.
    + inversion E; subst. exact B.
  - (* deallocate *)
    set (p0 := hpool (handles st h)) in *.
    destruct ((n =? 1)%Z && params_eqb (get_params (hvt (handles st h))) (pparams (pools st p0))).
    + destruct (pcount (pools st p0)); [discriminate|]. inversion E; subst. intros q. unfold set_cached; proj.
      unfold updn. destruct (Nat.eqb q p0); [|apply B].
      pose proof (B p0) as Bp. destruct (use_cache (pools st p0)) eqn:Eu; [|exact Bp].
      apply use_cache_spec in Eu. destruct Eu as [Hpos _].
      destruct (Z.leb_spec (cached_free_block_count cfg) (Z.of_nat (cached st p0))); lia.
    + inversion E; subst. exact B.
  - (* failing allocate *)
    set (p0 := hpool (handles st h)) in *.
    destruct (n =? 1)%Z; [|inversion E; subst; exact B].
    destruct (negb (params_eqb (get_params (hvt (handles st h))) (pparams (pools st p0))) && Nat.eqb (pcount (pools st p0)) 0).
    + inversion E; subst. intros q. unfold set_cached; proj. unfold updn. destruct (Nat.eqb q p0); [simpl; lia | apply B].
    + destruct (params_eqb (get_params (hvt (handles st h))) (pparams (pools st p0))).
      * destruct (from_cache st p0); [discriminate|]. inversion E; subst. exact B.
      * inversion E; subst. exact B.
  - inversion E; subst; exact B.
  - inversion E; subst; exact B.
  - inversion E; subst; exact B.
Qed.

Theorem run_cache_bounded : forall ops st st' obs, cache_bounded st -> run st ops = Ok (st', obs) -> cache_bounded st'.
Proof.
  induction ops as [|o r IH]; intros st st' obs B E; simpl in E.
  - inversion E; subst; exact B.
  - destruct (step st o) as [[st1 ob]| | |] eqn:Es; try discriminate.
    destruct (run st1 r) as [[st2 obs2]| | |] eqn:Er; try discriminate. inversion E; subst.
    apply (IH st1 st' obs2 (step_cache_bounded _ _ _ _ B Es) Er).
Qed.

Lemma release_frame s p s' fr : release s p = Ok (s', fr) ->
  cached s' = cached s /\ blocks s' = blocks s /\ nblocks s' = nblocks s /\ npools s' = npools s /\
  forall q, pparams (pools s' q) = pparams (pools s q) /\
            (pcount (pools s' q) = pcount (pools s q) \/ palive (pools s' q) = false).
Proof.
  unfold release. intros E.
  destruct (prefs (pools s p)) as [|[|r]].
  - inversion E; subst; unfold set_pool; proj. repeat split; auto;
      unfold updn; destruct (Nat.eqb_spec q p) as [->|]; proj; auto.
  - destruct (Nat.eqb (pcount (pools s p)) 0); [|discriminate].
    inversion E; subst; unfold set_pool; proj. repeat split; auto;
      unfold updn; destruct (Nat.eqb_spec q p) as [->|]; proj; auto.
  - inversion E; subst; unfold set_pool; proj. repeat split; auto;
      unfold updn; destruct (Nat.eqb_spec q p) as [->|]; proj; auto.
Qed.

Lemma acquire_frame s p : forall q, pparams (pools (acquire s p) q) = pparams (pools s q) /\
  pcount (pools (acquire s p) q) = pcount (pools s q).
Proof. intros q. unfold acquire, set_pool; proj. unfold updn. destruct (Nat.eqb_spec q p) as [->|]; proj; auto. Qed.

(* frame: the operations that do not go through allocate/deallocate never touch any cache, any block or any
   pool's parameters / allocate count (they only move reference counts and may destroy an idle pool) *)
Theorem handle_ops_frame st o st' ob : step st o = Ok (st', ob) ->
  match o with OpAlloc _ _ _ | OpDealloc _ _ _ _ | OpAllocFail _ _ _ => False | _ => True end ->
  cached st' = cached st /\ blocks st' = blocks st /\ nblocks st' = nblocks st /\
  forall q, q < npools st -> pparams (pools st' q) = pparams (pools st q) /\
            (pcount (pools st' q) = pcount (pools st q) \/ palive (pools st' q) = false).
Proof.
  intros E Hk. destruct o; try contradiction; simpl in E.
  - inversion E; subst; unfold push_handle, push_pool; proj. repeat split; auto; rewrite updn_other by lia; auto.
  - inversion E; subst; unfold push_handle; proj. repeat split; auto; destruct (acquire_frame st (hpool (handles st h)) q); auto.
  - inversion E; subst; unfold push_handle; proj. repeat split; auto; destruct (acquire_frame st (hpool (handles st h)) q); auto.
  - inversion E; subst; unfold push_handle; proj. repeat split; auto; destruct (acquire_frame st (hpool (handles st h)) q); auto.
  - inversion E; subst; unfold push_handle, push_pool; proj. repeat split; auto; rewrite updn_other by lia; auto.
  - destruct (release (acquire st (hpool (handles st hs))) (hpool (handles st hd))) as [[s1 fr]| | |] eqn:Er; try discriminate.
    inversion E; subst. destruct (release_frame _ _ _ _ Er) as [R1 [R2 [R3 [R4 R5]]]]. unfold set_handle; proj.
    split; [exact R1|]. split; [exact R2|]. split; [exact R3|]. intros q Hq.
    destruct (R5 q) as [Q1 Q2]. destruct (acquire_frame st (hpool (handles st hs)) q) as [A1 A2].
    split; [congruence|]. destruct Q2 as [Q2|Q2]; [left; congruence | right; exact Q2].
  - destruct (release st (hpool (handles st h))) as [[s1 fr]| | |] eqn:Er; try discriminate.
    inversion E; subst. destruct (release_frame _ _ _ _ Er) as [R1 [R2 [R3 [R4 R5]]]]. unfold set_handle; proj.
    split; [exact R1|]. split; [exact R2|]. split; [exact R3|]. intros q Hq. apply R5.
  - inversion E; subst. repeat split; auto.
  - inversion E; subst. repeat split; auto.
  - inversion E; subst. repeat split; auto.
Qed.


(* ------------------------------------------------------------------ round 5: the generated decision logic *)
(* what [step] does on allocate / deallocate is exactly the decision functions *)
Theorem step_alloc_follows_decision st h n grow st' ob : step st (OpAlloc h n grow) = Ok (st', ob) ->
  let H := handles st h in
  match alloc_decision cfg (hvt H) (pools st (hpool H)) n with
  | APool r => o_dest ob = Some (Pooled (pparams (pools st' (hpool H)))) /\ o_reparam ob = r /\
               (r = true -> pparams (pools st' (hpool H)) = get_params (hvt H)) /\
               (r = false -> pparams (pools st' (hpool H)) = pparams (pools st (hpool H)))
  | ARaw sz => o_dest ob = Some (RawMem sz) /\ o_reparam ob = false /\ pools st' = pools st
  end.
Proof.
  intros E. cbv zeta. unfold PoolAlloc.step in E. cbv zeta in E. unfold alloc_decision.
  destruct (n =? 1)%Z.
  - destruct (params_eqb (get_params (hvt (handles st h))) (pparams (pools st (hpool (handles st h))))) eqn:Eq; cbn [negb andb] in *.
    + inversion E; subst; unfold set_cached, push_block, set_pool; proj. rewrite updn_same; proj.
      repeat split; auto. discriminate.
    + destruct (Nat.eqb (pcount (pools st (hpool (handles st h)))) 0).
      * inversion E; subst; unfold set_cached, push_block, set_pool; proj. rewrite updn_same; proj.
        repeat split; auto. discriminate.
      * inversion E; subst; unfold push_block; proj. repeat split; reflexivity.
  - inversion E; subst; unfold push_block; proj. repeat split; reflexivity.
Qed.

Theorem step_dealloc_follows_decision st h b n shrink st' ob : step st (OpDealloc h b n shrink) = Ok (st', ob) ->
  let H := handles st h in
  match dealloc_decision cfg (hvt H) (pools st (hpool H)) n with
  | DPool => o_dest ob = Some (Pooled (pparams (pools st (hpool H)))) /\ pcount (pools st (hpool H)) = S (pcount (pools st' (hpool H)))
  | DRaw sz => o_dest ob = Some (RawMem sz) /\ pools st' = pools st
  end.
Proof.
  intros E. cbv zeta. unfold PoolAlloc.step in E. cbv zeta in E. unfold dealloc_decision.
  destruct ((n =? 1)%Z && params_eqb (get_params (hvt (handles st h))) (pparams (pools st (hpool (handles st h))))).
  - destruct (pcount (pools st (hpool (handles st h)))) eqn:Ec; [discriminate|].
    inversion E; subst; unfold set_cached, set_block, set_pool; proj. rewrite updn_same; proj. split; reflexivity.
  - inversion E; subst; unfold set_block; proj. split; reflexivity.
Qed.

(* the cxx2coq-GENERATED pvIsEqual / deallocate / allocate (regenerated from pool_allocator.h on every run) compute
   exactly these decisions, for any representation [dec] of the opaque MemPoolParams objects, any effect
   functions and any memory manager handle; sizes stay below 2^64 *)
Lemma gen_pvIsEqual_refines (dec : Z -> params) a b :
  Gen_PoolAllocator.pvIsEqual (fun e => fst (dec e)) (fun e => snd (dec e)) a b = params_eqb (dec a) (dec b).
Proof. reflexivity. Qed.

Theorem gen_deallocate_refines (dec : Z -> params) poolP myP mm evp evr route ptr count vt P :
  dec myP = get_params vt -> dec poolP = pparams P -> (0 <= count * vsize vt < 2 ^ 64)%Z ->
  Gen_PoolAllocator.deallocate (fun e => fst (dec e)) (fun e => snd (dec e)) poolP myP mm evp evr (vsize vt) route ptr count =
  match dealloc_decision cfg vt P count with
  | DPool => evp route ptr
  | DRaw sz => evr route mm ptr sz
  end.
Proof.
  intros E1 E2 Hr. unfold Gen_PoolAllocator.deallocate, dealloc_decision. rewrite gen_pvIsEqual_refines, E1, E2.
  destruct ((count =? 1)%Z && params_eqb (get_params vt) (pparams P)); [reflexivity|].
  rewrite wrapU_small by exact Hr. reflexivity.
Qed.

Theorem gen_allocate_refines (dec : Z -> params) poolP myP mm palloc ralloc evrec route count vt P :
  dec myP = get_params vt -> dec poolP = pparams P -> (0 <= count * vsize vt < 2 ^ 64)%Z ->
  Gen_PoolAllocator.allocate (fun e => fst (dec e)) (fun e => snd (dec e)) poolP (Z.of_nat (pcount P)) myP mm palloc ralloc evrec (vsize vt) route count =
  match alloc_decision cfg vt P count with
  | APool true => (palloc, evrec route myP)        (* line 119 executed, then the pool's Allocate *)
  | APool false => (palloc, route)
  | ARaw sz => (ralloc mm sz, route)
  end.
Proof.
  intros E1 E2 Hr. unfold Gen_PoolAllocator.allocate, alloc_decision. rewrite gen_pvIsEqual_refines, E1, E2.
  rewrite (wrapU_small 64 (count * vsize vt)) by exact Hr.
  destruct (count =? 1)%Z; [|reflexivity].
  destruct (params_eqb (get_params vt) (pparams P)); cbn [negb andb]; [reflexivity|].
  assert ((Z.of_nat (pcount P) =? 0)%Z = Nat.eqb (pcount P) 0) as ->.
  { destruct (pcount P); [reflexivity|]. simpl. reflexivity. }
  destruct (Nat.eqb (pcount P) 0); reflexivity.
Qed.

(* ------------------------------------------------------------------ round 5: operator==, construct/destroy *)
(* operator== is pool identity: an equivalence; equal allocators of one value type have the same deallocation
   rights; copies / rebinds / rvalue constructions compare equal to their source, select_on_container_copy_construction
   does not *)
Theorem alloc_eq_equiv st : (forall h, alloc_eq st h h = true) /\
  (forall a b, alloc_eq st a b = alloc_eq st b a) /\
  (forall a b c, alloc_eq st a b = true -> alloc_eq st b c = true -> alloc_eq st a c = true).
Proof.
  unfold alloc_eq. split; [intros; apply Nat.eqb_refl|]. split; [intros; apply Nat.eqb_sym|].
  intros a b c H1 H2. apply Nat.eqb_eq in H1, H2. apply Nat.eqb_eq. congruence.
Qed.

Theorem alloc_eq_interchangeable st h k b n s : alloc_eq st h k = true -> handle_ok st k = true ->
  hvt (handles st k) = hvt (handles st h) ->
  proto_ok st (OpDealloc h b n s) = true -> proto_ok st (OpDealloc k b n s) = true.
Proof.
  unfold alloc_eq. intros E Hk Hv P. apply Nat.eqb_eq in E. simpl in *. rewrite Hk, Hv, <- E.
  repeat rewrite andb_true_iff in P. destruct P as [[[[[_ P1] P2] P3] P4] P5]. rewrite P1, P2, P3, P4, P5. reflexivity.
Qed.

Theorem alloc_eq_after_ops st h :
  (forall st1 ob, step st (OpCopy h) = Ok (st1, ob) -> alloc_eq st1 (nhandles st) h = true) /\
  (forall st1 ob, step st (OpMove h) = Ok (st1, ob) -> alloc_eq st1 (nhandles st) h = true) /\
  (forall vt st1 ob, step st (OpRebind h vt) = Ok (st1, ob) -> alloc_eq st1 (nhandles st) h = true) /\
  (forall st1 ob, inv st -> handle_ok st h = true -> step st (OpSocc h) = Ok (st1, ob) -> alloc_eq st1 (nhandles st) h = false).
Proof.
  assert (Hshare : forall vt, alloc_eq (push_handle (acquire st (hpool (handles st h))) (mkHandle true (hpool (handles st h)) vt)) (nhandles st) h = true).
  { intros vt. unfold alloc_eq, push_handle; proj. rewrite updn_same; proj.
    unfold updn, acquire, set_pool; proj. destruct (Nat.eqb h (nhandles st)); proj; apply Nat.eqb_refl. }
  split; [|split; [|split]].
  - intros st1 ob E. simpl in E. inversion E; subst. apply Hshare.
  - intros st1 ob E. simpl in E. inversion E; subst. apply Hshare.
  - intros vt st1 ob E. simpl in E. inversion E; subst. apply Hshare.
  - intros st1 ob I Hok E. simpl in E. inversion E; subst. unfold alloc_eq, push_handle, push_pool; proj. rewrite updn_same; proj.
    apply handle_ok_spec in Hok as [Hlt Ha]. rewrite updn_other by lia.
    pose proof (i_hnd _ _ I h Hlt Ha). apply Nat.eqb_neq. lia.
Qed.

(* frame: construct / destroy / == / != / get_base_allocator leave the whole allocator state untouched *)
Theorem elem_query_frame st : (forall h, step st (OpElem h) = Ok (st, mkObs None None (hpool (handles st h)) 0 0 false)) /\
  (forall h1 h2, step st (OpQuery h1 h2) = Ok (st, mkObs None None (hpool (handles st h1)) 0 0 false)).
Proof. split; reflexivity. Qed.

(* ------------------------------------------------------------------ round 6: the pool side is the generated MemPool *)
(* same code: the pvUseCache the model calls (Gen_MemPool, field view) and the one inside the generated Allocate /
   Deallocate (Gen_MemPoolOps) *)
Lemma pvUseCache_same_code cf bs al cnt cch hd : Gen_MemPoolOps.pvUseCache cf bs al cnt cch hd = Gen_MemPool.pvUseCache cf bs al.
Proof. reflexivity. Qed.

Lemma flush_loop_runs lp : forall fuel c i hd, (0 <= i <= c)%Z -> (c < 2 ^ 64)%Z -> (Z.to_nat (c - i) < fuel) ->
  exists hd', Gen_MemPoolOps.pvFlushDeallocate_loop0 lp fuel c i hd = Ok (c, hd').
Proof.
  induction fuel as [|fuel IH]; intros c i hd Hi Hc Hf; [lia|].
  rewrite Gen_MemPoolOps.pvFlushDeallocate_loop0_eq.
  destruct (Z.ltb_spec i c) as [Hlt|Hge].
  - cbv zeta. rewrite wrapU_small by lia. apply IH; lia.
  - assert (i = c) by lia. subst. eexists; reflexivity.
Qed.

(* pvFlushDeallocate empties the cache (count 0), for every cache content below the fuel of the translation *)
Lemma gen_flush_spec lp bs al cnt c hd : (c < 300) ->
  exists hd', Gen_MemPoolOps.pvFlushDeallocate lp bs al cnt (Z.of_nat c) hd = Ok (tt, 0%Z, hd').
Proof.
  intros Hc. unfold Gen_MemPoolOps.pvFlushDeallocate. cbv zeta.
  destruct (flush_loop_runs lp Gen_MemPoolOps.fuel_of_pvFlushDeallocate (Z.of_nat c) 0 hd) as [hd' E].
  - lia.
  - assert (300 < 2 ^ 64)%Z by (vm_compute; reflexivity). lia.
  - unfold Gen_MemPoolOps.fuel_of_pvFlushDeallocate. lia.
  - rewrite E. eexists; reflexivity.
Qed.

(* MemPool::Allocate, GENERATED: on (allocCount, mCachedCount) it is exactly the model's pool_allocate_counts *)
Theorem gen_pool_Allocate_refines lp nb nb1 rb aa bs0 mm P c hd :
  (Z.of_nat (pcount P) + 1 < 2 ^ 64)%Z -> (Z.of_nat c < 2 ^ 64)%Z ->
  match Gen_MemPoolOps.Allocate (cached_free_block_count cfg) (block_count cfg) lp nb nb1 rb aa bs0 mm
          (fst (pparams P)) (snd (pparams P)) (Z.of_nat (pcount P)) (Z.of_nat c) hd with
  | (_, cnt, cch, _) => cnt = Z.of_nat (fst (pool_allocate_counts cfg P c)) /\ cch = Z.of_nat (snd (pool_allocate_counts cfg P c))
  end.
Proof.
  intros H1 H2. unfold Gen_MemPoolOps.Allocate, pool_allocate_counts. cbv zeta.
  rewrite pvUseCache_same_code. fold (PoolAlloc.use_cache cfg P).
  assert ((Z.of_nat c >? 0)%Z = negb (Nat.eqb c 0)) as ->.
  { destruct c; [reflexivity|]. simpl. reflexivity. }
  destruct (use_cache P && negb (Nat.eqb c 0)) eqn:E; cbn [fst snd].
  - apply andb_true_iff in E as [_ E]. destruct c; [discriminate|].
    rewrite (wrapU_small 64 (Z.of_nat (pcount P) + 1)) by lia. rewrite wrapU_small by lia. split; lia.
  - rewrite (wrapU_small 64 (Z.of_nat (pcount P) + 1)) by lia. split; lia.
Qed.

(* MemPool::Deallocate, GENERATED (incl. both assertions and the flush loop): on (allocCount, mCachedCount) it is exactly
   the model's pool_deallocate_counts; an empty pool trips MOMO_ASSERT(allocCount > 0) in both *)
Theorem gen_pool_Deallocate_refines lp P c hd block : block <> 0%Z ->
  (Z.of_nat (pcount P) < 2 ^ 64)%Z -> (c < 300) ->
  match Gen_MemPoolOps.Deallocate (cached_free_block_count cfg) lp (fst (pparams P)) (snd (pparams P)) (Z.of_nat (pcount P)) (Z.of_nat c) hd block,
        pool_deallocate_counts cfg P c with
  | Ok (_, cnt, cch, h'), Some (k, c') => cnt = Z.of_nat k /\ cch = Z.of_nat c' /\ (use_cache P = true -> h' = block)
  | Stuck, None => True
  | _, _ => False
  end.
Proof.
  intros Hb H1 Hc. unfold Gen_MemPoolOps.Deallocate, pool_deallocate_counts.
  destruct (Z.eqb_spec block 0); [contradiction|]. cbn [negb].
  destruct (pcount P) as [|k] eqn:Ek; [reflexivity|].
  assert ((Z.of_nat (S k) >? 0)%Z = true) as -> by (apply Z.gtb_lt; lia).
  rewrite pvUseCache_same_code. fold (PoolAlloc.use_cache cfg P).
  assert (300 < 2 ^ 64)%Z by (vm_compute; reflexivity).
  destruct (use_cache P) eqn:Eu.
  - assert ((Z.of_nat c >=? cached_free_block_count cfg)%Z = Z.leb (cached_free_block_count cfg) (Z.of_nat c)) as ->.
    { rewrite Z.geb_leb. reflexivity. }
    destruct (Z.leb (cached_free_block_count cfg) (Z.of_nat c)).
    + destruct (gen_flush_spec lp (fst (pparams P)) (snd (pparams P)) (Z.of_nat (S k)) c hd Hc) as [hd' E]. rewrite E.
      cbv zeta. rewrite !wrapU_small by lia. repeat split; lia.
    + cbv zeta. rewrite !wrapU_small by lia. repeat split; lia.
  - cbv zeta. rewrite wrapU_small by lia. repeat split; try lia; try discriminate.
Qed.

(* ... and the model's step applies exactly these functions to the pool it routes to *)
Theorem step_alloc_pool_counts st h n grow st' ob : step st (OpAlloc h n grow) = Ok (st', ob) ->
  let p := hpool (handles st h) in let P := pools st p in
  match alloc_decision cfg (hvt (handles st h)) P n with
  | APool false => (pcount (pools st' p), cached st' p) = pool_allocate_counts cfg P (cached st p)
  | APool true => (pcount (pools st' p), cached st' p) =
                  pool_allocate_counts cfg (mkPool (get_params (hvt (handles st h))) 0 (prefs P) 0 (palive P)) 0
  | ARaw _ => pools st' = pools st /\ cached st' = cached st
  end.
Proof.
  intros E. cbv zeta. unfold PoolAlloc.step in E. cbv zeta in E. unfold alloc_decision, pool_allocate_counts.
  destruct (n =? 1)%Z.
  - destruct (params_eqb (get_params (hvt (handles st h))) (pparams (pools st (hpool (handles st h))))) eqn:Eq; cbn [negb andb] in *.
    + inversion E; subst; unfold set_cached, push_block, set_pool; proj. rewrite !updn_same; proj.
      unfold PoolAlloc.from_cache. reflexivity.
    + destruct (Nat.eqb (pcount (pools st (hpool (handles st h)))) 0).
      * inversion E; subst; unfold set_cached, push_block, set_pool; proj. rewrite !updn_same; proj.
        rewrite andb_false_r. reflexivity.
      * inversion E; subst; unfold push_block; proj. split; reflexivity.
  - inversion E; subst; unfold push_block; proj. split; reflexivity.
Qed.

Theorem step_dealloc_pool_counts st h b n shrink : 
  let p := hpool (handles st h) in let P := pools st p in
  match dealloc_decision cfg (hvt (handles st h)) P n with
  | DPool => match step st (OpDealloc h b n shrink), pool_deallocate_counts cfg P (cached st p) with
             | Ok (st', _), Some (k, c') => pcount (pools st' p) = k /\ cached st' p = c'
             | Stuck, None => True
             | _, _ => False
             end
  | DRaw _ => forall st' ob, step st (OpDealloc h b n shrink) = Ok (st', ob) -> pools st' = pools st /\ cached st' = cached st
  end.
Proof.
  cbv zeta. unfold PoolAlloc.step, dealloc_decision, pool_deallocate_counts. cbv zeta.
  destruct ((n =? 1)%Z && params_eqb (get_params (hvt (handles st h))) (pparams (pools st (hpool (handles st h))))).
  - destruct (pcount (pools st (hpool (handles st h)))) eqn:Ec; [exact I|].
    unfold set_cached, set_block, set_pool; proj. rewrite !updn_same; proj. split; reflexivity.
  - intros st' ob E. inversion E; subst; unfold set_block; proj. split; reflexivity.
Qed.

(* ------------------------------------------------------------------ round 6: exceptions can leave the allocating functions *)
(* /repo fix f8cb4ff: select_on_container_copy_construction allocates a pool, so it must not be noexcept; the flags are
   GENERATED from the declarations.  When allocate_shared throws inside it, the exception reaches the container's copy
   constructor and no allocator state has changed. *)
Theorem socc_failure_propagates st h :
  Gen_PoolAllocator.select_on_container_copy_construction_noexcept = false /\ Gen_PoolAllocator.allocate_noexcept = false /\
  step st (OpSoccFail h) = Ok (st, mkObs None None (hpool (handles st h)) 0 0 false).
Proof. repeat split; reflexivity. Qed.

(* ------------------------------------------------------------------ round 7: owners and the life time of a pool *)
(* the copy constructor (81-84, member initialiser translated with ctor_inits) and operator= (88-92), GENERATED: the
   allocator's pool pointer becomes the source's; the model's OpCopy / OpMove / OpAssign do exactly that *)
Theorem gen_handle_ops_refine st h hd hs :
  (forall st1 ob, step st (OpCopy h) = Ok (st1, ob) ->
     Z.of_nat (hpool (handles st1 (nhandles st))) = Gen_PoolAllocatorHandles.CopyCtor 0%Z (Z.of_nat (hpool (handles st h))) 0%Z) /\
  (forall st1 ob, step st (OpMove h) = Ok (st1, ob) ->
     Z.of_nat (hpool (handles st1 (nhandles st))) = Gen_PoolAllocatorHandles.CopyCtor 0%Z (Z.of_nat (hpool (handles st h))) 0%Z) /\
  (forall st1 ob, step st (OpAssign hd hs) = Ok (st1, ob) ->
     (tt, Z.of_nat (hpool (handles st1 hd))) = Gen_PoolAllocatorHandles.Assign (Z.of_nat (hpool (handles st hd))) (Z.of_nat (hpool (handles st hs)))).
Proof.
  unfold Gen_PoolAllocatorHandles.CopyCtor, Gen_PoolAllocatorHandles.Assign. split; [|split].
  - intros st1 ob E. simpl in E. inversion E; subst. unfold push_handle; proj. rewrite updn_same. reflexivity.
  - intros st1 ob E. simpl in E. inversion E; subst. unfold push_handle; proj. rewrite updn_same. reflexivity.
  - intros st1 ob E. simpl in E.
    destruct (release (acquire st (hpool (handles st hs))) (hpool (handles st hd))) as [[s1 fr]| | |]; try discriminate.
    inversion E; subst. unfold set_handle; proj. rewrite updn_same. reflexivity.
Qed.

(* the remaining constructors, GENERATED: the rebinding conversion (94-99) builds the new allocator from THIS allocator's
   pool pointer (through the protected shared_ptr constructor, 163-166); the explicit constructor (76-79) points to the
   object allocate_shared made from (base allocator, pvGetMemPoolParams(), MemManager(base allocator)).  The model's
   OpRebind / OpNew do exactly that: same pool / a fresh pool with the value type's parameters and one owner.
   (The destructor is `= default`: there is no code to translate; releasing the shared_ptr is library semantics.) *)
Theorem gen_ctor_ops_refine st h vt :
  (forall st1 ob, step st (OpRebind h vt) = Ok (st1, ob) ->
     Z.of_nat (hpool (handles st1 (nhandles st))) =
       Gen_PoolAllocatorHandles.SharedCtor 0%Z 0%Z (Gen_PoolAllocatorHandles.RebindConversion (Z.of_nat (hpool (handles st h))) 0%Z)) /\
  (forall npo myP own src alloc, Gen_PoolAllocatorHandles.ExplicitCtor npo myP own src alloc = npo alloc myP alloc) /\
  (forall st1 ob, step st (OpNew vt) = Ok (st1, ob) ->
     hpool (handles st1 (nhandles st)) = npools st /\ npools st1 = S (npools st) /\
     pools st1 (npools st) = mkPool (get_params vt) 0 1 0 true /\ cached st1 (npools st) = cached st (npools st)).
Proof.
  unfold Gen_PoolAllocatorHandles.SharedCtor, Gen_PoolAllocatorHandles.RebindConversion, Gen_PoolAllocatorHandles.ExplicitCtor.
  split; [|split].
  - intros st1 ob E. simpl in E. inversion E; subst. unfold push_handle; proj. rewrite updn_same. reflexivity.
  - reflexivity.
  - intros st1 ob E. simpl in E. inversion E; subst. unfold push_handle, push_pool; proj. rewrite !updn_same. repeat split; reflexivity.
Qed.

(* the pool object exists EXACTLY as long as some living allocator object points to it: it is destroyed when, and only
   when, the last owner goes (reference counting = counting the living handles) *)
Theorem pool_alive_iff_owned : forall ops st' obs, good true init ops = true -> run init ops = Ok (st', obs) ->
  forall p, p < npools st' ->
    (palive (pools st' p) = true <->
     exists h, h < nhandles st' /\ halive (handles st' h) = true /\ hpool (handles st' h) = p) /\
    prefs (pools st' p) = sumn (nhandles st') (fun h => owns p (handles st' h)).
Proof.
  intros ops st' obs G E p Hp. destruct (run_good init ops inv_init G) as [st2 [obs2 [E2 [I _]]]].
  rewrite E in E2. inversion E2; subst st2 obs2. split; [|apply (i_refs _ _ I p Hp)].
  rewrite (i_alive _ _ I p Hp), (i_refs _ _ I p Hp). split.
  - intros Ha. destruct (Nat.eqb_spec (sumn (nhandles st') (fun h => owns p (handles st' h))) 0) as [|Hne]; [discriminate|].
    destruct (sumn_pos_ex _ _ Hne) as [h [Hh Ho]]. cbv beta in Ho. unfold owns in Ho.
    destruct (halive (handles st' h)) eqn:Eh; [|simpl in Ho; lia].
    destruct (Nat.eqb_spec (hpool (handles st' h)) p); [|simpl in Ho; lia]. exists h. auto.
  - intros [h [Hh [Ha Hq]]].
    pose proof (sumn_ge (nhandles st') (fun k => owns p (handles st' k)) h Hh) as Gq. cbv beta in Gq.
    unfold owns at 1 in Gq. rewrite Ha, Hq, Nat.eqb_refl in Gq. simpl in Gq.
    destruct (Nat.eqb_spec (sumn (nhandles st') (fun h0 => owns p (handles st' h0))) 0); [lia | reflexivity].
Qed.

(* ------------------------------------------------------------------ round 8: the exact boundary of the known finding F1 *)
(* a live block is WELL TAGGED when its tag tells the truth about the pool it came from (this is the block clause of
   the invariant WITHOUT the H-dependent part "a raw block was a request with n <> 1"; inv implies it) *)
Definition well_tagged (st : state) (B : block) : Prop :=
  match btag B with
  | Pooled q => q = pparams (pools st (bpool B)) /\ q = get_params (bvt B) /\ bn B = 1%Z
  | RawMem s => s = (bn B * vsize (bvt B))%Z
  end.

Lemma inv_well_tagged st b : inv st -> b < nblocks st -> balive (blocks st b) = true -> well_tagged st (blocks st b).
Proof.
  intros I Hb Ha. destruct (i_blk _ _ I b Hb Ha) as [_ Ht]. unfold well_tagged.
  destruct (btag (blocks st b)); [exact Ht | apply Ht].
Qed.

(* where the decision (= the GENERATED deallocate, C20_generated_deallocate_is_model_decision) sends a block *)
Definition decided_tag (st : state) (h : nat) (n : Z) : tag :=
  match dealloc_decision cfg (hvt (handles st h)) (pools st (hpool (handles st h))) n with
  | DPool => Pooled (pparams (pools st (hpool (handles st h))))
  | DRaw sz => RawMem sz
  end.

(* EXACT BOUNDARY (one deallocation): for a protocol-respecting deallocate of a well-tagged live block, the decision
   returns the block to its origin IF AND ONLY IF it is not a raw single-object block meeting a pool that meanwhile has
   its parameters.  So "no raw single-object block is ever deallocated while the pool has its parameters" is the
   WEAKEST client hypothesis that excludes misrouting: any hypothesis that admits one such deallocation admits a
   misrouted block. *)
Theorem misroute_exact_boundary st h b n s :
  proto_ok st (OpDealloc h b n s) = true -> well_tagged st (blocks st b) ->
  (tag_eqb (btag (blocks st b)) (decided_tag st h n) = true <-> ~ raw_single_in_matching_pool st h b n).
Proof.
  intros P W. simpl in P. repeat rewrite andb_true_iff in P. destruct P as [[[[[_ _] _] Hbp] Hbv] Hbn].
  apply Nat.eqb_eq in Hbp. apply vt_eqb_eq in Hbv. apply Z.eqb_eq in Hbn.
  unfold well_tagged in W. unfold decided_tag, dealloc_decision, raw_single_in_matching_pool.
  set (H := handles st h) in *. set (B := blocks st b) in *. set (P := pools st (hpool H)) in *.
  destruct (btag B) as [q|sz] eqn:Et; cbn [is_pooled].
  - destruct W as [W1 [W2 W3]]. rewrite Hbp in W1. fold P in W1. rewrite Hbv in W2.
    rewrite <- Hbn, W3, <- W2, W1, params_eqb_refl. simpl. rewrite params_eqb_refl.
    split; [intros _ [D _]; discriminate | reflexivity].
  - rewrite Hbv, Hbn in W. destruct (Z.eqb_spec n 1) as [->|Hn]; cbn [andb].
    + destruct (params_eqb (get_params (hvt H)) (pparams P)) eqn:Eq.
      * simpl. split; [discriminate | intros N; exfalso; apply N; auto].
      * simpl. rewrite W, Z.eqb_refl. split; [intros _ [_ [_ D]]; discriminate | reflexivity].
    + simpl. rewrite W, Z.eqb_refl. split; [intros _ [_ [D _]]; contradiction | reflexivity].
Qed.

(* H (no_size_sharing, kept along the history) is SUFFICIENT: it keeps the invariant, under which no raw single-object
   block exists at all, so the danger never arises *)
Theorem H_excludes_the_danger st h b n s : inv st -> proto_ok st (OpDealloc h b n s) = true ->
  ~ raw_single_in_matching_pool st h b n.
Proof.
  intros I P [Hr [Hn _]]. simpl in P. repeat rewrite andb_true_iff in P. destruct P as [[[[[_ Hb] Ha] _] _] Hbn].
  apply Nat.ltb_lt in Hb. apply Z.eqb_eq in Hbn. destruct (i_blk _ _ I b Hb Ha) as [_ Ht].
  destruct (btag (blocks st b)); [discriminate|]. destruct Ht as [_ Hne]. apply (Hne eq_refl). congruence.
Qed.

(* how a raw single-object block comes into existence: exactly when a single-object request meets a BUSY pool of other
   parameters - i.e. exactly when H is violated at that request (decision = the GENERATED allocate) *)
Theorem raw_single_created_iff vt P : forall sz,
  alloc_decision cfg vt P 1 = ARaw sz <->
  (params_eqb (get_params vt) (pparams P) = false /\ pcount P <> 0 /\ sz = (1 * vsize vt)%Z).
Proof.
  intros sz. unfold alloc_decision. simpl.
  destruct (params_eqb (get_params vt) (pparams P)); cbn [negb andb].
  - split; [discriminate | intros [D _]; discriminate].
  - destruct (Nat.eqb_spec (pcount P) 0) as [E|E].
    + split; [discriminate | intros [_ [N _]]; contradiction].
    + split; [intros Q; inversion Q; auto | intros [_ [_ ->]]; reflexivity].
Qed.

(* ------------------------------------------------------------------ round 9: the boundary over whole histories *)
Definition no_danger (st : state) (o : op) : Prop :=
  forall h b n s, o = OpDealloc h b n s -> ~ raw_single_in_matching_pool st h b n.

Lemma inv_gen_well_tagged {sk} st b : inv_gen sk st -> b < nblocks st -> balive (blocks st b) = true -> well_tagged st (blocks st b).
Proof.
  intros I Hb Ha. destruct (i_blk _ _ I b Hb Ha) as [_ Ht]. unfold well_tagged.
  destruct (btag (blocks st b)); [exact Ht | apply Ht].
Qed.

Lemma step_dealloc_obs st h b n s st' ob : step st (OpDealloc h b n s) = Ok (st', ob) ->
  o_origin ob = (if balive (blocks st b) then Some (btag (blocks st b)) else None) /\ o_dest ob = Some (decided_tag st h n).
Proof.
  intros E. unfold PoolAlloc.step in E. cbv zeta in E. unfold decided_tag, dealloc_decision.
  destruct ((n =? 1)%Z && params_eqb (get_params (hvt (handles st h))) (pparams (pools st (hpool (handles st h))))).
  - destruct (pcount (pools st (hpool (handles st h)))); [discriminate|]. inversion E; subst; proj. split; reflexivity.
  - inversion E; subst; proj. split; reflexivity.
Qed.

(* the WEAK invariant (no H) survives every history that respects the protocol and never performs the dangerous
   deallocation: such a history never gets stuck, routes every deallocation to its origin and keeps the base allocator balanced *)
Lemma run_no_danger : forall ops st, inv_gen false st -> respects protocol st ops -> respects no_danger st ops ->
  exists st' obs, run st ops = Ok (st', obs) /\ inv_gen false st' /\ Forall (fun o => routed_ok o = true) obs /\
    outstanding st' + sum_frees obs = outstanding st + sum_allocs obs.
Proof.
  induction ops as [|o r IH]; intros st I P S.
  - exists st, []. simpl. split; [reflexivity|]. split; [exact I|]. split; [constructor | lia].
  - simpl in P, S. destruct P as [P0 P1], S as [S0 S1].
    destruct (step_good_all st o I P0 (fun E => ltac:(discriminate E)) (fun _ => S0)) as [st1 [ob [Es [I1 [R1 B1]]]]].
    rewrite Es in P1, S1. destruct (IH st1 I1 P1 S1) as [st2 [obs [Er [I2 [R2 B2]]]]].
    exists st2, (ob :: obs). simpl. rewrite Es, Er. split; [reflexivity|]. split; [exact I2|].
    split; [constructor; assumption|]. unfold balanced in B1. lia.
Qed.

(* conversely: a protocol-respecting history that ran to the end with every deallocation routed to its origin never
   performed the dangerous deallocation *)
Lemma run_routed_no_danger : forall ops st st' obs, inv_gen false st -> respects protocol st ops ->
  run st ops = Ok (st', obs) -> Forall (fun o => routed_ok o = true) obs -> respects no_danger st ops.
Proof.
  induction ops as [|o r IH]; intros st st' obs I P E R; [exact Logic.I|].
  simpl in P, E |- *. destruct P as [P0 P1].
  destruct (step st o) as [[st1 ob]| | |] eqn:Es; try discriminate.
  destruct (run st1 r) as [[st2 obs2]| | |] eqn:Er; try discriminate. inversion E; subst st2 obs.
  inversion R as [|? ? R0 R1]; subst.
  assert (S0 : no_danger st o).
  { intros h b n s -> D. pose proof P0 as P0'. unfold protocol in P0'. simpl in P0'. repeat rewrite andb_true_iff in P0'.
    destruct P0' as [[[[[_ Hb] Ha] _] _] _]. apply Nat.ltb_lt in Hb.
    pose proof (inv_gen_well_tagged st b I Hb Ha) as W.
    destruct (misroute_exact_boundary st h b n s P0 W) as [M _].
    destruct (step_dealloc_obs st h b n s st1 ob Es) as [Oo Od].
    unfold routed_ok in R0. rewrite Oo, Od, Ha in R0. apply (M R0 D). }
  split; [exact S0|].
  destruct (step_good_all st o I P0 (fun E0 => ltac:(discriminate E0)) (fun _ => S0)) as [st1' [ob' [Es' [I1 _]]]].
  rewrite Es in Es'. inversion Es'; subst st1' ob'. apply (IH st1 st' obs2 I1 P1 Er R1).
Qed.

(* THE KNOWN FINDING'S EXACT BOUNDARY OVER WHOLE HISTORIES: a protocol-respecting history (from the initial state, no hypothesis
   H) runs to the end with every deallocation returned to its origin IF AND ONLY IF it contains no deallocation of a raw
   single-object block meeting a pool that now has its value type's parameters.  (Otherwise a block is misrouted, or - when the
   pool's allocate count is already 0 - MOMO_ASSERT(allocCount > 0) fires.) *)
Theorem history_misroutes_iff : forall ops, respects protocol init ops ->
  ((exists st' obs, run init ops = Ok (st', obs) /\ Forall (fun o => routed_ok o = true) obs) <-> respects no_danger init ops).
Proof.
  intros ops P. split.
  - intros [st' [obs [E R]]]. apply (run_routed_no_danger ops init st' obs inv_init P E R).
  - intros S. destruct (run_no_danger ops init inv_init P S) as [st' [obs [E [_ [R _]]]]]. exists st', obs. auto.
Qed.

Lemma step_good_H st o : inv st -> proto_ok st o = true -> h_ok st o = true ->
  exists st' ob, step st o = Ok (st', ob) /\ inv st' /\ routed_ok ob = true /\
    outstanding st' + o_frees ob = outstanding st + o_allocs ob.
Proof. intros I P H. exact (step_good_all st o I P (fun _ => H) (fun E => ltac:(discriminate E))). Qed.

End Proofs.

(* the invariant under H, and the weak invariant without H *)
Notation inv cfg := (inv_gen cfg true).
Notation winv cfg := (inv_gen cfg false).

(* establishing lemma: both invariants hold in the initial state (preservation: step_good_all / C20_invariant_step, run_no_danger) *)
Lemma inv_init_both cfg : inv cfg init /\ winv cfg init.
Proof. split; apply inv_init. Qed.

(* ------------------------------------------------------------------ round 7: the buffer step of a pooled allocate *)
(* MemPool::pvNewBlock (MemPool.h:516-535), GENERATED with the buffer allocation as a step that may throw
   (pvNewBuffer_fails) and every store into pool memory as an effect on [mem]: STRONG exception guarantee - when the
   base allocator throws (for the first buffer or for the look-ahead buffer) the function has written nothing: the
   free-buffer head and the pool memory are exactly as before.  This is what OpAllocFail's "pool unchanged but for the
   buffers it already owns" and the `sane` observation rest on.  (Wave-2 seed b reorders the stores before the look-ahead
   allocation: this theorem then fails.) *)
Theorem pvNewBlock_strong_guarantee lb ln ba lnf nb sb sn sp bf bc bp head mem done head' mem' :
  Gen_MemPoolNewBlock.pvNewBlock lb ln ba lnf nb sb sn sp bf bc bp head mem true = Ok (done, head', mem') ->
  (done = false -> head' = head /\ mem' = mem) /\
  (done = true -> head <> 0%Z /\ negb ((bc (lb head) =? 1)%Z && (ln head =? 0)%Z) = true).
Proof.
  unfold Gen_MemPoolNewBlock.pvNewBlock. intros E.
  destruct (Z.eqb_spec head 0) as [->|Hh].
  - inversion E; subst. split; [auto | discriminate].
  - cbv zeta in E. destruct ((bc (lb head) =? 1)%Z && (ln head =? 0)%Z) eqn:El.
    + inversion E; subst. split; [auto | discriminate].
    + inversion E; subst. split; [discriminate | auto].
Qed.

(* without a failure the block is taken from the head buffer and the head moves on exactly when that was its last block *)
Theorem pvNewBlock_success_effect lb ln ba lnf nb sb sn sp bf bc bp head mem :
  head <> 0%Z -> negb ((bc (lb head) =? 1)%Z && (ln head =? 0)%Z) = true ->
  Gen_MemPoolNewBlock.pvNewBlock lb ln ba lnf nb sb sn sp bf bc bp head mem false =
  Ok (true, (if (bc (lb head) - 1 =? 0)%Z then ln head else head),
      sb mem head (bp (lnf (ba head (bf (lb head)))) (bc (lb head) - 1)%Z)).
Proof.
  intros Hh Hl. unfold Gen_MemPoolNewBlock.pvNewBlock.
  destruct (Z.eqb_spec head 0); [contradiction|]. cbv zeta.
  apply negb_true_iff in Hl. rewrite Hl. reflexivity.
Qed.

(* ------------------------------------------------------------------ final round: the executed pvNewBlock instance *)
(* what the executed instance of the GENERATED pvNewBlock (DiffRun.gen_newblock, compared with the real pool on every allocation
   that takes a block from an existing head buffer) computes: the handed-out block's next-free link becomes the first free index,
   the free count drops by one, and the head moves exactly when that was the last block - to the next buffer if there is one,
   else to the newly allocated look-ahead buffer *)
Local Open Scope Z_scope.
Lemma unpack f c : 0 <= c < 1000 -> -200 <= f -> (pack_bytes f c / 1000 - 200 = f) /\ (pack_bytes f c mod 1000 = c).
Proof.
  intros Hc Hf. unfold pack_bytes. split.
  - rewrite Z.div_add_l by lia. rewrite Z.div_small by lia. lia.
  - rewrite Z.add_comm, Z.mod_add by lia. apply Z.mod_small; lia.
Qed.
Lemma gen_newblock_spec f c nn nf : 1 <= c < 1000 -> -200 <= f -> -200 <= nf ->
  gen_newblock f c nn nf = ((if c - 1 =? 0 then (if nn then 2 else 1) else 0), nf, c - 1).
Proof.
  intros Hc Hf Hn. unfold gen_newblock, Gen_MemPoolNewBlock.pvNewBlock.
  destruct (unpack f c ltac:(lia) Hf) as [U1 U2]. destruct (unpack nf (c - 1) ltac:(lia) Hn) as [V1 V2].
  change (100 =? 0) with false. cbv iota. cbv beta zeta. rewrite U2.
  destruct (Z.eqb_spec c 1) as [->|Hc1].
  - change (1 - 1) with 0 in *. change (0 =? 0) with true. cbv iota.
    destruct nn; cbn [andb Z.eqb]; cbv iota; rewrite V1, V2; reflexivity.
  - cbn [andb]. cbv iota. destruct (Z.eqb_spec (c - 1) 0); [lia|]. rewrite V1, V2. reflexivity.
Qed.
Local Close Scope Z_scope.

(* ------------------------------------------------------------------ outside the claim: without H *)
Definition t24 : vtype := mkVt 24 8.
Definition t40 : vtype := mkVt 40 8.
Definition refute_ops : list op :=
  [ OpNew t24;            (* h0 : allocator<T24>, pool 0 *)
    OpRebind 0 t40;       (* h1 : rebound allocator<T40>, same pool *)
    OpAlloc 0 1 1;        (* b0 : pooled (24 -> block 24, align 8) *)
    OpAlloc 1 1 0;        (* b1 : single T40 while the pool is busy with other parameters -> RAW 40 bytes *)
    OpDealloc 0 0 1 0;    (* b0 back to the pool: idle *)
    OpAlloc 1 1 1;        (* b2 : idle pool re-parameterised for T40 -> pooled *)
    OpDealloc 1 1 1 0;    (* b1 (raw!) : test says "pool" -> MISROUTED raw block into the pool *)
    OpAlloc 0 1 1;        (* b3 : count is 0 again although b2 is live -> re-parameterised for T24 *)
    OpDealloc 1 2 1 0 ].  (* b2 (pooled!) : parameters differ now -> MISROUTED to the base allocator *)

Definition routing (ops : list op) : list (option tag * option tag * bool) :=
  match run cfg_default init ops with
  | Ok (_, obs) => map (fun o => (o_origin o, o_dest o, routed_ok o)) obs
  | _ => []
  end.

(* protocol respected, H violated: deallocation 6 puts a raw 40-byte block into the pool, deallocation 8
   hands a pooled block to the base allocator *)
Theorem dealloc_origin_refuted_general :
  good cfg_default false init refute_ops = true /\ good cfg_default true init refute_ops = false /\
  nth_error (routing refute_ops) 6 = Some (Some (RawMem 40), Some (Pooled (40, 8)%Z), false) /\
  nth_error (routing refute_ops) 8 = Some (Some (Pooled (40, 8)%Z), Some (RawMem 40), false).
Proof. vm_compute. repeat split; reflexivity. Qed.

(* the same witness against the explicit hypotheses of dealloc_matches_origin_under_H: the protocol is respected at
   every step, H (no_size_sharing) is not, and both kinds of misrouting occur *)
Theorem dealloc_origin_refuted_without_H :
  respects cfg_default (protocol cfg_default) init refute_ops /\
  ~ respects cfg_default (no_size_sharing cfg_default) init refute_ops /\
  nth_error (routing refute_ops) 6 = Some (Some (RawMem 40), Some (Pooled (40, 8)%Z), false) /\
  nth_error (routing refute_ops) 8 = Some (Some (Pooled (40, 8)%Z), Some (RawMem 40), false).
Proof.
  destruct dealloc_origin_refuted_general as [G1 [G2 [G3 G4]]].
  split; [apply (good_respects cfg_default _ _ false G1)|]. split; [|split; assumption].
  intros H. pose proof (respects_good cfg_default _ _ (good_respects cfg_default _ _ false G1) H) as G. congruence.
Qed.

(* H is NOT NECESSARY: two node sizes on one pool with H violated (a raw single-object block exists) but the raw block is
   given back while the pool still has the other parameters - every deallocation is routed correctly.  (This is the pattern of
   "clear both containers before the first one is refilled".) *)
Definition benign_sharing_ops : list op :=
  [ OpNew t24; OpRebind 0 t40;
    OpAlloc 0 1 1;        (* b0 pooled (24) *)
    OpAlloc 1 1 0;        (* b1 RAW 40: H violated here *)
    OpDealloc 1 1 1 0;    (* b1 back while the pool is still (24,8): raw -> base allocator, correct *)
    OpDealloc 0 0 1 0;
    OpAlloc 1 1 1;        (* idle pool re-targeted to (40,8) *)
    OpDealloc 1 2 1 0; OpDestroy 0; OpDestroy 1 ].
Theorem H_not_necessary :
  good cfg_default false init benign_sharing_ops = true /\ good cfg_default true init benign_sharing_ops = false /\
  forallb (fun x => snd x) (routing benign_sharing_ops) = true /\ length (routing benign_sharing_ops) = 10 /\
  match run cfg_default init benign_sharing_ops with Ok (st, _) => outstanding st | _ => 1 end = 0.
Proof. vm_compute. repeat split; reflexivity. Qed.

(* ------------------------------------------------------------------ non-vacuity *)
(* a list-like and a hash-like container life: nodes singly, bucket arrays with n > 1, a copy with its
   own pool, a swap, everything destroyed at the end *)
Definition node32 : vtype := mkVt 32 8.
Definition ptr8 : vtype := mkVt 8 8.
Definition demo_ops : list op :=
  [ OpNew (mkVt 16 8);        (* h0 allocator<value_type> given to the container *)
    OpRebind 0 node32;        (* h1 node allocator of container A *)
    OpDestroy 0;
    OpAlloc 1 1 2;            (* b0 node *)
    OpAlloc 1 1 0;            (* b1 node *)
    OpRebind 1 ptr8;          (* h2 bucket allocator (temporary) *)
    OpAlloc 2 13 0;           (* b2 bucket array: raw *)
    OpDestroy 2;
    OpSocc 1;                 (* h3 node allocator of the copy B: new pool 1 *)
    OpAlloc 3 1 2;            (* b3 *)
    OpAlloc 3 1 0 ]           (* b4 *)
  ++ swap_ops (mkState (fun _ => dead_pool) 2 (fun _ => dead_handle) 4 (fun _ => dead_block) 5 (fun _ => O)) 1 3 ++
  [ OpDealloc 1 3 1 0;        (* A (now on pool 1) frees B's former nodes *)
    OpDealloc 1 4 1 1;
    OpDestroy 1;              (* last owner of pool 1: pool destroyed *)
    OpDealloc 3 0 1 0;
    OpDealloc 3 1 1 0;
    OpRebind 3 ptr8;          (* h5 *)
    OpDealloc 5 2 13 0;       (* bucket array back to the base allocator *)
    OpDestroy 5;
    OpDestroy 3 ].

Example demo_good : good cfg_default true init demo_ops = true.
Proof. vm_compute. reflexivity. Qed.

Example demo_result :
  match run cfg_default init demo_ops with
  | Ok (st, obs) => (outstanding st, sum_allocs obs, sum_frees obs, forallb routed_ok obs,
                     length (filter (fun o => match o_dest o with Some (Pooled _) => true | _ => false end) obs),
                     length (filter (fun o => match o_dest o with Some (RawMem _) => true | _ => false end) obs))
  | _ => (1, 0, 0, false, 0, 0)
  end = (0, 7, 7, true, 8, 2).
Proof. vm_compute. reflexivity. Qed.

(* H is not vacuous in the other direction either: an idle pool IS re-parameterised for another node type *)
Example reparam_under_H :
  let ops := [OpNew t24; OpRebind 0 t40; OpAlloc 0 1 1; OpDealloc 0 0 1 0; OpAlloc 1 1 1; OpDealloc 1 1 1 1; OpDestroy 0; OpDestroy 1] in
  good cfg_default true init ops = true /\
  match run cfg_default init ops with Ok (st, obs) => (outstanding st, map o_reparam obs) | _ => (1, []) end
    = (0, [false; false; false; false; true; false; false; false]).
Proof. vm_compute. split; reflexivity. Qed.

(* ------------------------------------------------------------------ the pool block fits the value type *)
(* about the GENERATED CorrectBlockSize / Ceil: the block the pool hands out for a value type is at least
   sizeof(value_type), a multiple of the alignment, at least two alignments (room for the free-list link)
   and wastes less than two alignments *)
Local Open Scope Z_scope.
Lemma pool_block_fits cfg vt : block_count cfg <> 1 -> vt_ok vt = true ->
  snd (get_params cfg vt) = valign vt /\ vsize vt <= fst (get_params cfg vt) /\ 2 * valign vt <= fst (get_params cfg vt) /\
  fst (get_params cfg vt) mod valign vt = 0 /\ fst (get_params cfg vt) < vsize vt + 2 * valign vt.
Proof.
  intros Hbc. unfold vt_ok, get_params. destruct vt as [s a]; cbn [vsize valign]. rewrite !andb_true_iff, !Z.ltb_lt, Z.leb_le.
  intros [[[Hs1 Hs2] Ha1] Ha2]. unfold Gen_MemPoolConst.CorrectBlockSize.
  destruct (Z.eqb_spec (block_count cfg) 1) as [E|_]; [contradiction|].
  change (2 ^ 32) with 4294967296 in Hs2.
  assert (W : forall x, 0 <= x < 18446744073709551616 -> wrapU 64 x = x) by (intros; apply wrapU_small; assumption).
  destruct (Z.leb_spec s a); cbn [fst snd].
  - rewrite W by lia. split; [reflexivity|]. split; [lia|]. split; [lia|].
    split; [|lia]. apply Z.mod_mul. lia.
  - unfold Gen_UIntMath.Ceil. rewrite (W (s + a)) by lia. rewrite (W (s + a - 1)) by lia.
    pose proof (Z.div_mod (s + a - 1) a ltac:(lia)) as D. pose proof (Z.mod_pos_bound (s + a - 1) a ltac:(lia)) as B.
    rewrite (Z.mul_comm ((s + a - 1) / a) a).
    remember ((s + a - 1) / a) as q. remember ((s + a - 1) mod a) as r.
    assert (2 <= q) by nia.
    assert (2 * a <= a * q) by nia.
    rewrite W by lia.
    split; [reflexivity|]. split; [lia|]. split; [lia|]. split; [rewrite Z.mul_comm; apply Z.mod_mul; lia | lia].
Qed.

(* one block per buffer (blockCount = 1): the block size is the object size itself *)
Lemma pool_block_single cfg vt : block_count cfg = 1 -> 0 < vsize vt -> get_params cfg vt = (vsize vt, valign vt).
Proof.
  intros E Hs. unfold get_params, Gen_MemPoolConst.CorrectBlockSize. rewrite E. change (1 =? 1)%Z with true. cbv iota.
  destruct (Z.gtb_spec (vsize vt) 0); [reflexivity | lia].
Qed.
