(* Extraction of the executable models (ExtrOcamlBasic only). *)
From Coq Require Import ZArith List Extraction ExtrOcamlBasic.
From C15 Require Version Arr MultiMap Table.
Separate Extraction Version.run_out Version.init Version.getc
  Arr.arun_out Arr.ainit MultiMap.mrun_out MultiMap.minit Table.trun_out Table.tinit.
