(* C14 round 2 -- theorems about the structured bodies (Bodies.v). *)
From Coq Require Import ZArith Bool List Lia.
From C14 Require Import PropagationModel Model Proofs Bodies.
Import ListNotations.
Local Open Scope Z_scope.

(* every block in bs was allocated through m by THIS operation (id in [lo, hi)) *)
Definition fresh_for (m : mgr) (lo hi : Z) (bs : list block) : Prop :=
  Forall (fun b => snd b = m /\ lo <= fst b < hi) bs.

Lemma fresh_for_widen m lo hi lo' hi' bs : lo' <= lo -> hi <= hi' -> fresh_for m lo hi bs -> fresh_for m lo' hi' bs.
Proof. intros A B H. eapply Forall_impl; [|exact H]. simpl. intros b [E R]. split; [assumption|lia]. Qed.
Lemma fresh_for_app m lo hi a b : fresh_for m lo hi a -> fresh_for m lo hi b -> fresh_for m lo hi (a ++ b).
Proof. intros. apply Forall_app. split; assumption. Qed.
Lemma fresh_for_wf m lo hi bs : fresh_for m lo hi bs -> wf_blocks m bs.
Proof. intros H. eapply Forall_impl; [|exact H]. simpl. intros b [E _]. exact E. Qed.

Lemma alloc_n_fresh n m w bs w' : alloc_n n m w = (bs, w') -> fresh_for m (next w) (next w') bs /\ next w <= next w'.
Proof.
  intros E. destruct (alloc_n_spec _ _ _ _ _ E) as (W & N & L & R & _). split; [|lia].
  unfold fresh_for, wf_blocks in *. rewrite Forall_forall in *. intros b Hb. split; [apply W, Hb|apply R, Hb].
Qed.

(* ---------------------------------------------------------------- the three element-wise copy loops *)
Lemma copy_nodes_spec m ns : forall w ns' w',
  copy_nodes m ns w = (ns', w') ->
  map nitems ns' = map nitems ns /\ map ndepth ns' = map ndepth ns /\
  fresh_for m (next w) (next w') (map nblock ns') /\ next w <= next w'.
Proof.
  induction ns as [|n r IH]; intros w ns' w' H; simpl in H.
  - inversion H; subst. repeat split; try constructor; lia.
  - destruct (copy_nodes m r (mkW (next w + 1) (EAlloc m (next w) :: trace w))) as [r' w2] eqn:E.
    inversion H; subst; clear H. destruct (IH _ _ _ E) as (I & D & F & N). simpl in *.
    repeat split; try (f_equal; assumption); try lia.
    constructor; [simpl; split; [reflexivity|lia]|]. eapply fresh_for_widen; [| |exact F]; lia.
Qed.

Lemma copy_rows_spec m rs : forall w rs' w',
  copy_rows m rs w = (rs', w') ->
  map rval rs' = map rval rs /\ fresh_for m (next w) (next w') (map rblock rs') /\ next w <= next w'.
Proof.
  induction rs as [|n r IH]; intros w rs' w' H; simpl in H.
  - inversion H; subst. repeat split; try constructor; lia.
  - destruct (copy_rows m r (mkW (next w + 1) (EAlloc m (next w) :: trace w))) as [r' w2] eqn:E.
    inversion H; subst; clear H. destruct (IH _ _ _ E) as (I & F & N). simpl in *.
    repeat split; try (f_equal; assumption); try lia.
    constructor; [simpl; split; [reflexivity|lia]|]. eapply fresh_for_widen; [| |exact F]; lia.
Qed.

Lemma copy_keys_spec m ks : forall w ks' w',
  copy_keys m ks w = (ks', w') ->
  map mk ks' = map mk ks /\ map mvals ks' = map mvals ks /\
  Forall (fun k => marr k = None <-> mvals k = []) ks' /\
  fresh_for m (next w) (next w') (flat_map (fun k => opt_block (marr k)) ks') /\ next w <= next w'.
Proof.
  induction ks as [|k r IH]; intros w ks' w' H; simpl in H.
  - inversion H; subst. repeat split; try constructor; lia.
  - destruct (mvals k) as [|v0 vs] eqn:EV.
    + destruct (copy_keys m r w) as [r' w2] eqn:E. inversion H; subst; clear H.
      destruct (IH _ _ _ E) as (K & V & A & F & N). simpl. rewrite EV.
      repeat split; try (f_equal; assumption); try lia.
      constructor; [simpl; split; auto|assumption].
    + destruct (copy_keys m r (mkW (next w + 1) (EAlloc m (next w) :: trace w))) as [r' w2] eqn:E.
      inversion H; subst; clear H. destruct (IH _ _ _ E) as (K & V & A & F & N). simpl in *. rewrite EV.
      repeat split; try (f_equal; assumption); try lia.
      * constructor; [simpl; split; intros; discriminate|assumption].
      * constructor; [simpl; split; [reflexivity|lia]|]. eapply fresh_for_widen; [| |exact F]; lia.
Qed.

Lemma flat_map_ext_map {A B C} (f : B -> list C) (g h : A -> B) (l l' : list A) :
  map g l' = map h l -> flat_map (fun x => f (g x)) l' = flat_map (fun x => f (h x)) l.
Proof.
  revert l'. induction l as [|a r IH]; intros [|a' r'] H; simpl in *; try discriminate; [reflexivity|].
  inversion H. rewrite H1. f_equal. apply IH. assumption.
Qed.

Lemma flat_map_of_map {A B} (f : A -> list B) (l l' : list A) : map f l' = map f l -> flat_map f l' = flat_map f l.
Proof.
  revert l'. induction l as [|a r IH]; intros [|a' r'] H; simpl in *; try discriminate; [reflexivity|].
  inversion H. rewrite H1. f_equal. apply IH. assumption.
Qed.

Lemma key_items_eq ks ks' :
  map mk ks' = map mk ks -> map mvals ks' = map mvals ks ->
  flat_map (fun k => map (fun _ : Z => mk k) (mvals k)) ks' = flat_map (fun k => map (fun _ : Z => mk k) (mvals k)) ks.
Proof.
  revert ks'. induction ks as [|a r IH]; intros [|a' r'] K V; simpl in *; try discriminate; [reflexivity|].
  inversion K. inversion V. rewrite H0, H2. f_equal. apply IH; assumption.
Qed.

(* ---------------------------------------------------------------- the copy of a body *)
Theorem s_copy_body_spec m cid b w b' w' :
  s_copy_body m cid b w = (b', w') ->
  sb_items b' = sb_items b /\
  fresh_for m (next w) (next w') (sb_blocks b') /\ next w <= next w' /\
  (* a hash table is rebuilt as at most ONE generation, whatever chain the source had *)
  (length (gen_counts b') <= 1)%nat /\
  (* a tree is copied node by node: same shape (unless it holds no item at all: then nothing is allocated) *)
  (sb_items b <> [] -> tree_shape b' = tree_shape b) /\
  (* every key of a multimap is copied, value-less keys included, and a value-less key owns no value array *)
  key_shape b' = key_shape b /\ valueless b' = valueless b /\
  (* the node pools of the copy use the NEW crew's manager *)
  (forall pb cref ns, b' = STree (Some (pb, cref)) ns -> cref = cid) /\
  (* a table copy starts with an empty freeRaws list *)
  (forall ra rs fr, b' = STable ra rs fr -> fr = []).
Proof.
  intros H. destruct b as [gens|p nodes|bk keys|raws rows free]; simpl in H.
  - destruct (flat_map gitems gens) as [|i0 its] eqn:EI.
    + inversion H; subst. simpl. rewrite EI. repeat split; auto; try constructor; try lia; try discriminate.
    + inversion H; subst. simpl. rewrite app_nil_r.
      split; [congruence|].
      repeat split; auto; try lia; try discriminate.
      constructor; [simpl; split; [reflexivity|lia]|constructor].
  - destruct (flat_map nitems nodes) as [|i0 its] eqn:EI.
    + inversion H; subst. simpl. rewrite EI. repeat split; auto; try constructor; try lia; try discriminate.
      intros; congruence.
    + destruct (copy_nodes m nodes (mkW (next w + 1) (EAlloc m (next w) :: trace w))) as [ns w2] eqn:E.
      inversion H; subst; clear H. destruct (copy_nodes_spec _ _ _ _ _ E) as (I & D & F & N). simpl in *.
      repeat split; auto; try lia; try discriminate.
      * apply flat_map_of_map. exact I.
      * constructor; [simpl; split; [reflexivity|lia]|]. eapply fresh_for_widen; [| |exact F]; lia.
      * intros _. clear -I D. revert ns I D. induction nodes as [|a r IH]; intros [|a' r'] I D; simpl in *; try discriminate; [reflexivity|].
        inversion I. inversion D. rewrite H0, H2. f_equal. apply IH; assumption.
      * intros pb cref ns' Eq. inversion Eq. reflexivity.
  - destruct keys as [|k0 kr].
    + inversion H; subst. simpl. repeat split; auto; try constructor; try lia; try discriminate.
    + destruct (copy_keys m (k0 :: kr) (mkW (next w + 1) (EAlloc m (next w) :: trace w))) as [ks w2] eqn:E.
      inversion H; subst; clear H. destruct (copy_keys_spec _ _ _ _ _ E) as (K & V & A & F & N). simpl next in *.
      split; [apply key_items_eq; assumption|].
      split.
      { simpl. constructor; [simpl; split; [reflexivity|lia]|]. eapply fresh_for_widen; [| |exact F]; simpl; lia. }
      split; [lia|]. split; [simpl; lia|]. split; [reflexivity|].
      split.
      { unfold key_shape. clear -K V. revert ks K V. generalize (k0 :: kr). intros l.
        induction l as [|a r IH]; intros [|a' r'] K V; simpl in *; try discriminate; [reflexivity|].
        inversion K. inversion V. rewrite H0, H2. f_equal. apply IH; assumption. }
      split.
      { unfold valueless. clear -V. revert ks V. generalize (k0 :: kr). intros l.
        induction l as [|a r IH]; intros [|a' r'] V; simpl in *; try discriminate; [reflexivity|].
        inversion V. rewrite H0. destruct (mvals a); simpl; [f_equal|]; apply IH; assumption. }
      split; intros; discriminate.
  - destruct rows as [|r0 rr].
    + inversion H; subst. simpl. repeat split; auto; try constructor; try lia; try discriminate.
      intros ra rs fr Eq. inversion Eq. reflexivity.
    + destruct (copy_rows m (r0 :: rr) (mkW (next w + 1) (EAlloc m (next w) :: trace w))) as [rs w2] eqn:E.
      inversion H; subst; clear H. destruct (copy_rows_spec _ _ _ _ _ E) as (I & F & N). simpl next in *.
      split; [exact I|]. split.
      { simpl. rewrite app_nil_r. constructor; [simpl; split; [reflexivity|lia]|]. eapply fresh_for_widen; [| |exact F]; simpl; lia. }
      repeat split; auto; try lia; try discriminate.
      intros ra rs' fr Eq. inversion Eq. reflexivity.
Qed.

(* ---------------------------------------------------------------- copy is deep *)
Definition s_blocks (s : sc) : list block := match s with SOwned c b => cblocks c ++ sb_blocks b | SMovedFrom => [] end.
Definition s_items (s : sc) : list Z := match s with SOwned _ b => sb_items b | SMovedFrom => [] end.
Definition s_body (s : sc) : sbody := match s with SOwned _ b => b | SMovedFrom => SHash [] end.

Theorem s_copy_deep k cr b m w :
  Forall (fun x => fst x < next w) (s_blocks (SOwned cr b)) ->
  exists cr' b' w',
    s_copy k (SOwned cr b) m w = Ok (SOwned cr' b') w' /\
    cmgr cr' = m /\ sb_items b' = sb_items b /\
    (* every generation / node / value array / row / crew block of the copy is a block allocated by this very call,
       through the requested manager *)
    fresh_for m (next w) (next w') (s_blocks (SOwned cr' b')) /\
    (* so nothing is shared with the source (nor with any other container that existed before) *)
    (forall x y, In x (s_blocks (SOwned cr' b')) -> In y (s_blocks (SOwned cr b)) -> fst x <> fst y) /\
    (length (gen_counts b') <= 1)%nat /\
    (sb_items b <> [] -> tree_shape b' = tree_shape b) /\
    key_shape b' = key_shape b /\ valueless b' = valueless b /\
    pools_okb (SOwned cr' b') = true /\
    (* the abstract view (Model.v) of the copy has the source's items *)
    items_of (abs (SOwned cr' b')) = items_of (abs (SOwned cr b)).
Proof.
  intros Hb. unfold s_copy.
  destruct (alloc_n (crew_n k) m w) as [cb w1] eqn:E1.
  destruct (s_copy_body m (crew_id (mkCrew cb m)) b w1) as [b' w2] eqn:E2.
  destruct (alloc_n_fresh _ _ _ _ _ E1) as (F1 & N1).
  destruct (s_copy_body_spec _ _ _ _ _ _ E2) as (I & F2 & N2 & G & T & K & V & P & _).
  exists (mkCrew cb m), b', (emit (map ECopy (sb_items b)) w2).
  assert (FF : fresh_for m (next w) (next w2) (cb ++ sb_blocks b')).
  { apply fresh_for_app; [eapply fresh_for_widen; [| |exact F1]; lia | eapply fresh_for_widen; [| |exact F2]; lia]. }
  repeat split; auto.
  - intros x y Hx Hy Heq. simpl in Hx. unfold fresh_for in FF. rewrite Forall_forall in FF, Hb.
    destruct (FF x Hx) as [_ R]. specialize (Hb y Hy). lia.
  - simpl. destruct b' as [| [[pb cref]|] ns | |]; try reflexivity.
    rewrite (P pb cref ns eq_refl). apply Z.eqb_refl.
Qed.

(* destroying a well-formed structured container returns every block of the graph through its own manager *)
Theorem s_destroy_ok cr b w :
  wf_blocks (cmgr cr) (s_blocks (SOwned cr b)) -> exists w', s_destroy (SOwned cr b) w = Ok tt w'.
Proof.
  intros H. unfold wf_blocks in H. simpl in H. apply Forall_app in H. destruct H as [Hc Hb]. simpl.
  destruct (dealloc_all_ok (cmgr cr) (sb_blocks b) (emit (map EDestroy (sb_items b)) w) Hb) as (w1 & E1 & _).
  destruct (dealloc_all_ok (cmgr cr) (cblocks cr) w1 Hc) as (w2 & E2 & _).
  rewrite E1. simpl. rewrite E2. eauto.
Qed.

(* ---------------------------------------------------------------- move steals the whole graph; swap exchanges crews
   together with everything that points into them *)
Theorem s_move_steals_graph src :
  s_move_ctor src = (src, SMovedFrom) /\
  (abs (fst (s_move_ctor src)), abs (snd (s_move_ctor src))) = cc_move_ctor (abs src) /\
  pools_okb (fst (s_move_ctor src)) = pools_okb src /\
  gen_counts (s_body (fst (s_move_ctor src))) = gen_counts (s_body src) /\
  tree_shape (s_body (fst (s_move_ctor src))) = tree_shape (s_body src) /\
  key_shape (s_body (fst (s_move_ctor src))) = key_shape (s_body src).
Proof. repeat split. Qed.

Theorem s_swap_exact a b :
  s_swap a b = (b, a) /\
  (abs (fst (s_swap a b)), abs (snd (s_swap a b))) = cc_swap (abs a) (abs b) /\
  (pools_okb a = true -> pools_okb b = true ->
   pools_okb (fst (s_swap a b)) = true /\ pools_okb (snd (s_swap a b)) = true).
Proof. repeat split; assumption. Qed.

(* c7fda03: TreeSet::MergeTo into an empty set with an equal manager keeps every node pool with the crew that holds
   its manager ... *)
Theorem merge_to_empty_keeps_pools src dst :
  pools_okb src = true -> pools_okb dst = true ->
  pools_okb (fst (s_merge_to_empty src dst)) = true /\ pools_okb (snd (s_merge_to_empty src dst)) = true /\
  s_items (snd (s_merge_to_empty src dst)) = s_items src /\ s_items (fst (s_merge_to_empty src dst)) = s_items dst.
Proof. intros A B. repeat split; assumption. Qed.

(* ... whereas exchanging only root and node params (the code before c7fda03) leaves the destination's pools pointing
   into the SOURCE's crew whenever the two sets have different crews: destroying the source then frees the manager
   the destination's pools still use *)
Theorem merge_to_empty_old_refuted scr pb ns dcr db :
  crew_id scr <> crew_id dcr ->
  pools_okb (SOwned scr (STree (Some (pb, crew_id scr)) ns)) = true /\
  pools_okb (snd (s_merge_to_empty_old (SOwned scr (STree (Some (pb, crew_id scr)) ns)) (SOwned dcr db))) = false.
Proof.
  intros H. simpl. split; [apply Z.eqb_refl|]. destruct (Z.eqb_spec (crew_id scr) (crew_id dcr)); [contradiction|reflexivity].
Qed.

Example merge_to_empty_old_witness :
  let src := SOwned (mkCrew [(0, 1)] 1) (STree (Some ((2, 1), 0)) [mkNode (3, 1) [10; 20] 0]) in
  let dst := SOwned (mkCrew [(1, 1)] 1) (STree None []) in
  pools_okb src = true /\ pools_okb dst = true /\
  pools_okb (snd (s_merge_to_empty_old src dst)) = false /\
  pools_okb (snd (s_merge_to_empty src dst)) = true.
Proof. vm_compute. repeat split. Qed.

(* a concrete multi-generation table, deep tree, multimap with a value-less key and table with detached rows: the
   copies computed by the model (non-vacuity of the hypotheses above, and a regression anchor for the extraction) *)
Example unusual_states_copy :
  let w := mkW 100 [] in
  let h := SOwned (mkCrew [(0, 1)] 1) (SHash [mkGen (5, 1) [1; 2]; mkGen (3, 1) [3]; mkGen (2, 1) [4; 5; 6]]) in
  let t := SOwned (mkCrew [(0, 1)] 1) (STree (Some ((1, 1), 0)) [mkNode (2, 1) [5] 0; mkNode (3, 1) [1; 2] 1; mkNode (4, 1) [7; 8] 1]) in
  let mm := SOwned (mkCrew [(0, 1); (1, 1)] 1) (SMulti [(2, 1)] [mkKey 10 (Some (3, 1)) [1; 2]; mkKey 11 None []; mkKey 12 (Some (4, 1)) [3]]) in
  let dt := SOwned (mkCrew [(0, 1)] 1) (STable (Some (1, 1)) [mkRow (2, 1) 7; mkRow (3, 1) 8] [(4, 1); (5, 1)]) in
  (match s_copy KHash h 9 w with Ok (SOwned _ b) _ => gen_counts b = [6%nat] | _ => False end) /\
  (match s_copy KTree t 9 w with Ok (SOwned c b) _ => tree_shape b = [(0, 1); (1, 2); (1, 2)]%nat /\ pools_okb (SOwned c b) = true | _ => False end) /\
  (match s_copy KMulti mm 9 w with Ok (SOwned _ b) _ => key_shape b = [(10, 2%nat); (11, 0%nat); (12, 1%nat)] /\ valueless b = 1%nat | _ => False end) /\
  (match s_copy KTable dt 9 w with Ok (SOwned _ (STable (Some _) rs fr)) _ => map rval rs = [7; 8] /\ fr = [] | _ => False end).
Proof. vm_compute. repeat split. Qed.

(* ================================================================ DataTable: the raw pool's manager pointer (fc18ee9) and
   Clear in the moved-from state (c9f565a) *)
(* A table = (id of the crew it holds, id of the crew whose manager its raw MemPool uses).  DataTable::Swap exchanges
   mCrew, mRaws, mRawMemPool, mIndexes.  NOW (fc18ee9) MemPool::Data::Swap always exchanges the pools' managers;
   BEFORE it skipped the exchange when the two managers compared equal (IsEqual), although they are pointers into two
   different crews. *)
Definition tbl := (Z * Z)%type.
Definition tbl_ok (t : tbl) : bool := Z.eqb (fst t) (snd t).
Definition tbl_swap (a b : tbl) : tbl * tbl := (b, a).
Definition tbl_swap_old (managers_equal : bool) (a b : tbl) : tbl * tbl :=
  if managers_equal then ((fst b, snd a), (fst a, snd b)) else (b, a).

Theorem table_swap_keeps_pool a b :
  tbl_ok a = true -> tbl_ok b = true ->
  tbl_ok (fst (tbl_swap a b)) = true /\ tbl_ok (snd (tbl_swap a b)) = true.
Proof. intros A B. split; assumption. Qed.

Theorem table_swap_old_refuted ca cb :
  ca <> cb ->
  tbl_ok (ca, ca) = true /\ tbl_ok (cb, cb) = true /\
  tbl_ok (fst (tbl_swap_old true (ca, ca) (cb, cb))) = false /\
  tbl_ok (snd (tbl_swap_old true (ca, ca) (cb, cb))) = false.
Proof.
  intros H. unfold tbl_ok, tbl_swap_old. simpl. rewrite !Z.eqb_refl. repeat split.
  - destruct (Z.eqb_spec cb ca); [congruence|reflexivity].
  - destruct (Z.eqb_spec ca cb); [congruence|reflexivity].
Qed.

(* DataTable::Clear before c9f565a: no guard, `++mCrew.GetChangeVersion()` runs in every state *)
Definition cc_clear_table_old (c : cc) (w : world) : res cc :=
  match c with
  | MovedFrom => NullCrew
  | Owned cr body items => dealloc_all (cmgr cr) body (emit (map EDestroy items) w) >>= fun _ w1 => Ok (Owned cr [] []) w1
  end.
Theorem table_clear_moved_from w :
  cc_clear KTable MovedFrom w = Ok MovedFrom w /\ cc_clear_table_old MovedFrom w = NullCrew.
Proof. split; reflexivity. Qed.

(* ================================================================ round 3 *)
(* ---- structure after an element-wise move *)
Definition shape_total (sh : list (nat * nat)) : nat := fold_right (fun p acc => (snd p + acc)%nat) O sh.

Lemma reshape_items sh : forall its, shape_total sh = length its -> flat_map nitems (reshape sh its) = its.
Proof.
  induction sh as [|[d c] r IH]; intros its H; simpl in *.
  - destruct its; [reflexivity|discriminate].
  - rewrite IH; [apply firstn_skipn|]. rewrite skipn_length. lia.
Qed.
Lemma reshape_shape sh : forall its, shape_total sh = length its ->
  map (fun n => (ndepth n, length (nitems n))) (reshape sh its) = sh.
Proof.
  induction sh as [|[d c] r IH]; intros its H; simpl in *; [reflexivity|].
  rewrite IH; [|rewrite skipn_length; lia]. rewrite firstn_length. f_equal. f_equal. lia.
Qed.
Lemma filter_values_items ks :
  flat_map (fun k => map (fun _ : Z => mk k) (mvals k)) (filter has_values ks) =
  flat_map (fun k => map (fun _ : Z => mk k) (mvals k)) ks.
Proof.
  induction ks as [|k r IH]; simpl; [reflexivity|]. unfold has_values at 1.
  destruct (mvals k) eqn:E; simpl; rewrite ?E; simpl; rewrite IH; reflexivity.
Qed.
Lemma filter_values_valueless ks : length (filter (fun k => match mvals k with [] => true | _ => false end) (filter has_values ks)) = O.
Proof.
  induction ks as [|k r IH]; simpl; [reflexivity|]. unfold has_values at 1.
  destruct (mvals k) eqn:E; simpl; [assumption|]. rewrite E. assumption.
Qed.

Lemma normal_form_items sh b :
  (forall p nodes, b = STree p nodes -> shape_total sh = length (flat_map nitems nodes)) ->
  sb_items (traversal_normal_form sh b) = sb_items b.
Proof.
  intros H. destruct b as [gens|p nodes|bk keys|raws rows free]; simpl; try reflexivity.
  - apply reshape_items. eapply H. reflexivity.
  - apply filter_values_items.
Qed.

(* the target of an element-wise move: same items, every block fresh through the TARGET's manager, at most one bucket
   array, no value-less key, and for a tree exactly the shape of a freshly built tree *)
Theorem s_elementwise_spec m cid sh b w b' w' :
  (forall p nodes, b = STree p nodes -> shape_total sh = length (flat_map nitems nodes)) ->
  s_elementwise_body m cid sh b w = (b', w') ->
  sb_items b' = sb_items b /\
  fresh_for m (next w) (next w') (sb_blocks b') /\
  (length (gen_counts b') <= 1)%nat /\
  valueless b' = O /\
  (forall p nodes, b = STree p nodes -> sb_items b <> [] -> tree_shape b' = sh) /\
  (forall pb cref ns, b' = STree (Some (pb, cref)) ns -> cref = cid).
Proof.
  intros Hs H. unfold s_elementwise_body in H.
  destruct (s_copy_body_spec _ _ _ _ _ _ H) as (I & F & N & G & T & K & V & P & _).
  rewrite (normal_form_items sh b Hs) in I.
  repeat split; auto.
  - rewrite V. destruct b; simpl; try reflexivity. apply filter_values_valueless.
  - intros p nodes E Hne. subst b. rewrite T.
    + simpl. apply reshape_shape. eapply Hs. reflexivity.
    + rewrite (normal_form_items sh _ Hs). exact Hne.
Qed.

(* ---- TreeSet::MergeTo into a non-empty set *)
Lemma nodes_in_bufs_mono (ns : list pnode) (bufs bufs' : list block) :
  incl bufs bufs' ->
  forallb (fun n => existsb (Z.eqb (pn_buf n)) (map fst bufs)) ns = true ->
  forallb (fun n => existsb (Z.eqb (pn_buf n)) (map fst bufs')) ns = true.
Proof.
  intros Hi H. rewrite forallb_forall in *. intros n Hn. specialize (H n Hn).
  apply existsb_exists in H. destruct H as (x & Hx & E). apply existsb_exists. exists x. split; [|exact E].
  apply in_map_iff in Hx. destruct Hx as (b & Eb & Hb). apply in_map_iff. exists b. split; [exact Eb|apply Hi, Hb].
Qed.

(* fast path (equal managers): afterwards every buffer belongs to exactly one NodeParams -- the target's --, every node
   of the joined tree lives in a buffer the target owns, all of them can be returned through the target's manager, and
   the source owns nothing: it may die first or last *)
Theorem merge_fast_ownership dst src :
  cmgr (m_crew src) = cmgr (m_crew dst) ->
  wf_blocks (cmgr (m_crew dst)) (m_bufs dst) -> wf_blocks (cmgr (m_crew src)) (m_bufs src) ->
  nodes_in_own_bufs dst = true -> nodes_in_own_bufs src = true ->
  NoDup (map fst (m_bufs dst ++ m_bufs src)) ->
  let (dst', src') := merge_fast dst src in
  nodes_in_own_bufs dst' = true /\
  m_bufs src' = [] /\ m_nodes src' = [] /\
  m_bufs dst' ++ m_bufs src' = m_bufs dst ++ m_bufs src /\
  NoDup (map fst (m_bufs dst')) /\
  wf_blocks (cmgr (m_crew dst')) (m_bufs dst') /\
  m_items dst' = m_items dst ++ m_items src /\
  m_crew dst' = m_crew dst /\ m_crew src' = m_crew src.
Proof.
  intros Em Wd Ws Nd Ns ND. simpl. repeat split; auto.
  - unfold nodes_in_own_bufs in *. simpl. rewrite forallb_app. apply andb_true_iff. split.
    + eapply nodes_in_bufs_mono; [|exact Nd]. apply incl_appl, incl_refl.
    + eapply nodes_in_bufs_mono; [|exact Ns]. apply incl_appr, incl_refl.
  - apply app_nil_r.
  - unfold wf_blocks in *. apply Forall_app. split; [exact Wd|]. rewrite <- Em. exact Ws.
  - unfold m_items. simpl. apply flat_map_app.
Qed.

(* ... which is why the code tests IsEqual first: with different managers the handed-over buffers could not be returned
   through the target's manager *)
Theorem merge_fast_needs_equal_managers dst src b :
  cmgr (m_crew src) <> cmgr (m_crew dst) -> In b (m_bufs src) -> snd b = cmgr (m_crew src) ->
  ~ wf_blocks (cmgr (m_crew dst)) (m_bufs (fst (merge_fast dst src))).
Proof.
  intros Hne Hin Hb W. simpl in W. unfold wf_blocks in W. rewrite Forall_forall in W.
  specialize (W b (in_or_app _ _ _ (or_intror Hin))). congruence.
Qed.

Lemma move_destroy_ok (P : event -> bool) l :
  (forall v, P (EMove v) = true) -> (forall v, P (EDestroy v) = true) -> forallb P (map EMove l ++ map EDestroy l) = true.
Proof. intros A B. rewrite forallb_app, !forallb_map_const; auto. Qed.

(* element-wise path (unequal managers / interleaving keys): the target allocates its own storage through its own
   manager, the source keeps its buffers (they go back through ITS manager when it is cleared or destroyed), items are
   moved, never copied *)
Theorem merge_elementwise_ownership dst src w :
  nodes_in_own_bufs dst = true ->
  wf_blocks (cmgr (m_crew dst)) (m_bufs dst) ->
  let '(dst', src', w') := merge_elementwise dst src w in
  nodes_in_own_bufs dst' = true /\ wf_blocks (cmgr (m_crew dst')) (m_bufs dst') /\
  m_bufs src' = m_bufs src /\ m_items src' = [] /\ m_items dst' = m_items dst ++ m_items src /\
  (forall P, move_class P -> extends P w w').
Proof.
  intros Nd Wd. unfold merge_elementwise. destruct (m_items src) as [|i0 its] eqn:EI.
  - repeat split; auto; try (rewrite app_nil_r; reflexivity). intros; apply extends_refl.
  - simpl. repeat split; auto.
    + unfold nodes_in_own_bufs in *. simpl. rewrite forallb_app. apply andb_true_iff. split.
      * eapply nodes_in_bufs_mono; [|exact Nd]. apply incl_appl, incl_refl.
      * simpl. rewrite andb_true_r. apply existsb_exists. exists (next w). split; [|apply Z.eqb_refl].
        rewrite map_app. apply in_or_app. right. left. reflexivity.
    + unfold wf_blocks in *. apply Forall_app. split; [exact Wd|]. constructor; [reflexivity|constructor].
    + unfold m_items. simpl. rewrite flat_map_app. simpl. rewrite app_nil_r. reflexivity.
    + intros P (PA & PD & PM & PX). apply extends_trans with (w2 := snd (alloc (cmgr (m_crew dst)) w)).
      * eexists [_]. split; [reflexivity|]. simpl. rewrite PA. reflexivity.
      * apply extends_emit. exact (move_destroy_ok P (i0 :: its) PM PX).
Qed.

(* ---- DataTable indexes *)
Lemma copy_idxs_spec m n is : forall w is' w',
  copy_idxs m n is w = (is', w') ->
  map iunique is' = map iunique is /\ Forall (fun i => ientries i = n) is' /\
  fresh_for m (next w) (next w') (flat_map iblocks is') /\ next w <= next w' /\
  (n = O -> flat_map iblocks is' = []).
Proof.
  induction is as [|i r IH]; intros w is' w' H; simpl in H.
  - inversion H; subst. repeat split; try constructor; lia.
  - destruct n as [|n'].
    + destruct (copy_idxs m 0 r w) as [r' w2] eqn:E. inversion H; subst; clear H.
      destruct (IH _ _ _ E) as (U & En & F & N & Z0). simpl. repeat split; auto; try (f_equal; assumption).
    + destruct (copy_idxs m (S n') r (mkW (next w + 1) (EAlloc m (next w) :: trace w))) as [r' w2] eqn:E.
      inversion H; subst; clear H. destruct (IH _ _ _ E) as (U & En & F & N & _). simpl in *.
      repeat split; auto; try (f_equal; assumption); try lia; try discriminate.
      constructor; [simpl; split; [reflexivity|lia]|]. eapply fresh_for_widen; [| |exact F]; lia.
Qed.

(* copy of a table with indexes: every index definition is re-created with the same kind (unique / multi), holds one
   entry per copied row, and its storage is fresh through the copy's manager -- nothing of the source's indexes is shared;
   a move (DataTable(DataTable&&): mIndexes(std::move(...))) takes the index objects themselves *)
Theorem s_copy_table_spec m cid t w t' w' :
  s_copy_table m cid t w = (t', w') ->
  sb_items (t_body t') = sb_items (t_body t) /\
  map fst (idx_shape t') = map fst (idx_shape t) /\
  Forall (fun p => snd p = table_rows (t_body t)) (idx_shape t') /\
  fresh_for m (next w) (next w') (sb_blocks (t_body t') ++ idx_blocks t').
Proof.
  unfold s_copy_table. intros H.
  destruct (s_copy_body m cid (t_body t) w) as [b' w1] eqn:E1.
  destruct (copy_idxs m (table_rows (t_body t)) (t_idx t) w1) as [is' w2] eqn:E2.
  inversion H; subst; clear H.
  destruct (s_copy_body_spec _ _ _ _ _ _ E1) as (I & F1 & N1 & _).
  destruct (copy_idxs_spec _ _ _ _ _ _ E2) as (U & En & F2 & N2 & _).
  simpl. repeat split; auto.
  - unfold idx_shape. simpl. rewrite !map_map. simpl. exact U.
  - unfold idx_shape. simpl. apply Forall_map. simpl. exact En.
  - apply fresh_for_app; [eapply fresh_for_widen; [| |exact F1]; lia|eapply fresh_for_widen; [| |exact F2]; lia].
Qed.
