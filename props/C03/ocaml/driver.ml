(* C03 model driver: extracted Coq code only (Monitor.v, Effects.v); zarith is used for decimal I/O.
   mon <tokens>            the PROVED monitor on a kit event log: prints "accept" or "reject <index> <error>"
   om/arr/hs/ts ...        the L2 resource machine on one mechanism instance: prints the canonical trace in the
                           format of harness.cpp *)
open Zutil
open Datatypes
let z = z_of_int
let zs = string_of_z

(* ---- monitor *)
let split_dots s = Stdlib.List.map z_of_string (String.split_on_char '.' s)
let events_of_token tok : Monitor.event list =
  let k = tok.[0] and args = split_dots (String.sub tok 1 (String.length tok - 1)) in
  match k, args with
  | 'A', [m; b; s] -> [Monitor.Alloc (m, b, s)]
  | 'D', [m; b; s] -> [Monitor.Dealloc (m, b, s)]
  | 'N', [o] -> [Monitor.Ctor o]
  | 'C', [d; s] | 'M', [d; s] -> [Monitor.Use s; Monitor.Ctor d]     (* the source is read, the destination is constructed *)
  | 'X', [o] -> [Monitor.Dtor o]
  | 'U', [o] -> [Monitor.Use o]
  | 'F', _ -> []
  | _ -> failwith ("bad token " ^ tok)
let err_name = function
  | Monitor.EDoubleAlloc -> "DoubleAlloc" | Monitor.EDeallocDead -> "DeallocDead"
  | Monitor.EDeallocMismatch -> "DeallocMismatch" | Monitor.ECtorOnLive -> "CtorOnLive"
  | Monitor.EDtorOnDead -> "DtorOnDead" | Monitor.EUseOfDead -> "UseOfDead" | Monitor.ELeak -> "Leak"
let run_mon toks =
  (* tail-recursive: logs of colliding hash distributions have several 100 000 tokens *)
  let evs = Stdlib.List.rev (Stdlib.List.fold_left (fun acc t -> Stdlib.List.rev_append (events_of_token t) acc) [] toks) in
  match Monitor.mon_check evs with
  | None -> print_endline "accept"
  | Some Monitor.ELeak ->
    let ((_, _), st) = Monitor.mon_diag [] evs O in
    Printf.printf "reject end Leak live=%d\n" (Stdlib.List.length st)
  | Some e ->
    let ((i, _), _) = Monitor.mon_diag [] evs O in
    Printf.printf "reject %d %s\n" (int_of_nat i) (err_name e)

(* ---- resource machine *)
open Effects
let sched_of k = if k < 0 then [] else Stdlib.List.init (k + 1) (fun i -> i = k)
let canon ?(blocks=true) ?(sortd=false) sizes sortx (tr : tev list) =
  let os = Hashtbl.create 16 and bs = Hashtbl.create 16 in
  let ren tbl key = match Hashtbl.find_opt tbl key with
    | Some n -> n | None -> let n = Hashtbl.length tbl in Hashtbl.add tbl key n; n in
  let o (l : loc) = ren os (zs (fst l) ^ ":" ^ zs (snd l)) and b x = ren bs (zs x) in
  let toks = ref [] and xrun = ref [] and drun = ref [] in
  let flushd () = Stdlib.List.iter (fun x -> toks := ("D" ^ string_of_int x) :: !toks) (Stdlib.List.sort compare !drun); drun := [] in
  let flush () =
    let xs = if sortx then Stdlib.List.sort compare (Stdlib.List.rev !xrun) else Stdlib.List.rev !xrun in
    Stdlib.List.iter (fun x -> toks := ("X" ^ string_of_int x) :: !toks) xs; xrun := [] in
  Stdlib.List.iter (fun e -> match e with
    | TVia _ -> ()
    | TDestroy l -> xrun := o l :: !xrun
    | (TAlloc _ | TDealloc _) when not blocks -> ()
    | TDealloc (x, _) when sortd -> drun := b x :: !drun
    | _ -> flush (); flushd ();
      (match e with
       | TCopy (d, s) -> let s' = o s in let d' = o d in toks := Printf.sprintf "C%d.%d" d' s' :: !toks
       | TMove (d, s) -> let s' = o s in let d' = o d in toks := Printf.sprintf "M%d.%d" d' s' :: !toks
       | TAlloc (x, sz) -> toks := (Printf.sprintf "A%d" (b x) ^ (if sizes then "." ^ zs sz else "")) :: !toks
       | TDealloc (x, sz) -> toks := (Printf.sprintf "D%d" (b x) ^ (if sizes then "." ^ zs sz else "")) :: !toks
       | TFail -> toks := "F" :: !toks
       | TDestroy _ -> ())) (Stdlib.List.rev tr);
  flush (); flushd ();
  String.concat "" (Stdlib.List.map (fun t -> " " ^ t) (Stdlib.List.rev !toks))
let print_result ?(blocks=true) ?(sortd=false) sizes sortx (o, s) =
  let tag = match o with Val _ -> "val" | Exc -> "exc" | Stuck -> "stuck" in
  print_endline (tag ^ canon ~blocks ~sortd sizes sortx s.trace ^ " ! 0 0 0")   (* the registry summary the real code must end with *)
let cat_of = function "ntm" -> NTM | _ -> CPO
let with_live s l v = set_cell s l (Live (z v))
let isz = z 8          (* sizeof(kit::ElemNtm) = sizeof(kit::ElemCpo) = one pointer *)
let mgr = z 1

(* the schedule "the c-th element COPY fails" for models with fallible steps that leave no trace (the link step): the failing
   position k is searched - the copy is the LAST position whose run shows exactly c copies before the failure marker *)
let sched_for_copy run c =
  if c < 0 then [] else begin
    let copies_before_fail tr =
      let rec go l n = match l with [] -> None | TFail :: _ -> Some n | TCopy _ :: r -> go r (n + 1) | _ :: r -> go r n in
      go (Stdlib.List.rev tr) 0 in
    let (_, s0) = run [] in
    let total = Stdlib.List.length (Stdlib.List.filter (function TCopy _ -> true | _ -> false) s0.trace) in
    let best = ref [] and k = ref 0 and fin = ref (c >= total) in
    while not !fin && !k < 4000 do
      let sch = Stdlib.List.init (!k + 1) (fun i -> i = !k) in
      let (_, s1) = run sch in
      (match copies_before_fail s1.trace with
       | None -> fin := true
       | Some n -> if n = c then best := sch else if n > c then fin := true);
      incr k
    done;
    !best end

let () = iter_lines (fun line ->
  match words line with
  | "mon" :: toks -> run_mon toks
  | ["om"; mech; cat; count; k] ->
    let c = cat_of cat and n = int_of_string count and k = int_of_string k in
    let single = (mech = "moveexec" || mech = "copyexec") in
    let s0 = init_state (z (-1)) (z (if single then 1 else n)) (sched_of k) in
    let s0 = with_live s0 (z (-3), z 0) 7 in
    let sr = z (-1) and dr = z (-2) and z0 = z 0 and cnt = nat_of_int n in
    let m = match mech with
      | "reloc" -> om_relocate c sr z0 dr z0 cnt
      | "relocexec" -> om_relocate_exec c sr z0 dr z0 cnt ExecNop
      | "reloccreate" -> om_relocate_create c sr z0 dr z0 cnt (dr, z n) (z (-3), z0)
      | "moveexec" -> om_move_exec c (dr, z0) (sr, z0) ExecNop
      | "copyexec" -> om_copy_exec c (dr, z0) (sr, z0) ExecNop
      | _ -> failwith "mech" in
    print_result true false (m s0)
  | ["arr"; op; cat; count; cap; newcap; k] ->
    let c = cat_of cat and n = int_of_string count and cap = int_of_string cap
    and newcap = int_of_string newcap and k = int_of_string k in
    let items = if cap > 0 then z 0 else z (-1) in
    let d = { a_items = items; a_count = nat_of_int n; a_cap = nat_of_int cap } in
    let s0 = { cells = init_cells (z 0) (z n);
               blocks = (if cap > 0 then [(z 0, (mgr, BinInt.Z.mul (z cap) isz))] else []);
               sched = sched_of k; nextb = z 1; trace = [] } in
    let s0 = with_live s0 (z (-3), z 0) 7 in
    let opm = match op with
      | "regrow" -> array_regrow c mgr isz d (nat_of_int newcap)
      | "addback" -> array_addback c mgr isz d (nat_of_int newcap) (z (-3), z 0) (z (-4), z 0)
      | _ -> failwith "op" in
    print_result true false (array_op_then_destroy mgr isz d opm s0)
  | ["hs"; _; n; k] ->
    let n = int_of_string n and k = int_of_string k in
    let s0 = init_state (z (-1)) (z n) (sched_of k) in
    print_result false true (hs_copy_then_destroy mgr (z 1) (z 2) (z 3) true (z (-1)) (nat_of_int n) s0)
  | ["ts"; _; n; k] ->
    let n = int_of_string n and k = int_of_string k in
    let s0 = init_state (z (-1)) (z n) (sched_of k) in
    print_result false true (ts_copy_then_destroy mgr (z 3) (z 4) (z 5) true (z (-1)) (nat_of_int n) s0)
  | ["hs-prefix"; n; k] ->      (* the constructor shape before fix 806b9fe, for the record *)
    let n = int_of_string n and k = int_of_string k in
    let s0 = init_state (z (-1)) (z n) (sched_of k) in
    print_result false true (hs_copy_then_destroy mgr (z 1) (z 2) (z 3) false (z (-1)) (nat_of_int n) s0)
  | ["crew"; k; m; fail] ->
    let s0 = init_state (z (-1)) (z 0) (sched_of (int_of_string fail)) in
    print_result ~sortd:true false false
      (Effects2.merge_scn mgr (z 24) (z 168) (z 450) true (nat_of_int (int_of_string k)) (nat_of_int (int_of_string m)) s0)
  | ["pools"; a; b; fail] ->
    let s0 = init_state (z (-1)) (z 0) (sched_of (int_of_string fail)) in
    print_result ~sortd:true false false
      (Effects2.pools_scn mgr (z 114) true (nat_of_int (int_of_string a)) (nat_of_int (int_of_string b)) s0)
  | ["hsf"; _; k] ->
    let s0 = with_live (init_state (z (-1)) (z 0) (sched_of (int_of_string k))) (z (-3), z 0) 7 in
    print_result false true (Effects4.first_insert_scn mgr (z 1) (z 2) (z 3) true (z (-3), z 0) s0)
  | ["rel"; k] ->
    (* the height 2 -> 3 insertion through TreeSet::Relocator (Effects7.h23_script), k-th fallible step failing; blocks 0 and 1 are the old nodes *)
    print_result ~sortd:true true false
      (Effects7.insertion mgr Effects7.esz_std Effects7.grow_dbl true Effects7.h23_script (Effects7.h23_state (sched_of (int_of_string k))))
  | ["tsnprobe"; _] -> print_endline "?"
  | ["tsn"; n; shape; j] ->
    (* shape in preorder: items[(child,...)]; the j-th element copy fails: located among the fallible steps of a failure-free run *)
    let j = int_of_string j in
    let pos = ref 0 in
    let peek () = if !pos < String.length shape then shape.[!pos] else ' ' in
    let rec node () =
      let st = !pos in
      while peek () >= '0' && peek () <= '9' do incr pos done;
      let cnt = int_of_string (String.sub shape st (!pos - st)) in
      let kids = if peek () = '(' then begin incr pos; let l = ref [node ()] in
          while peek () = ',' do incr pos; l := node () :: !l done; incr pos; Stdlib.List.rev !l end else [] in
      Effects4.Node (nat_of_int cnt, Stdlib.List.fold_right (fun k acc -> Effects4.FCons (k, acc)) kids Effects4.FNil) in
    if int_of_string n = 0 then print_endline "val ! 0 0 0" else begin
    let t = node () in
    let run sch = Effects4.tsn_copy_then_destroy mgr (z 96) (z 168) (z 24) true (z (-1)) t (Effects2Proofs.rows_init sch) in
    let sch = if j < 0 then [] else begin
        let (_, s0) = run [] in
        let steps = Stdlib.List.filter_map (function TAlloc _ -> Some false | TCopy _ -> Some true | _ -> None) (Stdlib.List.rev s0.trace) in
        let rec go l seen acc = match l with
          | [] -> []
          | true :: _ when seen = j -> Stdlib.List.rev (true :: acc)
          | true :: r -> go r (seen + 1) (false :: acc)
          | false :: r -> go r seen (false :: acc) in
        go steps 0 [] end in
    print_result ~blocks:false false true (run sch) end
  | ["growa"; cat; n; c] ->
    let c = int_of_string c and n = int_of_string n in
    let run sch = Effects3.hs_history_auto (cat_of cat) mgr (fun _ -> z 64) Effects3.open2n2_capacity (nat_of_int n) (z (-1)) (Effects2Proofs.rows_init sch) in
    let sch = if c < 0 then [] else begin
        let (_, s0) = run [] in
        let steps = Stdlib.List.filter_map (function TAlloc _ -> Some false | TCopy _ -> Some true | _ -> None) (Stdlib.List.rev s0.trace) in
        let rec go l seen acc = match l with
          | [] -> []
          | true :: _ when seen = c -> Stdlib.List.rev (true :: acc)
          | true :: r -> go r (seen + 1) (false :: acc)
          | false :: r -> go r seen (false :: acc) in
        go steps 0 [] end in
    let (_, s1) = run sch in
    let kinds = Stdlib.List.filter_map (function TCopy _ -> Some "C" | TMove _ -> Some "M" | TDestroy _ -> Some "X" | TFail -> Some "F" | _ -> None)
        (Stdlib.List.rev s1.trace) in
    print_endline ("kinds" ^ String.concat "" (Stdlib.List.map (fun k -> " " ^ k) kinds) ^ " ! 0 0 0")
  | ["pc"; cfg; script; f] ->
    let (c, cf) = match cfg with "2.0" -> (2, 0) | "4.3" -> (4, 3) | "3.2" -> (3, 2) | _ -> (8, 16) in
    let cz = z c and cfz = z cf and uc = cf > 0 and f = int_of_string f in
    let module P = PoolConcC09 in
    let w = ref P.empty_world and held = [| ref []; ref [] |] and out = Buffer.create 128 and allocs = ref 0 in
    let ren = Hashtbl.create 16 in
    let b x = match Hashtbl.find_opt ren x with Some n -> n | None -> let n = Hashtbl.length ren in Hashtbl.add ren x n; n in
    let emit w0 w1 =
      let f0 = int_of_z w0.P.fresh and f1 = int_of_z w1.P.fresh in
      for i = f0 to f1 - 1 do Buffer.add_string out (Printf.sprintf " A%d" (b i)) done;
      let n0 = Stdlib.List.length w0.P.returned and n1 = Stdlib.List.length w1.P.returned in
      let rec take k l = if k = 0 then [] else match l with [] -> [] | x :: r -> x :: take (k - 1) r in
      Stdlib.List.iter (fun x -> Buffer.add_string out (Printf.sprintf " D%d" (b (int_of_z x)))) (Stdlib.List.rev (take (n1 - n0) w1.P.returned)) in
    let apply tok =
      let p = Char.code tok.[1] - 48 in let pb = (p = 1) in
      let w0 = !w in
      (match tok.[0] with
       | 'a' -> let (w1, bk) = P.coq_Allocate cz uc w0 pb in
         let nbuf = int_of_z w1.P.fresh - int_of_z w0.P.fresh in
         if nbuf > 0 && f >= 0 && !allocs <= f && f < !allocs + nbuf then begin allocs := f + 1; Buffer.add_string out " F" end   (* the allocation throws: no effect *)
         else begin allocs := !allocs + nbuf; w := w1; held.(p) := !(held.(p)) @ [bk] end
       | 'd' -> let k = int_of_string (String.sub tok 3 (String.length tok - 3)) in
         if k < Stdlib.List.length !(held.(p)) then begin
           let bk = Stdlib.List.nth !(held.(p)) k in
           w := P.coq_Deallocate cz cfz uc w0 pb bk;
           held.(p) := Stdlib.List.filteri (fun i _ -> i <> k) !(held.(p)) end
       | 'm' -> w := P.coq_MergeFrom cz uc w0 pb; held.(p) := !(held.(p)) @ !(held.(1 - p)); held.(1 - p) := []
       | 'x' -> w := P.coq_DeallocateAll w0 pb; held.(p) := []
       | _ -> ());
      emit w0 !w;
      if tok.[0] = 'm' then begin
        let src = P.getp !w (not pb) in
        Buffer.add_string out (Printf.sprintf " [c%db%s]" (Stdlib.List.length src.P.cache) (if src.P.lfree = [] then "0" else "1")) end in
    Stdlib.List.iter (fun tok -> if tok <> "" then begin Buffer.add_string out " |"; apply tok end) (String.split_on_char ',' script);
    Buffer.add_string out " |";
    let w0 = !w in
    for p = 0 to 1 do Stdlib.List.iter (fun bk -> w := P.coq_Deallocate cz cfz uc !w (p = 1) bk) !(held.(p)); held.(p) := [] done;
    emit w0 !w;
    Buffer.add_string out " |";
    let w0 = !w in
    w := P.coq_DeallocateAll (P.coq_DeallocateAll !w true) false;      (* ~pool[1], ~pool[0] *)
    emit w0 !w;
    print_endline ("pc" ^ Buffer.contents out ^ " ! 0 0 0")
  | ["migv"; n; k] ->
    let n = int_of_string n in
    let s0 = { cells = init_cells (z 0) (z n); blocks = [(z 0, (z 1, BinInt.Z.mul (z n) (z 8)))];
               sched = sched_of (int_of_string k); nextb = z 1; trace = [] } in
    let (o, s1) = Effects6.migrate_block_then_destroy (z 1) (z 2) (z 8) (z 0) (nat_of_int n) s0 in
    let tbl = Hashtbl.create 8 in
    let bump key = Hashtbl.replace tbl key (1 + (try Hashtbl.find tbl key with Not_found -> 0)) in
    let rec go via = function
      | [] -> ()
      | TVia m :: r -> go (zs m) r
      | TAlloc _ :: r -> bump ("A" ^ via); go via r
      | TDealloc _ :: r -> bump ("D" ^ via); go via r
      | TMove _ :: r -> bump "M"; go via r
      | TCopy _ :: r -> bump "C"; go via r
      | TDestroy _ :: r -> bump "X"; go via r
      | TFail :: r -> bump "F"; go via r in
    go "?" (Stdlib.List.rev s1.trace);
    let keys = Stdlib.List.sort compare (Hashtbl.fold (fun k _ acc -> k :: acc) tbl []) in
    print_endline ((match o with Val _ -> "val" | Exc -> "exc" | Stuck -> "stuck") ^
      String.concat "" (Stdlib.List.map (fun k -> Printf.sprintf " %s:%d" k (Hashtbl.find tbl k)) keys) ^ " ! 0 0 0")
  | ["dtc"; script] ->
    (* NewRow = pvAllocateRaw: reclaim the free-raw stack if it is not empty, then allocate *)
    let s = ref (init_state (z (-1)) (z 0) []) in
    let t = ref (match p_alloc mgr (z 24) !s with (Val c, s1) -> s := s1; { Effects6.d_crew = c; d_rows = []; d_held = []; d_free = [] } | _ -> failwith "crew") in
    let step op = match Effects6.dt_step mgr (z 40) op !t !s with ((t', _), s') -> t := t'; s := s' in
    let out = Buffer.create 64 in
    String.iter (fun ch ->
      (match ch with
       | 'n' -> if !t.Effects6.d_free <> [] then step Effects6.DReclaim; step Effects6.DNew
       | 'a' -> step Effects6.DAdd
       | 'e' -> step Effects6.DExtract
       | 'r' -> step Effects6.DDispose
       | _ -> ());
      let len l = Stdlib.List.length l in
      Buffer.add_string out (Printf.sprintf " %d,%d,%d" (len !t.Effects6.d_rows + len !t.Effects6.d_held + len !t.Effects6.d_free)
                               (len !t.Effects6.d_free) (len !t.Effects6.d_rows))) script;
    print_endline ("dtc" ^ Buffer.contents out ^ " ! 0 0 0")
  | ["sa2"; n; k] ->     (* 4 items of 8 bytes per segment; pointer array: Array growth policy (<=2 -> 4, else doubled), 8 bytes per pointer *)
    let pgrow cap need = let c = int_of_nat cap and nd = int_of_nat need in
      nat_of_int (max (if c <= 2 then 4 else 2 * c) nd) in
    print_result ~sortd:true true true
      (Effects5.sa2_ctor_then_destroy mgr (z 32) (z 8) (fun _ -> nat_of_int 4) pgrow (z (-1)) (nat_of_int (int_of_string n))
         (Effects2Proofs.rows_init (sched_of (int_of_string k))))
  | ["sa"; n; c] ->      (* 4 items per segment: the c-th copy comes after c/4 + 1 segment allocations *)
    let c = int_of_string c in
    let k = if c < 0 then -1 else c + c / 4 + 1 in
    print_result ~blocks:false false true
      (Effects3.sa_ctor_then_destroy mgr (z 32) (fun _ -> nat_of_int 4) (z (-1)) (nat_of_int (int_of_string n)) (Effects2Proofs.rows_init (sched_of k)))
  | ["growprobe"; _; _] -> print_endline "?"
  | ["grow"; cat; flags; c] ->
    (* the schedule "the c-th element COPY fails" is found by running the model once without failures and locating the
       c-th copy among its fallible steps (allocations and copies, in trace order) *)
    let c = int_of_string c in
    let ops = Stdlib.List.init (String.length flags) (fun i -> flags.[i] = '1') in
    let run sch = Effects3.hs_history (cat_of cat) mgr (fun _ -> z 64) ops (z (-1)) (Effects2Proofs.rows_init sch) in
    let sch =
      if c < 0 then [] else begin
        let (_, s0) = run [] in
        let steps = Stdlib.List.filter_map (function TAlloc _ -> Some false | TCopy _ -> Some true | _ -> None) (Stdlib.List.rev s0.trace) in
        let rec go l seen acc = match l with
          | [] -> Stdlib.List.rev acc
          | true :: _ when seen = c -> Stdlib.List.rev (true :: acc)
          | true :: r -> go r (seen + 1) (false :: acc)
          | false :: r -> go r seen (false :: acc) in
        let r = go steps 0 [] in
        if Stdlib.List.exists (fun b -> b) r then r else []
      end in
    let (_, s1) = run sch in
    let kinds = Stdlib.List.filter_map (function TCopy _ -> Some "C" | TMove _ -> Some "M" | TDestroy _ -> Some "X" | TFail -> Some "F" | _ -> None)
        (Stdlib.List.rev s1.trace) in
    print_endline ("kinds" ^ String.concat "" (Stdlib.List.map (fun k -> " " ^ k) kinds) ^ " ! 0 0 0")
  | ["dt"; n; c] ->      (* the c-th element copy fails: located among the fallible steps of a failure-free run *)
    let c = int_of_string c in
    let run sch = Effects2.dt_copy_then_destroy mgr (z 40) (z 24) (fun _ -> nat_of_int 2) false true (z 2) true (z (-1)) (z (-2))
        (nat_of_int (int_of_string n)) (Effects2Proofs.rows_init sch) in
    print_result ~blocks:false false true (run (sched_for_copy run c))
  | ["hmm"; n; c] ->     (* key i has i mod 3 + 1 values *)
    let c = int_of_string c in
    let run sch = Effects2.hmm_ctor_then_destroy mgr (z 40) (z 24) (fun i -> nat_of_int (int_of_z i mod 3 + 1)) true true (z 8) true (z (-1)) (z (-2))
        (nat_of_int (int_of_string n)) (Effects2Proofs.rows_init sch) in
    print_result ~blocks:false false true (run (sched_for_copy run c))
  | _ -> print_endline "?")
