// C01 harness TU 3: open addressing (Open2N2<1..3>, OpenN1) + the index / capacity leaves
#include "c01_harness.h"
using namespace momo;
typedef HashBucketOpen2N2<1> O1; typedef HashBucketOpen2N2<2> O2; typedef HashBucketOpen2N2<3> O3;
typedef HashBucketOpenN1<> N3; typedef HashBucketOpenN1<1> N1; typedef HashBucketOpenN1<5, false> N5;
static const Reg regs[] = {
	C01_SET("S.O3.b.f", O3, 8, 4, 0, true, false),
	C01_SET("S.O3.b.q", O3, 8, 4, 0, false, false),
	C01_MAP("M.O3.d.p", O3, 24, 8, 0, false, true),
	C01_SET("S.O2.a.p", O2, 4, 4, 0, false, true),
	C01_SET("S.O2.n.q", O2, 8, 4, 1, false, false),
	C01_SET("S.O1.c.q", O1, 8, 8, 0, false, false),
	C01_MAP("M.O1.x.p", O1, 8, 4, 2, false, true),
	C01_SET("S.N3.b.q", N3, 8, 4, 0, false, false),
	C01_MAP("M.N3.a.f", N3, 4, 4, 0, true, false),
	C01_SET("S.N1.c.q", N1, 8, 8, 0, false, false),
	C01_SET("S.N5.h.f", N5, 2, 2, 0, true, false),
	C01_SETN("S.O3.b.v", O3, 8, 4, 0, false, false),
	C01_MAPU("M.O3.u.n", O3),
	C01_SET("S.O3.t.q", O3, 3, 1, 0, false, false),
};
typedef HashSetItemTraits<uint64_t, MemManagerDefault> IT;
static void leaf(const std::vector<std::string>& w)
{
	if (w.size() == 3)
	{	// cap <pol> <maxCount> <log>
		size_t pol = std::stoull(w[0]), mc = std::stoull(w[1]), log = std::stoull(w[2]);
		switch (pol) {
		case 0: cap_case<HashBucketLimP4<>>(mc, log); return;
		case 1: if (mc == 1) cap_case<O1>(mc, log); else if (mc == 2) cap_case<O2>(mc, log); else cap_case<O3>(mc, log); return;
		case 2: if (mc == 1) cap_case<N1>(mc, log); else if (mc == 3) cap_case<N3>(mc, log); else if (mc == 5) cap_case<N5>(mc, log); else puts("?mc"); return;
		default: cap_case<HashBucketOpen8>(mc, log); return; }
	}
	if (w.size() == 2)
	{	// sh <kind> <hashCode>: the short-hash functions (translator validation)
		size_t kind = std::stoull(w[0]), hc = std::stoull(w[1]);
		typedef internal::HashSetBucketItemTraits<IT> BIT;
		unsigned r;
		if (kind == 0) r = internal::BucketLimP4<BIT, 4, MemPoolParams<>, true>::pvCalcShortHash(hc);
		else if (kind == 1) r = internal::BucketOpen2N2<BIT, 3, true>::pvCalcShortHash(hc);
		else if (kind == 3) r = internal::BucketOpen2N2<BIT, 3, false>::pvCalcShortHash(hc);
		else r = internal::BucketOpenN1<BIT, 3, true>::ptCalcShortHash(hc);
		printf("%u\n", r);
		return;
	}
	if (w.size() == 5)
	{	// idx <probing> <hashCode> <log> <idx> <probe>
		size_t probing = std::stoull(w[0]), hc = std::stoull(w[1]), log = std::stoull(w[2]), idx = std::stoull(w[3]), probe = std::stoull(w[4]);
		size_t bc = size_t(1) << log;
		size_t st = internal::BucketBase::GetStartBucketIndex(hc, bc), nx;
		typedef internal::HashSetBucketItemTraits<IT> BIT;
		switch (probing) {
		case 0: nx = internal::BucketBase::GetNextBucketIndex(idx, hc, bc, probe); break;
		case 1: nx = internal::BucketLimP4<BIT, 4, MemPoolParams<>, true>::GetNextBucketIndex(idx, hc, bc, probe); break;
		case 2: nx = internal::BucketOpen2N2<BIT, 3, true>::GetNextBucketIndex(idx, hc, bc, probe); break;
		default: nx = internal::BucketOpen8<BIT>::GetNextBucketIndex(idx, hc, bc, probe); break; }
		printf("%llu %llu\n", ull(st), ull(nx));
		return;
	}
	puts("?leaf");
}
int main() { return c01_main(regs, sizeof(regs) / sizeof(regs[0]), &leaf); }
