(* C10 -- proofs about the key/value pair model, for every failure schedule and every (key, value) category pair *)
From Coq Require Import ZArith Bool List Lia Permutation Arith.
From C10 Require Import Machine Merge MergeProofs MapModel.
Import ListNotations.
Local Open Scope Z_scope.

(* the documented exception of HashMap.h:349-354 / TreeMap.h is excluded by this hypothesis *)
Definition pair_safe (kc vc : cat) : Prop := nothrow_anyway kc = true \/ nothrow_anyway vc = true.

Ltac crush_mech :=
  repeat (match goal with |- context [step_copy ?x] => destruct (step_copy x); simpl end).

Lemma p_relocate_value kc vc w p w' e : p_relocate kc vc w p = (w', Some e) -> e = p.
Proof.
  destruct p as [k v]. unfold p_relocate, relocate, move_ctor, copy_ctor.
  destruct kc, vc; simpl; crush_mech; intros H; inversion H; reflexivity.
Qed.

Lemma p_replace_relocate_spec kc vc w src mid w' r : p_replace_relocate kc vc w src mid = (w', r) ->
  match r with
  | POk e m => e = mid /\ m = src
  | PFail s m => s = src /\ fst m = fst mid /\ (snd m = snd mid \/ snd m = snd src) /\ (pair_safe kc vc -> m = mid)
  end.
Proof.
  destruct src as [ks vs], mid as [km vm].
  unfold p_replace_relocate, p_replace_unsafe, replace_relocate, replace, relocate, move_ctor, copy_ctor, move_assign, copy_assign, pair_safe.
  destruct kc, vc; simpl; crush_mech; intros H; inversion H; subst; simpl; auto 10;
  (split; [reflexivity|split; [reflexivity|split; [auto|intros [D|D]; discriminate D]]]).
Qed.

Lemma p_extract_reloc_spec kc vc w x repl w' r : p_extract_reloc kc vc w x repl = (w', r) ->
  match r with
  | POk e _ => e = x
  | PFail s x' => fst x' = fst x /\ (snd x' = snd x \/ exists s0, repl = Some s0 /\ snd x' = snd s0) /\ (pair_safe kc vc -> x' = x)
  end.
Proof.
  unfold p_extract_reloc. destruct repl as [s|].
  - intros H. apply p_replace_relocate_spec in H. destruct r as [e m|s1 m].
    + tauto.
    + destruct H as (_ & F & V & S). split; [exact F|]. split; [|exact S].
      destruct V as [V|V]; [left; exact V|right; exists s; auto].
  - destruct (p_relocate kc vc w x) as [w1 [e|]] eqn:E; intros H; inversion H; subst.
    + apply p_relocate_value in E. exact E.
    + auto.
Qed.

(* ---------------------------------------------------------------- the merge loop *)

Ltac pstep_cases kc vc st :=
  unfold pstep; destruct st as [kept rest dst w stat shape]; simpl;
  destruct stat; simpl; try tauto;
  destruct rest as [|x r]; simpl;
  [ | destruct (step_func w) as [w1|] eqn:Ef; simpl;
      [ destruct (phas_key dst (pkey x)) eqn:Eh; simpl;
        [ | destruct (step_alloc w1) as [w2|] eqn:Ea; simpl;
            [ destruct (pop_shape shape) as [sh shs] eqn:Ep; simpl;
              destruct (p_extract_reloc kc vc w2 x match sh with None => None | Some j => nth_error kept j end) as [w3 [e m|s x']] eqn:Ee; simpl | ] ]
      | ] ].

Lemma perm_move_last (A R D : list (Z * Z)) x : Permutation (A ++ R ++ D ++ [x]) (A ++ (x :: R) ++ D).
Proof.
  apply Permutation_app_head. simpl. rewrite app_assoc. etransitivity; [symmetry; apply Permutation_cons_append|].
  reflexivity.
Qed.

(* conservation of whole pairs, when the documented exception does not apply *)
Lemma pstep_conserve kc vc init st : pair_safe kc vc ->
  Permutation (pall st) init -> Permutation (pall (pstep kc vc st)) init.
Proof.
  intros Hs. unfold pall. pstep_cases kc vc st; intros P; simpl in *; try exact P.
  - rewrite <- app_assoc. simpl. exact P.
  - apply p_extract_reloc_spec in Ee. subst e. etransitivity; [apply perm_move_last|exact P].
  - apply p_extract_reloc_spec in Ee. destruct Ee as (_ & _ & S). rewrite (S Hs). exact P.
Qed.

Theorem pmerge_conservation kc vc src dst w shape n : pair_safe kc vc ->
  Permutation (pall (prun kc vc n (pinit src dst w shape))) (src ++ dst).
Proof. intros Hs. induction n; simpl; [reflexivity|]. apply pstep_conserve; assumption. Qed.

(* in EVERY case (also the documented exception) the keys are conserved and no value appears from nowhere *)
Lemma pstep_keys kc vc init st :
  Permutation (map fst (pall st)) init -> Permutation (map fst (pall (pstep kc vc st))) init.
Proof.
  unfold pall. pstep_cases kc vc st; intros P; simpl in *; try exact P.
  - rewrite <- app_assoc. simpl. exact P.
  - apply p_extract_reloc_spec in Ee. subst e. etransitivity; [apply Permutation_map; apply perm_move_last|exact P].
  - apply p_extract_reloc_spec in Ee. destruct Ee as (F & _). rewrite !map_app in *. simpl in *. rewrite F. exact P.
Qed.

Theorem pmerge_keys_conserved kc vc src dst w shape n :
  Permutation (map fst (pall (prun kc vc n (pinit src dst w shape)))) (map fst (src ++ dst)).
Proof. induction n; simpl; [reflexivity|]. apply pstep_keys. exact IHn. Qed.

Lemma pstep_values kc vc (vals : list Z) st :
  (forall p, In p (pall st) -> In (snd p) vals) -> forall p, In p (pall (pstep kc vc st)) -> In (snd p) vals.
Proof.
  unfold pall. pstep_cases kc vc st; intros H p I; simpl in *; try (apply H; exact I).
  - apply H. rewrite <- app_assoc in I. exact I.
  - apply p_extract_reloc_spec in Ee. subst e. apply H.
    eapply Permutation_in; [apply perm_move_last|exact I].
  - apply p_extract_reloc_spec in Ee. destruct Ee as (_ & V & _).
    apply in_app_or in I. destruct I as [I|[I|I]].
    + apply H. apply in_or_app. left. exact I.
    + subst p. destruct V as [V|(s0 & Es & V)]; rewrite V.
      * apply H. apply in_or_app. right. left. reflexivity.
      * apply H. apply in_or_app. left. destruct sh as [j|]; [|discriminate]. apply nth_error_In in Es. exact Es.
    + apply H. apply in_or_app. right. right. exact I.
Qed.

Theorem pmerge_values_from_initial kc vc src dst w shape n p :
  In p (pall (prun kc vc n (pinit src dst w shape))) -> In (snd p) (map snd (src ++ dst)).
Proof.
  revert p. induction n; simpl.
  - intros p I. apply in_map. exact I.
  - apply pstep_values. exact IHn.
Qed.

Lemma phas_key_false_notin d k : phas_key d k = false -> ~ In k (map pkey d).
Proof.
  intros H I. apply in_map_iff in I. destruct I as (y & E & I).
  assert (phas_key d k = true); [|congruence].
  apply existsb_exists. exists y. split; [exact I|]. apply Z.eqb_eq. exact E.
Qed.

Lemma pstep_nodup kc vc st : NoDup (map pkey (p_dst st)) -> NoDup (map pkey (p_dst (pstep kc vc st))).
Proof.
  pstep_cases kc vc st; intros N; simpl in *; try exact N.
  apply p_extract_reloc_spec in Ee. subst e. rewrite map_app. simpl.
  apply Permutation_NoDup with (l := pkey x :: map pkey dst); [apply Permutation_cons_append|].
  constructor; [apply phas_key_false_notin; exact Eh|exact N].
Qed.

Theorem pmerge_unique_nodup kc vc src dst w shape n :
  NoDup (map pkey dst) -> NoDup (map pkey (p_dst (prun kc vc n (pinit src dst w shape)))).
Proof. intros N. induction n; simpl; [exact N|]. apply pstep_nodup. exact IHn. Qed.

(* ---------------------------------------------------------------- the documented limitation really happens in the
   model: key and value both copy-only, the 4th copy step (the key assignment inside pvReplaceUnsafe) throws.
   Source {(k1,v11),(k2,v22)}, destination {(k1',v99)} with key k1' == key k1: the first pair is refused and then is
   the partner of the second; afterwards the second pair carries v11: value 22 is lost, value 11 is duplicated. *)
Definition witness_state : pstate :=
  pmerge CPY CPY [(100, 11); (200, 22)] [(101, 99)] (W [] [] [false; false; false; true] []) [Some 0%nat].

Theorem pmerge_limitation_witness :
  p_stat witness_state = Failed /\
  pall witness_state = [(100, 11); (200, 11); (101, 99)] /\
  ~ Permutation (pall witness_state) ([(100, 11); (200, 22)] ++ [(101, 99)]) /\
  ~ pair_safe CPY CPY.
Proof.
  split; [vm_compute; reflexivity|]. split; [vm_compute; reflexivity|]. split.
  - intros P. assert (I : In (200, 22) (pall witness_state)).
    { eapply Permutation_in; [symmetry; exact P|]. simpl. auto. }
    vm_compute in I. destruct I as [I|[I|[I|[]]]]; inversion I.
  - intros [D|D]; discriminate D.
Qed.

(* ---------------------------------------------------------------- MapExtractedPair *)

Lemma pnth_split (b : list (Z * Z)) i : (i < length b)%nat -> b = firstn i b ++ nth i b (0, 0) :: skipn (S i) b.
Proof.
  revert i; induction b as [|a b IH]; intros i H; simpl in *; [lia|].
  destruct i; simpl; [reflexivity|]. f_equal. apply IH. lia.
Qed.

Lemma pbucket_remove_perm b i : (i < length b)%nat -> Permutation (nth i b (0, 0) :: pbucket_remove b i) b.
Proof.
  intros H. pose proof (pnth_split b i H) as Hb. unfold pbucket_remove.
  remember (firstn i b) as pre in *. remember (skipn (S i) b) as post in *. remember (nth i b (0, 0)) as x in *.
  clear Heqpre Heqpost Heqx. subst b.
  destruct (rev post) as [|l rp] eqn:E; apply (f_equal (@rev (Z * Z))) in E; rewrite rev_involutive in E; subst post; simpl.
  - apply Permutation_cons_append.
  - etransitivity; [|apply Permutation_middle]. constructor.
    apply Permutation_app_head. apply Permutation_cons_append.
Qed.

(* extraction of a pair into the handle: conserved when the exception does not apply; a failure changes nothing *)
Theorem pextract_at_conservation kc vc w b i w' b' h ok : pair_safe kc vc -> (i < length b)%nat ->
  pextract_at kc vc w b i = (w', b', h, ok) ->
  Permutation (match h with None => [] | Some x => [x] end ++ b') b /\ (ok = false -> b' = b /\ h = None).
Proof.
  intros Hs Hi. unfold pextract_at.
  destruct (p_extract_reloc kc vc w (nth i b (0, 0)) (prepl_of b i)) as [w1 [e m|s x']] eqn:Ee;
    intros H; inversion H; subst; apply p_extract_reloc_spec in Ee.
  - subst e. split; [simpl; apply pbucket_remove_perm; exact Hi|discriminate].
  - destruct Ee as (_ & _ & S). rewrite (S Hs). unfold pset_nth. rewrite <- (pnth_split b i Hi). simpl. auto.
Qed.

(* re-insertion of a pair handle: conserved for EVERY category pair (the pair Relocate rolls back completely) *)
Theorem pinsert_holder_conservation kc vc w dst h w' dst' h' st :
  pinsert_holder kc vc w dst h = (w', dst', h', st) ->
  Permutation (match h' with None => [] | Some x => [x] end ++ dst') (match h with None => [] | Some x => [x] end ++ dst) /\
  (h' = h /\ dst' = dst \/ exists x, h = Some x /\ h' = None /\ dst' = dst ++ [x] /\ phas_key dst (pkey x) = false).
Proof.
  unfold pinsert_holder. destruct h as [x|]; [|intros H; inversion H; subst; simpl; auto].
  destruct (step_func w) as [w1|]; [|intros H; inversion H; subst; simpl; auto].
  destruct (phas_key dst (pkey x)) eqn:Eh; [intros H; inversion H; subst; simpl; auto|].
  destruct (step_alloc w1) as [w2|]; [|intros H; inversion H; subst; simpl; auto].
  destruct (p_relocate kc vc w2 x) as [w3 [e|]] eqn:Er; intros H; inversion H; subst; simpl; auto.
  apply p_relocate_value in Er. subst e. split; [symmetry; apply Permutation_cons_append|].
  right. exists x. auto.
Qed.

(* ---------------------------------------------------------------- no copy for movable key and value categories *)
Lemma p_extract_reloc_no_copy kc vc w x repl w' r : nothrow_reloc kc = true -> nothrow_reloc vc = true ->
  no_copy (tr w) -> p_extract_reloc kc vc w x repl = (w', r) -> no_copy (tr w').
Proof.
  intros Hk Hv N. destruct x as [kx vx]. unfold p_extract_reloc, p_replace_relocate, p_relocate.
  destruct repl as [[ks vs]|].
  - rewrite Hk.
    destruct (replace_relocate vc w vs vx) as [w1 o1] eqn:E1. pose proof (replace_relocate_no_copy _ _ _ _ _ _ Hv N E1) as N1.
    destruct o1 as [[ev mv]|]; [|intros H; inversion H; subst; exact N1].
    destruct (replace_relocate kc w1 ks kx) as [w2 o2] eqn:E2. pose proof (replace_relocate_no_copy _ _ _ _ _ _ Hk N1 E2) as N2.
    destruct o2 as [[ek mk]|]; intros H; inversion H; subst; exact N2.
  - rewrite Hk.
    destruct (relocate vc w vx) as [w1 o1] eqn:E1. pose proof (relocate_no_copy _ _ _ _ _ Hv N E1) as N1.
    destruct o1 as [v'|]; [|intros H; inversion H; subst; exact N1].
    destruct (relocate kc w1 kx) as [w2 o2] eqn:E2. pose proof (relocate_no_copy _ _ _ _ _ Hk N1 E2) as N2.
    destruct o2 as [k'|]; intros H; inversion H; subst; exact N2.
Qed.

Lemma pstep_no_copy kc vc st : nothrow_reloc kc = true -> nothrow_reloc vc = true ->
  no_copy (tr (p_w st)) -> no_copy (tr (p_w (pstep kc vc st))).
Proof.
  intros Hk Hv. pstep_cases kc vc st; intros N; simpl in *; try exact N;
  try (apply step_func_tr in Ef); try (apply step_alloc_tr in Ea);
  try (rewrite Ef; exact N); try (apply no_copy_cons; [reflexivity|]; try rewrite Ea; try rewrite Ef; exact N).
  - eapply p_extract_reloc_no_copy; [exact Hk|exact Hv| |exact Ee]. rewrite Ea, Ef. exact N.
  - eapply p_extract_reloc_no_copy; [exact Hk|exact Hv| |exact Ee]. rewrite Ea, Ef. exact N.
Qed.

Theorem pmerge_no_copy kc vc src dst w shape n : nothrow_reloc kc = true -> nothrow_reloc vc = true ->
  no_copy (tr w) -> no_copy (tr (p_w (prun kc vc n (pinit src dst w shape)))).
Proof. intros Hk Hv N. induction n; simpl; [exact N|]. apply pstep_no_copy; assumption. Qed.
