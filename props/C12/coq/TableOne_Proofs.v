(* C12: element_found_after_growth for the BucketOne table model. *)
From Coq Require Import ZArith Bool List Lia.
From MomoCommon Require Import GenPrelude.
From C12 Require Import Bits Known Gen_Base Gen_One Chain TableOne.
Import ListNotations.
Local Open Scope Z_scope.

Section OneInv.
Variable hash : Z -> Z.
Hypothesis hash_range : forall k, 0 <= hash k < 2 ^ 64.

Definition ohome (L key : Z) : Z := Gen_Base.GetStartBucketIndex (hash key) (2 ^ L).
Definition olidx (L start p : Z) : Z := (start + p) mod 2 ^ L.

(* a full bucket holds the hash state of its key's TRUE hash, sits on the linear probe path of that hash's home bucket,
   and every bucket before it on the path is in the WasFull state *)
Definition OTinv (L : Z) (t : otable) : Prop :=
  forall b, 0 <= b < 2 ^ L -> Gen_One.IsFull (ost (t b)) = true ->
    ost (t b) = Gen_One.pvGetHashState (hash (oky (t b))) /\
    exists p, 0 <= p < 2 ^ L /\ b = olidx L (ohome L (oky (t b))) p /\
      forall q, 0 <= q < p -> Gen_One.WasFull (ost (t (olidx L (ohome L (oky (t b))) q))) = true.

Definition OPresent (L : Z) (t : otable) (k : Z) : Prop :=
  exists b, 0 <= b < 2 ^ L /\ Gen_One.IsFull (ost (t b)) = true /\ oky (t b) = k.

Definition OAt (L : Z) (t : otable) (k b : Z) : Prop := 0 <= b < 2 ^ L /\ Gen_One.IsFull (ost (t b)) = true /\ oky (t b) = k.

(* what pvFind + BucketOne::Find examine *)
Definition OFound (L : Z) (t : otable) (k : Z) : Prop :=
  exists p, 0 <= p <= Gen_Base.GetMaxProbe L /\ p < 2 ^ L /\
    (forall q, 0 <= q < p -> Gen_One.WasFull (ost (t (olidx L (ohome L k) q))) = true) /\
    ost (t (olidx L (ohome L k) p)) = Gen_One.pvGetHashState (hash k) /\ oky (t (olidx L (ohome L k) p)) = k.

Lemma state_facts h : Gen_One.IsFull (Gen_One.pvGetHashState h) = true /\ Gen_One.WasFull (Gen_One.pvGetHashState h) = true.
Proof.
  assert (Hb : Z.testbit (Gen_One.pvGetHashState h) 0 = true).
  { unfold Gen_One.pvGetHashState. rewrite Z.lor_spec. change (Z.testbit 1 0) with true. apply orb_true_r. }
  split.
  - unfold Gen_One.IsFull. apply Z.eqb_eq. apply Z.bits_inj'. intros n Hn. rewrite Z.land_spec.
    destruct (Z.eq_dec n 0) as [->|]; [rewrite Hb; reflexivity|].
    change 1 with (2 ^ 0). rewrite tb_pow2 by lia. destruct (Z.eqb_spec 0 n); [lia|apply andb_false_r].
  - unfold Gen_One.WasFull. destruct (Z.eqb_spec (Gen_One.pvGetHashState h) 0) as [E|]; [|reflexivity].
    rewrite E in Hb. discriminate.
Qed.

Lemma wasfull_of_isfull st : Gen_One.IsFull st = true -> Gen_One.WasFull st = true.
Proof.
  unfold Gen_One.IsFull, Gen_One.WasFull. intros Hf. destruct (Z.eqb_spec st 0) as [->|]; [discriminate|reflexivity].
Qed.

Lemma onext_lidx L s p : 0 <= L <= 63 -> 0 <= p ->
  Gen_Base.GetNextBucketIndex (olidx L s p) (2 ^ L) = olidx L s (p + 1).
Proof.
  intros HL Hp. unfold Gen_Base.GetNextBucketIndex, olidx.
  assert (0 < 2 ^ L) by (apply pow2_pos; lia). assert (2 ^ L <= 2 ^ 63) by (apply pow2_le_mono; lia).
  rewrite (wrapU_small 64 (2 ^ L - 1)) by (change (2 ^ 64) with (2 * 2 ^ 63); lia).
  rewrite pow2m1_ones, land_wrap64_ones by lia. rewrite Zplus_mod_idemp_l. f_equal. lia.
Qed.

Lemma oprobe_loop_spec L t start : 0 <= L <= 63 -> forall fuel probe,
  0 <= probe < 2 ^ L -> (Z.to_nat (2 ^ L - probe) <= fuel)%nat ->
  match oprobe_loop fuel t (2 ^ L) (olidx L start probe) probe with
  | Ok (idx, p) => probe <= p < 2 ^ L /\ idx = olidx L start p /\ Gen_One.IsFull (ost (t idx)) = false /\
                   (forall q, probe <= q < p -> Gen_One.IsFull (ost (t (olidx L start q))) = true)
  | Exn => True
  | _ => False
  end.
Proof.
  intros HL. assert (2 ^ L <= 2 ^ 63) by (apply pow2_le_mono; lia).
  induction fuel as [|f IH]; intros probe Hp Hf; [exfalso; lia|].
  cbn [oprobe_loop]. destruct (Gen_One.IsFull _) eqn:Hfull.
  - rewrite (wrapU_small 64 (probe + 1)) by (change (2 ^ 64) with (2 * 2 ^ 63); lia).
    destruct (Z.geb_spec (probe + 1) (2 ^ L)); [exact I|].
    rewrite onext_lidx by lia.
    specialize (IH (probe + 1) ltac:(lia) ltac:(lia)).
    destruct (oprobe_loop f t (2 ^ L) (olidx L start (probe + 1)) (probe + 1)) as [[idx p]| | |]; try assumption.
    destruct IH as (G1 & G2 & G3 & G4). split; [lia|]. split; [exact G2|]. split; [exact G3|].
    intros q Hq. destruct (Z.eq_dec q probe) as [->|]; [assumption|apply G4; lia].
  - split; [lia|]. split; [reflexivity|]. split; [assumption|]. intros; lia.
Qed.

Lemma oempty_inv L : OTinv L oempty_table.
Proof. intros b Hb Hf. discriminate. Qed.

Lemma oadd_nogrow_spec L t code key : 0 <= L <= 63 -> OTinv L t ->
  Gen_Base.GetStartBucketIndex code (2 ^ L) = ohome L key ->
  Gen_One.pvGetHashState code = Gen_One.pvGetHashState (hash key) ->
  match oadd_nogrow t L code key with
  | Ok t' => OTinv L t' /\ OPresent L t' key /\ (forall k, OPresent L t k -> OPresent L t' k) /\
             (forall j, Gen_One.WasFull (ost (t j)) = true -> Gen_One.WasFull (ost (t' j)) = true) /\
             (exists b0, Gen_One.IsFull (ost (t b0)) = false /\
                forall k b, OAt L t' k b <-> (OAt L t k b \/ (k = key /\ b = b0 /\ 0 <= b0 < 2 ^ L)))
  | Exn => True
  | _ => False
  end.
Proof.
  intros HL Hinv Hstart Hstate.
  assert (Hpos : 0 < 2 ^ L) by (apply pow2_pos; lia). assert (Hle : 2 ^ L <= 2 ^ 63) by (apply pow2_le_mono; lia).
  unfold oadd_nogrow. rewrite shl1_pow2 by lia. rewrite (wrapU_small 64 (2 ^ L)) by (change (2 ^ 64) with (2 * 2 ^ 63); lia).
  rewrite Hstart. set (start := ohome L key).
  assert (Hhome : 0 <= start < 2 ^ L) by (unfold start, ohome; rewrite start_mod by lia; apply Z.mod_pos_bound; lia).
  pose proof (oprobe_loop_spec L t start HL (S (Z.to_nat (2 ^ L))) 0 ltac:(lia) ltac:(lia)) as Hloop.
  assert (E0 : olidx L start 0 = start) by (unfold olidx; rewrite Z.add_0_r; apply Z.mod_small; lia).
  rewrite E0 in Hloop.
  destruct (oprobe_loop _ t (2 ^ L) start 0) as [[idx p]| | |]; try exact Hloop.
  destruct Hloop as (Hp & Hidx & Hfull & Hpath).
  unfold Gen_One.AddCrt. rewrite Hfull. cbn [negb]. rewrite Hstate.
  set (t' := otupd t idx (mkO (Gen_One.pvGetHashState (hash key)) key)).
  destruct (state_facts (hash key)) as [Hsf Hsw].
  assert (Ft : forall j, j <> idx -> t' j = t j) by (intros j Hj; unfold t', otupd; destruct (Z.eqb_spec j idx); [contradiction|reflexivity]).
  assert (Fi : t' idx = mkO (Gen_One.pvGetHashState (hash key)) key) by (unfold t', otupd; rewrite Z.eqb_refl; reflexivity).
  assert (Fw : forall j, Gen_One.WasFull (ost (t j)) = true -> Gen_One.WasFull (ost (t' j)) = true).
  { intros j Hj. destruct (Z.eq_dec j idx) as [->|Hne]; [rewrite Fi; exact Hsw|rewrite Ft by assumption; exact Hj]. }
  assert (Hidxr : 0 <= idx < 2 ^ L) by (rewrite Hidx; apply Z.mod_pos_bound; lia).
  split; [|split; [|split; [|split; [exact Fw|]]]].
  - intros b Hb Hf. destruct (Z.eq_dec b idx) as [->|Hne].
    + rewrite Fi in *. cbn [ost oky]. split; [reflexivity|]. exists p. fold start. split; [lia|]. split; [assumption|].
      intros q Hq. apply Fw, wasfull_of_isfull, Hpath. lia.
    + rewrite Ft in * by assumption. destruct (Hinv b Hb Hf) as (Hs & p0 & Hp0 & Hb0 & Hw0).
      split; [assumption|]. exists p0. split; [assumption|]. split; [assumption|]. intros q Hq. apply Fw, Hw0. assumption.
  - exists idx. rewrite Fi. cbn [ost oky]. split; [assumption|]. split; [exact Hsf|reflexivity].
  - intros k (b & Hb & Hf & Hk). exists b. destruct (Z.eq_dec b idx) as [->|Hne]; [congruence|].
    rewrite Ft by assumption. split; [assumption|split; assumption].
  - exists idx. split; [exact Hfull|]. intros k b. unfold OAt. destruct (Z.eq_dec b idx) as [->|Hne].
    + rewrite Fi. cbn [ost oky]. split.
      * intros (Hb & _ & Hk). right. split; [symmetry; exact Hk|split; [reflexivity|exact Hb]].
      * intros [(_ & Hf & _)|(-> & _ & Hb)]; [congruence|]. split; [exact Hb|split; [exact Hsf|reflexivity]].
    + rewrite Ft by assumption. split; [intros G; left; exact G|intros [G|(_ & Hb & _)]; [exact G|contradiction]].
Qed.

Lemma one_getpart h full it : 0 <= h < 2 ^ 64 -> Gen_One.GetHashCodePart (Gen_One.pvGetHashState h) full it it = Ok (h mod 2 ^ 63).
Proof.
  intros Hh. destruct (one_reconstruct h full it Hh) as (st0 & Ha & _ & Hg & _).
  assert (st0 = Gen_One.pvGetHashState h) by (unfold Gen_One.AddCrt in Ha; cbn in Ha; injection Ha as <-; reflexivity).
  subst st0. exact Hg.
Qed.

Lemma orelocate_item_spec L newL told tnew i : 0 <= L -> L < newL <= 63 -> OTinv L told -> OTinv newL tnew ->
  0 <= i < 2 ^ L -> Gen_One.IsFull (ost (told i)) = true ->
  match orelocate_item hash told tnew newL i with
  | Ok (told', tnew') =>
      OTinv L told' /\ OTinv newL tnew' /\ Gen_One.IsFull (ost (told' i)) = false /\ (forall j, j <> i -> told' j = told j) /\
      (forall k, OPresent L told k -> OPresent L told' k \/ OPresent newL tnew' k) /\
      (forall k, OPresent newL tnew k -> OPresent newL tnew' k) /\
      (OAt L told (oky (told i)) i /\ (forall k b, OAt L told' k b <-> (OAt L told k b /\ b <> i)) /\
       exists b0, Gen_One.IsFull (ost (tnew b0)) = false /\
         forall k b, OAt newL tnew' k b <-> (OAt newL tnew k b \/ (k = oky (told i) /\ b = b0 /\ 0 <= b0 < 2 ^ newL)))
  | Exn => True
  | _ => False
  end.
Proof.
  intros HL0 HnL Hold Hnew Hi Hf. unfold orelocate_item.
  destruct (Hold i Hi Hf) as (Hs & _). set (key := oky (told i)) in *. pose proof (hash_range key) as Hh.
  rewrite Hs. rewrite one_getpart by assumption.
  destruct (one_reconstruct (hash key) 0 0 Hh) as (_ & _ & _ & _ & Hst & Hsi).
  pose proof (oadd_nogrow_spec newL tnew (hash key mod 2 ^ 63) key ltac:(lia) Hnew) as Hadd.
  specialize (Hadd ltac:(unfold ohome; apply Hsi; lia) Hst).
  destruct (oadd_nogrow tnew newL (hash key mod 2 ^ 63) key) as [tnew'| | |]; try exact Hadd.
  destruct Hadd as (Hnew' & Hpres & Hmono & _ & Hpos).
  unfold oremove_at, Gen_One.Remove. rewrite Z.eqb_refl. rewrite Hf.
  set (told' := otupd told i (mkO 2 (oky (told i)))).
  assert (Ft : forall j, j <> i -> told' j = told j) by (intros j Hj; unfold told', otupd; destruct (Z.eqb_spec j i); [contradiction|reflexivity]).
  assert (Fi : told' i = mkO 2 (oky (told i))) by (unfold told', otupd; rewrite Z.eqb_refl; reflexivity).
  assert (Fw : forall j, Gen_One.WasFull (ost (told j)) = true -> Gen_One.WasFull (ost (told' j)) = true).
  { intros j Hj. destruct (Z.eq_dec j i) as [->|Hne]; [rewrite Fi; reflexivity|rewrite Ft by assumption; exact Hj]. }
  split; [|split; [exact Hnew'|split; [rewrite Fi; reflexivity|split; [exact Ft|split; [|split; [exact Hmono|]]]]]].
  - intros b Hb Hfb. destruct (Z.eq_dec b i) as [->|Hne]; [rewrite Fi in Hfb; discriminate|].
    rewrite Ft in * by assumption. destruct (Hold b Hb Hfb) as (Hs1 & p0 & Hp0 & Hb0 & Hw0).
    split; [assumption|]. exists p0. split; [assumption|]. split; [assumption|]. intros q Hq. apply Fw, Hw0. assumption.
  - intros k (b & Hb & Hfb & Hk). destruct (Z.eq_dec b i) as [->|Hne].
    + right. fold key in Hk. rewrite <- Hk. exact Hpres.
    + left. exists b. rewrite Ft by assumption. split; [assumption|split; assumption].
  - split; [unfold OAt; split; [exact Hi|split; [exact Hf|reflexivity]]|]. split; [|exact Hpos].
    intros k b. unfold OAt. destruct (Z.eq_dec b i) as [->|Hne].
    + rewrite Fi. cbn [ost]. split; [intros (_ & G & _); discriminate|intros [_ G]; contradiction].
    + rewrite Ft by assumption. split; [intros G; split; [exact G|exact Hne]|intros [G _]; exact G].
Qed.

Definition omig_post (L newL : Z) (told tnew told' tnew' : otable) : Prop :=
  OTinv L told' /\ OTinv newL tnew' /\
  (forall k, OPresent L told k -> OPresent L told' k \/ OPresent newL tnew' k) /\
  (forall k, OPresent newL tnew k -> OPresent newL tnew' k).

Lemma omigrate_from_spec L newL : 0 <= L -> L < newL <= 63 ->
  forall n told tnew i, 0 <= i -> i + Z.of_nat n <= 2 ^ L -> OTinv L told -> OTinv newL tnew ->
  (forall j, 0 <= j < i -> Gen_One.IsFull (ost (told j)) = false) ->
  match omigrate_from hash n told tnew newL i with
  | Ok (told', tnew') => omig_post L newL told tnew told' tnew' /\
                         (forall j, 0 <= j < i + Z.of_nat n -> Gen_One.IsFull (ost (told' j)) = false)
  | Exn => True
  | _ => False
  end.
Proof.
  intros HL HnL. induction n as [|m IH]; intros told tnew i Hi Hn Hold Hnew Hz.
  - cbn [omigrate_from]. split; [|intros j Hj; apply Hz; lia].
    unfold omig_post. split; [exact Hold|split; [exact Hnew|split; auto]].
  - cbn [omigrate_from]. destruct (Gen_One.IsFull (ost (told i))) eqn:Hf.
    + pose proof (orelocate_item_spec L newL told tnew i HL HnL Hold Hnew ltac:(lia) Hf) as Hstep.
      destruct (orelocate_item hash told tnew newL i) as [[told1 tnew1]| | |]; try exact Hstep.
      destruct Hstep as (Ho1 & Hn1 & Hc1 & Hfr1 & Hp1 & Hm1 & _).
      assert (Hz1 : forall j, 0 <= j < i + 1 -> Gen_One.IsFull (ost (told1 j)) = false).
      { intros j Hj. destruct (Z.eq_dec j i) as [->|]; [assumption|]. rewrite Hfr1 by assumption. apply Hz. lia. }
      specialize (IH told1 tnew1 (i + 1) ltac:(lia) ltac:(lia) Ho1 Hn1 Hz1).
      destruct (omigrate_from hash m told1 tnew1 newL (i + 1)) as [[told2 tnew2]| | |]; try exact IH.
      destruct IH as ((Ho2 & Hn2 & Hp2 & Hm2) & Hz2).
      split.
      * unfold omig_post. split; [exact Ho2|split; [exact Hn2|split]].
        -- intros k Hk. destruct (Hp1 k Hk) as [G|G]; [apply Hp2; assumption|right; apply Hm2; assumption].
        -- intros k Hk. apply Hm2, Hm1. assumption.
      * intros j Hj. apply Hz2. lia.
    + assert (Hz1 : forall j, 0 <= j < i + 1 -> Gen_One.IsFull (ost (told j)) = false).
      { intros j Hj. destruct (Z.eq_dec j i) as [->|]; [assumption|]. apply Hz. lia. }
      specialize (IH told tnew (i + 1) ltac:(lia) ltac:(lia) Hold Hnew Hz1).
      destruct (omigrate_from hash m told tnew newL (i + 1)) as [[told2 tnew2]| | |]; try exact IH.
      destruct IH as (Hpost & Hz2). split; [exact Hpost|]. intros j Hj. apply Hz2. lia.
Qed.

Lemma opresent_found L t k : 0 <= L <= 63 -> OTinv L t -> OPresent L t k -> OFound L t k.
Proof.
  intros HL Hinv (b & Hb & Hf & Hk). destruct (Hinv b Hb Hf) as (Hs & p & Hp & Hbp & Hw). rewrite Hk in *.
  exists p. rewrite <- Hbp.
  assert (Hmp : Gen_Base.GetMaxProbe L = 2 ^ L - 1).
  { unfold Gen_Base.GetMaxProbe. rewrite shl1_pow2 by lia. assert (0 < 2 ^ L) by (apply pow2_pos; lia).
    assert (2 ^ L <= 2 ^ 63) by (apply pow2_le_mono; lia).
    rewrite (wrapU_small 64 (2 ^ L)) by (change (2 ^ 64) with (2 * 2 ^ 63); lia).
    apply wrapU_small. change (2 ^ 64) with (2 * 2 ^ 63). lia. }
  rewrite Hmp. split; [lia|]. split; [lia|]. split; [assumption|]. split; assumption.
Qed.

(* element_found_after_growth, BucketOne *)
Theorem omigrate_found L newL told : 0 <= L -> L < newL <= 63 -> OTinv L told ->
  match omigrate hash told L newL with
  | Ok (_, tnew) => OTinv newL tnew /\ (forall k, OPresent L told k -> OFound newL tnew k)
  | Exn => True
  | _ => False
  end.
Proof.
  intros HL HnL Hold. unfold omigrate. assert (Hpos : 0 < 2 ^ L) by (apply pow2_pos; lia).
  pose proof (omigrate_from_spec L newL HL HnL (Z.to_nat (2 ^ L)) told oempty_table 0 ltac:(lia) ltac:(lia) Hold (oempty_inv newL)
              ltac:(intros; lia)) as Hm.
  destruct (omigrate_from hash (Z.to_nat (2 ^ L)) told oempty_table newL 0) as [[told' tnew']| | |]; try exact Hm.
  destruct Hm as ((Ho & Hn & Hp & _) & Hz). split; [assumption|].
  intros k Hk. apply opresent_found; [lia|assumption|].
  destruct (Hp k Hk) as [(b & Hb & Hf & _)|G]; [exfalso|assumption].
  rewrite Hz in Hf by lia. discriminate.
Qed.

Lemma oinsert_all_inv L : 0 <= L <= 63 -> forall keys t, OTinv L t ->
  match oinsert_all hash t L keys with
  | Ok t' => OTinv L t' /\ (forall k, OPresent L t k -> OPresent L t' k) /\ (forall k, In k keys -> OPresent L t' k)
  | Exn => True
  | _ => False
  end.
Proof.
  intros HL. induction keys as [|k r IH]; intros t Ht; cbn [oinsert_all].
  - split; [assumption|]. split; [auto|intros k []].
  - pose proof (oadd_nogrow_spec L t (hash k) k HL Ht eq_refl eq_refl) as Ha.
    destruct (oadd_nogrow t L (hash k) k) as [t1| | |]; try exact Ha.
    destruct Ha as (Ht1 & Hp1 & Hm1 & _). specialize (IH t1 Ht1).
    destruct (oinsert_all hash t1 L r) as [t2| | |]; try exact IH.
    destruct IH as (Ht2 & Hm2 & Hin). split; [assumption|]. split.
    + intros k0 Hk0. apply Hm2, Hm1. assumption.
    + intros k0 [<-|Hr]; [apply Hm2; assumption|apply Hin; assumption].
Qed.

(* ---- round 5: every key is in EXACTLY one generation (BucketOne); the loop may stop after any number n of buckets ---- *)
Definition OUniq (L : Z) (t : otable) : Prop := forall k b b', OAt L t k b -> OAt L t k b' -> b = b'.
Definition OSep (L newL : Z) (told tnew : otable) : Prop :=
  OUniq L told /\ OUniq newL tnew /\ forall k, ~ (OPresent L told k /\ OPresent newL tnew k).
Definition OGood (L newL : Z) (told tnew : otable) : Prop := OTinv L told /\ OTinv newL tnew /\ OSep L newL told tnew.

Lemma orelocate_good L newL told tnew i told' tnew' : 0 <= L -> L < newL <= 63 -> 0 <= i < 2 ^ L ->
  Gen_One.IsFull (ost (told i)) = true -> OGood L newL told tnew ->
  orelocate_item hash told tnew newL i = Ok (told', tnew') -> OGood L newL told' tnew'.
Proof.
  intros HL HnL Hi Hf (Hold & Hnew & Huo & Hun & Hdis) Heq.
  pose proof (orelocate_item_spec L newL told tnew i HL HnL Hold Hnew Hi Hf) as Hs. rewrite Heq in Hs.
  destruct Hs as (Ho' & Hn' & _ & _ & _ & _ & Hat & Hpo & (b0 & Hfree & Hpn)).
  set (key := oky (told i)) in *.
  split; [exact Ho'|]. split; [exact Hn'|]. split; [|split].
  - intros k b b' H1 H2. apply Hpo in H1. apply Hpo in H2. apply (Huo k); [apply H1|apply H2].
  - intros k b b' H1 H2. apply Hpn in H1. apply Hpn in H2.
    destruct H1 as [H1|(E1 & -> & _)], H2 as [H2|(E2 & -> & _)].
    + apply (Hun k); assumption.
    + exfalso. subst k. apply (Hdis key). split; [exists i; exact Hat|exists b; exact H1].
    + exfalso. subst k. apply (Hdis key). split; [exists i; exact Hat|exists b'; exact H2].
    + reflexivity.
  - intros k [(b & H1) (b' & H2)]. apply Hpo in H1. destruct H1 as [H1 Hne]. apply Hpn in H2.
    destruct H2 as [H2|(E & _)].
    + apply (Hdis k). split; [exists b; exact H1|exists b'; exact H2].
    + subst k. apply Hne. apply (Huo key b i H1 Hat).
Qed.

Theorem omigrate_from_exactly_one L newL : 0 <= L -> L < newL <= 63 ->
  forall n told tnew i, 0 <= i -> i + Z.of_nat n <= 2 ^ L -> OGood L newL told tnew ->
  match omigrate_from hash n told tnew newL i with
  | Ok (told', tnew') =>
      OGood L newL told' tnew' /\
      (forall k, OPresent L told k \/ OPresent newL tnew k ->
         (OPresent L told' k \/ OPresent newL tnew' k) /\ ~ (OPresent L told' k /\ OPresent newL tnew' k))
  | Exn => True
  | _ => False
  end.
Proof.
  intros HL HnL. induction n as [|m IH]; intros told tnew i Hi Hn Hg.
  - cbn [omigrate_from]. split; [exact Hg|]. intros k Hk. split; [exact Hk|]. destruct Hg as (_ & _ & _ & _ & Hd). apply Hd.
  - cbn [omigrate_from]. destruct (Gen_One.IsFull (ost (told i))) eqn:Hf.
    + pose proof Hg as (Hold & Hnew & _).
      pose proof (orelocate_item_spec L newL told tnew i HL HnL Hold Hnew ltac:(lia) Hf) as Hstep.
      destruct (orelocate_item hash told tnew newL i) as [[told1 tnew1]| | |] eqn:E; try exact Hstep.
      destruct Hstep as (_ & _ & _ & _ & Hp1 & Hm1 & _).
      pose proof (orelocate_good L newL told tnew i told1 tnew1 HL HnL ltac:(lia) Hf Hg E) as Hg1.
      specialize (IH told1 tnew1 (i + 1) ltac:(lia) ltac:(lia) Hg1).
      destruct (omigrate_from hash m told1 tnew1 newL (i + 1)) as [[told2 tnew2]| | |]; try exact IH.
      destruct IH as (Hg2 & Hk2). split; [exact Hg2|]. intros k Hk. apply Hk2.
      destruct Hk as [Hk|Hk]; [apply Hp1; exact Hk|right; apply Hm1; exact Hk].
    + apply IH; [lia|lia|exact Hg].
Qed.
End OneInv.
