// C03 implementation side, part 1: micro-correspondence.  Drives the REAL ObjectManager / Array / HashSet / TreeSet
// code on kit elements and prints the canonical event trace of one mechanism instance; the extracted Coq model
// (ocaml/driver.ml, Effects.v) prints the same format.   Case lines (k = index of the failing fallible step, -1 = none):
//   om reloc|relocexec|reloccreate|moveexec|copyexec <cat> <count> <k>
//   arr regrow|addback <cat> <count> <cap> <newcap> <k>
//   hs <cat> <n> <k>        HashSet copy constructor (+ destructor)      ts <cat> <n> <k>   TreeSet copy constructor
// Output:  <val|exc> <trace tokens...> ! <live blocks> <live objs> <#kit errors>
// Tokens: C<dst>.<src> copy  M<dst>.<src> move  X<obj> destroy  A<blk>.<size> / D<blk>.<size>  F failure; objects and
// blocks are renamed in order of first appearance inside the window; for hs/ts the sizes are omitted and runs of
// consecutive X tokens are sorted (bucket order vs insertion order is not part of the resource model).
#include "private_access.h"
#include "kit.h"
#include "momo/Array.h"
#include "momo/HashSet.h"
#include "momo/TreeSet.h"
#include "momo/MemPool.h"
#include "momo/SegmentedArray.h"
#include "momo/stdish/vector.h"
// compiled twice to keep each compilation short: -DC03_TIE_PART=1 (om/arr/hs/ts/crew) and =2 (dt/hmm)
#if !defined(C03_TIE_PART) || C03_TIE_PART == 2
#include "momo/HashMultiMap.h"
#include "momo/DataTable.h"
#endif
using namespace momo;
typedef unsigned long long ull;

struct PlainHash { template<class T> size_t operator()(const T& t) const { return size_t(t.Value()); } };
struct PlainEq { template<class A, class B> bool operator()(const A& a, const B& b) const { return a.Value() == b.Value(); } };
struct PlainLess { template<class A, class B> bool operator()(const A& a, const B& b) const { return a.Value() < b.Value(); } };

static std::string canon(bool sizes, bool sortX, bool blocks = true, bool sortD = false)
{
	kit::World& w = kit::W();
	std::map<ull, ull> os, bs;
	auto O = [&](ull x) { auto it = os.find(x); if (it != os.end()) return it->second; ull n = os.size(); return os[x] = n; };
	auto B = [&](ull x) { auto it = bs.find(x); if (it != bs.end()) return it->second; ull n = bs.size(); return bs[x] = n; };
	std::vector<std::string> toks;
	std::vector<ull> xrun, drun;
	auto flushD = [&]() { std::sort(drun.begin(), drun.end()); for (ull x : drun) toks.push_back("D" + std::to_string(x)); drun.clear(); };
	auto flush = [&]() { if (sortX) std::sort(xrun.begin(), xrun.end()); for (ull x : xrun) toks.push_back("X" + std::to_string(x)); xrun.clear(); };
	for (auto& e : w.elog)
	{
		if (e.kind == 'U') continue;
		if (e.kind == 'X') { xrun.push_back(O(e.a)); continue; }
		if ((e.kind == 'A' || e.kind == 'D') && !blocks) continue;
		if (e.kind == 'D' && sortD) { drun.push_back(B(e.b)); continue; }      // a tear-down: all X first, then all D, each sorted
		flush(); flushD();
		switch (e.kind)
		{
		case 'N': toks.push_back("N" + std::to_string(O(e.a))); break;
		case 'C': { ull s = O(e.b); ull d = O(e.a); toks.push_back("C" + std::to_string(d) + "." + std::to_string(s)); break; }
		case 'M': { ull s = O(e.b); ull d = O(e.a); toks.push_back("M" + std::to_string(d) + "." + std::to_string(s)); break; }
		case 'A': toks.push_back("A" + std::to_string(B(e.b)) + (sizes ? "." + std::to_string(e.c) : "")); break;
		case 'D': toks.push_back("D" + std::to_string(B(e.b)) + (sizes ? "." + std::to_string(e.c) : "")); break;
		case 'F': toks.push_back("F"); break;
		}
	}
	flush(); flushD();
	std::string r;
	for (auto& t : toks) r += " " + t;
	return r;
}

static void window_begin(long k) { kit::World& w = kit::W(); w.elog_reset(); w.elogging = true; w.arm_step(k); }
static void window_end() { kit::World& w = kit::W(); w.disarm(); w.elogging = false; }

#if !defined(C03_TIE_PART) || C03_TIE_PART == 1
template<class E> static void run_om(const std::string& mech, size_t count, long k)
{
	typedef internal::ObjectManager<E, kit::MM> OM;
	kit::MM mm(1);
	std::vector<E*> keep;
	E* src = static_cast<E*>(std::malloc(sizeof(E) * (count + 2)));
	E* dst = static_cast<E*>(std::malloc(sizeof(E) * (count + 2)));
	std::vector<bool> srcLive(count + 2, false), dstLive(count + 2, false);
	size_t nsrc = (mech == "moveexec" || mech == "copyexec") ? 1 : count;
	for (size_t i = 0; i < nsrc; ++i) { ::new (static_cast<void*>(src + i)) E(int64_t(100 + i)); srcLive[i] = true; }
	E arg(int64_t(7));
	bool thrown = false;
	auto nop = []() { kit::W().step_func(); };
	window_begin(k);
	try
	{
		if (mech == "reloc") OM::Relocate(mm, src, dst, count);
		else if (mech == "relocexec") OM::RelocateExec(mm, src, dst, count, nop);
		else if (mech == "reloccreate")
			OM::RelocateCreate(mm, src, dst, count, typename OM::template Creator<const E&>(mm, arg), dst + count);
		else if (mech == "moveexec") OM::MoveExec(mm, std::move(src[0]), dst, nop);
		else if (mech == "copyexec") OM::CopyExec(mm, src[0], dst, nop);
	}
	catch (const std::exception&) { thrown = true; }
	window_end();
	std::string tr = canon(true, false);
	// clean up whatever is live according to the kit registry (the oracle for "exactly these are live" is the summary below)
	for (size_t i = 0; i < count + 2; ++i)
	{
		if (kit::W().objs.count(src + i)) src[i].~E();
		if (kit::W().objs.count(dst + i)) dst[i].~E();
	}
	std::free(src); std::free(dst);
	printf("%s%s", thrown ? "exc" : "val", tr.c_str());
}

template<class E> static void run_arr(const std::string& op, size_t count, size_t cap, size_t newcap, long k)
{
	typedef Array<E, kit::MM, ArrayItemTraits<E, kit::MM>, ArraySettings<0, false>> Arr;
	bool thrown = false;
	E arg(int64_t(7));
	{
		Arr a{kit::MM(1)};
		if (cap > 0) a.Reserve(cap);
		for (size_t i = 0; i < count; ++i) a.AddBack(E(int64_t(100 + i)));
		if (a.GetCapacity() != cap) { printf("bad-setup cap=%llu", ull(a.GetCapacity())); return; }
		window_begin(k);
		try
		{
			if (op == "regrow") { if (newcap > cap) a.Reserve(newcap); else a.Shrink(newcap); }
			else a.AddBack(static_cast<const E&>(arg));
		}
		catch (const std::exception&) { thrown = true; }
		kit::W().disarm();
		if (!thrown && a.GetCapacity() != newcap) { window_end(); printf("bad-newcap cap=%llu", ull(a.GetCapacity())); return; }
	}	// ~Array inside the window
	window_end();
	printf("%s%s", thrown ? "exc" : "val", canon(true, false).c_str());
}

template<class E> static void run_hs(size_t n, long k)
{
	typedef HashSet<E, HashTraitsStd<E, PlainHash, PlainEq, HashBucketOpenDefault>, kit::MM> HS;
	bool thrown = false;
	{
		HS src(typename HS::HashTraits(), kit::MM(1));
		for (size_t i = 0; i < n; ++i) src.Insert(E(int64_t(100 + i)));
		window_begin(k);
		try { HS copy(src, kit::MM(1)); kit::W().disarm(); }
		catch (const std::exception&) { thrown = true; }
		window_end();
	}
	printf("%s%s", thrown ? "exc" : "val", canon(false, true).c_str());
}

template<class E> static void run_ts(size_t n, long k)
{
	typedef TreeSet<E, TreeTraitsStd<E, PlainLess>, kit::MM> TS;
	bool thrown = false;
	{
		TS src(typename TS::TreeTraits(), kit::MM(1));
		for (size_t i = 0; i < n; ++i) src.Insert(E(int64_t(100 + i)));
		window_begin(k);
		try { TS copy(src, kit::MM(1)); kit::W().disarm(); }
		catch (const std::exception&) { thrown = true; }
		window_end();
	}
	printf("%s%s", thrown ? "exc" : "val", canon(false, true).c_str());
}

// crews / node params: { TS dst; { TS src; src gets items; src.MergeTo(dst); } dst gets more items; }
static void run_crew(size_t k, size_t m, long fail)
{
	typedef TreeSet<int, TreeTraits<int>, kit::MM> TS;
	bool thrown = false;
	window_begin(fail);
	try
	{
		TS dst(TS::TreeTraits(), kit::MM(1));
		{
			TS src(TS::TreeTraits(), kit::MM(1));
			for (size_t i = 0; i < k * 3; ++i) src.Insert(int(i));          // k = 1: one leaf node (capacity 4)
			src.MergeTo(dst);
		}
		for (size_t i = 0; i < m * 40; ++i) dst.Insert(int(100 + i));            // m = 1: the leaf outgrows its pool: one more buffer
		kit::W().disarm();
	}
	catch (const std::exception&) { thrown = true; }
	window_end();
	printf("%s%s", thrown ? "exc" : "val", canon(false, false, true, true).c_str());
}

// two pools with 2 blocks per buffer: A takes a buffers, B takes b buffers, A.MergeFrom(B), everything is returned
static void run_pools(size_t a, size_t b, long fail)
{
	typedef MemPool<MemPoolParams<2, 0>, kit::MM> Pool;
	bool thrown = false;
	window_begin(fail);
	{
		Pool A(MemPoolParams<2, 0>(24), kit::MM(1));
		std::vector<void*> ba, bb;
		{
			Pool B(MemPoolParams<2, 0>(24), kit::MM(1));
			bool merged = false;
			try
			{
				// take blocks until the pool has asked the memory manager for exactly a (resp. b) buffers
				uint64_t base = kit::W().steps_any;
				while (kit::W().steps_any - base < a) ba.push_back(A.Allocate<void>());
				base = kit::W().steps_any;
				while (kit::W().steps_any - base < b) bb.push_back(B.Allocate<void>());
				A.MergeFrom(B); merged = true;
			}
			catch (const std::exception&) { thrown = true; }
			kit::W().disarm();
			if (!merged) for (void* p : bb) B.Deallocate(p); else for (void* p : bb) A.Deallocate(p);
		}
		for (void* p : ba) A.Deallocate(p);
	}
	window_end();
	printf("%s%s", thrown ? "exc" : "val", canon(false, false, true, true).c_str());
}

// SegmentedArray(begin, end, memManager) with 4 items per segment, the c-th element copy failing; then the destructors
static void run_sa(size_t n, long c)
{
	typedef kit::ElemNtm E;
	typedef SegmentedArray<E, kit::MM, SegmentedArrayItemTraits<E, kit::MM>,
		SegmentedArraySettings<SegmentedArrayItemCountFunc::cnst, 2>> SA;
	bool thrown = false;
	{
		std::vector<E> srcv; srcv.reserve(n);
		for (size_t i = 0; i < n; ++i) srcv.emplace_back(int64_t(100 + i));
		kit::W().elog_reset(); kit::W().elogging = true; kit::W().arm(-1, c, -1);
		try { SA a(srcv.begin(), srcv.end(), kit::MM(1)); kit::W().disarm(); }
		catch (const std::exception&) { thrown = true; }
		window_end();
	}
	printf("%s%s", thrown ? "exc" : "val", canon(false, true, false).c_str());
}

// SegmentedArray(begin, end, memManager) with 4 items per segment INCLUDING its pointer array: block and element events, sizes,
// the k-th fallible step (allocation of a segment, allocation of a pointer array, element copy) failing
static void run_sa2(size_t n, long k)
{
	typedef kit::ElemNtm E;
	typedef SegmentedArray<E, kit::MM, SegmentedArrayItemTraits<E, kit::MM>,
		SegmentedArraySettings<SegmentedArrayItemCountFunc::cnst, 2>> SA;
	bool thrown = false;
	{
		std::vector<E> srcv; srcv.reserve(n);
		for (size_t i = 0; i < n; ++i) srcv.emplace_back(int64_t(100 + i));
		window_begin(k);
		try { SA a(srcv.begin(), srcv.end(), kit::MM(1)); kit::W().disarm(); }
		catch (const std::exception&) { thrown = true; }
		window_end();
	}
	printf("%s%s", thrown ? "exc" : "val", canon(true, true, true, true).c_str());
}

// two real pools with a free-block cache, driven by a script: a<p> Allocate on pool p, d<p>.<k> Deallocate the k-th block the
// harness holds for pool p, m<p> pool p .MergeFrom(the other), x<p> DeallocateAll; the f-th buffer allocation fails.
// Output per operation: the buffers taken from / returned to the memory manager (block level), after a merge the cached-block
// count and the emptiness of the source's buffer list (private state); at the end every block is returned and the pools die
template<size_t C, size_t CF> static void run_pc(const std::string& script, long f)
{
	typedef MemPool<MemPoolParams<C, CF>, kit::MM> Pool;
	std::string out;
	std::map<ull, ull> ren;
	auto B = [&](ull x) { auto it = ren.find(x); if (it != ren.end()) return it->second; ull n = ren.size(); return ren[x] = n; };
	size_t seen = 0;
	auto drain = [&]() { kit::World& w = kit::W(); for (; seen < w.elog.size(); ++seen) { auto& e = w.elog[seen];
		if (e.kind == 'A') out += " A" + std::to_string(B(e.b)); else if (e.kind == 'D') out += " D" + std::to_string(B(e.b)); else if (e.kind == 'F') out += " F"; } };
	kit::W().elog_reset(); kit::W().elogging = true; kit::W().arm(f, -1, -1);
	{
		Pool pool[2] = { Pool(MemPoolParams<C, CF>(24), kit::MM(1)), Pool(MemPoolParams<C, CF>(24), kit::MM(1)) };
		std::vector<void*> held[2];
		std::istringstream is(script); std::string tok;
		while (std::getline(is, tok, ','))
		{
			if (tok.empty()) continue;
			int p = tok[1] - '0';
			out += " |";
			if (tok[0] == 'a') { try { held[p].push_back(pool[p].template Allocate<void>()); } catch (const std::exception&) {} }
			else if (tok[0] == 'd') { size_t k = size_t(std::atoi(tok.c_str() + 3)); if (k < held[p].size()) { pool[p].Deallocate(held[p][k]); held[p].erase(held[p].begin() + k); } }
			else if (tok[0] == 'm') { pool[p].MergeFrom(pool[1 - p]); for (void* b : held[1 - p]) held[p].push_back(b); held[1 - p].clear(); }
			else if (tok[0] == 'x') { pool[p].DeallocateAll(); held[p].clear(); }
			drain();
			if (tok[0] == 'm') out += " [c" + std::to_string(pool[1 - p].mCachedCount) + "b" + (pool[1 - p].mFreeBufferHead == nullptr ? "0" : "1") + "]";
		}
		kit::W().disarm();
		out += " |";
		for (int p = 0; p < 2; ++p) { for (void* b : held[p]) pool[p].Deallocate(b); held[p].clear(); }
		drain();
	}
	out += " |"; drain();
	window_end();
	printf("pc%s", out.c_str());
}

// stdish::vector move construction with an UNEQUAL allocator (element-wise migration), then both destructors; the k-th fallible
// step fails.  Output: the multiset of (allocator id, alloc / dealloc) events and the numbers of moves, copies and destructions
static void run_migv(size_t n, long k)
{
	typedef kit::ElemNtm E; typedef kit::StdAlloc<E> A; typedef stdish::vector<E, A> V;
	bool thrown = false;
	std::map<std::string, size_t> cnt;
	{
		V src{A(1)};
		for (size_t i = 0; i < n; ++i) src.push_back(E(int64_t(100 + i)));
		src.shrink_to_fit();
		window_begin(k);
		try { V dst(std::move(src), A(2)); kit::W().disarm(); }
		catch (const std::exception&) { thrown = true; }
		kit::W().disarm();
	}	// ~src inside the window
	window_end();
	for (auto& e : kit::W().elog)
	{
		if (e.kind == 'A' || e.kind == 'D') ++cnt[std::string(1, e.kind) + std::to_string(e.a)];
		else if (e.kind == 'M' || e.kind == 'X' || e.kind == 'C' || e.kind == 'F') ++cnt[std::string(1, e.kind)];
	}
	printf("%s", thrown ? "exc" : "val");
	for (auto& c : cnt) printf(" %s:%zu", c.first.c_str(), c.second);
}

// HashSet growth: n insertions; prints for every insertion whether a new generation of buckets was created (probe), or
// (flags given) the sequence of element event KINDS with the c-th element copy failing
template<class E> static void run_grow(const std::string& flags, size_t n, long c, bool probe)
{
	typedef HashSet<E, HashTraitsStd<E, PlainHash, PlainEq, HashBucketOpenDefault>, kit::MM> HS;
	std::string seen, kinds;
	{
		std::vector<E> srcv; srcv.reserve(n);
		for (size_t i = 0; i < n; ++i) srcv.emplace_back(int64_t(100 + i));
		kit::W().elog_reset(); kit::W().elogging = true; kit::W().arm(-1, c, -1);
		{
			HS hs(typename HS::HashTraits(), kit::MM(1));
			for (size_t i = 0; i < n; ++i)
			{
				void* before = hs.mBuckets;
				try { hs.Insert(srcv[i]); } catch (const std::exception&) {}
				seen += (i > 0 && hs.mBuckets != before) ? '1' : '0';
			}
			kit::W().disarm();
		}
		window_end();
	}
	if (probe) { printf("%s", seen.c_str()); return; }
	if (seen != flags) { printf("bad-shape %s", seen.c_str()); return; }
	for (auto& e : kit::W().elog) if (e.kind == 'C' || e.kind == 'M' || e.kind == 'X' || e.kind == 'F') { kinds += ' '; kinds += e.kind; }
	printf("kinds%s", kinds.c_str());
}
// the FIRST insertion into a HashSet that has no bucket array, the k-th fallible step failing; then the destructor
template<class E> static void run_hsf(long k)
{
	typedef HashSet<E, HashTraitsStd<E, PlainHash, PlainEq, HashBucketOpenDefault>, kit::MM> HS;
	bool thrown = false;
	E item(int64_t(7));
	window_begin(k);
	try { HS s(typename HS::HashTraits(), kit::MM(1)); s.Insert(item); kit::W().disarm(); }
	catch (const std::exception&) { thrown = true; }
	window_end();
	printf("%s%s", thrown ? "exc" : "val", canon(false, true).c_str());
}

// ONE insertion through TreeSet::Relocator at block level: TreeNode<4, 1> with one block per pool buffer and no cache (every node is a
// block of kit::MM), 16 ascending keys (height 2, full rightmost leaf and full root), then the 17th: leaf split, root split, new root =
// 5 nodes, the 5th makes mNewNodes (NestedArrayIntCap<4, Node*>) take a heap block.  Only block events and the failure marker are
// compared (the items' relocation is ObjectManager::RelocateCreate, tied by "om"); the registry summary is taken after ~TreeSet.
static void run_rel(long k)
{
	typedef kit::ElemNtm E;
	typedef TreeSet<E, TreeTraits<E, false, TreeNode<4, 1, MemPoolParams<1, 0>>>, kit::MM> TS;
	std::vector<E> pool; pool.reserve(20);
	for (size_t i = 0; i < 17; ++i) pool.emplace_back(int64_t(i));
	bool thrown = false;
	std::string tr;
	{
		TS s(TS::TreeTraits(), kit::MM(1));
		for (size_t i = 0; i < 16; ++i) s.Insert(pool[i]);
		window_begin(k);
		try { s.Insert(pool[16]); }
		catch (const std::exception&) { thrown = true; }
		window_end();
		auto& el = kit::W().elog;
		el.erase(std::remove_if(el.begin(), el.end(), [](const kit::World::Ev& e) { return e.kind != 'A' && e.kind != 'D' && e.kind != 'F'; }), el.end());
		tr = canon(true, false, true, true);
	}
	printf("%s%s", thrown ? "exc" : "val", tr.c_str());
}

// TreeSet copy constructor on whatever tree n ascending keys produce with TreeNode<4,2> (depth grows with n).
// "tsnprobe n" prints the shape in preorder:  items[(child,child,...)] ;  "tsn n shape j": the j-th element copy fails
template<class Node> static std::string shape_of(Node* node)
{
	std::string r = std::to_string(node->GetCount());
	if (!node->IsLeaf())
	{
		r += "(";
		for (size_t i = 0; i <= node->GetCount(); ++i) { if (i > 0) r += ","; r += shape_of(node->GetChild(i)); }
		r += ")";
	}
	return r;
}
static void run_tsn(size_t n, const std::string& shape, long j, bool probe)
{
	typedef kit::ElemNtm E;
	typedef TreeSet<E, TreeTraitsStd<E, PlainLess, false, TreeNode<4, 2>>, kit::MM> TS;
	bool thrown = false;
	{
		TS src(TS::TreeTraits(), kit::MM(1));
		for (size_t i = 0; i < n; ++i) src.Insert(E(int64_t(100 + i)));
		std::string real = (n == 0) ? std::string("-") : shape_of(src.mRootNode);
		if (probe) { printf("%s", real.c_str()); return; }
		if (real != shape) { printf("bad-shape %s", real.c_str()); return; }
		kit::W().elog_reset(); kit::W().elogging = true; kit::W().arm(-1, j, -1);
		try { TS copy(src, kit::MM(1)); kit::W().disarm(); }
		catch (const std::exception&) { thrown = true; }
		window_end();
	}
	printf("%s%s", thrown ? "exc" : "val", canon(false, true, false).c_str());
}

// HashSet growth with the growth points left to the real capacity policy: n insertions, the c-th element copy fails (any c)
template<class E> static void run_growa(size_t n, long c)
{
	typedef HashSet<E, HashTraitsStd<E, PlainHash, PlainEq, HashBucketOpenDefault>, kit::MM> HS;
	std::string kinds;
	{
		std::vector<E> srcv; srcv.reserve(n);
		for (size_t i = 0; i < n; ++i) srcv.emplace_back(int64_t(100 + i));
		kit::W().elog_reset(); kit::W().elogging = true; kit::W().arm(-1, c, -1);
		{
			HS hs(typename HS::HashTraits(), kit::MM(1));
			for (size_t i = 0; i < n; ++i) { try { hs.Insert(srcv[i]); } catch (const std::exception&) {} }
			kit::W().disarm();
		}
		window_end();
	}
	for (auto& e : kit::W().elog) if (e.kind == 'C' || e.kind == 'M' || e.kind == 'X' || e.kind == 'F') { kinds += ' '; kinds += e.kind; }
	printf("kinds%s", kinds.c_str());
}
#endif

#if !defined(C03_TIE_PART) || C03_TIE_PART == 2
namespace dtt
{
	struct Row { kit::ElemNtm a; kit::ElemNtm b; };
	MOMO_DATA_COLUMN_STRUCT(Row, a);
	MOMO_DATA_COLUMN_STRUCT(Row, b);
	typedef DataColumnList<DataColumnTraits<Row>, kit::MM> ColumnList;
	typedef DataTable<ColumnList> Table;
}
// DataTable(const DataTable&) with the c-th element copy failing, then the destructors
static void run_dt(size_t n, long c)
{
	using namespace dtt;
	bool thrown = false;
	{
		ColumnList cl{kit::MM(1)}; cl.Add(a, b);
		Table t(std::move(cl));
		for (size_t i = 0; i < n; ++i) { auto r = t.NewRow(); r[a] = kit::ElemNtm(int64_t(10 + i)); r[b] = kit::ElemNtm(int64_t(20 + i)); t.Add(std::move(r)); }
		kit::W().elog_reset(); kit::W().elogging = true; kit::W().arm(-1, c, -1);
		try { Table copy(t); kit::W().disarm(); }
		catch (const std::exception&) { thrown = true; }
		window_end();
	}
	printf("%s%s", thrown ? "exc" : "val", canon(false, true, false).c_str());
}
// DataTable crew: n = NewRow (held by a Row object), a = Add(newest held row), e = Extract(first stored row), r = the newest held
// Row object dies (its raw is pushed on the crew's free-raw stack).  After every operation the granularity the real code exposes
// is printed: pool allocate count, length of the free-raw stack, number of stored rows
static void run_dtc(const std::string& script)
{
	struct R1 { int id; };
	typedef DataColumnList<DataColumnTraits<dtt::Row>, kit::MM> CL;
	dtt::ColumnList cl{kit::MM(1)}; cl.Add(dtt::a, dtt::b);
	dtt::Table t(std::move(cl));
	std::vector<dtt::Table::Row> held;
	std::string out;
	for (char op : script)
	{
		if (op == 'n') held.push_back(t.NewRow());
		else if (op == 'a') { if (!held.empty()) { t.Add(std::move(held.back())); held.pop_back(); } }
		else if (op == 'e') { if (t.GetCount() > 0) held.push_back(t.Extract(0)); }
		else if (op == 'r') { if (!held.empty()) held.pop_back(); }
		size_t fr = 0;
		for (void* raw = t.mCrew.GetFreeRaws().load(); raw != nullptr; raw = internal::MemCopyer::FromBuffer<void*>(raw)) ++fr;
		out += " " + std::to_string(t.mRawMemPool.GetAllocateCount()) + "," + std::to_string(fr) + "," + std::to_string(t.GetCount());
	}
	held.clear();
	printf("dtc%s", out.c_str());
}

// HashMultiMap(const HashMultiMap&) with n keys, key i having i % 3 + 1 values, the c-th element copy failing
static void run_hmm(size_t n, long c)
{
	typedef kit::ElemNtm E;
	typedef HashMultiMap<E, E, HashTraitsStd<E, PlainHash, PlainEq>, kit::MM> HMM;
	bool thrown = false;
	{
		HMM m(HMM::HashTraits(), kit::MM(1));
		for (size_t i = 0; i < n; ++i) for (size_t v = 0; v < i % 3 + 1; ++v) m.Add(E(int64_t(i)), E(int64_t(100 * (v + 1) + i)));   // key i: i % 3 + 1 values
		kit::W().elog_reset(); kit::W().elogging = true; kit::W().arm(-1, c, -1);
		try { HMM copy(m); kit::W().disarm(); }
		catch (const std::exception&) { thrown = true; }
		window_end();
	}
	printf("%s%s", thrown ? "exc" : "val", canon(false, true, false).c_str());
}
#endif

int main()
{
	std::string line;
	while (std::getline(std::cin, line))
	{
		std::istringstream is(line); std::string cmd, a, cat; is >> cmd;
		kit::W().errors.clear();
#if !defined(C03_TIE_PART) || C03_TIE_PART == 1
		if (cmd == "om")
		{
			size_t count; long k; is >> a >> cat >> count >> k;
			if (cat == "ntm") run_om<kit::ElemNtm>(a, count, k); else run_om<kit::ElemCpo>(a, count, k);
		}
		else if (cmd == "arr")
		{
			size_t count, cap, newcap; long k; is >> a >> cat >> count >> cap >> newcap >> k;
			if (cat == "ntm") run_arr<kit::ElemNtm>(a, count, cap, newcap, k); else run_arr<kit::ElemCpo>(a, count, cap, newcap, k);
		}
		else if (cmd == "hs")
		{
			size_t n; long k; is >> cat >> n >> k;
			if (cat == "ntm") run_hs<kit::ElemNtm>(n, k); else run_hs<kit::ElemCpo>(n, k);
		}
		else if (cmd == "ts")
		{
			size_t n; long k; is >> cat >> n >> k;
			if (cat == "ntm") run_ts<kit::ElemNtm>(n, k); else run_ts<kit::ElemCpo>(n, k);
		}
		else if (cmd == "crew") { size_t k, m; long f; is >> k >> m >> f; run_crew(k, m, f); }
		else if (cmd == "pools") { size_t a2, b2; long f; is >> a2 >> b2 >> f; run_pools(a2, b2, f); }
		else if (cmd == "hsf") { long k; is >> cat >> k; if (cat == "ntm") run_hsf<kit::ElemNtm>(k); else run_hsf<kit::ElemCpo>(k); }
		else if (cmd == "rel") { long k; is >> k; run_rel(k); }
		else if (cmd == "tsnprobe") { size_t n; is >> n; run_tsn(n, "", -1, true); }
		else if (cmd == "tsn") { size_t n; std::string shape; long j; is >> n >> shape >> j; run_tsn(n, shape, j, false); }
		else if (cmd == "growa") { size_t n; long c; is >> cat >> n >> c; if (cat == "ntm") run_growa<kit::ElemNtm>(n, c); else run_growa<kit::ElemCpo>(n, c); }
		else if (cmd == "pc")
		{
			std::string cfg, sc; long f; is >> cfg >> sc >> f;
			if (cfg == "2.0") run_pc<2, 0>(sc, f); else if (cfg == "4.3") run_pc<4, 3>(sc, f); else if (cfg == "3.2") run_pc<3, 2>(sc, f); else run_pc<8, 16>(sc, f);
		}
		else if (cmd == "migv") { size_t n; long k; is >> n >> k; run_migv(n, k); }
		else if (cmd == "sa2") { size_t n; long k; is >> n >> k; run_sa2(n, k); }
		else if (cmd == "sa") { size_t n; long c; is >> n >> c; run_sa(n, c); }
		else if (cmd == "growprobe") { size_t n; is >> cat >> n; if (cat == "ntm") run_grow<kit::ElemNtm>("", n, -1, true); else run_grow<kit::ElemCpo>("", n, -1, true); }
		else if (cmd == "grow")
		{
			std::string flags; long c; is >> cat >> flags >> c;
			if (cat == "ntm") run_grow<kit::ElemNtm>(flags, flags.size(), c, false); else run_grow<kit::ElemCpo>(flags, flags.size(), c, false);
		}
		else
#endif
		if (false) {}
#if !defined(C03_TIE_PART) || C03_TIE_PART == 2
		else if (cmd == "dtc") { std::string sc; is >> sc; run_dtc(sc); }
		else if (cmd == "dt") { size_t n; long c; is >> n >> c; run_dt(n, c); }
		else if (cmd == "hmm") { size_t n; long c; is >> n >> c; run_hmm(n, c); }
#endif
		else printf("?");
		printf(" ! %s\n", kit::summary().c_str());
		fflush(stdout);
	}
	return 0;
}
