(* C07 / what DataTable::pvSelect / pvSelectRec do with the index chosen by GetFit*Index (DataTable.h:1428-1500).
   pvSelectRec walks the equalities in the caller's order: an equality on a column of the chosen index goes into the key
   tuple, any other one is wrapped around the row filter; the final overload is FindRaws(index, tuple) filtered by the
   accumulated row filter.  With no fitting index the rows are scanned with pvIsSatisfied && rowFilter.
   Theorem: on an index state consistent with the rows, for equalities on pairwise different columns (GetSortedOffsets
   MOMO_CHECKs that), the result is a permutation of the brute-force filter of the rows - for the index that the GENERATED
   GetFitUniqueHashIndex / GetFitMultiHashIndex choose (FitSem.v). *)
From Coq Require Import List ZArith Lia Bool Arith PeanoNat Permutation.
From C07 Require Import TableSpec TableProofs MultiHash MultiHashProofs IndexModel IndexProofs RefineProofs FitSem.
Import ListNotations.

Definition eqn := (nat * Z)%type.
Definition holds (ct : Z -> row) (r : Z) (e : eqn) : bool := Z.eqb (getc (ct r) (fst e)) (snd e).
Definition sat_eqs (ct : Z -> row) (eqs : list eqn) (r : Z) : bool := forallb (holds ct r) eqs.

(* pvSelectRec *)
Fixpoint select_rec (ct : Z -> row) (cols : list nat) (eqs : list eqn) (f : Z -> bool) (tuple : list eqn) : list eqn * (Z -> bool) :=
  match eqs with
  | [] => (tuple, f)
  | e :: eqs' => if has_col cols (fst e) then select_rec ct cols eqs' f (tuple ++ [e])          (* mIndexes.ContainsOffset(index, offset) *)
                 else select_rec ct cols eqs' (fun r => holds ct r e && f r) tuple
  end.

Definition lookup (t : list eqn) (c : nat) : Z :=
  match find (fun e => Nat.eqb (fst e) c) t with Some e => snd e | None => 0%Z end.
(* the hash tuple key compared column by column with the index key of a row *)
Definition key_of (t : list eqn) (cols : list nat) : list Z := map (lookup t) cols.

Definition udescs (s : istate) : list hdesc := map (fun u => (ucols u, 0)) (uhs s).
Definition mdescs (s : istate) : list hdesc := map (fun m => (mcols m, length (mgroups m))) (mhs s).

Definition pv_select (R : list Z -> list Z -> bool) (ct : Z -> row) (s : istate) (rs : list Z) (q : list nat) (eqs : list eqn) (f : Z -> bool) : list Z :=
  match fit_unique (udescs s) q with
  | Some j =>
      match nth_error (uhs s) j with
      | Some u => let '(t, f') := select_rec ct (ucols u) eqs f [] in select_via_unique R ct u (key_of t (ucols u)) f'
      | None => []
      end
  | None =>
      match fit_multi (mdescs s) q with
      | Some j =>
          match nth_error (mhs s) j with
          | Some m => let '(t, f') := select_rec ct (mcols m) eqs f [] in select_via_multi R ct m (key_of t (mcols m)) f'
          | None => []
          end
      | None => select_scan rs (fun r => sat_eqs ct eqs r && f r)                               (* pvIsSatisfied && rowFilter *)
      end
  end.

(* ---------------------------------------------------------------- proofs *)
Lemma select_rec_spec ct cols : forall eqs f tuple,
  let '(t, f') := select_rec ct cols eqs f tuple in
  t = tuple ++ filter (fun e => has_col cols (fst e)) eqs /\
  forall r, f' r = forallb (holds ct r) (filter (fun e => negb (has_col cols (fst e))) eqs) && f r.
Proof.
  induction eqs as [|e eqs IH]; intros f tuple; cbn [select_rec filter].
  - split; [rewrite app_nil_r; reflexivity|]. intros r. reflexivity.
  - destruct (has_col cols (fst e)) eqn:Eh; cbn [negb].
    + specialize (IH f (tuple ++ [e])). destruct (select_rec ct cols eqs f (tuple ++ [e])) as [t f'].
      destruct IH as [Ht Hf]. split; [rewrite Ht, <- app_assoc; reflexivity|exact Hf].
    + specialize (IH (fun r => holds ct r e && f r) tuple). destruct (select_rec ct cols eqs _ tuple) as [t f'].
      destruct IH as [Ht Hf]. split; [exact Ht|]. intros r. rewrite Hf. cbn [forallb].
      destruct (holds ct r e), (forallb (holds ct r) (filter (fun e0 => negb (has_col cols (fst e0))) eqs)), (f r); reflexivity.
Qed.

Lemma forallb_partition {A} (p h : A -> bool) l :
  forallb h l = forallb h (filter p l) && forallb h (filter (fun x => negb (p x)) l).
Proof.
  induction l as [|x l IH]; [reflexivity|]. cbn [forallb filter]. rewrite IH.
  destruct (p x); cbn [negb forallb]; destruct (h x), (forallb h (filter p l)), (forallb h (filter (fun x0 => negb (p x0)) l)); reflexivity.
Qed.

Lemma zlist_eqb_map {A} (g h : A -> Z) l : zlist_eqb (map g l) (map h l) = forallb (fun x => Z.eqb (g x) (h x)) l.
Proof. induction l as [|x l IH]; [reflexivity|]. cbn. rewrite IH. reflexivity. Qed.

Lemma has_col_in cols c : has_col cols c = true <-> In c cols.
Proof.
  unfold has_col. rewrite existsb_exists. split.
  - intros (x & Hx & E). apply Nat.eqb_eq in E. subst. exact Hx.
  - intros H. exists c. split; [exact H|apply Nat.eqb_refl].
Qed.

(* the key lookup in the chosen index says exactly that the equalities on index columns hold *)
Lemma has_key_tuple ct cols eqs r :
  NoDup (map fst eqs) -> incl cols (map fst eqs) ->
  has_key ct cols (key_of (filter (fun e => has_col cols (fst e)) eqs) cols) r =
  forallb (holds ct r) (filter (fun e => has_col cols (fst e)) eqs).
Proof.
  intros Hn Hincl. set (t := filter (fun e => has_col cols (fst e)) eqs).
  unfold has_key, keyc, proj, key_of. rewrite zlist_eqb_map.
  assert (Hnt : NoDup (map fst t)).
  { subst t. clear Hincl. induction eqs as [|e eqs IH]; [constructor|]. cbn [filter]. inversion Hn; subst.
    destruct (has_col cols (fst e)); [|auto]. cbn. constructor; [|auto]. intros Hin. apply H1.
    apply in_map_iff in Hin as (x & Ex & Hx). apply filter_In in Hx as [Hx _]. apply in_map_iff. eauto. }
  assert (Hl : forall e, In e t -> lookup t (fst e) = snd e).
  { intros e He. unfold lookup. destruct (find (fun e0 => Nat.eqb (fst e0) (fst e)) t) as [e1|] eqn:Ef.
    - apply find_some in Ef as [Hin1 E1]. apply Nat.eqb_eq in E1.
      rewrite (NoDup_map_inj fst t e1 e Hnt Hin1 He E1). reflexivity.
    - exfalso. apply (find_none _ _ Ef e) in He. rewrite Nat.eqb_refl in He. discriminate. }
  apply eq_true_iff_eq. rewrite !forallb_forall. split.
  - intros H e He. specialize (Hl e He). assert (Hc : In (fst e) cols).
    { subst t. apply filter_In in He as [_ Hc]. apply has_col_in. exact Hc. }
    specialize (H (fst e) Hc). unfold holds. rewrite <- Hl. exact H.
  - intros H c Hc. destruct (proj1 (in_map_iff fst eqs c) (Hincl c Hc)) as (e & Ec & He). subst c.
    assert (Het : In e t) by (subst t; apply filter_In; split; [exact He|apply has_col_in; exact Hc]).
    rewrite (Hl e Het). exact (H e Het).
Qed.

Lemma rec_decomposes ct cols eqs f r :
  NoDup (map fst eqs) -> incl cols (map fst eqs) ->
  let '(t, f') := select_rec ct cols eqs f [] in
  has_key ct cols (key_of t cols) r && f' r = sat_eqs ct eqs r && f r.
Proof.
  intros Hn Hi. pose proof (select_rec_spec ct cols eqs f []) as H. destruct (select_rec ct cols eqs f []) as [t f'].
  destruct H as [Ht Hf]. cbn [app] in Ht. subst t. rewrite Hf, (has_key_tuple ct cols eqs r Hn Hi).
  unfold sat_eqs. rewrite (forallb_partition (fun e : eqn => has_col cols (fst e)) (holds ct r) eqs). rewrite andb_assoc. reflexivity.
Qed.

(* DataTable::Select / SelectCount with column equalities and a row filter = the brute-force filter of the rows, through
   whichever index the generated GetFit*Index functions choose, or through none *)
Theorem pv_select_is_scan R ct s rs q eqs f :
  (forall k, R k k = true) -> consistent ct rs s ->
  NoDup (map fst eqs) -> (forall c, In c q <-> In c (map fst eqs)) ->
  Permutation (pv_select R ct s rs q eqs f) (filter (fun r => sat_eqs ct eqs r && f r) rs).
Proof.
  intros HR [Hu Hm] Hn Hq. unfold pv_select.
  destruct (fit_unique (udescs s) q) as [j|] eqn:Efu.
  - destruct (fit_unique_covers _ _ _ Efu) as (cols & kc & Hnth & Hincl).
    unfold udescs in Hnth. rewrite nth_error_map in Hnth. destruct (nth_error (uhs s) j) as [u|] eqn:Eu; [|discriminate].
    injection Hnth as <- _. assert (Hi : incl (ucols u) (map fst eqs)) by (intros c Hc; apply Hq, Hincl, Hc).
    pose proof (fun r => rec_decomposes ct (ucols u) eqs f r Hn Hi) as Hd. destruct (select_rec ct (ucols u) eqs f []) as [t f'].
    apply (select_via_unique_is_scan R ct rs u _ f' _ HR).
    + rewrite Forall_forall in Hu. apply Hu. eapply nth_error_In. exact Eu.
    + intros r. symmetry. apply Hd.
  - pose proof (fit_multi_covers (mdescs s) q) as Hc. destruct (fit_multi (mdescs s) q) as [j|]; [|reflexivity].
    destruct Hc as (cols & kc & Hnth & Hincl & _). unfold mdescs in Hnth. rewrite nth_error_map in Hnth.
    destruct (nth_error (mhs s) j) as [m|] eqn:Em; [|discriminate].
    injection Hnth as <- _. assert (Hi : incl (mcols m) (map fst eqs)) by (intros c Hc; apply Hq, Hincl, Hc).
    pose proof (fun r => rec_decomposes ct (mcols m) eqs f r Hn Hi) as Hd. destruct (select_rec ct (mcols m) eqs f []) as [t f'].
    apply (select_via_multi_is_scan R ct rs m _ f' _ HR).
    + rewrite Forall_forall in Hm. apply Hm. eapply nth_error_In. exact Em.
    + intros r. symmetry. apply Hd.
Qed.

(* ================================================================ the DUMPED pvSelect (Gen_Protocol.T_pvSelect) is pv_select
   The statement tree of the pvSelect overload that consults the indexes is executed in its dumped order: which GetFit
   function is asked first, that a non-empty answer returns through pvSelectRec with THAT index, and that the fallback scans
   mRaws with pvIsSatisfied && rowFilter.  pvSelectRec itself (a variadic template recursion) is the hand model select_rec. *)
From Coq Require Import String.
From C07 Require Import ProtoSyntax.
From C07 Require Gen_Protocol.
Local Open Scope string_scope.

Inductive ikind := KU | KM.
Definition senv := string -> option (ikind * option nat).
Definition supd (env : senv) (x : string) (v : ikind * option nat) : senv := fun y => if String.eqb x y then Some v else env y.

Section SelTree.
Variables (R : list Z -> list Z -> bool) (ct : Z -> row) (s : istate) (rs : list Z) (q : list nat) (eqs : list eqn) (f : Z -> bool).

Definition via_index (k : ikind) (j : nat) : list Z :=
  match k with
  | KU => match nth_error (uhs s) j with
          | Some u => let '(t, f') := select_rec ct (ucols u) eqs f [] in select_via_unique R ct u (key_of t (ucols u)) f'
          | None => []
          end
  | KM => match nth_error (mhs s) j with
          | Some m => let '(t, f') := select_rec ct (mcols m) eqs f [] in select_via_multi R ct m (key_of t (mcols m)) f'
          | None => []
          end
  end.

(* scan = has the fallback filter lambda (pvIsSatisfied && rowFilter) been defined, and under which name *)
Fixpoint sel_stmts (b : list pstmt) (env : senv) (scan : option string) : option (list Z) :=
  match b with
  | [] => None
  | st :: b' =>
      match st with
      | SDecl x (ECall _ fn _) =>
          if fn =? "GetFitUniqueHashIndex" then sel_stmts b' (supd env x (KU, fit_unique (udescs s) q)) scan
          else if fn =? "GetFitMultiHashIndex" then sel_stmts b' (supd env x (KM, fit_multi (mdescs s) q)) scan
          else if (fn =? "pvGetOffsets") || (fn =? "GetSortedOffsets") then sel_stmts b' env scan
          else None
      | SIf (EBin op (EVar x) (EVar em)) [SReturn (ECall ENone rc (EVar x' :: _))] [] =>
          if (op =? "!=") && (em =? "empty") && (rc =? "pvSelectRec") && (x =? x') then
            match env x with
            | Some (k, Some j) => Some (via_index k j)
            | Some (_, None) => sel_stmts b' env scan
            | None => None
            end
          else None
      | SLambda nf [SReturn (EBin op (ECall ENone sat _) (ECall (EVar rf) call _))] =>
          if (op =? "&&") && (sat =? "pvIsSatisfied") && (rf =? "rowFilter") && (call =? "()") then sel_stmts b' env (Some nf) else None
      | SReturn (ECall ENone mk [EVar mr; EVar nf; _]) =>
          match scan with
          | Some nf0 => if (mk =? "pvMakeSelection") && (mr =? "mRaws") && (nf =? nf0)
                        then Some (select_scan rs (fun r => sat_eqs ct eqs r && f r)) else None
          | None => None
          end
      | _ => None
      end
  end.

Theorem generated_pvSelect :
  sel_stmts Gen_Protocol.T_pvSelect (fun _ => None) None = Some (pv_select R ct s rs q eqs f).
Proof.
  unfold Gen_Protocol.T_pvSelect, pv_select.
  cbv -[fit_unique fit_multi udescs mdescs via_index select_scan sat_eqs andb].
  destruct (fit_unique (udescs s) q); [reflexivity|]. destruct (fit_multi (mdescs s) q); reflexivity.
Qed.
End SelTree.

(* ================================================================ the DUMPED pvSelectRec (all instantiations) is select_rec
   pvSelectRec is a variadic template recursion: Gen_Protocol.T_pvSelectRec_all holds the statement tree of EVERY instantiated
   overload (per number of remaining equalities, index kind and row-filter type).  step_tree / base_tree give one overload its
   meaning; `all_same_code` shows that every instantiation is accepted by one of the two (so the recursion over an
   equality list of any length may use the first step tree and the first base tree); rec_tree runs the recursion. *)
Section RecTree.
Variables (ct : Z -> row) (cols : list nat).

(* one recursive overload on the equality e: Some (new tuple, new row filter) *)
Definition step_tree (t : list pstmt) (e : eqn) (f : Z -> bool) (tuple : list eqn) : option (list eqn * (Z -> bool)) :=
  match t with
  | [SDecl off (EUn st (EVar offs));
     SIf (ECall (EVar mi) co [EVar ix; EVar off1])
       [SDecl nt (ECall ENone tc [ECall ENone mv [EVar tp]; ECall ENone mt [ECtor _ [EVar off2; ECall (EVar eq1) gi1 []]]]);
        SReturn (ECall ENone rc1 (EVar ix1 :: EBin pl1 (EVar offs1) (ENum 1) :: EVar rf1 :: ECall ENone mv1 [EVar nt1] :: _))]
       [SLambda nrf [SDecl raw (ECall ENone gr [EVar _]); SDecl item (ECall ENone gbo [EVar raw1; EVar off3]);
                     SReturn (EBin an (ECall ENone ise [EVar item1; ECall (EVar eq2) gi2 []]) (ECall (EVar rf2) cl [EVar _]))];
        SReturn (ECall ENone rc2 (EVar ix2 :: EBin pl2 (EVar offs2) (ENum 1) :: EVar nrf1 :: ECall ENone mv2 [EVar tp2] :: _))]] =>
      if (st =? "*") && (offs =? "offsets") && (offs1 =? "offsets") && (offs2 =? "offsets") && (pl1 =? "+") && (pl2 =? "+") &&
         (mi =? "mIndexes") && (co =? "ContainsOffset") && (ix =? "index") && (ix1 =? "index") && (ix2 =? "index") &&
         (off =? off1) && (off =? off2) && (off =? off3) &&
         (tc =? "tuple_cat") && (mv =? "move") && (mv1 =? "move") && (mv2 =? "move") && (mt =? "make_tuple") &&
         (tp =? "tuple") && (tp2 =? "tuple") && (nt =? nt1) && (eq1 =? "equal") && (eq2 =? "equal") && (gi1 =? "GetItem") && (gi2 =? "GetItem") &&
         (rc1 =? "pvSelectRec") && (rc2 =? "pvSelectRec") && (rf1 =? "rowFilter") && (rf2 =? "rowFilter") && (cl =? "()") &&
         (nrf =? nrf1) && (gr =? "GetRaw") && (gbo =? "GetByOffset") && (raw =? raw1) && (item =? item1) && (an =? "&&") && (ise =? "IsEqual")
      then Some (if has_col cols (fst e) then ((tuple ++ [e])%list, f) else (tuple, fun r => holds ct r e && f r))
      else None
  | _ => None
  end.

(* the final overload: pvMakeSelection(mIndexes.FindRaws(index, tuple, version), rowFilter) *)
Definition base_tree (t : list pstmt) : bool :=
  match t with
  | [SReturn (ECall ENone mk [ECall (EVar mi) fr [EVar ix; EVar tp; _]; EVar rf; _])] =>
      (mk =? "pvMakeSelection") && (mi =? "mIndexes") && (fr =? "FindRaws") && (ix =? "index") && (tp =? "tuple") && (rf =? "rowFilter")
  | _ => false
  end.

Fixpoint rec_tree (step base : list pstmt) (eqs : list eqn) (f : Z -> bool) (tuple : list eqn) : option (list eqn * (Z -> bool)) :=
  match eqs with
  | [] => if base_tree base then Some (tuple, f) else None
  | e :: eqs' => match step_tree step e f tuple with Some (t', f') => rec_tree step base eqs' f' t' | None => None end
  end.
End RecTree.

Definition is_step (t : list pstmt) : bool :=
  match step_tree (fun _ => []) [] t (0, 0%Z) (fun _ => true) [] with Some _ => true | None => false end.

(* same code: every instantiated overload of pvSelectRec is a step or the base *)
Lemma all_same_code : forallb (fun t => is_step t || base_tree t) Gen_Protocol.T_pvSelectRec_all = true.
Proof. Timeout 300 vm_compute. reflexivity. Qed.

Definition first_step : list pstmt := match filter is_step Gen_Protocol.T_pvSelectRec_all with t :: _ => t | [] => [] end.
Definition first_base : list pstmt := match filter base_tree Gen_Protocol.T_pvSelectRec_all with t :: _ => t | [] => [] end.

Lemma first_step_spec ct cols e f tuple :
  step_tree ct cols first_step e f tuple =
  Some (if has_col cols (fst e) then ((tuple ++ [e])%list, f) else (tuple, fun r => holds ct r e && f r)).
Proof.
  remember first_step as t eqn:Et. vm_compute in Et. subst t. reflexivity.
Qed.

Lemma first_base_spec : base_tree first_base = true.
Proof. vm_compute. reflexivity. Qed.

(* the recursion over the equalities, run on the dumped overloads, is the hand model select_rec *)
Theorem generated_pvSelectRec ct cols : forall eqs f tuple,
  rec_tree ct cols first_step first_base eqs f tuple = Some (select_rec ct cols eqs f tuple).
Proof.
  induction eqs as [|e eqs IH]; intros f tuple; cbn [rec_tree select_rec].
  - rewrite first_base_spec. reflexivity.
  - rewrite first_step_spec. destruct (has_col cols (fst e)); apply IH.
Qed.
