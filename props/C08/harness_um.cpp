// C08 wrapper harness: momo::stdish::unordered_multimap vs std::unordered_multimap (independent oracle).
//   um <bucket L|O8|O2> <M 7|2|1> <hashmode> <K probes> op op ...
// ops: i,k,v insert   e,k erase(key)   x,k,i erase(iterator to i-th value of k)   q,k erase(equal_range(k))
//      g,k,i,j erase(range [i,j) inside key k)   w erase(begin,end)   f,a,b,m,r erase_if((a*k+b*v)%m==r)
//      c clear   y oth=cur   Y cur=oth   s swap
// record per op: "<ret>;sz=<n> c=<count(0..K-1)> er=<k:sorted values;...> eq=<cur==oth><oth==cur>"
#include "private_access.h"
#include <momo/stdish/unordered_multimap.h>
#include <momo/details/HashBucketLimP4.h>
#include <momo/details/HashBucketOpen8.h>
#include <momo/details/HashBucketOpen2N2.h>

typedef long long i64;
static int g_hashmode = 0;
// keys are (equivalence class id, identity tag): hash / key_eq see the id only, operator== sees both (fix 4339d66)
struct KeyT { int id; int tag; KeyT(int i = 0, int t = 0) : id(i), tag(t) {} };
inline bool operator==(const KeyT& a, const KeyT& b) { return a.id == b.id && a.tag == b.tag; }
inline bool operator<(const KeyT& a, const KeyT& b) { return a.id != b.id ? a.id < b.id : a.tag < b.tag; }
struct EqId { bool operator()(const KeyT& a, const KeyT& b) const noexcept { return a.id == b.id; } };
struct Hasher {
	size_t operator()(const KeyT& key) const noexcept {
		unsigned long long x = (unsigned long long)(unsigned)key.id;
		switch (g_hashmode) {
		case 0: return (size_t)x;
		case 1: return 7;
		case 2: return (size_t)(x & 3);
		case 3: return (size_t)(x * 0x9E3779B97F4A7C15ull);
		default: return (size_t)(x << 56);
		}
	}
};
template<size_t M> struct Settings : public momo::HashMultiMapSettings { static const size_t valueArrayMaxFastCount = M; };

typedef std::allocator<std::pair<const KeyT, i64>> Alloc;
template<typename Bucket, size_t M>
using UMap = momo::stdish::unordered_multimap<KeyT, i64, Hasher, EqId, Alloc,
	momo::HashMultiMap<KeyT, i64, momo::HashTraitsStd<KeyT, Hasher, EqId, Bucket>, momo::MemManagerStd<Alloc>,
		momo::HashMultiMapKeyValueTraits<KeyT, i64, momo::MemManagerStd<Alloc>>, Settings<M>>>;
typedef std::unordered_multimap<KeyT, i64, Hasher, EqId> Twin;

static std::vector<std::string> split(const std::string& s, char c) {
	std::vector<std::string> r; std::string cur;
	for (char ch : s) { if (ch == c) { r.push_back(cur); cur.clear(); } else cur += ch; }
	r.push_back(cur); return r;
}
static bool g_tables = false;   // `ug` cases: see dump_tables

// Direct tie of the cxx2coq-generated operator== / erase(first,last) (Gen_WrapEq.v, Gen_WrapErase.v): every abstract primitive of
// the generated functions is EVALUATED ON THE REAL CONTAINERS here and printed as a table; the driver runs the generated
// decision logic over these tables; its answer must be what the real operator== / erase did.   "<tables> ||| <real results>"
template<typename UM>
static std::string dump_tables(UM& curOrig, UM& oth) {
	std::ostringstream T, R;
	const int B = 1000;
	auto& L = curOrig.get_nested_container(); auto& Rt = oth.get_nested_container();
	// ---- operator==: GetCount, key bounds of left, Find in right, key ==, per-key counts, std::is_permutation
	std::vector<typename UM::nested_container_type::ConstKeyIterator> rkeys;
	{ const auto& cR = Rt; for (auto ki = cR.GetKeyBounds().GetBegin(); !!ki; ++ki) rkeys.push_back(ki); }
	T << "EQ " << L.GetCount() << " " << Rt.GetCount();
	{ const auto& cL = L; const auto& cR = Rt;
	  for (auto ki = cL.GetKeyBounds().GetBegin(); !!ki; ++ki) {
		auto f = cR.Find(ki->key); long fi = -1; int perm = 0;
		if (!!f) { for (size_t j = 0; j < rkeys.size(); ++j) if (&rkeys[j]->key == &f->key) fi = (long)j;
			if (f->GetCount() == ki->GetCount()) perm = std::is_permutation(ki->GetBegin(), ki->GetEnd(), f->GetBegin()) ? 1 : 0; }
		T << " lk " << (long)ki->key.id * B + ki->key.tag << " " << ki->GetCount() << " " << fi << " " << perm;
	  }
	  for (auto& rk : rkeys) T << " rk " << (long)rk->key.id * B + rk->key.tag << " " << rk->GetCount();
	}
	R << "eq " << (curOrig == oth ? 1 : 0);
	// ---- erase(first, last): positions of begin()..end(); key iterator / count of a position; MakeIterator(key, i)
	UM c0(curOrig);
	std::vector<std::pair<int, i64>> pairs; std::vector<typename UM::iterator> its;
	for (auto it = c0.begin(); it != c0.end(); ++it) { pairs.push_back({it->first.id, it->second}); its.push_back(it); }
	size_t n = pairs.size();
	auto& N0 = c0.get_nested_container();
	std::vector<int> keyIds; std::vector<size_t> keyCounts;
	T << " ER " << n;
	for (auto ki = N0.GetKeyBounds().GetBegin(); !!ki; ++ki) {
		keyIds.push_back(ki->key.id); keyCounts.push_back(ki->GetCount());
		T << " k " << ki->GetCount();
		for (size_t i = 0; i <= ki->GetCount(); ++i) {          // MakeIterator(keyIter, i): which position of begin()..end() is it?
			auto mi = N0.MakeIterator(ki, i); size_t pos = n;
			size_t q = 0; for (auto itx = N0.GetBegin(); itx != N0.GetEnd(); ++itx, ++q) if (itx == mi) { pos = q; break; }
			T << " " << pos;
		}
	}
	for (size_t p = 0; p < n; ++p) {                                  // key_of(position) as an index into the key list
		size_t kidx = 0; for (; kidx < keyIds.size(); ++kidx) if (keyIds[kidx] == pairs[p].first) break;
		T << " p " << kidx << " " << pairs[p].first << " " << pairs[p].second;
	}
	for (size_t a = 0; a <= n && a <= 7; ++a) for (size_t b = a; b <= n && b <= a + 8; ++b) {
		UM ci(curOrig);
		std::vector<std::pair<int, i64>> chk; for (auto r : ci) chk.push_back({r.first.id, r.second});
		if (chk != pairs) continue;                                   // (copies of the same source iterate alike; else skip)
		auto fa = ci.begin(); for (size_t q = 0; q < a; ++q) ++fa;
		auto fb = ci.begin(); for (size_t q = 0; q < b; ++q) ++fb;
		T << " rg " << a << " " << b;
		R << " rg ";
		try {
			ci.erase(typename UM::const_iterator(fa), typename UM::const_iterator(fb));
			std::vector<std::pair<int, i64>> res; for (auto r : ci) res.push_back({r.first.id, r.second});
			std::sort(res.begin(), res.end());
			if (res.empty()) R << "-";
			for (size_t q = 0; q < res.size(); ++q) R << (q ? "," : "") << res[q].first << ":" << res[q].second;
		} catch (const std::invalid_argument&) { R << "throw"; }
	}
	return T.str() + " ||| " + R.str();
}

static bool pred(i64 a, i64 b, i64 m, i64 r, i64 k, i64 v) { return ((a * k + b * v) % m) == r; }

template<typename UM>
static std::string run_case(int K, const std::vector<std::string>& ops) {
	UM cur, oth; Twin tc, to;
	std::string fail;
	auto oracle_fail = [&](const std::string& w) { if (fail.empty()) fail = w; };
	auto erase_one = [&](Twin& t, int k, i64 v) {
		auto er = t.equal_range(k);
		for (auto it = er.first; it != er.second; ++it) if (it->second == v) { t.erase(it); return true; }
		return false;
	};
	std::ostringstream line; bool firstRec = true;
	for (const std::string& tok : ops) {
		std::vector<std::string> w = split(tok, ',');
		std::vector<i64> a; for (size_t i = 1; i < w.size(); ++i) a.push_back(std::stoll(w[i]));
		char c = w[0][0];
		std::ostringstream ret;
		switch (c) {
		case 'i': case 'j': {
			// j,k,t,v inserts the key object (k,t); a present equivalent key keeps ITS identity (momo) -- the twin mirrors
			// that by inserting with the identity already stored for the class
			int k = (int)a[0]; int t = (c == 'j') ? (int)a[1] : 0; i64 v = (c == 'j') ? a[2] : a[1];
			auto it = (v % 2) ? cur.insert(std::make_pair(KeyT(k, t), v)) : cur.emplace(KeyT(k, t), v);
			if (it->first.id != k || it->second != v) oracle_fail("insert: returned iterator");
			int stored = it->first.tag;
			auto tf = tc.find(KeyT(k, 0));
			if (tf != tc.end() && tf->first.tag != stored) oracle_fail("insert: identity of the stored key changed");
			tc.insert({KeyT(k, stored), v}); ret << "ok"; break; }
		case 'e': {
			size_t n = cur.erase((int)a[0]); size_t tn = tc.erase((int)a[0]);
			if (n != tn) oracle_fail("erase(key): returned count");
			ret << "n" << n; break; }
		case 'x': {
			int k = (int)a[0]; size_t i = (size_t)a[1];
			if (i >= cur.count(k)) { ret << "skip"; break; }
			auto it = std::next(cur.equal_range(k).first, (ptrdiff_t)i);
			if (it->first.id != k) oracle_fail("equal_range iterator leaves the key");
			i64 v = it->second;
			if (i % 2) cur.erase(it); else { typename UM::const_iterator cit = it; cur.erase(cit); }
			if (!erase_one(tc, k, v)) oracle_fail("erase(pos): value not in twin");
			ret << "ok"; break; }
		case 'q': {
			int k = (int)a[0];
			auto er = cur.equal_range(k);
			cur.erase(er.first, er.second);
			tc.erase(k); ret << "ok"; break; }
		case 'g': {
			int k = (int)a[0]; size_t i = (size_t)a[1], j = (size_t)a[2];
			if (!(i < j && j <= cur.count(k))) { ret << "skip"; break; }
			auto first = std::next(cur.equal_range(k).first, (ptrdiff_t)i);
			auto last = first; std::vector<i64> vals;
			for (size_t x = i; x < j; ++x) { vals.push_back(last->second); ++last; }
			try {
				cur.erase(first, last);
				for (i64 v : vals) if (!erase_one(tc, k, v)) oracle_fail("erase(range): value not in twin");
				ret << "ok";
			} catch (const std::invalid_argument&) { ret << "throw"; }
			break; }
		case 'w': cur.erase(cur.begin(), cur.end()); tc.clear(); ret << "ok"; break;
		case 'f': {
			i64 pa = a[0], pb = a[1], pm = a[2], pr = a[3];
			size_t n = erase_if(cur, [&](const typename UM::const_reference& ref) { return pred(pa, pb, pm, pr, ref.first.id, ref.second); });
			size_t tn = 0;
			for (auto it = tc.begin(); it != tc.end(); ) { if (pred(pa, pb, pm, pr, it->first.id, it->second)) { it = tc.erase(it); ++tn; } else ++it; }
			if (n != tn) oracle_fail("erase_if: returned count");
			ret << "n" << n; break; }
		case 'c': cur.clear(); tc.clear(); ret << "ok"; break;
		case 'n': {   // insert(first, last) / insert(initializer_list): pairs k,v,k,v,...
			std::vector<std::pair<KeyT, i64>> ps;
			for (size_t q = 0; q + 1 < a.size(); q += 2) ps.push_back({KeyT((int)a[q], 0), a[q + 1]});
			if (ps.size() == 2 && a[1] % 2 == 0) cur.insert({ {ps[0].first, ps[0].second}, {ps[1].first, ps[1].second} });
			else cur.insert(ps.begin(), ps.end());
			// momo keeps ONE key object per equivalence class (the first one, even while it is value-less): the twin adopts
			// the stored identity; the identity itself is printed (er=k/tag:...) and compared with the model
			for (auto& p : ps) { auto sf = cur.find(p.first); if (sf == cur.end()) { oracle_fail("insert(range): key not found"); break; } tc.insert({KeyT(p.first.id, sf->first.tag), p.second}); }
			ret << "ok"; break; }
		case 'l': {   // operator=(std::initializer_list<value_type>) with 0..2 pairs
			std::vector<std::pair<KeyT, i64>> ps;
			for (size_t q = 0; q + 1 < a.size(); q += 2) ps.push_back({KeyT((int)a[q], 0), a[q + 1]});
			if (ps.empty()) cur = std::initializer_list<typename UM::value_type>{};
			else if (ps.size() == 1) cur = { {ps[0].first, ps[0].second} };
			else cur = { {ps[0].first, ps[0].second}, {ps[1].first, ps[1].second} };
			tc.clear(); for (size_t q = 0; q < ps.size() && q < 2; ++q) { auto tf = tc.find(ps[q].first); tc.insert({tf != tc.end() ? tf->first : ps[q].first, ps[q].second}); }
			ret << "ok"; break; }
		case 'h': {   // emplace_hint(hint, key, value)
			auto it = cur.emplace_hint(cur.begin(), KeyT((int)a[0], 0), a[1]);
			if (it->first.id != (int)a[0] || it->second != a[1]) oracle_fail("emplace_hint: returned iterator");
			auto tf = tc.find(KeyT((int)a[0], 0));
			if (tf != tc.end() && tf->first.tag != it->first.tag) oracle_fail("emplace_hint: identity of the stored key changed");
			tc.insert({KeyT((int)a[0], it->first.tag), a[1]}); ret << "ok"; break; }
		case 'm': {   // move assignment / move construction; the moved-from wrapper is re-created by assignment
			if (a.empty() || a[0] % 2 == 0) cur = std::move(oth); else { UM tmp(std::move(oth)); cur.swap(tmp); }
			oth = UM(); tc = to; to.clear(); ret << "ok"; break; }
		case 'y': if (a.empty() || a[0] % 2 == 0) oth = cur; else { UM tmp(cur); oth = std::move(tmp); } to = tc; ret << "ok"; break;
		case 'Y': cur = oth; tc = to; ret << "ok"; break;
		case 's': if (a.empty() || a[0] % 2 == 0) cur.swap(oth); else swap(cur, oth); std::swap(tc, to); ret << "ok"; break;
		default: ret << "?"; break;
		}
		if (!firstRec) line << "|"; firstRec = false;
		line << ret.str() << ";sz=" << cur.size() << " c=";
		if (cur.size() != tc.size()) oracle_fail("size");
		if (cur.empty() != tc.empty()) oracle_fail("empty");
		for (int k = 0; k < K; ++k) {
			line << (k ? "," : "") << cur.count(k);
			if (cur.count(k) != tc.count(k)) oracle_fail("count(k)");
			if (cur.contains(k) != (tc.count(k) > 0)) oracle_fail("contains(k)");
			if ((cur.find(k) != cur.end()) != (tc.count(k) > 0)) oracle_fail("find(k) exposes a value-less key");
		}
		line << " er=";
		for (int k = 0; k < K; ++k) {
			auto er = cur.equal_range(k);
			std::vector<i64> vs; int idn = 0; for (auto it = er.first; it != er.second; ++it) { if (it->first.id != k) oracle_fail("equal_range: foreign key"); idn = it->first.tag; vs.push_back(it->second); }
			std::sort(vs.begin(), vs.end());
			auto ter = tc.equal_range(k);
			std::vector<i64> tv; for (auto it = ter.first; it != ter.second; ++it) tv.push_back(it->second);
			std::sort(tv.begin(), tv.end());
			if (vs != tv) oracle_fail("equal_range(k) as multiset");
			if (!vs.empty()) { line << k << "/" << idn << ":"; for (size_t i = 0; i < vs.size(); ++i) line << (i ? "," : "") << vs[i]; line << ";"; }
		}
		{ // whole iteration as multiset
			std::vector<std::pair<KeyT, i64>> p1, p2;
			for (auto ref : cur) p1.push_back({ref.first, ref.second});
			for (auto& kv : tc) p2.push_back({kv.first, kv.second});
			std::sort(p1.begin(), p1.end()); std::sort(p2.begin(), p2.end());
			if (p1 != p2) oracle_fail("iteration multiset");
		}
		bool e1 = (cur == oth), e2 = (oth == cur), te = (tc == to);
		if (e1 != te || e2 != te) oracle_fail("operator== disagrees with std::unordered_multimap");
		if ((cur != oth) == e1) oracle_fail("operator!=");
		line << " eq=" << (e1 ? "T" : "F") << (e2 ? "T" : "F");
		if (!fail.empty()) { line << " ORACLE-FAIL(" << fail << " @" << tok << ")"; break; }
	}
	if (g_tables) return dump_tables(cur, oth);
	return line.str();
}

int main() {
	std::ios::sync_with_stdio(false);
	std::string line;
	while (std::getline(std::cin, line)) {
		std::istringstream is(line);
		std::string kind, b; size_t M; int hm, K;
		is >> kind >> b >> M >> hm >> K;
		std::vector<std::string> ops; std::string t;
		while (is >> t) ops.push_back(t);
		g_hashmode = hm; g_tables = (kind == "ug");
		std::string res = "?cfg";
		if (b == "L" && M == 7) res = run_case<UMap<momo::HashBucketLimP4<>, 7>>(K, ops);
		else if (b == "O8" && M == 2) res = run_case<UMap<momo::HashBucketOpen8, 2>>(K, ops);
		else if (b == "O2" && M == 1) res = run_case<UMap<momo::HashBucketOpen2N2<>, 1>>(K, ops);
		std::cout << res << "\n";
	}
	return 0;
}
