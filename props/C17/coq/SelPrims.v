(* C17: primitives used by the generated Gen_SelSort.v (props/C17/sel2coq.py): exchanging two entries of a state array
   (std::swap / iterSwapper on the ghost item array) and std::min_element (first minimum of [lo,hi); returns hi = lo on an
   empty range). *)
From Coq Require Import ZArith Bool List Lia.
From MomoCommon Require Import GenPrelude.
Local Open Scope Z_scope.

Definition swapf (f : Z -> Z) (a b : Z) : Z -> Z := upd (upd f a (f b)) b (f a).

Fixpoint min_scan (n : nat) (c : Z -> Z) (k best : Z) : Z :=
  match n with O => best | S n' => min_scan n' c (k + 1) (if c k <? c best then k else best) end.
Definition min_element_idx (c : Z -> Z) (lo hi : Z) : Z := min_scan (Z.to_nat (hi - lo - 1)) c (lo + 1) lo.

Lemma swapf_spec f a b k : swapf f a b k = if k =? b then f a else if k =? a then f b else f k.
Proof. unfold swapf, upd. destruct (k =? b); [reflexivity|]. destruct (k =? a); reflexivity. Qed.

Lemma min_scan_spec c lo : forall n k best, lo <= best -> best < k ->
  (forall x, lo <= x < k -> c best <= c x) ->
  lo <= min_scan n c k best < k + Z.of_nat n /\ (forall x, lo <= x < k + Z.of_nat n -> c (min_scan n c k best) <= c x).
Proof.
  induction n as [|n IH]; intros k best Hb Hbk Hmin.
  - simpl. rewrite Z.add_0_r. split; [lia|exact Hmin].
  - rewrite Nat2Z.inj_succ. cbn [min_scan]. replace (k + Z.succ (Z.of_nat n)) with (k + 1 + Z.of_nat n) by lia.
    apply IH.
    + destruct (Z.ltb_spec (c k) (c best)); lia.
    + destruct (Z.ltb_spec (c k) (c best)); lia.
    + intros x Hx. destruct (Z.ltb_spec (c k) (c best)).
      * destruct (Z.eq_dec x k) as [->|]; [lia|]. specialize (Hmin x ltac:(lia)). lia.
      * destruct (Z.eq_dec x k) as [->|]; [lia|]. apply Hmin. lia.
Qed.

Lemma min_element_idx_spec c lo hi : lo < hi ->
  lo <= min_element_idx c lo hi < hi /\ (forall x, lo <= x < hi -> c (min_element_idx c lo hi) <= c x).
Proof.
  intros H. unfold min_element_idx.
  destruct (min_scan_spec c lo (Z.to_nat (hi - lo - 1)) (lo + 1) lo) as [A B]; try lia.
  - intros x Hx. replace x with lo by lia. lia.
  - replace (lo + 1 + Z.of_nat (Z.to_nat (hi - lo - 1))) with hi in * by lia. split; assumption.
Qed.
