(* C09: internal::MemPoolUInt32 (the pool with 32-bit block handles, MemPool.h 806-942): proofs about the GENERATED index
   arithmetic (Gen_MemPoolUInt32.v: GetRealPointer, pvGetBufferSize, pvNewBuffer incl. the maxTotalBlockCount refusal). *)
From Coq Require Import ZArith List Bool Lia.
From MomoCommon Require Import GenPrelude.
From C09 Require Gen_MemPoolUInt32.
Import ListNotations.
Local Open Scope Z_scope.

Lemma two64 : 2 ^ 64 = 18446744073709551616. Proof. reflexivity. Qed.
Lemma two32 : 2 ^ 32 = 4294967296. Proof. reflexivity. Qed.

Section U32.
Variables bc bs : Z.                       (* blockCount, mBlockSize = max(blockSize, sizeof(uint32_t)) *)
Hypothesis Hbc : 1 <= bc.
Hypothesis Hbs : 4 <= bs.
Hypothesis Hsz : bc * bs < 2 ^ 63.          (* the constructor rejects mBlockSize > maxSize / blockCount *)

Lemma buffersize_spec mB mH mM mA : Gen_MemPoolUInt32.pvGetBufferSize bc mB mH mM bs mA = bc * bs.
Proof. unfold Gen_MemPoolUInt32.pvGetBufferSize. apply wrapU_small. rewrite two64. change (2 ^ 63) with 9223372036854775808 in Hsz. nia. Qed.

(* GetRealPointer: handle h denotes block (h mod blockCount) of buffer (h / blockCount) *)
Lemma realpointer_spec mB mH mM mA h : 0 <= h < 4294967295 ->
  Gen_MemPoolUInt32.GetRealPointer bc mB mH mM bs mA h = Ok (mB (h / bc) + (h mod bc) * bs).
Proof.
  intros Hh. unfold Gen_MemPoolUInt32.GetRealPointer, Gen_MemPoolUInt32.nullPtr.
  destruct (Z.eqb_spec h 4294967295); [lia|]. cbn [negb]. cbv zeta.
  pose proof (Z.mod_pos_bound h bc ltac:(lia)). rewrite wrapU_small; [reflexivity|].
  rewrite two64. change (2 ^ 63) with 9223372036854775808 in Hsz. nia.
Qed.

(* handle <-> (buffer, offset): different handles below n*blockCount denote disjoint blocks, each inside its buffer, provided the
   n buffers (pvGetBufferSize bytes each) are disjoint *)
Theorem handles_disjoint mB mH mM mA n h h' :
  0 <= h < n * bc -> 0 <= h' < n * bc -> n * bc <= 4294967295 -> h <> h' ->
  (forall k k', 0 <= k < n -> 0 <= k' < n -> k <> k' -> mB k + bc * bs <= mB k' \/ mB k' + bc * bs <= mB k) ->
  exists a a', Gen_MemPoolUInt32.GetRealPointer bc mB mH mM bs mA h = Ok a /\
               Gen_MemPoolUInt32.GetRealPointer bc mB mH mM bs mA h' = Ok a' /\
               0 <= h / bc < n /\ mB (h / bc) <= a /\ a + bs <= mB (h / bc) + Gen_MemPoolUInt32.pvGetBufferSize bc mB mH mM bs mA /\
               (a + bs <= a' \/ a' + bs <= a).
Proof.
  intros Hh Hh' Hn Ne Dis. rewrite buffersize_spec.
  exists (mB (h / bc) + (h mod bc) * bs), (mB (h' / bc) + (h' mod bc) * bs).
  split; [apply realpointer_spec; lia|]. split; [apply realpointer_spec; lia|].
  pose proof (Z.mod_pos_bound h bc ltac:(lia)) as M. pose proof (Z.mod_pos_bound h' bc ltac:(lia)) as M'.
  pose proof (Z.div_mod h bc ltac:(lia)) as D. pose proof (Z.div_mod h' bc ltac:(lia)) as D'.
  assert (0 <= h / bc < n) as K by (split; [apply Z.div_pos; lia|apply Z.div_lt_upper_bound; lia]).
  assert (0 <= h' / bc < n) as K' by (split; [apply Z.div_pos; lia|apply Z.div_lt_upper_bound; lia]).
  split; [exact K|]. split; [nia|]. split; [nia|].
  destruct (Z.eq_dec (h / bc) (h' / bc)) as [E|N].
  - rewrite E. assert (h mod bc <> h' mod bc) as Nm by (intro Em; apply Ne; rewrite D, D', E, Em; reflexivity).
    destruct (Z_lt_le_dec (h mod bc) (h' mod bc)); [left|right]; nia.
  - destruct (Dis (h / bc) (h' / bc) K K' N); [left|right]; nia.
Qed.

Lemma loop_spec buffer bufferCount : forall fuel i, 0 <= i <= bc -> (Z.to_nat (bc - i) < fuel)%nat ->
  Gen_MemPoolUInt32.pvNewBuffer_loop0 bc fuel buffer bufferCount bs i = Ok bc.
Proof.
  induction fuel as [|fuel IH]; intros i Hi Hf; [lia|]. rewrite Gen_MemPoolUInt32.pvNewBuffer_loop0_eq.
  destruct (Z.ltb_spec i bc) as [L|G]; [|f_equal; lia]. cbv zeta.
  rewrite (wrapU_small 64 (i + 1)) by (rewrite two64; change (2 ^ 63) with 9223372036854775808 in Hsz; nia).
  apply IH; lia.
Qed.

(* pvNewBuffer 903-919: below the limit the new buffer gets the handles bufferCount*blockCount .. +blockCount-1: no 32-bit
   wrap-around, never the null handle, and mBlockHead becomes the first of them; at the limit maxTotalBlockCount/blockCount it
   throws (outcome Exn) *)
Theorem newbuffer_spec mB mH mM mA buffer bufferCount :
  0 <= bufferCount -> mM * bc <= 4294967294 ->     (* mMaxBufferCount = maxTotalBlockCount / blockCount, maxTotalBlockCount < 2^32-1 *)
  (bufferCount < mM ->
     Gen_MemPoolUInt32.pvNewBuffer bc mB mH mM bs mA buffer bufferCount = Ok (tt, bufferCount * bc) /\
     forall i, 0 <= i < bc -> 0 <= bufferCount * bc + i < 4294967295 /\ wrapU 32 (bufferCount * bc + i) = bufferCount * bc + i) /\
  (mM <= bufferCount -> Gen_MemPoolUInt32.pvNewBuffer bc mB mH mM bs mA buffer bufferCount = Exn).
Proof.
  intros H0 HM. unfold Gen_MemPoolUInt32.pvNewBuffer. split.
  - intros Hlt. rewrite Z.geb_leb. destruct (Z.leb_spec mM bufferCount); [lia|]. cbv zeta.
    unfold Gen_MemPoolUInt32.fuel_of_pvNewBuffer. rewrite loop_spec by lia.
    assert (0 <= bufferCount * bc /\ bufferCount * bc + bc <= 4294967294) as (B1 & B2) by nia.
    rewrite (wrapU_small 64) by (rewrite two64; lia). rewrite (wrapU_small 32) by (rewrite two32; lia).
    split; [reflexivity|]. intros i Hi. split; [lia|]. apply wrapU_small. rewrite two32. lia.
  - intros Hge. rewrite Z.geb_leb. destruct (Z.leb_spec mM bufferCount); [reflexivity|lia].
Qed.
End U32.
