(* C04 -- momo::internal::ObjectManager (ObjectManager.h:283-415, 486-535) written statement by statement
   in the resource machine, and the proofs that the mechanisms are all-or-nothing.
   Iterators are functions index -> location (plain pointers, reverse iterators and the tree Relocator's
   segment iterator are all instances). *)
From Coq Require Import List Arith Lia Bool PeanoNat.
From C04 Require Import Effects.
Import ListNotations.

Definition rIndex := 0.      (* the local `size_t index` of pvRelocateExec, visible in its catch block *)
Definition nothrow (c : cat) : bool := match c with NTM => true | _ => false end.

(* for (; index < count; ++index) Copy(memManager, srcIter[index], dstIter + index); *)
Fixpoint copy_from (src dst : nat -> loc) (i n : nat) : M unit :=
  match n with
  | 0 => ret tt
  | S n' => copy_construct (src i) (dst i) ;; setr rIndex (S i) ;; copy_from src dst (S i) n'
  end.
(* Destroy(memManager, begin, count) *)
Fixpoint destroy_from (it : nat -> loc) (i n : nat) : M unit :=
  match n with 0 => ret tt | S n' => destroy (it i) ;; destroy_from it (S i) n' end.
(* pvRelocate(..., true_type): for (i < count) Relocate(srcIter[i], dstIter + i) *)
Fixpoint relocate_from (c : cat) (src dst : nat -> loc) (i n : nat) : M unit :=
  match n with 0 => ret tt | S n' => relocate1 c (src i) (dst i) ;; relocate_from c src dst (S i) n' end.

(* CopyExec (ObjectManager.h:291-305) *)
Definition copy_exec (sl dl : loc) (exec : M unit) : M unit :=
  copy_construct sl dl ;;
  try_catch exec (destroy dl ;; throw).

(* MoveExec -> pvMoveExec (ObjectManager.h:283-289, 392-415) *)
Definition move_exec (c : cat) (sl dl : loc) (exec : M unit) : M unit :=
  if nothrow c then exec ;; move_construct c sl dl
  else move_construct c sl dl ;; try_catch exec (destroy dl ;; throw).

(* pvRelocateExec, both overloads (ObjectManager.h:508-535) *)
Definition relocate_exec (c : cat) (src dst : nat -> loc) (count : nat) (exec : M unit) : M unit :=
  if nothrow c then
    exec ;; relocate_from c src dst 0 count
  else
    setr rIndex 0 ;;
    try_catch (copy_from src dst 0 count ;; exec)
              (idx <- getr rIndex ;; destroy_from dst 0 idx ;; throw) ;;
    destroy_from src 0 count.

(* RelocateCreate (ObjectManager.h:359-366): exec = the object creator applied to newObject *)
Definition relocate_create (c : cat) (src dst : nat -> loc) (count : nat) (creator : loc -> M unit) (newl : loc) : M unit :=
  relocate_exec c src dst count (creator newl).

(* Relocate(range) -> pvRelocate (ObjectManager.h:486-506) *)
Definition relocate_range (c : cat) (src dst : nat -> loc) (count : nat) : M unit :=
  if nothrow c then relocate_from c src dst 0 count
  else match count with
       | 0 => ret tt
       | S m => relocate_create c (fun j => src (S j)) (fun j => dst (S j)) m
                                (fun l => move_construct c (src 0) l) (dst 0) ;;
                destroy (src 0)
       end.

(* ---- specifications ------------------------------------------------------------------------------ *)
(* h' agrees with h on the locations in S, and has the same blocks *)
Record agree (S : loc -> Prop) (h h' : heap) : Prop := mkAgree
  { ag_mem : forall l, S l -> mem h' l = mem h l; ag_alive : forall b, alive h' b = alive h b;
    ag_bsize : forall b, bsize h' b = bsize h b; ag_next : next h' = next h }.
Lemma agree_valid : forall S a b l, agree S a b -> valid b l = valid a l.
Proof. intros S a b l []; unfold valid. rewrite ag_alive0, ag_bsize0; reflexivity. Qed.
Lemma agree_refl : forall S h, agree S h h.
Proof. intros; split; auto. Qed.
Lemma agree_trans : forall S a b c, agree S a b -> agree S b c -> agree S a c.
Proof.
  intros S a b c [m1 a1 b1 n1] [m2 a2 b2 n2]; split; intros.
  - rewrite m2, m1; auto. - rewrite a2, a1; auto. - rewrite b2, b1; auto. - congruence.
Qed.
Lemma agree_sym : forall S a b, agree S a b -> agree S b a.
Proof. intros S a b []; split; intros; symmetry; auto. Qed.
Lemma agree_weaken : forall (S S' : loc -> Prop) a b, (forall l, S' l -> S l) -> agree S a b -> agree S' a b.
Proof. intros S S' a b H []; split; auto. Qed.
Lemma heq_agree : forall S a b, heq a b -> agree S a b.
Proof. intros S a b []; split; auto. Qed.

(* everything except the scratch registers (C++ locals, numbers < 10) is as before *)
Record unchanged (h h' : heap) : Prop := mkUnch
  { un_mem : forall l, mem h' l = mem h l; un_alive : forall b, alive h' b = alive h b;
    un_bsize : forall b, bsize h' b = bsize h b; un_next : next h' = next h;
    un_regs : forall r, 10 <= r -> regs h' r = regs h r }.
Lemma heq_unchanged : forall a b, heq a b -> unchanged a b.
Proof. intros a b []; split; auto. Qed.

Definition same_regs (h h' : heap) := forall r, regs h' r = regs h r.
Definition fields_same (h h' : heap) := forall r, 10 <= r -> regs h' r = regs h r.

(* an executor / creator that touches only the footprint fp: it either throws leaving the heap as it
   was, or succeeds changing only cells of fp in a way described by R.  P is its precondition. *)
Record exec_spec (e : M unit) (fp : loc -> Prop) (P : heap -> Prop) (R : heap -> heap -> Prop) : Prop := mkExecSpec
  { ex_run : forall s, P (hp s) -> forall (Q : unit -> st -> Prop) (E : st -> Prop),
      (forall s', heq (hp s) (hp s') -> E s') ->
      (forall s', agree (fun l => ~ fp l) (hp s) (hp s') -> same_regs (hp s) (hp s') -> R (hp s) (hp s') -> Q tt s') ->
      wp e s Q E;
    ex_P_local : forall h h', agree fp h h' -> P h -> P h';
    ex_R_local : forall a b a' b', agree fp a a' -> agree fp b b' -> R a b -> R a' b' }.

Definition in_range (it : nat -> loc) (lo hi : nat) (l : loc) : Prop := exists j, lo <= j < hi /\ it j = l.
Lemma in_range_dec : forall it lo hi l, in_range it lo hi l \/ (forall j, lo <= j < hi -> it j <> l).
Proof.
  intros it lo hi l. induction hi.
  - right; intros; lia.
  - destruct IHhi as [[j [Hj E]]|N].
    + left; exists j; split; auto; lia.
    + destruct (loc_eq_dec (it hi) l) as [E|NE].
      * destruct (le_lt_dec lo hi). { left; exists hi; split; auto; lia. } right; intros; lia.
      * right; intros j Hj. destruct (Nat.eq_dec j hi); [subst; auto | apply N; lia].
Qed.

Section Loops.
Variables (src dst : nat -> loc).

Record copied (h h' : heap) (lo cur : nat) : Prop := mkCopied
  { cp_dst : forall j, lo <= j < cur -> mem h' (dst j) = mem h (src j);
    cp_frame : forall l, (forall j, lo <= j < cur -> dst j <> l) -> mem h' l = mem h l;
    cp_shape : agree (fun _ => False) h h';
    cp_idx : regs h' rIndex = cur;
    cp_regs : forall r, r <> rIndex -> regs h' r = regs h r }.

Lemma wp_copy_from : forall n i s (Q : unit -> st -> Prop) (E : st -> Prop),
  (forall j, i <= j < i + n -> valid (hp s) (src j) = true /\ valid (hp s) (dst j) = true /\
                               (exists v, mem (hp s) (src j) = Live v) /\ mem (hp s) (dst j) = Raw) ->
  (forall j k, i <= j < i + n -> i <= k < i + n -> src j <> dst k) ->
  (forall j k, i <= j < i + n -> i <= k < i + n -> j <> k -> dst j <> dst k) ->
  regs (hp s) rIndex = i ->
  (forall cur s', i <= cur < i + n -> copied (hp s) (hp s') i cur -> E s') ->
  (forall s', copied (hp s) (hp s') i (i + n) -> Q tt s') ->
  wp (copy_from src dst i n) s Q E.
Proof.
  induction n; intros i s Q E Hpre Hsd Hdd Hidx HE HQ.
  - simpl. apply wp_ret. apply HQ. split.
    + intros; lia. + reflexivity. + apply agree_refl. + rewrite Nat.add_0_r; auto. + reflexivity.
  - simpl. destruct (Hpre i ltac:(lia)) as [Hvs [Hvd [[v Hv] Hr]]].
    apply wp_bind. eapply wp_copy_construct; eauto.
    + intros s' H'. apply (HE i s'). lia.
      split.
      * intros; lia. * intros; apply (hq_mem _ _ H'). * apply heq_agree; auto.
      * rewrite (hq_regs _ _ H'); auto. * intros; apply (hq_regs _ _ H').
    + intros s1 H1. apply wp_bind, wp_setr. intros s2 H2.
      assert (Hm2 : forall l, mem (hp s2) l = if loc_eqb l (dst i) then Live v else mem (hp s) l).
      { intros l. rewrite (hq_mem _ _ H2), mem_hsetr, (hq_mem _ _ H1). reflexivity. }
      assert (Hv2 : forall l, valid (hp s2) l = valid (hp s) l).
      { intros l. rewrite (heq_valid _ _ _ H2), valid_hsetr, (heq_valid _ _ _ H1). reflexivity. }
      assert (Hr2 : forall r, regs (hp s2) r = if r =? rIndex then S i else regs (hp s) r).
      { intros r. rewrite (hq_regs _ _ H2). simpl. unfold updn. destruct (r =? rIndex); auto. apply (hq_regs _ _ H1). }
      assert (Hsh2 : agree (fun _ => False) (hp s) (hp s2)).
      { split; try contradiction; intros.
        - rewrite (hq_alive _ _ H2); simpl. apply (hq_alive _ _ H1).
        - rewrite (hq_bsize _ _ H2); simpl. apply (hq_bsize _ _ H1).
        - rewrite (hq_next _ _ H2); simpl. apply (hq_next _ _ H1). }
      assert (Hstep : forall cur h', S i <= cur <= i + S n -> copied (hp s2) h' (S i) cur -> copied (hp s) h' i cur).
      { intros cur h' Hc [C1 C2 C3 C4 C5]. split.
        - intros j Hj. destruct (Nat.eq_dec j i) as [Hji|Hji]; [subst j|].
          + rewrite C2. { rewrite Hm2, loc_eqb_refl; auto. }
            intros j' Hj'. apply Hdd; lia.
          + rewrite C1 by lia. rewrite Hm2, loc_eqb_neq; auto. apply Hsd; lia.
        - intros l Hl. rewrite C2. { rewrite Hm2, loc_eqb_neq; auto. intro X. apply (Hl i); [lia | auto]. }
          intros j' Hj'. apply Hl; lia.
        - eapply agree_trans; eauto.
        - auto.
        - intros r Hr'. rewrite C5 by auto. rewrite Hr2. apply Nat.eqb_neq in Hr'. rewrite Hr'. reflexivity. }
      apply IHn.
      * intros j Hj. destruct (Hpre j ltac:(lia)) as [A [B [[w C] D]]].
        rewrite !Hv2, !Hm2. rewrite (loc_eqb_neq (src j)) by (apply Hsd; lia).
        rewrite (loc_eqb_neq (dst j)) by (apply Hdd; lia). repeat split; eauto.
      * intros; apply Hsd; lia.
      * intros; apply Hdd; lia.
      * rewrite Hr2. reflexivity.
      * intros cur s' Hc Hcp. apply (HE cur s'). lia. apply Hstep; auto. lia.
      * intros s' Hcp. apply HQ. apply Hstep. lia. replace (i + S n) with (S i + n) by lia. exact Hcp.
Qed.

End Loops.

Section DestroyLoop.
Variable (it : nat -> loc).

Record destroyed (h h' : heap) (lo hi : nat) : Prop := mkDestroyed
  { ds_it : forall j, lo <= j < hi -> mem h' (it j) = Raw;
    ds_frame : forall l, (forall j, lo <= j < hi -> it j <> l) -> mem h' l = mem h l;
    ds_shape : agree (fun _ => False) h h';
    ds_regs : same_regs h h' }.

Lemma wp_destroy_from : forall n i s (Q : unit -> st -> Prop) (E : st -> Prop),
  (forall j, i <= j < i + n -> valid (hp s) (it j) = true /\ mem (hp s) (it j) <> Raw) ->
  (forall j k, i <= j < i + n -> i <= k < i + n -> j <> k -> it j <> it k) ->
  (forall s', destroyed (hp s) (hp s') i (i + n) -> Q tt s') ->
  wp (destroy_from it i n) s Q E.
Proof.
  induction n; intros i s Q E Hpre Hinj HQ.
  - simpl. apply wp_ret. apply HQ. split.
    + intros; lia. + reflexivity. + apply agree_refl. + intro; reflexivity.
  - simpl. destruct (Hpre i ltac:(lia)) as [Hv Hnr].
    apply wp_bind. apply wp_destroy; auto. intros s1 H1.
    assert (Hm1 : forall l, mem (hp s1) l = if loc_eqb l (it i) then Raw else mem (hp s) l).
    { intros l. rewrite (hq_mem _ _ H1). reflexivity. }
    assert (Hv1 : forall l, valid (hp s1) l = valid (hp s) l).
    { intros l. rewrite (heq_valid _ _ _ H1). reflexivity. }
    apply IHn.
    + intros j Hj. destruct (Hpre j ltac:(lia)) as [A B]. rewrite Hv1, Hm1.
      rewrite loc_eqb_neq by (apply Hinj; lia). auto.
    + intros; apply Hinj; lia.
    + intros s' [D1 D2 D3 D4]. apply HQ. split.
      * intros j Hj. destruct (Nat.eq_dec j i) as [Hji|Hji]; [subst j|].
        -- rewrite D2. { rewrite Hm1, loc_eqb_refl; auto. } intros j' Hj'. apply Hinj; lia.
        -- apply D1; lia.
      * intros l Hl. rewrite D2. { rewrite Hm1, loc_eqb_neq; auto. intro X. apply (Hl i); [lia | auto]. }
        intros j' Hj'. apply Hl; lia.
      * eapply agree_trans; [|exact D3]. destruct H1 as [_ Ha Hb Hn _]; split; [contradiction|exact Ha|exact Hb|exact Hn].
      * intros r. rewrite D4. apply (hq_regs _ _ H1).
Qed.
End DestroyLoop.

Section RelocLoop.
Variables (src dst : nat -> loc).

Record relocated (h h' : heap) (lo hi : nat) : Prop := mkRelocated
  { rl_dst : forall j, lo <= j < hi -> mem h' (dst j) = mem h (src j);
    rl_src : forall j, lo <= j < hi -> mem h' (src j) = Raw;
    rl_frame : forall l, (forall j, lo <= j < hi -> src j <> l) -> (forall j, lo <= j < hi -> dst j <> l) -> mem h' l = mem h l;
    rl_shape : agree (fun _ => False) h h';
    rl_regs : same_regs h h' }.

(* the nothrow relocation loop (used only when the element type is nothrow relocatable) *)
Lemma wp_relocate_from : forall n i s (Q : unit -> st -> Prop) (E : st -> Prop),
  (forall j, i <= j < i + n -> valid (hp s) (src j) = true /\ valid (hp s) (dst j) = true /\
                               (exists v, mem (hp s) (src j) = Live v) /\ mem (hp s) (dst j) = Raw) ->
  (forall j k, i <= j < i + n -> i <= k < i + n -> src j <> dst k) ->
  (forall j k, i <= j < i + n -> i <= k < i + n -> j <> k -> dst j <> dst k) ->
  (forall j k, i <= j < i + n -> i <= k < i + n -> j <> k -> src j <> src k) ->
  (forall s', relocated (hp s) (hp s') i (i + n) -> Q tt s') ->
  wp (relocate_from NTM src dst i n) s Q E.
Proof.
  induction n; intros i s Q E Hpre Hsd Hdd Hss HQ.
  - simpl. apply wp_ret. apply HQ. split.
    + intros; lia. + intros; lia. + reflexivity. + apply agree_refl. + intro; reflexivity.
  - simpl. destruct (Hpre i ltac:(lia)) as [Hvs [Hvd [[v Hv] Hr]]].
    apply wp_bind. eapply wp_relocate1; eauto. { apply Hsd; lia. } { intros C; contradiction C; reflexivity. }
    intros s1 H1.
    assert (Hm1 : forall l, mem (hp s1) l = if loc_eqb l (src i) then Raw else if loc_eqb l (dst i) then Live v else mem (hp s) l).
    { intros l. rewrite (hq_mem _ _ H1). reflexivity. }
    assert (Hv1 : forall l, valid (hp s1) l = valid (hp s) l).
    { intros l. rewrite (heq_valid _ _ _ H1). reflexivity. }
    apply IHn.
    + intros j Hj. destruct (Hpre j ltac:(lia)) as [A [B [[w C] D]]].
      rewrite !Hv1, !Hm1.
      rewrite (loc_eqb_neq (src j) (src i)) by (apply Hss; lia).
      rewrite (loc_eqb_neq (src j) (dst i)) by (apply Hsd; lia).
      rewrite (loc_eqb_neq (dst j) (src i)) by (intro X; symmetry in X; revert X; apply Hsd; lia).
      rewrite (loc_eqb_neq (dst j) (dst i)) by (apply Hdd; lia). repeat split; eauto.
    + intros; apply Hsd; lia.
    + intros; apply Hdd; lia.
    + intros; apply Hss; lia.
    + intros s' [R1 R2 R3 R4 R5]. apply HQ. split.
      * intros j Hj. destruct (Nat.eq_dec j i) as [Hji|Hji]; [subst j|].
        -- assert (Hds : dst i <> src i) by (intro X; symmetry in X; revert X; apply Hsd; lia).
           rewrite R3.
           ++ rewrite Hm1, (loc_eqb_neq _ _ Hds), loc_eqb_refl. symmetry; exact Hv.
           ++ intros j' Hj'. apply Hsd; lia.
           ++ intros j' Hj'. apply Hdd; lia.
        -- rewrite R1 by lia. rewrite Hm1.
           rewrite (loc_eqb_neq (src j) (src i)) by (apply Hss; lia).
           rewrite (loc_eqb_neq (src j) (dst i)) by (apply Hsd; lia). reflexivity.
      * intros j Hj. destruct (Nat.eq_dec j i) as [Hji|Hji]; [subst j|].
        -- rewrite R3. { rewrite Hm1, loc_eqb_refl; auto. }
           ++ intros j' Hj'. apply Hss; lia.
           ++ intros j' Hj' X; symmetry in X; revert X. apply Hsd; lia.
        -- apply R2; lia.
      * intros l Hs Hd. rewrite R3.
        -- rewrite Hm1. rewrite (loc_eqb_neq l (src i)), (loc_eqb_neq l (dst i)); auto.
           ++ intro X. apply (Hd i); [lia | auto].
           ++ intro X. apply (Hs i); [lia | auto].
        -- intros j' Hj'. apply Hs; lia.
        -- intros j' Hj'. apply Hd; lia.
      * eapply agree_trans; [|exact R4]. destruct H1 as [_ Ha Hb Hn _]; split; [contradiction|exact Ha|exact Hb|exact Hn].
      * intros r. rewrite R5. apply (hq_regs _ _ H1).
Qed.
End RelocLoop.

(* ---- the mechanisms ------------------------------------------------------------------------------ *)
Record range_pre (src dst : nat -> loc) (n : nat) (h : heap) : Prop := mkRangePre
  { rp_cells : forall j, j < n -> valid h (src j) = true /\ valid h (dst j) = true /\
                                  (exists v, mem h (src j) = Live v) /\ mem h (dst j) = Raw;
    rp_sd : forall j k, j < n -> k < n -> src j <> dst k;
    rp_dd : forall j k, j < n -> k < n -> j <> k -> dst j <> dst k;
    rp_ss : forall j k, j < n -> k < n -> j <> k -> src j <> src k }.

(* result of a completed range relocation: the objects are in dst, src is raw storage again,
   nothing else (outside the executor's footprint) has changed *)
Record moved_range (src dst : nat -> loc) (n : nat) (fp : loc -> Prop) (h h' : heap) : Prop := mkMovedRange
  { mr_dst : forall j, j < n -> mem h' (dst j) = mem h (src j);
    mr_src : forall j, j < n -> mem h' (src j) = Raw;
    mr_frame : forall l, ~ fp l -> (forall j, j < n -> src j <> l) -> (forall j, j < n -> dst j <> l) -> mem h' l = mem h l;
    mr_shape : agree (fun _ => False) h h';
    mr_fields : fields_same h h' }.

Lemma range_pre_transport : forall src dst n h h',
  range_pre src dst n h ->
  agree (fun l => in_range src 0 n l \/ in_range dst 0 n l) h h' -> range_pre src dst n h'.
Proof.
  intros src dst n h h' [C SD DD SS] Ag. split; auto.
  intros j Hj. destruct (C j Hj) as [A [B [[v V] D]]].
  rewrite !(agree_valid _ _ _ _ Ag).
  rewrite (ag_mem _ _ _ Ag (src j)) by (left; exists j; split; auto; lia).
  rewrite (ag_mem _ _ _ Ag (dst j)) by (right; exists j; split; auto; lia). eauto.
Qed.

Lemma agree_compose : forall (S : loc -> Prop) h h0 h1,
  agree (fun _ => True) h h0 -> (forall l, S l -> mem h1 l = mem h0 l) -> agree (fun _ => False) h0 h1 -> agree S h h1.
Proof.
  intros S h h0 h1 [m0 a0 b0 n0] Hm [m1 a1 b1 n1]. split; intros.
  - rewrite Hm by auto. apply m0; exact I.
  - rewrite a1; apply a0.
  - rewrite b1; apply b0.
  - congruence.
Qed.

Section RelocateExec.
Variables (src dst : nat -> loc) (n : nat) (exec : M unit) (fp : loc -> Prop) (P : heap -> Prop) (R : heap -> heap -> Prop).
Hypothesis Hex : exec_spec exec fp P R.
Hypothesis Hfp : forall j, j < n -> ~ fp (src j) /\ ~ fp (dst j).

(* the catch block of pvRelocateExec: destroys exactly the copies made so far *)
Lemma wp_relocate_handler : forall s s1 cur (Q : unit -> st -> Prop),
  cur <= n -> range_pre src dst n (hp s) ->
  agree (fun l => forall j, j < cur -> dst j <> l) (hp s) (hp s1) ->
  (forall j, j < cur -> mem (hp s1) (dst j) <> Raw) ->
  regs (hp s1) rIndex = cur -> fields_same (hp s) (hp s1) ->
  wp (idx <- getr rIndex ;; destroy_from dst 0 idx ;; throw) s1 Q (fun s' => unchanged (hp s) (hp s')).
Proof.
  intros s s1 cur Q Hc [C SD DD SS] Ag Hlive Hidx Hf.
  apply wp_bind, wp_getr. rewrite Hidx.
  apply wp_bind. apply wp_destroy_from.
  - intros j Hj. destruct (C j ltac:(lia)) as [_ [B _]]. rewrite (agree_valid _ _ _ _ Ag). split; auto. apply Hlive; lia.
  - intros; apply DD; lia.
  - intros s2 [D1 D2 D3 D4]. apply wp_throw. split.
    + intros l. destruct (in_range_dec dst 0 cur l) as [[j [Hj El]]|N].
      * subst l. rewrite D1 by lia. destruct (C j ltac:(lia)) as [_ [_ [_ D]]]. auto.
      * rewrite D2 by (intros; apply N; lia). apply (ag_mem _ _ _ Ag). intros; apply N; lia.
    + intros b. rewrite (ag_alive _ _ _ D3). apply (ag_alive _ _ _ Ag).
    + intros b. rewrite (ag_bsize _ _ _ D3). apply (ag_bsize _ _ _ Ag).
    + rewrite (ag_next _ _ _ D3). apply (ag_next _ _ _ Ag).
    + intros r Hr. rewrite D4. apply Hf; auto.
Qed.

Theorem relocate_exec_spec : forall c s,
  range_pre src dst n (hp s) -> P (hp s) ->
  wp (relocate_exec c src dst n exec) s
     (fun _ s' => moved_range src dst n fp (hp s) (hp s') /\ R (hp s) (hp s'))
     (fun s' => unchanged (hp s) (hp s')).
Proof.
  intros c s Hpre HP.
  assert (Hfp_s : forall l j, j < n -> fp l -> src j <> l) by (intros l j Hj F X; subst; destruct (Hfp j Hj) as [A B]; auto).
  assert (Hfp_d : forall l j, j < n -> fp l -> dst j <> l) by (intros l j Hj F X; subst; destruct (Hfp j Hj) as [A B]; auto).
  unfold relocate_exec. destruct (nothrow c) eqn:Hc.
  - (* nothrow relocatable: exec first, then the relocation loop which cannot fail *)
    assert (c = NTM) by (destruct c; simpl in Hc; congruence). subst c.
    apply wp_bind. apply (ex_run _ _ _ _ Hex s HP).
    + intros s' H'. apply heq_unchanged; auto.
    + intros s1 Ag Hr HR.
      assert (Hpre1 : range_pre src dst n (hp s1)).
      { eapply range_pre_transport; eauto. eapply agree_weaken; [|exact Ag].
        intros l [[j [Hj El]]|[j [Hj El]]]; subst l; apply Hfp; lia. }
      destruct Hpre1 as [C SD DD SS].
      apply wp_relocate_from.
      * intros j Hj; apply C; lia.
      * intros; apply SD; lia.
      * intros; apply DD; lia.
      * intros; apply SS; lia.
      * intros s' [R1 R2 R3 R4 R5]. simpl in *. split.
        -- split.
           ++ intros j Hj. rewrite R1 by lia. apply (ag_mem _ _ _ Ag). apply Hfp; auto.
           ++ intros j Hj. apply R2; lia.
           ++ intros l Hl Hs Hd. rewrite R3. apply (ag_mem _ _ _ Ag); auto.
              intros; apply Hs; lia. intros; apply Hd; lia.
           ++ eapply agree_trans; [|exact R4]. eapply agree_weaken; [|exact Ag]. intros; contradiction.
           ++ intros r _. rewrite R5. apply Hr.
        -- apply (ex_R_local _ _ _ _ Hex (hp s) (hp s1)); auto.
           ++ apply agree_refl.
           ++ destruct R4. split; auto. intros l F. apply R3; intros j Hj.
              apply Hfp_s; auto; lia. apply Hfp_d; auto; lia.
  - (* copy all, run exec, destroy the sources; on failure destroy the copies *)
    apply wp_bind, wp_setr. intros s0 H0.
    assert (Hm0 : forall l, mem (hp s0) l = mem (hp s) l) by (intros; apply (hq_mem _ _ H0)).
    assert (Hsh0 : agree (fun _ => True) (hp s) (hp s0)).
    { destruct H0; split; auto. }
    assert (Hf0 : fields_same (hp s) (hp s0)).
    { intros r Hr. rewrite (hq_regs _ _ H0). apply regs_hsetr_other. unfold rIndex; lia. }
    assert (Hi0 : regs (hp s0) rIndex = 0) by (rewrite (hq_regs _ _ H0); apply regs_hsetr_same).
    assert (Hpre0 : range_pre src dst n (hp s0)).
    { eapply range_pre_transport; [exact Hpre|]. eapply agree_weaken; [|exact Hsh0]. intros; exact I. }
    pose proof Hpre as Hpre'. destruct Hpre0 as [C SD DD SS].
    apply wp_bind. apply wp_try. apply wp_bind.
    apply wp_copy_from with (i := 0).
    + intros j Hj. apply C; lia.
    + intros; apply SD; lia.
    + intros; apply DD; lia.
    + exact Hi0.
    + (* a copy failed *)
      intros cur s1 Hcur [K1 K2 K3 K4 K5].
      eapply wp_relocate_handler with (cur := cur); eauto; try lia.
      * eapply agree_compose; [exact Hsh0| |exact K3]. intros l Hl. apply K2. intros; apply Hl; lia.
      * intros j Hj. rewrite K1 by lia. destruct (C j ltac:(lia)) as [_ [_ [[v V] _]]]. rewrite V; discriminate.
      * intros r Hr. rewrite K5 by (unfold rIndex; lia). apply Hf0; auto.
    + (* all copied: run exec *)
      intros s1 [K1 K2 K3 K4 K5]. simpl in K4.
      assert (Ag1 : agree (fun l => forall j, j < n -> dst j <> l) (hp s) (hp s1)).
      { eapply agree_compose; [exact Hsh0| |exact K3]. intros l Hl. apply K2. intros; apply Hl; lia. }
      assert (Hf1 : fields_same (hp s) (hp s1)).
      { intros r Hr. rewrite K5 by (unfold rIndex; lia). apply Hf0; auto. }
      assert (HP1 : P (hp s1)).
      { apply (ex_P_local _ _ _ _ Hex (hp s)); auto. eapply agree_weaken; [|exact Ag1].
        intros l F j Hj. apply Hfp_d; auto. }
      apply (ex_run _ _ _ _ Hex s1 HP1).
      * (* exec failed *)
        intros s2 H2.
        eapply wp_relocate_handler with (cur := n); eauto.
        -- eapply agree_trans; [exact Ag1|]. apply heq_agree; auto.
        -- intros j Hj. rewrite (hq_mem _ _ H2), K1 by lia.
           destruct (C j ltac:(lia)) as [_ [_ [[v V] _]]]. rewrite V; discriminate.
        -- rewrite (hq_regs _ _ H2). exact K4.
        -- intros r Hr. rewrite (hq_regs _ _ H2). apply Hf1; auto.
      * (* exec succeeded: destroy the sources *)
        intros s2 Ag2 Hr2 HR2.
        apply wp_destroy_from.
        -- intros j Hj. destruct (C j ltac:(lia)) as [A [_ [[v V] _]]].
           rewrite (agree_valid _ _ _ _ Ag2), (agree_valid _ _ _ _ K3), A. split; auto.
           rewrite (ag_mem _ _ _ Ag2) by (apply Hfp; lia).
           rewrite K2 by (intros k Hk X; symmetry in X; revert X; apply SD; lia). rewrite V; discriminate.
        -- intros; apply SS; lia.
        -- intros s3 [D1 D2 D3 D4]. simpl in *. split.
           ++ split.
              ** intros j Hj. rewrite D2 by (intros k Hk; apply SD; lia).
                 rewrite (ag_mem _ _ _ Ag2) by (apply Hfp; lia). rewrite K1 by lia. apply Hm0.
              ** intros j Hj. apply D1; lia.
              ** intros l Hl Hs Hd. rewrite D2 by (intros; apply Hs; lia).
                 rewrite (ag_mem _ _ _ Ag2) by auto. apply (ag_mem _ _ _ Ag1). auto.
              ** eapply agree_trans; [|exact D3]. eapply agree_trans; [|eapply agree_weaken; [|exact Ag2]; intros; contradiction].
                 eapply agree_weaken; [|exact Ag1]. intros; contradiction.
              ** intros r Hr. rewrite D4, Hr2. apply Hf1; auto.
           ++ apply (ex_R_local _ _ _ _ Hex (hp s1) (hp s2)); auto.
              ** apply agree_sym. eapply agree_weaken; [|exact Ag1]. intros l F j Hj. apply Hfp_d; auto.
              ** destruct D3. split; auto. intros l F. apply D2. intros j Hj. apply Hfp_s; auto; lia.
Qed.
End RelocateExec.

(* ---- concrete executors ---------------------------------------------------------------------------- *)
(* Creator<const Item&>: copy-construct the new object from an argument object *)
Definition creator_copy (a : loc) : loc -> M unit := fun l => copy_construct a l.
(* Creator<Item&&>: move-construct the new object from an argument object *)
Definition creator_move (c : cat) (a : loc) : loc -> M unit := fun l => move_construct c a l.

Definition two (a b : loc) : loc -> Prop := fun l => l = a \/ l = b.

Lemma creator_move_spec : forall c a l v, a <> l ->
  exec_spec (creator_move c a l) (two a l)
    (fun h => valid h a = true /\ valid h l = true /\ mem h a = Live v /\ mem h l = Raw)
    (fun h h' => mem h' l = Live v /\ mem h' a = src_after c v).
Proof.
  intros c a l v Hne. split.
  - intros s [Va [Vl [Ma Ml]]] Q E HE HQ. unfold creator_move.
    eapply wp_move_construct; eauto.
    intros s' H'. apply HQ.
    + destruct H' as [Hm Ha Hb Hn Hr]. split; auto. intros x Hx. rewrite Hm. unfold two in Hx.
      rewrite !mem_hset_other; auto.
    + intros r. apply (hq_regs _ _ H').
    + rewrite !(hq_mem _ _ H'). rewrite mem_hset_same. rewrite mem_hset_other, mem_hset_same; auto.
  - intros h h' Ag [Va [Vl [Ma Ml]]]. rewrite !(agree_valid _ _ _ _ Ag).
    rewrite !(ag_mem _ _ _ Ag) by (unfold two; auto). auto.
  - intros x y x' y' _ Ag [A B]. rewrite !(ag_mem _ _ _ Ag) by (unfold two; auto). auto.
Qed.

Lemma creator_copy_spec : forall a l v, a <> l ->
  exec_spec (creator_copy a l) (two a l)
    (fun h => valid h a = true /\ valid h l = true /\ mem h a = Live v /\ mem h l = Raw)
    (fun h h' => mem h' l = Live v /\ mem h' a = Live v).
Proof. intros. exact (creator_move_spec CPY a l v H). Qed.

(* ---- CopyExec ------------------------------------------------------------------------------------- *)
Section CopyMoveExec.
Variables (sl dl : loc) (v : nat) (exec : M unit) (fp : loc -> Prop) (P : heap -> Prop) (R : heap -> heap -> Prop).
Hypothesis Hex : exec_spec exec fp P R.
Hypothesis Hne : sl <> dl.
Hypothesis Hfps : ~ fp sl.
Hypothesis Hfpd : ~ fp dl.

Definition one_pre (h : heap) : Prop :=
  valid h sl = true /\ valid h dl = true /\ mem h sl = Live v /\ mem h dl = Raw.

Theorem copy_exec_spec : forall s, one_pre (hp s) -> P (hp s) ->
  wp (copy_exec sl dl exec) s
     (fun _ s' => mem (hp s') dl = Live v /\ mem (hp s') sl = Live v /\
                  (forall l, ~ fp l -> l <> dl -> mem (hp s') l = mem (hp s) l) /\
                  agree (fun _ => False) (hp s) (hp s') /\ fields_same (hp s) (hp s') /\ R (hp s) (hp s'))
     (fun s' => unchanged (hp s) (hp s')).
Proof.
  intros s [Vs [Vd [Ms Md]]] HP. unfold copy_exec.
  apply wp_bind. eapply wp_copy_construct; eauto.
  { intros s' H'. apply heq_unchanged; auto. }
  intros s1 H1.
  assert (Ag1 : agree (fun l => l <> dl) (hp s) (hp s1)).
  { destruct H1 as [Hm Ha Hb Hn Hr]. split; auto. intros l Hl. rewrite Hm. apply mem_hset_other; auto. }
  assert (HP1 : P (hp s1)).
  { apply (ex_P_local _ _ _ _ Hex (hp s)); auto. eapply agree_weaken; [|exact Ag1]. intros l F X; subst; auto. }
  apply wp_try. apply (ex_run _ _ _ _ Hex s1 HP1).
  - intros s2 H2.
    apply wp_bind. apply wp_destroy.
    + rewrite (heq_valid _ _ _ H2), (agree_valid _ _ _ _ Ag1); auto.
    + rewrite (hq_mem _ _ H2), (hq_mem _ _ H1), mem_hset_same. discriminate.
    + intros s3 H3. apply wp_throw. split.
      * intros l. rewrite (hq_mem _ _ H3). destruct (loc_eq_dec l dl) as [->|Hl].
        -- rewrite mem_hset_same; auto.
        -- rewrite mem_hset_other by auto. rewrite (hq_mem _ _ H2). apply (ag_mem _ _ _ Ag1); auto.
      * intros b. rewrite (hq_alive _ _ H3); simpl. rewrite (hq_alive _ _ H2). apply (ag_alive _ _ _ Ag1).
      * intros b. rewrite (hq_bsize _ _ H3); simpl. rewrite (hq_bsize _ _ H2). apply (ag_bsize _ _ _ Ag1).
      * rewrite (hq_next _ _ H3); simpl. rewrite (hq_next _ _ H2). apply (ag_next _ _ _ Ag1).
      * intros r _. rewrite (hq_regs _ _ H3); simpl. rewrite (hq_regs _ _ H2), (hq_regs _ _ H1). reflexivity.
  - intros s2 Ag2 Hr2 HR2. simpl.
    split; [|split; [|split; [|split; [|split]]]].
    + rewrite (ag_mem _ _ _ Ag2) by auto. rewrite (hq_mem _ _ H1). apply mem_hset_same.
    + rewrite (ag_mem _ _ _ Ag2) by auto. rewrite (ag_mem _ _ _ Ag1); auto.
    + intros l Hl Hd. rewrite (ag_mem _ _ _ Ag2) by auto. apply (ag_mem _ _ _ Ag1); auto.
    + eapply agree_trans; eapply agree_weaken; try eassumption; intros; contradiction.
    + intros r _. rewrite Hr2. rewrite (hq_regs _ _ H1). reflexivity.
    + apply (ex_R_local _ _ _ _ Hex (hp s1) (hp s2)); auto.
      * apply agree_sym. eapply agree_weaken; [|exact Ag1]. intros l F X; subst; auto.
      * apply agree_refl.
Qed.

(* MoveExec: all-or-nothing for everything except the moved-from argument object sl; with a throwing
   move the argument may be left moved-from (the source says: "srcObject has been changed!") *)
Theorem move_exec_spec : forall c s, one_pre (hp s) -> P (hp s) ->
  wp (move_exec c sl dl exec) s
     (fun _ s' => mem (hp s') dl = Live v /\ mem (hp s') sl = src_after c v /\
                  (forall l, ~ fp l -> l <> dl -> l <> sl -> mem (hp s') l = mem (hp s) l) /\
                  agree (fun _ => False) (hp s) (hp s') /\ fields_same (hp s) (hp s') /\ R (hp s) (hp s'))
     (fun s' => agree (fun l => l <> sl) (hp s) (hp s') /\ fields_same (hp s) (hp s') /\
                (c <> THM -> mem (hp s') sl = mem (hp s) sl)).
Proof.
  intros c s [Vs [Vd [Ms Md]]] HP. unfold move_exec. destruct (nothrow c) eqn:Hc.
  - assert (c = NTM) by (destruct c; simpl in Hc; congruence). subst c.
    apply wp_bind. apply (ex_run _ _ _ _ Hex s HP).
    + intros s' H'. split; [apply heq_agree; auto|split]. intros r _; apply (hq_regs _ _ H'). intros _; apply (hq_mem _ _ H').
    + intros s1 Ag1 Hr1 HR1.
      eapply wp_move_construct with (v := v); eauto.
      * rewrite (agree_valid _ _ _ _ Ag1); auto.
      * rewrite (agree_valid _ _ _ _ Ag1); auto.
      * rewrite (ag_mem _ _ _ Ag1); auto.
      * rewrite (ag_mem _ _ _ Ag1); auto.
      * intros C; contradiction C; reflexivity.
      * intros s2 H2. simpl. split; [|split; [|split; [|split; [|split]]]].
        -- rewrite (hq_mem _ _ H2). rewrite mem_hset_other, mem_hset_same; auto.
        -- rewrite (hq_mem _ _ H2). apply mem_hset_same.
        -- intros l Hl Hd Hs. rewrite (hq_mem _ _ H2), !mem_hset_other by auto. apply (ag_mem _ _ _ Ag1); auto.
        -- destruct H2 as [_ Ha Hb Hn _]. destruct Ag1 as [_ Ha1 Hb1 Hn1]. split; [contradiction| | |]; simpl in *; intros.
           ++ rewrite Ha; auto. ++ rewrite Hb; auto. ++ congruence.
        -- intros r _. rewrite (hq_regs _ _ H2). simpl. apply Hr1.
        -- apply (ex_R_local _ _ _ _ Hex (hp s) (hp s1)); auto. apply agree_refl.
           destruct H2 as [Hm Ha Hb Hn _]. split; auto. intros l F. rewrite Hm, !mem_hset_other; auto.
           intro; subst; auto. intro; subst; auto.
  - apply wp_bind. eapply wp_move_construct with (v := v); eauto.
    { intros _ s' H'. split; [apply heq_agree; auto|split]. intros r _; apply (hq_regs _ _ H'). intros _; apply (hq_mem _ _ H'). }
    intros s1 H1.
    assert (Ag1 : agree (fun l => l <> dl /\ l <> sl) (hp s) (hp s1)).
    { destruct H1 as [Hm Ha Hb Hn Hr]. split; auto. intros l [Hl Hl']. rewrite Hm, !mem_hset_other; auto. }
    assert (HP1 : P (hp s1)).
    { apply (ex_P_local _ _ _ _ Hex (hp s)); auto. eapply agree_weaken; [|exact Ag1]. intros l F; split; intro; subst; auto. }
    apply wp_try. apply (ex_run _ _ _ _ Hex s1 HP1).
    + intros s2 H2.
      apply wp_bind. apply wp_destroy.
      * rewrite (heq_valid _ _ _ H2), (agree_valid _ _ _ _ Ag1); auto.
      * rewrite (hq_mem _ _ H2), (hq_mem _ _ H1), mem_hset_other, mem_hset_same by auto. discriminate.
      * intros s3 H3. apply wp_throw. split; [|split].
        -- split.
           ++ intros l Hl. rewrite (hq_mem _ _ H3). destruct (loc_eq_dec l dl) as [->|Hd].
              ** rewrite mem_hset_same; auto.
              ** rewrite mem_hset_other by auto. rewrite (hq_mem _ _ H2). apply (ag_mem _ _ _ Ag1); auto.
           ++ intros b. rewrite (hq_alive _ _ H3); simpl. rewrite (hq_alive _ _ H2). apply (ag_alive _ _ _ Ag1).
           ++ intros b. rewrite (hq_bsize _ _ H3); simpl. rewrite (hq_bsize _ _ H2). apply (ag_bsize _ _ _ Ag1).
           ++ rewrite (hq_next _ _ H3); simpl. rewrite (hq_next _ _ H2). apply (ag_next _ _ _ Ag1).
        -- intros r _. rewrite (hq_regs _ _ H3); simpl. rewrite (hq_regs _ _ H2), (hq_regs _ _ H1). reflexivity.
        -- intros Hthm. rewrite (hq_mem _ _ H3), mem_hset_other by auto.
           rewrite (hq_mem _ _ H2), (hq_mem _ _ H1), mem_hset_same. destruct c; simpl in *; congruence.
    + intros s2 Ag2 Hr2 HR2. simpl. split; [|split; [|split; [|split; [|split]]]].
      * rewrite (ag_mem _ _ _ Ag2) by auto. rewrite (hq_mem _ _ H1). rewrite mem_hset_other, mem_hset_same; auto.
      * rewrite (ag_mem _ _ _ Ag2) by auto. rewrite (hq_mem _ _ H1). apply mem_hset_same.
      * intros l Hl Hd Hs. rewrite (ag_mem _ _ _ Ag2) by auto. apply (ag_mem _ _ _ Ag1); auto.
      * eapply agree_trans; eapply agree_weaken; try eassumption; intros; contradiction.
      * intros r _. rewrite Hr2. rewrite (hq_regs _ _ H1). reflexivity.
      * apply (ex_R_local _ _ _ _ Hex (hp s1) (hp s2)); auto.
        -- apply agree_sym. eapply agree_weaken; [|exact Ag1]. intros l F; split; intro; subst; auto.
        -- apply agree_refl.
Qed.
End CopyMoveExec.

(* ---- RelocateCreate and Relocate(range) ------------------------------------------------------------ *)
Theorem relocate_create_spec : forall c src dst n (creator : loc -> M unit) newl fp P R s,
  exec_spec (creator newl) fp P R ->
  (forall j, j < n -> ~ fp (src j) /\ ~ fp (dst j)) ->
  range_pre src dst n (hp s) -> P (hp s) ->
  wp (relocate_create c src dst n creator newl) s
     (fun _ s' => moved_range src dst n fp (hp s) (hp s') /\ R (hp s) (hp s'))
     (fun s' => unchanged (hp s) (hp s')).
Proof. intros. unfold relocate_create. eapply relocate_exec_spec; eauto. Qed.

Theorem relocate_range_spec : forall c src dst n s,
  range_pre src dst n (hp s) ->
  wp (relocate_range c src dst n) s
     (fun _ s' => moved_range src dst n (fun _ => False) (hp s) (hp s'))
     (fun s' => unchanged (hp s) (hp s')).
Proof.
  intros c src dst n s Hpre. unfold relocate_range. destruct (nothrow c) eqn:Hc.
  - assert (c = NTM) by (destruct c; simpl in Hc; congruence). subst c.
    destruct Hpre as [C SD DD SS].
    apply wp_relocate_from.
    + intros j Hj; apply C; lia. + intros; apply SD; lia. + intros; apply DD; lia. + intros; apply SS; lia.
    + intros s' [R1 R2 R3 R4 R5]. split; auto.
      * intros; apply R1; lia. * intros; apply R2; lia.
      * intros l _ Hs Hd. apply R3; intros; [apply Hs|apply Hd]; lia.
      * intros r _. apply R5.
  - destruct n as [|m].
    + apply wp_ret. split; auto; try (intros; lia). apply agree_refl. intros r _; reflexivity.
    + destruct Hpre as [C SD DD SS].
      destruct (C 0 ltac:(lia)) as [V0s [V0d [[v M0s] M0d]]].
      assert (Hne : src 0 <> dst 0) by (apply SD; lia).
      apply wp_bind.
      eapply wp_mono.
      * eapply relocate_create_spec with (fp := two (src 0) (dst 0)).
        -- apply (creator_move_spec c (src 0) (dst 0) v Hne).
        -- intros j Hj. unfold two. split; intros [X|X].
           ++ revert X. apply SS; lia.
           ++ revert X. apply SD; lia.
           ++ symmetry in X. revert X. apply SD; lia.
           ++ revert X. apply DD; lia.
        -- split.
           ++ intros j Hj. apply C; lia.
           ++ intros; apply SD; lia.
           ++ intros; apply DD; lia.
           ++ intros; apply SS; lia.
        -- simpl. auto.
      * intros _ s1 [[R1 R2 R3 R4 R5] [Rd Rs]]. simpl in *.
        apply wp_destroy.
        -- rewrite (agree_valid _ _ _ _ R4); auto.
        -- rewrite Rs. destruct c; discriminate.
        -- intros s2 H2. split.
           ++ intros j Hj. rewrite (hq_mem _ _ H2). rewrite mem_hset_other by (intro X; symmetry in X; revert X; apply SD; lia).
              destruct j as [|j]. { rewrite Rd; auto. } apply R1; lia.
           ++ intros j Hj. rewrite (hq_mem _ _ H2). destruct j as [|j]. { apply mem_hset_same. }
              rewrite mem_hset_other by (apply SS; lia). apply R2; lia.
           ++ intros l _ Hs Hd. rewrite (hq_mem _ _ H2). rewrite mem_hset_other by (intro X; symmetry in X; revert X; apply Hs; lia).
              apply R3.
              ** unfold two. intros [X|X]; symmetry in X; revert X; [apply Hs|apply Hd]; lia.
              ** intros; apply Hs; lia.
              ** intros; apply Hd; lia.
           ++ eapply agree_trans; [exact R4|]. destruct H2 as [_ Ha Hb Hn _]. split; [contradiction|exact Ha|exact Hb|exact Hn].
           ++ intros r Hr. rewrite (hq_regs _ _ H2). simpl. apply R5; auto.
      * intros s' H'. exact H'.
Qed.

Lemma relocate_exec_explicit :
  forall (src dst : nat -> loc) (n : nat) (exec : M unit) (fp : loc -> Prop) (P : heap -> Prop) (R : heap -> heap -> Prop),
    exec_spec exec fp P R -> (forall j, j < n -> ~ fp (src j) /\ ~ fp (dst j)) ->
    forall c s, range_pre src dst n (hp s) -> P (hp s) ->
      (forall s', relocate_exec c src dst n exec s = (Exn, s') -> unchanged (hp s) (hp s')) /\
      (forall s', relocate_exec c src dst n exec s <> (Stuck, s')) /\
      (forall s', relocate_exec c src dst n exec s = (Ok tt, s') -> moved_range src dst n fp (hp s) (hp s')).
Proof.
  intros src dst n exec fp P R Hex Hfp c s Hpre HP.
  pose proof (relocate_exec_spec src dst n exec fp P R Hex Hfp c s Hpre HP) as W.
  unfold wp in W. split; [|split]; intros s' E; rewrite E in W; auto. apply W.
Qed.
