(* C13 model driver: one case per line, one result line per case.
   o2 s0 s1 p1 p2 ...      Open2N2: run UpdateMaxProbe for each p; print final s0 s1 bound count
   n1 M x L p1 p2 ...      OpenN1<maxCount=M>: mData[M]=x; print final byte, GetMaxProbe(L)
   nx kind i bc p          GetNextBucketIndex (kind o2|o8)
*)
open Zutil
open GenPrelude
let arr2 a b = fun i -> if int_of_z i = 0 then a else if int_of_z i = 1 then b else z_of_int 0
let () = iter_lines (fun line ->
  match words line with
  | "o2" :: s0 :: s1 :: ps ->
    let st = ref (arr2 (z_of_string s0) (z_of_string s1)) in
    let bad = ref "" in
    Stdlib.List.iter (fun p -> match Gen_Open2N2.coq_UpdateMaxProbe !st (z_of_string p) with
      | Ok (_, s') -> st := s'
      | Stuck -> bad := "Stuck" | Fuel -> bad := "Fuel" | Exn -> bad := "Exn") ps;
    if !bad <> "" then print_endline !bad else
    Printf.printf "%s %s %s %s\n" (string_of_z (!st (z_of_int 0))) (string_of_z (!st (z_of_int 1)))
      (string_of_z (Gen_Open2N2.pvGetMaxProbe !st)) (string_of_z (Gen_Open2N2.pvGetCount !st))
  | "n1" :: m :: x :: l :: ps ->
    let mc = z_of_string m in
    let st = ref (fun i -> if int_of_z i = int_of_z mc then z_of_string x else z_of_int 248) in
    let bad = ref "" in
    Stdlib.List.iter (fun p -> match Gen_OpenN1.coq_UpdateMaxProbe mc !st (z_of_string p) with
      | Ok (_, s') -> st := s'
      | Stuck -> bad := "Stuck" | Fuel -> bad := "Fuel" | Exn -> bad := "Exn") ps;
    if !bad <> "" then print_endline !bad else
    Printf.printf "%s %s\n" (string_of_z (!st mc)) (string_of_z (Gen_OpenN1.coq_GetMaxProbe mc !st (z_of_string l)))
  | ["nx"; kind; i; bc; p] ->
    let f = if kind = "o2" then Gen_Open2N2.coq_GetNextBucketIndex else Gen_Open8.coq_GetNextBucketIndex in
    print_endline (string_of_z (f (z_of_string i) (z_of_string bc) (z_of_string p)))
  | "bops" :: "o2" :: mcs :: _ :: toks ->
    let mc = z_of_string mcs in let mci = int_of_string mcs in
    (* one BucketOpen2N2<3> bucket: generated AddCrt / Remove / UpdateMaxProbe / Clear; dump all bookkeeping bytes *)
    let zf = (fun _ -> z_of_int 0) in
    let (m0, s0) = Gen_Open2N2_ops.pvSetEmpty mc zf zf zf in
    let st = ref (m0, s0, zf) in let bad = ref "" in
    Stdlib.List.iter (fun tok -> if !bad = "" then begin
      let (m, s, h) = !st in
      let f = Stdlib.List.map z_of_string (Stdlib.List.tl (String.split_on_char ':' tok)) in
      match tok.[0], f with
      | 'A', [hc; lbc; pr] -> (match Gen_Open2N2_ops.coq_AddCrt mc m s h hc lbc pr (z_of_int 0) with
          | Ok (((_, m'), s'), h') -> st := (m', s', h') | _ -> bad := "stuck")
      | 'R', [j] -> (match Gen_Open2N2_ops.coq_Remove mc m s h (z_of_int (mci - 1 - int_of_z j)) with
          | Ok (((_, m'), s'), h') -> st := (m', s', h') | _ -> bad := "stuck")
      | 'U', [p] -> (match Gen_Open2N2_ops.coq_UpdateMaxProbe m s h p with Ok (_, m') -> st := (m', s, h) | _ -> bad := "stuck")
      | _ -> let (m', s') = Gen_Open2N2_ops.coq_Clear mc m s h in st := (m', s', h) end) toks;
    if !bad <> "" then print_endline !bad else begin
      let (m, s, h) = !st in let g f i = string_of_z (f (z_of_int i)) in
      Printf.printf "%s %s " (g m 0) (g m 1);
      for i = 0 to mci - 1 do Printf.printf "%s " (g s i) done;
      for i = 0 to mci - 1 do Printf.printf "%s " (g h i) done;
      Printf.printf "%s %s\n" (string_of_z (Gen_Open2N2_ops.pvGetCount m s h)) (string_of_z (Gen_Open2N2_ops.pvGetMaxProbe m s h)) end
  | "bops" :: (("n1" | "n1f") as knd) :: mcs :: l :: toks ->
    let mc = z_of_string mcs in let rv = (knd = "n1") in
    let st = ref (Gen_OpenN1_ops.pvSetEmpty mc (fun _ -> z_of_int 0)) in let bad = ref "" in
    Stdlib.List.iter (fun tok -> if !bad = "" then begin
      let d = !st in
      let f = Stdlib.List.map z_of_string (Stdlib.List.tl (String.split_on_char ':' tok)) in
      match tok.[0], f with
      | 'A', [hc; _; _] -> (match Gen_OpenN1_ops.coq_AddCrt rv mc d hc (z_of_int 0) with Ok (_, d') -> st := d' | _ -> bad := "stuck")
      | 'R', [j] -> (match Gen_OpenN1_ops.coq_Remove rv mc d j with Ok (_, d') -> st := d' | _ -> bad := "stuck")
      | 'U', [p] -> (match Gen_OpenN1.coq_UpdateMaxProbe mc d p with Ok (_, d') -> st := d' | _ -> bad := "stuck")
      | _ -> st := Gen_OpenN1_ops.coq_Clear mc d end) toks;
    if !bad <> "" then print_endline !bad else begin
      let d = !st in
      for i = 0 to int_of_z mc do Printf.printf "%s " (string_of_z (d (z_of_int i))) done;
      Printf.printf "%s %s\n" (string_of_z (Gen_OpenN1_ops.pvGetCount rv mc d)) (string_of_z (Gen_OpenN1.coq_GetMaxProbe mc d (z_of_string l))) end
  | "tblm" :: kind :: n :: _ :: toks ->
    (* table-level model: insertions (key:hash) and removals (-key) from the table of freshly constructed buckets;
       dump buckets + bounds + count bits + finds *)
    let nz = z_of_string n and ni = int_of_string n in
    let bc = z_of_zarith (Z.shift_left Z.one ni) in
    let ops = Stdlib.List.map (fun t -> if t.[0] = '-' then (false, z_of_string (String.sub t 1 (String.length t - 1)), z_of_int 0)
      else match String.split_on_char ':' t with [k; h] -> (true, z_of_string k, z_of_string h) | _ -> failwith "kh") toks in
    let pairs = Stdlib.List.filter_map (fun (a, k, h) -> if a then Some (k, h) else None) ops in
    let hcode k = let rec go = function [] -> z_of_int 0 | (k', hc) :: r -> if string_of_z k' = string_of_z k then hc else go r in go pairs in
    let h k = Gen_BucketBase.coq_GetStartBucketIndex (hcode k) bc in
    let full = ref false in
    let present = Hashtbl.create 64 and removed = Hashtbl.create 64 in
    let dump bkf decf cntf =
      let buf = Buffer.create 256 in
      for i = 0 to (1 lsl ni) - 1 do
        let items = Stdlib.List.map (fun z -> Z.to_string (zarith_of_z z)) (bkf (z_of_int i)) in
        if items <> [] || string_of_z (decf (z_of_int i)) <> "0" then
          Buffer.add_string buf (Printf.sprintf "%d:[%s]:%s:%s;" i (Stdlib.String.concat "," (Stdlib.List.sort (fun a b -> compare (Z.of_string a) (Z.of_string b)) items))
            (string_of_z (decf (z_of_int i))) (string_of_z (cntf (z_of_int i))))
      done; Buffer.contents buf in
    let locate bkf k = let r = ref (-1) in
      for i = 0 to (1 lsl ni) - 1 do if !r < 0 && Stdlib.List.exists (fun x -> string_of_z x = string_of_z k) (bkf (z_of_int i)) then r := i done; !r in
    let z0 = z_of_int 0 in
    (* the extracted tables are chains of closures (one layer per operation); re-tabulate after every step so a lookup stays O(1).
       Semantically the identity on [0, 2^n): same bk / bd values at every bucket index. *)
    let flatten : 'a. 'a OpenTable.table -> 'a OpenTable.table = fun s ->
      let nb = 1 lsl ni in
      let a = Array.init nb (fun i -> OpenTable.bk s (z_of_int i)) and d = Array.init nb (fun i -> OpenTable.bd s (z_of_int i)) in
      { OpenTable.bk = (fun i -> let j = int_of_z i in if j >= 0 && j < nb then a.(j) else OpenTable.bk s i);
        OpenTable.bd = (fun i -> let j = int_of_z i in if j >= 0 && j < nb then d.(j) else OpenTable.bd s i) } in
    if kind = "o2" || kind = "o2f" then begin
      let st = Stdlib.List.fold_left (fun s0 (a, k, _) -> let s = flatten s0 in
        if a then (* insertion = the GENERATED HashSet::pvAddNogrow<false> run on the model table (proved equal to OpenTable.add) *)
          (match OpenInstances.o2_gen_add (z_of_int 3) nz hcode s z0 k with
          | Ok ((_, s'), _) -> Hashtbl.replace present (string_of_z k) k; Hashtbl.remove removed (string_of_z k); s'
          | Exn -> full := true; s
          | _ -> failwith "generated pvAddNogrow: Stuck/Fuel")
        else (let b = locate (OpenTable.bk s) k in
          if b < 0 then s else begin
            Hashtbl.remove present (string_of_z k); Hashtbl.replace removed (string_of_z k) k;
            let len = Stdlib.List.length (OpenTable.bk s (z_of_int b)) in
            OpenTable.remove (BucketOps.O2.remP (z_of_int 3)) s (z_of_int b) k (((z_of_int (3 - len), z0), z0), z0) end)) (OpenInstances.o2_empty (z_of_int 3)) ops in
      (* lookups = the GENERATED HashSet::pvFind(indexCode, buckets, pred) run on the model table (proved to give the verdict of
         OpenTable.find); a reported bucket must hold the key; the hand search must agree *)
      let gfind k = (match OpenInstances.o2_gen_find nz hcode st k with
        | Ok (r, ic) -> let hit = string_of_z r <> "0" in
            if hit && not (Stdlib.List.exists (fun x -> string_of_z x = string_of_z k) (OpenTable.bk st ic)) then failwith "generated pvFind: wrong bucket";
            if hit <> OpenInstances.o2_find nz h st k then failwith "generated pvFind <> model find";
            hit
        | _ -> failwith "generated pvFind: Stuck/Fuel/Exn") in
      let ok = Hashtbl.fold (fun _ k acc -> acc && gfind k) present true
            && Hashtbl.fold (fun _ k acc -> acc && not (gfind k)) removed true in
      Printf.printf "%s found=%b full=%b badfull=false\n"
        (dump (OpenTable.bk st) (fun i -> BucketOps.O2.dec (OpenTable.bd st i)) (fun i -> BucketOps.O2.cnt (OpenTable.bd st i))) ok !full
    end else begin
      let mc = z_of_int 7 in
      let st = Stdlib.List.fold_left (fun s0 (a, k, _) -> let s = flatten s0 in
        if a then (match OpenInstances.n1_gen_add false mc nz hcode s z0 k with
          | Ok ((_, s'), _) -> Hashtbl.replace present (string_of_z k) k; Hashtbl.remove removed (string_of_z k); s'
          | Exn -> full := true; s
          | _ -> failwith "generated pvAddNogrow: Stuck/Fuel")
        else (let b = locate (OpenTable.bk s) k in
          if b < 0 then s else begin
            Hashtbl.remove present (string_of_z k); Hashtbl.replace removed (string_of_z k) k;
            OpenTable.remove (BucketOps.N1.remP false mc) s (z_of_int b) k (((z0, z0), z0), z0) end)) (OpenInstances.n1_empty mc) ops in
      let gfind k = (match OpenInstances.n1_gen_find mc nz hcode st k with
        | Ok (r, ic) -> let hit = string_of_z r <> "0" in
            if hit && not (Stdlib.List.exists (fun x -> string_of_z x = string_of_z k) (OpenTable.bk st ic)) then failwith "generated pvFind: wrong bucket";
            if hit <> OpenInstances.n1_find mc nz h st k then failwith "generated pvFind <> model find";
            hit
        | _ -> failwith "generated pvFind: Stuck/Fuel/Exn") in
      let ok = Hashtbl.fold (fun _ k acc -> acc && gfind k) present true
            && Hashtbl.fold (fun _ k acc -> acc && not (gfind k)) removed true in
      Printf.printf "%s found=%b full=%b badfull=false\n"
        (dump (OpenTable.bk st) (fun i -> OpenInstances.n1_dec mc nz (OpenTable.bd st i)) (fun i -> BucketOps.N1.cnt false mc (OpenTable.bd st i))) ok !full
    end
  | _ -> print_endline "?")
