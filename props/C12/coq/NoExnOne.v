(* C12: BucketOne (one element per bucket, linear probing): migrating into a FRESH larger table cannot raise "Hash table is full". *)
From Coq Require Import ZArith Bool List Lia.
From MomoCommon Require Import GenPrelude.
From C12 Require Import Bits Known Gen_Base Gen_One TableOne TableOne_Proofs.
Import ListNotations.
Local Open Scope Z_scope.

Definition oc (b : obucket) : Z := if Gen_One.IsFull (ost b) then 1 else 0.
Fixpoint otot (n : nat) (t : otable) : Z := match n with O => 0 | S m => otot m t + oc (t (Z.of_nat m)) end.

Lemma oc_range b : 0 <= oc b <= 1.
Proof. unfold oc. destruct (Gen_One.IsFull (ost b)); lia. Qed.

Lemma otot_ext n t t' : (forall j, 0 <= j < Z.of_nat n -> oc (t' j) = oc (t j)) -> otot n t' = otot n t.
Proof. induction n as [|m IH]; intros H; [reflexivity|]. cbn [otot]. rewrite IH by (intros; apply H; lia). rewrite H by lia. reflexivity. Qed.

Lemma otot_upd n t t' idx d : 0 <= idx < Z.of_nat n ->
  (forall j, 0 <= j < Z.of_nat n -> oc (t' j) = if j =? idx then oc (t j) + d else oc (t j)) -> otot n t' = otot n t + d.
Proof.
  induction n as [|m IH]; intros Hi H; [lia|]. cbn [otot]. rewrite (H (Z.of_nat m)) by lia.
  destruct (Z.eqb_spec (Z.of_nat m) idx) as [E|E].
  - rewrite (otot_ext m t t'); [lia|]. intros j Hj. rewrite H by lia. destruct (Z.eqb_spec j idx); [lia|reflexivity].
  - rewrite IH; [lia|lia|]. intros j Hj. apply H. lia.
Qed.

Lemma otot_notfull n t : otot n t < Z.of_nat n -> exists b, 0 <= b < Z.of_nat n /\ Gen_One.IsFull (ost (t b)) = false.
Proof.
  induction n as [|m IH]; intros H; [cbn [otot] in H; lia|]. cbn [otot] in H.
  destruct (Gen_One.IsFull (ost (t (Z.of_nat m)))) eqn:E.
  - destruct IH as (b & Hb & Hc); [unfold oc in H; rewrite E in H; lia|]. exists b. split; [lia|exact Hc].
  - exists (Z.of_nat m). split; [lia|exact E].
Qed.

Lemma otot_ge n t i : 0 <= i < Z.of_nat n -> oc (t i) <= otot n t.
Proof.
  induction n as [|m IH]; intros Hi; [lia|]. cbn [otot].
  assert (Hm : 0 <= otot m t) by (clear IH Hi; induction m as [|k IHk]; cbn [otot]; [lia|pose proof (oc_range (t (Z.of_nat k))); lia]).
  pose proof (oc_range (t (Z.of_nat m))). destruct (Z.eq_dec i (Z.of_nat m)) as [->|]; [lia|]. specialize (IH ltac:(lia)). lia.
Qed.

Lemma otot_le n t : otot n t <= Z.of_nat n.
Proof. induction n as [|m IH]; cbn [otot]; [lia|]. pose proof (oc_range (t (Z.of_nat m))). lia. Qed.

Lemma otot_empty n : otot n oempty_table = 0.
Proof. induction n as [|m IH]; cbn [otot]; [reflexivity|]. rewrite IH. reflexivity. Qed.

Lemma olidx_covers L start b : 0 <= L -> 0 <= b < 2 ^ L -> exists p, 0 <= p < 2 ^ L /\ olidx L start p = b.
Proof.
  intros HL Hb. assert (Hpos : 0 < 2 ^ L) by (apply pow2_pos; lia).
  exists ((b - start) mod 2 ^ L). split; [apply Z.mod_pos_bound; lia|].
  unfold olidx. rewrite Zplus_mod_idemp_r. replace (start + (b - start)) with b by ring. apply Z.mod_small. lia.
Qed.

Lemma oprobe_loop_exn L t start : 0 <= L <= 63 -> forall fuel probe,
  0 <= probe < 2 ^ L -> (Z.to_nat (2 ^ L - probe) <= fuel)%nat ->
  oprobe_loop fuel t (2 ^ L) (olidx L start probe) probe = Exn ->
  forall p, probe <= p < 2 ^ L -> Gen_One.IsFull (ost (t (olidx L start p))) = true.
Proof.
  intros HL. assert (2 ^ L <= 2 ^ 63) by (apply pow2_le_mono; lia).
  induction fuel as [|f IH]; intros probe Hp Hf; [lia|].
  cbn [oprobe_loop]. destruct (Gen_One.IsFull _) eqn:Hfull; [|discriminate].
  rewrite (wrapU_small 64 (probe + 1)) by (change (2 ^ 64) with (2 * 2 ^ 63); lia).
  destruct (Z.geb_spec (probe + 1) (2 ^ L)).
  - intros _ p Hpp. replace p with probe by lia. exact Hfull.
  - rewrite onext_lidx by lia. intros E p Hpp. destruct (Z.eq_dec p probe) as [->|]; [exact Hfull|].
    apply (IH (probe + 1)); [lia|lia|exact E|lia].
Qed.

Section ONE.
Variable hash : Z -> Z.
Hypothesis hash_range : forall k, 0 <= hash k < 2 ^ 64.

(* pvAddNogrow on a BucketOne table throws only when every bucket is full; on success exactly one empty bucket becomes full *)
Lemma oadd_nogrow_count L t code key : 0 <= L <= 63 ->
  match oadd_nogrow t L code key with
  | Ok t' => exists idx, 0 <= idx < 2 ^ L /\ forall j, oc (t' j) = if Z.eqb j idx then oc (t j) + 1 else oc (t j)
  | Exn => forall b, 0 <= b < 2 ^ L -> Gen_One.IsFull (ost (t b)) = true
  | _ => False
  end.
Proof.
  intros HL.
  assert (Hpos : 0 < 2 ^ L) by (apply pow2_pos; lia). assert (Hle : 2 ^ L <= 2 ^ 63) by (apply pow2_le_mono; lia).
  unfold oadd_nogrow. rewrite shl1_pow2 by lia. rewrite (wrapU_small 64 (2 ^ L)) by (change (2 ^ 64) with (2 * 2 ^ 63); lia).
  set (start := Gen_Base.GetStartBucketIndex code (2 ^ L)).
  assert (Hhome : 0 <= start < 2 ^ L) by (unfold start; rewrite start_mod by lia; apply Z.mod_pos_bound; lia).
  pose proof (oprobe_loop_spec L t start HL (S (Z.to_nat (2 ^ L))) 0 ltac:(lia) ltac:(lia)) as Hloop.
  pose proof (oprobe_loop_exn L t start HL (S (Z.to_nat (2 ^ L))) 0 ltac:(lia) ltac:(lia)) as Hexn.
  assert (E0 : olidx L start 0 = start) by (unfold olidx; rewrite Z.add_0_r; apply Z.mod_small; lia).
  rewrite E0 in Hloop, Hexn.
  destruct (oprobe_loop _ t (2 ^ L) start 0) as [[idx p]| | |]; try contradiction.
  - destruct Hloop as (Hp & Hidx & Hfull & Hpath).
    unfold Gen_One.AddCrt. rewrite Hfull. cbn [negb].
    exists idx. split; [rewrite Hidx; apply Z.mod_pos_bound; lia|].
    intros j. unfold otupd. destruct (Z.eqb_spec j idx) as [->|]; [|reflexivity].
    unfold oc. cbn [ost]. rewrite Hfull. destruct (state_facts code) as [Hsf _]. rewrite Hsf. reflexivity.
  - intros b Hb. destruct (olidx_covers L start b ltac:(lia) Hb) as (p & Hp & Hpb).
    specialize (Hexn eq_refl p ltac:(lia)). rewrite Hpb in Hexn. exact Hexn.
Qed.

Variables (L newL : Z).
Hypothesis HL : 0 <= L.
Hypothesis HnL : L < newL <= 63.
Notation ototL := (otot (Z.to_nat (2 ^ L))).
Notation ototN := (otot (Z.to_nat (2 ^ newL))).

Lemma orelocate_item_count told tnew i : OTinv hash L told -> OTinv hash newL tnew ->
  0 <= i < 2 ^ L -> Gen_One.IsFull (ost (told i)) = true -> ototN tnew < 2 ^ newL ->
  match orelocate_item hash told tnew newL i with
  | Ok (told', tnew') => ototL told' = ototL told - 1 /\ ototN tnew' = ototN tnew + 1
  | _ => False
  end.
Proof.
  intros Hold Hnew Hi Hf Htot.
  assert (HposL : 0 < 2 ^ L) by (apply pow2_pos; lia). assert (HposN : 0 < 2 ^ newL) by (apply pow2_pos; lia).
  pose proof (orelocate_item_spec hash hash_range L newL told tnew i HL HnL Hold Hnew Hi Hf) as Hspec.
  assert (Heq : exists told1 tnew1, orelocate_item hash told tnew newL i = Ok (told1, tnew1) /\ ototN tnew1 = ototN tnew + 1).
  { unfold orelocate_item.
    destruct (Hold i Hi Hf) as (Hs & _). set (key := oky (told i)) in *. pose proof (hash_range key) as Hh.
    rewrite Hs. rewrite one_getpart by assumption.
    pose proof (oadd_nogrow_count newL tnew (hash key mod 2 ^ 63) key ltac:(lia)) as Hc.
    destruct (oadd_nogrow tnew newL (hash key mod 2 ^ 63) key) as [tnew'| | |]; try contradiction.
    - destruct Hc as (ix & Hix & Hcj).
      unfold oremove_at, Gen_One.Remove. rewrite Z.eqb_refl. rewrite Hf.
      eexists. exists tnew'. split; [reflexivity|].
      rewrite (otot_upd (Z.to_nat (2 ^ newL)) tnew tnew' ix 1); [lia|lia|]. intros j _. apply Hcj.
    - exfalso. destruct (otot_notfull (Z.to_nat (2 ^ newL)) tnew ltac:(lia)) as (b1 & Hb1 & Hc1).
      rewrite (Hc b1) in Hc1 by lia. discriminate. }
  destruct Heq as (told1 & tnew1 & E & Htn). rewrite E in Hspec |- *.
  destruct Hspec as (_ & _ & Hc1 & Hfr & _).
  split; [|exact Htn].
  rewrite (otot_upd (Z.to_nat (2 ^ L)) told told1 i (-1)); [lia|lia|].
  intros j Hj. destruct (Z.eqb_spec j i) as [->|Hne']; [unfold oc; rewrite Hc1, Hf; reflexivity|]. rewrite Hfr by assumption. reflexivity.
Qed.

Lemma omigrate_from_ok : forall n i told tnew, OTinv hash L told -> OTinv hash newL tnew ->
  ototL told + ototN tnew <= 2 ^ L -> 0 <= i -> i + Z.of_nat n <= 2 ^ L ->
  match omigrate_from hash n told tnew newL i with
  | Ok (told', tnew') => OTinv hash L told' /\ OTinv hash newL tnew' /\ ototL told' + ototN tnew' = ototL told + ototN tnew
  | _ => False
  end.
Proof.
  assert (Hlt : 2 ^ L < 2 ^ newL) by (apply Z.pow_lt_mono_r; lia). assert (HposL : 0 < 2 ^ L) by (apply pow2_pos; lia).
  induction n as [|m IH]; intros i told tnew Hold Hnew Hsum Hi Hin; cbn [omigrate_from].
  - split; [assumption|]. split; [assumption|reflexivity].
  - destruct (Gen_One.IsFull (ost (told i))) eqn:Hf; [|apply IH; try assumption; lia].
    assert (Hge : oc (told i) <= ototL told) by (apply otot_ge; lia).
    unfold oc in Hge. rewrite Hf in Hge.
    pose proof (orelocate_item_count told tnew i Hold Hnew ltac:(lia) Hf ltac:(lia)) as Hcnt.
    pose proof (orelocate_item_spec hash hash_range L newL told tnew i HL HnL Hold Hnew ltac:(lia) Hf) as Hspec.
    destruct (orelocate_item hash told tnew newL i) as [[told1 tnew1]| | |]; try contradiction.
    destruct Hcnt as [Ht1 Ht2]. destruct Hspec as (Ho1 & Hn1 & _).
    specialize (IH (i + 1) told1 tnew1 Ho1 Hn1 ltac:(lia) ltac:(lia) ltac:(lia)).
    destruct (omigrate_from hash m told1 tnew1 newL (i + 1)) as [[told2 tnew2]| | |]; try contradiction.
    destruct IH as (Ho2 & Hn2 & Hs2). split; [assumption|]. split; [assumption|lia].
Qed.

(* BucketOne: migrating into a FRESH table of 2^newL > 2^L buckets never throws *)
Theorem omigrate_found_ok told : OTinv hash L told ->
  exists told' tnew, omigrate hash told L newL = Ok (told', tnew) /\ OTinv hash newL tnew /\
    (forall k, OPresent L told k -> OFound hash newL tnew k).
Proof.
  intros Hold. assert (HposL : 0 < 2 ^ L) by (apply pow2_pos; lia).
  pose proof (omigrate_found hash hash_range L newL told HL HnL Hold) as Hf. unfold omigrate in *.
  pose proof (omigrate_from_ok (Z.to_nat (2 ^ L)) 0 told oempty_table Hold (oempty_inv hash newL)) as Hok.
  rewrite otot_empty in Hok.
  specialize (Hok ltac:(pose proof (otot_le (Z.to_nat (2 ^ L)) told); lia) ltac:(lia) ltac:(lia)).
  destruct (omigrate_from hash (Z.to_nat (2 ^ L)) told oempty_table newL 0) as [[told' tnew]| | |]; try contradiction.
  exists told', tnew. split; [reflexivity|exact Hf].
Qed.
End ONE.
