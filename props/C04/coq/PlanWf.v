(* C04 -- the plans computed by GrowLeafNode / pvSplitNode (+ new root) are well formed, i.e. they satisfy the hypotheses of
   relocator_spec: a reflective checker over the (finite) plan + a soundness lemma + the finite enumeration of all plans of
   TreeNode<4, 2> root leaves.  Consequence: a single insertion into a full root leaf is strongly exception safe. *)
From Coq Require Import List Arith Lia Bool PeanoNat.
From C04 Require Import Effects ObjMgr ArrayData Relocator.
Import ListNotations.

Definition pair_eqb (a b : nat * nat) : bool := (fst a =? fst b) && (snd a =? snd b).
Lemma pair_eqb_false : forall a b, pair_eqb a b = false -> a <> b.
Proof. intros [a1 a2] [b1 b2] H E. inversion E; subst. unfold pair_eqb in H. simpl in H. rewrite !Nat.eqb_refl in H. discriminate. Qed.

Section Checker.
Variables (sizes : list nat) (segs : list seg) (nk ni : nat) (ic : nat).
Let count := segs_count segs.
Let srco (j : nat) : nat := snd (fst (seg_at segs j)).        (* offset of the j-th source in the old node *)
Let drel (j : nat) : nat * nat := snd (seg_at segs j).        (* (index of the new node, offset) of the j-th destination *)

Definition plan_check : bool :=
  forallb (fun j => (srco j <? ic) && (fst (drel j) <? length sizes) && (snd (drel j) <? nth (fst (drel j)) sizes 0)) (seq 0 count)
  && forallb (fun j => forallb (fun j' => (j =? j') || (negb (srco j =? srco j') && negb (pair_eqb (drel j) (drel j')))) (seq 0 count)) (seq 0 count)
  && (nk <? length sizes) && (ni <? nth nk sizes 0)
  && forallb (fun j => negb (pair_eqb (drel j) (nk, ni))) (seq 0 count)
  && forallb (fun x => existsb (fun j => srco j =? x) (seq 0 count)) (seq 0 ic)
  && negb (length sizes =? 0).

Hypothesis Hck : plan_check = true.

Lemma ck_bounds : forall j, j < count -> srco j < ic /\ fst (drel j) < length sizes /\ snd (drel j) < nth (fst (drel j)) sizes 0.
Proof.
  intros j Hj. pose proof Hck as K. unfold plan_check in K. repeat (apply andb_true_iff in K; destruct K as [K ?]).
  rewrite forallb_forall in K. specialize (K j). rewrite in_seq in K. specialize (K ltac:(lia)).
  repeat (apply andb_true_iff in K; destruct K as [K ?]).
  repeat split; apply Nat.ltb_lt; auto.
Qed.
Lemma ck_distinct : forall j j', j < count -> j' < count -> j <> j' -> srco j <> srco j' /\ drel j <> drel j'.
Proof.
  intros j j' Hj Hj' Hne. pose proof Hck as K. unfold plan_check in K. repeat (apply andb_true_iff in K; destruct K as [K ?]).
  rewrite forallb_forall in H4. specialize (H4 j). rewrite in_seq in H4. specialize (H4 ltac:(lia)).
  rewrite forallb_forall in H4. specialize (H4 j'). rewrite in_seq in H4. specialize (H4 ltac:(lia)).
  apply orb_true_iff in H4. destruct H4 as [E|E]. { apply Nat.eqb_eq in E. contradiction. }
  apply andb_true_iff in E. destruct E as [E1 E2]. apply negb_true_iff in E1, E2. split.
  - apply Nat.eqb_neq; auto. - apply pair_eqb_false; auto.
Qed.
Lemma ck_new : nk < length sizes /\ ni < nth nk sizes 0 /\ (forall j, j < count -> drel j <> (nk, ni)) /\ sizes <> [].
Proof.
  pose proof Hck as K. unfold plan_check in K. repeat (apply andb_true_iff in K; destruct K as [K ?]).
  repeat split; try (apply Nat.ltb_lt; auto).
  - intros j Hj. rewrite forallb_forall in H1. specialize (H1 j). rewrite in_seq in H1. specialize (H1 ltac:(lia)).
    apply negb_true_iff in H1. apply pair_eqb_false; auto.
  - intro E. rewrite E in H. discriminate.
Qed.
Lemma ck_cover : forall x, x < ic -> exists j, j < count /\ srco j = x.
Proof.
  intros x Hx. pose proof Hck as K. unfold plan_check in K. repeat (apply andb_true_iff in K; destruct K as [K ?]).
  rewrite forallb_forall in H0. specialize (H0 x). rewrite in_seq in H0. specialize (H0 ltac:(lia)).
  apply existsb_exists in H0. destruct H0 as [j [Hin E]]. apply in_seq in Hin. apply Nat.eqb_eq in E. exists j. split; auto; lia.
Qed.
End Checker.

(* soundness: a checked plan whose sources all lie in `node` satisfies every hypothesis of relocator_spec, for the copy creator *)
Theorem checked_plan_strong : forall c sizes segs nk ni ic node arg v s,
  plan_check sizes segs nk ni ic = true ->
  (forall j, j < segs_count segs -> fst (fst (seg_at segs j)) = node) ->
  wf (hp s) -> alive (hp s) node = true -> ic <= bsize (hp s) node ->
  (forall x, x < ic -> exists w, mem (hp s) (node, x) = Live w) ->
  (forall x, ic <= x -> x < bsize (hp s) node -> mem (hp s) (node, x) = Raw) ->
  valid (hp s) arg = true -> mem (hp s) arg = Live v -> fst arg <> node ->
  wp (run_plan c (sizes, segs, (nk, ni)) arg [node]) s
     (fun _ s' => alive (hp s') node = false /\
                  (forall i, i < length sizes -> alive (hp s') (next (hp s) + i) = true) /\
                  (forall b, b < next (hp s) -> b <> node -> alive (hp s') b = alive (hp s) b) /\
                  (forall j, j < segs_count segs ->
                     mem (hp s') (next (hp s) + fst (snd (seg_at segs j)), snd (snd (seg_at segs j))) = mem (hp s) (fst (seg_at segs j))) /\
                  mem (hp s') (next (hp s) + nk, ni) = Live v)
     (fun s' => rolled_back (hp s) (hp s')).
Proof.
  intros c sizes segs nk ni ic node arg v s Hck Hsrc W An Hic Hlive Hraw Va Ma Nan.
  pose proof (ck_bounds _ _ _ _ _ Hck) as CB. pose proof (ck_distinct _ _ _ _ _ Hck) as CD.
  destruct (ck_new _ _ _ _ _ Hck) as [Cn1 [Cn2 [Cn3 Cn4]]]. pose proof (ck_cover _ _ _ _ _ Hck) as CC.
  set (count := segs_count segs) in *.
  assert (Nlt : node < (next (hp s))) by (apply wf_lt; auto).
  assert (Alt : fst arg < (next (hp s))). { apply wf_lt; auto. unfold valid in Va. apply andb_true_iff in Va. tauto. }
  assert (Srcj : forall j, j < count -> fst (seg_at segs j) = (node, snd (fst (seg_at segs j)))).
  { intros j Hj. specialize (Hsrc j Hj). destruct (fst (seg_at segs j)) as [a b]. simpl in *. subst. reflexivity. }
  assert (Hne : arg <> ((next (hp s)) + nk, ni)) by (intro E; rewrite E in Alt; simpl in Alt; lia).
  unfold run_plan.
  eapply wp_mono.
  { eapply (relocator_spec c sizes (fun j => fst (seg_at segs j))
              (fun f0 j => match snd (seg_at segs j) with (k, i) => (f0 + k, i) end) count
              (creator_copy arg) (fun f0 => (f0 + nk, ni)) [node] (two arg ((next (hp s)) + nk, ni))); auto.
    - apply (creator_copy_spec arg ((next (hp s)) + nk, ni) v Hne).
    - intros j Hj.  rewrite (Srcj j Hj). destruct (snd (seg_at segs j)) as [k i] eqn:Ed. unfold two. split; intros [X|X].
      + apply Nan. rewrite <- X. reflexivity.
      + inversion X. lia.
      + rewrite <- X in Alt. simpl in Alt. lia.
      + inversion X. apply (Cn3 j Hj). rewrite Ed. f_equal; lia.
    - intros h1 [A1 A2 A3 A4 A5 A6 A7 A8 A9].  split.
      + split.
        * intros j Hj. rewrite (Srcj j Hj). destruct (CB j Hj) as [B1 [B2 B3]]. destruct (snd (seg_at segs j)) as [k i] eqn:Ed. simpl in B2, B3.
          destruct (Hlive _ B1) as [w Hw].
          repeat split.
          -- unfold valid. simpl. rewrite A3, A4, An by auto. apply Nat.ltb_lt. lia.
          -- unfold valid. simpl. rewrite A5, A6 by auto. apply Nat.ltb_lt. auto.
          -- exists w. rewrite A2 by (simpl; auto). exact Hw.
          -- apply A7; auto.
        * intros j k Hj Hk. rewrite (Srcj j Hj). destruct (snd (seg_at segs k)) as [k' i']. intro E. inversion E. lia.
        * intros j k Hj Hk Hjk. destruct (CD j k Hj Hk Hjk) as [_ D]. destruct (snd (seg_at segs j)) as [a b]. destruct (snd (seg_at segs k)) as [a' b'].
          intro E. inversion E. apply D. f_equal; lia.
        * intros j k Hj Hk Hjk. destruct (CD j k Hj Hk Hjk) as [D _]. rewrite (Srcj j Hj), (Srcj k Hk). intro E. inversion E. auto.
      + simpl. repeat split.
        * unfold valid in *. rewrite A3, A4 by auto. exact Va.
        * unfold valid. simpl. rewrite A5, A6 by auto. apply Nat.ltb_lt. auto.
        * rewrite A2 by auto. exact Ma.
        * apply A7; auto.
    - repeat constructor. intros [].
    - intros b [<-|[]]. split; auto. intros x Hx. destruct (le_lt_dec ic x).
      + left. apply Hraw; auto.
      + right. destruct (CC x l) as [j [Hj Ej]]. exists j. split; auto. rewrite (Srcj j Hj). f_equal. exact Ej.
    - intros b x [<-|[]]. unfold two. intros [X|X].
      + apply Nan. rewrite <- X. reflexivity.
      + inversion X. lia.
    - intros j Hj.  destruct (snd (seg_at segs j)) as [k i]. simpl. intros [X|[]]. lia. }
  - intros _ s' [F1 [F2 [F3 [F4 [F5 [F6 [h1 [h2 [_ [[Rn _] Mf]]]]]]]]]]. simpl in *.  repeat split.
    + apply F1. left; reflexivity.
    + exact F2.
    + intros b Hb Hn. apply F3; auto. intros [X|[]]. auto.
    + intros j Hj. destruct (F4 j Hj) as [G _]. destruct (snd (seg_at segs j)) as [k i]. exact G.
    + (* the new item: the creator's postcondition R, untouched by the commit *)
      rewrite Mf. exact Rn.
  - intros s' H; exact H.
Qed.

(* ---- the plans of TreeNode<4, 2> root leaves: all of them pass the checker ------------------------------------ *)
Lemma grow_plans_checked : forall node ic pos, ic <= 3 -> pos <= ic ->
  match grow_plan node ic pos with (sizes, segs, (nk, ni)) =>
    plan_check sizes segs nk ni ic = true /\ (forall j, j < segs_count segs -> fst (fst (seg_at segs j)) = node) end.
Proof.
  intros node ic pos Hic Hpos.
  destruct ic as [|[|[|[|ic]]]]; try lia; destruct pos as [|[|[|[|pos]]]]; try lia;
    (split; [vm_compute; reflexivity | intros j Hj; vm_compute in Hj; do 5 (destruct j as [|j]; [first [reflexivity | lia]|]); lia]).
Qed.

Lemma split_root_plans_checked : forall node pos, pos <= 4 ->
  match split_root_plan node 4 pos with (sizes, segs, (nk, ni)) =>
    plan_check sizes segs nk ni 4 = true /\ (forall j, j < segs_count segs -> fst (fst (seg_at segs j)) = node) end.
Proof.
  intros node pos Hpos.
  destruct pos as [|[|[|[|[|pos]]]]]; try lia;
    (split; [vm_compute; reflexivity | intros j Hj; vm_compute in Hj; do 6 (destruct j as [|j]; [first [reflexivity | lia]|]); lia]).
Qed.

Definition leaf_pre (node ic : nat) (arg : loc) (v : nat) (h : heap) : Prop :=
  wf h /\ alive h node = true /\ ic <= bsize h node /\
  (forall x, x < ic -> exists w, mem h (node, x) = Live w) /\
  (forall x, ic <= x -> x < bsize h node -> mem h (node, x) = Raw) /\
  valid h arg = true /\ mem h arg = Live v /\ fst arg <> node.

(* pvAddGrow (TreeSet.h:1278-1291): insertion at any position into a root leaf that is full but below the maximal capacity;
   pvAddSplit (TreeSet.h:1293-1338) of a full root leaf (4 items, TreeNode<4, 2>) into two leaves and a new root.
   The item-level result is given by checked_plan_strong applied to the plan; here: the strong guarantee + the node exchange. *)
Theorem tree_grow_insert_spec : forall c node ic pos arg v s, ic <= 3 -> pos <= ic -> leaf_pre node ic arg v (hp s) ->
  wp (run_plan c (grow_plan node ic pos) arg [node]) s
     (fun _ s' => alive (hp s') node = false /\ (forall b, b < next (hp s) -> b <> node -> alive (hp s') b = alive (hp s) b))
     (fun s' => rolled_back (hp s) (hp s')).
Proof.
  intros c node ic pos arg v s Hic Hpos [W [An [Hb [Hl [Hr [Va [Ma Na]]]]]]].
  pose proof (grow_plans_checked node ic pos Hic Hpos) as G.
  destruct (grow_plan node ic pos) as [[sizes segs] [nk ni]] eqn:Ep. destruct G as [Gc Gs].
  eapply wp_mono. { eapply checked_plan_strong; eauto. }
  - intros _ s' [F1 [F2 [F3 [F4 F5]]]]. split; auto.
  - intros s' H; exact H.
Qed.

Theorem tree_split_insert_spec : forall c node pos arg v s, pos <= 4 -> leaf_pre node 4 arg v (hp s) ->
  wp (run_plan c (split_root_plan node 4 pos) arg [node]) s
     (fun _ s' => alive (hp s') node = false /\ (forall b, b < next (hp s) -> b <> node -> alive (hp s') b = alive (hp s) b) /\
                  alive (hp s') (next (hp s)) = true /\ alive (hp s') (S (next (hp s))) = true /\ alive (hp s') (S (S (next (hp s)))) = true)
     (fun s' => rolled_back (hp s) (hp s')).
Proof.
  intros c node pos arg v s Hpos [W [An [Hb [Hl [Hr [Va [Ma Na]]]]]]].
  pose proof (split_root_plans_checked node pos Hpos) as G.
  destruct (split_root_plan node 4 pos) as [[sizes segs] [nk ni]] eqn:Ep. destruct G as [Gc Gs].
  assert (Hlen : length sizes = 3).
  { unfold split_root_plan in Ep. destruct (pos <=? split_index 4 pos); inversion Ep; reflexivity. }
  eapply wp_mono. { eapply checked_plan_strong; eauto. }
  - intros _ s' [F1 [F2 [F3 [F4 F5]]]]. rewrite Hlen in F2. repeat split; auto.
    + specialize (F2 0 ltac:(lia)). rewrite Nat.add_0_r in F2. exact F2.
    + specialize (F2 1 ltac:(lia)). replace (next (hp s) + 1) with (S (next (hp s))) in F2 by lia. exact F2.
    + specialize (F2 2 ltac:(lia)). replace (next (hp s) + 2) with (S (S (next (hp s)))) in F2 by lia. exact F2.
  - intros s' H; exact H.
Qed.
