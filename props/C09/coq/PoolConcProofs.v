(* C09: proofs about the concrete pool model PoolConc.v - the per-buffer free chain (BufferBytes + next-free indexes stored
   in the free blocks), the release of buffers, and the free-block cache.  Universal step theorems (every state, every
   block); see NOTES.md for what is NOT proved (the whole-history invariant tying them together). *)
From Coq Require Import ZArith List Bool Lia.
From MomoCommon Require Import GenPrelude.
From C09 Require Import PoolConc.
Import ListNotations.
Local Open Scope Z_scope.

Lemma chain_walk_ext n : forall w w' b i,
  (forall j, In j (chain_walk n w b i) -> nx w' b j = nx w b j) -> chain_walk n w' b i = chain_walk n w b i.
Proof.
  induction n as [|n IH]; intros w w' b i H; simpl; [reflexivity|]. f_equal.
  rewrite (H i) by (simpl; auto). apply IH. intros j Hj. apply H. simpl. right. exact Hj.
Qed.

Lemma chain_walk_length n w b i : length (chain_walk n w b i) = n.
Proof. revert i. induction n; intros; simpl; auto. Qed.

(* freeBlockCount is the length of the chain *)
Lemma chain_of_length w b : 0 <= fc w b -> Z.of_nat (length (chain_of w b)) = fc w b.
Proof. intros H. unfold chain_of. rewrite chain_walk_length. lia. Qed.

(* pvNewBlock lines 531-534: taking the first free block removes exactly the head of the chain of that buffer and leaves
   every other buffer's chain alone *)
Theorem chain_take w b : 1 <= fc w b ->
  let w' := set_bytes w b (nx w b (fb w b)) (fc w b - 1) in
  chain_of w b = fb w b :: chain_of w' b /\ (forall b', b' <> b -> chain_of w' b' = chain_of w b').
Proof.
  intros H w'. split.
  - unfold chain_of, w'. simpl fc. simpl fb. rewrite !upd_same.
    replace (Z.to_nat (fc w b)) with (S (Z.to_nat (fc w b - 1))) by lia. simpl. f_equal.
    symmetry. apply chain_walk_ext. intros; reflexivity.
  - intros b' N. unfold chain_of, w'. simpl fc. simpl fb. rewrite !upd_other by assumption.
    apply chain_walk_ext. intros; reflexivity.
Qed.

(* pvDeleteBlock lines 549-553: pushing block j (not currently in the chain) makes it the new head of the chain of its
   buffer, followed by the old chain; every other buffer's chain is untouched.  In particular the freed block is the
   next one handed out from this buffer (chain_take). *)
Theorem chain_push w b j : 0 <= fc w b -> ~ In j (chain_of w b) ->
  let w' := set_bytes (set_nx w b j (fb w b)) b j (fc w b + 1) in
  chain_of w' b = j :: chain_of w b /\ (forall b', b' <> b -> chain_of w' b' = chain_of w b').
Proof.
  intros H Nin w'. split.
  - unfold chain_of, w'. simpl fc. simpl fb. rewrite !upd_same.
    replace (Z.to_nat (fc w b + 1)) with (S (Z.to_nat (fc w b))) by lia. simpl. f_equal.
    rewrite !Z.eqb_refl. simpl andb. cbv iota.
    apply chain_walk_ext. intros x Hx. simpl.
    destruct (Z.eqb_spec x j) as [E|]; [subst; contradiction|]. rewrite andb_false_r. reflexivity.
  - intros b' N. unfold chain_of, w'. simpl fc. simpl fb. rewrite !upd_other by assumption.
    apply chain_walk_ext. intros x Hx. simpl. destruct (Z.eqb_spec b' b); [congruence|]. reflexivity.
Qed.

Lemma upto_In n : forall i x, In x (upto n i) <-> i <= x < i + Z.of_nat n.
Proof.
  induction n as [|n IH]; intros i x; simpl; [lia|]. rewrite IH. lia.
Qed.

Lemma upto_NoDup n : forall i, NoDup (upto n i).
Proof. induction n as [|n IH]; intros i; simpl; constructor; auto. rewrite upto_In. lia. Qed.

(* pvNewBuffer: the chain of a new buffer is 0, 1, ..., C-1 (all blocks free, no repetition); other chains untouched *)
Theorem chain_new_buffer C w : 1 <= C ->
  let w' := fst (new_buffer C w) in let nb := snd (new_buffer C w) in
  nb = fresh w /\ chain_of w' nb = upto (Z.to_nat C) 0 /\ NoDup (chain_of w' nb) /\ fc w' nb = C /\
  (forall b, b <> nb -> chain_of w' b = chain_of w b /\ fc w' b = fc w b).
Proof.
  intros HC w' nb. unfold w', nb, new_buffer. simpl fst. simpl snd.
  assert (forall n i, 0 <= i -> i + Z.of_nat n <= C ->
            chain_walk n (mkCW (upd (fb w) (fresh w) 0) (upd (fc w) (fresh w) C)
              (fun b j => if b =? fresh w then if j =? C - 1 then NIL else j + 1 else nx w b j)
              (fresh w + 1) (returned w) (cp0 w) (cp1 w)) (fresh w) i = upto n i) as W.
  { induction n as [|n IH]; intros i Hi Hn; simpl; [reflexivity|]. f_equal. rewrite Z.eqb_refl.
    destruct n as [|n'].
    - reflexivity.
    - destruct (Z.eqb_spec i (C - 1)); [lia|]. apply IH; lia. }
  split; [reflexivity|].
  assert (chain_of (mkCW (upd (fb w) (fresh w) 0) (upd (fc w) (fresh w) C)
              (fun b j => if b =? fresh w then if j =? C - 1 then NIL else j + 1 else nx w b j)
              (fresh w + 1) (returned w) (cp0 w) (cp1 w)) (fresh w) = upto (Z.to_nat C) 0) as E.
  { unfold chain_of. simpl fc. simpl fb. rewrite !upd_same. apply W; lia. }
  split; [exact E|]. split; [rewrite E; apply upto_NoDup|]. split; [simpl; apply upd_same|].
  intros b N. split; [|simpl; apply upd_other; assumption].
  unfold chain_of. simpl fc. simpl fb. rewrite !upd_other by assumption.
  apply chain_walk_ext. intros x Hx. simpl. destruct (Z.eqb_spec b (fresh w)); [congruence|reflexivity].
Qed.

(* a chain without repetition whose length is blockCount and whose indexes are in range contains EVERY block of the buffer *)
Lemma full_chain_has_all C l : NoDup l -> (forall x, In x l -> 0 <= x < C) -> Z.of_nat (length l) = C ->
  forall j, 0 <= j < C -> In j l.
Proof.
  intros ND R L j Hj.
  assert (incl (upto (Z.to_nat C) 0) l) as I.
  { apply NoDup_length_incl; [exact ND| |].
    - assert (length (upto (Z.to_nat C) 0) = Z.to_nat C) as -> by (generalize 0; induction (Z.to_nat C); intros; simpl; auto). lia.
    - intros x Hx. apply upto_In. specialize (R x Hx). lia. }
  apply I. apply upto_In. lia.
Qed.

(* pvDeleteBlock returns a buffer to the memory manager only when the push made its freeBlockCount equal to blockCount ... *)
Theorem delete_returns_only_full C w p bk x :
  In x (returned (pvDeleteBlock C w p bk)) -> In x (returned w) \/ (x = fst bk /\ fc w x + 1 = C).
Proof.
  unfold pvDeleteBlock. cbv zeta.
  set (w2 := set_bytes (set_nx w (fst bk) (snd bk) (fb w (fst bk))) (fst bk) (snd bk) (fc w (fst bk) + 1)).
  assert (returned w2 = returned w) as R by reflexivity.
  assert (forall q y, returned (setp w2 q y) = returned w) as RS by (intros q y; destruct q; reflexivity).
  assert (forall v q y a b c, In x (returned (add_returned (set_bytes (setp w2 q y) a b c) v)) -> x = v \/ In x (returned w)) as RA.
  { intros v q y a b c H. destruct q; simpl in H; destruct H as [H|H]; auto. }
  destruct (Z.eqb_spec (fc w (fst bk) + 1) C) as [E|E].
  - destruct (fst bk =? hd0 _).
    + destruct (hd0 (tl0 _) =? 0).
      * intros H. left. rewrite RS in H. exact H.
      * intros H. apply RA in H. destruct H as [H|H]; [right; subst; auto|left; exact H].
    + intros H. apply RA in H. destruct H as [H|H]; [right; subst; auto|left; exact H].
  - intros H. left. rewrite RS in H. exact H.
Qed.

(* ... and then (chain without repetition, indexes in range) every block of that buffer is in its free chain: no block of a
   returned buffer can be live or cached, provided live/cached blocks are never in a chain *)
Theorem returned_buffer_all_free C w b j :
  let w' := set_bytes (set_nx w b j (fb w b)) b j (fc w b + 1) in
  0 <= fc w b -> ~ In j (chain_of w b) -> NoDup (chain_of w b) -> (forall x, In x (chain_of w b) -> 0 <= x < C) -> 0 <= j < C ->
  fc w b + 1 = C -> forall k, 0 <= k < C -> In k (chain_of w' b).
Proof.
  intros w' H0 Nin ND R Hj E k Hk.
  destruct (chain_push w b j H0 Nin) as (P & _). fold w' in P.
  apply (full_chain_has_all C); auto.
  - rewrite P. constructor; assumption.
  - intros x Hx. rewrite P in Hx. destruct Hx as [<-|Hx]; auto.
  - rewrite P. simpl length. rewrite Nat2Z.inj_succ. rewrite chain_of_length by assumption. lia.
Qed.

(* ---------- the free-block cache (308-325, 285-306, 459-468) ---------- *)
(* LIFO: a block deallocated into the cache is the very next block Allocate returns *)
Theorem cache_lifo C CF w p bk : let w1 := Deallocate C CF true w p bk in snd (Allocate C true w1 p) = bk.
Proof.
  cbv zeta. unfold Deallocate, Allocate.
  set (w0 := if CF <=? lenz (cache (getp w p)) then flush C w p else w).
  destruct p; simpl; reflexivity.
Qed.

Lemma lenz_nonneg {A} (l : list A) : 0 <= lenz l.
Proof. induction l; cbn [lenz]; lia. Qed.

Lemma flush_cache_empty C w p : cache (getp (flush C w p) p) = [].
Proof. unfold flush. destruct p; reflexivity. Qed.

Lemma getp_setp w p x : getp (setp w p x) p = x.
Proof. destruct p; reflexivity. Qed.

(* bounded: the cache never holds more than cachedFreeBlockCount blocks (it is flushed through pvDeleteBlock when full) *)
Theorem cache_bounded C CF w p bk : 1 <= CF -> lenz (cache (getp w p)) <= CF ->
  lenz (cache (getp (Deallocate C CF true w p bk) p)) <= CF.
Proof.
  intros H1 H. unfold Deallocate. cbv zeta. rewrite !getp_setp. cbn [cache lenz].
  destruct (Z.leb_spec CF (lenz (cache (getp w p)))) as [L|L].
  - rewrite flush_cache_empty. cbn [lenz]. lia.
  - lia.
Qed.

(* flushed blocks go through pvDeleteBlock, most recently cached first *)
Theorem flush_is_fold C w p :
  exists w', w' = foldl (fun w bk => pvDeleteBlock C w p bk) (cache (getp w p)) w /\
             lfull (getp (flush C w p) p) = lfull (getp w' p) /\ lfree (getp (flush C w p) p) = lfree (getp w' p) /\
             fc (flush C w p) = fc w' /\ fb (flush C w p) = fb w' /\ returned (flush C w p) = returned w'.
Proof. eexists. split; [reflexivity|]. unfold flush. destruct p; simpl; repeat split; reflexivity. Qed.

(* without the cache (pvUseCache false) or when Allocate finds the cache empty, a freed block is the next one taken from its
   buffer: push then take returns it *)
Theorem freed_block_available_again w b j : 0 <= fc w b -> ~ In j (chain_of w b) ->
  let w' := set_bytes (set_nx w b j (fb w b)) b j (fc w b + 1) in fb w' b = j /\ 1 <= fc w' b.
Proof. intros H N w'. unfold w'. simpl. rewrite !upd_same. lia. Qed.

(* ---------- all histories: the cache bound ---------- *)
Inductive cop :=
| CAlloc (p : bool) | CFree (p : bool) (bk : blk) | CIf (p : bool) (f : blk -> bool) | CAll (p : bool) | CMerge (d : bool).
Definition cstep (C CF : Z) (uc : bool) (w : cworld) (o : cop) : cworld :=
  match o with
  | CAlloc p => fst (Allocate C uc w p)
  | CFree p bk => Deallocate C CF uc w p bk
  | CIf p f => DeallocateIf C uc w p f
  | CAll p => DeallocateAll w p
  | CMerge d => MergeFrom C uc w d
  end.
Definition crun (C CF : Z) (uc : bool) (ops : list cop) : cworld := foldl (cstep C CF uc) ops empty_world.

Definition caches (w : cworld) : list blk * list blk := (cache (cp0 w), cache (cp1 w)).

Lemma caches_setp_same w p x : cache x = cache (getp w p) -> caches (setp w p x) = caches w.
Proof. destruct p; unfold caches; simpl; intros ->; reflexivity. Qed.

Lemma new_buffer_caches C w : caches (fst (new_buffer C w)) = caches w.
Proof. reflexivity. Qed.

Lemma pvNewBlock_caches C w p : caches (fst (pvNewBlock C w p)) = caches w.
Proof.
  unfold pvNewBlock. destruct (lfree (getp w p)) as [|a l] eqn:E; cbv zeta; simpl fst;
  repeat match goal with
         | |- context [if ?c then _ else _] => destruct c
         end; destruct p; reflexivity.
Qed.

Lemma pvDeleteBlock_caches C w p bk : caches (pvDeleteBlock C w p bk) = caches w.
Proof.
  unfold pvDeleteBlock. cbv zeta.
  repeat match goal with |- context [if ?c then _ else _] => destruct c end; destruct p; reflexivity.
Qed.

Lemma foldl_caches {B} (g : cworld -> B -> cworld) l : (forall w b, caches (g w b) = caches w) ->
  forall w, caches (foldl g l w) = caches w.
Proof. intros H. induction l as [|b t IH]; intros w; simpl; [reflexivity|]. rewrite IH. apply H. Qed.

Lemma flush_caches C w p : caches (flush C w p) = (if p then (cache (cp0 w), []) else ([], cache (cp1 w))).
Proof.
  unfold flush. cbv zeta.
  pose proof (foldl_caches (fun w bk => pvDeleteBlock C w p bk) (cache (getp w p)) (fun w b => pvDeleteBlock_caches C w p b) w) as F.
  unfold caches in *. apply pair_equal_spec in F. destruct F as [F0 F1]. destruct p; cbn [getp setp cp0 cp1 cache] in *; rewrite ?F0, ?F1; reflexivity.
Qed.

Definition bounded (CF : Z) (w : cworld) : Prop := lenz (cache (cp0 w)) <= CF /\ lenz (cache (cp1 w)) <= CF.

Lemma bounded_of_caches CF w w' : caches w' = caches w -> bounded CF w -> bounded CF w'.
Proof. unfold caches, bounded. intros E. inversion E as [[E0 E1]]. rewrite E0, E1. auto. Qed.

Lemma pvDeleteBlocks_caches C f w p b : caches (pvDeleteBlocks C f w p b) = caches w.
Proof.
  unfold pvDeleteBlocks. apply foldl_caches. intros w0 i.
  destruct (memz i (chain_of w b)); [reflexivity|]. destruct (f (b, i)); [|reflexivity].
  rewrite caches_setp_same by reflexivity. apply pvDeleteBlock_caches.
Qed.

Lemma cstep_bounded C CF uc w o : 1 <= CF -> bounded CF w -> bounded CF (cstep C CF uc w o).
Proof.
  intros H1 Bd. destruct o as [p|p bk|p f|p|d]; simpl.
  - (* Allocate *)
    unfold Allocate. destruct (cache (getp w p)) as [|bk rest] eqn:E.
    + cbv zeta. destruct (pvNewBlock C w p) as [w1 b1] eqn:N. simpl fst.
      eapply bounded_of_caches; [|exact Bd]. rewrite caches_setp_same by reflexivity.
      change w1 with (fst (w1, b1)). rewrite <- N. apply pvNewBlock_caches.
    + destruct uc.
      * cbv zeta. simpl fst. rewrite !getp_setp. cbn [lfull lfree cache acount live].
        unfold bounded in *. destruct p; simpl in *; rewrite E in *; cbn [lenz] in *; pose proof (lenz_nonneg rest); lia.
      * cbv zeta. destruct (pvNewBlock C w p) as [w1 b1] eqn:N. simpl fst.
        eapply bounded_of_caches; [|exact Bd]. rewrite caches_setp_same by reflexivity.
        change w1 with (fst (w1, b1)). rewrite <- N. apply pvNewBlock_caches.
  - (* Deallocate *)
    destruct uc.
    + unfold Deallocate. cbv zeta.
      set (w0 := if CF <=? lenz (cache (getp w p)) then flush C w p else w).
      assert (lenz (cache (getp w0 p)) + 1 <= CF /\ cache (getp w0 (negb p)) = cache (getp w (negb p))) as (A1 & A2).
      { unfold w0. destruct (Z.leb_spec CF (lenz (cache (getp w p)))) as [L|L]; [|split; [lia|reflexivity]].
        pose proof (flush_caches C w p) as F. unfold caches in F.
        destruct p; cbn [getp negb] in *; apply pair_equal_spec in F; destruct F as [F0 F1]; rewrite ?F0, ?F1; cbn [lenz]; split; try lia; reflexivity. }
      clearbody w0. unfold bounded in *. destruct p; cbn [getp negb setp cp0 cp1 cache lenz] in *; rewrite ?A2; lia.
    + unfold Deallocate. cbv zeta. eapply bounded_of_caches; [|exact Bd].
      rewrite caches_setp_same by reflexivity. apply pvDeleteBlock_caches.
  - (* DeallocateIf *)
    unfold DeallocateIf. cbv zeta.
    set (w1 := if uc then flush C w p else w).
    assert (bounded CF w1) as B1.
    { unfold w1. destruct uc; [|exact Bd]. pose proof (flush_caches C w p) as F. unfold caches in F. unfold bounded in *.
      destruct p; apply pair_equal_spec in F; destruct F as [F0 F1]; rewrite F0, F1; cbn [lenz]; lia. }
    destruct (acount (getp w1 p) =? 0); [exact B1|].
    eapply bounded_of_caches; [|exact B1].
    rewrite foldl_caches by (intros; apply pvDeleteBlocks_caches).
    rewrite foldl_caches by (intros; apply pvDeleteBlocks_caches). reflexivity.
  - (* DeallocateAll *)
    unfold DeallocateAll. destruct (lfree (getp w p)); [exact Bd|]. cbv zeta.
    assert (forall l' w0, cache (cp0 (return_all w0 l')) = cache (cp0 w0) /\ cache (cp1 (return_all w0 l')) = cache (cp1 w0)) as RA.
    { intros l' w0. assert (caches (return_all w0 l') = caches w0) as E by (unfold return_all; apply foldl_caches; reflexivity).
      unfold caches in E. apply pair_equal_spec in E. exact E. }
    unfold bounded in *.
    destruct p; cbn [getp setp cp0 cp1 cache lenz];
      repeat match goal with |- context [cache (cp0 (return_all ?a ?b))] => rewrite (proj1 (RA b a))
                        | |- context [cache (cp1 (return_all ?a ?b))] => rewrite (proj2 (RA b a)) end; lia.
  - (* MergeFrom *)
    unfold MergeFrom. cbv zeta.
    set (w1 := if uc then flush C w (negb d) else w).
    assert (bounded CF w1) as B1.
    { unfold w1. destruct uc; [|exact Bd]. pose proof (flush_caches C w (negb d)) as F. unfold caches in F. unfold bounded in *.
      destruct d; cbn [negb] in *; apply pair_equal_spec in F; destruct F as [F0 F1]; rewrite F0, F1; cbn [lenz]; lia. }
    clearbody w1. unfold bounded in *.
    destruct (lfree (getp w1 (negb d))); [|destruct (lfree (getp w1 d))]; destruct d; simpl; tauto.
Qed.

Theorem cache_bounded_all_histories C CF uc ops : 1 <= CF -> bounded CF (crun C CF uc ops).
Proof.
  intros H. unfold crun. assert (bounded CF empty_world) as B0 by (unfold bounded; simpl; lia).
  revert B0. generalize empty_world. induction ops as [|o t IH]; intros w Bw; simpl; [exact Bw|].
  apply IH. apply cstep_bounded; assumption.
Qed.
