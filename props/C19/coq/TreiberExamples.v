(* C19 -- non-vacuity: a concrete 3-thread schedule (disposers 1 and 2, the owner) with a genuinely failed CAS,
   a spuriously failed CAS, a drain in the middle of a push, reuse of a reclaimed buffer, and final quiescence. *)
From Coq Require Import List Arith Bool PeanoNat.
From C19 Require Import Treiber.
Import ListNotations.

Definition sched_a : list label :=
  [ OAlloc 0 None; OAlloc 1 None; OAlloc 2 None; Scribble 1 (Some 7);
    DBegin 1 0; DLoad 1; DBegin 2 1; DLoad 2; DLink 1; DLink 2;
    DCas 1 false;          (* success: head = row 0 *)
    DCas 2 false ].        (* genuine failure: thread 2 loaded null, head is now row 0 *)

Definition sched_b : list label :=
  [ OExchange;             (* the owner takes the whole list [0] while thread 2 is in the middle of its push *)
    DLoad 2; ORead; DLink 2; OFree (Some 5);
    DCas 2 true;           (* spurious failure of the weak CAS *)
    DLoad 2; DLink 2; DCas 2 false;   (* success onto the empty head *)
    ODone ].

Definition sched_c : list label :=
  [ OAlloc 0 (Some 1);     (* the pool hands the reclaimed buffer 0 out again *)
    OAdd 2; OExtract 2;
    DBegin 1 0; DLoad 1; DLink 1; DCas 1 false;
    DBegin 2 2; DLoad 2; DLink 2; DCas 2 false;
    OExchange; ORead; OFree None; ORead; OFree None; ORead; OFree None; ODone ].

Example ex_failed_cas :
  exists s, run init sched_a = Some s /\
    head s = Some 0 /\ shared s = [0] /\ dpcs s 2 = Start 1 /\ dpcs s 1 = Idle /\
    status s 1 = Pending /\ status s 0 = Listed.
Proof. eexists; split; [vm_compute; reflexivity|]. vm_compute. repeat split. Qed.

Example ex_drain_in_the_middle :
  exists s, run init (sched_a ++ sched_b) = Some s /\
    head s = Some 1 /\ shared s = [1] /\ drain s = [] /\ own s = OIdle /\
    reclaimed s = [(0, 1)] /\ status s 0 = Free /\ link s 1 = None /\ link s 0 = Some 5.
Proof. eexists; split; [vm_compute; reflexivity|]. vm_compute. repeat split. Qed.

Example ex_quiescent_all_reclaimed :
  exists s, run init (sched_a ++ sched_b ++ sched_c) = Some s /\ quiescent s /\
    disposed s = [(2, 1); (0, 2); (1, 1); (0, 1)] /\
    reclaimed s = [(1, 1); (0, 2); (2, 1); (0, 1)].
Proof.
  eexists; split; [vm_compute; reflexivity|].
  split; [|vm_compute; repeat split].
  split; [|vm_compute; repeat split].
  intros t. vm_compute. destruct t as [|[|[|t]]]; reflexivity.
Qed.

(* a label that is not enabled stops the run: the owner cannot free a row it has not drained, a disposer
   cannot push a row it does not hold, the pool cannot hand out a buffer that is not free *)
Example ex_disabled :
  run init [OFree None] = None /\ run init [DLoad 1] = None /\
  run init [OAlloc 0 None; OAlloc 0 None] = None /\ run init [DBegin 1 0] = None.
Proof. vm_compute. repeat split. Qed.
