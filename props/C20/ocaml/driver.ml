(* C20 model driver.  One case per line = the event list recorded on the real run
     N vs va ; C h ; M h ; T h ; Q a b ; R h vs va ; S h ; = hd hs ; X h ; A h n grow ; D h b n shrink ; F h n grow
   (M = construction from an rvalue allocator, F = allocate in which the base allocator threw)
   output: for every event what the extracted Coq model (PoolAlloc.step / proto_ok / h_ok / routed_ok) says:
     <dest> <refs count bs al cached sane | dead> <allocs> <frees> <h_ok> <routed_ok> <proto_ok>
   The first pseudo-event "K bc cf" selects the pool configuration (blockCount, cachedFreeBlockCount).
   A line "retarget bc cf s1 a1 k s2 a2" asks for the state of a pool of (s1,a1) after k allocations and k
   deallocations and then for the state after line 119 re-targets it to (s2,a2) (= OpAllocFail with no buffer
   obtained): cached_before count bs al cached_after 1.
   in exactly the format the harness prints its observations.
   The only glue: decimal I/O, unary nat <-> int, and re-tabulating the model's finite maps (functions
   nat -> _) into arrays every few steps so that look-ups stay cheap (extensionally the identity). *)
open Zutil
open Datatypes
open PoolAlloc
open GenPrelude

let nat i = nat_of_int i
let int n = int_of_nat n

let tabulate (f : nat -> 'a) (n : nat) : nat -> 'a =
  let k = int n in
  let arr = Array.make (k + 1) (f O) in
  let cur = ref O in
  for i = 0 to k do arr.(i) <- f !cur; cur := S !cur done;
  let dflt = f (S n) in
  fun j -> let i = int j in if i <= k then arr.(i) else dflt

let compact (st : state) : state =
  { pools = tabulate st.pools st.npools; npools = st.npools;
    handles = tabulate st.handles st.nhandles; nhandles = st.nhandles;
    blocks = tabulate st.blocks st.nblocks; nblocks = st.nblocks;
    cached = tabulate st.cached st.npools }

let tag_str = function
  | None -> "-"
  | Some (Pooled (bs, al)) -> "P" ^ string_of_z bs ^ "/" ^ string_of_z al
  | Some (RawMem s) -> "R" ^ string_of_z s

let b01 b = if b then "1" else "0"

let parse_event toks : op option =
  let n s = nat (int_of_string s) in
  match toks with
  | ["N"; vs; va] -> Some (OpNew { vsize = z_of_string vs; valign = z_of_string va })
  | ["C"; h] -> Some (OpCopy (n h))
  | ["M"; h] -> Some (OpMove (n h))
  | ["T"; h] -> Some (OpElem (n h))
  | ["Z"; h] -> Some (OpSoccFail (n h))
  | ["Q"; a; b] -> Some (OpQuery (n a, n b))
  | ["F"; h; cnt; grow] -> Some (OpAllocFail (n h, z_of_string cnt, n grow))
  | ["R"; h; vs; va] -> Some (OpRebind (n h, { vsize = z_of_string vs; valign = z_of_string va }))
  | ["S"; h] -> Some (OpSocc (n h))
  | ["="; hd; hs] -> Some (OpAssign (n hd, n hs))
  | ["X"; h] -> Some (OpDestroy (n h))
  | "A" :: h :: cnt :: grow :: _ -> Some (OpAlloc (n h, z_of_string cnt, n grow))
  | ["D"; h; b; cnt; shrink] -> Some (OpDealloc (n h, n b, z_of_string cnt, n shrink))
  | _ -> None

let split_events line =
  let parts = String.split_on_char ';' line in
  Stdlib.List.filter (fun l -> l <> []) (Stdlib.List.map words parts)

let cfg = ref cfg_default
let mk_cfg bc cf = { block_count = z_of_string bc; cached_free_block_count = z_of_string cf }

let run_ops st ops = Stdlib.List.fold_left (fun st o -> match st with
  | None -> None
  | Some s -> (match step !cfg s o with Ok (s', _) -> Some s' | _ -> None)) (Some st) ops

let retarget s1 a1 k s2 a2 =
  let vt1 = { vsize = z_of_string s1; valign = z_of_string a1 } and vt2 = { vsize = z_of_string s2; valign = z_of_string a2 } in
  let k = int_of_string k in
  let allocs = Stdlib.List.init k (fun _ -> OpAlloc (O, z_of_int 1, nat 1)) in
  let deallocs = Stdlib.List.init k (fun i -> OpDealloc (O, nat i, z_of_int 1, O)) in
  match run_ops init ([OpNew vt1] @ allocs @ deallocs @ [OpRebind (O, vt2)]) with
  | None -> "STUCK"
  | Some st ->
    let before = int (st.cached O) in
    (match step !cfg st (OpAllocFail (nat 1, z_of_int 1, O)) with
     | Ok (st', _) ->
       let p = st'.pools O in
       Printf.sprintf "%d %d %s %s %d 1" before (int p.pcount) (string_of_z (fst p.pparams)) (string_of_z (snd p.pparams)) (int (st'.cached O))
     | _ -> "STUCK")

let () = iter_lines (fun line ->
  match words line with
  | ["retarget"; bc; cf; s1; a1; k; s2; a2] -> cfg := mk_cfg bc cf; print_endline (retarget s1 a1 k s2 a2)
  | _ ->
  let evs = split_events line in
  let st = ref init in
  cfg := cfg_default;
  let stuck = ref false in
  let k = ref 0 in
  let out = Stdlib.List.map (fun toks ->
    if !stuck then "STUCK" else
    match toks with
    | ["K"; bc; cf] -> cfg := mk_cfg bc cf; "K"      (* compile-time pool configuration of this history *)
    | _ ->
    match parse_event toks with
    | None -> "?"
    | Some o ->
      let pr = proto_ok !cfg !st o in
      (* the GENERATED functions executed on the pre-state (DiffRun.v) *)
      let gen = (match o with
        | OpAlloc (h, cnt, _) ->
          let (((ptr, rc), c1), c2) = DiffRun.gen_alloc !cfg !st h cnt in
          Printf.sprintf "g%s:%s:%s:%s" (string_of_z ptr) (b01 rc) (string_of_z c1) (string_of_z c2)
        | OpDealloc (h, _, cnt, _) ->
          let ((r, c1), c2) = DiffRun.gen_dealloc !cfg !st h cnt in
          Printf.sprintf "g%s:%s:%s" (string_of_z r) (string_of_z c1) (string_of_z c2)
        | _ -> "g-") in
      (* the GENERATED pvNewBlock executed on the observed pre-state of the head buffer (DiffRun.gen_newblock) *)
      let nbt = (match toks with
        | ["A"; _; _; _; f; c; nn; nf] when f <> "-" ->
          let ((hk, f'), c') = DiffRun.gen_newblock (z_of_string f) (z_of_string c) (nn = "1") (z_of_string nf) in
          Printf.sprintf "n%s:%s:%s" (string_of_z hk) (string_of_z f') (string_of_z c')
        | _ -> "n-") in
      let hk = (match o with OpAllocFail (h, cnt, _) -> h_ok !cfg !st (OpAlloc (h, cnt, O)) | _ -> h_ok !cfg !st o) in
      let is_fail = (match o with OpAllocFail _ | OpSoccFail _ -> true | _ -> false) in
      let query = (match o with OpQuery (a, b) -> Some (alloc_eq !st a b) | _ -> None) in
      (match step !cfg !st o with
       | Ok (st', ob) ->
         incr k;
         st := if !k land 7 = 0 then compact st' else st';
         let p = (!st).pools ob.o_pool in
         let ps = if p.palive then
             (* last token: MemPool's own invariant (head buffer has a free block, cache head consistent) - the model has no state in which it fails *)
             Printf.sprintf "%d %d %s %s %d 1" (int p.prefs) (int p.pcount) (string_of_z (fst p.pparams)) (string_of_z (snd p.pparams))
               (int ((!st).cached ob.o_pool))
           else "dead" in
         Printf.sprintf "%s %s %d %d %s %s %s %s %s" (if is_fail then "E" else match query with Some r -> (if r then "Q1" else "Q0") | None -> tag_str ob.o_dest) ps (int ob.o_allocs) (int ob.o_frees)
           (b01 hk) (b01 (routed_ok ob)) (b01 pr) gen nbt
       | _ -> stuck := true; "STUCK")) evs in
  print_endline (String.concat " ; " out))
