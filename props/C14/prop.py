"""C14 - containers are regular values (deep copies, emptying moves, exact swaps, std allocator propagation).
proof : coq/PropagationModel.v (MemManagerStd / MemManagerProxy / wrapper decisions vs the std rule table),
        coq/Model.v (pointer-level ownership model with an explicit crew handle and MovedFrom state), coq/Proofs.v
tie   : T-cor - the extracted model and the real containers (kit managers / allocators / elements) run the same
        (container kind, traits, operation, source/target state, ids, follow-up on the source) cases; the lines
        (final manager ids, moved-from flags, contents, element moves / copies seen, abort) must be identical
oracle: the property predicate evaluated inside harness.cpp on the real code (independent of the model)."""
import os, sys, re, importlib.util

INLINE = ['HashSetInl', 'TreeSetInl']     # inline crew (checkVersion = false, stateless manager), stateful traits: ids = traits states
NATIVE = INLINE + ['Array', 'ArrayIC', 'Seg', 'HashSet', 'HashSetFast', 'HashSetOpen2', 'HashMap', 'HashMulti', 'TreeSet', 'TreeMap', 'DataTable']
# native binaries per element category: N nothrow-move (ElemNtm), Nt trivially relocatable (ElemTriv, manager with Reallocate),
# Nc copy-only (ElemCpy), Ns self-move-hostile (ElemSmh); the category binaries run a reduced kind set
NATIVE_TOKENS = ['N', 'Nt', 'Nc', 'Ns']
CATEGORY_KINDS = ['Array', 'ArrayIC', 'Seg', 'HashSet', 'HashSetFast', 'HashMulti', 'TreeSet', 'DataTable']
ELEMCAT = {'N': 1, 'Nt': 0, 'Nc': 2, 'Ns': 4}
STATEFUL_WRAP = ['mapdir', 'setdir', 'usetseed']     # stdish wrappers with a stateful comparator / hasher (state = the id)
WRAP = ['vec', 'vecic', 'set', 'mset', 'map', 'mmap', 'uset', 'useto', 'umap', 'ummap'] + STATEFUL_WRAP
CREW_WRAP = ['set', 'mset', 'map', 'mmap', 'uset', 'useto', 'umap', 'ummap'] + STATEFUL_WRAP
ARRAYS = ['Array', 'ArrayIC', 'Seg', 'vec', 'vecic']
TRAITS = [str(k) for k in range(8)] + ['8'] + [str(k) for k in range(16, 24)]

# quick tier: 2 of the 8 throwing-assignment allocator binaries (vector only); all of them in the thorough tier
# (cold quick time) and 4 of the 8 POCCA/POCMA/POCS combinations: 0 = none, 2 = POCMA only, 5 = POCCA+POCS, 7 = all  (2 and 5 have
# POCCA != POCMA, which the trait-confusion mutants need); the theorems cover all combinations, the thorough tier runs all binaries
QUICK_SKIP = ['17', '18', '19', '20', '22', '23', '1', '3', '4', '6']
KEY_D12 = 'stdish-swap-moved-from-assert'
KEY_D13 = 'stdish-move-assign-into-moved-from-nonpropagating'
# follow-ups that USE a moved-from object (as a source, for insertion, lookup, initializer-list assignment): outside the claim
OUTSIDE = ('fmove', 'ccopy', 'find', 'ilist', 'reuse')


def _load_run_impl(ctx):
    spec = importlib.util.spec_from_file_location('c14_run_impl', os.path.join(ctx.pdir, 'run_impl.py'))
    m = importlib.util.module_from_spec(spec); spec.loader.exec_module(m); return m


def tr_bits(tr):
    """(pocca, pocma, pocs, empty) of a traits token"""
    if tr[0] == 'N': return (True, True, True, False)
    k = int(tr)
    if k == 8: return (False, True, False, True)
    return (bool(k & 4), bool(k & 2), bool(k & 1), False)


def states_for(kind, role):
    if kind in ('Array', 'Seg', 'vec'):
        return ['e', 'n1', 'n5', 'n40', 'c9', 'n200'] if role == 's' else ['e', 'n3', 'c9']
    if kind in ('ArrayIC', 'vecic'):
        return ['e', 'i1', 'i3', 'i4', 'n5', 'n40', 'c9'] if role == 's' else ['e', 'i2', 'n9']
    if kind in ('HashSetFast', 'HashSetOpen2', 'useto'):
        # other bucket classes (other capacities): sizes across several growth steps
        return ['e', 'n1', 'n10', 'c10', 'n100', 'n600'] if role == 's' else ['e', 'n3', 'n40', 'c5']
    if kind == 'HashSetInl':
        return ['e', 'n1', 'n10', 'c10', 'n100'] if role == 's' else ['e', 'n3', 'n40', 'c5']
    if kind == 'TreeSetInl':
        return ['e', 'n1', 'n7', 'c10', 'd60'] if role == 's' else ['e', 'n3', 'd40']
    if kind in ('HashSet', 'HashMap', 'uset', 'umap'):
        # default bucket: capacity 32, 128, 512 -> the 33rd / 129th insertion grows
        return ['e', 'n1', 'n10', 'c10', 'n100', 'g33', 'h33', 'g129', 'h129', 'n600'] if role == 's' else ['e', 'n3', 'h33', 'c5']
    if kind in ('TreeSet', 'TreeMap'):
        return ['e', 'n1', 'n7', 'c10', 'd60', 'd300'] if role == 's' else ['e', 'n3', 'd40']
    if kind in ('mapdir', 'setdir'):
        return ['e', 'n1', 'n7', 'd100'] if role == 's' else ['e', 'n3']
    if kind == 'usetseed':
        return ['e', 'n1', 'n10', 'n100'] if role == 's' else ['e', 'n3']
    if kind in ('set', 'mset', 'map', 'mmap'):
        return ['e', 'n1', 'n7', 'c10', 'd700'] + (['w20'] if kind in ('mset', 'mmap') else []) if role == 's' else ['e', 'n3', 'd100']
    if kind in ('HashMulti', 'ummap'):
        return ['e', 'n1', 'n6', 'c6', 'v10', 'v3', 'n50', 'w20'] if role == 's' else ['e', 'n3', 'v6']
    if kind == 'DataTable':
        return ['e', 'n1', 'n6', 'c6', 'f6', 'n50'] if role == 's' else ['e', 'n3', 'f5']
    raise ValueError(kind)


def source_moved_from_by_std(tr, kind, op, sid, tid, aid):
    """after `op`, is the source a moved-from crew container?  (std rules, NOT the Coq model)"""
    if kind in ARRAYS or kind in INLINE: return False          # an inline crew has no null state
    ca, ma, sw, em = tr_bits(tr)
    if op == 'movec': return True
    if op == 'movea': return tr[0] == 'N' or em or ma or sid == tid
    if op == 'moveca': return em or sid == aid
    return False


def expected_ids_by_std(tr, kind, op, sid, tid, aid):
    """(manager the target must hold, manager the source must hold or 'null') after `op` by the std rules
    (native momo containers: the manager always travels with the contents; copies take a copy of the source's)."""
    ca, ma, sw, em = tr_bits(tr)
    if op in ('none', 'copyfail') or op.startswith('self'): return ('-', str(sid))
    if tr == '8': return ('0', 'null' if source_moved_from_by_std(tr, kind, op, sid, tid, aid) else '0')
    s_after = 'null' if source_moved_from_by_std(tr, kind, op, sid, tid, aid) else str(sid)
    if op == 'merge': return (str(tid), str(sid))
    if kind in INLINE and op == 'copyca': return (str(sid), str(sid))     # X(const X&, MemManager) takes the source's traits
    if op in ('copyc', 'movec'): t = sid
    elif op in ('copyca', 'moveca'): t = aid
    elif op == 'copya': t = sid if ca else tid
    elif op == 'movea': t = sid if ma else tid
    elif op == 'swap':
        t = sid; s_after = str(tid)
    else: t = tid
    return (str(t), s_after)


def swap_defined(tr, a, b):
    ca, ma, sw, em = tr_bits(tr)
    return tr[0] == 'N' or em or sw or a == b


def gen_cases(ctx, scale):
    r = ctx.rng
    cases = []
    idsets = [(1, 1, 1), (1, 2, 3), (1, 2, 1), (1, 2, 2), (5, 5, 7)]
    rr = [0]

    def add(tr, kind, op, ss, ts, ids, post):
        sid, tid, aid = ids
        if tr == '8': sid = tid = aid = 0
        # swaps whose std precondition is violated are not part of the property (a few are kept for the tie only)
        cases.append('%s %s %s %s %s %d %d %d %s' % (tr, kind, op, ss, ts, sid, tid, aid, post))

    def posts_for(tr, kind, op, ids):
        p = ['none', 'clear', 'swapf', 'fswap', 'massign', 'cassign']
        live = not source_moved_from_by_std(tr, kind, op, *ids) or kind in ARRAYS
        if live: p += ['fmove', 'ccopy', 'find'] + (['ilist'] if kind in CREW_WRAP else [])
        if kind in ARRAYS or op in ('copyc', 'copyca', 'copya', 'swap', 'none') or op.startswith('self'):
            p.append('reuse')
        elif not source_moved_from_by_std(tr, kind, op, *ids):
            p.append('reuse')
        return p

    only = os.environ.get('C14_TRAITS')          # aimed runs (mutant re-checks): restrict to some binaries, e.g. C14_TRAITS=N,2
    only = set(only.split(',')) if only else None
    for fam, kinds, trs in (('N', NATIVE, NATIVE_TOKENS), ('W', WRAP, TRAITS)):
        for tr in trs:
            if only is not None and tr not in only: continue
            if scale == 1 and tr in QUICK_SKIP: continue
            for kind in kinds:
                if tr[0] != 'N' and int(tr) >= 16 and kind not in ('vec', 'vecic'): continue
                if tr in ('Nt', 'Nc', 'Ns') and kind not in CATEGORY_KINDS: continue
                if kind in STATEFUL_WRAP and tr not in ('0', '5', '7'): continue
                ops = ['copyc', 'copyca', 'movec', 'copya', 'movea', 'swap', 'selfcopya', 'selfmovea', 'selfswap', 'none']
                if fam == 'W': ops.append('moveca')
                if kind == 'DataTable': ops.remove('copyca')
                if kind in INLINE: ops = ops + ['swap', 'movea', 'copya']      # the operations that go through SetCrew::Swap, twice as often
                for op in ops:
                    for ss in states_for(kind, 's'):
                        tss = states_for(kind, 't')
                        # quick: every (op, source state) with one id pattern (round robin), target state and follow-up
                        # sampled; thorough: every id pattern and every follow-up
                        if scale > 1:
                            pats = [idsets[rr[0] % len(idsets)], idsets[(rr[0] + 2) % len(idsets)]]
                        else:
                            pats = [idsets[rr[0] % len(idsets)], idsets[(rr[0] // 2 + 1) % 4]][:(2 if fam == 'N' else 1)]
                        rr[0] += 1
                        for pi, ids in enumerate(pats):
                            posts = posts_for(tr, kind, op, ids)
                            if scale > 1 and pi == 0:
                                take = list(posts); r.shuffle(take); take = take[:3]
                            else:
                                take = [r.choice(posts)]
                            for post in take:
                                add(tr, kind, op, ss, r.choice(tss), ids, post)
                # the follow-ups on a moved-from source, exhaustively (this is where D11/D12/D13 live)
                fss = states_for(kind, 's')
                for ss in (fss[1:3] if scale > 1 else [fss[2]]):
                    for ids in idsets[:3]:
                        for op in (['movec', 'movea'] + (['moveca'] if fam == 'W' else [])):
                            for post in ['clear', 'swapf', 'fswap', 'massign', 'cassign', 'none', 'fmove', 'ccopy', 'find'] + (['ilist'] if kind in CREW_WRAP else []) + (['reuse'] if ids == idsets[0] else []):
                                add(tr, kind, op, ss, 'n3', ids, post)
    # TreeSet::MergeTo: into an empty set with an equal manager (Swap, c7fda03); into a NON-empty set with an equal manager
    # (fast path: trees joined, NodeParams::MergeFrom hands the pool buffers over) and with an unequal one (element-wise);
    # then either the source dies first (post none) or it is cleared and outlives the target's use (post clear)
    for kind in ('TreeSet', 'TreeMap'):
        if only is not None and 'N' not in only: break
        for ss in states_for(kind, 's'):
            for tsx in ('e', 'c10', 'n3', 'd40', 'n1'):
                for ids in ((1, 1, 1), (5, 5, 7), (1, 2, 3)):
                    # reuse = the source is refilled after the merge (its pools gave their buffers away) and outlives the target
                    for post in ('none', 'clear', 'reuse'):
                        add('N', kind, 'merge', ss, tsx, ids, post)
    # initializer-list assignment with a stateful comparator / hasher in a non-default state (seeded/C06-c), after every operation
    for tr in ('0', '5', '7'):
        if only is not None and tr not in only: continue
        for kind in STATEFUL_WRAP:
            for op in ('none', 'copya', 'movea', 'swap', 'copyc', 'movec'):
                for ss in states_for(kind, 's'):
                    for ids in ((2, 2, 2), (2, 3, 3), (3, 2, 2)):
                        add(tr, kind, op, ss, 'n3', ids, 'ilist')
    # copy construction under allocation refusal at every position (delegating constructors: catch + destructor)
    for tr in NATIVE_TOKENS:
        if only is not None and tr not in only: continue
        for kind in (NATIVE if tr == 'N' else CATEGORY_KINDS):
            for ss in states_for(kind, 's'):
                if ss[0] in 'gh': continue          # the refusal counter would interfere with building these states
                add(tr, kind, 'copyfail', ss, 'e', (1, 2, 3), 'none')
    # dedupe keeping order
    seen = set(); out = []
    for c in cases:
        if c not in seen:
            seen.add(c); out.append(c)
    return out


def case_fields(c):
    tr, kind, op, ss, ts, sid, tid, aid, post = c.split()[:9]
    return tr, kind, op, ss, ts, int(sid), int(tid), int(aid), post


def precondition_violated(c):
    """swap of unequal non-propagating allocators: undefined by the std rules (momo asserts) - not part of the claim"""
    tr, kind, op, ss, ts, sid, tid, aid, post = case_fields(c)
    if kind not in WRAP: return False
    if op == 'swap' and not swap_defined(tr, sid, tid): return True
    if post in ('swapf', 'fswap'):
        # allocator of S after the main op (std rules)
        ca, ma, sw, em = tr_bits(tr)
        s_after = sid
        if op == 'swap': s_after = tid if sw else sid
        if source_moved_from_by_std(tr, kind, op, sid, tid, aid): return False
        if not swap_defined(tr, s_after, aid): return True
    return False


def classify_abort(c):
    """the two known findings, recognised by their specific situation (std rules only; independent of the model)"""
    tr, kind, op, ss, ts, sid, tid, aid, post = case_fields(c)
    if kind not in CREW_WRAP: return None
    if not source_moved_from_by_std(tr, kind, op, sid, tid, aid): return None
    ca, ma, sw, em = tr_bits(tr)
    if post in ('swapf', 'fswap') and not sw: return KEY_D12
    if post == 'massign' and not ma and not em: return KEY_D13
    if post == 'cassign' and not ca and not em: return KEY_D13     # same root cause: this->get_allocator() on a null crew
    return None


def source_stamp(ctx):
    """content hash of everything the harness binaries depend on: a binary is reused only if nothing changed
    (the momo headers of the tree under test - /repo or VERIF_REPO -, kit.h, private_access.h, harness.cpp, flags)"""
    import hashlib, glob
    h = hashlib.sha256()
    files = sorted(glob.glob(os.path.join(ctx.repo, 'include', 'momo', '**', '*.h'), recursive=True))
    files += [os.path.join(ctx.root, 'harness', 'kit.h'), os.path.join(ctx.root, 'harness', 'private_access.h'),
              os.path.join(ctx.pdir, 'harness.cpp'), os.path.join(ctx.root, 'lib', 'vlib.py')]
    for f in files:
        h.update(f.encode()); h.update(open(f, 'rb').read())
    h.update(ctx.tier.encode())
    return h.hexdigest()


def build_binaries(ctx):
    stamp = source_stamp(ctx)
    suffix = '.san' if ctx.tier == 'thorough' else ''
    jobs = []
    only = os.environ.get('C14_TRAITS')
    tokens = [t for t in NATIVE_TOKENS + TRAITS if (not only or t in only.split(',')) and not (ctx.quick() and t in QUICK_SKIP)]
    for tr in tokens:
        exe = 'harness_' + tr
        sf = os.path.join(ctx.build, exe + suffix + '.stamp')
        if os.path.exists(os.path.join(ctx.build, exe + suffix)) and os.path.exists(sf) and open(sf).read() == stamp:
            continue
        if os.path.exists(sf): os.remove(sf)
        dbg = ['-g0'] if ctx.quick() else []          # quick tier: no debug info (cold build time); thorough keeps -g for the sanitizer reports
        jobs.append(('harness.cpp', exe, ['-O0'] + dbg + (['-DNATIVE', '-DELEMCAT=%d' % ELEMCAT[tr]] if tr[0] == 'N' else ['-DTRAITS=' + tr])))
    res = {}
    if jobs:
        # at most 4 compilers at a time (shared machine)
        import concurrent.futures as cf
        with cf.ThreadPoolExecutor(max_workers=5) as ex:
            futs = {ex.submit(ctx.cxx, src, exe, fl, None, 3000): exe for (src, exe, fl) in jobs}
            for fu in cf.as_completed(futs):
                res[futs[fu]] = fu.result()
    bad = [k for k, v in res.items() if v is None]
    for k, v in res.items():
        if v is not None:
            open(v + '.stamp', 'w').write(stamp)
    ctx.coverage['harness_binaries'] = {'rebuilt': len(jobs), 'reused': len(tokens) - len(jobs)}
    ctx.stage('build-harness', not bad, ('failed: %s\n' % bad) + getattr(ctx, 'last_cxx_error', '') if bad else '')
    return not bad


GH_ORDER = {'HashSet': ('H', (0, 2, 3, 1)), 'TreeSet': ('T', (0, 3, 1, 2))}   # harness handle order -> generated parameter order
def gen_vs_code(ctx, impl_lines):
    """direct differential run of the GENERATED Swap / MoveCtor (TreeSet, HashSet): the harness recorded the raw fields
    (crew pointer, count, storage pointers / capacity; renamed injectively) of both real objects before and after every swap,
    move construction and move assignment; the extracted generated functions are applied to the 'before' fields and must give
    the 'after' fields."""
    cases, answers = [], []
    for l in impl_lines:
        parts = l.split(' | ')
        if len(parts) < 3 or not parts[2].startswith('gh='): continue
        w = parts[2][3:].split()
        if len(w) != 19 or w[10] != '=' or w[1] not in GH_ORDER: continue
        tag, order = GH_ORDER[w[1]]
        re4 = lambda v: [v[i] for i in order]
        cases.append(' '.join([w[0], tag] + re4(w[2:6]) + re4(w[6:10])))
        answers.append(' '.join(re4(w[11:15]) + re4(w[15:19])))
    pairs = sorted(set(zip(cases, answers)))
    ctx.coverage['generated_vs_code_runs'] = {'recorded': len(cases), 'distinct': len(pairs)}
    if not pairs:
        ctx.tie_obligations.append({'name': 'generated Swap / MoveCtor == real objects (raw fields)', 'ok': False, 'error': 'no recorded run'})
        ctx.stage('corr:generated-vs-code', False, 'the harness recorded no raw-field run')
        return
    apath = os.path.join(ctx.build, 'generated-vs-code.answers')
    open(apath, 'w').write('\n'.join(a for _, a in pairs) + '\n')
    mism, _ = ctx.correspond('generated-vs-code', [c for c, _ in pairs], ['python3', os.path.join(ctx.pdir, 'run_impl.py'), 'tie', apath],
                             [ctx.model_exe, 'gen'])
    ctx.evaluations -= len(pairs)      # recorded from the runs already counted
    ctx.tie_obligations.append({'name': 'generated TreeSet/HashSet Swap, MoveCtor (and MoveCtor+Swap = move assignment) == raw fields of the real objects on %d recorded runs (%d distinct)' % (len(cases), len(pairs)), 'ok': not mism})
    for (i, c, a, b) in mism[:2]:
        ctx.violation('generated Swap / MoveCtor and the real objects disagree on the raw fields: ' + c, {'case': c, 'impl': a, 'model': b}, found_input=True)


def evaluate(ctx, cases, lines):
    """the oracle verdicts printed by the harness -> violations / known findings.  returns list of (case, line, why, key)"""
    bad = []
    outside = [0]
    for c, l in zip(cases, lines):
        parts = l.split(' | ')
        orc = parts[1] if len(parts) > 1 else 'orc=unparsable:' + l[:80]
        if orc.endswith(' nt'):
            ctx.nontrivial.add(c); orc = orc[:-3]
        tr, kind, op, ss, ts, sid, tid, aid, post = case_fields(c)
        if post != 'none' and (op.startswith('move') or op == 'swap'): ctx.nontrivial.add(c)
        if orc == 'orc=ok':
            # manager identities against the std rule table (python, independent of the Coq model)
            if not precondition_violated(c) and parts[0].startswith('ok '):
                f = dict(x.split('=', 1) for x in parts[0].split()[1:])
                et, es = expected_ids_by_std(tr, kind, op, sid, tid, aid)
                if f.get('T') != et or f.get('S') != es:
                    bad.append((c, l, 'manager after %s: target holds %s (std rules: %s), source holds %s (std rules: %s)' % (op, f.get('T'), et, f.get('S'), es), None))
            continue
        if orc.startswith('orc=abort'):
            if precondition_violated(c): continue
            if post in OUTSIDE and kind not in ARRAYS and source_moved_from_by_std(tr, kind, op, sid, tid, aid):
                outside[0] += 1      # use of a moved-from object beyond destroy/clear/swap/assign-into: not claimed
                continue
            key = classify_abort(c)
            bad.append((c, l, 'abort (assertion / null crew) in: ' + c, key))
        else:
            bad.append((c, l, orc[4:], None))
    ctx.coverage['outside_claim_aborts_on_moved_from_use'] = ctx.coverage.get('outside_claim_aborts_on_moved_from_use', 0) + outside[0]
    return bad


def est_state(kind, ss):
    """state whose freshly built object has the structure an element-wise move produces: the source's items inserted
    in traversal (ascending) order into an empty container"""
    if kind in ('set', 'map', 'setdir', 'mapdir'): return ss if ss[0] in 'nd' else 'e'
    if kind in ('mset', 'mmap'): return ('r' + ss[1:]) if ss[0] in 'nd' else (ss if ss[0] == 'w' else 'e')
    return None


def attach_structure_tokens(ctx, cases):
    """first pass: ask the harness for the object graph of every distinct (binary, kind, source state, target state)
    (`describe`), then append the structure tokens to every case line: source, target, and (tree wrappers) the shape of a
    tree freshly built by ascending insertion of the source's items (what an element-wise move must produce).  The
    harness re-validates the first two on the built objects; the model builds its structured states (Bodies.v) from them."""
    ri = _load_run_impl(ctx)
    suffix = '.san' if ctx.tier == 'thorough' else ''
    keys = {}
    def key_of(tr, kind, ss, ts, sid, tid):
        b = tr if tr[0] == 'N' else '0'
        # the shape of an inline-crew tree depends on its comparator's direction (= its id)
        return (b, kind, ss, ts, sid, tid) if kind in INLINE or kind in STATEFUL_WRAP else (b, kind, ss, ts, 1, 1)
    for c in cases:
        tr, kind, op, ss, ts, sid, tid, aid, post = case_fields(c)
        keys.setdefault(key_of(tr, kind, ss, ts, sid, tid), None)
        if est_state(kind, ss): keys.setdefault(key_of(tr, kind, est_state(kind, ss), 'e', 1, 1), None)
    q = ['%s %s describe %s %s %d %d 1 none' % k for k in keys]
    out = ri.run_all(q, ctx.build, suffix)
    for k, l in zip(list(keys), out):
        f = l.split(' | ')[0].split()
        keys[k] = (f[0][2:], f[1][2:]) if len(f) == 2 and f[0].startswith('S:') and f[1].startswith('T:') else ('*', '*')
    res = []
    for c in cases:
        tr, kind, op, ss, ts, sid, tid, aid, post = case_fields(c)
        a, bb = keys[key_of(tr, kind, ss, ts, sid, tid)]
        e = keys[key_of(tr, kind, est_state(kind, ss), 'e', 1, 1)][0] if est_state(kind, ss) else '*'
        res.append('%s %s %s %s' % (c, a, bb, e))
    ctx.coverage['structure_descriptions'] = len(keys)
    return res


def run_impl_cases(ctx, cases, tag):
    ri = _load_run_impl(ctx)
    suffix = '.san' if ctx.tier == 'thorough' else ''
    lines = ri.run_all(cases, ctx.build, suffix)
    path = os.path.join(ctx.build, tag + '.impl')
    open(path, 'w').write('\n'.join(lines) + '\n')
    return lines, path


def replay(ctx, rp):
    case = rp.get('case')
    if not case:
        print('replay has no concrete case (no-failing-input-found): broken stages were', list(rp.get('broken', {}).keys())); return 1
    if not build_binaries(ctx):
        print('harness does not build'); return 2
    if len(case.split()) == 9: case = attach_structure_tokens(ctx, [case])[0]
    lines, _ = run_impl_cases(ctx, [case], 'replay')
    print('case:', case, '\nimplementation:', lines[0])
    bad = evaluate(ctx, [case], lines)
    model = rp.get('model')
    if model is not None and lines[0].split(' | ')[0] != model:
        print('model said     :', model); bad = bad or [(case, lines[0], 'differs from the model', None)]
    real = [b for b in bad if b[3] is None]
    for b in bad:
        if b[3]: print('KNOWN-FINDING:', b[3])
    if real:
        print('VIOLATION property=C14 replay=%s' % ctx.replay); return 1
    print('property holds on this case'); return 0


def measure_distribution(cases, lines):
    """what this run REALLY exercised (measured from the case lines and the harness output, not planned)"""
    import collections, re
    C = collections.Counter
    kind, op, post, trait, state, cat, events = C(), C(), C(), C(), C(), C(), C()
    catname = {'N': 'nothrow-move', 'Nt': 'trivially-relocatable+realloc-manager', 'Nc': 'copy-only', 'Ns': 'self-move-hostile'}
    for c, l in zip(cases, lines):
        f = c.split()
        tr, kd, o, ss, ts, sid, tid, aid, po = f[:9]
        kind[kd] += 1; op[o] += 1; post[po] += 1; trait[tr] += 1; state[ss[0] + ('' if ss[0] in 'e' else '<k>')] += 1
        cat[catname.get(tr, 'nothrow-move (wrappers)')] += 1
        tie = l.split(' | ')[0]; orc = l.split(' | ')[1] if ' | ' in l else ''
        if orc.endswith(' nt'): events['harness confirmed an unusual internal state'] += 1
        if tie == 'abort': events['abort (known finding / outside claim / std precondition)'] += 1
        sst = f[9] if len(f) > 9 else ''
        if sst.startswith('H') and '.' in sst: events['source is a multi-generation hash table'] += 1
        if ss[0] == 'g' and orc.endswith(' nt'): events['source is an overloaded hash table (refused growth)'] += 1
        if sst.startswith('T1:'):
            depth = max([int(x.split('.')[0]) for x in sst[3:].split(',') if x] or [0])
            if depth >= 2: events['source tree has >= 3 levels'] += 1
            if depth >= 3: events['source tree has >= 4 levels'] += 1
        if sst.startswith('M'):
            m = re.match(r'M(\d+):(\d+)\.(\d+)', sst)
            if m and int(m.group(3)) > 0: events['source multimap has value-less keys'] += 1
        if ss[0] == 'w': events['one key with 20 values'] += 1
        if sst.startswith('D'):
            m = re.match(r'D(\d+)\.(\d+)', sst)
            if m and int(m.group(2)) > 0: events['source table has raws in freeRaws'] += 1
        if ss[0] == 'i': events['source array in its internal buffer'] += 1
        if ss in ('n600',): events['hash source beyond 3 growth steps (600 items)'] += 1
        if ss[0] == 'c': events['source emptied but holding capacity'] += 1
        if o in ('movea', 'moveca') and ' mv=1' in tie and kd in CREW_WRAP: events['element-wise move (unequal non-propagating allocators)'] += 1
        if o in ('movea', 'moveca', 'movec') and ' S=null' in tie: events['steal: source left moved-from (null crew)'] += 1
        if o == 'merge':
            if ' ts=?' in tie: events['merge into non-empty / unequal manager (' + ('fast join' if sid == tid else 'element-wise') + ')'] += 1
            else: events['merge swap path or empty source'] += 1
        if o == 'swap' and (int(sid) + int(aid)) % 2: events['swap through the ADL friend'] += 1
        if sid != tid: events['unequal manager / allocator / traits ids'] += 1
    return {'kind': dict(kind), 'operation': dict(op), 'follow_up': dict(post), 'traits_token': dict(trait), 'source_state_class': dict(state),
            'element_category': dict(cat), 'events': dict(events)}


GEN = ['gen_setcrew.json', 'gen_treeclear.json', 'gen_hashclear.json', 'gen_multiclear.json', 'gen_tableclear.json',
       # two-object functions (round 7): the second object's fields are extra parameters <param>_<field>
       'gen_setcrew2.json', 'gen_setcrewinl.json', 'gen_treeswap.json', 'gen_hashswap.json', 'gen_tableswap.json',
       'gen_mempooldata.json', 'gen_mempoolswap.json',
       # round 8: move constructors end to end (a member's move constructor is followed into its own translation), HashMultiMap::Swap
       'gen_treemove.json', 'gen_hashmove.json', 'gen_multiswap.json', 'gen_tablecrew.json', 'gen_tablemove.json',
       'gen_arraydata.json', 'gen_arraydata_ic.json',   # last round: the internal-capacity instantiation (ArrayIntCap<4, int>)
       # round 10: HashMultiMap(HashMultiMap&&) end to end; the HashSet member object inside HashMap inside HashMultiMap is one
       # packed value (coq/Pack.v: packing only) moved by the generated Gen_HashSet3.MoveCtor
       'gen_valuecrew.json', 'gen_hashmapmove.json', 'gen_multimove.json']


def gen_crew_contract(ctx):
    """T-gen for the callee side of the "assert_calls" used in gen_*.json: from the clang AST of /repo's current headers list,
    for every crew class (pointer SetCrew, inline SetCrew, HashMultiMap::ValueCrew, DataTable::Crew), which member
    functions BEGIN with MOMO_ASSERT (the `!pvIsNull()` / `!IsNull()` contract).  Written as Gallina lists into
    coq/Gen_CrewContract.v; GenProofs.v proves from them that exactly the accessors used by the generated container
    functions carry the assertion."""
    sys.path.insert(0, os.path.join(ctx.root, 'tools'))
    import cxx2coq
    out = os.path.join(ctx.cdir, 'Gen_CrewContract.v')
    try:
        cfg = {'tu': os.path.join(ctx.pdir, 'inst.cpp'), 'filter': 'Crew', 'class': 'SetCrew', 'includes': [os.path.join(ctx.repo, 'include')]}
        objs = cxx2coq.load_objs(cxx2coq.dump_ast(cfg, ctx.repo))
        found = {}
        def walk(o):
            if o.get('kind') in ('CXXRecordDecl', 'ClassTemplatePartialSpecializationDecl') and o.get('name') in ('SetCrew', 'Crew', 'ValueCrew'):
                meths = {}
                for m in o.get('inner', []):
                    if m.get('kind') == 'CXXMethodDecl':
                        body = [y for y in m.get('inner', []) if y.get('kind') == 'CompoundStmt']
                        if body:
                            st = body[0].get('inner', [])
                            meths.setdefault(m['name'], []).append(bool(st and cxx2coq.is_assert_stmt(st[0])))
                if meths:
                    key = o['name']
                    if key == 'SetCrew':
                        key = 'SetCrewInline' if 'pvGetContainerTraits' in meths else 'SetCrewPtr'
                    found[key] = meths
            for c in o.get('inner', []) or []:
                if isinstance(c, dict): walk(c)
        for o in objs: walk(o)
        need = {'SetCrewPtr', 'SetCrewInline', 'ValueCrew', 'Crew'}
        if set(found) != need:
            raise cxx2coq.TranslationError('crew classes found in the AST: %s' % sorted(found))
        lines = ['(* GENERATED by props/C14/prop.py (gen_crew_contract) from the clang AST of inst.cpp -- do not edit *)',
                 'From Coq Require Import List String.', 'Import ListNotations.', 'Local Open Scope string_scope.', '']
        for key in sorted(found):
            asserting = sorted(n for n, v in found[key].items() if all(v))
            other = sorted(n for n, v in found[key].items() if not all(v))
            lines.append('(* member functions of %s whose first statement is MOMO_ASSERT(...) / which have no leading assertion *)' % key)
            lines.append('Definition %s_asserting : list string := [%s].' % (key, '; '.join('"%s"' % n for n in asserting)))
            lines.append('Definition %s_plain : list string := [%s].' % (key, '; '.join('"%s"' % n for n in other)))
        txt = '\n'.join(lines) + '\n'
        if not os.path.exists(out) or open(out).read() != txt:
            open(out, 'w').write(txt)
        ctx.tie_obligations.append({'name': 'translate Gen_CrewContract (leading assertions of the crew accessors)', 'ok': True})
        return True
    except Exception as e:
        if os.path.exists(out): os.remove(out)
        ctx.tie_obligations.append({'name': 'translate Gen_CrewContract', 'ok': False, 'error': str(e)[:400]})
        return False


def gen_mergeto_facts(ctx):
    """T-gen (AST facts) for TreeSet::MergeTo, which as a whole is not translatable (iterators, pvMergeFast): the statements of
    its `if (dstCount == 0)` branch (equal managers, empty destination -- the c7fda03 situation) as a list of callee names,
    written to coq/Gen_MergeToFacts.v.  GenProofs2.v proves the branch IS `Swap(dst); IncVersion; IncVersion; return` and hence
    inherits the theorem about the generated TreeSet::Swap."""
    sys.path.insert(0, os.path.join(ctx.root, 'tools'))
    import cxx2coq, json as _json
    out = os.path.join(ctx.cdir, 'Gen_MergeToFacts.v')
    try:
        cfg = {'tu': os.path.join(ctx.pdir, 'inst.cpp'), 'filter': 'TreeSet', 'class': 'TreeSet', 'includes': [os.path.join(ctx.repo, 'include')]}
        objs = cxx2coq.load_objs(cxx2coq.dump_ast(cfg, ctx.repo))
        spec = cxx2coq.find_spec(objs, cfg)
        ds = [d for d in cxx2coq.method_decls(spec, 'MergeTo') if 'dstCount' in _json.dumps(d)]
        if len(ds) != 1:
            raise cxx2coq.TranslationError('MergeTo(TreeSet&) not found')
        found = []
        def walk(n):
            if not isinstance(n, dict): return
            if n.get('kind') == 'IfStmt' and n.get('inner'):
                c = _json.dumps(n['inner'][0])
                if '"name": "dstCount"' in c and '"opcode": "=="' in c and '"value": "0"' in c:
                    found.append(n['inner'][1])
            for x in n.get('inner', []) or []: walk(x)
        walk(ds[0])
        if len(found) != 1:
            raise cxx2coq.TranslationError('the `dstCount == 0` branch of MergeTo was not found exactly once')
        th = found[0]
        sts = th.get('inner', []) if th['kind'] == 'CompoundStmt' else [th]
        names = []
        for st in sts:
            st = cxx2coq.skip_wrappers(st)
            if st['kind'] == 'ReturnStmt': names.append('return'); continue
            if st['kind'] in ('CallExpr', 'CXXMemberCallExpr'):
                c = cxx2coq.skip_wrappers(st['inner'][0])
                while c['kind'] == 'ImplicitCastExpr': c = cxx2coq.skip_wrappers(c['inner'][0])
                names.append(c.get('name') or (c.get('referencedDecl') or {}).get('name') or '?'); continue
            names.append(st['kind'])
        txt = ('(* GENERATED by props/C14/prop.py (gen_mergeto_facts) from the clang AST of inst.cpp -- do not edit *)\n'
               'From Coq Require Import List String.\nImport ListNotations.\nLocal Open Scope string_scope.\n\n'
               '(* TreeSet::MergeTo(TreeSet& dst), branch `IsEqual(managers) && dstCount == 0`: callee of each statement *)\n'
               'Definition mergeto_empty_dst_branch : list string := [%s].\n' % '; '.join('"%s"' % n for n in names))
        if not os.path.exists(out) or open(out).read() != txt:
            open(out, 'w').write(txt)
        ctx.tie_obligations.append({'name': 'translate Gen_MergeToFacts (empty-destination branch of TreeSet::MergeTo)', 'ok': True})
        return True
    except Exception as e:
        if os.path.exists(out): os.remove(out)
        ctx.tie_obligations.append({'name': 'translate Gen_MergeToFacts', 'ok': False, 'error': str(e)[:400]})
        return False


def gen_assign_shapes(ctx):
    """T-gen (AST facts): the body of operator=(X&&) and operator=(const X&) of TreeSet / HashSet / HashMultiMap / DataTable is
    `X(std::move(x)).Swap(*this); return *this;` resp. `if (this != &x) X(x).Swap(*this); return *this;` -- a temporary built by
    the move / copy constructor, Swap with *this, return.  Written to coq/Gen_AssignShapes.v as lists of step names; GenProofs3.v
    proves they are the expected ones and composes the generated MoveCtor / Swap / pvDestroy accordingly."""
    sys.path.insert(0, os.path.join(ctx.root, 'tools'))
    import cxx2coq, json as _json
    out = os.path.join(ctx.cdir, 'Gen_AssignShapes.v')
    try:
        lines = ['(* GENERATED by props/C14/prop.py (gen_assign_shapes) from the clang AST of inst.cpp -- do not edit *)',
                 'From Coq Require Import List String.', 'Import ListNotations.', 'Local Open Scope string_scope.', '']
        for cls, tag in (('TreeSet', 'tree'), ('HashSet', 'hash'), ('HashMultiMap', 'multi'), ('DataTable', 'table')):
            cfg = {'tu': os.path.join(ctx.pdir, 'inst.cpp'), 'filter': cls, 'class': cls, 'includes': [os.path.join(ctx.repo, 'include')],
                   'spec_with_method': 'Swap'}
            objs = cxx2coq.load_objs(cxx2coq.dump_ast(cfg, ctx.repo))
            spec = cxx2coq.find_spec(objs, cfg)
            for kind, pat in (('move', '&&'), ('copy', 'const')):
                ds = [d for d in cxx2coq.method_decls(spec, 'operator=') if (pat in d['type']['qualType'].split('(')[1])
                      and ('&&' in d['type']['qualType'].split('(')[1]) == (kind == 'move')]
                if len(ds) != 1:
                    raise cxx2coq.TranslationError('%s::operator= (%s): %d candidates' % (cls, kind, len(ds)))
                body = [x for x in ds[0]['inner'] if x['kind'] == 'CompoundStmt'][0]
                steps = []
                def step_of(st):
                    st = cxx2coq.skip_wrappers(st)
                    if st['kind'] == 'ReturnStmt':
                        return 'return *this' if 'CXXThisExpr' in _json.dumps(st) else 'return'
                    if st['kind'] == 'IfStmt':
                        c = _json.dumps(st['inner'][0])
                        guard = 'if this != &x: ' if ('CXXThisExpr' in c and '"opcode": "!="' in c) else 'if ?: '
                        return guard + step_of(st['inner'][1])
                    if st['kind'] == 'CompoundStmt' and len(st.get('inner', [])) == 1:
                        return step_of(st['inner'][0])
                    if st['kind'] == 'CXXMemberCallExpr':
                        callee = cxx2coq.skip_wrappers(st['inner'][0])
                        name = callee.get('name', '?')
                        objj = _json.dumps(callee.get('inner', []))
                        ctor = re.findall(r'"ctorType": \{"qualType": "([^"]*)"', objj)
                        tmp = 'temp(' + ('move' if ctor and '&&' in ctor[0] else 'copy' if ctor and 'const' in ctor[0] else '?') + ')' if ctor else 'obj'
                        arg = _json.dumps(st['inner'][1:])
                        a = '*this' if ('CXXThisExpr' in arg and '"opcode": "*"' in arg) else '?'
                        return '%s.%s(%s)' % (tmp, name, a)
                    return st['kind']
                for st in body.get('inner', []):
                    steps.append(step_of(st))
                lines.append('Definition %s_%s_assign_shape : list string := [%s].' % (tag, kind, '; '.join('"%s"' % x for x in steps)))
        txt = '\n'.join(lines) + '\n'
        if not os.path.exists(out) or open(out).read() != txt:
            open(out, 'w').write(txt)
        ctx.tie_obligations.append({'name': 'translate Gen_AssignShapes (bodies of the move / copy assignment operators)', 'ok': True})
        return True
    except Exception as e:
        if os.path.exists(out): os.remove(out)
        ctx.tie_obligations.append({'name': 'translate Gen_AssignShapes', 'ok': False, 'error': str(e)[:400]})
        return False


STDISH = [('um', 'unordered_map.h', 'unordered_map', 'pvCreateMap'), ('us', 'unordered_set.h', 'unordered_set', 'pvCreateSet'),
          ('umm', 'unordered_multimap.h', 'unordered_multimap', 'pvCreateMultiMap'), ('m', 'map.h', 'map_base', 'pvCreateMap'),
          ('s', 'set.h', 'set', 'pvCreateSet'), ('v', 'vector.h', 'vector', 'pvCreateArray')]


def gen_stdish_decisions(ctx):
    """T-gen for the stdish wrappers' assignment / swap decision logic.  The clang AST (inst_stdish.cpp: every wrapper over a
    stateful allocator) locates, in operator=(X&&), operator=(const X&), swap and pvCreateX, the declarations `propagate`,
    `alloc`, the self-assignment guard, the steal test and the swap assertion; their spelled source text (which names the trait:
    the AST only says `value`) is turned into Gallina decision rules over PropagationModel.traits, written to
    coq/Gen_StdishDecisions.v.  Anything that is not one of the expected atoms / operators is a translation error."""
    sys.path.insert(0, os.path.join(ctx.root, 'tools'))
    import cxx2coq, json as _json
    out = os.path.join(ctx.cdir, 'Gen_StdishDecisions.v')
    ATOMS = [('std::is_empty<allocator_type>::value', '(is_empty tr)'),
             ('std::allocator_traits<allocator_type>::propagate_on_container_move_assignment::value', '(pocma tr)'),
             ('std::allocator_traits<allocator_type>::propagate_on_container_copy_assignment::value', '(pocca tr)'),
             ('std::allocator_traits<allocator_type>::propagate_on_container_swap::value', '(pocs tr)'),
             ('get_allocator() == right.get_allocator()', 'eq')]
    def off(loc):
        return loc.get('offset', (loc.get('expansionLoc') or {}).get('offset'))
    def text_of(n, src):
        r = n['range']; b = off(r['begin']); e = off(r['end'])
        tl = r['end'].get('tokLen', (r['end'].get('expansionLoc') or {}).get('tokLen', 0))
        if b is None or e is None: raise cxx2coq.TranslationError('no source range')
        return ' '.join(src[b:e + tl].split())
    def boolexpr(t):
        g = t
        for a, b in ATOMS: g = g.replace(a, b)
        g = g.replace('!', ' negb ')
        if not re.fullmatch(r'[()|& ]*((\((is_empty|pocma|pocca|pocs) tr\)|eq|negb)[()|& ]*)*', g):
            raise cxx2coq.TranslationError('decision expression not understood: ' + t)
        return g
    try:
        lines = ['(* GENERATED by props/C14/prop.py (gen_stdish_decisions) from the clang AST of inst_stdish.cpp and the spelled source of',
                 '   the located declarations -- do not edit *)', 'From Coq Require Import Bool.', 'From C14 Require Import PropagationModel.', '']
        for tag, header, cls, create in STDISH:
            src = open(os.path.join(ctx.repo, 'include', 'momo', 'stdish', header)).read()
            cfg = {'tu': os.path.join(ctx.pdir, 'inst_stdish.cpp'), 'filter': cls, 'class': cls,
                   'includes': [os.path.join(ctx.repo, 'include')], 'spec_with_method': 'swap'}
            objs = cxx2coq.load_objs(cxx2coq.dump_ast(cfg, ctx.repo))
            spec = cxx2coq.find_spec(objs, cfg)
            def find(n, pred, acc):
                if isinstance(n, dict):
                    if pred(n): acc.append(n)
                    for c in n.get('inner', []) or []: find(c, pred, acc)
                return acc
            lines.append('(* %s  (stdish/%s) *)' % (cls, header))
            for kind in ('move', 'copy'):
                ds = [d for d in cxx2coq.method_decls(spec, 'operator=') if cls in d['type']['qualType'].split('(')[1]
                      and ('&&' in d['type']['qualType'].split('(')[1]) == (kind == 'move')]
                if len(ds) != 1: raise cxx2coq.TranslationError('%s::operator= (%s): %d candidates' % (cls, kind, len(ds)))
                d = ds[0]
                vp = find(d, lambda n: n.get('kind') == 'VarDecl' and n.get('name') == 'propagate', [])
                va = find(d, lambda n: n.get('kind') == 'VarDecl' and n.get('name') == 'alloc', [])
                gi = find(d, lambda n: n.get('kind') == 'IfStmt', [])
                if len(vp) != 1 or len(va) != 1 or len(gi) != 1: raise cxx2coq.TranslationError('%s::operator= (%s): unexpected shape' % (cls, kind))
                pt = text_of([x for x in vp[0]['inner'] if isinstance(x, dict)][0], src)
                at = text_of([x for x in va[0]['inner'] if isinstance(x, dict)][0], src)
                gt = text_of(gi[0]['inner'][0], src)
                lines.append('Definition %s_%s_propagate (tr : traits) : bool := %s.' % (tag, kind, boolexpr(pt)))
                if at == '(propagate ? &right : this)->get_allocator()': af = 'propagate'
                elif at == '(propagate ? this : &right)->get_allocator()': af = 'negb propagate'
                else: raise cxx2coq.TranslationError('alloc initialiser not understood: ' + at)
                lines.append('Definition %s_%s_alloc_from_right (propagate : bool) : bool := %s.   (* else: this->get_allocator() *)' % (tag, kind, af))
                lines.append('Definition %s_%s_self_guard : bool := %s.' % (tag, kind, 'true' if gt == 'this != &right' else 'false'))
            ds = cxx2coq.method_decls(spec, 'swap')
            ft = text_of(ds[0], src)
            m = re.search(r'MOMO_ASSERT\((.*?)\);', ft)
            if not m: raise cxx2coq.TranslationError('%s::swap: no assertion' % cls)
            lines.append('Definition %s_swap_assert (tr : traits) (eq : bool) : bool := %s.   (* eq = get_allocator() == right.get_allocator() *)' % (tag, boolexpr(m.group(1))))
            ds = cxx2coq.method_decls(spec, create)
            if len(ds) != 1: raise cxx2coq.TranslationError('%s::%s not found' % (cls, create))
            ifs = find(ds[0], lambda n: n.get('kind') == 'IfStmt', [])
            ct = text_of(ifs[0]['inner'][0], src)
            if ct == 'right.get_allocator() == alloc': sv = 'true'
            elif ct == 'right.get_allocator() != alloc': sv = 'false'
            else: raise cxx2coq.TranslationError('%s steal test not understood: %s' % (create, ct))
            lines.append('Definition %s_steal_when_equal : bool := %s.   (* %s: if (%s) return std::move(right.<nested>); else element-wise *)' % (tag, sv, create, ct))
            lines.append('')
        txt = '\n'.join(lines) + '\n'
        if not os.path.exists(out) or open(out).read() != txt:
            open(out, 'w').write(txt)
        ctx.tie_obligations.append({'name': 'translate Gen_StdishDecisions (assignment / swap decision rules of the six stdish wrappers)', 'ok': True})
        return True
    except Exception as e:
        if os.path.exists(out): os.remove(out)
        ctx.tie_obligations.append({'name': 'translate Gen_StdishDecisions', 'ok': False, 'error': str(e)[:400]})
        return False


def gen_pvassign_table(ctx):
    """T-gen (AST facts) for MemManagerStd<A>::operator=(MemManagerStd&&): for each of the 16 allocator types
    C14B<int, POCCA, POCMA, POCS, NMA> of inst_stdish.cpp, the pvAssign overload clang's overload resolution chose (identified by
    its body: move assignment / copy assignment through a const reference / iter_swap), or ADisabled when operator= is not
    instantiable (is_nothrow_move_assignable<MemManagerStd<A>> false).  Written to coq/Gen_PvAssignTable.v."""
    sys.path.insert(0, os.path.join(ctx.root, 'tools'))
    import cxx2coq, json as _json
    out = os.path.join(ctx.cdir, 'Gen_PvAssignTable.v')
    try:
        cfg = {'tu': os.path.join(ctx.pdir, 'inst_stdish.cpp'), 'filter': 'MemManagerStd', 'class': 'MemManagerStd',
               'includes': [os.path.join(ctx.repo, 'include')]}
        objs = cxx2coq.load_objs(cxx2coq.dump_ast(cfg, ctx.repo))
        rows = {}
        for o in objs:
            if o['kind'] != 'ClassTemplateDecl': continue
            for sp in o.get('inner', []):
                if sp.get('kind') != 'ClassTemplateSpecializationDecl' or sp.get('name') != 'MemManagerStd': continue
                targ = [a for a in sp['inner'] if a.get('kind') == 'TemplateArgument']
                tn = targ[0].get('type', {}).get('qualType', '') if targ else ''
                m = re.match(r'C14B<int, (true|false), (true|false), (true|false), (true|false)>', tn)
                if not m: continue
                pv = {}; chosen = []
                def walk(n):
                    if not isinstance(n, dict): return
                    if n.get('kind') == 'CXXMethodDecl' and n.get('name') == 'pvAssign':
                        body = [y for y in n.get('inner', []) if y.get('kind') == 'CompoundStmt']
                        if body:
                            b = _json.dumps(body[0])
                            pv[n['id']] = 'ASwap' if 'iter_swap' in b else ('ACopy' if 'CXXStaticCastExpr' in b and 'const' in b else 'AMove')
                    if n.get('kind') == 'CXXMethodDecl' and n.get('name') == 'operator=' and any(y.get('kind') == 'CompoundStmt' for y in n.get('inner', [])):
                        chosen.extend(re.findall(r'"referencedDecl": \{"id": "(0x[0-9a-f]+)", "kind": "CXXMethodDecl", "name": "pvAssign"', _json.dumps(n)))
                    for c in n.get('inner', []) or []: walk(c)
                walk(sp)
                kinds = sorted(set(pv.get(i, '?') for i in chosen))
                if len(kinds) > 1 or '?' in kinds: raise cxx2coq.TranslationError('ambiguous pvAssign for ' + tn)
                rows[tuple(x == 'true' for x in m.groups())] = kinds[0] if kinds else 'ADisabled'
        if len(rows) != 16:
            raise cxx2coq.TranslationError('%d of 16 MemManagerStd<C14B<...>> specializations found' % len(rows))
        b = lambda x: 'true' if x else 'false'
        txt = ('(* GENERATED by props/C14/prop.py (gen_pvassign_table) from the clang AST of inst_stdish.cpp -- do not edit *)\n'
               'From Coq Require Import List Bool.\nFrom C14 Require Import PropagationModel.\nImport ListNotations.\n\n'
               '(* ((POCCA, POCMA, POCS, nothrow-move-assignable), pvAssign overload chosen by MemManagerStd::operator=) *)\n'
               'Definition pvassign_table : list (bool * bool * bool * bool * assign_kind) :=\n  [' +
               ';\n   '.join('(%s, %s, %s, %s, %s)' % (b(k[0]), b(k[1]), b(k[2]), b(k[3]), rows[k]) for k in sorted(rows)) + '].\n')
        if not os.path.exists(out) or open(out).read() != txt: open(out, 'w').write(txt)
        ctx.tie_obligations.append({'name': 'translate Gen_PvAssignTable (overload chosen by MemManagerStd::operator= for 16 allocator types)', 'ok': True})
        return True
    except Exception as e:
        if os.path.exists(out): os.remove(out)
        ctx.tie_obligations.append({'name': 'translate Gen_PvAssignTable', 'ok': False, 'error': str(e)[:400]})
        return False


def gen_ctor_catch_facts(ctx):
    """T-gen (AST facts): the catch blocks of the copying / initializer-list constructors of HashSet, TreeSet, HashMultiMap and of
    DataTable::pvFill (the body of the DataTable copy constructor), as lists of steps, and whether the constructor DELEGATES to
    another constructor (then the destructor also runs after the exception: 806b9fe, 84c9298, 91ea186).  coq/Gen_CtorCatch.v."""
    sys.path.insert(0, os.path.join(ctx.root, 'tools'))
    import cxx2coq, json as _json
    out = os.path.join(ctx.cdir, 'Gen_CtorCatch.v')
    try:
        lines = ['(* GENERATED by props/C14/prop.py (gen_ctor_catch_facts) from the clang AST of inst.cpp -- do not edit *)',
                 'From Coq Require Import List String.', 'Import ListNotations.', 'Local Open Scope string_scope.', '']
        def step(st):
            st = cxx2coq.skip_wrappers(st)
            k = st['kind']
            if k == 'CXXThrowExpr': return 'throw'
            if k == 'BinaryOperator' and st.get('opcode') == '=':
                l = cxx2coq.skip_wrappers(st['inner'][0]); r = _json.dumps(st['inner'][1])
                return '%s := %s' % (l.get('name', '?'), 'null' if 'CXXNullPtrLiteralExpr' in r else '?')
            if k in ('CallExpr', 'CXXMemberCallExpr'):
                c = cxx2coq.skip_wrappers(st['inner'][0])
                while c['kind'] == 'ImplicitCastExpr': c = cxx2coq.skip_wrappers(c['inner'][0])
                nm = c.get('name') or (c.get('referencedDecl') or {}).get('name') or '?'
                obj = ''
                if c.get('kind') == 'MemberExpr' and c.get('inner'):
                    o = cxx2coq.skip_wrappers(c['inner'][0])
                    if o.get('kind') == 'MemberExpr': obj = o.get('name', '') + '.'
                return obj + nm
            return k
        def catches(d):
            acc = []
            def walk(n, depth):
                if not isinstance(n, dict): return
                if n.get('kind') == 'CXXCatchStmt':
                    comp = [x for x in n.get('inner', []) if isinstance(x, dict) and x.get('kind') == 'CompoundStmt']
                    acc.append((depth, [step(x) for x in (comp[0].get('inner', []) if comp else [])]))
                for c in n.get('inner', []) or []: walk(c, depth + 1)
            walk(d, 0)
            return acc
        def delegates(d):
            return any(x.get('kind') == 'CXXCtorInitializer' and 'anyInit' not in x and 'baseInit' not in x for x in d.get('inner', []))
        for cls, tag in (('HashSet', 'hash'), ('TreeSet', 'tree'), ('HashMultiMap', 'multi')):
            cfg = {'tu': os.path.join(ctx.pdir, 'inst.cpp'), 'filter': cls, 'class': cls, 'includes': [os.path.join(ctx.repo, 'include')],
                   'spec_with_method': 'Swap'}
            spec = cxx2coq.find_spec(cxx2coq.load_objs(cxx2coq.dump_ast(cfg, ctx.repo)), cfg)
            ds = [d for d in cxx2coq.method_decls(spec, cls) if re.search(r'\(const momo::%s<[^()]*> &, ' % cls, d['type']['qualType']) and catches(d)]
            if len(ds) != 1: raise cxx2coq.TranslationError('%s copy constructor with manager: %d candidates' % (cls, len(ds)))
            c = catches(ds[0])
            lines.append('Definition %s_copy_ctor_catch : list string := [%s].' % (tag, '; '.join('"%s"' % x for x in c[-1][1])))
            lines.append('Definition %s_copy_ctor_delegates : bool := %s.' % (tag, 'true' if delegates(ds[0]) else 'false'))
        cfg = {'tu': os.path.join(ctx.pdir, 'inst.cpp'), 'filter': 'DataTable', 'class': 'DataTable', 'includes': [os.path.join(ctx.repo, 'include')],
               'spec_with_method': 'Swap'}
        spec = cxx2coq.find_spec(cxx2coq.load_objs(cxx2coq.dump_ast(cfg, ctx.repo)), cfg)
        ds = [d for d in cxx2coq.method_decls(spec, 'pvFill') if catches(d)]
        if not ds: raise cxx2coq.TranslationError('DataTable::pvFill not instantiated')
        c = sorted(catches(ds[0]))          # the outermost catch has the smallest depth
        lines.append('Definition table_fill_outer_catch : list string := [%s].' % '; '.join('"%s"' % x for x in c[0][1]))
        ds = [d for d in cxx2coq.method_decls(spec, 'DataTable') if 'RowFilter' in _json.dumps(d)[:4000] or 'pvFill' in _json.dumps(d)]
        lines.append('Definition table_copy_ctor_delegates : bool := %s.' % ('true' if any(delegates(d) for d in ds) else 'false'))
        txt = '\n'.join(lines) + '\n'
        if not os.path.exists(out) or open(out).read() != txt: open(out, 'w').write(txt)
        ctx.tie_obligations.append({'name': 'translate Gen_CtorCatch (catch blocks of the copying constructors)', 'ok': True})
        return True
    except Exception as e:
        if os.path.exists(out): os.remove(out)
        ctx.tie_obligations.append({'name': 'translate Gen_CtorCatch', 'ok': False, 'error': str(e)[:400]})
        return False


def run(ctx):
    scale = 1 if ctx.quick() else 4
    ctx.trusted += ['tools/cxx2coq.py + clang 14 JSON AST (Clear / pvDestroy of TreeSet, HashSet, HashMultiMap, DataTable; SetCrew::pvIsNull; crew accessor contract)',
                    'extraction: ExtrOcamlBasic only (no Extract Constant), OCaml 4.13.1, zarith for decimal I/O only',
                    'g++ 12 -std=c++17 -O0 with assertions, harness reaches private members via #define private public',
                    'harness/kit.h (manager identity checked at every Deallocate, element life-cycle registry)']
    ctx.assumptions += ['pointer crew (SetCrew<...,true>): stateful manager or version-keeping build, as in the suite',
                        'swap of unequal non-propagating allocators is outside the claim (undefined by the std rules; momo asserts)',
                        'block structure of a container is abstracted to a list of blocks (shape function); only ownership, manager identity and element events are modelled']
    ok_regen = ctx.regen(GEN)
    if not gen_crew_contract(ctx):
        ctx.stage('regen', False, 'crew contract extraction failed')
    if not gen_mergeto_facts(ctx):
        ctx.stage('regen', False, 'MergeTo facts extraction failed')
    if not gen_assign_shapes(ctx):
        ctx.stage('regen', False, 'assignment shapes extraction failed')
    if not gen_stdish_decisions(ctx):
        ctx.stage('regen', False, 'stdish decision rules extraction failed')
    if not gen_pvassign_table(ctx):
        ctx.stage('regen', False, 'pvAssign overload table extraction failed')
    if not gen_ctor_catch_facts(ctx):
        ctx.stage('regen', False, 'constructor catch facts extraction failed')
    ctx.prove()
    ok_build = build_binaries(ctx)
    cases = gen_cases(ctx, scale)
    if not ok_build:
        return ctx.finish(rule=RULE)
    cases = attach_structure_tokens(ctx, cases)
    impl_lines, impl_path = run_impl_cases(ctx, cases, 'all')
    ctx.evaluations += len(cases)
    have_model = ctx.stages.get('prove', {}).get('ok') and ctx.extract()
    if have_model:
        mism, _ = ctx.correspond('model-vs-code', cases, ['python3', os.path.join(ctx.pdir, 'run_impl.py'), 'tie', impl_path], [ctx.model_exe])
        ctx.evaluations -= len(cases)      # the implementation ran once
        ctx.tie_obligations.append({'name': 'extracted model == real containers on %d cases (ids, moved-from, contents, moves/copies, abort)' % len(cases), 'ok': not mism})
        for (i, c, a, b) in mism[:3]:
            ctx.violation('pointer-level model and implementation disagree: ' + c, {'case': c, 'impl': a, 'model': b,
                          'cmd': 'echo "%s" | build/C14/harness_%s' % (c, c.split()[0])}, found_input=True)
    if have_model:
        gen_vs_code(ctx, impl_lines)
    # the property predicate on the real code (always; bigger generator when a stage broke = the search stage)
    if any(not s['ok'] for s in ctx.stages.values()) and scale == 1 and not ctx.violations:
        ctx.log('a stage broke: searching the implementation with the thorough generator')
        have = set(' '.join(c.split()[:9]) for c in cases)
        # only for the binaries the quick tier builds (QUICK_SKIP): a case without a binary would be reported as a violation
        extra = attach_structure_tokens(ctx, [c for c in gen_cases(ctx, 4) if c not in have and c.split()[0] not in QUICK_SKIP])
        more, _ = run_impl_cases(ctx, extra, 'search')
        cases = cases + extra; impl_lines = impl_lines + more; ctx.evaluations += len(extra)
    bad = evaluate(ctx, cases, impl_lines)
    real = [b for b in bad if b[3] is None]
    ctx.stage('oracle', not real, real[0][2] if real else '')
    seen_keys = set()
    for (c, l, why, key) in bad:
        if key is not None:
            if key not in seen_keys:
                seen_keys.add(key)
                ctx.violation(why, {'case': c, 'impl_output': l}, found_input=True, key=key)
            continue
    for (c, l, why, key) in real[:4]:
        ctx.violation(why, {'case': c, 'impl_output': l, 'cmd': 'echo "%s" | build/C14/harness_%s' % (c, c.split()[0])}, found_input=True)
    known = [b for b in bad if b[3] is not None]
    ctx.coverage['known_finding_cases'] = {k: sum(1 for b in known if b[3] == k) for k in (KEY_D12, KEY_D13)}
    ctx.coverage['precondition_violating_swaps_skipped'] = sum(1 for c in cases if precondition_violated(c))
    ctx.coverage['input_distribution'] = measure_distribution(cases, impl_lines)
    ctx.coverage['trait_combinations'] = sorted(set(c.split()[0] for c in cases))
    if os.environ.get('C14_TRAITS'):
        # an aimed run (mutant re-check) covers only some binaries: it must never be mistaken for a pass of the whole check
        ctx.coverage['restricted_by_env'] = 'C14_TRAITS=' + os.environ['C14_TRAITS']
        ctx.stage('full-coverage', False, 'C14_TRAITS=%s restricts the binaries and cases: a restricted run cannot pass' % os.environ['C14_TRAITS'])
    for c in cases[::max(1, len(cases) // 7)][:7]:
        ctx.add_sample(c)
    return ctx.finish(rule=RULE)


RULE = ('case = (allocator traits: N native kit::MM | POCCA/POCMA/POCS bits 0..7 | 8 std::allocator | 16..23 throwing allocator '
        'assignment (vector)) x container kind (9 native, 8 stdish) x operation (copy/move construct [with allocator], copy/move '
        'assign, swap, self assign/swap) x source state (empty, 1, n, emptied-with-capacity, internal capacity, hash table with a '
        'refused growth / several generations, deep tree, multimap with value-less keys) x target state x (source, target, extra) '
        'manager ids (equal and unequal) x follow-up on the source (clear, swap with a fresh container either way, move/copy '
        'assignment from a fresh container, reuse); full grid over op x source state x id pattern, target state / follow-up '
        'sampled (all follow-ups in the thorough tier); follow-ups on moved-from sources exhaustive.  distinct = distinct case '
        'line; non-trivial = the harness confirmed an unusual internal state (multi-generation / overloaded table, deep tree, '
        'value-less keys, internal buffer) or the case applies a follow-up to a moved/swapped source')
