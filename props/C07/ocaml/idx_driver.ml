let run_case (_ : string) : string = "?"
