(* C11 (review-fix round; hand-written) -- table-level establishing theorems for the premises `Forall2 (rel_...) ds (tbs t)` of
   C11_refused_insert_full_iff_generated_IsFull_*: for ANY bucket relation the premise is established by a fresh table (Create)
   from a related empty bucket, preserved by replacing one bucket by a related pair (what tadd / tremove do through setb) and by
   Clear; and for BucketOpen2N2<3> / BucketOpenN1 every model table whose buckets hold at most maxCount items HAS representing
   bytes (built by the generated pvSetEmpty / AddCrt), so the premise is satisfiable for every table of every reachable state. *)
From Coq Require Import ZArith List Lia Bool.
From C11 Require Import GrowModel GenFull.
From C11 Require BucketOps Gen_OpenN1_ops.
Import ListNotations.
Local Open Scope Z_scope.

Section TableRel.
  Variable B : Type.
  Variable D : Type.
  Variable rel : D -> bucket B -> Prop.

  Lemma forall2_repeat : forall (d : D) (b : bucket B) n, rel d b -> Forall2 rel (repeat d n) (repeat b n).
  Proof. induction n; intros; cbn [repeat]; constructor; auto. Qed.

  Lemma forall2_upd_nth : forall ds bs i d b, Forall2 rel ds bs -> rel d b -> Forall2 rel (upd_nth i d ds) (upd_nth i b bs).
  Proof.
    intros ds bs i d b F; revert i. induction F as [|d0 b1 ds bs R F IH]; intros i Hr; destruct i; cbn [upd_nth]; constructor; auto.
  Qed.

  (* Buckets::Create *)
  Theorem rel_table_new : forall (d0 : D) (b0 : B) wf0 log, rel d0 (emptyB B b0 wf0) ->
    Forall2 rel (repeat d0 (Z.to_nat (2 ^ log))) (tbs B (newTable B b0 wf0 log)).
  Proof. intros. unfold newTable. cbn [tbs]. apply forall2_repeat. assumption. Qed.

  (* one bucket replaced (AddCrt / Remove / UpdateMaxProbe on bucket i) *)
  Theorem rel_table_set : forall ds t i d b, Forall2 rel ds (tbs B t) -> rel d b ->
    Forall2 rel (upd_nth (Z.to_nat i) d ds) (tbs B (setb B t i b)).
  Proof. intros. unfold setb. cbn [tbs]. apply forall2_upd_nth; assumption. Qed.

  (* pvClear *)
  Theorem rel_table_clear : forall ds (d0 : D) (b0 : B) wf0 t, Forall2 rel ds (tbs B t) -> rel d0 (emptyB B b0 wf0) ->
    Forall2 rel (map (fun _ => d0) ds) (tbs B (clearT B b0 wf0 t)).
  Proof.
    intros ds d0 b0 wf0 t F R. unfold clearT. cbn [tbs]. induction F; cbn [map]; constructor; auto.
  Qed.
End TableRel.

Section Exists.
  Variable B : Type.

  Lemma o2_bucket_exists : forall (b : bucket B), blen B b <= 3 -> exists d, rel_o2 B d b.
  Proof.
    intros [its wf bd]. revert wf bd. induction its as [|k l IH] using rev_ind; intros wf bd Hl.
    - exists BucketOps.O2.empty. destruct BucketOps.O2.empty_good as (G & C & _). unfold rel_o2, blen. cbn [items length]. rewrite C.
      split; [exact G|]. split; [reflexivity|lia].
    - unfold blen in Hl. cbn [items] in Hl. rewrite app_length in Hl. cbn [length] in Hl.
      destruct (IH wf bd) as (d & R). { unfold blen. cbn [items]. lia. }
      exists (BucketOps.O2.addP (0, 0, 0, 0) d).
      apply (o2_add B (0, 0, 0, 0) d (mkB B l wf bd) k wf bd R).
      unfold isFull, blen. cbn [items]. apply Z.leb_gt. lia.
  Qed.

  Theorem o2_table_exists : forall (t : table B), (forall b, In b (tbs B t) -> blen B b <= 3) ->
    exists ds, Forall2 (rel_o2 B) ds (tbs B t).
  Proof.
    intros [lg bs]. cbn [tbs]. induction bs as [|b r IH]; intros Hb.
    - exists []. constructor.
    - destruct (o2_bucket_exists b) as (d & R). { apply Hb. left. reflexivity. }
      destruct IH as (ds & F). { intros b' Hi. apply Hb. right. exact Hi. }
      exists (d :: ds). constructor; assumption.
  Qed.

  Lemma n1_bucket_exists : forall rv mc, 1 <= mc <= 7 -> forall (b : bucket B), blen B b <= mc -> exists d, rel_n1 B rv mc d b.
  Proof.
    intros rv mc Hmc [its wf bd]. revert wf bd. induction its as [|k l IH] using rev_ind; intros wf bd Hl.
    - exists (Gen_OpenN1_ops.pvSetEmpty mc (fun _ => 0)).
      destruct (BucketOps.N1.empty_good rv mc Hmc (fun _ => 0)) as (G & C & _). unfold rel_n1, blen. cbn [items length]. rewrite C. split; [exact G|reflexivity].
    - unfold blen in Hl. cbn [items] in Hl. rewrite app_length in Hl. cbn [length] in Hl.
      destruct (IH wf bd) as (d & R). { unfold blen. cbn [items]. lia. }
      exists (BucketOps.N1.addP rv mc (0, 0, 0, 0) d).
      apply (n1_add B rv mc Hmc (0, 0, 0, 0) d (mkB B l wf bd) k wf bd R).
      unfold isFull, blen. cbn [items]. apply Z.leb_gt. lia.
  Qed.

  Theorem n1_table_exists : forall rv mc, 1 <= mc <= 7 -> forall (t : table B), (forall b, In b (tbs B t) -> blen B b <= mc) ->
    exists ds, Forall2 (rel_n1 B rv mc) ds (tbs B t).
  Proof.
    intros rv mc Hmc [lg bs]. cbn [tbs]. induction bs as [|b r IH]; intros Hb.
    - exists []. constructor.
    - destruct (n1_bucket_exists rv mc Hmc b) as (d & R). { apply Hb. left. reflexivity. }
      destruct IH as (ds & F). { intros b' Hi. apply Hb. right. exact Hi. }
      exists (d :: ds). constructor; assumption.
  Qed.
End Exists.
