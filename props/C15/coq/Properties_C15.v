(* Property C15 -- theorems only (each closed by `exact`, followed by Print Assumptions).
   Model: Version.v (containers = crew/version/contents/capacity info, handles = keeper + position, one `step` per
   entry point of HashSet/HashMap (KHash) and TreeSet/TreeMap (KTree) doing the MOMO_CHECKs and IncVersion calls of
   the source in source order).  The model is run against the real containers on every check (T-cor), and its
   classification of entry points is checked against Gen_VersionTable.v, regenerated from the clang AST. *)
From Coq Require Import ZArith List Bool String.
From C15 Require Import Gen_VersionTable Version VersionProofs TableCheck PreFix.
Import ListNotations.

(* A handle (iterator / position) whose version snapshot differs from the current version of the container it was
   taken from is rejected -- std::invalid_argument -- by every use: read, ++, --, Add at it, Remove, Extract,
   ResetKey, CheckIterator, range removal from/to it; and the rejected call changes nothing. *)
Theorem C15_stale_rejected :
  forall k s i o, reachable k s -> stale s (hs s i) -> uses k i o -> step k s o = (s, Rej).
Proof. exact VersionProofs.stale_rejected_reachable. Qed.
Print Assumptions C15_stale_rejected.

(* For every history: if an operation changes the version of the container a handle belongs to (every structural
   modification does, see C15_all_mutators_bump), then after ANY further operations (not re-assigning the handle)
   every use of the handle is rejected and leaves the state unchanged. *)
Theorem C15_stale_rejected_for_every_history :
  forall k s o ops i cr u,
    reachable k s -> hcrew (hs s i) = Some cr -> writes o i = false ->
    ver_of_crew (fst (step k s o)) cr <> ver_of_crew s cr ->
    Forall (fun o => writes o i = false) ops -> uses k i u ->
    let s' := run k (fst (step k s o)) ops in step k s' u = (s', Rej).
Proof. exact VersionProofs.stale_rejected_history. Qed.
Print Assumptions C15_stale_rejected_for_every_history.

(* A handle to an element whose snapshot is current still points at an element of its container; reading it,
   CheckIterator, ResetKey (equivalent key), ++ and Remove through it are accepted (Remove bumps the version by one). *)
Theorem C15_fresh_accepted :
  forall k s c i key,
    reachable k s -> hcrew (hs s i) = Some (crew (getc s c)) -> hsnap (hs s i) = ver (getc s c) -> hpos (hs s i) = PElem key ->
    In key (keys (getc s c)) /\
    step k s (ODeref i) = (s, Acc (Some key)) /\
    step k s (OChk c i false) = (s, Acc None) /\
    step k s (OResetKey c i key) = (s, Acc None) /\
    snd (step k s (OInc i)) = Acc None /\
    (cap (getc s c) <> None -> exists s', step k s (ORemoveAt c i) = (s', Acc (Some key)) /\ ver (getc s' c) = S (ver (getc s c))).
Proof. exact VersionProofs.fresh_accepted_reachable. Qed.
Print Assumptions C15_fresh_accepted.

(* Handles obtained after the last modification are never rejected: after any number of non-modifying operations
   (Find, begin/end, bounds, reads and ++/-- of other handles, CheckIterator, ResetKey, GetCount, ContainsKey) ... *)
Theorem C15_fresh_accepted_after_queries :
  forall k s c i key ops,
    reachable k s -> hcrew (hs s i) = Some (crew (getc s c)) -> hsnap (hs s i) = ver (getc s c) -> hpos (hs s i) = PElem key ->
    Forall (fun o => nonmod o = true) ops -> Forall (fun o => writes o i = false) ops ->
    let s' := run k s ops in step k s' (ODeref i) = (s', Acc (Some key)) /\ In key (keys (getc s' c)).
Proof. exact VersionProofs.fresh_accepted_after_queries. Qed.
Print Assumptions C15_fresh_accepted_after_queries.

(* ... and after ANY operations that left the container's version unchanged (Insert of a present key, Remove of an
   absent key, Reserve within the capacity, Clear of a table without buckets, rejected calls, calls on the other
   container). *)
Theorem C15_fresh_accepted_if_version_unchanged :
  forall k s c i key ops,
    reachable k s -> hcrew (hs s i) = Some (crew (getc s c)) -> hsnap (hs s i) = ver (getc s c) -> hpos (hs s i) = PElem key ->
    Forall (fun o => writes o i = false) ops ->
    let s' := run k s ops in
    crew (getc s' c) = crew (getc s c) -> ver (getc s' c) = ver (getc s c) ->
    step k s' (ODeref i) = (s', Acc (Some key)) /\ In key (keys (getc s' c)).
Proof. exact VersionProofs.fresh_accepted_if_version_unchanged. Qed.
Print Assumptions C15_fresh_accepted_if_version_unchanged.

(* The operations the model treats as non-modifying change neither container (contents, version, capacity). *)
Theorem C15_nonmodifying_keeps_containers :
  forall k s o, nonmod o = true -> w0 (fst (step k s o)) = w0 s /\ w1 (fst (step k s o)) = w1 s.
Proof. exact VersionProofs.nonmodifying_keeps_containers. Qed.
Print Assumptions C15_nonmodifying_keeps_containers.

(* A rejected call leaves contents, versions, capacity and all handles unchanged (every kind, state, entry point). *)
Theorem C15_rejected_call_is_identity :
  forall k s o s', step k s o = (s', Rej) -> s' = s.
Proof. exact VersionProofs.rejected_call_is_identity. Qed.
Print Assumptions C15_rejected_call_is_identity.

(* Version counters never decrease along any history. *)
Theorem C15_versions_monotone :
  forall k s ops cr v, reachable k s -> ver_of_crew s cr = Some v ->
    exists v', ver_of_crew (run k s ops) cr = Some v' /\ (v <= v')%nat.
Proof. exact VersionProofs.versions_monotone. Qed.
Print Assumptions C15_versions_monotone.

(* The empty (default-constructed) iterator -- HashSet::GetEnd(), Find/GetEnd on a rootless tree -- is rejected
   wherever an element is required. *)
Theorem C15_null_handle_rejected :
  forall k s i o, hcrew (hs s i) = None -> needs_elem k i o -> step k s o = (s, Rej).
Proof. exact VersionProofs.null_handle_rejected. Qed.
Print Assumptions C15_null_handle_rejected.

(* The end iterator of a tree / the empty position of a hash table is rejected by read, ++, Remove, Extract, ResetKey
   even when its version is current. *)
Theorem C15_end_position_rejected :
  forall k s i o,
    hpos (hs s i) = PEnd \/ (k = KHash /\ exists g, hpos (hs s i) = PGap g) ->
    (o = ODeref i \/ o = OInc i \/ (exists c, o = ORemoveAt c i) \/ (exists c, o = OExtract c i) \/ (exists c key, o = OResetKey c i key)) ->
    step k s o = (s, Rej).
Proof. exact VersionProofs.end_position_rejected. Qed.
Print Assumptions C15_end_position_rejected.

(* An iterator of another container is rejected by Add, Remove, Extract, ResetKey, CheckIterator, range removal. *)
Theorem C15_foreign_handle_rejected :
  forall k s c i o,
    reachable k s -> hcrew (hs s i) = Some (crew (getc s (negb c))) ->
    (exists key, o = OAddAt c i key) \/ o = ORemoveAt c i \/ o = OExtract c i \/ (exists key, o = OResetKey c i key) \/
    (exists a, o = OChk c i a) \/ (k = KTree /\ exists j, o = ORemoveRange c i j \/ o = ORemoveRange c j i) ->
    step k s o = (s, Rej).
Proof. exact VersionProofs.foreign_handle_rejected_reachable. Qed.
Print Assumptions C15_foreign_handle_rejected.

(* Every public member function of HashSet/TreeSet/HashMap/TreeMap/HashMultiMap that the model classifies as
   structurally modifying reaches, in the CURRENT source (table regenerated from the clang AST on every run), a bump of
   each version cell the model says it advances. *)
Theorem C15_all_mutators_bump : forallb TableCheck.mutator_bumps version_table = true.
Proof. exact TableCheck.all_mutators_bump_holds. Qed.
Print Assumptions C15_all_mutators_bump.

(* ... and conversely: const members and the members the model treats as non-modifying (Find, ResetKey, Swap, ...)
   reach no version bump in any instantiation, and every public non-const member is classified by the model. *)
Theorem C15_table_matches_model : forallb TableCheck.row_ok version_table = true.
Proof. exact TableCheck.table_matches_model_holds. Qed.
Print Assumptions C15_table_matches_model.

(* non-vacuity: a concrete reachable history with a stale, a fresh, an end and a foreign handle *)
Theorem C15_witness_history :
  let ops := [OInsMany false 10 5; OInsMany true 100 3; OFind false 12 1; OFind false 13 2; OEnd false 3; OFind true 100 4;
              OInsert false 99 5] in
  snd (run_out KTree init (ops ++ [ODeref 1; ODeref 5; ODeref 3; OResetKey false 4 100; OChk false 5 false]))
  = [Acc None; Acc None; Acc (Some 1%Z); Acc (Some 1%Z); Acc None; Acc (Some 1%Z); Acc (Some 1%Z);
     Rej; Acc (Some 99%Z); Rej; Rej; Acc None].
Proof. exact VersionProofs.witness_history. Qed.
Print Assumptions C15_witness_history.

(* The pre-fix shape of TreeSetConstIterator::operator++ (leaf nodes did not check index < count; /repo commit ed8da09):
   "an iterator that ++ accepted and Remove/ResetKey then accepts lies inside its node" is refuted for it
   (++end on a 2-item leaf root gives index 3, which passes `iter != GetEnd()`), and holds for the fixed code. *)
Theorem C15_prefix_tree_increment_refuted :
  ~ (forall leaf count idx i', idx <= count -> inc_prefix leaf count idx = Some i' ->
       remove_checks_pass count i' = true -> i' < count).
Proof. exact PreFix.prefix_tree_increment_refuted. Qed.
Print Assumptions C15_prefix_tree_increment_refuted.

Theorem C15_fixed_tree_increment_safe :
  forall leaf count idx i', idx <= count -> inc_fixed leaf count idx = Some i' ->
    remove_checks_pass count i' = true -> i' < count.
Proof. exact PreFix.fixed_tree_increment_safe. Qed.
Print Assumptions C15_fixed_tree_increment_safe.
