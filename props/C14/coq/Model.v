(* C14 -- pointer-level model of container ownership (executable Gallina, extracted and run against the real code).

   A world hands out block ids; every block remembers the manager it was allocated through; deallocation through a
   different manager is the outcome WrongMgr.  A crew-based container (HashSet/HashMap, TreeSet/TreeMap,
   HashMultiMap) is `Owned crew body items` or `MovedFrom` (crew pointer null, SetUtility.h SetCrew<...,true>::mData).
   Every access that the C++ code makes through the crew (GetMemManager, GetContainerTraits, IncVersion) is modelled
   by `with_crew`, which yields NullCrew in the MovedFrom state (= MOMO_ASSERT(!pvIsNull()), a null dereference in
   release builds).  Array keeps its manager inline (Array::Data : private MemManager) and has no such state. *)
From Coq Require Import ZArith Bool List Lia.
From C14 Require Import PropagationModel.
Import ListNotations.
Local Open Scope Z_scope.

Inductive event :=
| EAlloc (m : mgr) (b : Z) | EDealloc (m : mgr) (b : Z)
| ECopy (v : Z)        (* copy construction of an element *)
| EKeyCopy (v : Z)     (* copy of a const key of an unordered_multimap pair (element-wise path only) *)
| EMove (v : Z)        (* move construction / relocation of an element *)
| EDestroy (v : Z).

Record world := mkW { next : Z; trace : list event }.     (* trace: newest first *)

Inductive res (A : Type) :=
| Ok (a : A) (w : world)
| NullCrew      (* crew dereferenced in the moved-from state *)
| WrongMgr      (* a block deallocated through a manager other than the one that allocated it *)
| SwapPre.      (* stdish swap precondition (unequal non-propagating allocators): assertion, UB by the std rules *)
Arguments Ok {A} a w. Arguments NullCrew {A}. Arguments WrongMgr {A}. Arguments SwapPre {A}.

Definition bind {A B} (r : res A) (f : A -> world -> res B) : res B :=
  match r with Ok a w => f a w | NullCrew => NullCrew | WrongMgr => WrongMgr | SwapPre => SwapPre end.
Notation "r >>= f" := (bind r f) (at level 50, left associativity).

Definition block := (Z * mgr)%type.        (* (id, manager it was allocated through) *)

Definition emit (es : list event) (w : world) : world := mkW (next w) (rev es ++ trace w).

Definition alloc (m : mgr) (w : world) : block * world :=
  ((next w, m), mkW (next w + 1) (EAlloc m (next w) :: trace w)).
Fixpoint alloc_n (n : nat) (m : mgr) (w : world) : list block * world :=
  match n with
  | O => ([], w)
  | S n' => let (b, w1) := alloc m w in let (bs, w2) := alloc_n n' m w1 in (b :: bs, w2)
  end.
Definition dealloc (m : mgr) (b : block) (w : world) : res unit :=
  if Z.eqb (snd b) m then Ok tt (mkW (next w) (EDealloc m (fst b) :: trace w)) else WrongMgr.
Fixpoint dealloc_all (m : mgr) (bs : list block) (w : world) : res unit :=
  match bs with
  | [] => Ok tt w
  | b :: r => dealloc m b w >>= fun _ w1 => dealloc_all m r w1
  end.

(* ================================================================ crew-based containers *)
Inductive ckind := KHash | KTree | KMulti | KTable.     (* HashSet/HashMap, TreeSet/TreeMap, HashMultiMap, DataTable *)

Record crewd := mkCrew { cblocks : list block; cmgr : mgr }.
(* SetCrew::Data (version, traits, the MemManager itself); HashMultiMap additionally has ValueCrew::Data *)
Definition crew_n (k : ckind) : nat := match k with KMulti => 2%nat | _ => 1%nat end.

Inductive cc :=
| Owned (c : crewd) (body : list block) (items : list Z)  (* body = bucket arrays / nodes + node params / value arrays *)
| MovedFrom.

(* how many body blocks a rebuilt structure of n items has (abstracted: bucket generations, tree nodes, value arrays) *)
Definition shape (k : ckind) (n : nat) : nat :=
  match n with
  | O => O
  | _ => match k with KHash => 1%nat | KTree => (1 + (n + 3) / 4)%nat | KMulti | KTable => (1 + n)%nat end
  end.

Definition items_of (c : cc) : list Z := match c with Owned _ _ i => i | MovedFrom => [] end.
Definition blocks_of (c : cc) : list block := match c with Owned cr b _ => cblocks cr ++ b | MovedFrom => [] end.
Definition mgr_of (c : cc) : option mgr := match c with Owned cr _ _ => Some (cmgr cr) | MovedFrom => None end.
Definition is_moved_from (c : cc) : bool := match c with MovedFrom => true | _ => false end.

(* X(traits, MemManager): SetCrew allocates its Data through the manager and moves the manager into it *)
Definition cc_new (k : ckind) (m : mgr) (w : world) : res cc :=
  let (cb, w1) := alloc_n (crew_n k) m w in Ok (Owned (mkCrew cb m) [] []) w1.

(* ~X(): pvDestroy does nothing for null buckets/root/params (never touches the crew); ~SetCrew tests pvIsNull *)
Definition cc_destroy (k : ckind) (c : cc) (w : world) : res unit :=
  match c with
  | MovedFrom => Ok tt w
  | Owned cr body items =>
      dealloc_all (cmgr cr) body (emit (map EDestroy items) w) >>= fun _ w1 =>
      dealloc_all (cmgr cr) (cblocks cr) w1
  end.

(* Clear(): HashSet: `if (mBuckets == nullptr) return;`  TreeSet (after a0dc6a6): `if (mRootNode == nullptr &&
   mNodeParams == nullptr) return;`  HashMultiMap: `if (!mValueCrew.IsNull()) {...}`.  Otherwise the body is
   destroyed through GetMemManager() and mCrew.IncVersion() runs.  DataTable::Clear has NO early return for an empty
   table; for the moved-from state the model describes the guarded behaviour `if (mCrew.IsNull()) return;` (the same
   guard pvDestroyRaws already has) -- see NOTES.md, finding D14. *)
Definition cc_clear (k : ckind) (c : cc) (w : world) : res cc :=
  match c with
  | MovedFrom => Ok MovedFrom w
  | Owned cr body items =>
      match k, body with
      | (KHash | KTree), [] => Ok c w
      | _, _ => dealloc_all (cmgr cr) body (emit (map EDestroy items) w) >>= fun _ w1 => Ok (Owned cr [] []) w1
      end
  end.

(* Insert / Add of one element (enough to observe "usable" and which manager the container allocates through):
   needs the crew (GetHashTraits / GetTreeTraits / GetMemManager) *)
Definition cc_insert (k : ckind) (multi : bool) (c : cc) (v : Z) (w : world) : res cc :=
  match c with
  | MovedFrom => NullCrew
  | Owned cr body items =>
      if negb multi && existsb (Z.eqb v) items then Ok c w
      else match body with
           | [] => let (nb, w1) := alloc_n (shape k 1) (cmgr cr) w in Ok (Owned cr nb (items ++ [v])) w1
           | _ => Ok (Owned cr body (items ++ [v])) w
           end
  end.

(* X(X&&) noexcept: mCrew(std::move(x.mCrew)) (SetCrew(SetCrew&&): mData(nullptr); Swap) + steal + null the source *)
Definition cc_move_ctor (src : cc) : cc * cc := (src, MovedFrom).
(* Swap: crew pointers, counts and body pointers exchanged; no dereference *)
Definition cc_swap (a b : cc) : cc * cc := (b, a).

(* operator=(X&&): X(std::move(x)).Swap( *this); then the temporary (old *this) is destroyed.  Distinct objects. *)
Definition cc_move_assign (k : ckind) (dst src : cc) (w : world) : res (cc * cc) :=
  let (tmp, src1) := cc_move_ctor src in
  let (tmp2, dst1) := cc_swap tmp dst in
  cc_destroy k tmp2 w >>= fun _ w1 => Ok (dst1, src1) w1.
(* the same statement when &x == this *)
Definition cc_self_move_assign (k : ckind) (c : cc) (w : world) : res cc :=
  let (tmp, c1) := cc_move_ctor c in
  let (tmp2, c2) := cc_swap tmp c1 in
  cc_destroy k tmp2 w >>= fun _ w1 => Ok c2 w1.

(* X(const X&, MemManager): X(x.GetHashTraits(), std::move(memManager)) [crew deref of the SOURCE]; rebuild; copy items *)
Definition cc_copy_ctor_mm (k : ckind) (src : cc) (m : mgr) (w : world) : res cc :=
  match src with
  | MovedFrom => NullCrew
  | Owned _ _ items =>
      let (cb, w1) := alloc_n (crew_n k) m w in
      let (bb, w2) := alloc_n (shape k (length items)) m w1 in
      Ok (Owned (mkCrew cb m) bb items) (emit (map ECopy items) w2)
  end.
(* X(const X&): X(x, MemManager(x.GetMemManager())) *)
Definition cc_copy_ctor (k : ckind) (src : cc) (w : world) : res cc :=
  match src with
  | MovedFrom => NullCrew
  | Owned cr _ _ => cc_copy_ctor_mm k src (cmgr cr) w
  end.
(* operator=(const X&): if (this != &x) X(x).Swap( *this) *)
Definition cc_copy_assign (k : ckind) (dst src : cc) (w : world) : res cc :=
  cc_copy_ctor k src w >>= fun tmp w1 =>
  let (tmp2, dst1) := cc_swap tmp dst in
  cc_destroy k tmp2 w1 >>= fun _ w2 => Ok dst1 w2.
Definition cc_self_copy_assign (k : ckind) (c : cc) (w : world) : res cc := Ok c w.

(* dst.MergeFrom(src) for sets/maps: every item is relocated (move + destroy of the shell) into structure allocated
   through dst's manager; src keeps its crew and its (now empty) capacity *)
Definition cc_merge_from (k : ckind) (dst src : cc) (w : world) : res (cc * cc) :=
  match dst, src with
  | Owned dcr dbody ditems, Owned scr sbody sitems =>
      let (nb, w1) := alloc_n (shape k (length sitems)) (cmgr dcr) w in
      Ok (Owned dcr (dbody ++ nb) (ditems ++ sitems), Owned scr sbody [])
         (emit (map EMove sitems ++ map EDestroy sitems) w1)
  | _, _ => NullCrew
  end.
(* unordered_multimap::pvCreateMultiMap: for (ref : right) m.Add(ref.first, std::move(ref.second)); right.clear() *)
Definition cc_merge_multi (dst src : cc) (w : world) : res (cc * cc) :=
  match dst, src with
  | Owned dcr dbody ditems, Owned scr sbody sitems =>
      let (nb, w1) := alloc_n (shape KMulti (length sitems)) (cmgr dcr) w in
      cc_clear KMulti src (emit (map EKeyCopy sitems ++ map EMove sitems) w1) >>= fun src1 w2 =>
      Ok (Owned dcr (dbody ++ nb) (ditems ++ sitems), src1) w2
  | _, _ => NullCrew
  end.

(* ================================================================ Array (manager inline, optional internal capacity) *)
Record arr := mkArr { amgr : mgr; ablock : option block; aitems : list Z }.
(* ablock = None: items (if any) live in the internal buffer (internalCapacity > 0) *)

Definition arr_new (m : mgr) : arr := mkArr m None [].
Definition arr_blocks (a : arr) : list block := match ablock a with Some b => [b] | None => [] end.

(* Data::pvDestroy: ItemTraits::Destroy(items, count); pvDeallocate() through the CURRENT manager *)
Definition arr_destroy (a : arr) (w : world) : res unit :=
  let w1 := emit (map EDestroy (aitems a)) w in
  match ablock a with Some b => dealloc (amgr a) b w1 | None => Ok tt w1 end.

(* Data::pvInit(Data&&): external block is stolen; internal items are relocated one by one (nothrow relocatable) *)
Definition arr_take (m : mgr) (src : arr) (w : world) : arr * arr * world :=
  match ablock src with
  | Some b => (mkArr m (Some b) (aitems src), mkArr (amgr src) None [], w)
  | None => (mkArr m None (aitems src), mkArr (amgr src) None [],
             emit (map EMove (aitems src) ++ map EDestroy (aitems src)) w)
  end.
(* Data(Data&&): MemManager(std::move(data.GetMemManager())); pvInit(std::move(data)) *)
Definition arr_move_ctor (src : arr) (w : world) : arr * arr * world := arr_take (amgr src) src w.

(* Data::operator=(Data&&), this != &data: pvDestroy(); MemManagerProxy::Assign(src mgr, dst mgr); pvInit(move).
   `assign` is proxy_assign tr false (MemManagerStd) or native_proxy_assign false (kit::MM). *)
Definition arr_move_assign (assign : mgr -> mgr -> mgr * mgr) (dst src : arr) (w : world) : res (arr * arr) :=
  arr_destroy dst w >>= fun _ w1 =>
  let (s', d') := assign (amgr src) (amgr dst) in
  let '(dst1, src1, w2) := arr_take d' (mkArr s' (ablock src) (aitems src)) w1 in
  Ok (dst1, src1) w2.

(* Array::Swap: if (this != &array) std::swap(mData, array.mData)  = Data tmp(move(a)); a = move(b); b = move(tmp) *)
Definition arr_swap (assign : mgr -> mgr -> mgr * mgr) (a b : arr) (w : world) : res (arr * arr) :=
  let '(tmp, a1, w1) := arr_move_ctor a w in
  arr_move_assign assign a1 b w1 >>= fun '(a2, b1) w2 =>
  arr_move_assign assign b1 tmp w2 >>= fun '(b2, tmp1) w3 =>
  arr_destroy tmp1 w3 >>= fun _ w4 => Ok (a2, b2) w4.

(* Array(const Array&, MemManager) / Array(const Array&) [shrink]: allocate iff count > internalCapacity; copy items *)
Definition arr_copy_ctor_mm (ic : nat) (src : arr) (m : mgr) (w : world) : arr * world :=
  if Nat.leb (length (aitems src)) ic then (mkArr m None (aitems src), emit (map ECopy (aitems src)) w)
  else let (b, w1) := alloc m w in (mkArr m (Some b) (aitems src), emit (map ECopy (aitems src)) w1).
Definition arr_copy_ctor (ic : nat) (src : arr) (w : world) : arr * world := arr_copy_ctor_mm ic src (amgr src) w.
(* operator=(const Array&): if (this != &array) *this = Array(array) *)
Definition arr_copy_assign (assign : mgr -> mgr -> mgr * mgr) (ic : nat) (dst src : arr) (w : world) : res arr :=
  let (tmp, w1) := arr_copy_ctor ic src w in
  arr_move_assign assign dst tmp w1 >>= fun '(dst1, tmp1) w2 =>
  arr_destroy tmp1 w2 >>= fun _ w3 => Ok dst1 w3.
(* Clear(shrink = false): destroy the items, keep the capacity *)
Definition arr_clear (a : arr) (w : world) : arr * world :=
  (mkArr (amgr a) (ablock a) [], emit (map EDestroy (aitems a)) w).
(* AddBack of one element (abstracted growth: the first element beyond the internal capacity allocates) *)
Definition arr_insert (ic : nat) (a : arr) (v : Z) (w : world) : arr * world :=
  match ablock a with
  | Some _ => (mkArr (amgr a) (ablock a) (aitems a ++ [v]), w)
  | None => if Nat.ltb (length (aitems a)) ic then (mkArr (amgr a) None (aitems a ++ [v]), w)
            else let (b, w1) := alloc (amgr a) w in
                 (mkArr (amgr a) (Some b) (aitems a ++ [v]),
                  emit (map EMove (aitems a) ++ map EDestroy (aitems a)) w1)
  end.

(* ================================================================ stdish wrappers over crew containers *)
Inductive wkind := WSet | WMap | WUSet | WUMap | WUMulti.    (* multiset / multimap = WSet / WMap with multi keys *)
Definition nested (wk : wkind) : ckind :=
  match wk with WSet | WMap => KTree | WUSet | WUMap => KHash | WUMulti => KMulti end.

(* get_allocator(): allocator_type(mX.GetMemManager().GetByteAllocator()) -- through the crew *)
Definition w_get_allocator (c : cc) (w : world) : res mgr :=
  match c with Owned cr _ _ => Ok (cmgr cr) w | MovedFrom => NullCrew end.

(* pvCreateMap / pvCreateSet / pvCreateMultiMap (right, alloc) *)
Definition w_create (wk : wkind) (tr : traits) (right : cc) (alloc : mgr) (w : world) : res (cc * cc) :=
  w_get_allocator right w >>= fun ra w0 =>
  if w_steal tr ra alloc then Ok (cc_move_ctor right) w0
  else cc_new (nested wk) alloc w0 >>= fun fresh w1 =>
       match wk with
       | WUMulti => cc_merge_multi fresh right w1
       | _ => cc_merge_from (nested wk) fresh right w1
       end.

(* operator=(X&&), this != &right *)
Definition w_move_assign (wk : wkind) (tr : traits) (dst src : cc) (w : world) : res (cc * cc) :=
  w_get_allocator (if w_propagate_move tr then src else dst) w >>= fun alloc w0 =>
  w_create wk tr src alloc w0 >>= fun '(tmp, src1) w1 =>
  cc_move_assign (nested wk) dst tmp w1 >>= fun '(dst1, _) w2 => Ok (dst1, src1) w2.

(* operator=(const X&), this != &right: mX = X(right.mX, MemManager(alloc)) *)
Definition w_copy_assign (wk : wkind) (tr : traits) (dst src : cc) (w : world) : res cc :=
  w_get_allocator (if w_propagate_copy tr then src else dst) w >>= fun alloc w0 =>
  cc_copy_ctor_mm (nested wk) src alloc w0 >>= fun tmp w1 =>
  cc_move_assign (nested wk) dst tmp w1 >>= fun '(dst1, _) w2 => Ok dst1 w2.

(* swap: the assertion evaluates get_allocator() of both operands iff !POCS; then nested Swap *)
Definition w_swap (tr : traits) (a b : cc) (w : world) : res (cc * cc) :=
  if w_swap_evaluates_allocators tr then
    w_get_allocator a w >>= fun x w0 => w_get_allocator b w0 >>= fun y w1 =>
    if alloc_eq tr x y then Ok (cc_swap a b) w1 else SwapPre
  else Ok (cc_swap a b) w.

(* ================================================================ stdish::vector over Array *)
(* pvCreateArray(right, alloc): steal, or Array(move_iterator(begin), move_iterator(end), MemManager(alloc)) and
   right.clear() *)
Definition v_create (tr : traits) (ic : nat) (right : arr) (al : mgr) (w : world) : arr * arr * world :=
  if w_steal tr (amgr right) al then arr_move_ctor right w
  else
    let w0 := emit (map EMove (aitems right)) w in
    let '(na, w1) := if Nat.leb (length (aitems right)) ic then (mkArr al None (aitems right), w0)
                     else let (b, w') := alloc al w0 in (mkArr al (Some b) (aitems right), w') in
    let (r1, w2) := arr_clear right w1 in (na, r1, w2).

Definition v_move_assign (tr : traits) (ic : nat) (dst src : arr) (w : world) : res (arr * arr) :=
  let alloc := if w_propagate_move tr then amgr src else amgr dst in
  let '(tmp, src1, w1) := v_create tr ic src alloc w in
  arr_move_assign (proxy_assign tr false) dst tmp w1 >>= fun '(dst1, tmp1) w2 =>
  arr_destroy tmp1 w2 >>= fun _ w3 => Ok (dst1, src1) w3.

Definition v_copy_assign (tr : traits) (ic : nat) (dst src : arr) (w : world) : res arr :=
  let alloc := if w_propagate_copy tr then amgr src else amgr dst in
  let (tmp, w1) := arr_copy_ctor_mm ic src alloc w in
  arr_move_assign (proxy_assign tr false) dst tmp w1 >>= fun '(dst1, tmp1) w2 =>
  arr_destroy tmp1 w2 >>= fun _ w3 => Ok dst1 w3.

Definition v_swap (tr : traits) (a b : arr) (w : world) : res (arr * arr) :=
  if w_swap_assert_holds tr (amgr a) (amgr b) then arr_swap (proxy_assign tr false) a b w else SwapPre.

(* ================================================================ uses of a container that need its crew (round 2) *)
(* Find / ContainsKey / find(): GetHashTraits() / GetTreeTraits() through the crew *)
Definition cc_find (c : cc) (v : Z) (w : world) : res bool :=
  match c with MovedFrom => NullCrew | Owned _ _ items => Ok (existsb (Z.eqb v) items) w end.

Fixpoint cc_insert_all (k : ckind) (multi : bool) (c : cc) (vs : list Z) (w : world) : res cc :=
  match vs with
  | [] => Ok c w
  | v :: r => cc_insert k multi c v w >>= fun c1 w1 => cc_insert_all k multi c1 r w1
  end.

(* stdish operator=(std::initializer_list):  X tmp(mX.GetHashTraits(), MemManager(get_allocator())); tmp.Insert(...);
   mX = std::move(tmp)   -- both GetHashTraits() and get_allocator() go through the crew of *this *)
Definition w_assign_ilist (wk : wkind) (multi : bool) (c : cc) (vs : list Z) (w : world) : res cc :=
  w_get_allocator c w >>= fun al w0 =>
  cc_new (nested wk) al w0 >>= fun fresh w1 =>
  cc_insert_all (nested wk) multi fresh vs w1 >>= fun tmp w2 =>
  cc_move_assign (nested wk) c tmp w2 >>= fun '(c1, _) w3 => Ok c1 w3.
