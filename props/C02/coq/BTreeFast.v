(* C02 -- pvMergeFast: hanging the shorter tree (under new zero-item roots) on the joining edge of the taller tree *)
From Coq Require Import List ZArith Arith Lia Bool.
From C02 Require Import BTreeModel BTreeBase BTreeSearch BTreeIter BTreeAdd BTreeRemove BTreeCtx.
Import ListNotations.

Section Fast.
Variable maxCap : nat.
Hypothesis Hpos : 0 < maxCap.
Notation shape := (shape maxCap).
Notation wrap := (wrap maxCap).
Notation fast_attach := (fast_attach maxCap).

Lemma wrap_spec m : forall d n, shape d n -> shape (m + d) (wrap m n) /\ flatten (wrap m n) = flatten n.
Proof.
  induction m as [|m IH]; intros d n Sh; [auto|]. destruct (IH d n Sh) as [S' F'].
  cbn [BTreeModel.wrap plus]. split.
  - cbn [BTreeBase.shape]. unfold n_count. cbn [n_items n_cap n_children length].
    split; [lia|]. split; [lia|]. split; [reflexivity|]. constructor; auto.
  - cbn [flatten map interleave]. exact F'.
Qed.

(* in the real code every internal node has capacity maxCapacity; the fast path relies on it (it tests
   GetCount() < nodeMaxCapacity, AcceptBackItem asserts count < GetCapacity()) *)
Fixpoint edge_caps (e : nat) (swp : bool) (n2 : node) : Prop :=
  match e with
  | 0 => True
  | S e' => n_cap n2 = maxCap /\
            match nth_error (n_children n2) (if swp then n_count n2 else 0) with
            | Some ch => edge_caps e' swp ch
            | None => True
            end
  end.

Lemma fast_attach_spec e : forall swp sep small n2 ds,
  shape (e + ds) n2 -> shape ds small -> edge_caps e swp n2 ->
  match fast_attach e swp sep small n2 with
  | Some n' => shape (e + ds) n' /\
               flatten n' = if swp then flatten n2 ++ sep :: flatten small else flatten small ++ sep :: flatten n2
  | None => True
  end.
Proof.
  induction e as [|e IH]; intros swp sep small n2 ds Sh Ss Ec; [exact I|].
  cbn [plus] in Sh. pose proof Sh as (H1 & H2 & L & F & Cpx). cbn [edge_caps] in Ec. destruct Ec as [Ecap Ech].
  cbn [BTreeModel.fast_attach].
  set (c := if swp then n_count n2 else 0) in *.
  assert (Hc : c <= n_count n2) by (unfold c; destruct swp; lia).
  destruct (shape_child_ex _ _ _ c Sh Hc) as (ch & Ech' & Sch). rewrite Ech' in *.
  destruct (wrap_spec e ds small Ss) as [Sw Fw].
  assert (Here : match (if n_count n2 <? maxCap
                        then Some (if swp then Node (n_cap n2) (n_items n2 ++ [sep]) (n_children n2 ++ [wrap e small])
                                   else Node (n_cap n2) (sep :: n_items n2) (wrap e small :: n_children n2))
                        else None) with
                 | Some n' => shape (S (e + ds)) n' /\
                     flatten n' = if swp then flatten n2 ++ sep :: flatten small else flatten small ++ sep :: flatten n2
                 | None => True end).
  { destruct (n_count n2 <? maxCap) eqn:Er; [|exact I]. apply Nat.ltb_lt in Er. destruct swp.
    - split.
      + cbn [BTreeBase.shape]. unfold n_count in *. cbn [n_items n_cap n_children]. rewrite !app_length. cbn [length].
        split; [lia|]. split; [lia|]. split; [lia|]. split; [apply Forall_app; split; auto | exact Ecap].
      + cbn [flatten]. rewrite map_app. cbn [map]. rewrite interleave_app2 by (rewrite map_length; exact L).
        cbn [interleave]. rewrite Fw, <- flatten_unfold. reflexivity.
    - split.
      + cbn [BTreeBase.shape]. unfold n_count in *. cbn [n_items n_cap n_children length].
        split; [lia|]. split; [lia|]. split; [lia|]. split; [constructor; auto | exact Ecap].
      + cbn [flatten map]. rewrite interleave_cons2, Fw, <- flatten_unfold. reflexivity. }
  specialize (IH swp sep small ch ds Sch Ss Ech).
  destruct (BTreeModel.fast_attach maxCap e swp sep small ch) as [ch'|]; [|exact Here].
  destruct IH as [Sc Fc].
  destruct (replace_child_gen maxCap Hpos _ n2 c ch ch' Sh Ech' Sc) as (S2 & E2 & P2 & Q2 & _ & _).
  split; [exact S2|]. pose proof S2 as (_ & _ & L2 & _).
  rewrite (flatten_split _ c ch' L2 E2), P2, Q2, Fc, (flatten_split n2 c ch L Ech').
  unfold c. destruct swp.
  - rewrite (post_end n2 (n_count n2)) by lia. rewrite !app_nil_r, <- app_assoc. reflexivity.
  - unfold pre. cbn [firstn zipcat app]. rewrite <- app_assoc. reflexivity.
Qed.

(* the joining step of pvMergeFast as a whole: attach on the edge, or make a new root holding the separator *)
Definition fast_join (e : nat) (swp : bool) (sep : Z) (small big : node) : node :=
  match fast_attach e swp sep small big with
  | Some r => r
  | None => Node maxCap [sep] (if swp then [big; wrap e small] else [wrap e small; big])
  end.

Theorem fast_join_spec e swp sep small big ds :
  shape (e + ds) big -> shape ds small -> edge_caps e swp big ->
  exists d', shape d' (fast_join e swp sep small big) /\
    flatten (fast_join e swp sep small big) =
      if swp then flatten big ++ sep :: flatten small else flatten small ++ sep :: flatten big.
Proof.
  intros Sb Ss Ec. unfold fast_join. pose proof (fast_attach_spec e swp sep small big ds Sb Ss Ec) as A.
  destruct (BTreeModel.fast_attach maxCap e swp sep small big) as [r|].
  - exists (e + ds). exact A.
  - destruct (wrap_spec e ds small Ss) as [Sw Fw]. exists (S (e + ds)). destruct swp.
    + split.
      * cbn [BTreeBase.shape]. unfold n_count. cbn [n_items n_cap n_children length].
        split; [lia|]. split; [lia|]. split; [reflexivity|]. repeat constructor; auto.
      * cbn [flatten map interleave]. rewrite Fw. reflexivity.
    + split.
      * cbn [BTreeBase.shape]. unfold n_count. cbn [n_items n_cap n_children length].
        split; [lia|]. split; [lia|]. split; [reflexivity|]. repeat constructor; auto.
      * cbn [flatten map interleave]. rewrite Fw. reflexivity.
Qed.

End Fast.
