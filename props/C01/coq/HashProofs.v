(* C01 -- proofs about the model in HashModel.v: table level (one generation) *)
From Coq Require Import ZArith List Lia Bool Permutation.
From C01 Require Import HashModel ListAux HashSpec.
From C01 Require IterMachine.
Import ListNotations.
Local Open Scope Z_scope.

Arguments items {B}. Arguments wasFull {B}. Arguments bound {B}. Arguments mkB {B}.
Arguments tlog {B}. Arguments tbs {B}. Arguments mkT {B}.
Arguments wa {B}. Arguments wb {B}. Arguments wext {B}. Arguments mkW {B}.
Arguments gens {B}. Arguments count {B}. Arguments capacity {B}. Arguments mkH {B}.

Ltac csplit := repeat match goal with |- _ /\ _ => split end.

Section TableProofs.
  Variable B : Type.
  Variable b0 : B.
  Variable decode : Z -> B -> Z.
  Variable upd_bound : B -> Z -> B.
  Variable h : Z -> Z.
  Variable cap : Z.
  Variable unlimited : bool.
  Variable wf0 : bool.
  Variable wfThr : Z.
  Variable start : Z -> Z -> Z.
  Variable next : Z -> Z -> Z -> Z.
  Variable logStart : Z.
  Variable calcCapacity : Z -> Z.
  Variable shift : Z -> Z.
  Variable maxLog : Z.
  Variable Binv : B -> Prop.

  Hypothesis cap_pos : 1 <= cap.
  Hypothesis logStart_nonneg : 0 <= logStart.
  Hypothesis shift_nonneg : forall bc, 0 <= shift bc.
  Hypothesis thr_le : wfThr <= cap.
  Hypothesis start_range : forall hc log, 0 <= log <= maxLog -> 0 <= start hc (2 ^ log) < 2 ^ log.
  Hypothesis next_range : forall i log p, 0 <= log <= maxLog -> 0 <= i < 2 ^ log -> 0 <= next i (2 ^ log) p < 2 ^ log.
  Hypothesis Binv0 : Binv b0.
  Hypothesis Binv_upd : forall log b p, 0 <= log <= maxLog -> Binv b -> 0 <= p < 2 ^ log -> Binv (upd_bound b p).
  Hypothesis bound_ge : forall log b p, 0 <= log <= maxLog -> Binv b -> 0 <= p < 2 ^ log -> (1 <= p -> unlimited = false) ->
      p <= decode log (upd_bound b p) /\
      (forall q, 0 <= q < 2 ^ log -> q <= decode log b -> q <= decode log (upd_bound b p)).

  Notation bucket := (bucket B).
  Notation table := (table B).
  Notation emptyB := (emptyB B b0 wf0).
  Notation getb := (getb B b0 wf0).
  Notation setb := (setb B).
  Notation isFull := (isFull B cap unlimited).
  Notation blen := (blen B).
  Notation bcount := (bcount B).
  Notation tfind := (tfind B b0 decode h wf0 start next).
  Notation probe_loop := (probe_loop B b0 wf0 next).
  Notation add_loop := (add_loop B b0 cap unlimited wf0 next).
  Notation tadd := (tadd B b0 upd_bound h cap unlimited wf0 wfThr start next).
  Notation tremove := (tremove B b0 wf0).
  Notation tsetval := (tsetval B b0 wf0).
  Notation newTable := (newTable B b0 wf0).
  Notation hset := (hset B).
  Notation gfind := (gfind B b0 decode h wf0 start next).
  Notation hfind := (hfind B b0 decode h wf0 start next).
  Notation reloc_items := (reloc_items B b0 upd_bound h cap unlimited wf0 wfThr start next).
  Notation reloc_buckets := (reloc_buckets B b0 upd_bound h cap unlimited wf0 wfThr start next).
  Notation reloc_gens := (reloc_gens B b0 upd_bound h cap unlimited wf0 wfThr start next).
  Notation relocate := (relocate B b0 upd_bound h cap unlimited wf0 wfThr start next).
  Notation add_all := (add_all B b0 upd_bound h cap unlimited wf0 wfThr start next).
  Notation newLog := (newLog B logStart shift).
  Notation hadd := (hadd B b0 upd_bound h cap unlimited wf0 wfThr start next logStart calcCapacity shift maxLog).
  Notation hadd_nomem := (hadd_nomem B b0 upd_bound h cap unlimited wf0 wfThr start next logStart calcCapacity shift maxLog).
  Notation hreserve := (hreserve B b0 upd_bound h cap unlimited wf0 wfThr start next logStart calcCapacity shift maxLog).
  Notation hcopy := (hcopy B b0 upd_bound h cap unlimited wf0 wfThr start next logStart calcCapacity maxLog).
  Notation hclear := (hclear B b0 wf0).
  Notation step := (step B b0 decode upd_bound h cap unlimited wf0 wfThr start next logStart calcCapacity shift maxLog).
  Notation wstep := (wstep B b0 decode upd_bound h cap unlimited wf0 wfThr start next logStart calcCapacity shift maxLog).
  Notation wrun := (wrun B b0 decode upd_bound h cap unlimited wf0 wfThr start next logStart calcCapacity shift maxLog).
  Notation it_remove := (it_remove B b0 wf0).
  Notation rf_loop := (rf_loop B b0 wf0).
  Notation hremove_if_m := (hremove_if_m B b0 wf0).
  Notation merge_m := (merge_m B b0 decode upd_bound h cap unlimited wf0 wfThr start next logStart calcCapacity shift maxLog).
  Notation irest := (IterMachine.rest B).
  Notation ivalid := (IterMachine.valid B).
  Notation run := (run B b0 decode upd_bound h cap unlimited wf0 wfThr start next logStart calcCapacity shift maxLog).

  (* the probe path of a hash code: path 0 = GetStartBucketIndex, path (p+1) = GetNextBucketIndex (path p) _ (p+1) *)
  Fixpoint path (hc bc : Z) (p : nat) : Z :=
    match p with O => start hc bc | S p' => next (path hc bc p') bc (Z.of_nat p) end.

  Definition tall (t : table) : list item := flat_map (@items B) (tbs t).

  Record TInv (t : table) : Prop := {
    ti_log : 0 <= tlog t <= maxLog;
    ti_len : length (tbs t) = Z.to_nat (bcount t);
    ti_b : forall i, 0 <= i < bcount t ->
           (unlimited = false -> blen (getb t i) <= cap) /\ (isFull (getb t i) = true -> wasFull (getb t i) = true) /\ Binv (bound (getb t i));
    ti_path : forall i k v, 0 <= i < bcount t -> In (k, v) (items (getb t i)) ->
        exists p : nat, path (h k) (bcount t) p = i /\ Z.of_nat p < bcount t /\
          Z.of_nat p <= decode (tlog t) (bound (getb t (start (h k) (bcount t)))) /\
          forall q, (q < p)%nat -> wasFull (getb t (path (h k) (bcount t) q)) = true
  }.

  Lemma bcount_pos t : 0 <= tlog t -> 0 < bcount t.
  Proof. intros. unfold bcount. apply Z.pow_pos_nonneg; lia. Qed.

  Lemma path_range t hc p : 0 <= tlog t <= maxLog -> 0 <= path hc (bcount t) p < bcount t.
  Proof.
    intros Hl. induction p; simpl.
    - apply start_range; auto.
    - apply next_range; auto.
  Qed.

  Lemma idx_nat t i : TInv t -> 0 <= i < bcount t -> (Z.to_nat i < length (tbs t))%nat.
  Proof. intros I Hi. rewrite (ti_len _ I). lia. Qed.

  Lemma getb_setb_same t i b : (Z.to_nat i < length (tbs t))%nat -> getb (setb t i b) i = b.
  Proof. intros. unfold getb, setb; simpl. apply nth_upd_nth_same; auto. Qed.

  Lemma getb_setb_other t i j b : 0 <= i -> 0 <= j -> i <> j -> getb (setb t i b) j = getb t j.
  Proof. intros. unfold getb, setb; simpl. apply nth_upd_nth_other. lia. Qed.

  Lemma bcount_setb t i b : bcount (setb t i b) = bcount t.
  Proof. reflexivity. Qed.

  Lemma in_tall t kv : TInv t -> (In kv (tall t) <-> exists i, 0 <= i < bcount t /\ In kv (items (getb t i))).
  Proof.
    intros I. unfold tall. rewrite (in_flat_map_nth (@items B) emptyB). split.
    - intros [n [Hn Hy]]. exists (Z.of_nat n). rewrite (ti_len _ I) in Hn. split; [lia|].
      unfold getb. rewrite Nat2Z.id. exact Hy.
    - intros [i [Hi Hy]]. exists (Z.to_nat i). split; [apply idx_nat; auto|exact Hy].
  Qed.

  (* ---------- find ---------- *)
  Lemma probe_loop_S n t k probe idx b :
    probe_loop (S n) t k probe idx b =
      if wasFull b then
        match bfind k (items (getb t (next idx (bcount t) probe))) 0 with
        | Some (pos, v) => Some (next idx (bcount t) probe, pos, v)
        | None => probe_loop n t k (probe + 1) (next idx (bcount t) probe) (getb t (next idx (bcount t) probe))
        end
      else None.
  Proof. reflexivity. Qed.

  Lemma probe_loop_sound t k : 0 <= tlog t <= maxLog -> forall n probe idx b i pos v, 0 <= idx < bcount t ->
    probe_loop n t k probe idx b = Some (i, pos, v) ->
    0 <= i < bcount t /\ nth_error (items (getb t i)) pos = Some (k, v).
  Proof.
    intros Hl. induction n; intros probe idx b i pos v Hi H; [discriminate|].
    rewrite probe_loop_S in H. destruct (wasFull b); [|discriminate].
    assert (Hr : 0 <= next idx (bcount t) probe < bcount t) by (apply next_range; auto).
    destruct (bfind k (items (getb t (next idx (bcount t) probe))) 0) as [[pos' v']|] eqn:E.
    - inversion H; subst. split; auto. apply bfind_spec0; auto.
    - eapply IHn; eauto.
  Qed.

  Lemma tfind_sound t k i pos v : 0 <= tlog t <= maxLog -> tfind t k = Some (i, pos, v) ->
    0 <= i < bcount t /\ nth_error (items (getb t i)) pos = Some (k, v).
  Proof.
    intros Hl. unfold HashModel.tfind.
    assert (Hr : 0 <= start (h k) (bcount t) < bcount t) by (apply start_range; auto).
    destruct (bfind k (items (getb t (start (h k) (bcount t)))) 0) as [[pos' v']|] eqn:E; intros H.
    - inversion H; subst. split; auto. apply bfind_spec0; auto.
    - eapply probe_loop_sound; eauto.
  Qed.

  Lemma tfind_in t k i pos v : TInv t -> tfind t k = Some (i, pos, v) -> In (k, v) (tall t).
  Proof.
    intros I H. apply tfind_sound in H; [|apply I]. destruct H as [Hi Hn].
    apply in_tall; auto. exists i. split; auto. eapply nth_error_In; eauto.
  Qed.

  Lemma probe_loop_complete t k v : TInv t -> NoDup (map fst (tall t)) ->
    forall p, In (k, v) (items (getb t (path (h k) (bcount t) p))) ->
    (forall q, (q < p)%nat -> wasFull (getb t (path (h k) (bcount t) q)) = true) ->
    forall n q, (q < p)%nat -> (p - q <= n)%nat ->
    exists i pos, probe_loop n t k (Z.of_nat (S q)) (path (h k) (bcount t) q) (getb t (path (h k) (bcount t) q)) = Some (i, pos, v).
  Proof.
    intros I ND p Hin Hwf. induction n; intros q Hq Hn; [lia|].
    rewrite probe_loop_S. rewrite (Hwf q Hq).
    change (next (path (h k) (bcount t) q) (bcount t) (Z.of_nat (S q))) with (path (h k) (bcount t) (S q)).
    destruct (bfind k (items (getb t (path (h k) (bcount t) (S q)))) 0) as [[pos' v']|] eqn:E.
    - exists (path (h k) (bcount t) (S q)), pos'. repeat f_equal.
      apply bfind_spec0 in E. apply nth_error_In in E.
      eapply NoDup_keys_val; [exact ND| |].
      + apply in_tall; auto. eexists; split; [|exact E]. apply path_range, I.
      + apply in_tall; auto. eexists; split; [|exact Hin]. apply path_range, I.
    - assert (S q <> p). { intro; subst p. apply bfind_none in E. apply E. apply in_keys. eauto. }
      replace (Z.of_nat (S q) + 1) with (Z.of_nat (S (S q))) by lia.
      apply IHn; lia.
  Qed.

  Lemma tfind_complete t k v : TInv t -> NoDup (map fst (tall t)) -> In (k, v) (tall t) ->
    exists i pos, tfind t k = Some (i, pos, v).
  Proof.
    intros I ND Hin. apply in_tall in Hin; auto. destruct Hin as [i [Hi Hin]].
    destruct (ti_path _ I i k v Hi Hin) as [p [Hp [Hpb [Hd Hwf]]]].
    unfold HashModel.tfind. subst i.
    destruct (bfind k (items (getb t (start (h k) (bcount t)))) 0) as [[pos' v']|] eqn:E.
    - exists (start (h k) (bcount t)), pos'. repeat f_equal.
      apply bfind_spec0 in E. apply nth_error_In in E.
      eapply NoDup_keys_val; [exact ND| |].
      + apply in_tall; auto. eexists; split; [|exact E]. apply (path_range t (h k) 0), I.
      + apply in_tall; auto. eexists; split; [|exact Hin]. apply path_range, I.
    - assert (p <> 0%nat). { intro; subst p. apply bfind_none in E. apply E. apply in_keys. eauto. }
      apply (probe_loop_complete t k v I ND p Hin Hwf _ 0%nat); lia.
  Qed.

  Lemma tfind_none t k : TInv t -> NoDup (map fst (tall t)) -> tfind t k = None -> ~ In k (map fst (tall t)).
  Proof.
    intros I ND H Hin. apply in_keys in Hin. destruct Hin as [v Hin].
    destruct (tfind_complete t k v I ND Hin) as [i [pos E]]. congruence.
  Qed.

  (* ---------- add (pvAddNogrow) ---------- *)
  Lemma add_loop_eq n t probe idx :
    add_loop n t probe idx =
      if isFull (getb t idx) then
        match n with
        | O => None
        | S n' => add_loop n' t (probe + 1) (next idx (bcount t) (probe + 1))
        end
      else Some (idx, probe).
  Proof. destruct n; reflexivity. Qed.

  Lemma add_loop_spec t hc : forall n q idx probe,
    add_loop n t (Z.of_nat q) (path hc (bcount t) q) = Some (idx, probe) ->
    exists p, probe = Z.of_nat p /\ idx = path hc (bcount t) p /\ (q <= p <= q + n)%nat /\
      isFull (getb t idx) = false /\
      forall q', (q <= q' < p)%nat -> isFull (getb t (path hc (bcount t) q')) = true.
  Proof.
    induction n; intros q idx probe H; rewrite add_loop_eq in H;
      destruct (isFull (getb t (path hc (bcount t) q))) eqn:F; try discriminate.
    - inversion H; subst. exists q. repeat split; auto; try lia; try (intros; lia).
    - replace (Z.of_nat q + 1) with (Z.of_nat (S q)) in H by lia.
      change (next (path hc (bcount t) q) (bcount t) (Z.of_nat (S q))) with (path hc (bcount t) (S q)) in H.
      destruct (IHn _ _ _ H) as [p [E1 [E2 [E3 [E4 E5]]]]].
      exists p. repeat split; auto; try lia. intros q' Hq'.
      destruct (Nat.eq_dec q' q); [subst; auto|apply E5; lia].
    - inversion H; subst. exists q. repeat split; auto; try lia; try (intros; lia).
  Qed.

  (* shape of the table after a successful add *)
  Lemma tadd_shape t kv t' : TInv t -> tadd t kv = Some t' ->
    exists p : nat,
      let i0 := start (h (fst kv)) (bcount t) in
      let idx := path (h (fst kv)) (bcount t) p in
      Z.of_nat p < bcount t /\ isFull (getb t idx) = false /\
      (forall q, (q < p)%nat -> isFull (getb t (path (h (fst kv)) (bcount t) q)) = true) /\
      tlog t' = tlog t /\ length (tbs t') = length (tbs t) /\
      (forall j, 0 <= j < bcount t ->
         items (getb t' j) = (if Z.eqb j idx then items (getb t j) ++ [kv] else items (getb t j)) /\
         wasFull (getb t' j) = (if Z.eqb j idx then wasFull (getb t j) || (wfThr <=? blen (getb t j) + 1) else wasFull (getb t j)) /\
         bound (getb t' j) = (if Z.eqb j i0 then upd_bound (bound (getb t j)) (Z.of_nat p) else bound (getb t j))) /\
      Permutation (tall t') (kv :: tall t).
  Proof.
    intros I. unfold HashModel.tadd.
    destruct (add_loop (Z.to_nat (bcount t - 1)) t 0 (start (h (fst kv)) (bcount t))) as [[idx probe]|] eqn:E; [|discriminate].
    intros H. inversion H; subst t'; clear H.
    pose proof (ti_log _ I) as Hl. pose proof (bcount_pos t (proj1 Hl)) as Hbc.
    destruct (add_loop_spec t (h (fst kv)) _ 0%nat idx probe E) as [p [E1 [E2 [E3 [E4 E5]]]]].
    subst probe. exists p. cbv zeta.
    assert (Hidx : 0 <= idx < bcount t) by (subst idx; apply path_range; auto).
    assert (Hi0 : 0 <= start (h (fst kv)) (bcount t) < bcount t) by (apply start_range; auto).
    assert (Ln : (Z.to_nat idx < length (tbs t))%nat) by (apply idx_nat; auto).
    assert (Ln0 : (Z.to_nat (start (h (fst kv)) (bcount t)) < length (tbs t))%nat) by (apply idx_nat; auto).
    rewrite <- E2.
    set (b1 := mkB (items (getb t idx) ++ [kv]) (wasFull (getb t idx) || (wfThr <=? Z.of_nat (length (items (getb t idx) ++ [kv])))) (bound (getb t idx))).
    set (t1 := setb t idx b1).
    set (i0 := start (h (fst kv)) (bcount t)) in *.
    assert (Ln1 : (Z.to_nat i0 < length (tbs t1))%nat) by (unfold t1, HashModel.setb; simpl; rewrite upd_nth_length; auto).
    split; [lia|]. split; [exact E4|]. split; [intros; apply E5; lia|].
    split; [reflexivity|]. split; [unfold HashModel.setb; simpl; rewrite !upd_nth_length; reflexivity|].
    split.
    - intros j Hj.
      assert (Hlen : Z.of_nat (length (items (getb t idx) ++ [kv])) = blen (getb t idx) + 1).
      { unfold HashModel.blen. rewrite app_length. simpl. lia. }
      destruct (Z.eqb_spec j i0) as [Ej|Ej].
      + subst j. rewrite getb_setb_same by auto. simpl.
        destruct (Z.eqb_spec i0 idx) as [Ei|Ei].
        * rewrite Ei. unfold t1. rewrite getb_setb_same by auto. simpl. rewrite Hlen. auto.
        * unfold t1. rewrite getb_setb_other by lia. auto.
      + rewrite getb_setb_other by lia.
        destruct (Z.eqb_spec j idx) as [Ei|Ei].
        * subst j. unfold t1. rewrite getb_setb_same by auto. simpl. rewrite Hlen. auto.
        * unfold t1. rewrite getb_setb_other by lia. auto.
    - unfold tall. unfold HashModel.setb at 1. simpl tbs.
      apply Permutation_trans with (flat_map (@items B) (tbs t1)).
      + apply (flat_map_upd_nth_perm (@items B) _ _ emptyB _ []); [exact Ln1|simpl; reflexivity].
      + unfold t1, HashModel.setb. simpl tbs.
        apply (flat_map_upd_nth_perm (@items B) _ _ emptyB _ [kv]); [exact Ln|].
        simpl. fold (getb t idx). symmetry. apply Permutation_cons_append.
  Qed.

  Lemma tadd_inv t kv t' : TInv t -> ~ In (fst kv) (map fst (tall t)) -> tadd t kv = Some t' ->
    TInv t' /\ tlog t' = tlog t /\ Permutation (tall t') (kv :: tall t).
  Proof.
    intros I Hnew H. destruct (tadd_shape t kv t' I H) as [p [Hp [Hnf [Hfull [Hlog [Hlen [Hg HP]]]]]]].
    cbv zeta in *.
    set (i0 := start (h (fst kv)) (bcount t)) in *. set (idx := path (h (fst kv)) (bcount t) p) in *.
    pose proof (ti_log _ I) as Hl.
    assert (Hbc : bcount t' = bcount t) by (unfold HashModel.bcount; rewrite Hlog; reflexivity).
    assert (Hidx : 0 <= idx < bcount t) by (apply path_range; auto).
    assert (Hi0 : 0 <= i0 < bcount t) by (apply start_range; auto).
    assert (Hprobe : 1 <= Z.of_nat p -> unlimited = false).
    { intros Hp1. assert (Hq : (0 < p)%nat) by lia. specialize (Hfull 0%nat Hq). unfold HashModel.isFull in Hfull.
      destruct unlimited; [discriminate|reflexivity]. }
    split; [|split; auto].
    constructor.
    - rewrite Hlog; auto.
    - rewrite Hlen, Hbc. apply I.
    - intros j Hj. rewrite Hbc in Hj. destruct (Hg j Hj) as [Hi [Hw Hb]].
      destruct (ti_b _ I j Hj) as [Hc [Hfw HB]].
      unfold HashModel.blen, HashModel.isFull, HashModel.blen in *. rewrite Hi, Hw, Hb.
      destruct (Z.eqb_spec j idx) as [Ej|Ej].
      + subst j. rewrite app_length; simpl.
        split; [|split].
        * intros Hu. rewrite Hu in *. apply Z.leb_gt in Hnf. lia.
        * destruct unlimited; [discriminate|]. apply Z.leb_gt in Hnf.
          intros Hf. apply Z.leb_le in Hf. apply orb_true_iff. right. apply Z.leb_le. lia.
        * destruct (Z.eqb_spec idx i0); auto. apply (Binv_upd (tlog t)); auto. unfold HashModel.bcount in Hp; lia.
      + split; auto. split; auto. destruct (Z.eqb_spec j i0); auto. apply (Binv_upd (tlog t)); auto. unfold HashModel.bcount in Hp; lia.
    - intros j k v Hj Hin. rewrite Hbc in *. destruct (Hg j Hj) as [Hi _]. rewrite Hi in Hin.
      assert (Hwf_mono : forall q, 0 <= q < bcount t -> wasFull (getb t q) = true -> wasFull (getb t' q) = true).
      { intros q Hq Hw. destruct (Hg q Hq) as [_ [Hw' _]]. rewrite Hw'. destruct (q =? idx); auto. rewrite Hw. reflexivity. }
      assert (Hold : In (k, v) (items (getb t j)) ->
        exists p0 : nat, path (h k) (bcount t) p0 = j /\ Z.of_nat p0 < bcount t /\
          Z.of_nat p0 <= decode (tlog t') (bound (getb t' (start (h k) (bcount t)))) /\
          (forall q : nat, (q < p0)%nat -> wasFull (getb t' (path (h k) (bcount t) q)) = true)).
      { intros Hin0. destruct (ti_path _ I j k v Hj Hin0) as [p0 [P1 [P2 [P3 P4]]]].
        exists p0. split; auto. split; auto. split.
        - rewrite Hlog. assert (Hs : 0 <= start (h k) (bcount t) < bcount t) by (apply start_range; auto).
          destruct (Hg _ Hs) as [_ [_ Hb]]. rewrite Hb.
          destruct (Z.eqb_spec (start (h k) (bcount t)) i0); auto.
          destruct (ti_b _ I _ Hs) as [_ [_ HB]].
          destruct (bound_ge (tlog t) (bound (getb t (start (h k) (bcount t)))) (Z.of_nat p) Hl HB) as [G1 G2]; [unfold HashModel.bcount in Hp; lia|exact Hprobe|].
          apply G2; [unfold HashModel.bcount in P2; lia | exact P3].
        - intros q Hq. apply Hwf_mono; [apply path_range; auto|apply P4; auto]. }
      destruct (Z.eqb_spec j idx) as [Ej|Ej]; [|auto].
      apply in_app_or in Hin. destruct Hin as [Hin|Hin]; [auto|].
      destruct Hin as [Hin|[]]. subst kv. simpl in *.
      exists p. split; auto. split; auto. split.
      + rewrite Hlog. destruct (Hg _ Hi0) as [_ [_ Hb]]. fold i0. rewrite Hb. rewrite Z.eqb_refl.
        destruct (ti_b _ I _ Hi0) as [_ [_ HB]].
        destruct (bound_ge (tlog t) (bound (getb t i0)) (Z.of_nat p) Hl HB) as [G1 G2]; [unfold HashModel.bcount in Hp; lia|exact Hprobe|].
        exact G1.
      + intros q Hq. apply Hwf_mono; [apply path_range; auto|].
        apply (ti_b _ I); [apply path_range; auto|]. apply Hfull; auto.
  Qed.

  (* ---------- shrinking a table (Remove, relocation out of an old generation, value assignment) ---------- *)
  Definition shrinks (t t' : table) : Prop :=
    tlog t' = tlog t /\ length (tbs t') = length (tbs t) /\
    forall j, 0 <= j < bcount t ->
      incl (map fst (items (getb t' j))) (map fst (items (getb t j))) /\
      (length (items (getb t' j)) <= length (items (getb t j)))%nat /\
      wasFull (getb t' j) = wasFull (getb t j) /\ bound (getb t' j) = bound (getb t j).

  Lemma shrinks_refl t : shrinks t t.
  Proof. repeat split; auto. apply incl_refl. Qed.

  Lemma shrinks_trans t1 t2 t3 : shrinks t1 t2 -> shrinks t2 t3 -> shrinks t1 t3.
  Proof.
    intros [A1 [A2 A3]] [B1 [B2 B3]]. split; [congruence|]. split; [congruence|].
    intros j Hj. destruct (A3 j Hj) as [a1 [a2 [a3 a4]]].
    assert (Hj2 : 0 <= j < bcount t2) by (unfold HashModel.bcount in *; rewrite A1; auto).
    destruct (B3 j Hj2) as [c1 [c2 [c3 c4]]].
    split; [eapply incl_tran; eauto|]. split; [lia|]. split; congruence.
  Qed.

  Lemma shrink_inv t t' : TInv t -> shrinks t t' -> TInv t'.
  Proof.
    intros I [Hlog [Hlen Hs]].
    assert (Hbc : bcount t' = bcount t) by (unfold HashModel.bcount; rewrite Hlog; reflexivity).
    constructor.
    - rewrite Hlog. apply I.
    - rewrite Hlen, Hbc. apply I.
    - intros j Hj. rewrite Hbc in Hj. destruct (Hs j Hj) as [S1 [S2 [S3 S4]]].
      destruct (ti_b _ I j Hj) as [Hc [Hfw HB]].
      unfold HashModel.blen, HashModel.isFull, HashModel.blen in *. rewrite S3, S4.
      split; [intros Hu; specialize (Hc Hu); lia|]. split; auto. destruct unlimited; [discriminate|].
      intros Hf. apply Hfw. apply Z.leb_le in Hf. apply Z.leb_le. lia.
    - intros j k v Hj Hin. rewrite Hbc in *. destruct (Hs j Hj) as [S1 _].
      assert (Hk : In k (map fst (items (getb t j)))). { apply S1. apply in_keys. eauto. }
      apply in_keys in Hk. destruct Hk as [v0 Hin0].
      destruct (ti_path _ I j k v0 Hj Hin0) as [p0 [P1 [P2 [P3 P4]]]].
      exists p0. split; auto. split; auto. split.
      + rewrite Hlog. assert (Hst : 0 <= start (h k) (bcount t) < bcount t) by (apply start_range; apply I).
        destruct (Hs _ Hst) as [_ [_ [_ S4]]]. rewrite S4. exact P3.
      + intros q Hq. assert (Hpq : 0 <= path (h k) (bcount t) q < bcount t) by (apply path_range; apply I).
        destruct (Hs _ Hpq) as [_ [_ [S3 _]]]. rewrite S3. auto.
  Qed.

  Lemma setb_shrinks t i b' : TInv t -> 0 <= i < bcount t ->
    incl (map fst (items b')) (map fst (items (getb t i))) ->
    (length (items b') <= length (items (getb t i)))%nat ->
    wasFull b' = wasFull (getb t i) -> bound b' = bound (getb t i) ->
    shrinks t (setb t i b').
  Proof.
    intros I Hi H1 H2 H3 H4. split; [reflexivity|]. split; [unfold HashModel.setb; simpl; apply upd_nth_length|].
    intros j Hj. destruct (Z.eq_dec j i).
    - subst j. rewrite getb_setb_same by (apply idx_nat; auto). auto.
    - rewrite getb_setb_other by lia. repeat split; auto. apply incl_refl.
  Qed.

  Lemma tall_setb_perm t i b' extra : TInv t -> 0 <= i < bcount t ->
    Permutation (extra ++ items b') (items (getb t i)) ->
    Permutation (extra ++ tall (setb t i b')) (tall t).
  Proof.
    intros I Hi HP. unfold tall, HashModel.setb. simpl tbs.
    apply (flat_map_upd_nth_perm' (@items B) _ _ emptyB); [apply idx_nat; auto|exact HP].
  Qed.

  Lemma tremove_spec t i pos x : TInv t -> 0 <= i < bcount t -> nth_error (items (getb t i)) pos = Some x ->
    shrinks t (tremove t i pos) /\ Permutation (x :: tall (tremove t i pos)) (tall t).
  Proof.
    intros I Hi Hn. pose proof (bremove_perm _ _ _ Hn) as HP. unfold HashModel.tremove. split.
    - apply setb_shrinks; auto; simpl.
      + intros y Hy. apply (Permutation_in y (Permutation_map fst HP)). simpl. right. exact Hy.
      + apply Permutation_length in HP. simpl in HP. lia.
    - apply (tall_setb_perm t i _ [x]); auto.
  Qed.

  Lemma bsetval_spec pos v (l : list item) k v0 : nth_error l pos = Some (k, v0) ->
    exists l1 l2, l = l1 ++ (k, v0) :: l2 /\ bsetval pos v l = l1 ++ (k, v) :: l2.
  Proof.
    intros H. unfold bsetval. rewrite H.
    destruct (nth_error_nth' _ (0, 0) _ _ H) as [E Hlt].
    exists (firstn pos l), (skipn (S pos) l). split.
    - rewrite <- E. apply nth_split'; auto.
    - apply upd_nth_split; auto.
  Qed.

  Lemma tsetval_spec t i pos k v0 v : TInv t -> 0 <= i < bcount t -> nth_error (items (getb t i)) pos = Some (k, v0) ->
    shrinks t (tsetval t i pos v) /\
    exists rest, Permutation (tall t) ((k, v0) :: rest) /\ Permutation (tall (tsetval t i pos v)) ((k, v) :: rest).
  Proof.
    intros I Hi Hn. destruct (bsetval_spec pos v _ k v0 Hn) as [l1 [l2 [E1 E2]]].
    unfold HashModel.tsetval. split.
    - apply setb_shrinks; auto; simpl; rewrite E2, E1.
      + rewrite !map_app. simpl. apply incl_refl.
      + rewrite !app_length. simpl. lia.
    - assert (Hn' : (Z.to_nat i < length (tbs t))%nat) by (apply idx_nat; auto).
      unfold tall, HashModel.setb. simpl tbs.
      rewrite (flat_map_upd_nth_eq (@items B) _ _ _ Hn'). rewrite (flat_map_split_nth (@items B) _ emptyB _ Hn').
      fold (getb t i). simpl items. rewrite E2, E1.
      exists (flat_map (@items B) (firstn (Z.to_nat i) (tbs t)) ++ (l1 ++ l2) ++ flat_map (@items B) (skipn (S (Z.to_nat i)) (tbs t))).
      split.
      + rewrite <- !app_assoc. rewrite app_comm_cons. apply Permutation_sym.
        apply Permutation_trans with (flat_map (@items B) (firstn (Z.to_nat i) (tbs t)) ++ (k, v0) :: l1 ++ l2 ++ flat_map (@items B) (skipn (S (Z.to_nat i)) (tbs t))).
        * apply Permutation_middle.
        * apply Permutation_app_head. rewrite app_comm_cons. rewrite !app_assoc. apply Permutation_app_tail.
          apply Permutation_middle.
      + rewrite <- !app_assoc. apply Permutation_sym.
        apply Permutation_trans with (flat_map (@items B) (firstn (Z.to_nat i) (tbs t)) ++ (k, v) :: l1 ++ l2 ++ flat_map (@items B) (skipn (S (Z.to_nat i)) (tbs t))).
        * apply Permutation_middle.
        * apply Permutation_app_head. rewrite app_comm_cons. rewrite !app_assoc. apply Permutation_app_tail.
          apply Permutation_middle.
  Qed.

  (* ---------- fresh / cleared tables ---------- *)
  Lemma flat_map_repeat_nil {A C} (f : A -> list C) a n : f a = [] -> flat_map f (repeat a n) = [].
  Proof. intros H. induction n; simpl; auto. rewrite H, IHn. reflexivity. Qed.

  Lemma tall_newTable log : tall (newTable log) = [].
  Proof. unfold tall, HashModel.newTable. simpl. apply flat_map_repeat_nil. reflexivity. Qed.

  Lemma newTable_inv log : 0 <= log <= maxLog -> TInv (newTable log).
  Proof.
    intros Hl.
    assert (G : forall i, getb (newTable log) i = emptyB).
    { intros i. unfold HashModel.getb, HashModel.newTable. simpl. apply nth_repeat. }
    constructor.
    - exact Hl.
    - unfold HashModel.newTable, HashModel.bcount. simpl. apply repeat_length.
    - intros i Hi. rewrite G. unfold HashModel.blen, HashModel.isFull, HashModel.blen. simpl.
      split; [lia|]. split; auto. destruct unlimited; [discriminate|]. intros Hf. apply Z.leb_le in Hf. lia.
    - intros i k v Hi Hin. rewrite G in Hin. simpl in Hin. contradiction.
  Qed.

  Lemma clearT_eq t : TInv t -> clearT B b0 wf0 t = newTable (tlog t).
  Proof.
    intros I. unfold HashModel.clearT, HashModel.newTable. f_equal.
    pose proof (ti_len _ I) as L. unfold HashModel.bcount in L. rewrite <- L. clear L.
    induction (tbs t); simpl; auto. f_equal. auto.
  Qed.

  (* ================= the container: generations ================= *)
  Definition gall (gs : list table) : list item := flat_map tall gs.
  Definition hall (s : hset) : list item := gall (gens s).

  Record Inv (s : hset) : Prop := {
    inv_t : Forall TInv (gens s);
    inv_nd : NoDup (map fst (hall s));
    inv_count : count s = Z.of_nat (length (hall s));
    inv_cap : gens s = [] -> capacity s = 0
  }.

  Lemma hinit_inv : Inv (hinit B).
  Proof. constructor; simpl; auto. constructor. Qed.

  Lemma gall_cons t r : gall (t :: r) = tall t ++ gall r.
  Proof. reflexivity. Qed.

  Lemma gfind_sound gs k : Forall TInv gs -> forall gi0 gi idx pos v, gfind gs k gi0 = Some (gi, idx, pos, v) ->
    exists j t, gi = (gi0 + j)%nat /\ nth_error gs j = Some t /\ 0 <= idx < bcount t /\
                nth_error (items (getb t idx)) pos = Some (k, v).
  Proof.
    induction 1 as [|t r It Ir IH]; simpl; intros gi0 gi idx pos v H; [discriminate|].
    destruct (tfind t k) as [[[idx' pos'] v']|] eqn:E.
    - inversion H; subst. apply tfind_sound in E; [|apply It]. exists 0%nat, t. split; [lia|]. split; auto.
    - destruct (IH _ _ _ _ _ H) as [j [t' [E1 [E2 E3]]]]. exists (S j), t'. split; [lia|]. split; auto.
  Qed.

  Lemma gfind_in gs k gi0 gi idx pos v : Forall TInv gs -> gfind gs k gi0 = Some (gi, idx, pos, v) -> In (k, v) (gall gs).
  Proof.
    intros F H. destruct (gfind_sound gs k F _ _ _ _ _ H) as [j [t [E1 [E2 [E3 E4]]]]].
    unfold gall. apply in_flat_map. exists t. split; [eapply nth_error_In; eauto|].
    apply in_tall; [|eexists; split; [exact E3|eapply nth_error_In; eauto]].
    rewrite Forall_forall in F. apply F. eapply nth_error_In; eauto.
  Qed.

  Lemma gfind_complete gs k v : Forall TInv gs -> NoDup (map fst (gall gs)) -> In (k, v) (gall gs) ->
    forall gi0, exists gi idx pos, gfind gs k gi0 = Some (gi, idx, pos, v).
  Proof.
    induction 1 as [|t r It Ir IH]; simpl; intros ND Hin gi0; [contradiction|].
    rewrite map_app in ND. destruct (NoDup_app_inv _ _ ND) as [N1 [N2 N3]].
    destruct (tfind t k) as [[[idx' pos'] v']|] eqn:E.
    - exists gi0, idx', pos'. repeat f_equal.
      pose proof (tfind_in _ _ _ _ _ It E) as Hin'.
      eapply (NoDup_keys_val (tall t ++ gall r)); [rewrite map_app; exact ND| |exact Hin].
      apply in_or_app; auto.
    - pose proof (tfind_none _ _ It N1 E) as Hno.
      apply in_app_or in Hin. destruct Hin as [Hin|Hin].
      + exfalso. apply Hno. apply in_keys. eauto.
      + apply IH; auto.
  Qed.

  Lemma gfind_none gs k gi0 : Forall TInv gs -> NoDup (map fst (gall gs)) -> gfind gs k gi0 = None -> ~ In k (map fst (gall gs)).
  Proof.
    intros F ND H Hin. apply in_keys in Hin. destruct Hin as [v Hin].
    destruct (gfind_complete gs k v F ND Hin gi0) as [gi [idx [pos E]]]. congruence.
  Qed.

  Lemma hall_count0 s : Inv s -> count s = 0 -> hall s = [].
  Proof. intros I H. rewrite (inv_count _ I) in H. destruct (hall s); simpl in *; auto; lia. Qed.

  Lemma hfind_sound s k gi idx pos v : Inv s -> hfind s k = Some (gi, idx, pos, v) ->
    exists t, nth_error (gens s) gi = Some t /\ 0 <= idx < bcount t /\ nth_error (items (getb t idx)) pos = Some (k, v).
  Proof.
    intros I. unfold HashModel.hfind. destruct (count s =? 0); [discriminate|]. intros H.
    destruct (gfind_sound _ _ (inv_t _ I) _ _ _ _ _ H) as [j [t [E1 E2]]]. simpl in E1. subst. eauto.
  Qed.

  Lemma hfind_in s k gi idx pos v : Inv s -> hfind s k = Some (gi, idx, pos, v) -> In (k, v) (hall s).
  Proof.
    intros I. unfold HashModel.hfind. destruct (count s =? 0); [discriminate|]. intros H.
    eapply gfind_in; eauto. apply I.
  Qed.

  Lemma hfind_complete s k v : Inv s -> In (k, v) (hall s) -> exists gi idx pos, hfind s k = Some (gi, idx, pos, v).
  Proof.
    intros I Hin. unfold HashModel.hfind. destruct (Z.eqb_spec (count s) 0) as [E|E].
    - rewrite (hall_count0 s I E) in Hin. contradiction.
    - apply gfind_complete; auto; apply I.
  Qed.

  Lemma hfind_none s k : Inv s -> hfind s k = None -> ~ In k (map fst (hall s)).
  Proof.
    intros I H Hin. apply in_keys in Hin. destruct Hin as [v Hin].
    destruct (hfind_complete s k v I Hin) as [gi [idx [pos E]]]. congruence.
  Qed.

  (* replacing one generation by a shrunk version *)
  Lemma upd_gen_spec gs gi t (f : table -> table) extra :
    Forall TInv gs -> nth_error gs gi = Some t -> shrinks t (f t) -> Permutation (extra ++ tall (f t)) (tall t) ->
    Forall TInv (upd_gen B gs gi f) /\ Permutation (extra ++ gall (upd_gen B gs gi f)) (gall gs) /\
    (gs <> [] -> upd_gen B gs gi f <> []).
  Proof.
    intros F Hn Hs HP. unfold HashModel.upd_gen. rewrite Hn.
    destruct (nth_error_nth' _ t _ _ Hn) as [E Hlt].
    split; [|split].
    - rewrite Forall_forall in *. intros x Hx.
      destruct (In_nth _ _ t Hx) as [n [Hl En]]. rewrite upd_nth_length in Hl.
      destruct (Nat.eq_dec gi n).
      + subst n. rewrite nth_upd_nth_same in En by auto. subst x. eapply shrink_inv; eauto. apply F. eapply nth_error_In; eauto.
      + rewrite nth_upd_nth_other in En by auto. subst x. apply F. apply nth_In; auto.
    - unfold gall. apply (flat_map_upd_nth_perm' tall _ _ t); auto. rewrite E. exact HP.
    - intros _ Hnil. apply (f_equal (@length _)) in Hnil. rewrite upd_nth_length in Hnil. simpl in Hnil. lia.
  Qed.

  (* ================= relocation (pvRelocateItems) ================= *)
  Definition K (l : list item) : list Z := map fst l.

  Lemma reloc_items_spec : forall its nw bud rem nw' bud' ok,
    TInv nw -> NoDup (K (its ++ tall nw)) -> reloc_items its nw bud = (rem, nw', bud', ok) ->
    TInv nw' /\ tlog nw' = tlog nw /\ Permutation (rem ++ tall nw') (its ++ tall nw) /\
    (exists moved, its = moved ++ rem) /\ (ok = true -> rem = []).
  Proof.
    induction its as [|kv rest IH]; intros nw bud rem nw' bud' ok I ND H; simpl in H.
    - inversion H; subst. csplit; auto. exists []; reflexivity.
    - destruct (bud_zero bud).
      + inversion H; subst. csplit; auto. exists []; reflexivity. discriminate.
      + destruct (tadd nw kv) as [nw1|] eqn:E.
        * assert (Hnew : ~ In (fst kv) (map fst (tall nw))).
          { unfold K in ND. simpl in ND. inversion ND as [|? ? Hn _]; subst. intro Hin. apply Hn. rewrite map_app. apply in_or_app; auto. }
          destruct (tadd_inv nw kv nw1 I Hnew E) as [I1 [L1 P1]].
          assert (ND1 : NoDup (K (rest ++ tall nw1))).
          { eapply NoDup_keys_perm; [|exact ND]. simpl. rewrite P1. apply Permutation_middle. }
          destruct (IH _ _ _ _ _ _ I1 ND1 H) as [I2 [L2 [P2 [[moved M] O]]]].
          split; auto. split; [congruence|]. split.
          { rewrite P2, P1. simpl. apply Permutation_sym, Permutation_middle. }
          split; auto. exists (kv :: moved). simpl. congruence.
        * inversion H; subst. csplit; auto. exists []; reflexivity. discriminate.
  Qed.

  Definition ball (bs : list bucket) : list item := flat_map (@items B) bs.
  Definition bshr (b b' : bucket) : Prop :=
    incl (map fst (items b')) (map fst (items b)) /\ (length (items b') <= length (items b))%nat /\
    wasFull b' = wasFull b /\ bound b' = bound b.

  Lemma bshr_refl b : bshr b b.
  Proof. unfold bshr. csplit; auto. apply incl_refl. Qed.

  Lemma Forall2_bshr_refl bs : Forall2 bshr bs bs.
  Proof. induction bs; constructor; auto. apply bshr_refl. Qed.

  Lemma reloc_buckets_spec : forall bs nw bud bs' nw' bud' ok,
    TInv nw -> NoDup (K (ball bs ++ tall nw)) -> reloc_buckets bs nw bud = (bs', nw', bud', ok) ->
    TInv nw' /\ tlog nw' = tlog nw /\ Permutation (ball bs' ++ tall nw') (ball bs ++ tall nw) /\
    Forall2 bshr bs bs' /\ (ok = true -> ball bs' = []).
  Proof.
    induction bs as [|b rest IH]; intros nw bud bs' nw' bud' ok I ND H; simpl in H.
    - inversion H; subst. csplit; auto.
    - destruct (reloc_items (rev (items b)) nw bud) as [[[rem nw1] bud1] ok1] eqn:E1.
      assert (ND0 : NoDup (K (rev (items b) ++ tall nw))).
      { simpl in ND. unfold K in *. rewrite <- app_assoc in ND. rewrite !map_app in ND. apply NoDup_app_drop_mid in ND.
        rewrite <- map_app in ND. eapply NoDup_keys_perm; [|exact ND]. apply Permutation_app_tail. apply Permutation_rev. }
      destruct (reloc_items_spec _ _ _ _ _ _ _ I ND0 E1) as [I1 [L1 [P1 [[moved M] O1]]]].
      assert (Hb : bshr b (mkB (rev rem) (wasFull b) (bound b))).
      { assert (Ei : items b = rev rem ++ rev moved).
        { rewrite <- (rev_involutive (items b)). rewrite M. apply rev_app_distr. }
        split; [|split; [|split]]; simpl; auto.
        - rewrite Ei, map_app. apply incl_appl, incl_refl.
        - rewrite Ei, app_length. lia. }
      assert (PW : Permutation (rev rem ++ ball rest ++ tall nw1) (ball (b :: rest) ++ tall nw)).
      { simpl. rewrite <- app_assoc.
        apply Permutation_trans with (ball rest ++ rem ++ tall nw1).
        - rewrite app_assoc. rewrite (Permutation_app_comm (rev rem)). rewrite <- app_assoc.
          apply Permutation_app_head. apply Permutation_app_tail. apply Permutation_sym, Permutation_rev.
        - rewrite P1. rewrite app_assoc. rewrite (Permutation_app_comm (ball rest)). rewrite <- app_assoc.
          apply Permutation_app_tail. apply Permutation_sym, Permutation_rev. }
      destruct ok1.
      + destruct (reloc_buckets rest nw1 bud1) as [[[rest' nw2] bud2] ok2] eqn:E2.
        inversion H; subst; clear H.
        assert (ND1 : NoDup (K (ball rest ++ tall nw1))).
        { assert (NDW : NoDup (K (rev rem ++ ball rest ++ tall nw1))) by (eapply NoDup_keys_perm; [apply Permutation_sym; exact PW|exact ND]).
          unfold K in *. rewrite map_app in NDW. apply NoDup_app_tail in NDW. exact NDW. }
        destruct (IH _ _ _ _ _ _ I1 ND1 E2) as [I2 [L2 [P2 [F2 O2]]]].
        split; auto. split; [congruence|]. split; [|split].
        * simpl. rewrite <- app_assoc. rewrite P2. exact PW.
        * constructor; auto.
        * intros Hok. simpl. rewrite (O1 eq_refl). simpl. auto.
      + inversion H; subst; clear H. split; auto. split; auto. split; [|split].
        * simpl. rewrite <- app_assoc. exact PW.
        * constructor; auto. apply Forall2_bshr_refl.
        * discriminate.
  Qed.

  Lemma bshr_shrinks t bs' : TInv t -> Forall2 bshr (tbs t) bs' -> shrinks t (mkT (tlog t) bs').
  Proof.
    intros I F. destruct (Forall2_nth _ _ _ F) as [El Fn].
    split; [reflexivity|]. split; [simpl; auto|].
    intros j Hj. unfold HashModel.getb. simpl.
    apply (Fn (Z.to_nat j) emptyB emptyB). apply idx_nat; auto.
  Qed.

  Lemma reloc_gens_spec : forall olds nw bud olds' nw' bud' ok,
    Forall TInv olds -> TInv nw -> NoDup (K (gall olds ++ tall nw)) -> reloc_gens olds nw bud = (olds', nw', bud', ok) ->
    Forall TInv olds' /\ TInv nw' /\ tlog nw' = tlog nw /\ Permutation (gall olds' ++ tall nw') (gall olds ++ tall nw).
  Proof.
    induction olds as [|g older IH]; intros nw bud olds' nw' bud' ok F I ND H; simpl in H.
    - inversion H; subst. csplit; auto.
    - inversion F as [|? ? Ig Fo]; subst.
      destruct (reloc_gens older nw bud) as [[[older' nw1] bud1] ok1] eqn:E1.
      assert (ND0 : NoDup (K (gall older ++ tall nw))).
      { simpl in ND. unfold K in *. rewrite <- app_assoc, map_app in ND. apply NoDup_app_tail in ND. exact ND. }
      destruct (IH _ _ _ _ _ _ Fo I ND0 E1) as [F1 [I1 [L1 P1]]].
      destruct ok1.
      + destruct (reloc_buckets (tbs g) nw1 bud1) as [[[bs' nw2] bud2] ok2] eqn:E2.
        assert (Eo : older' = []).
        { clear - E1. revert nw bud older' nw1 bud1 E1. induction older as [|g' o IHo]; intros nw bud older' nw1 bud1 E1; simpl in E1.
          - inversion E1; auto.
          - destruct (reloc_gens o nw bud) as [[[o' n1] b1] k1] eqn:E. destruct k1; [|inversion E1].
            destruct (reloc_buckets (tbs g') n1 b1) as [[[bs' n2] b2] k2]. destruct k2; inversion E1; auto. }
        subst older'. simpl in P1.
        assert (ND1 : NoDup (K (ball (tbs g) ++ tall nw1))).
        { eapply NoDup_keys_perm; [|exact ND]. simpl. rewrite <- app_assoc. apply Permutation_app_head. apply Permutation_sym. exact P1. }
        destruct (reloc_buckets_spec _ _ _ _ _ _ _ I1 ND1 E2) as [I2 [L2 [P2 [F2 O2]]]].
        assert (PW : Permutation (ball bs' ++ tall nw2) (gall (g :: older) ++ tall nw)).
        { rewrite P2. simpl. rewrite <- app_assoc. apply Permutation_app_head. exact P1. }
        destruct ok2; inversion H; subst; clear H.
        * split; [constructor|]. split; auto. split; [congruence|]. rewrite (O2 eq_refl) in PW. exact PW.
        * split; [constructor; [|constructor]; eapply shrink_inv; [exact Ig|apply bshr_shrinks; auto]|].
          split; auto. split; [congruence|]. simpl. rewrite app_nil_r. exact PW.
      + inversion H; subst; clear H. split; [constructor; auto|]. split; auto. split; auto.
        simpl. rewrite <- !app_assoc. apply Permutation_app_head. exact P1.
  Qed.

  Lemma relocate_spec gs bud : Forall TInv gs -> NoDup (K (gall gs)) ->
    Forall TInv (relocate gs bud) /\ Permutation (gall (relocate gs bud)) (gall gs) /\ (gs <> [] -> relocate gs bud <> []).
  Proof.
    intros F ND. destruct gs as [|nw olds]; [simpl; auto|]. destruct olds as [|g olds]; [simpl; csplit; auto; discriminate|].
    unfold HashModel.relocate.
    destruct (reloc_gens (g :: olds) nw bud) as [[[olds' nw'] bud'] ok] eqn:E.
    inversion F as [|? ? I Fo]; subst.
    assert (ND0 : NoDup (K (gall (g :: olds) ++ tall nw))).
    { eapply NoDup_keys_perm; [|exact ND]. rewrite gall_cons. apply Permutation_app_comm. }
    destruct (reloc_gens_spec _ _ _ _ _ _ _ Fo I ND0 E) as [F1 [I1 [L1 P1]]].
    split; [constructor; auto|]. split; [|discriminate].
    rewrite gall_cons. rewrite (gall_cons nw). rewrite Permutation_app_comm. rewrite P1. apply Permutation_app_comm.
  Qed.

  (* ================= the operations preserve Inv and refine the finite map ================= *)
  Opaque HashModel.relocate.

  Lemma inv_relocated gs bud c cp l : Forall TInv gs -> gs <> [] -> Permutation (gall gs) l -> NoDup (K l) ->
    c = Z.of_nat (length l) ->
    Inv (mkH (relocate gs bud) c cp) /\ Permutation (hall (mkH (relocate gs bud) c cp)) l.
  Proof.
    intros F Hne P ND Hc.
    assert (NDg : NoDup (K (gall gs))) by (eapply NoDup_keys_perm; [apply Permutation_sym; exact P|exact ND]).
    destruct (relocate_spec gs bud F NDg) as [F' [P' Hne']].
    assert (PP : Permutation (gall (relocate gs bud)) l) by (rewrite P'; exact P).
    split; [|exact PP]. constructor; simpl.
    - exact F'.
    - eapply NoDup_keys_perm; [apply Permutation_sym; exact PP|exact ND].
    - unfold hall. simpl. rewrite (Permutation_length PP). exact Hc.
    - intros E. exfalso. apply Hne'; auto.
  Qed.

  Lemma newLog_nonneg gs : Forall TInv gs -> 0 <= newLog gs.
  Proof.
    intros F. destruct gs as [|t r]; simpl; auto. inversion F; subst.
    pose proof (ti_log _ H1). pose proof (shift_nonneg (bcount t)). lia.
  Qed.

  Lemma reserve_log_ge : forall fuel z n nl, reserve_log calcCapacity fuel z n = Some nl -> z <= nl.
  Proof.
    induction fuel; simpl; intros z n nl E.
    - destruct (n <=? calcCapacity (2 ^ z)); inversion E; lia.
    - destruct (n <=? calcCapacity (2 ^ z)); [inversion E; lia|]. apply IHfuel in E. lia.
  Qed.

  Arguments HashModel.reserve_log : simpl never.

  Lemma hadd_spec s k v bud s' : Inv s -> ~ In k (K (hall s)) -> hadd s (k, v) bud = Some s' ->
    Inv s' /\ Permutation (hall s') ((k, v) :: hall s).
  Proof.
    intros I Hnew. unfold HashModel.hadd.
    assert (NDl : NoDup (K ((k, v) :: hall s))) by (simpl; constructor; [exact Hnew|apply I]).
    assert (Hc : count s + 1 = Z.of_nat (length ((k, v) :: hall s))) by (pose proof (inv_count _ I) as HC; change (length ((k, v) :: hall s)) with (S (length (hall s))); lia).
    destruct (count s <? capacity s).
    - destruct (gens s) as [|t r] eqn:Eg; [discriminate|].
      destruct (tadd t (k, v)) as [t'|] eqn:E; [|discriminate]. intros H; injection H as H; subst s'.
      pose proof (inv_t _ I) as F. rewrite Eg in F. inversion F as [|? ? It Fr]; subst.
      assert (Hnt : ~ In (fst (k, v)) (map fst (tall t))).
      { intro Hin. apply Hnew. unfold hall, K. rewrite Eg, gall_cons, map_app. apply in_or_app; auto. }
      destruct (tadd_inv t (k, v) t' It Hnt E) as [It' [L P]].
      apply inv_relocated; auto; [discriminate|].
      unfold hall. rewrite Eg, !gall_cons. rewrite P. reflexivity.
    - destruct (reserve_log calcCapacity 64 (newLog (gens s)) (count s + 1)) as [nl|] eqn:El; [|discriminate].
      destruct (maxLog <? nl) eqn:Ck; [discriminate|]. apply Z.ltb_ge in Ck.
      pose proof (newLog_nonneg _ (inv_t _ I)) as Hn0. pose proof (reserve_log_ge _ _ _ _ El) as Hge.
      destruct (tadd (newTable nl) (k, v)) as [t'|] eqn:E; [|discriminate].
      intros H; injection H as H; subst s'.
      assert (It0 : TInv (newTable nl)) by (apply newTable_inv; lia).
      assert (Hnt : ~ In (fst (k, v)) (map fst (tall (newTable nl)))) by (rewrite tall_newTable; simpl; tauto).
      destruct (tadd_inv _ (k, v) t' It0 Hnt E) as [It' [L P]]. rewrite tall_newTable in P.
      apply inv_relocated; auto; [constructor; [exact It'|apply I]|discriminate|].
      rewrite gall_cons. rewrite P. reflexivity.
  Qed.

  Lemma hadd_nomem_spec s k v s' : Inv s -> ~ In k (K (hall s)) -> hadd_nomem s (k, v) = Some s' ->
    Inv s' /\ Permutation (hall s') ((k, v) :: hall s).
  Proof.
    intros I Hnew. unfold HashModel.hadd_nomem. destruct (count s <? capacity s); [apply hadd_spec; auto|].
    assert (NDl : NoDup (K ((k, v) :: hall s))) by (simpl; constructor; [exact Hnew|apply I]).
    assert (Hc : count s + 1 = Z.of_nat (length ((k, v) :: hall s))) by (pose proof (inv_count _ I) as HC; change (length ((k, v) :: hall s)) with (S (length (hall s))); lia).
    destruct (gens s) as [|t r] eqn:Eg; [discriminate|].
    destruct (tadd t (k, v)) as [t'|] eqn:E; [|discriminate]. intros H; injection H as H; subst s'.
    pose proof (inv_t _ I) as F. rewrite Eg in F. inversion F as [|? ? It Fr]; subst.
    assert (Hnt : ~ In (fst (k, v)) (map fst (tall t))).
    { intro Hin. apply Hnew. unfold hall, K. rewrite Eg, gall_cons, map_app. apply in_or_app; auto. }
    destruct (tadd_inv t (k, v) t' It Hnt E) as [It' [L P]].
    apply inv_relocated; auto; [discriminate|].
    unfold hall. rewrite Eg, !gall_cons. rewrite P. reflexivity.
  Qed.

  Lemma hreserve_spec s n bud s' : Inv s -> hreserve s n bud = Some s' -> Inv s' /\ Permutation (hall s') (hall s).
  Proof.
    intros I. unfold HashModel.hreserve. destruct (n <=? capacity s).
    - intros H; inversion H; subst. split; auto.
    - destruct (reserve_log calcCapacity 64 (newLog (gens s)) n) as [nl|] eqn:E; [|discriminate].
      destruct (maxLog <? nl) eqn:Ck; [discriminate|]. apply Z.ltb_ge in Ck.
      intros H; injection H as H; subst s'.
      assert (Hn0 : 0 <= nl) by (pose proof (newLog_nonneg _ (inv_t _ I)); pose proof (reserve_log_ge _ _ _ _ E); lia).
      apply inv_relocated.
      + constructor; [apply newTable_inv; lia|apply I].
      + discriminate.
      + rewrite gall_cons, tall_newTable. reflexivity.
      + apply I.
      + apply I.
  Qed.

  Lemma traverse_perm s : Permutation (traverse B s) (hall s).
  Proof.
    unfold HashModel.traverse, hall, gall. apply flat_map_perm_pointwise. intros t.
    unfold HashModel.ttraverse, tall. apply flat_map_rev_perm.
  Qed.

  Lemma add_all_spec : forall its t t', TInv t -> NoDup (K (its ++ tall t)) -> add_all its t = Some t' ->
    TInv t' /\ Permutation (tall t') (its ++ tall t).
  Proof.
    induction its as [|kv rest IH]; intros t t' I ND H; simpl in H.
    - inversion H; subst. split; auto.
    - destruct (tadd t kv) as [t1|] eqn:E; [|discriminate].
      assert (Hnew : ~ In (fst kv) (map fst (tall t))).
      { unfold K in ND. simpl in ND. inversion ND as [|? ? Hn _]; subst. intro Hin. apply Hn. rewrite map_app. apply in_or_app; auto. }
      destruct (tadd_inv t kv t1 I Hnew E) as [I1 [L1 P1]].
      assert (ND1 : NoDup (K (rest ++ tall t1))).
      { eapply NoDup_keys_perm; [|exact ND]. simpl. rewrite P1. apply Permutation_middle. }
      destruct (IH _ _ I1 ND1 H) as [I2 P2]. split; auto.
      rewrite P2, P1. simpl. apply Permutation_sym, Permutation_middle.
  Qed.

  Lemma hcopy_spec s s' : Inv s -> hcopy s = Some s' -> Inv s' /\ Permutation (hall s') (hall s).
  Proof.
    intros I. unfold HashModel.hcopy. destruct (Z.eqb_spec (count s) 0) as [E0|E0].
    - intros H; inversion H; subst. split; [apply hinit_inv|]. rewrite (hall_count0 s I E0). reflexivity.
    - destruct (copy_log calcCapacity 64 logStart (count s)) as [l|] eqn:E; [|discriminate].
      destruct (maxLog <? l) eqn:Ck; [discriminate|]. apply Z.ltb_ge in Ck.
      destruct (add_all (traverse B s) (newTable l)) as [t|] eqn:Ea; [|discriminate].
      intros H; injection H as H; subst s'.
      assert (Hl0 : 0 <= l).
      { revert E logStart_nonneg. generalize logStart. generalize 64%nat.
        induction n; simpl; intros z E Hz.
        - destruct (count s <=? calcCapacity (2 ^ z)); inversion E; subst; auto.
        - destruct (count s <=? calcCapacity (2 ^ z)); [inversion E; subst; auto|]. apply (IHn _ E). lia. }
      assert (It0 : TInv (newTable l)) by (apply newTable_inv; lia).
      assert (ND : NoDup (K (traverse B s ++ tall (newTable l)))).
      { rewrite tall_newTable, app_nil_r. eapply NoDup_keys_perm; [apply Permutation_sym, traverse_perm|apply I]. }
      destruct (add_all_spec _ _ _ It0 ND Ea) as [It P]. rewrite tall_newTable, app_nil_r in P.
      assert (PP : Permutation (hall (mkH [t] (count s) (calcCapacity (2 ^ l)))) (hall s)).
      { unfold hall at 1. simpl. rewrite app_nil_r. rewrite P. apply traverse_perm. }
      split; [|exact PP]. constructor; simpl.
      + constructor; auto.
      + eapply NoDup_keys_perm; [apply Permutation_sym; exact PP|apply I].
      + rewrite (Permutation_length PP). apply I.
      + discriminate.
  Qed.

  Lemma hclear_spec s shrink : Inv s -> Inv (hclear s shrink) /\ hall (hclear s shrink) = [].
  Proof.
    intros I. unfold HashModel.hclear. destruct (gens s) as [|t r] eqn:Eg.
    - split; auto. unfold hall. rewrite Eg. reflexivity.
    - destruct shrink.
      + split; [apply hinit_inv|reflexivity].
      + pose proof (inv_t _ I) as F. rewrite Eg in F. inversion F as [|? ? It _]; subst.
        rewrite (clearT_eq t It).
        assert (E : hall (mkH [newTable (tlog t)] 0 (capacity s)) = []).
        { unfold hall. simpl. rewrite tall_newTable. reflexivity. }
        split; auto. constructor; simpl.
        * constructor; auto. apply newTable_inv. apply It.
        * rewrite E. constructor.
        * rewrite E. reflexivity.
        * discriminate.
  Qed.

  Lemma upd_gen_inv s gi t f extra cnt :
    Inv s -> nth_error (gens s) gi = Some t -> shrinks t (f t) -> Permutation (extra ++ tall (f t)) (tall t) ->
    cnt = count s - Z.of_nat (length extra) ->
    Inv (mkH (upd_gen B (gens s) gi f) cnt (capacity s)) /\
    Permutation (extra ++ hall (mkH (upd_gen B (gens s) gi f) cnt (capacity s))) (hall s).
  Proof.
    intros I Hn Hs HP Hc. destruct (upd_gen_spec _ _ _ f extra (inv_t _ I) Hn Hs HP) as [F [P Hne]].
    split; [|exact P]. constructor; simpl.
    - exact F.
    - pose proof (inv_nd _ I) as ND. eapply NoDup_keys_perm in ND; [|apply Permutation_sym; exact P].
      unfold hall. simpl. rewrite map_app in ND. eapply NoDup_app_tail; eauto.
    - unfold hall. simpl. apply Permutation_length in P. rewrite app_length in P. fold (hall s) in P.
      rewrite (inv_count _ I) in Hc. lia.
    - intros E. exfalso. apply Hne; auto. intro E'. rewrite E' in Hn. destruct gi; discriminate.
  Qed.

  (* ---------- Remove(filter) as the loop over the iterator machine ---------- *)
  Lemma it_remove_refines s gi bi p x : Inv s -> ivalid s (Some (gi, bi, p)) -> it_get B s (Some (gi, bi, p)) = Some x ->
    Inv (fst (it_remove s (Some (gi, bi, p)))) /\ Permutation (x :: hall (fst (it_remove s (Some (gi, bi, p))))) (hall s).
  Proof.
    intros I [t [b [Ht [Hb Hp]]]] G. unfold HashModel.it_get in G. rewrite Ht, Hb in G.
    assert (It : TInv t). { pose proof (inv_t _ I) as F. rewrite Forall_forall in F. apply F. eapply nth_error_In; eauto. }
    assert (Hbi : (bi < length (tbs t))%nat) by (apply nth_error_Some; congruence).
    assert (Hi : 0 <= Z.of_nat bi < bcount t). { rewrite (ti_len _ It) in Hbi. pose proof (bcount_pos t (proj1 (ti_log _ It))). lia. }
    assert (Egb : getb t (Z.of_nat bi) = b). { unfold HashModel.getb. rewrite Nat2Z.id. apply nth_error_nth. exact Hb. }
    rewrite <- Egb in G.
    destruct (tremove_spec t (Z.of_nat bi) p x It Hi G) as [Hs Pt].
    unfold HashModel.it_remove. cbn [fst].
    destruct (upd_gen_inv s gi t (fun t => tremove t (Z.of_nat bi) p) [x] (count s - 1) I Ht Hs Pt) as [I1 P1]; [simpl; lia|].
    split; auto.
  Qed.

  Lemma rf_loop_spec p : forall fuel s it c pre s' c',
    Inv s -> ivalid s it -> Permutation (hall s) (pre ++ irest s it) -> (length (irest s it) <= fuel)%nat ->
    rf_loop fuel p s it c = (s', c') ->
    Inv s' /\ Permutation (hall s') (pre ++ filter (negp p) (irest s it)) /\
    c' = c + Z.of_nat (length (irest s it)) - Z.of_nat (length (filter (negp p) (irest s it))).
  Proof.
    induction fuel; intros s it c pre s' c' I V P Hl H.
    - simpl in H. inversion H; subst. destruct (irest s' it); [|simpl in Hl; lia]. simpl. split; auto. split; auto. lia.
    - destruct it as [[[gi bi] pp]|].
      + destruct (IterMachine.rest_step B s gi bi pp V) as [x [G [V' E]]].
        assert (U : rf_loop (S fuel) p s (Some (gi, bi, pp)) c =
                    if p x then match it_remove s (Some (gi, bi, pp)) with (s1, it1) => rf_loop fuel p s1 it1 (c + 1) end
                    else rf_loop fuel p s (it_next B s (Some (gi, bi, pp))) c).
        { change (rf_loop (S fuel) p s (Some (gi, bi, pp)) c) with
            (match it_get B s (Some (gi, bi, pp)) with
             | None => (s, c)
             | Some x => if p x then match it_remove s (Some (gi, bi, pp)) with (s1, it1) => rf_loop fuel p s1 it1 (c + 1) end
                         else rf_loop fuel p s (it_next B s (Some (gi, bi, pp))) c end). rewrite G. reflexivity. }
        rewrite U in H. clear U. rewrite E in *. cbn [length] in Hl.
        assert (Ef : forall r, filter (negp p) (x :: r) = if p x then filter (negp p) r else x :: filter (negp p) r)
          by (intros; simpl; unfold negp at 1; destruct (p x); reflexivity).
        rewrite !Ef. clear Ef.
        destruct (p x) eqn:Px.
        * destruct (it_remove_refines s gi bi pp x I V G) as [I1 P1].
          pose proof (IterMachine.it_remove_rest B b0 wf0 s gi bi pp V) as Er.
          pose proof (IterMachine.it_remove_valid B b0 wf0 s gi bi pp V) as Vr.
          destruct (it_remove s (Some (gi, bi, pp))) as [s1 it1]. cbn [fst snd] in *.
          assert (P2 : Permutation (hall s1) (pre ++ irest s1 it1)).
          { rewrite Er. apply (Permutation_cons_inv (a := x)). rewrite P1, P. apply Permutation_sym, Permutation_middle. }
          rewrite <- Er in Hl |- *.
          destruct (IHfuel _ _ _ _ _ _ I1 Vr P2 ltac:(lia) H) as [A1 [A2 A3]]. split; auto. split; auto.
          change (length (x :: irest s1 it1)) with (S (length (irest s1 it1))). lia.
        * assert (P2 : Permutation (hall s) ((pre ++ [x]) ++ irest s (it_next B s (Some (gi, bi, pp))))) by (rewrite <- app_assoc; exact P).
          destruct (IHfuel _ _ _ _ _ _ I V' P2 ltac:(lia) H) as [A1 [A2 A3]]. split; auto. split.
          -- rewrite A2. rewrite <- app_assoc. reflexivity.
          -- change (length (x :: irest s (it_next B s (Some (gi, bi, pp))))) with (S (length (irest s (it_next B s (Some (gi, bi, pp)))))).
             change (length (x :: filter (negp p) (irest s (it_next B s (Some (gi, bi, pp)))))) with (S (length (filter (negp p) (irest s (it_next B s (Some (gi, bi, pp))))))). lia.
      + simpl in H. inversion H; subst. simpl. rewrite app_nil_r in *. split; auto. split; auto. lia.
  Qed.

  Lemma hremove_if_m_spec s p s' c : Inv s -> hremove_if_m s p = (s', c) ->
    Inv s' /\ Permutation (hall s') (filter (negp p) (hall s)) /\
    c = Z.of_nat (length (hall s)) - Z.of_nat (length (hall s')).
  Proof.
    intros I H. unfold HashModel.hremove_if_m, HashModel.it_begin in H.
    destruct (Z.eqb_spec (count s) 0) as [E0|E0].
    - assert (Hn : hall s = []) by (apply hall_count0; auto).
      destruct (length (traverse B s)); simpl in H; inversion H; subst; rewrite Hn; simpl; auto.
    - destruct (IterMachine.begin_spec B s) as [V E].
      assert (P : Permutation (hall s) ([] ++ irest s (first_in_gens B (gens s) 0))) by (rewrite E; simpl; apply Permutation_sym, traverse_perm).
      assert (Hl : (length (irest s (first_in_gens B (gens s) 0)) <= length (traverse B s))%nat) by (rewrite E; lia).
      destruct (rf_loop_spec p _ _ _ _ _ _ _ I V P Hl H) as [A1 [A2 A3]]. simpl in A2.
      rewrite E in *.
      assert (Pf : Permutation (filter (negp p) (traverse B s)) (filter (negp p) (hall s))) by (apply Permutation_filter, traverse_perm).
      split; auto. split; [rewrite A2; exact Pf|].
      rewrite (Permutation_length A2). rewrite (Permutation_length (traverse_perm s)) in A3. lia.
  Qed.

  Lemma upd_gen_logs gs gi (f : table -> table) : (forall t, tlog (f t) = tlog t) -> map (@tlog B) (upd_gen B gs gi f) = map (@tlog B) gs.
  Proof.
    intros Hf. unfold HashModel.upd_gen. destruct (nth_error gs gi) as [t|] eqn:E; auto.
    revert gi E. induction gs as [|a r IH]; intros gi E; destruct gi; simpl in *; try discriminate.
    - inversion E; subst. rewrite Hf. reflexivity.
    - f_equal. apply IH; auto.
  Qed.

  Lemma rf_loop_logs p : forall fuel s it c, map (@tlog B) (gens (fst (rf_loop fuel p s it c))) = map (@tlog B) (gens s) /\
                                              capacity (fst (rf_loop fuel p s it c)) = capacity s.
  Proof.
    induction fuel; intros s it c; simpl; auto.
    destruct (it_get B s it) as [x|]; auto. destruct (p x); [|apply IHfuel].
    destruct it as [[[gi bi] pp]|]; [|simpl; apply IHfuel].
    unfold HashModel.it_remove.
    match goal with |- context [rf_loop fuel p ?s1 ?i1 ?c1] => destruct (IHfuel s1 i1 c1) as [A1 A2] end.
    rewrite A1, A2. simpl. split; auto. apply upd_gen_logs. reflexivity.
  Qed.

  (* ================= refinement of the abstract finite map ================= *)
  Definition R (s : hset) (m : list item) : Prop := Inv s /\ Permutation (hall s) m.

  Lemma R_nodup s m : R s m -> NoDup (map fst m).
  Proof. intros [I P]. eapply NoDup_keys_perm; [exact P|apply I]. Qed.

  Lemma upd_gen_replace gs gi t (f : table -> table) x y rest :
    Forall TInv gs -> nth_error gs gi = Some t -> shrinks t (f t) ->
    Permutation (tall t) (x :: rest) -> Permutation (tall (f t)) (y :: rest) ->
    Forall TInv (upd_gen B gs gi f) /\
    exists rest', Permutation (gall gs) (x :: rest') /\ Permutation (gall (upd_gen B gs gi f)) (y :: rest').
  Proof.
    intros F Hn Hs P1 P2. unfold HashModel.upd_gen. rewrite Hn.
    destruct (nth_error_nth' _ t _ _ Hn) as [E Hlt].
    split.
    - rewrite Forall_forall in *. intros z Hz.
      destruct (In_nth _ _ t Hz) as [n [Hl En]]. rewrite upd_nth_length in Hl.
      destruct (Nat.eq_dec gi n).
      + subst n. rewrite nth_upd_nth_same in En by auto. subst z. eapply shrink_inv; eauto. apply F. eapply nth_error_In; eauto.
      + rewrite nth_upd_nth_other in En by auto. subst z. apply F. apply nth_In; auto.
    - unfold gall. rewrite (flat_map_upd_nth_eq tall _ _ _ Hlt). rewrite (flat_map_split_nth tall _ t _ Hlt). rewrite E.
      exists (flat_map tall (firstn gi gs) ++ rest ++ flat_map tall (skipn (S gi) gs)). split.
      + rewrite P1. simpl. apply Permutation_sym, Permutation_middle.
      + rewrite P2. simpl. apply Permutation_sym, Permutation_middle.
  Qed.

  Theorem step_refines s m o s' x : R s m -> step s o = (s', x) ->
    (x = RExn /\ s' = s) \/ (R s' (fst (spec_step m o)) /\ out_equiv x (snd (spec_step m o))).
  Proof.
    intros HR. pose proof HR as [I P]. pose proof (R_nodup _ _ HR) as NDm.
    destruct o as [k v bud|k|k|k v|n bud|shrink| | |md r| |k v|k v|k v]; simpl.
    - (* insert *)
      destruct (hfind s k) as [[[[gi idx] pos] v0]|] eqn:E.
      + intros H; inversion H; subst. right.
        pose proof (hfind_in _ _ _ _ _ _ I E) as Hin. apply (Permutation_in _ P) in Hin.
        unfold sp_mem. rewrite (sp_find_in _ _ _ NDm Hin). simpl. split; auto.
      + pose proof (hfind_none _ _ I E) as Hno.
        assert (Hnm : ~ In k (map fst m)). { intro Hin. apply Hno. apply (Permutation_in _ (Permutation_map fst (Permutation_sym P))). exact Hin. }
        destruct (hadd s (k, v) bud) as [s1|] eqn:Ea; intros H; inversion H; subst; [right|left; auto].
        destruct (hadd_spec _ _ _ _ _ I Hno Ea) as [I1 P1].
        unfold sp_mem. rewrite (sp_find_notin _ _ Hnm). simpl. split; auto. split; auto. rewrite P1. apply perm_skip. exact P.
    - (* find *)
      intros H; inversion H; subst. right. split; auto. simpl.
      destruct (hfind s' k) as [[[[gi idx] pos] v0]|] eqn:E.
      + pose proof (hfind_in _ _ _ _ _ _ I E) as Hin. apply (Permutation_in _ P) in Hin.
        rewrite (sp_find_in _ _ _ NDm Hin). reflexivity.
      + pose proof (hfind_none _ _ I E) as Hno.
        rewrite sp_find_notin; auto. intro Hin. apply Hno. apply (Permutation_in _ (Permutation_map fst (Permutation_sym P))). exact Hin.
    - (* remove by key *)
      destruct (hfind s k) as [[[[gi idx] pos] v0]|] eqn:E.
      + intros H; inversion H; subst; clear H. right.
        destruct (hfind_sound _ _ _ _ _ _ I E) as [t [Hn [Hi Hp]]].
        pose proof (hfind_in _ _ _ _ _ _ I E) as Hin. apply (Permutation_in _ P) in Hin.
        assert (It : TInv t). { pose proof (inv_t _ I) as F. rewrite Forall_forall in F. apply F. eapply nth_error_In; eauto. }
        destruct (tremove_spec t idx pos (k, v0) It Hi Hp) as [Hs Pt].
        destruct (upd_gen_inv s gi t (fun t => tremove t idx pos) [(k, v0)] (count s - 1) I Hn Hs Pt) as [I1 P1]; [simpl; lia|].
        unfold sp_mem. rewrite (sp_find_in _ _ _ NDm Hin). simpl. split; auto. split; auto.
        apply (sp_remove_perm _ _ k v0 NDm). simpl in P1. rewrite P1. exact P.
      + intros H; inversion H; subst. right.
        pose proof (hfind_none _ _ I E) as Hno.
        unfold sp_mem. rewrite sp_find_notin; [simpl; split; auto|].
        intro Hin. apply Hno. apply (Permutation_in _ (Permutation_map fst (Permutation_sym P))). exact Hin.
    - (* set value *)
      destruct (hfind s k) as [[[[gi idx] pos] v0]|] eqn:E.
      + intros H; inversion H; subst; clear H. right.
        destruct (hfind_sound _ _ _ _ _ _ I E) as [t [Hn [Hi Hp]]].
        pose proof (hfind_in _ _ _ _ _ _ I E) as Hin. apply (Permutation_in _ P) in Hin.
        assert (It : TInv t). { pose proof (inv_t _ I) as F. rewrite Forall_forall in F. apply F. eapply nth_error_In; eauto. }
        destruct (tsetval_spec t idx pos k v0 v It Hi Hp) as [Hs [rest [Pa Pb]]].
        destruct (upd_gen_replace _ gi t (fun t => tsetval t idx pos v) _ _ rest (inv_t _ I) Hn Hs Pa Pb) as [F1 [rest' [Q1 Q2]]].
        unfold sp_mem. rewrite (sp_find_in _ _ _ NDm Hin). simpl.
        assert (NDr : NoDup (map fst ((k, v0) :: rest'))) by (eapply NoDup_keys_perm; [exact Q1|apply I]).
        split; auto. split.
        * constructor; simpl; auto.
          -- unfold hall; simpl. eapply NoDup_keys_perm; [apply Permutation_sym; exact Q2|]. exact NDr.
          -- unfold hall; simpl. rewrite (Permutation_length Q2). rewrite (inv_count _ I). unfold hall. rewrite (Permutation_length Q1). reflexivity.
          -- intros Eg. exfalso. unfold HashModel.upd_gen in Eg. rewrite Hn in Eg. apply (f_equal (@length _)) in Eg. rewrite upd_nth_length in Eg.
             apply nth_error_nth' with (d := t) in Hn. simpl in Eg. lia.
        * unfold hall; simpl. rewrite Q2. apply Permutation_sym. apply (sp_setval_perm m rest' k v0 v NDm).
          rewrite <- P. exact Q1.
      + intros H; inversion H; subst. right.
        pose proof (hfind_none _ _ I E) as Hno.
        unfold sp_mem. rewrite sp_find_notin; [simpl; split; auto|].
        intro Hin. apply Hno. apply (Permutation_in _ (Permutation_map fst (Permutation_sym P))). exact Hin.
    - (* reserve *)
      destruct (hreserve s n bud) as [s1|] eqn:E; intros H; inversion H; subst; [right|left; auto].
      destruct (hreserve_spec _ _ _ _ I E) as [I1 P1]. split; [split; auto; rewrite P1; exact P|simpl; auto].
    - (* clear *)
      intros H; inversion H; subst. right. destruct (hclear_spec s shrink I) as [I1 E1]. split; [split; auto; rewrite E1; reflexivity|simpl; auto].
    - (* traverse *)
      intros H; inversion H; subst. right. split; auto. simpl.
      destruct (Z.eqb_spec (count s') 0) as [E0|E0].
      + rewrite (hall_count0 _ I E0) in P. exact P.
      + rewrite traverse_perm. exact P.
    - (* count *)
      intros H; inversion H; subst. right. split; auto. simpl. rewrite (inv_count _ I), (Permutation_length P). reflexivity.
    - (* remove by predicate *)
      destruct (hremove_if_m s (fun kv : item => fst kv mod md =? r)) as [s1 c] eqn:E.
      intros H; inversion H; subst; clear H. right.
      destruct (hremove_if_m_spec s _ _ _ I E) as [I1 [P1 C1]].
      split; [split; auto|].
      + rewrite P1. apply Permutation_filter. exact P.
      + simpl. rewrite C1. rewrite (Permutation_length P1).
        rewrite (Permutation_length (Permutation_filter (negp (fun kv : item => fst kv mod md =? r)) _ _ P)).
        rewrite (Permutation_length P). reflexivity.
    - (* copy *)
      destruct (hcopy s) as [s1|] eqn:E; intros H; inversion H; subst; [right|left; auto].
      destruct (hcopy_spec _ _ I E) as [I1 P1]. split; [split; auto; rewrite P1; exact P|simpl; auto].
    - (* add at position *)
      destruct (hfind s k) as [[[[gi idx] pos] v0]|] eqn:E.
      + intros H; inversion H; subst. right.
        pose proof (hfind_in _ _ _ _ _ _ I E) as Hin. apply (Permutation_in _ P) in Hin.
        unfold sp_mem. rewrite (sp_find_in _ _ _ NDm Hin). simpl. split; auto.
      + pose proof (hfind_none _ _ I E) as Hno.
        assert (Hnm : ~ In k (map fst m)). { intro Hin. apply Hno. apply (Permutation_in _ (Permutation_map fst (Permutation_sym P))). exact Hin. }
        destruct (hadd s (k, v) None) as [s1|] eqn:Ea; intros H; inversion H; subst; [right|left; auto].
        destruct (hadd_spec _ _ _ _ _ I Hno Ea) as [I1 P1].
        unfold sp_mem. rewrite (sp_find_notin _ _ Hnm). simpl. split; auto. split; auto. rewrite P1. apply perm_skip. exact P.
    - (* insert with refused bucket-array allocation *)
      destruct (hfind s k) as [[[[gi idx] pos] v0]|] eqn:E.
      + intros H; inversion H; subst. right.
        pose proof (hfind_in _ _ _ _ _ _ I E) as Hin. apply (Permutation_in _ P) in Hin.
        unfold sp_mem. rewrite (sp_find_in _ _ _ NDm Hin). simpl. split; auto.
      + pose proof (hfind_none _ _ I E) as Hno.
        assert (Hnm : ~ In k (map fst m)). { intro Hin. apply Hno. apply (Permutation_in _ (Permutation_map fst (Permutation_sym P))). exact Hin. }
        destruct (hadd_nomem s (k, v)) as [s1|] eqn:Ea; intros H; inversion H; subst; [right|left; auto].
        destruct (hadd_nomem_spec _ _ _ _ I Hno Ea) as [I1 P1].
        unfold sp_mem. rewrite (sp_find_notin _ _ Hnm). simpl. split; auto. split; auto. rewrite P1. apply perm_skip. exact P.
    - (* insert whose creator throws *)
      destruct (hfind s k) as [[[[gi idx] pos] v0]|] eqn:E; intros H; inversion H; subst; [right|left; auto].
      pose proof (hfind_in _ _ _ _ _ _ I E) as Hin. apply (Permutation_in _ P) in Hin.
      unfold sp_mem. rewrite (sp_find_in _ _ _ NDm Hin). simpl. split; auto.
  Qed.

  Lemma out_equiv_refl x : out_equiv x x.
  Proof. destruct x; simpl; auto. Qed.

  Theorem run_refines : forall os s m, R s m ->
    R (fst (run s os)) (fst (spec_run m os (snd (run s os)))) /\
    Forall2 out_equiv (snd (run s os)) (snd (spec_run m os (snd (run s os)))).
  Proof.
    induction os as [|o os IH]; intros s m HR; simpl.
    - split; auto.
    - destruct (step s o) as [s1 x] eqn:E.
      destruct (step_refines _ _ _ _ _ HR E) as [[Ex Es]|[HR1 Ho]].
      + subst. destruct (IH s m HR) as [A C].
        destruct (run s os) as [s2 xs] eqn:Er. simpl in *.
        destruct (spec_run m os xs) as [m' ys] eqn:Es. simpl in *. split; auto. constructor; auto. reflexivity.
      + destruct (spec_step m o) as [m1 y] eqn:Esp. simpl in *.
        destruct (IH s1 m1 HR1) as [A C].
        destruct (run s1 os) as [s2 xs] eqn:Er. simpl in *.
        assert (Hx : is_exn x = false \/ x = RExn) by (destruct x; simpl; auto).
        destruct Hx as [Hx|Hx].
        * rewrite Hx. destruct (spec_run m1 os xs) as [m' ys] eqn:Es. simpl in *. split; auto.
        * subst x. exfalso. clear - Ho Esp. destruct o; simpl in Esp;
            repeat match goal with H : context [if ?e then _ else _] |- _ => destruct e end; inversion Esp; subst; simpl in Ho; discriminate.
  Qed.

  (* ================= two containers + ExtractedItem holder ================= *)
  Lemma out_equiv_bool x b : out_equiv x (RBool b) -> x = RBool b.
  Proof. destruct x; simpl; auto. Qed.

  Definition WR (w : world B) (m : wspec) : Prop :=
    match m with (ma, mb, e) => R (wa w) ma /\ R (wb w) mb /\ wext w = e end.

  Lemma remove_key_refines a ma k v : R a ma -> In (k, v) ma -> R (fst (step a (ORemove k))) (sp_remove k ma).
  Proof.
    intros HR Hin. destruct (step a (ORemove k)) as [a' x] eqn:E.
    pose proof (R_nodup _ _ HR) as ND.
    destruct (step_refines _ _ _ _ _ HR E) as [[Ex _]|[HR' _]].
    - exfalso. simpl in E. destruct (hfind a k) as [[[[gi idx] pos] v0]|]; inversion E; subst; discriminate.
    - simpl in *. unfold sp_mem in HR'. rewrite (sp_find_in _ _ _ ND Hin) in HR'. exact HR'.
  Qed.

  (* MergeTo as the loop over the iterator machine *)
  Lemma merge_m_spec : forall fuel a b it ma mb pre a' b' ok,
    R a ma -> R b mb -> ivalid a it -> Permutation (hall a) (pre ++ irest a it) -> (length (irest a it) <= fuel)%nat ->
    merge_m fuel a b it = (a', b', ok) ->
    exists ma' mb' moved, R a' ma' /\ R b' mb' /\ Permutation (moved ++ ma') ma /\ Permutation mb' (moved ++ mb) /\
                          (ok = true -> moved = moved_of (irest a it) mb).
  Proof.
    induction fuel; intros a b it ma mb pre a' b' ok Ra Rb V P Hl H.
    - simpl in H. inversion H; subst. destruct (irest a' it); [|simpl in Hl; lia]. exists ma, mb, []. simpl. auto.
    - destruct it as [[[gi bi] pp]|]; [|simpl in H; inversion H; subst; exists ma, mb, []; simpl; auto].
      destruct (IterMachine.rest_step B a gi bi pp V) as [[k v] [G [V' E]]].
      pose proof Ra as [Ia Pa]. pose proof Rb as [Ib Pb]. pose proof (R_nodup _ _ Rb) as NDb. pose proof (R_nodup _ _ Ra) as NDa.
      assert (U : merge_m (S fuel) a b (Some (gi, bi, pp)) =
                  match hfind b k with
                  | Some _ => merge_m fuel a b (it_next B a (Some (gi, bi, pp)))
                  | None => match hadd b (k, v) None with
                            | None => (a, b, false)
                            | Some b1 => match it_remove a (Some (gi, bi, pp)) with (a1, it1) => merge_m fuel a1 b1 it1 end
                            end
                  end).
      { change (merge_m (S fuel) a b (Some (gi, bi, pp))) with
          (match it_get B a (Some (gi, bi, pp)) with
           | None => (a, b, true)
           | Some (k, v) =>
             match hfind b k with
             | Some _ => merge_m fuel a b (it_next B a (Some (gi, bi, pp)))
             | None => match hadd b (k, v) None with
                       | None => (a, b, false)
                       | Some b1 => match it_remove a (Some (gi, bi, pp)) with (a1, it1) => merge_m fuel a1 b1 it1 end
                       end
             end end). rewrite G. reflexivity. }
      rewrite U in H. clear U. rewrite E in *. cbn [length] in Hl.
      assert (Hkv : In (k, v) ma). { apply (Permutation_in _ Pa). apply (Permutation_in _ (Permutation_sym P)). apply in_or_app. right. left. reflexivity. }
      destruct (hfind b k) as [[[[gi0 idx0] pos0] v0]|] eqn:Ef.
      + pose proof (hfind_in _ _ _ _ _ _ Ib Ef) as Hb. apply (Permutation_in _ Pb) in Hb.
        assert (P2 : Permutation (hall a) ((pre ++ [(k, v)]) ++ irest a (it_next B a (Some (gi, bi, pp))))) by (rewrite <- app_assoc; exact P).
        destruct (IHfuel _ _ _ _ _ _ _ _ _ Ra Rb V' P2 ltac:(lia) H) as [ma' [mb' [mv [A1 [A2 [A3 [A4 A5]]]]]]].
        exists ma', mb', mv. repeat (split; auto). intros Hok. cbn [moved_of].
        assert (Hm : sp_mem mb k = true) by (apply sp_mem_iff, in_keys; eauto). rewrite Hm. auto.
      + pose proof (hfind_none _ _ Ib Ef) as Hno.
        assert (Hnm : ~ In k (map fst mb)). { intro Hi. apply Hno. apply (Permutation_in _ (Permutation_map fst (Permutation_sym Pb))). exact Hi. }
        assert (Hm : sp_mem mb k = false). { destruct (sp_mem mb k) eqn:Em; auto. apply sp_mem_iff in Em. contradiction. }
        destruct (hadd b (k, v) None) as [b1|] eqn:Ea.
        * destruct (hadd_spec _ _ _ _ _ Ib Hno Ea) as [I1 P1].
          assert (Rb1 : R b1 ((k, v) :: mb)) by (split; auto; rewrite P1; apply perm_skip; exact Pb).
          destruct (it_remove_refines a gi bi pp (k, v) Ia V G) as [Ia1 Pa1].
          pose proof (IterMachine.it_remove_rest B b0 wf0 a gi bi pp V) as Er.
          pose proof (IterMachine.it_remove_valid B b0 wf0 a gi bi pp V) as Vr.
          destruct (it_remove a (Some (gi, bi, pp))) as [a1 it1]. cbn [fst snd] in *.
          assert (Ra1 : R a1 (sp_remove k ma)).
          { split; auto. apply (sp_remove_perm _ _ k v NDa). rewrite Pa1. exact Pa. }
          assert (P2 : Permutation (hall a1) (pre ++ irest a1 it1)).
          { rewrite Er. apply (Permutation_cons_inv (a := (k, v))). rewrite Pa1, P. apply Permutation_sym, Permutation_middle. }
          rewrite <- Er in Hl.
          destruct (IHfuel _ _ _ _ _ _ _ _ _ Ra1 Rb1 Vr P2 ltac:(lia) H) as [ma' [mb' [mv [A1 [A2 [A3 [A4 A5]]]]]]].
          exists ma', mb', ((k, v) :: mv). split; auto. split; auto. split; [|split].
          -- simpl. destruct (in_split _ _ Hkv) as [l1 [l2 El]].
             assert (Pr : Permutation ((k, v) :: sp_remove k ma) ma).
             { apply Permutation_sym. rewrite El at 1. apply Permutation_sym.
               apply Permutation_trans with ((k, v) :: l1 ++ l2); [|apply Permutation_middle].
               apply perm_skip. apply Permutation_sym. apply (sp_remove_perm _ _ k v NDa). rewrite El. apply Permutation_middle. }
             rewrite <- Pr. apply perm_skip. exact A3.
          -- rewrite A4. simpl. apply Permutation_sym, Permutation_middle.
          -- intros Hok. cbn [moved_of]. rewrite Hm. f_equal. rewrite <- Er. auto.
        * inversion H; subst. exists ma, mb, []. simpl. repeat (split; auto). discriminate.
  Qed.

  Theorem wstep_refines w m o w' x : WR w m -> wstep w o = (w', x) ->
    (x = RExn /\ (w' = w \/ exists m', WR w' m' /\ o = WMergeAB /\
        Permutation (fst (fst m') ++ snd (fst m')) (fst (fst m) ++ snd (fst m)) /\ snd m' = snd m)) \/
    (WR w' (fst (wspec_step m o)) /\ out_equiv x (snd (wspec_step m o))).
  Proof.
    destruct m as [[ma mb] e]. destruct w as [a b ex]. intros [Ra [Rb Ee]]. simpl in Ra, Rb, Ee. subst ex.
    pose proof (R_nodup _ _ Ra) as NDa. pose proof Ra as [Ia Pa].
    destruct o as [o|o|k| | | |]; simpl.
    - destruct (step a o) as [a' y] eqn:E. intros H; inversion H; subst; clear H.
      destruct (step_refines _ _ _ _ _ Ra E) as [[Ex Es]|[Ra' Ho]]; [left; subst; auto|right].
      destruct (spec_step ma o) as [ma' z]. simpl in *. auto.
    - destruct (step b o) as [b' y] eqn:E. intros H; inversion H; subst; clear H.
      destruct (step_refines _ _ _ _ _ Rb E) as [[Ex Es]|[Rb' Ho]]; [left; subst; auto|right].
      destruct (spec_step mb o) as [mb' z]. simpl in *. auto.
    - destruct e as [[ke ve]|]; [intros H; inversion H; subst; right; simpl; auto|].
      destruct (hfind a k) as [[[[gi idx] pos] v0]|] eqn:E; intros H; inversion H; subst; clear H; right.
      + pose proof (hfind_in _ _ _ _ _ _ Ia E) as Hin. apply (Permutation_in _ Pa) in Hin.
        rewrite (sp_find_in _ _ _ NDa Hin). simpl. split; auto. split; auto.
        pose proof (remove_key_refines a ma k v0 Ra Hin) as Hr. simpl in Hr. rewrite E in Hr. exact Hr.
      + pose proof (hfind_none _ _ Ia E) as Hno.
        rewrite sp_find_notin; [simpl; auto|].
        intro Hin. apply Hno. apply (Permutation_in _ (Permutation_map fst (Permutation_sym Pa))). exact Hin.
    - destruct e as [[ke ve]|]; [|intros H; inversion H; subst; right; simpl; auto].
      destruct (step a (OInsert ke ve None)) as [a' y] eqn:E.
      pose proof (step_refines _ _ _ _ _ Ra E) as SR. simpl in E. intros H. rewrite E in H. clear E.
      destruct SR as [[Ex Es]|[Ra' Ho]].
      + subst. inversion H; subst. left. auto.
      + simpl in Ra', Ho. destruct (sp_mem ma ke); simpl in Ra', Ho; apply out_equiv_bool in Ho; subst y; inversion H; subst; right; simpl; auto.
    - intros H; inversion H; subst. right. simpl. auto.
    - intros H; inversion H; subst. right. simpl. split; auto. split; auto. split; [apply hinit_inv|reflexivity].
    - set (its := irest a (it_begin B a)).
      destruct (merge_m (length (traverse B a)) a b (it_begin B a)) as [[a' b'] ok] eqn:E. intros H; inversion H; subst; clear H.
      assert (Hb : ivalid a (it_begin B a) /\ Permutation its ma /\ (length its <= length (traverse B a))%nat).
      { unfold its, HashModel.it_begin. destruct (Z.eqb_spec (count a) 0) as [E0|E0].
        - simpl. rewrite (hall_count0 _ Ia E0) in Pa. split; auto. split; auto. lia.
        - destruct (IterMachine.begin_spec B a) as [V0 E1]. rewrite E1. split; auto. split; [rewrite traverse_perm; exact Pa|lia]. }
      destruct Hb as [V0 [Pits Hlen]].
      assert (NDi : NoDup (map fst its)) by (eapply NoDup_keys_perm; [apply Permutation_sym; exact Pits|exact NDa]).
      assert (P0 : Permutation (hall a) ([] ++ its)) by (simpl; rewrite Pa; apply Permutation_sym; exact Pits).
      destruct (merge_m_spec _ _ _ _ _ _ _ _ _ _ Ra Rb V0 P0 Hlen E) as [ma' [mb' [mv [A1 [A2 [A3 [A4 A5]]]]]]].
      fold its in A5.
      destruct ok.
      + right. simpl. specialize (A5 eq_refl). rewrite (moved_of_filter _ _ NDi) in A5.
        assert (Pmv : Permutation mv (filter (fun kv => negb (sp_mem mb (fst kv))) ma)) by (subst mv; apply Permutation_filter; exact Pits).
        split; auto. split; [|split; auto].
        * destruct A1 as [Ia' Pa']. split; auto. rewrite Pa'.
          apply (Permutation_app_inv_l (filter (fun kv => negb (sp_mem mb (fst kv))) ma)).
          rewrite <- Pmv. rewrite A3.
          rewrite (filter_partition_perm (fun kv => negb (sp_mem mb (fst kv))) ma) at 1.
          apply Permutation_app; [apply Permutation_sym; exact Pmv|].
          match goal with |- Permutation ?x ?y => assert (Ef : x = y) end.
          { apply filter_ext. intros kv. apply negb_involutive. }
          rewrite Ef. reflexivity.
        * destruct A2 as [Ib' Pb']. split; auto. rewrite Pb', A4. apply Permutation_app_tail. exact Pmv.
      + left. split; auto. right. exists (ma', mb', e). simpl. split; auto. split; auto. split; auto.
        rewrite A4. rewrite <- A3. rewrite <- !app_assoc. apply Permutation_sym.
        rewrite !app_assoc. apply Permutation_app_tail. apply Permutation_app_comm.
  Qed.

  Theorem wrun_refines : forall os w m, WR w m -> no_merge_exn os (snd (wrun w os)) ->
    WR (fst (wrun w os)) (fst (wspec_run m os (snd (wrun w os)))) /\
    Forall2 out_equiv (snd (wrun w os)) (snd (wspec_run m os (snd (wrun w os)))).
  Proof.
    induction os as [|o os IH]; intros w m HR; simpl.
    - split; auto.
    - destruct (wstep w o) as [w1 x] eqn:E.
      destruct (wrun w1 os) as [w2 xs] eqn:Er. simpl. intros [Hm Hn].
      destruct (wstep_refines _ _ _ _ _ HR E) as [[Ex Hw]|[HR1 Ho]].
      + subst x. simpl. destruct Hw as [Hw|[m' [_ [Eo _]]]]; [|subst o; exfalso; apply Hm; reflexivity].
        subst w1. specialize (IH w m HR). rewrite Er in IH. simpl in IH. specialize (IH Hn).
        destruct (wspec_run m os xs) as [m' ys]. simpl in *. destruct IH. split; auto. constructor; auto. reflexivity.
      + pose proof (wspec_step_not_exn m o) as Hne.
        destruct (wspec_step m o) as [m1 y] eqn:Esp. simpl in *.
        assert (Hx : is_exn x = false).
        { destruct x; auto. exfalso. apply Hne. simpl in Ho. congruence. }
        rewrite Hx. specialize (IH w1 m1 HR1). rewrite Er in IH. simpl in IH. specialize (IH Hn).
        destruct (wspec_run m1 os xs) as [m' ys]. simpl in *. destruct IH. split; auto.
  Qed.

  Theorem wrun_trace : forall os w m, WR w m ->
    exists m', wtrace m os (snd (wrun w os)) m' /\ WR (fst (wrun w os)) m'.
  Proof.
    induction os as [|o os IH]; intros w m HR; simpl.
    - exists m. split; [constructor|exact HR].
    - destruct (wstep w o) as [w1 x] eqn:E.
      destruct (wstep_refines _ _ _ _ _ HR E) as [[Ex Hw]|[HR1 Ho]].
      + subst x. destruct Hw as [Hw|[m1 [HR1 [Eo [HP He]]]]].
        * subst w1. destruct (IH w m HR) as [m' [T W]]. destruct (wrun w os) as [w2 xs]. simpl in *.
          exists m'. split; auto. apply wt_exn. exact T.
        * subst o. destruct (IH w1 m1 HR1) as [m' [T W]]. destruct (wrun w1 os) as [w2 xs]. simpl in *.
          exists m'. split; auto. destruct m as [[ma mb] e]. destruct m1 as [[ma1 mb1] e1]. simpl in *. subst e1.
          destruct HR1 as [Ra1 [Rb1 _]].
          apply wt_merge_exn with (ma' := ma1) (mb' := mb1); auto; eapply R_nodup; eauto.
      + destruct (wspec_step m o) as [m1 y] eqn:Esp. simpl in *.
        destruct (IH w1 m1 HR1) as [m' [T W]]. destruct (wrun w1 os) as [w2 xs]. simpl in *.
        exists m'. split; auto. eapply wt_ok; eauto.
  Qed.

  (* ================= "Hash table is full" is unreachable ================= *)
  Hypothesis probe_cover : forall hc log b, 0 <= log <= maxLog -> 0 <= b < 2 ^ log ->
    exists p : nat, Z.of_nat p < 2 ^ log /\ path hc (2 ^ log) p = b.
  Hypothesis calc_le : forall log, 0 <= log <= maxLog -> calcCapacity (2 ^ log) <= cap * 2 ^ log.

  Lemma add_loop_none t hc : forall n q, add_loop n t (Z.of_nat q) (path hc (bcount t) q) = None ->
    forall q', (q <= q' <= q + n)%nat -> isFull (getb t (path hc (bcount t) q')) = true.
  Proof.
    induction n; intros q H q' Hq; rewrite add_loop_eq in H;
      destruct (isFull (getb t (path hc (bcount t) q))) eqn:F; try discriminate.
    - replace q' with q by lia. exact F.
    - replace (Z.of_nat q + 1) with (Z.of_nat (S q)) in H by lia.
      change (next (path hc (bcount t) q) (bcount t) (Z.of_nat (S q))) with (path hc (bcount t) (S q)) in H.
      destruct (Nat.eq_dec q' q); [subst; exact F|]. apply (IHn _ H). lia.
  Qed.

  Lemma tadd_some t kv : TInv t -> (exists b, 0 <= b < bcount t /\ isFull (getb t b) = false) -> exists t', tadd t kv = Some t'.
  Proof.
    intros I [b [Hb Hf]]. unfold HashModel.tadd.
    destruct (add_loop (Z.to_nat (bcount t - 1)) t 0 (start (h (fst kv)) (bcount t))) as [[idx probe]|] eqn:E; [eauto|].
    exfalso. destruct (probe_cover (h (fst kv)) (tlog t) b (ti_log _ I) Hb) as [p [Hp Eb]].
    pose proof (add_loop_none t (h (fst kv)) _ 0%nat E p) as F. fold (bcount t) in Eb, Hp. rewrite Eb in F.
    rewrite F in Hf; [discriminate|]. lia.
  Qed.

  Lemma exists_nonfull (l : list bucket) : Z.of_nat (length (flat_map (@items B) l)) < cap * Z.of_nat (length l) ->
    exists n, (n < length l)%nat /\ blen (nth n l emptyB) < cap.
  Proof.
    induction l as [|a r IH]; simpl; intros H; [lia|].
    destruct (Z.ltb_spec (blen a) cap) as [Hl|Hl].
    - exists 0%nat. split; [lia|exact Hl].
    - destruct IH as [n [Hn Hb]].
      + rewrite app_length in H. unfold HashModel.blen in Hl. lia.
      + exists (S n). split; [lia|exact Hb].
  Qed.

  Lemma table_has_room t : TInv t -> Z.of_nat (length (tall t)) < cap * bcount t ->
    exists b, 0 <= b < bcount t /\ isFull (getb t b) = false.
  Proof.
    intros I H. pose proof (bcount_pos t (proj1 (ti_log _ I))) as Hbc.
    destruct unlimited eqn:U.
    - exists 0. split; [lia|]. unfold HashModel.isFull. reflexivity.
    - destruct (exists_nonfull (tbs t)) as [n [Hn Hb]].
      + unfold tall in H. rewrite (ti_len _ I). rewrite Z2Nat.id by lia. exact H.
      + exists (Z.of_nat n). rewrite (ti_len _ I) in Hn. split; [lia|].
        unfold HashModel.isFull, HashModel.getb. rewrite Nat2Z.id. apply Z.leb_gt. exact Hb.
  Qed.

  (* mCapacity never promises more than the newest table can hold *)
  Definition CapOK (s : hset) : Prop :=
    match gens s with [] => True | t :: _ => capacity s <= cap * bcount t end.
  Definition Reach (s : hset) : Prop := Inv s /\ CapOK s.

  Lemma tall_le_hall s t r : gens s = t :: r -> (length (tall t) <= length (hall s))%nat.
  Proof. intros E. unfold hall. rewrite E, gall_cons, app_length. lia. Qed.

  (* pvAdd with mCount < mCapacity never throws *)
  Theorem hadd_nogrow_never_full s kv bud : Reach s -> count s < capacity s -> exists s', hadd s kv bud = Some s'.
  Proof.
    intros [I C] Hc. unfold HashModel.hadd. destruct (Z.ltb_spec (count s) (capacity s)); [|lia].
    destruct (gens s) as [|t r] eqn:Eg.
    - exfalso. rewrite (inv_cap _ I Eg) in Hc. rewrite (inv_count _ I) in Hc. lia.
    - pose proof (inv_t _ I) as F. rewrite Eg in F. inversion F as [|? ? It _]; subst.
      unfold CapOK in C. rewrite Eg in C.
      destruct (tadd_some t kv It) as [t' E].
      + apply table_has_room; auto. pose proof (tall_le_hall s t r Eg). rewrite (inv_count _ I) in Hc. lia.
      + rewrite E. eauto.
  Qed.

  (* pvAddGrow: the fresh table always accepts the item; only MOMO_CHECK(newCapacity > mCount) / length_error remain *)
  Theorem hadd_grow_ok s kv bud nl : Inv s -> ~ (count s < capacity s) ->
    reserve_log calcCapacity 64 (newLog (gens s)) (count s + 1) = Some nl -> nl <= maxLog -> exists s', hadd s kv bud = Some s'.
  Proof.
    intros I Hc H1 H2. unfold HashModel.hadd. destruct (Z.ltb_spec (count s) (capacity s)); [lia|].
    rewrite H1. destruct (Z.ltb_spec maxLog nl); [lia|].
    pose proof (newLog_nonneg _ (inv_t _ I)) as Hn0. pose proof (reserve_log_ge _ _ _ _ H1) as Hge.
    assert (It0 : TInv (newTable nl)) by (apply newTable_inv; lia).
    destruct (tadd_some _ kv It0) as [t' E]; [|rewrite E; eauto].
    exists 0. split; [apply (conj (Z.le_refl 0)); apply bcount_pos; simpl; lia|].
    unfold HashModel.getb, HashModel.newTable. simpl. rewrite nth_repeat.
    unfold HashModel.isFull, HashModel.blen. simpl. destruct unlimited; auto. apply Z.leb_gt. lia.
  Qed.

  (* CapOK is preserved by every operation *)
  Lemma relocate_head nw olds bud : Forall TInv (nw :: olds) -> NoDup (K (gall (nw :: olds))) ->
    exists nw' rest, relocate (nw :: olds) bud = nw' :: rest /\ tlog nw' = tlog nw.
  Proof.
    Transparent HashModel.relocate.
    intros F ND. destruct olds as [|g olds]; [simpl; eauto|].
    unfold HashModel.relocate.
    destruct (reloc_gens (g :: olds) nw bud) as [[[olds' nw'] bud'] ok] eqn:E.
    inversion F as [|? ? I Fo]; subst.
    assert (ND0 : NoDup (K (gall (g :: olds) ++ tall nw))).
    { eapply NoDup_keys_perm; [|exact ND]. rewrite gall_cons. apply Permutation_app_comm. }
    destruct (reloc_gens_spec _ _ _ _ _ _ _ Fo I ND0 E) as [F1 [I1 [L1 P1]]]. eauto.
    Opaque HashModel.relocate.
  Qed.

  Lemma capok_relocated t r bud c cp : Forall TInv (t :: r) -> NoDup (K (gall (t :: r))) -> cp <= cap * bcount t ->
    CapOK (mkH (relocate (t :: r) bud) c cp).
  Proof.
    intros F ND H. destruct (relocate_head t r bud F ND) as [nw' [rest [E L]]].
    unfold CapOK. simpl. rewrite E. unfold HashModel.bcount in *. rewrite L. exact H.
  Qed.

  Lemma upd_gen_head gs gi (f : table -> table) : (forall t, tlog (f t) = tlog t) ->
    match gs, upd_gen B gs gi f with
    | t :: _, t' :: _ => tlog t' = tlog t
    | [], [] => True
    | _, _ => False
    end.
  Proof.
    intros Hf. unfold HashModel.upd_gen. destruct gs as [|t r]; [destruct gi; simpl; auto|].
    destruct gi; simpl; [apply Hf|destruct (nth_error r gi); reflexivity].
  Qed.

  Lemma tadd_log t kv t' : tadd t kv = Some t' -> tlog t' = tlog t.
  Proof.
    unfold HashModel.tadd. destruct (add_loop _ t 0 _) as [[idx probe]|]; [|discriminate].
    intros H; inversion H; reflexivity.
  Qed.

  Lemma add_all_log : forall its t t', add_all its t = Some t' -> tlog t' = tlog t.
  Proof.
    induction its as [|kv r IH]; simpl; intros t t' H; [inversion H; auto|].
    destruct (tadd t kv) as [t1|] eqn:E; [|discriminate]. rewrite (IH _ _ H). eapply tadd_log; eauto.
  Qed.

  Lemma bcount_log (t t' : table) : tlog t' = tlog t -> bcount t' = bcount t.
  Proof. intros E. unfold HashModel.bcount. rewrite E. reflexivity. Qed.

  Lemma hadd_capok s k v bud s' : Inv s -> CapOK s -> ~ In k (K (hall s)) -> hadd s (k, v) bud = Some s' -> CapOK s'.
  Proof.
    intros I C Hnew. unfold HashModel.hadd.
    assert (NDl : NoDup (K ((k, v) :: hall s))) by (simpl; constructor; [exact Hnew|apply I]).
    destruct (count s <? capacity s).
    - destruct (gens s) as [|t r] eqn:Eg; [discriminate|].
      destruct (tadd t (k, v)) as [t'|] eqn:E; [|discriminate]. intros H; injection H as H; subst s'.
      pose proof (inv_t _ I) as F. rewrite Eg in F. inversion F as [|? ? It Fr]; subst.
      assert (Hnt : ~ In (fst (k, v)) (map fst (tall t))).
      { intro Hin. apply Hnew. unfold hall, K. rewrite Eg, gall_cons, map_app. apply in_or_app; auto. }
      destruct (tadd_inv t (k, v) t' It Hnt E) as [It' [L P]].
      apply capok_relocated; auto.
      + eapply NoDup_keys_perm; [|exact NDl]. unfold hall. rewrite Eg, !gall_cons. rewrite P. reflexivity.
      + unfold CapOK in C. rewrite Eg in C. rewrite (bcount_log _ _ L). exact C.
    - destruct (reserve_log calcCapacity 64 (newLog (gens s)) (count s + 1)) as [nl|] eqn:El; [|discriminate].
      destruct (maxLog <? nl) eqn:Ck; [discriminate|]. apply Z.ltb_ge in Ck.
      pose proof (newLog_nonneg _ (inv_t _ I)) as Hn0. pose proof (reserve_log_ge _ _ _ _ El) as Hge.
      destruct (tadd (newTable nl) (k, v)) as [t'|] eqn:E; [|discriminate].
      intros H; injection H as H; subst s'.
      assert (It0 : TInv (newTable nl)) by (apply newTable_inv; lia).
      assert (Hnt : ~ In (fst (k, v)) (map fst (tall (newTable nl)))) by (rewrite tall_newTable; simpl; tauto).
      destruct (tadd_inv _ (k, v) t' It0 Hnt E) as [It' [L P]]. rewrite tall_newTable in P.
      apply capok_relocated.
      + constructor; [exact It'|apply I].
      + eapply NoDup_keys_perm; [|exact NDl]. rewrite gall_cons. rewrite P. reflexivity.
      + unfold HashModel.bcount. rewrite L. simpl. apply calc_le. lia.
  Qed.

  Theorem capok_step s o : Inv s -> CapOK s -> CapOK (fst (step s o)).
  Proof.
    intros I C. destruct o as [k v bud|k|k|k v|n bud|shrink| | |md r| |k v|k v|k v]; simpl; auto.
    - destruct (hfind s k) as [[[[gi idx] pos] v0]|] eqn:E; auto.
      destruct (hadd s (k, v) bud) as [s1|] eqn:Ea; auto. simpl. eapply hadd_capok; eauto. eapply hfind_none; eauto.
    - destruct (hfind s k) as [[[[gi idx] pos] v0]|] eqn:E; auto. simpl.
      pose proof (upd_gen_head (gens s) gi (fun t => tremove t idx pos) (fun t => eq_refl)) as Hh.
      unfold CapOK in *. simpl. destruct (gens s) as [|t r]; destruct (upd_gen B _ gi _) as [|t' r']; auto; try contradiction.
      rewrite (bcount_log _ _ Hh). exact C.
    - destruct (hfind s k) as [[[[gi idx] pos] v0]|] eqn:E; auto. simpl.
      pose proof (upd_gen_head (gens s) gi (fun t => tsetval t idx pos v) (fun t => eq_refl)) as Hh.
      unfold CapOK in *. simpl. destruct (gens s) as [|t r]; destruct (upd_gen B _ gi _) as [|t' r']; auto; try contradiction.
      rewrite (bcount_log _ _ Hh). exact C.
    - destruct (hreserve s n bud) as [s1|] eqn:E; auto. simpl. revert E. unfold HashModel.hreserve.
      destruct (n <=? capacity s); [intros H; inversion H; subst; auto|].
      destruct (reserve_log calcCapacity 64 (newLog (gens s)) n) as [nl|] eqn:El; [|discriminate].
      destruct (maxLog <? nl) eqn:Ck; [discriminate|]. apply Z.ltb_ge in Ck.
      intros H; injection H as H; subst s1.
      assert (Hn0 : 0 <= nl) by (pose proof (newLog_nonneg _ (inv_t _ I)); pose proof (reserve_log_ge _ _ _ _ El); lia).
      apply capok_relocated.
      + constructor; [apply newTable_inv; lia|apply I].
      + rewrite gall_cons, tall_newTable. apply I.
      + unfold HashModel.bcount. simpl. apply calc_le. lia.
    - unfold HashModel.hclear. destruct (gens s) as [|t r] eqn:Eg; auto. destruct shrink; [exact Logic.I|].
      unfold CapOK in *. simpl. rewrite Eg in C. exact C.
    - destruct (hremove_if_m s (fun kv : item => fst kv mod md =? r)) as [s1 c] eqn:E. simpl.
      unfold HashModel.hremove_if_m in E.
      pose proof (rf_loop_logs (fun kv : item => fst kv mod md =? r) (length (traverse B s)) s (it_begin B s) 0) as [L Cp].
      rewrite E in L, Cp. simpl in L, Cp.
      unfold CapOK in *. rewrite Cp. destruct (gens s) as [|t r0]; destruct (gens s1) as [|t' r']; simpl in L; try discriminate; auto.
      inversion L. rewrite (bcount_log _ _ H0). exact C.
    - destruct (hcopy s) as [s1|] eqn:E; auto. simpl. revert E. unfold HashModel.hcopy.
      destruct (count s =? 0); [intros H; inversion H; exact Logic.I|].
      destruct (copy_log calcCapacity 64 logStart (count s)) as [l|] eqn:El; [|discriminate].
      destruct (maxLog <? l) eqn:Ck; [discriminate|]. apply Z.ltb_ge in Ck.
      destruct (add_all (traverse B s) (newTable l)) as [t|] eqn:Ea; [|discriminate].
      intros H; injection H as H; subst s1.
      assert (Hl0 : 0 <= l).
      { revert El logStart_nonneg. generalize logStart. generalize 64%nat.
        induction n; simpl; intros z E Hz.
        - destruct (count s <=? calcCapacity (2 ^ z)); inversion E; subst; auto.
        - destruct (count s <=? calcCapacity (2 ^ z)); [inversion E; subst; auto|]. apply (IHn _ E). lia. }
      unfold CapOK. simpl. unfold HashModel.bcount. rewrite (add_all_log _ _ _ Ea). simpl. apply calc_le. lia.
    - destruct (hfind s k) as [[[[gi idx] pos] v0]|] eqn:E; auto.
      destruct (hadd s (k, v) None) as [s1|] eqn:Ea; auto. simpl. eapply hadd_capok; eauto. eapply hfind_none; eauto.
    - destruct (hfind s k) as [[[[gi idx] pos] v0]|] eqn:E; auto.
      destruct (hadd_nomem s (k, v)) as [s1|] eqn:Ea; auto. simpl. revert Ea. unfold HashModel.hadd_nomem.
      pose proof (hfind_none _ _ I E) as Hnew.
      destruct (count s <? capacity s); [intros Ea; eapply hadd_capok; eauto|].
      destruct (gens s) as [|t r] eqn:Eg; [discriminate|].
      destruct (tadd t (k, v)) as [t'|] eqn:Et; [|discriminate]. intros H; injection H as H; subst s1.
      pose proof (inv_t _ I) as F. rewrite Eg in F. inversion F as [|? ? It Fr]; subst.
      assert (Hnt : ~ In (fst (k, v)) (map fst (tall t))).
      { intro Hin. apply Hnew. unfold hall, K. rewrite Eg, gall_cons, map_app. apply in_or_app; auto. }
      destruct (tadd_inv t (k, v) t' It Hnt Et) as [It' [L P]].
      apply capok_relocated; auto.
      + assert (NDl : NoDup (K ((k, v) :: hall s))) by (simpl; constructor; [exact Hnew|apply I]).
        eapply NoDup_keys_perm; [|exact NDl]. unfold hall. rewrite Eg, !gall_cons. rewrite P. reflexivity.
      + unfold CapOK in C. rewrite Eg in C. rewrite (bcount_log _ _ L). exact C.
    - destruct (hfind s k) as [[[[gi idx] pos] v0]|]; auto.
  Qed.

  (* an insert of an absent key can only throw from Buckets::Create's length_error (table beyond 2^maxLog buckets; or the
     size loop runs out of its 64 doublings): "Hash table is full" is unreachable *)
  Theorem insert_never_table_full s k v bud s' : Reach s ->
    step s (OInsert k v bud) = (s', RExn) ->
    ~ (count s < capacity s) /\
    match reserve_log calcCapacity 64 (newLog (gens s)) (count s + 1) with Some nl => maxLog < nl | None => True end.
  Proof.
    intros [I C]. simpl. destruct (hfind s k) as [[[[gi idx] pos] v0]|] eqn:E; [intros H; inversion H|].
    destruct (hadd s (k, v) bud) as [s1|] eqn:Ea; [intros H; inversion H|]. intros _.
    destruct (Z.lt_ge_cases (count s) (capacity s)) as [Hc|Hc].
    - destruct (hadd_nogrow_never_full s (k, v) bud (conj I C) Hc) as [s2 E2]. congruence.
    - split; [lia|].
      destruct (reserve_log calcCapacity 64 (newLog (gens s)) (count s + 1)) as [nl|] eqn:El; auto.
      destruct (Z.lt_ge_cases maxLog nl) as [H2|H2]; auto.
      destruct (hadd_grow_ok s (k, v) bud nl I) as [s2 E2]; try lia; auto. congruence.
  Qed.

  (* ---- last round: the copy constructor and the overload fallback do not throw on reachable states ---- *)
  Lemma add_all_some : forall its t, TInv t -> NoDup (K (its ++ tall t)) ->
    Z.of_nat (length its + length (tall t)) <= cap * bcount t -> exists t', add_all its t = Some t'.
  Proof.
    induction its as [|kv rest IH]; intros t It ND Hlen; simpl; [eauto|].
    destruct (tadd_some t kv It) as [t1 E].
    { apply table_has_room; auto. simpl in Hlen. lia. }
    rewrite E.
    assert (Hnew : ~ In (fst kv) (map fst (tall t))).
    { unfold K in ND. simpl in ND. inversion ND as [|? ? Hn _]; subst. intro Hin. apply Hn. rewrite map_app. apply in_or_app; auto. }
    destruct (tadd_inv t kv t1 It Hnew E) as [I1 [L1 P1]].
    apply IH; auto.
    - eapply NoDup_keys_perm; [|exact ND]. simpl. rewrite P1. apply Permutation_middle.
    - unfold HashModel.bcount in *. rewrite L1. rewrite (Permutation_length P1). simpl in *. lia.
  Qed.

  Lemma copy_log_some n : n <= calcCapacity (2 ^ maxLog) -> forall fuel l0, l0 <= maxLog -> maxLog - l0 <= Z.of_nat fuel ->
    exists l, copy_log calcCapacity fuel l0 n = Some l /\ l0 <= l <= maxLog /\ n <= calcCapacity (2 ^ l).
  Proof.
    intros Hn. induction fuel; intros l0 H0 Hf; simpl; destruct (Z.leb_spec n (calcCapacity (2 ^ l0))) as [L|L].
    - exists l0. split; auto. split; [lia|auto].
    - assert (l0 = maxLog) by lia. subst. lia.
    - exists l0. split; auto. split; [lia|auto].
    - assert (l0 <> maxLog) by (intro; subst; lia). destruct (IHfuel (l0 + 1)) as [l [E [R1 R2]]]; try lia. exists l. split; auto. split; [lia|auto].
  Qed.

  (* HashSet(const HashSet&): with the contents fitting the largest admissible table (otherwise the real constructor throws length_error too)
     the size search ends within its 64 doublings at a size <= maxLog, and the pvAddNogrow of every item into the fresh table never
     reports "Hash table is full" (count <= CalcCapacity(bucketCount) <= maxCount * bucketCount, probing covers the table) *)
  Theorem hcopy_never_none s : Inv s -> logStart <= maxLog -> maxLog - logStart <= 64 -> count s <= calcCapacity (2 ^ maxLog) ->
    exists s', hcopy s = Some s'.
  Proof.
    intros Is Hls Hfu Hfit. unfold HashModel.hcopy. destruct (Z.eqb_spec (count s) 0) as [E0|E0]; [eauto|].
    destruct (copy_log_some (count s) Hfit 64%nat logStart Hls ltac:(simpl; lia)) as [l [El [Rl Cl]]]. rewrite El.
    destruct (Z.ltb_spec maxLog l); [lia|].
    assert (It0 : TInv (newTable l)) by (apply newTable_inv; lia).
    assert (ND : NoDup (K (traverse B s ++ tall (newTable l)))).
    { rewrite tall_newTable, app_nil_r. eapply NoDup_keys_perm; [apply Permutation_sym, traverse_perm|apply Is]. }
    destruct (add_all_some (traverse B s) (newTable l) It0 ND) as [t Ea].
    - rewrite tall_newTable. simpl. rewrite Nat.add_0_r. rewrite (Permutation_length (traverse_perm s)). rewrite <- (inv_count _ Is).
      unfold HashModel.bcount, HashModel.newTable. simpl. pose proof (calc_le l ltac:(lia)). lia.
    - rewrite Ea. eauto.
  Qed.

  Theorem copy_never_throws s : Inv s -> logStart <= maxLog -> maxLog - logStart <= 64 -> count s <= calcCapacity (2 ^ maxLog) ->
    snd (step s OCopy) = RUnit.
  Proof. intros Is A C D. cbn [HashModel.step]. destruct (hcopy_never_none s Is A C D) as [s' E]. rewrite E. reflexivity. Qed.

  (* overloadIfCannotGrow (the allocation of a bigger bucket array was refused): pvAddNogrow on the existing newest table succeeds whenever
     that table has a free slot at all; without any bucket array the bad_alloc is rethrown (gens = [] is the one remaining None) *)
  Theorem hadd_nomem_never_none s kv t r : Reach s -> gens s = t :: r -> Z.of_nat (length (tall t)) < cap * bcount t ->
    exists s', hadd_nomem s kv = Some s'.
  Proof.
    intros [Is C] Eg Hroom. unfold HashModel.hadd_nomem. destruct (Z.ltb_spec (count s) (capacity s)) as [Hc|Hc].
    - apply hadd_nogrow_never_full; [split; auto|exact Hc].
    - rewrite Eg. pose proof (inv_t _ Is) as F. rewrite Eg in F. inversion F as [|? ? It _]; subst.
      destruct (tadd_some t kv It (table_has_room t It Hroom)) as [t' E]. rewrite E. eauto.
  Qed.

  Theorem reach_init : Reach (hinit B).
  Proof. split; [apply hinit_inv|exact I]. Qed.

  Theorem reach_step s o : Reach s -> Reach (fst (step s o)).
  Proof.
    intros [I C]. split; [|apply capok_step; auto].
    destruct (step s o) as [s' x] eqn:E. simpl.
    assert (HR : R s (hall s)) by (split; auto).
    destruct (step_refines _ _ _ _ _ HR E) as [[_ Es]|[[I' _] _]]; subst; auto.
  Qed.

  Theorem reach_run : forall os s, Reach s -> Reach (fst (run s os)).
  Proof.
    induction os as [|o os IH]; intros s H; simpl; auto.
    pose proof (reach_step s o H) as H1. destruct (step s o) as [s1 x]. simpl in H1.
    specialize (IH s1 H1). destruct (run s1 os) as [s2 xs]. exact IH.
  Qed.

End TableProofs.

(* ================= packaged statements (used by Properties_C01.v) ================= *)
Record ModelOK (B : Type) (b0 : B) (decode : Z -> B -> Z) (upd_bound : B -> Z -> B) (cap : Z) (unlimited : bool) (wfThr : Z)
    (start : Z -> Z -> Z) (next : Z -> Z -> Z -> Z) (logStart : Z) (shift : Z -> Z) (maxLog : Z) (Binv : B -> Prop) : Prop := {
  ok_cap : 1 <= cap;
  ok_logStart : 0 <= logStart;
  ok_shift : forall bc, 0 <= shift bc;
  ok_thr : wfThr <= cap;
  ok_start : forall hc log, 0 <= log <= maxLog -> 0 <= start hc (2 ^ log) < 2 ^ log;
  ok_next : forall i log p, 0 <= log <= maxLog -> 0 <= i < 2 ^ log -> 0 <= next i (2 ^ log) p < 2 ^ log;
  ok_b0 : Binv b0;
  ok_upd : forall log b p, 0 <= log <= maxLog -> Binv b -> 0 <= p < 2 ^ log -> Binv (upd_bound b p);
  ok_bound : forall log b p, 0 <= log <= maxLog -> Binv b -> 0 <= p < 2 ^ log -> (1 <= p -> unlimited = false) ->
      p <= decode log (upd_bound b p) /\
      (forall q, 0 <= q < 2 ^ log -> q <= decode log b -> q <= decode log (upd_bound b p))
}.

Section Packaged.
  Variable B : Type.
  Variable b0 : B.
  Variable decode : Z -> B -> Z.
  Variable upd_bound : B -> Z -> B.
  Variable h : Z -> Z.
  Variable cap : Z.
  Variable unlimited : bool.
  Variable wf0 : bool.
  Variable wfThr : Z.
  Variable start : Z -> Z -> Z.
  Variable next : Z -> Z -> Z -> Z.
  Variable logStart : Z.
  Variable calcCapacity : Z -> Z.
  Variable shift : Z -> Z.
  Variable maxLog : Z.
  Variable Binv : B -> Prop.
  Hypothesis OK : ModelOK B b0 decode upd_bound cap unlimited wfThr start next logStart shift maxLog Binv.

  Notation Inv' := (Inv B b0 decode h cap unlimited wf0 start next maxLog Binv).
  Notation R' := (R B b0 decode h cap unlimited wf0 start next maxLog Binv).
  Notation step' := (step B b0 decode upd_bound h cap unlimited wf0 wfThr start next logStart calcCapacity shift maxLog).
  Notation run' := (run B b0 decode upd_bound h cap unlimited wf0 wfThr start next logStart calcCapacity shift maxLog).
  Notation hfind' := (hfind B b0 decode h wf0 start next).

  Theorem hash_inv_init : Inv' (hinit B).
  Proof. apply hinit_inv. Qed.

  Theorem hash_step_refines : forall s m o s' x, R' s m -> step' s o = (s', x) ->
    (x = RExn /\ s' = s) \/ (R' s' (fst (spec_step m o)) /\ out_equiv x (snd (spec_step m o))).
  Proof. destruct OK. intros. eapply step_refines; eauto. Qed.

  Theorem hash_inv_step : forall s o, Inv' s -> Inv' (fst (step' s o)).
  Proof.
    intros s o I. destruct (step' s o) as [s' x] eqn:E. simpl.
    assert (HR : R' s (hall B s)) by (split; auto).
    destruct (hash_step_refines _ _ _ _ _ HR E) as [[_ Es]|[[I' _] _]]; subst; auto.
  Qed.

  Theorem find_iff_spec : forall s, Inv' s -> forall k v,
    (exists gi idx pos, hfind' s k = Some (gi, idx, pos, v)) <-> In (k, v) (hall B s).
  Proof.
    destruct OK. intros s I k v. split.
    - intros [gi [idx [pos E]]]. eapply hfind_in; eauto.
    - intros Hin. eapply hfind_complete; eauto.
  Qed.

  Theorem find_eq_spec_lookup : forall s, Inv' s -> forall k,
    match hfind' s k with Some (_, _, _, v) => Some v | None => None end = sp_find (hall B s) k.
  Proof.
    destruct OK. intros s I k. destruct (hfind' s k) as [[[[gi idx] pos] v]|] eqn:E.
    - symmetry. apply sp_find_in; [apply I|]. eapply hfind_in; eauto.
    - symmetry. apply sp_find_notin. eapply hfind_none; eauto.
  Qed.

  Theorem traversal_perm : forall s, Inv' s ->
    Permutation (traverse B s) (hall B s) /\ NoDup (map fst (traverse B s)) /\ count s = Z.of_nat (length (traverse B s)).
  Proof.
    intros s I. pose proof (traverse_perm B s) as P. split; auto. split.
    - eapply NoDup_keys_perm; [apply Permutation_sym; exact P|apply I].
    - rewrite (Permutation_length P). apply I.
  Qed.

  Theorem hash_refines_all_histories : forall os,
    Inv' (fst (run' (hinit B) os)) /\
    Permutation (hall B (fst (run' (hinit B) os))) (fst (spec_run [] os (snd (run' (hinit B) os)))) /\
    Forall2 out_equiv (snd (run' (hinit B) os)) (snd (spec_run [] os (snd (run' (hinit B) os)))).
  Proof.
    destruct OK. intros os.
    assert (HR : R' (hinit B) []) by (split; [apply hinit_inv|reflexivity]).
    destruct (run_refines B b0 decode upd_bound h cap unlimited wf0 wfThr start next logStart calcCapacity shift maxLog Binv
                ok_cap0 ok_logStart0 ok_shift0 ok_thr0 ok_start0 ok_next0 ok_b1 ok_upd0 ok_bound0 os _ _ HR) as [[I P] F].
    auto.
  Qed.

  Notation WR' := (WR B b0 decode h cap unlimited wf0 start next maxLog Binv).
  Notation wstep' := (wstep B b0 decode upd_bound h cap unlimited wf0 wfThr start next logStart calcCapacity shift maxLog).
  Notation wrun' := (wrun B b0 decode upd_bound h cap unlimited wf0 wfThr start next logStart calcCapacity shift maxLog).

  (* two containers + ExtractedItem holder: Extract / Insert(ExtractedItem) / Swap / move assignment / MergeTo *)
  Theorem world_step_refines : forall w m o w' x, WR' w m -> wstep' w o = (w', x) ->
    (x = RExn /\ (w' = w \/ exists m', WR' w' m' /\ o = WMergeAB /\
        Permutation (fst (fst m') ++ snd (fst m')) (fst (fst m) ++ snd (fst m)) /\ snd m' = snd m)) \/
    (WR' w' (fst (wspec_step m o)) /\ out_equiv x (snd (wspec_step m o))).
  Proof. destruct OK. intros. eapply wstep_refines; eauto. Qed.

  Theorem world_refines_all_histories : forall os,
    no_merge_exn os (snd (wrun' (winit B) os)) ->
    WR' (fst (wrun' (winit B) os)) (fst (wspec_run ([], [], None) os (snd (wrun' (winit B) os)))) /\
    Forall2 out_equiv (snd (wrun' (winit B) os)) (snd (wspec_run ([], [], None) os (snd (wrun' (winit B) os)))).
  Proof.
    destruct OK. intros os Hn.
    assert (HR : WR' (winit B) ([], [], None)).
    { simpl. split; [|split; auto]; (split; [apply hinit_inv|reflexivity]). }
    eapply wrun_refines; eauto.
  Qed.

  (* Remove(filter) -- defined in `step` as the loop over the iterator machine -- removes exactly the matching items *)
  Theorem remove_if_machine_spec : forall s p s' c, Inv' s -> hremove_if_m B b0 wf0 s p = (s', c) ->
    Inv' s' /\ Permutation (hall B s') (filter (negp p) (hall B s)) /\
    c = Z.of_nat (length (hall B s)) - Z.of_nat (length (hall B s')).
  Proof. destruct OK. intros. eapply hremove_if_m_spec; eauto. Qed.

  (* ALL histories of the pair of containers, interrupted MergeTo included (relation wtrace) *)
  Theorem world_traces_all_histories : forall os,
    exists m', wtrace ([], [], None) os (snd (wrun' (winit B) os)) m' /\ WR' (fst (wrun' (winit B) os)) m'.
  Proof.
    destruct OK. intros os.
    assert (HR : WR' (winit B) ([], [], None)).
    { simpl. split; [|split; auto]; (split; [apply hinit_inv|reflexivity]). }
    eapply wrun_trace; eauto.
  Qed.
End Packaged.

(* "Hash table is full" unreachable: additionally the probe sequence visits every bucket and mCapacity fits the table *)
Section PackagedFull.
  Variable B : Type.
  Variable b0 : B.
  Variable decode : Z -> B -> Z.
  Variable upd_bound : B -> Z -> B.
  Variable h : Z -> Z.
  Variable cap : Z.
  Variable unlimited : bool.
  Variable wf0 : bool.
  Variable wfThr : Z.
  Variable start : Z -> Z -> Z.
  Variable next : Z -> Z -> Z -> Z.
  Variable logStart : Z.
  Variable calcCapacity : Z -> Z.
  Variable shift : Z -> Z.
  Variable maxLog : Z.
  Variable Binv : B -> Prop.
  Hypothesis OK : ModelOK B b0 decode upd_bound cap unlimited wfThr start next logStart shift maxLog Binv.
  Hypothesis cover : forall hc log b, 0 <= log <= maxLog -> 0 <= b < 2 ^ log ->
    exists p : nat, Z.of_nat p < 2 ^ log /\ path start next hc (2 ^ log) p = b.
  Hypothesis calc_le : forall log, 0 <= log <= maxLog -> calcCapacity (2 ^ log) <= cap * 2 ^ log.

  Notation Reach' := (Reach B b0 decode h cap unlimited wf0 start next maxLog Binv).
  Notation step' := (step B b0 decode upd_bound h cap unlimited wf0 wfThr start next logStart calcCapacity shift maxLog).
  Notation run' := (run B b0 decode upd_bound h cap unlimited wf0 wfThr start next logStart calcCapacity shift maxLog).

  Theorem reachable_all_histories : forall os, Reach' (fst (run' (hinit B) os)).
  Proof. destruct OK. intros os. eapply reach_run; eauto. apply reach_init. Qed.

  Theorem never_table_full : forall s k v bud s', Reach' s -> step' s (OInsert k v bud) = (s', RExn) ->
    ~ (count s < capacity s) /\
    match reserve_log calcCapacity 64 (newLog B logStart shift (gens s)) (count s + 1) with Some nl => maxLog < nl | None => True end.
  Proof. destruct OK. intros. eapply insert_never_table_full; eauto. Qed.
  Theorem copy_no_throw : forall s, Reach' s -> logStart <= maxLog -> maxLog - logStart <= 64 -> count s <= calcCapacity (2 ^ maxLog) ->
    exists s', step' s OCopy = (s', RUnit).
  Proof.
    destruct OK. intros s [Is C] A D E.
    assert (H : exists s', hcopy B b0 upd_bound h cap unlimited wf0 wfThr start next logStart calcCapacity maxLog s = Some s')
      by (eapply hcopy_never_none; eauto).
    destruct H as [s' H]. exists s'. cbn [step]. rewrite H. reflexivity.
  Qed.

  Theorem nomem_insert_no_throw : forall s kv t r, Reach' s -> gens s = t :: r ->
    Z.of_nat (length (flat_map (@items B) (tbs t))) < cap * 2 ^ tlog t ->
    exists s', hadd_nomem B b0 upd_bound h cap unlimited wf0 wfThr start next logStart calcCapacity shift maxLog s kv = Some s'.
  Proof. destruct OK. intros s kv t r HR Eg Hroom. eapply hadd_nomem_never_none; eauto. Qed.
End PackagedFull.
