(* C01 -- per-bucket-kind facts assumed by the instantiation, proved against regenerated leaves where cxx2coq can translate them.
   Translated: BucketUnlimP::{IsFull, WasFull, GetMaxProbe}; BucketLimP1::{pvGetCount, pvGetMemPoolIndex(), IsFull}.
   NOT translatable with the current translator (hand-mirrored in prop.py params(), validated by the per-bucket WasFull / item-order
   comparison of the shape correspondence): the WasFull rules of LimP1 / Lim4 / LimP (they compare the two OVERLOADS
   pvGetMemPoolIndex() and pvGetMemPoolIndex(maxCount), which the translator resolves by name only; LimP1 also reads the
   static constant Params::skipFirstMemPool of a nested class), Lim4's and LimP's pointer-state packing (mPtrState arithmetic with
   memory-pool pointers), and every Bucket::Remove of these kinds (itemReplacer(items[count-1], *iter): the element that moves into
   the hole is the last one -- observed by the shape correspondence after every removal). *)
From Coq Require Import ZArith Bool Lia List.
Import ListNotations.
From MomoCommon Require Import GenPrelude.
From C01 Require Gen_UnlimP Gen_LimP1 Gen_LimP1t Gen_LimP1f Gen_Lim4 Gen_LimP Gen_One.
Local Open Scope Z_scope.

(* UnlimP: never full, never "was full", max probe 0  ==  the model parameters unlimited = true, wf0 = false, bound kind 1 *)
Theorem unlimp_facts : Gen_UnlimP.IsFull = false /\ Gen_UnlimP.WasFull = false /\ Gen_UnlimP.GetMaxProbe = 0.
Proof. repeat split; reflexivity. Qed.

(* LimP1: mState = (memPoolIndex << 4) | count; the decoders invert the packing and IsFull <-> count = maxCount (the model's cap) *)
Theorem limp1_state_decoders maxCount idx count : 0 <= idx < 16 -> 0 <= count < 16 ->
  Gen_LimP1.pvGetCount (idx * 16 + count) = count /\
  Gen_LimP1.pvGetMemPoolIndex (idx * 16 + count) = idx /\
  (Gen_LimP1.IsFull maxCount (idx * 16 + count) = true <-> count = maxCount).
Proof.
  intros Hi Hc. unfold Gen_LimP1.IsFull, Gen_LimP1.pvGetCount, Gen_LimP1.pvGetMemPoolIndex.
  assert (E1 : Z.land (idx * 16 + count) 15 = count).
  { change 15 with (Z.ones 4). rewrite Z.land_ones by lia. change (2 ^ 4) with 16.
    rewrite Z.add_comm, Z.mod_add by lia. apply Z.mod_small. lia. }
  assert (E2 : Z.shiftr (idx * 16 + count) 4 = idx).
  { rewrite Z.shiftr_div_pow2 by lia. change (2 ^ 4) with 16. rewrite Z.add_comm, Z.div_add by lia.
    rewrite Z.div_small by lia. lia. }
  rewrite E1, E2. split; auto. split; auto. apply Z.eqb_eq.
Qed.

(* ================= round 5: the WasFull rules, translated with both pvGetMemPoolIndex overloads (asserts dropped: -DNDEBUG) =================
   WasFull() == (stored memory-pool index == pvGetMemPoolIndex(maxCount)); the stored index after the bucket has held c items is
   pvGetMemPoolIndex(c) (AddCrt grows the pool index one step at a time and Remove never lowers it: validated by the shape
   comparison), so "WasFull becomes true at the first c with index(c) = index(maxCount)" = prop.py params()'s (wf0, thr). *)

(* LimP1, skipFirstMemPool = true *)
Theorem limp1t_wasfull maxCount idx count : 0 <= idx < 16 -> 0 <= count < 16 ->
  Gen_LimP1t.WasFull maxCount (idx * 16 + count) = (idx =? Gen_LimP1t.pvGetMemPoolIndexOf maxCount).
Proof.
  intros Hi Hc. unfold Gen_LimP1t.WasFull, Gen_LimP1t.pvGetMemPoolIndex.
  rewrite Z.shiftr_div_pow2 by lia. change (2 ^ 4) with 16. rewrite Z.add_comm, Z.div_add by lia. rewrite Z.div_small by lia. reflexivity.
Qed.

Theorem limp1t_index_rule maxCount c : 1 <= c <= maxCount ->
  (Gen_LimP1t.pvGetMemPoolIndexOf c = Gen_LimP1t.pvGetMemPoolIndexOf maxCount <-> (c = maxCount \/ (maxCount = 2 /\ c = 1))).
Proof.
  intros H. unfold Gen_LimP1t.pvGetMemPoolIndexOf, Gen_LimP1t.skipFirstMemPool. simpl.
  destruct (Z.eqb_spec c 1), (Z.eqb_spec maxCount 1); lia.
Qed.

(* LimP1, skipFirstMemPool = false: the index is the count, WasFull exactly from count = maxCount on *)
Theorem limp1f_index_rule maxCount c : 1 <= c <= maxCount ->
  (Gen_LimP1f.pvGetMemPoolIndexOf c = Gen_LimP1f.pvGetMemPoolIndexOf maxCount <-> c = maxCount).
Proof. intros H. unfold Gen_LimP1f.pvGetMemPoolIndexOf, Gen_LimP1f.skipFirstMemPool. simpl. lia. Qed.

(* Lim4 (logMaxCount = 2, maxCount = 4): null states, index = count, and the packing of the state word with an ABSTRACT pointer *)
Theorem lim4_wasfull_rule :
  Gen_Lim4.maxCount = 4 /\
  Gen_Lim4.WasFull Gen_Lim4.stateNull = false /\ Gen_Lim4.WasFull Gen_Lim4.stateNullWasFull = true /\
  (forall c, Gen_Lim4.pvGetMemPoolIndexOf c = c) /\
  (forall st, Gen_Lim4.pvIsEmpty st = false ->
     Gen_Lim4.WasFull st = (Gen_Lim4.pvGetMemPoolIndex st =? Gen_Lim4.pvGetMemPoolIndexOf Gen_Lim4.maxCount)).
Proof.
  split; [vm_compute; reflexivity|]. split; [vm_compute; reflexivity|]. split; [vm_compute; reflexivity|]. split; [reflexivity|].
  intros st H. unfold Gen_Lim4.pvIsEmpty in H. apply orb_false_iff in H. destruct H as [H1 H2].
  unfold Gen_Lim4.WasFull. rewrite H1, H2. reflexivity.
Qed.

(* pvSet packs ((memPoolIndex-1) << 30) + ptr*memPoolIndex + count-1; whatever the pointer part (below 2^30), the pool index is read back *)
Theorem lim4_pack_index st ptr idx count : 1 <= idx <= 4 -> 1 <= count <= idx -> 0 <= ptr -> ptr * idx + count - 1 < 2 ^ 30 ->
  Gen_Lim4.pvGetMemPoolIndex (Gen_Lim4.pvSet st ptr idx count) = idx.
Proof.
  intros Hi Hc Hp Hb. unfold Gen_Lim4.pvSet, Gen_Lim4.pvGetMemPoolIndex, Gen_Lim4.logMaxCount.
  change (wrapU 64 (32 - 2)) with 30.
  assert (H30 : 2 ^ 30 = 1073741824) by reflexivity. assert (H32 : 2 ^ 32 = 4294967296) by reflexivity.
  assert (H64 : 2 ^ 64 = 18446744073709551616) by reflexivity.
  assert (Hpi : 0 <= ptr * idx) by nia.
  rewrite (wrapU_small 64 (idx - 1)) by lia. rewrite Z.shiftl_mul_pow2 by lia.
  rewrite (wrapU_small 64 ((idx - 1) * 2 ^ 30)) by lia.
  rewrite (wrapU_small 64 (ptr * idx)) by lia.
  rewrite (wrapU_small 64 ((idx - 1) * 2 ^ 30 + ptr * idx)) by lia.
  rewrite (wrapU_small 64 ((idx - 1) * 2 ^ 30 + ptr * idx + count)) by lia.
  rewrite (wrapU_small 64 ((idx - 1) * 2 ^ 30 + ptr * idx + count - 1)) by lia.
  rewrite (wrapU_small 32) by lia.
  rewrite Z.shiftr_div_pow2 by lia.
  replace ((idx - 1) * 2 ^ 30 + ptr * idx + count - 1) with ((ptr * idx + count - 1) + (idx - 1) * 2 ^ 30) by lia.
  rewrite Z.div_add by lia. rewrite Z.div_small by lia. rewrite wrapU_small; lia.
Qed.

(* LimP with pointer state (this instantiation: maxCount = 8, items no larger than their alignment => odd pools skipped):
   index(c) = c + c mod 2, so WasFull turns true already at c = 7 = maxCount - 1 (params(): thr = N - 1) *)
Theorem limp_wasfull_rule :
  Gen_LimP.maxCount = 8 /\ Gen_LimP.skipOddMemPools = true /\
  Gen_LimP.WasFull Gen_LimP.stateNull = false /\ Gen_LimP.WasFull Gen_LimP.stateNullWasFull = true /\
  (forall c, 1 <= c <= 8 -> (Gen_LimP.pvGetMemPoolIndexOf c = Gen_LimP.pvGetMemPoolIndexOf Gen_LimP.maxCount <-> 7 <= c)).
Proof.
  split; [reflexivity|]. split; [vm_compute; reflexivity|]. split; [vm_compute; reflexivity|]. split; [vm_compute; reflexivity|].
  intros c H. assert (Hc : c = 1 \/ c = 2 \/ c = 3 \/ c = 4 \/ c = 5 \/ c = 6 \/ c = 7 \/ c = 8) by lia.
  destruct Hc as [E|[E|[E|[E|[E|[E|[E|E]]]]]]]; subst c; vm_compute; split; intros; try discriminate; try lia; auto;
    match goal with H : _ |- _ => try (exfalso; apply H; reflexivity) end.
Qed.

(* ================= growth round 2: BucketOne (64-bit hash state), regenerated AddCrt / Remove / Clear / IsFull / WasFull =================
   the model's parameters for kind One are cap = 1, wf0 = false, wfThr = 1: a cleared bucket is neither full nor was-full, AddCrt makes it
   full and was-full, Remove makes it not full but leaves was-full set (sticky), Clear resets both. *)
Lemma lor1_odd x : 0 <= x -> Z.land (Z.lor x 1) 1 = 1.
Proof.
  intros H. rewrite Z.land_lor_distr_l. change (Z.land 1 1) with 1.
  change 1 with (Z.ones 1) at 1. rewrite Z.land_ones by lia. change (2 ^ 1) with 2.
  pose proof (Z.mod_pos_bound x 2 ltac:(lia)) as B. assert (E : x mod 2 = 0 \/ x mod 2 = 1) by lia.
  destruct E as [E|E]; rewrite E; reflexivity.
Qed.

Theorem one_ops_facts :
  (Gen_One.IsFull (Gen_One.Clear 0) = false /\ Gen_One.WasFull (Gen_One.Clear 0) = false) /\
  (forall st hc, Gen_One.IsFull st = false ->
     exists st', Gen_One.AddCrt st hc = Ok (tt, st') /\ Gen_One.IsFull st' = true /\ Gen_One.WasFull st' = true) /\
  (forall st a, Gen_One.IsFull st = true ->
     exists st', Gen_One.Remove st a a = Ok (tt, st') /\ Gen_One.IsFull st' = false /\ Gen_One.WasFull st' = true).
Proof.
  split; [split; reflexivity|]. split.
  - intros st hc H. unfold Gen_One.AddCrt. rewrite H. simpl negb. cbv iota. eexists. split; [reflexivity|].
    unfold Gen_One.pvGetHashState, Gen_One.IsFull, Gen_One.WasFull.
    assert (Hw : 0 <= wrapU 64 (Z.shiftl hc 1)) by (apply wrapU_range; lia).
    rewrite lor1_odd by auto. split; [reflexivity|].
    destruct (Z.eqb_spec (Z.lor (wrapU 64 (Z.shiftl hc 1)) 1) 0) as [E|E]; auto.
    exfalso. pose proof (lor1_odd _ Hw) as O. rewrite E in O. discriminate.
  - intros st a H. unfold Gen_One.Remove. rewrite Z.eqb_refl, H. eexists. split; [reflexivity|]. split; reflexivity.
Qed.
