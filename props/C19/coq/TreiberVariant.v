(* C19 -- WHY the link word must be rewritten after a failed CAS.
   `step_nr` is the machine of Treiber.v except that a failed CAS only refreshes the expected value (as
   compare_exchange_weak does with its first argument) and goes straight back to the CAS, WITHOUT storing the new head
   into the row's link word:
        void* headRaw = *mFreeRaws;  ToBuffer(headRaw, raw);
        while (!mFreeRaws->compare_exchange_weak(headRaw, raw)) ;
   Two concrete 2-disposer schedules (checked by vm_compute) show that this variant loses a row, respectively makes the
   owner deallocate a row that is alive; the invariant of the real machine fails in both. *)
From Coq Require Import List Arith Bool PeanoNat.
From C19 Require Import Treiber TreiberInv TreiberThms.
Import ListNotations.

Definition step_nr (s : state) (l : label) : option state :=
  match l with
  | DCas t sp =>
      match dpcs s t with
      | Linked r h =>
          if negb sp && oeqb (head s) h then step s l
          else Some (mkState (head s) (link s) (upd (dpcs s) t (Linked r (head s))) (own s)
                             (status s) (gen s) (shared s) (drain s)
                             (disposed s) (published s) (reclaimed s))
      | _ => None
      end
  | _ => step s l
  end.

Fixpoint run_nr (s : state) (ls : list label) : option state :=
  match ls with
  | [] => Some s
  | l :: ls' => match step_nr s l with Some s' => run_nr s' ls' | None => None end
  end.

(* disposer 1 links row 0 onto the empty list, disposer 2 publishes row 1, disposer 1's CAS fails and is retried
   without relinking: row 0 is published with a null link and row 1 falls off the list for ever *)
Definition sched_lost : list label :=
  [ OAlloc 0 None; OAlloc 1 None;
    DBegin 1 0; DLoad 1; DLink 1;
    DBegin 2 1; DLoad 2; DLink 2; DCas 2 false;
    DCas 1 false;            (* fails: head is row 1, expected null; expected := row 1, link NOT rewritten *)
    DCas 1 false;            (* succeeds: head := row 0 whose link word is still null *)
    OExchange; ORead; OFree None; ODone ].

Theorem norelink_loses_a_row_refuted :
  exists s, run_nr init sched_lost = Some s /\ quiescent s /\
    In (1, 1) (published s) /\ ~ In (1, 1) (reclaimed s) /\ reclaimed s = [(0, 1)] /\ status s 1 = Listed.
Proof.
  eexists; split; [vm_compute; reflexivity|].
  split; [|vm_compute; repeat split; auto; intros [H|[]]; discriminate].
  split; [|vm_compute; repeat split].
  intros t. vm_compute. destruct t as [|[|[|t]]]; reflexivity.
Qed.

(* in the real machine the same schedule is impossible to complete that way: the failed CAS sends disposer 1 back to
   the load, so the second DCas is not enabled *)
Theorem real_machine_rejects_sched_lost : run init sched_lost = None.
Proof. vm_compute. reflexivity. Qed.

(* the stale link can also point to a row that has meanwhile been reclaimed and handed out again: the owner then
   deallocates a row that is ALIVE *)
Definition sched_live_freed : list label :=
  [ OAlloc 0 None; OAlloc 1 None;
    DBegin 2 1; DLoad 2; DLink 2; DCas 2 false;      (* list = [1] *)
    DBegin 1 0; DLoad 1; DLink 1;                     (* row 0 linked onto row 1 *)
    OExchange; ORead; OFree None; ODone;              (* the owner drains and reclaims row 1 *)
    DCas 1 false;                                     (* fails: head is null; expected := null, link NOT rewritten *)
    DCas 1 false;                                     (* succeeds: head := row 0, link(0) = row 1 (stale) *)
    OAlloc 1 None;                                    (* the pool hands row 1 out again: it is alive *)
    OExchange; ORead; OFree None; ORead ].            (* the walk follows the stale link to the live row 1 *)

Theorem norelink_frees_a_live_row_refuted :
  exists s n, run_nr init sched_live_freed = Some s /\
    own s = ONext 1 n /\ status s 1 = Detached /\ step s (OFree None) <> None /\ ~ inv s.
Proof.
  eexists; eexists; split; [vm_compute; reflexivity|].
  split; [vm_compute; reflexivity|]. split; [vm_compute; reflexivity|]. split; [vm_compute; discriminate|].
  intros I. pose proof (i_own _ I) as O. pose proof (i_listed _ I 1) as L.
  vm_compute in O. destruct O as [d [E _]]. vm_compute in L. destruct L as [_ L].
  assert (X : In 1 (1 :: d)) by (left; reflexivity). rewrite <- E in X. specialize (L X). discriminate.
Qed.
